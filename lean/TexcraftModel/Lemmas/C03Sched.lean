import TexcraftModel.Lemmas.C03

/-! C03 — the refinement for a configuration that changes between calls (`lex_eq_spec_sched`):
`line_step1` (one call inside a line against `Spec.scan1`, with the resumption point),
`nx1` (one call across lines against `Spec.step`), `sched_eq` (call after call, in lock step). -/
namespace C03

/-- One emitting call of `Lexer::next` inside a line, against `Spec.scan1`. -/
structure LineStep1 (N : Nat) (L : Lexer) (item : Res Nat) (st' : St) (l' : List Char) (k' : Nat)
    (L' : Lexer) : Prop where
  st_eq : L'.st = st'
  line_eq : L'.raw.line = l'
  key_eq : L'.raw.key = k'
  inv : L'.raw.Inv N
  dec : L'.mu < L.mu
  rest : L'.raw.rest = L.raw.rest
  trimmed : L'.raw.trimmed = L.raw.trimmed
  started : L'.started = L.started
  keysum : L'.raw.key + L'.raw.line.length = L.raw.key + L.raw.line.length
  keymono : L.raw.key ≤ L'.raw.key
  itemKey : ∀ p, item.pos? = some p → L.raw.key ≤ p ∧ p < L.raw.key + L.raw.line.length
  goes : item.goesOn = true

def LineRes1 (N : Nat) (cfg : Cfg) (rep : Bool) (f : Nat) (L : Lexer) (fs : Nat) : Prop :=
  (Spec.scan1 cfg fs L.st L.raw.line L.raw.key = none ∧
    ∃ f', L.endLine.mu < f' ∧ L.nextF cfg rep f = L.endLine.nextF cfg rep f') ∨
  (∃ item st' l' k' L', Spec.scan1 cfg fs L.st L.raw.line L.raw.key = some (item, st', l', k') ∧
    L.nextF cfg rep f = (item, L') ∧ LineStep1 N L item st' l' k' L')

theorem LineRes1.lift {N : Nat} {cfg : Cfg} {rep : Bool} {L L1 : Lexer} {f fs : Nat}
    (hscan : Spec.scan1 cfg (fs + 1) L.st L.raw.line L.raw.key
      = Spec.scan1 cfg fs L1.st L1.raw.line L1.raw.key)
    (hnext : L.nextF cfg rep (f + 1) = L1.nextF cfg rep f)
    (hend : L1.endLine = L.endLine) (hmu : L1.mu ≤ L.mu)
    (hrest : L1.raw.rest = L.raw.rest) (htrim : L1.raw.trimmed = L.raw.trimmed)
    (hstarted : L1.started = L.started)
    (hsum : L1.raw.key + L1.raw.line.length = L.raw.key + L.raw.line.length)
    (hkey : L.raw.key ≤ L1.raw.key)
    (h : LineRes1 N cfg rep f L1 fs) : LineRes1 N cfg rep (f + 1) L (fs + 1) := by
  rcases h with ⟨hs, f', hf', hn⟩ | ⟨item, st', l', k', L', hs, hn, st⟩
  · left
    exact ⟨by rw [hscan, hs], f', by rw [← hend]; exact hf', by rw [hnext, hn, hend]⟩
  · right
    refine ⟨item, st', l', k', L', by rw [hscan, hs], by rw [hnext, hn], ?_⟩
    exact ⟨st.st_eq, st.line_eq, st.key_eq, st.inv, Nat.lt_of_lt_of_le st.dec hmu,
      by rw [st.rest, hrest],
      by rw [st.trimmed, htrim], by rw [st.started, hstarted], by rw [st.keysum, hsum],
      Nat.le_trans hkey st.keymono,
      fun p hp => by have := st.itemKey p hp; omega, st.goes⟩

theorem line_step1 {N : Nat} (cfg : Cfg) (rep : Bool) : ∀ (f : Nat) (L : Lexer) (fs : Nat),
    L.raw.Inv N → L.mu < f → L.raw.line.length < fs → LineRes1 N cfg rep f L fs := by
  intro f
  induction f with
  | zero => intro L fs _ hf; omega
  | succ f ih =>
    intro L fs h hf hfs
    cases fs with
    | zero => omega
    | succ fs =>
    rcases Raw.next_spec h with ⟨hl, hn⟩ | ⟨c, l, hl, hn, hk, hinv⟩
    · left
      refine ⟨by rw [hl]; simp [Spec.scan1], f + 1, ?_, ?_⟩
      · rw [Lexer.endLine_of_nil hl]; exact hf
      · rw [Lexer.endLine_of_nil hl]
    · have hlen : L.raw.line.length = l.length + 1 := by simp [hl]
      have hfs' : l.length < fs := by omega
      -- the raw lexer after the character
      generalize hr1 : ({ L.raw with line := l, key := L.raw.key + 1 } : Raw) = r1 at hn hinv
      have r1line : r1.line = l := by subst hr1; rfl
      have r1key : r1.key = L.raw.key + 1 := by subst hr1; rfl
      have r1rest : r1.rest = L.raw.rest := by subst hr1; rfl
      have r1trim : r1.trimmed = L.raw.trimmed := by subst hr1; rfl
      have hendeq : ∀ (st : St), ({ L with raw := r1.endLine, st := st } : Lexer).endLine.raw = L.endLine.raw := by
        intro st; subst hr1
        simp only [Lexer.endLine, Raw.endLine, hl, List.length_cons, List.length_nil]
        congr 1; omega
      have hmu1 : ∀ (raw : Raw) (st : St) (b : Bool), raw.rest = L.raw.rest → raw.line.length ≤ l.length →
          (Lexer.mk raw st b).mu < L.mu := by
        intro raw st b hr hle; simp only [Lexer.mu, hr]; omega
      -- a silent step that continues with `r1`
      have silent : Spec.scan1 cfg (fs + 1) L.st L.raw.line L.raw.key = Spec.scan1 cfg fs L.st l (L.raw.key + 1) →
          L.nextF cfg rep (f + 1) = Lexer.nextF cfg rep f { L with raw := r1 } →
          LineRes1 N cfg rep (f + 1) L (fs + 1) := by
        intro hs hx
        refine LineRes1.lift (L1 := { L with raw := r1 }) (by rw [hs, r1line, r1key]) hx ?_ ?_ r1rest r1trim rfl ?_ ?_
          (ih _ _ hinv ?_ (by rw [r1line]; exact hfs'))
        · have := hendeq L.st
          simp only [Lexer.endLine] at this ⊢
          subst hr1
          simp only [Raw.endLine, hl, List.length_cons]
          congr 2; omega
        · exact Nat.le_of_lt (hmu1 _ _ _ r1rest (by rw [r1line]; exact Nat.le_refl _))
        · simp only [r1line, r1key, hlen]; omega
        · simp only [r1key]; omega
        · have := hmu1 r1 L.st L.started r1rest (by rw [r1line]; exact Nat.le_refl _); omega
      -- a step that drops the rest of the line silently
      have dropLine : Spec.scan1 cfg (fs + 1) L.st L.raw.line L.raw.key = none →
          L.nextF cfg rep (f + 1) = Lexer.nextF cfg rep f { L with raw := r1.endLine } →
          LineRes1 N cfg rep (f + 1) L (fs + 1) := by
        intro hs hx
        left
        refine ⟨hs, f, ?_, ?_⟩
        · have : L.endLine.mu < L.mu := by
            simp only [Lexer.endLine, Lexer.mu, Raw.endLine, List.length_nil, hlen]; omega
          omega
        · rw [hx]
          congr 1
          subst hr1
          simp only [Lexer.endLine, Raw.endLine, hl, List.length_cons]
          congr 2; omega
      -- an emitting step that leaves `r1`
      have emit : ∀ (item : Res Nat) (st' : St), item.goesOn = true →
          (∀ p, item.pos? = some p → p = L.raw.key) →
          Spec.scan1 cfg (fs + 1) L.st L.raw.line L.raw.key = some (item, st', l, L.raw.key + 1) →
          L.nextF cfg rep (f + 1) = (item, { L with raw := r1, st := st' }) →
          LineRes1 N cfg rep (f + 1) L (fs + 1) := by
        intro item st' hg hp hs hx
        right
        refine ⟨item, _, _, _, _, hs, hx, ⟨rfl, r1line, r1key, hinv,
          hmu1 _ _ _ r1rest (by rw [r1line]; exact Nat.le_refl _), r1rest, r1trim, rfl, ?_, ?_, ?_, hg⟩⟩
        · simp only [r1line, r1key, hlen]; omega
        · simp only [r1key]; omega
        · intro p hpp; have := hp p hpp; omega
      -- an emitting step that ends the line
      have emitEnd : ∀ (item : Res Nat), item.goesOn = true →
          (∀ p, item.pos? = some p → p = L.raw.key) →
          Spec.scan1 cfg (fs + 1) L.st L.raw.line L.raw.key = some (item, .newLine, [], L.raw.key + 1 + l.length) →
          L.nextF cfg rep (f + 1) = (item, { L with raw := r1.endLine, st := .newLine }) →
          LineRes1 N cfg rep (f + 1) L (fs + 1) := by
        intro item hg hp hs hx
        right
        refine ⟨item, _, _, _, _, hs, hx, ⟨rfl, rfl, by simp only [Raw.endLine, r1key, r1line],
          Raw.Inv.endLine hinv, hmu1 _ _ _ r1rest (by simp [Raw.endLine]), r1rest, r1trim, rfl, ?_, ?_, ?_, hg⟩⟩
        · simp only [Raw.endLine, r1line, r1key, hlen, List.length_nil]; omega
        · simp only [Raw.endLine, r1key]; omega
        · intro p hpp; have := hp p hpp; omega
      have hscan0 : Spec.scan1 cfg (fs + 1) L.st L.raw.line L.raw.key
          = Spec.scan1 cfg (fs + 1) L.st (c :: l) L.raw.key := by rw [hl]
      cases hc : cfg.cat c
      case ignored =>
        exact silent (by rw [hscan0]; simp [Spec.scan1, hc]) (by simp [Lexer.nextF, hn, hc])
      case comment =>
        exact dropLine (by rw [hscan0]; simp [Spec.scan1, hc]) (by simp [Lexer.nextF, hn, hc])
      case invalid =>
        exact emit (.invalid c L.raw.key) L.st rfl (by intro p hp; simp [Res.pos?] at hp; exact hp.symm)
          (by rw [hscan0]; simp [Spec.scan1, hc]) (by simp [Lexer.nextF, hn, hc])
      case active =>
        exact emit (.token (.active c) L.raw.key) .midLine rfl
          (by intro p hp; simp [Res.pos?] at hp; exact hp.symm)
          (by rw [hscan0]; simp [Spec.scan1, hc]) (by simp [Lexer.nextF, hn, hc])
      case space =>
        cases hst : L.st
        case midLine =>
          exact emit (.token (.chr ' ' .space) L.raw.key) .skipBlanks rfl
            (by intro p hp; simp [Res.pos?] at hp; exact hp.symm)
            (by rw [hscan0]; simp [Spec.scan1, hc, hst]) (by simp [Lexer.nextF, hn, hc, hst])
        all_goals
          exact silent (by rw [hscan0]; simp [Spec.scan1, hc, hst]) (by simp [Lexer.nextF, hn, hc, hst])
      case endOfLine =>
        cases hst : L.st
        case newLine =>
          exact emitEnd (.token (.cs parName) L.raw.key) rfl
            (by intro p hp; simp [Res.pos?] at hp; exact hp.symm)
            (by rw [hscan0]; simp [Spec.scan1, hc, hst]) (by simp [Lexer.nextF, hn, hc, hst])
        case midLine =>
          exact emitEnd (.token (.chr ' ' .space) L.raw.key) rfl
            (by intro p hp; simp [Res.pos?] at hp; exact hp.symm)
            (by rw [hscan0]; simp [Spec.scan1, hc, hst]) (by simp [Lexer.nextF, hn, hc, hst])
        case skipBlanks =>
          exact dropLine (by rw [hscan0]; simp [Spec.scan1, hc, hst]) (by simp [Lexer.nextF, hn, hc, hst])
      case superscript =>
        have hp := Raw.caret_consumed hinv c
        rw [r1line] at hp
        cases he : Spec.expanded c l with
        | none =>
          rw [he] at hp
          exact emit (.token (.chr c .superscript) L.raw.key) .midLine rfl
            (by intro p hp; simp [Res.pos?] at hp; exact hp.symm)
            (by rw [hscan0]; simp [Spec.scan1, hc, he]) (by simp [Lexer.nextF, hn, hc, hp])
        | some x =>
          obtain ⟨c', l', n⟩ := x
          rw [he] at hp
          simp only [] at hp
          obtain ⟨hn2, hll⟩ := expanded_n he
          have hi := Raw.inv_of_yes hinv c true (by simp) hp
          generalize hr2 : ({ r1 with key := r1.key + (n - 1), line := c' :: l' } : Raw) = r2 at hp hi
          have r2line : r2.line = c' :: l' := by subst hr2; rfl
          have r2key : r2.key = L.raw.key + n := by subst hr2; simp only [r1key]; omega
          have r2rest : r2.rest = L.raw.rest := by subst hr2; exact r1rest
          have r2trim : r2.trimmed = L.raw.trimmed := by subst hr2; exact r1trim
          refine LineRes1.lift (L1 := { L with raw := r2 }) ?_ ?_ ?_ ?_ r2rest r2trim rfl ?_ ?_
            (ih _ _ hi ?_ ?_)
          · rw [hscan0]; simp [Spec.scan1, hc, he, r2line, r2key]
          · simp [Lexer.nextF, hn, hc, hp]
          · simp only [Lexer.endLine, Raw.endLine, hl, r2line, r2key, List.length_cons]
            subst hr2; subst hr1
            simp only []
            congr 2; omega
          · exact Nat.le_of_lt (hmu1 _ _ _ r2rest (by rw [r2line]; simp only [List.length_cons]; omega))
          · simp only [r2line, r2key, hlen, List.length_cons]; omega
          · simp only [r2key]; omega
          · have := hmu1 r2 L.st L.started r2rest (by rw [r2line]; simp only [List.length_cons]; omega)
            omega
          · simp only [r2line, List.length_cons]; omega
      case escape =>
        have he := readCS_eq cfg (r1.line.length + 1) r1 hinv
        obtain ⟨name0, st0, r0, e0, i0, le0, rr0⟩ := readCS_spec (N := N) cfg (r1.line.length + 1) r1 hinv (by omega)
        rw [r1line, r1key] at he
        rw [r1line] at e0 le0
        cases hcs : Spec.csName cfg (l.length + 1) l (L.raw.key + 1) with
        | none => rw [hcs, e0] at he; simp at he
        | some x =>
          obtain ⟨name, st', t', k'⟩ := x
          rw [hcs, e0] at he
          simp only [Out.ok.injEq, Prod.mk.injEq] at he
          obtain ⟨rfl, rfl, rfl⟩ := he
          have hsum := csName_sum cfg _ _ _ _ _ _ _ hcs
          right
          refine ⟨.token (.cs name0) L.raw.key, st0, t', k',
            { L with raw := { r1 with line := t', key := k' }, st := st0 }, ?_, ?_, ?_⟩
          · rw [hscan0]; simp [Spec.scan1, hc, hcs]
          · simp only [Lexer.nextF, hn, hc, r1line, e0]
          · refine ⟨rfl, rfl, rfl, i0, hmu1 _ _ _ (by simp [r1rest]) (by simpa using le0),
              by simp [r1rest], by simp [r1trim], rfl, ?_, ?_, ?_, rfl⟩
            · simp only [hlen] at hsum ⊢; simp only [] at le0 ⊢; omega
            · simp only [] at le0 ⊢; omega
            · intro p hp; simp [Res.pos?] at hp; omega
      all_goals
        exact emit (.token (.chr c (cfg.cat c)) L.raw.key) .midLine rfl
          (by intro p hp; simp [Res.pos?] at hp; exact hp.symm)
          (by rw [hscan0]; simp [Spec.scan1, hc]) (by simp [Lexer.nextF, hn, hc])



def shift1 (d : Nat) (x : Res Nat × St × List Char × Nat) : Res Nat × St × List Char × Nat :=
  (x.1.map (· + d), x.2.1, x.2.2.1, x.2.2.2 + d)

theorem scan1_shift (cfg : Cfg) (d : Nat) : ∀ (f : Nat) (st : St) (l : List Char) (col : Nat),
    Spec.scan1 cfg f st l (col + d) = (Spec.scan1 cfg f st l col).map (shift1 d) := by
  intro f
  induction f with
  | zero => intros; simp [Spec.scan1, shift1, Res.map]
  | succ f ih =>
    intro st l col
    unfold Spec.scan1
    cases l with
    | nil => simp
    | cons c t =>
      simp only []
      have e1 : col + d + 1 = col + 1 + d := by omega
      cases hc : cfg.cat c
      case escape =>
        simp only []
        rw [e1, csName_shift]
        cases Spec.csName cfg (t.length + 1) t (col + 1) with
        | none => simp [Res.map, shift1]
        | some x => obtain ⟨a, b, e, g⟩ := x; simp [Res.map, shift1]
      case endOfLine => cases st <;> simp [Res.map, shift1] <;> omega
      case space => cases st <;> simp [Res.map, shift1, e1, ih]
      case superscript =>
        simp only []
        cases he : Spec.expanded c t with
        | none => simp [Res.map, shift1, e1]
        | some x =>
          obtain ⟨c', t', n⟩ := x
          simp only []
          rw [show col + d + n = col + n + d by omega, ih]
      all_goals simp [Res.map, shift1, e1, ih]


/-- The lexer `L` and the specification state `s` are at the same point between two calls. -/
inductive Rel (src : List Char) (rep : Bool) (L : Lexer) (s : Spec.SState) : Prop
  | inLine (done : List (List Char)) (nl : Bool) (hA : StA src rep L done s.text nl)
      (hn : s.n = done.length + 1) (hst : L.st = s.st) (hbuf : L.raw.line = s.buf)
      (hkey : L.raw.key = s.col + (joined done).length)
      (hrest : s.rest = Spec.splitLines L.raw.rest)
  | start (hB : StB src rep L []) (hn : s.n = 0) (hbuf : s.buf = [])
      (hrest : s.rest = Spec.splitLines L.raw.rest)

/-- One call of `Lexer::next` against one `Spec.step`. -/
structure Nx1 (src : List Char) (rep : Bool) (L : Lexer) (res : Res Nat) (L' : Lexer)
    (item : Res Pos) (s' : Spec.SState) : Prop where
  item_eq : item = res.map (trace src)
  noPanic : res ≠ .panic
  noFuel : res ≠ .fuel
  rel : res.goesOn = true → Rel src rep L' s'
  dec : res.goesOn = true → L'.mu < L.mu

theorem Nx1.mono {src rep L0 L res L' item s'} (h : Nx1 src rep L res L' item s')
    (hm : L.mu ≤ L0.mu) : Nx1 src rep L0 res L' item s' :=
  ⟨h.item_eq, h.noPanic, h.noFuel, h.rel, fun g => Nat.lt_of_lt_of_le (h.dec g) hm⟩

/-- In-line states, stated without `SState` (for the induction). -/
def NxA1 (src : List Char) (cfg : Cfg) (rep : Bool) (L : Lexer) : Prop :=
  ∀ (s : Spec.SState) (f : Nat), Rel src rep L s → s.n ≠ 0 → L.mu < f →
    Nx1 src rep L (L.nextF cfg rep f).1 (L.nextF cfg rep f).2 (s.step cfg rep).1 (s.step cfg rep).2

def NxB1 (src : List Char) (cfg : Cfg) (rep : Bool) (L : Lexer) : Prop :=
  ∀ (done : List (List Char)) (f : Nat) (text : List Char) (st : St) (buf : List Char) (col : Nat),
    StB src rep L done → L.mu < f → Spec.scan1 cfg (buf.length + 1) st buf col = none →
    Nx1 src rep L (L.nextF cfg rep f).1 (L.nextF cfg rep f).2
      (Spec.step cfg rep (Spec.splitLines L.raw.rest) done.length text st buf col).1
      (Spec.step cfg rep (Spec.splitLines L.raw.rest) done.length text st buf col).2

theorem nxB1 {src : List Char} {cfg : Cfg} {rep : Bool} (m : Nat)
    (ihA : ∀ L : Lexer, L.mu < m → NxA1 src cfg rep L) :
    ∀ L : Lexer, L.mu < m + 1 → NxB1 src cfg rep L := by
  intro L hm done f text st buf col hB hf hnone
  cases f with
  | zero => omega
  | succ f =>
  have hn : L.raw.next = .eol := by simp [Raw.next, hB.line_nil]
  simp only [Lexer.nextF, hn]
  unfold Spec.step
  rw [hnone]
  simp only []
  cases hr : L.raw.rest with
  | nil =>
    simp only [Raw.startNewLine, hr, Spec.splitLines, Spec.splitLinesAux, if_true, Bool.not_false]
    exact ⟨rfl, by simp, by simp, by simp [Res.goesOn], by simp [Res.goesOn]⟩
  | cons c t =>
    obtain ⟨ln, rest', nl, hs, hdec, hnl, hln, hsplit⟩ := startNewLine_eq cfg L.raw c t hr
    obtain ⟨hsrc, hkey⟩ : src = joined done ++ L.raw.rest ∧ L.raw.key + L.raw.trimmed = (joined done).length := by
      rcases hB.body with h | h
      · rw [hr] at h; cases h
      · exact h
    generalize hraw1 : (L.raw.startNewLine cfg).2 = raw1
    have hs' : L.raw.startNewLine cfg = (true, raw1) := by rw [← hraw1, hs]
    obtain ⟨hinv1, hmu1⟩ := Raw.startNewLine_spec hB.inv hB.line_nil hs'
    rw [← hr, hs', hsplit]
    have r1key : raw1.key = (joined done).length := by
      rw [← hraw1, hs]; simp only [hB.line_nil, List.length_nil]; omega
    have r1line : raw1.line = Spec.buffer cfg ln := by rw [← hraw1, hs]
    have r1rest : raw1.rest = rest' := by rw [← hraw1, hs]
    have r1trim : raw1.trimmed = (ln.length - (Spec.trimRight ln).length + (if nl then 1 else 0))
            - (if cfg.endline.isSome then 1 else 0) := by rw [← hraw1, hs]
    have htl := trimRight_length_le ln
    have hbl := buffer_length cfg ln
    have hA : ∀ b : Bool, (rep = true → b = true) → StA src rep ⟨raw1, .newLine, b⟩ done ln nl := by
      intro b hb
      refine ⟨?_, ?_, hB.done_ok, hln, ?_, ?_, ?_, hb, hinv1⟩
      · rw [hsrc, hdec, r1rest]
      · intro h; rw [r1rest]; exact hnl h
      · rw [r1key]; exact Nat.le_refl _
      · rw [r1key, r1line, hbl]; split <;> omega
      · intro h; rw [r1key, r1line, r1trim, hbl, h]; simp only [if_true]; split <;> omega
    have hmu : ∀ b : Bool, (Lexer.mk raw1 .newLine b).mu < L.mu := by
      intro b; simp only [Lexer.mu, hB.line_nil, List.length_nil]; omega
    have hrel : ∀ b : Bool, (rep = true → b = true) →
        Rel src rep ⟨raw1, .newLine, b⟩
          ⟨done.length + 1, ln, .newLine, Spec.buffer cfg ln, 0, Spec.splitLines rest'⟩ := by
      intro b hb
      exact Rel.inLine done nl (hA b hb) rfl rfl r1line (by simp [r1key]) (by simp [r1rest])
    simp only [Bool.not_true, Bool.false_eq_true, if_false]
    have hpos : (0 < done.length) ↔ done ≠ [] := by cases done <;> simp
    cases rep with
    | false =>
      simp only [Bool.false_eq_true, if_false, false_and]
      have := ihA ⟨raw1, .newLine, L.started⟩ (by have := hmu L.started; omega) _ f
        (hrel _ (by intro h; cases h)) (by simp) (by have := hmu L.started; omega)
      exact this.mono (Nat.le_of_lt (hmu _))
    | true =>
      simp only [if_true, true_and]
      have hst := hB.started rfl
      cases hstarted : L.started with
      | true =>
        have hd : 0 < done.length := hpos.2 (hst.1 hstarted)
        simp only [if_true, hd]
        exact ⟨rfl, by simp, by simp, fun _ => hrel true (fun _ => rfl), fun _ => hmu _⟩
      | false =>
        have hd : ¬ 0 < done.length := by
          intro h; have := hst.2 (hpos.1 h); rw [hstarted] at this; cases this
        simp only [Bool.false_eq_true, if_false, hd]
        have := ihA ⟨raw1, .newLine, true⟩ (by have := hmu true; omega) _ f
          (hrel _ (fun _ => rfl)) (by simp) (by have := hmu true; omega)
        exact this.mono (Nat.le_of_lt (hmu _))


theorem nxA1 {src : List Char} {cfg : Cfg} {rep : Bool} (m : Nat)
    (hB : ∀ L : Lexer, L.mu < m + 1 → NxB1 src cfg rep L) :
    ∀ L : Lexer, L.mu < m + 1 → NxA1 src cfg rep L := by
  intro L hm s f hrel hn0 hf
  cases hrel with
  | start hB' hn _ _ => exact absurd hn hn0
  | inLine done nl hA hn hst hbuf hkey hrest =>
  have hshift := scan1_shift cfg (joined done).length (s.buf.length + 1) s.st s.buf s.col
  rcases line_step1 cfg rep f L (s.buf.length + 1) hA.inv hf (by rw [hbuf]; omega) with
    ⟨hs, f', hf', hnx⟩ | ⟨item, st', l', k', L', hs, hnx, stp⟩
  · -- the line ends silently
    rw [hst, hbuf, hkey, hshift] at hs
    have hnone : Spec.scan1 cfg (s.buf.length + 1) s.st s.buf s.col = none := by
      cases h : Spec.scan1 cfg (s.buf.length + 1) s.st s.buf s.col with
      | none => rfl
      | some x => rw [h] at hs; simp at hs
    rw [hnx]
    have hmu : L.endLine.mu ≤ L.mu := by
      simp only [Lexer.endLine, Lexer.mu, Raw.endLine, List.length_nil]; omega
    have stB : StB src rep L.endLine (done ++ [s.text]) := by
      refine ⟨rfl, ?_, ?_, ?_, Raw.Inv.endLine hA.inv⟩
      · cases hnl : nl with
        | false => left; exact hA.noNl hnl
        | true =>
          right
          refine ⟨?_, ?_⟩
          · have := hA.src_eq; rw [hnl] at this
            rw [this, joined_snoc]; simp [Lexer.endLine, Raw.endLine]
          · have := hA.nextStart hnl
            rw [joined_snoc]
            simp only [Lexer.endLine, Raw.endLine, List.length_append, List.length_cons, List.length_nil]
            omega
      · intro l hl
        simp only [List.mem_append, List.mem_singleton] at hl
        rcases hl with hl | rfl
        · exact hA.done_ok l hl
        · exact hA.text_ok
      · intro hr; simp [Lexer.endLine, hA.started hr]
    have := hB L.endLine (by omega) (done ++ [s.text]) f' s.text s.st s.buf s.col stB hf' hnone
    have e : Spec.SState.step cfg rep s
        = Spec.step cfg rep (Spec.splitLines L.endLine.raw.rest) (done ++ [s.text]).length
            s.text s.st s.buf s.col := by
      simp only [Spec.SState.step, hrest, hn, List.length_append, List.length_cons, List.length_nil]
      rfl
    rw [e]
    exact this.mono hmu
  · -- an item
    rw [hnx]
    rw [hst, hbuf, hkey, hshift] at hs
    cases h : Spec.scan1 cfg (s.buf.length + 1) s.st s.buf s.col with
    | none => rw [h] at hs; simp at hs
    | some x =>
      obtain ⟨item0, st0, l0, c0⟩ := x
      rw [h] at hs
      simp only [Option.map_some, shift1, Option.some.injEq, Prod.mk.injEq] at hs
      obtain ⟨hitem, rfl, rfl, hk⟩ := hs
      have hstep : Spec.SState.step cfg rep s
          = (item0.map (fun c => (⟨s.n, c, s.text⟩ : Pos)), ⟨s.n, s.text, st0, l0, c0, s.rest⟩) := by
        simp only [Spec.SState.step]
        unfold Spec.step
        rw [h]
      rw [hstep]
      have hA' : StA src rep L' done s.text nl := by
        refine ⟨?_, ?_, hA.done_ok, hA.text_ok, ?_, ?_, ?_, ?_, stp.inv⟩
        · rw [stp.rest]; exact hA.src_eq
        · intro h; rw [stp.rest]; exact hA.noNl h
        · exact Nat.le_trans hA.k0_le stp.keymono
        · rw [stp.keysum]; exact hA.in_line
        · intro h; rw [stp.keysum, stp.trimmed]; exact hA.nextStart h
        · intro h; rw [stp.started]; exact hA.started h
      refine ⟨?_, ?_, ?_, fun _ => ?_, fun _ => stp.dec⟩
      · -- the traced item
        have hk' := stp.itemKey
        have hin := hA.in_line
        have hk0 := hA.k0_le
        subst hitem
        cases item0 with
        | token t p =>
          have := hk' (p + (joined done).length) rfl
          simp only [Res.map, trace_posOf hA (p + (joined done).length) (by omega) (by omega), posOf, hn]
          congr 2; omega
        | invalid c p =>
          have := hk' (p + (joined done).length) rfl
          simp only [Res.map, trace_posOf hA (p + (joined done).length) (by omega) (by omega), posOf, hn]
          congr 2; omega
        | _ => rfl
      · have := stp.goes; intro h; simp only [] at h; rw [h] at this; simp [Res.goesOn] at this
      · have := stp.goes; intro h; simp only [] at h; rw [h] at this; simp [Res.goesOn] at this
      · exact Rel.inLine done nl hA' hn stp.st_eq stp.line_eq (by rw [stp.key_eq, hk])
          (by simp only [stp.rest]; exact hrest)


theorem nx1_all {src : List Char} {cfg : Cfg} {rep : Bool} : ∀ m : Nat,
    (∀ L : Lexer, L.mu < m → NxA1 src cfg rep L) ∧ (∀ L : Lexer, L.mu < m → NxB1 src cfg rep L) := by
  intro m
  induction m with
  | zero => exact ⟨by intros; omega, by intros; omega⟩
  | succ m ih =>
    have hB := nxB1 (src := src) (cfg := cfg) (rep := rep) m ih.1
    exact ⟨nxA1 m hB, hB⟩

theorem next_rel {src : List Char} (cfg : Cfg) {rep : Bool} {L : Lexer} {s : Spec.SState}
    (h : Rel src rep L s) :
    Nx1 src rep L (L.next cfg rep).1 (L.next cfg rep).2 (s.step cfg rep).1 (s.step cfg rep).2 := by
  have all := nx1_all (src := src) (cfg := cfg) (rep := rep) (L.mu + 1)
  by_cases hn : s.n = 0
  · cases h with
    | inLine done nl hA hn' _ _ _ _ => omega
    | start hB _ hbuf hrest =>
      have := all.2 L (by omega) [] (L.mu + 1) s.text s.st s.buf s.col hB (by omega)
        (by rw [hbuf]; simp [Spec.scan1])
      simp only [Spec.SState.step, hrest, hn]
      exact this
  · exact all.1 L (by omega) s (L.mu + 1) h hn (by omega)

/-- Call after call, in lock step (same fuel on both sides). -/
theorem sched_eq {src : List Char} (sched : List (Res Pos) → Cfg) (rep : Bool) :
    ∀ (F : Nat) (hist : List (Res Pos)) (L : Lexer) (s : Spec.SState), Rel src rep L s →
    lexAllFSched sched rep src F hist L = Spec.runSched sched rep F hist s := by
  intro F
  induction F with
  | zero => intros; rfl
  | succ F ih =>
    intro hist L s hrel
    have ok := next_rel (sched hist) hrel
    simp only [lexAllFSched, Spec.runSched]
    generalize L.next (sched hist) rep = p at ok
    generalize Spec.SState.step (sched hist) rep s = q at ok
    obtain ⟨res, L'⟩ := p
    obtain ⟨item, s'⟩ := q
    have hi : item = res.map (trace src) := ok.item_eq
    subst hi
    cases res with
    | token t p => simp only [Res.map]; rw [ih _ L' s' (ok.rel rfl)]
    | invalid c p => simp only [Res.map]; rw [ih _ L' s' (ok.rel rfl)]
    | endOfLine => simp only [Res.map]; rw [ih _ L' s' (ok.rel rfl)]
    | endOfInput => rfl
    | panic => exact absurd rfl ok.noPanic
    | fuel => exact absurd rfl ok.noFuel

theorem lexTracedSched_eq (sched : List (Res Pos) → Cfg) (rep : Bool) (src : List Char) :
    lexTracedSched sched rep src = Spec.specSched sched rep src := by
  unfold lexTracedSched Spec.specSched
  apply sched_eq
  refine Rel.start ⟨rfl, Or.inr ⟨by simp [joined, Lexer.init], by simp [joined, Lexer.init]⟩,
    by simp, by intro _; simp [Lexer.init], Raw.Inv.init src⟩ rfl rfl rfl


theorem lexAllFSched_const (cfg : Cfg) (rep : Bool) (src : List Char) : ∀ (F : Nat)
    (hist : List (Res Pos)) (L : Lexer),
    lexAllFSched (fun _ => cfg) rep src F hist L = (lexAllF cfg rep F L).map (Res.map (trace src)) := by
  intro F
  induction F with
  | zero => intros; rfl
  | succ F ih =>
    intro hist L
    simp only [lexAllFSched, lexAllF]
    generalize L.next cfg rep = p
    obtain ⟨res, L'⟩ := p
    cases res <;> simp [Res.map, ih]

/-- With a configuration that never changes, `specSched` is `specAll`. -/
theorem specSched_const (cfg : Cfg) (rep : Bool) (src : List Char) :
    Spec.specSched (fun _ => cfg) rep src = Spec.specAll cfg rep src := by
  rw [← lexTracedSched_eq]
  unfold lexTracedSched
  rw [lexAllFSched_const]
  apply lexAllF_eq
  · right
    refine ⟨[], ⟨rfl, Or.inr ⟨by simp [joined, Lexer.init], by simp [joined, Lexer.init]⟩, by simp,
      by intro _; simp [Lexer.init], Raw.Inv.init src⟩, ?_⟩
    simp [SpecB, Spec.specAll, Lexer.init]
  · simp only [Lexer.mu, Lexer.init, List.length_nil]; omega

/-- No panic, no exhausted budget, and the end of the input is reached, whatever the schedule. -/
theorem lexAllFSched_ok {N : Nat} (sched : List (Res Pos) → Cfg) (rep : Bool) (src : List Char) :
    ∀ (F : Nat) (hist : List (Res Pos)) (L : Lexer), L.raw.Inv N → L.mu + 1 < F →
    (∀ r ∈ lexAllFSched sched rep src F hist L, r ≠ .panic ∧ r ≠ .fuel) ∧
      (lexAllFSched sched rep src F hist L).getLast? = some .endOfInput := by
  intro F
  induction F with
  | zero => intro hist L _ hf; omega
  | succ F ih =>
    intro hist L h hf
    have ok := nextF_spec (N := N) (sched hist) rep (L.mu + 1) L h (by omega)
    simp only [lexAllFSched]
    unfold Lexer.next
    generalize Lexer.nextF (sched hist) rep (L.mu + 1) L = p at ok
    obtain ⟨res, L'⟩ := p
    have ok : NextOk N L res L' := ok
    have step : ∀ (x : Res Pos) (l : List (Res Pos)), x ≠ .panic ∧ x ≠ .fuel →
        ((∀ r ∈ l, r ≠ Res.panic ∧ r ≠ Res.fuel) ∧ l.getLast? = some .endOfInput) →
        (∀ r ∈ x :: l, r ≠ Res.panic ∧ r ≠ Res.fuel) ∧ (x :: l).getLast? = some .endOfInput := by
      intro x l hx hl
      refine ⟨?_, by rw [List.getLast?_cons, hl.2]; rfl⟩
      intro r hr
      simp only [List.mem_cons] at hr
      rcases hr with rfl | hr
      · exact hx
      · exact hl.1 r hr
    cases res with
    | token t k =>
      exact step _ _ (by simp [Res.map]) (ih _ L' (ok.inv rfl) (by have := ok.dec rfl; omega))
    | invalid c k =>
      exact step _ _ (by simp [Res.map]) (ih _ L' (ok.inv rfl) (by have := ok.dec rfl; omega))
    | endOfLine =>
      exact step _ _ (by simp [Res.map]) (ih _ L' (ok.inv rfl) (by have := ok.dec rfl; omega))
    | endOfInput => exact ⟨by simp, by simp⟩
    | panic => exact absurd rfl ok.noPanic
    | fuel => exact absurd rfl ok.noFuel

theorem lexTracedSched_ok (sched : List (Res Pos) → Cfg) (rep : Bool) (src : List Char) :
    (∀ r ∈ lexTracedSched sched rep src, r ≠ .panic ∧ r ≠ .fuel) ∧
      (lexTracedSched sched rep src).getLast? = some .endOfInput :=
  lexAllFSched_ok (N := src.length) sched rep src _ _ _ (Raw.Inv.init src)
    (by simp only [Lexer.mu, Lexer.init, List.length_nil]; omega)


end C03

/-! ### positions reported by the specification lie in the source -/
namespace C03

theorem scan_col_lt (cfg : Cfg) : ∀ (f : Nat) (st : St) (l : List Char) (col : Nat),
    ∀ item ∈ Spec.scan cfg f st l col, ∀ p, item.pos? = some p → p < col + l.length := by
  intro f
  induction f with
  | zero => intro st l col item hi p hp; simp [Spec.scan] at hi; subst hi; simp [Res.pos?] at hp
  | succ f ih =>
    intro st l col item hi p hp
    unfold Spec.scan at hi
    cases l with
    | nil => simp at hi
    | cons c t =>
      simp only [] at hi
      have here : ∀ (it : Res Nat), it.pos? = some p → (∀ q, it.pos? = some q → q = col) →
          p < col + (c :: t).length := by
        intro it h1 h2; have := h2 p h1; simp only [List.length_cons]; omega
      have tail : ∀ st', item ∈ Spec.scan cfg f st' t (col + 1) → p < col + (c :: t).length := by
        intro st' h; have := ih st' t (col + 1) item h p hp; simp only [List.length_cons]; omega
      cases hc : cfg.cat c <;> simp only [hc] at hi
      case escape =>
        cases hcs : Spec.csName cfg (t.length + 1) t (col + 1) with
        | none => rw [hcs] at hi; simp at hi; subst hi; simp [Res.pos?] at hp
        | some x =>
          obtain ⟨name, st', t', col'⟩ := x
          rw [hcs] at hi
          simp only [List.mem_cons] at hi
          have hsum := csName_sum cfg _ _ _ _ _ _ _ hcs
          rcases hi with rfl | hi
          · exact here _ hp (by intro q hq; simp [Res.pos?] at hq; exact hq.symm)
          · have := ih st' t' col' item hi p hp; simp only [List.length_cons]; omega
      case endOfLine =>
        cases st <;> simp at hi
        all_goals (subst hi; exact here _ hp (by intro q hq; simp [Res.pos?] at hq; exact hq.symm))
      case space =>
        cases st <;> simp only [List.mem_cons] at hi
        case midLine =>
          rcases hi with rfl | hi
          · exact here _ hp (by intro q hq; simp [Res.pos?] at hq; exact hq.symm)
          · exact tail _ hi
        all_goals exact tail _ hi
      case superscript =>
        cases he : Spec.expanded c t with
        | none =>
          rw [he] at hi
          simp only [List.mem_cons] at hi
          rcases hi with rfl | hi
          · exact here _ hp (by intro q hq; simp [Res.pos?] at hq; exact hq.symm)
          · exact tail _ hi
        | some x =>
          obtain ⟨c', t', n⟩ := x
          rw [he] at hi
          have := ih st (c' :: t') (col + n) item hi p hp
          have hn := (expanded_n he).2
          simp only [List.length_cons] at this ⊢; omega
      case comment => simp at hi
      case ignored => exact tail _ hi
      all_goals
        simp only [List.mem_cons] at hi
        rcases hi with rfl | hi
        · exact here _ hp (by intro q hq; simp [Res.pos?] at hq; exact hq.symm)
        · exact tail _ hi

theorem lines_positions (cfg : Cfg) (rep : Bool) : ∀ (ls : List (List Char)) (n : Nat),
    ∀ r ∈ Spec.lines cfg rep n ls, ∀ p, r.pos? = some p →
      n ≤ p.line ∧ ls[p.line - n]? = some p.text ∧ p.col ≤ p.text.length := by
  intro ls
  induction ls with
  | nil => intro n r hr p hp; simp [Spec.lines] at hr; subst hr; simp [Res.pos?] at hp
  | cons l ls ih =>
    intro n r hr p hp
    simp only [Spec.lines, List.mem_append] at hr
    rcases hr with (hr | hr) | hr
    · split at hr
      · simp at hr; subst hr; simp [Res.pos?] at hp
      · simp at hr
    · obtain ⟨item, hi, rfl⟩ := List.mem_map.mp hr
      cases item with
      | token t q =>
        simp [Res.map, Res.pos?] at hp; subst hp
        have := scan_col_lt cfg _ _ _ _ _ hi q rfl
        have hb := buffer_length cfg l
        have ht := trimRight_length_le l
        simp only [Nat.zero_add] at this
        refine ⟨Nat.le_refl _, by simp, ?_⟩
        simp only []
        split at hb <;> omega
      | invalid c q =>
        simp [Res.map, Res.pos?] at hp; subst hp
        have := scan_col_lt cfg _ _ _ _ _ hi q rfl
        have hb := buffer_length cfg l
        have ht := trimRight_length_le l
        simp only [Nat.zero_add] at this
        refine ⟨Nat.le_refl _, by simp, ?_⟩
        simp only []
        split at hb <;> omega
      | _ => simp [Res.map, Res.pos?] at hp
    · obtain ⟨h1, h2, h3⟩ := ih (n + 1) r hr p hp
      refine ⟨by omega, ?_, h3⟩
      have : p.line - n = (p.line - (n + 1)) + 1 := by omega
      rw [this]; simpa using h2

end C03
