import TexcraftModel.Lemmas.C17NLPend
/-! The invariant of the work-list loop of `NextLargerProgram::new` (C17) and its preservation
by a pop and by a cut. `G0` is the kept-edge map after the first loop (one link per character). -/
namespace C17

def cutsOf (σ : WL) : List Nat := σ.loops.map Prod.fst

structure Inv (G0 : List (Nat × Nat)) (σ : WL) : Prop where
  gfun : Functional σ.g
  graph : ∀ y, nxt σ.g y = if y ∈ cutsOf σ then none else nxt G0 y
  cntOK : ∀ x, IsNode G0 x → cntGet σ.cnt x = some (pend G0 σ.sorted (cutsOf σ) x).length
  ndS : σ.sorted.Nodup
  ndL : σ.leaves.Nodup
  ndN : σ.nonLeaves.Nodup
  disSL : ∀ x ∈ σ.sorted, x ∉ σ.leaves
  disSN : ∀ x ∈ σ.sorted, x ∉ σ.nonLeaves
  disLN : ∀ x ∈ σ.leaves, x ∉ σ.nonLeaves
  cover : ∀ x, IsNode G0 x ↔ (x ∈ σ.sorted ∨ x ∈ σ.leaves ∨ x ∈ σ.nonLeaves)
  nlPos : ∀ x ∈ σ.nonLeaves, pend G0 σ.sorted (cutsOf σ) x ≠ []
  lvOK : ∀ x ∈ σ.leaves, ∀ e ∈ pend G0 σ.sorted (cutsOf σ) x, e.1 ∈ cutsOf σ
  cutTgt : ∀ e ∈ σ.loops, e.2 ∈ σ.sorted ∨ e.2 ∈ σ.leaves
  cutOK : ∀ e ∈ σ.loops, isCut G0 e.1 = true ∧ nxt G0 e.1 = some e.2
  topo : ∀ y x, nxt σ.g y = some x → x ∈ σ.sorted →
    y ∈ σ.sorted ∧ σ.sorted.idxOf x < σ.sorted.idxOf y
  desc : σ.loops.Pairwise (fun a b => a.1 < b.1)
  bound : ∀ e ∈ σ.loops, ∀ x ∈ σ.nonLeaves, x ≤ e.1

/-- Termination measure: one pop or one cut lowers it. -/
def meas (σ : WL) : Nat :=
  2 * (σ.leaves.length + σ.nonLeaves.length) + (if σ.leaves.isEmpty then 1 else 0)

theorem topo_push (g : List (Nat × Nat)) (sorted : List Nat) (s : Nat) (hs : s ∉ sorted)
    (htopo : ∀ y x, nxt g y = some x → x ∈ sorted → y ∈ sorted ∧ sorted.idxOf x < sorted.idxOf y)
    (hnew : ∀ y, nxt g y = some s → y ∈ sorted) :
    ∀ y x, nxt g y = some x → x ∈ s :: sorted →
      y ∈ s :: sorted ∧ (s :: sorted).idxOf x < (s :: sorted).idxOf y := by
  intro y x hyx hx
  rcases List.mem_cons.1 hx with rfl | hx
  · have hy := hnew y hyx
    have hne : x ≠ y := by intro e; subst e; exact hs hy
    refine ⟨List.mem_cons_of_mem _ hy, ?_⟩
    have e : (x == y) = false := beq_false_of_ne hne
    simp [List.idxOf_cons, e]
  · obtain ⟨hy, hlt⟩ := htopo y x hyx hx
    have h1 : s ≠ x := by intro e; subst e; exact hs hx
    have h2 : s ≠ y := by intro e; subst e; exact hs hy
    refine ⟨List.mem_cons_of_mem _ hy, ?_⟩
    have e1 : (s == x) = false := beq_false_of_ne h1
    have e2 : (s == y) = false := beq_false_of_ne h2
    simp only [List.idxOf_cons, e1, e2, cond_false]
    omega

/-- What is known about the top of the stack. -/
theorem top_facts {G0 : List (Nat × Nat)} {σ : WL} (hI : Inv G0 σ) (s : Nat) (rest : List Nat)
    (hl : σ.leaves = s :: rest) :
    s ∉ σ.sorted ∧ s ∉ rest ∧ s ∉ σ.nonLeaves ∧ rest.Nodup ∧ IsNode G0 s := by
  have hsl : s ∈ σ.leaves := by rw [hl]; simp
  have hnd := hI.ndL
  rw [hl] at hnd
  have hnd' := List.nodup_cons.1 hnd
  exact ⟨fun h => hI.disSL s h hsl, hnd'.1, hI.disLN s hsl, hnd'.2, (hI.cover s).2 (Or.inr (Or.inl hsl))⟩

/-- Every in-link of the popped node that is still in the map comes from a popped node. -/
theorem top_preds {G0 : List (Nat × Nat)} {σ : WL} (hI : Inv G0 σ) (s : Nat) (rest : List Nat)
    (hl : σ.leaves = s :: rest) : ∀ y, nxt σ.g y = some s → y ∈ σ.sorted := by
  intro y hy
  have hsl : s ∈ σ.leaves := by rw [hl]; simp
  have hg := hI.graph y
  rw [hy] at hg
  by_cases hc : y ∈ cutsOf σ
  · simp [hc] at hg
  · simp only [hc, if_false] at hg
    apply Classical.byContradiction
    intro hns
    have hm : (y, s) ∈ pend G0 σ.sorted (cutsOf σ) s :=
      mem_pend.2 ⟨mem_of_nxt G0 y s hg.symm, rfl, Or.inl hns⟩
    exact hc (hI.lvOK s hsl (y, s) hm)

/-- Pop of a node without a link (`node_to_larger.get(&smaller) = None`). -/
theorem pop_none {G0 : List (Nat × Nat)} (hF : Functional G0) {σ : WL} (hI : Inv G0 σ)
    (s : Nat) (rest : List Nat) (hl : σ.leaves = s :: rest) (hn : nxt σ.g s = none) :
    Inv G0 { σ with leaves := rest, sorted := s :: σ.sorted } := by
  obtain ⟨h1, h2, h3, h4, h5⟩ := top_facts hI s rest hl
  have hsl : s ∈ σ.leaves := by rw [hl]; simp
  have hrest : ∀ x ∈ rest, x ∈ σ.leaves := fun x hx => by rw [hl]; exact List.mem_cons_of_mem _ hx
  -- the pending lists do not change
  have hpend : ∀ x, pend G0 (s :: σ.sorted) (cutsOf σ) x = pend G0 σ.sorted (cutsOf σ) x := by
    intro x
    apply pend_pop_other
    intro e he hes _
    have hg := hI.graph s
    rw [hn] at hg
    by_cases hc : s ∈ cutsOf σ
    · exact hc
    · simp only [hc, if_false] at hg
      have := nxt_of_mem G0 hF e.1 e.2 he
      rw [hes, ← hg] at this
      simp at this
  refine
    { gfun := hI.gfun, graph := hI.graph, cntOK := ?_, ndS := List.nodup_cons.2 ⟨h1, hI.ndS⟩,
      ndL := h4, ndN := hI.ndN, disSL := ?_, disSN := ?_, disLN := ?_, cover := ?_, nlPos := ?_,
      lvOK := ?_, cutTgt := ?_, cutOK := hI.cutOK, topo := ?_, desc := hI.desc, bound := hI.bound }
  · intro x hx
    show cntGet σ.cnt x = some (pend G0 (s :: σ.sorted) (cutsOf σ) x).length
    rw [hpend]; exact hI.cntOK x hx
  · intro x hx hxr
    rcases List.mem_cons.1 hx with rfl | hx
    · exact h2 hxr
    · exact hI.disSL x hx (hrest x hxr)
  · intro x hx
    rcases List.mem_cons.1 hx with rfl | hx
    · exact h3
    · exact hI.disSN x hx
  · intro x hx; exact hI.disLN x (hrest x hx)
  · intro x
    rw [hI.cover x, hl]
    simp only [List.mem_cons]
    constructor
    · rintro (h | (h | h) | h)
      · exact Or.inl (Or.inr h)
      · exact Or.inl (Or.inl h)
      · exact Or.inr (Or.inl h)
      · exact Or.inr (Or.inr h)
    · rintro ((h | h) | h | h)
      · exact Or.inr (Or.inl (Or.inl h))
      · exact Or.inl h
      · exact Or.inr (Or.inl (Or.inr h))
      · exact Or.inr (Or.inr h)
  · intro x hx
    show pend G0 (s :: σ.sorted) (cutsOf σ) x ≠ []
    rw [hpend]; exact hI.nlPos x hx
  · intro x hx e he
    have he' : e ∈ pend G0 (s :: σ.sorted) (cutsOf σ) x := he
    rw [hpend] at he'
    exact hI.lvOK x (hrest x hx) e he'
  · intro e he
    rcases hI.cutTgt e he with h | h
    · exact Or.inl (List.mem_cons_of_mem _ h)
    · rw [hl] at h
      rcases List.mem_cons.1 h with h | h
      · exact Or.inl (by rw [h]; simp)
      · exact Or.inr h
  · exact topo_push σ.g σ.sorted s h1 hI.topo (top_preds hI s rest hl)

/-- Facts about a pop of `s` whose link `s ↦ l` is still in the map. -/
theorem pop_some_facts {G0 : List (Nat × Nat)} (hF : Functional G0) {σ : WL} (hI : Inv G0 σ)
    (s : Nat) (rest : List Nat) (hl : σ.leaves = s :: rest) (l : Nat) (hn : nxt σ.g s = some l) :
    s ∉ cutsOf σ ∧ nxt G0 s = some l ∧ IsNode G0 l ∧ l ∈ σ.nonLeaves ∧
    cntGet σ.cnt l = some ((pend G0 (s :: σ.sorted) (cutsOf σ) l).length + 1) ∧
    (∀ x, x ≠ l → pend G0 (s :: σ.sorted) (cutsOf σ) x = pend G0 σ.sorted (cutsOf σ) x) := by
  obtain ⟨h1, h2, h3, h4, h5⟩ := top_facts hI s rest hl
  have hsl : s ∈ σ.leaves := by rw [hl]; simp
  have hg := hI.graph s
  rw [hn] at hg
  have hc : s ∉ cutsOf σ := by
    intro hc; simp [hc] at hg
  simp only [hc, if_false] at hg
  have hg0 : nxt G0 s = some l := hg.symm
  have hnode : IsNode G0 l := (isNode_of_nxt G0 s l hg0).2
  have hpm : (s, l) ∈ pend G0 σ.sorted (cutsOf σ) l :=
    mem_pend.2 ⟨mem_of_nxt G0 s l hg0, rfl, Or.inl h1⟩
  have hls : l ∉ σ.sorted := fun h => h1 (hI.topo s l hn h).1
  have hll : l ∉ σ.leaves := fun h => hc (hI.lvOK l h (s, l) hpm)
  have hln : l ∈ σ.nonLeaves := by
    rcases (hI.cover l).1 hnode with h | h | h
    · exact absurd h hls
    · exact absurd h hll
    · exact h
  refine ⟨hc, hg0, hnode, hln, ?_, ?_⟩
  · rw [hI.cntOK l hnode, pend_pop_target G0 hF σ.sorted (cutsOf σ) s l hg0 h1 hc]
  · intro x hx
    apply pend_pop_other
    intro e he hes hex
    have := nxt_of_mem G0 hF e.1 e.2 he
    rw [hes, hg0, hex] at this
    simp only [Option.some.injEq] at this
    exact absurd this.symm hx

/-- Pop of a node whose link releases the last pending in-edge of `l`: `l` becomes a leaf. -/
theorem pop_some_zero {G0 : List (Nat × Nat)} (hF : Functional G0) {σ : WL} (hI : Inv G0 σ)
    (s : Nat) (rest : List Nat) (hl : σ.leaves = s :: rest) (l : Nat) (hn : nxt σ.g s = some l)
    (hk : (pend G0 (s :: σ.sorted) (cutsOf σ) l).length = 0) :
    Inv G0 { σ with cnt := cntSet σ.cnt l 0, leaves := l :: rest,
                    nonLeaves := σ.nonLeaves.filter (· != l), sorted := s :: σ.sorted } := by
  obtain ⟨h1, h2, h3, h4, h5⟩ := top_facts hI s rest hl
  obtain ⟨hc, hg0, hnode, hln, hcnt, hother⟩ := pop_some_facts hF hI s rest hl l hn
  have hrest : ∀ x ∈ rest, x ∈ σ.leaves := fun x hx => by rw [hl]; exact List.mem_cons_of_mem _ hx
  have hsl : s ∈ σ.leaves := by rw [hl]; simp
  have hls : l ∉ σ.sorted := fun h => hI.disSN l h hln
  have hll : l ∉ σ.leaves := fun h => hI.disLN l h hln
  have hlne : l ≠ s := fun e => hll (e ▸ hsl)
  have hpl : pend G0 (s :: σ.sorted) (cutsOf σ) l = [] := List.eq_nil_of_length_eq_zero hk
  refine
    { gfun := hI.gfun, graph := hI.graph, cntOK := ?_, ndS := List.nodup_cons.2 ⟨h1, hI.ndS⟩,
      ndL := ?_, ndN := hI.ndN.sublist List.filter_sublist, disSL := ?_, disSN := ?_, disLN := ?_,
      cover := ?_, nlPos := ?_, lvOK := ?_, cutTgt := ?_, cutOK := hI.cutOK, topo := ?_,
      desc := hI.desc, bound := ?_ }
  · intro x hx
    show cntGet (cntSet σ.cnt l 0) x = some (pend G0 (s :: σ.sorted) (cutsOf σ) x).length
    rw [cntGet_set]
    by_cases hxl : x = l
    · subst hxl; simp [hcnt, hk]
    · simp only [hxl, if_false]
      rw [hother x hxl]; exact hI.cntOK x hx
  · exact List.nodup_cons.2 ⟨fun h => hll (hrest l h), h4⟩
  · intro x hx hxr
    rcases List.mem_cons.1 hx with rfl | hx
    · rcases List.mem_cons.1 hxr with h | h
      · exact hlne h.symm
      · exact h2 h
    · rcases List.mem_cons.1 hxr with h | h
      · exact hls (h ▸ hx)
      · exact hI.disSL x hx (hrest x h)
  · intro x hx hxn
    have hxn' := ((mem_filter_ne _ _ _).1 hxn).1
    rcases List.mem_cons.1 hx with rfl | hx
    · exact h3 hxn'
    · exact hI.disSN x hx hxn'
  · intro x hx hxn
    have hxn' := (mem_filter_ne _ _ _).1 hxn
    rcases List.mem_cons.1 hx with rfl | hx
    · exact hxn'.2 rfl
    · exact hI.disLN x (hrest x hx) hxn'.1
  · intro x
    rw [hI.cover x, hl]
    simp only [List.mem_cons, mem_filter_ne]
    constructor
    · rintro (h | (h | h) | h)
      · exact Or.inl (Or.inr h)
      · exact Or.inl (Or.inl h)
      · exact Or.inr (Or.inl (Or.inr h))
      · by_cases hxl : x = l
        · exact Or.inr (Or.inl (Or.inl hxl))
        · exact Or.inr (Or.inr ⟨h, hxl⟩)
    · rintro ((h | h) | (h | h) | h)
      · exact Or.inr (Or.inl (Or.inl h))
      · exact Or.inl h
      · subst h; exact Or.inr (Or.inr hln)
      · exact Or.inr (Or.inl (Or.inr h))
      · exact Or.inr (Or.inr h.1)
  · intro x hx
    have hx' := (mem_filter_ne _ _ _).1 hx
    show pend G0 (s :: σ.sorted) (cutsOf σ) x ≠ []
    rw [hother x hx'.2]; exact hI.nlPos x hx'.1
  · intro x hx e he
    have he' : e ∈ pend G0 (s :: σ.sorted) (cutsOf σ) x := he
    rcases List.mem_cons.1 hx with rfl | hx
    · rw [hpl] at he'; simp at he'
    · exact hI.lvOK x (hrest x hx) e (pend_pop_sub G0 _ _ s x e he')
  · intro e he
    rcases hI.cutTgt e he with h | h
    · exact Or.inl (List.mem_cons_of_mem _ h)
    · rw [hl] at h
      rcases List.mem_cons.1 h with h | h
      · exact Or.inl (by rw [h]; simp)
      · exact Or.inr (List.mem_cons_of_mem _ h)
  · exact topo_push σ.g σ.sorted s h1 hI.topo (top_preds hI s rest hl)
  · intro e he x hx
    exact hI.bound e he x ((mem_filter_ne _ _ _).1 hx).1

/-- Pop of a node whose link leaves `l` with pending in-edges. -/
theorem pop_some_pos {G0 : List (Nat × Nat)} (hF : Functional G0) {σ : WL} (hI : Inv G0 σ)
    (s : Nat) (rest : List Nat) (hl : σ.leaves = s :: rest) (l : Nat) (hn : nxt σ.g s = some l)
    (hk : (pend G0 (s :: σ.sorted) (cutsOf σ) l).length ≠ 0) :
    Inv G0 { σ with cnt := cntSet σ.cnt l (pend G0 (s :: σ.sorted) (cutsOf σ) l).length,
                    leaves := rest, sorted := s :: σ.sorted } := by
  obtain ⟨h1, h2, h3, h4, h5⟩ := top_facts hI s rest hl
  obtain ⟨hc, hg0, hnode, hln, hcnt, hother⟩ := pop_some_facts hF hI s rest hl l hn
  have hrest : ∀ x ∈ rest, x ∈ σ.leaves := fun x hx => by rw [hl]; exact List.mem_cons_of_mem _ hx
  refine
    { gfun := hI.gfun, graph := hI.graph, cntOK := ?_, ndS := List.nodup_cons.2 ⟨h1, hI.ndS⟩,
      ndL := h4, ndN := hI.ndN, disSL := ?_, disSN := ?_, disLN := ?_,
      cover := ?_, nlPos := ?_, lvOK := ?_, cutTgt := ?_, cutOK := hI.cutOK, topo := ?_,
      desc := hI.desc, bound := hI.bound }
  · intro x hx
    show cntGet (cntSet σ.cnt l _) x = some (pend G0 (s :: σ.sorted) (cutsOf σ) x).length
    rw [cntGet_set]
    by_cases hxl : x = l
    · subst hxl; simp [hcnt]
    · simp only [hxl, if_false]
      rw [hother x hxl]; exact hI.cntOK x hx
  · intro x hx hxr
    rcases List.mem_cons.1 hx with rfl | hx
    · exact h2 hxr
    · exact hI.disSL x hx (hrest x hxr)
  · intro x hx
    rcases List.mem_cons.1 hx with rfl | hx
    · exact h3
    · exact hI.disSN x hx
  · intro x hx; exact hI.disLN x (hrest x hx)
  · intro x
    rw [hI.cover x, hl]
    simp only [List.mem_cons]
    constructor
    · rintro (h | (h | h) | h)
      · exact Or.inl (Or.inr h)
      · exact Or.inl (Or.inl h)
      · exact Or.inr (Or.inl h)
      · exact Or.inr (Or.inr h)
    · rintro ((h | h) | h | h)
      · exact Or.inr (Or.inl (Or.inl h))
      · exact Or.inl h
      · exact Or.inr (Or.inl (Or.inr h))
      · exact Or.inr (Or.inr h)
  · intro x hx
    show pend G0 (s :: σ.sorted) (cutsOf σ) x ≠ []
    by_cases hxl : x = l
    · subst hxl
      intro h; rw [h] at hk; exact hk rfl
    · rw [hother x hxl]; exact hI.nlPos x hx
  · intro x hx e he
    exact hI.lvOK x (hrest x hx) e (pend_pop_sub G0 _ _ s x e he)
  · intro e he
    rcases hI.cutTgt e he with h | h
    · exact Or.inl (List.mem_cons_of_mem _ h)
    · rw [hl] at h
      rcases List.mem_cons.1 h with h | h
      · exact Or.inl (by rw [h]; simp)
      · exact Or.inr h
  · exact topo_push σ.g σ.sorted s h1 hI.topo (top_preds hI s rest hl)

/-- The cut: the stack is empty, `s` is the largest remaining non-leaf. -/
theorem cut_step {G0 : List (Nat × Nat)} (hF : Functional G0) {σ : WL} (hI : Inv G0 σ)
    (hl : σ.leaves = []) (s : Nat) (hm : maxOf σ.nonLeaves = some s) :
    ∃ l, nxt σ.g s = some l ∧ l ∈ σ.nonLeaves ∧
      Inv G0 { σ with g := σ.g.filter (fun e => e.1 != s), loops := (s, l) :: σ.loops,
                      leaves := [l], nonLeaves := σ.nonLeaves.filter (· != l) } := by
  obtain ⟨hs, hmax⟩ := maxOf_some σ.nonLeaves s hm
  have hnoLeaf : ∀ x, x ∉ σ.leaves := by intro x; rw [hl]; simp
  -- a cut target has been popped
  have hcutPopped : ∀ c ∈ σ.loops, c.2 ∈ σ.sorted := by
    intro c hc
    rcases hI.cutTgt c hc with h | h
    · exact h
    · exact absurd h (hnoLeaf _)
  have hunpopped : ∀ y, IsNode G0 y → y ∉ σ.sorted → y ∈ σ.nonLeaves := by
    intro y hy hns
    rcases (hI.cover y).1 hy with h | h | h
    · exact absurd h hns
    · exact absurd h (hnoLeaf _)
    · exact h
  have hpred : ∀ x ∈ σ.nonLeaves, ∃ y ∈ σ.nonLeaves, nxt G0 y = some x := by
    intro x hx
    obtain ⟨e, he⟩ := List.exists_mem_of_ne_nil _ (hI.nlPos x hx)
    obtain ⟨heG, hex, hcase⟩ := mem_pend.1 he
    have hn : nxt G0 e.1 = some x := by rw [← hex]; exact nxt_of_mem G0 hF e.1 e.2 heG
    refine ⟨e.1, ?_, hn⟩
    rcases hcase with h | h
    · exact hunpopped e.1 (isNode_of_nxt G0 e.1 x hn).1 h
    · exfalso
      obtain ⟨c, hc, hce⟩ := List.mem_map.1 h
      have h2 := (hI.cutOK c hc).2
      rw [hce, hn] at h2
      simp only [Option.some.injEq] at h2
      have := hcutPopped c hc
      rw [← h2] at this
      exact hI.disSN x this hx
  obtain ⟨hclosed, hinj, hcutmax⟩ := stuck G0 σ.nonLeaves hI.ndN hpred
  obtain ⟨l, hln, hsl⟩ := hclosed s hs
  have hsc : s ∉ cutsOf σ := by
    intro h
    obtain ⟨c, hc, hce⟩ := List.mem_map.1 h
    have h2 := (hI.cutOK c hc).2
    rw [hce, hsl] at h2
    simp only [Option.some.injEq] at h2
    have := hcutPopped c hc
    rw [← h2] at this
    exact hI.disSN l this hln
  have hgs : nxt σ.g s = some l := by
    rw [hI.graph s]; simp [hsc, hsl]
  have hss : s ∉ σ.sorted := fun h => hI.disSN s h hs
  have hls : l ∉ σ.sorted := fun h => hI.disSN l h hln
  have hcuts : ∀ (g' : List (Nat × Nat)) (lv nl : List Nat), cutsOf { σ with g := g', loops := (s, l) :: σ.loops, leaves := lv, nonLeaves := nl } = s :: cutsOf σ := fun _ _ _ => rfl
  refine ⟨l, hgs, hln, ?_⟩
  refine
    { gfun := ?_, graph := ?_, cntOK := ?_, ndS := hI.ndS, ndL := by simp,
      ndN := hI.ndN.sublist List.filter_sublist, disSL := ?_, disSN := ?_, disLN := ?_,
      cover := ?_, nlPos := ?_, lvOK := ?_, cutTgt := ?_, cutOK := ?_, topo := ?_,
      desc := ?_, bound := ?_ }
  · exact List.Nodup.sublist (List.Sublist.map Prod.fst List.filter_sublist) hI.gfun
  · intro y
    rw [hcuts]
    show nxt (σ.g.filter (fun e => e.1 != s)) y = _
    rw [nxt_filter_ne, hI.graph y]
    by_cases hys : y = s
    · simp [hys]
    · by_cases hyc : y ∈ cutsOf σ
      · simp [hys, hyc]
      · simp [hys, hyc]
  · intro x hx
    rw [hcuts]
    show cntGet σ.cnt x = some (pend G0 σ.sorted (s :: cutsOf σ) x).length
    rw [pend_cut G0 σ.sorted (cutsOf σ) s x hss]; exact hI.cntOK x hx
  · intro x hx hxl
    simp only [List.mem_singleton] at hxl
    exact hls (hxl ▸ hx)
  · intro x hx hxn
    exact hI.disSN x hx ((mem_filter_ne _ _ _).1 hxn).1
  · intro x hx hxn
    simp only [List.mem_singleton] at hx
    exact ((mem_filter_ne _ _ _).1 hxn).2 hx
  · intro x
    rw [hI.cover x, hl]
    simp only [List.mem_singleton, mem_filter_ne, List.not_mem_nil, false_or]
    constructor
    · rintro (h | h)
      · exact Or.inl h
      · by_cases hxl : x = l
        · exact Or.inr (Or.inl hxl)
        · exact Or.inr (Or.inr ⟨h, hxl⟩)
    · rintro (h | h | h)
      · exact Or.inl h
      · exact Or.inr (h ▸ hln)
      · exact Or.inr h.1
  · intro x hx
    rw [hcuts]
    show pend G0 σ.sorted (s :: cutsOf σ) x ≠ []
    rw [pend_cut G0 σ.sorted (cutsOf σ) s x hss]
    exact hI.nlPos x ((mem_filter_ne _ _ _).1 hx).1
  · intro x hx e he
    rw [hcuts] at he ⊢
    have he' : e ∈ pend G0 σ.sorted (s :: cutsOf σ) x := he
    rw [pend_cut G0 σ.sorted (cutsOf σ) s x hss] at he'
    simp only [List.mem_singleton] at hx
    subst hx
    obtain ⟨heG, hex, hcase⟩ := mem_pend.1 he'
    rcases hcase with h | h
    · have hn : nxt G0 e.1 = some x := by rw [← hex]; exact nxt_of_mem G0 hF e.1 e.2 heG
      have hen := hunpopped e.1 (isNode_of_nxt G0 e.1 x hn).1 h
      have := hinj e.1 hen s hs (by rw [hn, hsl])
      rw [this]; simp
    · exact List.mem_cons_of_mem _ h
  · intro e he
    rcases List.mem_cons.1 he with rfl | he
    · exact Or.inr (by simp)
    · exact Or.inl (hcutPopped e he)
  · intro e he
    rcases List.mem_cons.1 he with rfl | he
    · exact ⟨hcutmax s hs hmax, hsl⟩
    · exact hI.cutOK e he
  · intro y x hyx hx
    have hyx' : nxt (σ.g.filter (fun e => e.1 != s)) y = some x := hyx
    rw [nxt_filter_ne] at hyx'
    by_cases hys : y = s
    · simp [hys] at hyx'
    · simp only [hys, if_false] at hyx'
      exact hI.topo y x hyx' hx
  · refine List.pairwise_cons.2 ⟨?_, hI.desc⟩
    intro e he
    have h1 := hI.bound e he s hs
    have h2 : s ≠ e.1 := by
      intro h
      exact hsc (List.mem_map.2 ⟨e, he, h.symm⟩)
    show s < e.1
    omega
  · intro e he x hx
    have hx' := ((mem_filter_ne _ _ _).1 hx).1
    rcases List.mem_cons.1 he with rfl | he
    · exact hmax x hx'
    · exact hI.bound e he x hx'

end C17
