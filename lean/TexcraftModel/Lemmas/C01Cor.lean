import TexcraftModel.Lemmas.C01

/-!
# C01 — the corollaries, proved on the specification and carried to the model by `R`

* balanced blocks change the saved environments only at globally assigned targets
  (`Spec.bal_run`), hence `{ blk }` restores every other target (`Spec.close_restores`);
* after a global assignment every environment on the stack agrees on the target, so closing any
  number of groups keeps the value (`Spec.global_survives`).

Core Lean only.
-/
namespace C01
open C20
open C20.Snap (fupd)

/-! ## Program plumbing on the specification -/

theorem Spec.run_append (s : Spec) (a b : List Op) (h : ∀ o ∈ (s.run a).2, o.fatal = false) :
    s.run (a ++ b) = (((s.run a).1.run b).1, (s.run a).2 ++ ((s.run a).1.run b).2) := by
  induction a generalizing s with
  | nil => rfl
  | cons op a ih =>
    simp only [List.cons_append, Spec.run] at h ⊢
    by_cases hf : (s.step op).2.fatal = true
    · simp only [hf, if_true] at h
      have := h (s.step op).2 (by simp)
      simp [hf] at this
    · have hf' : (s.step op).2.fatal = false := by simpa using hf
      simp only [hf', Bool.false_eq_true, if_false] at h ⊢
      have h' : ∀ o ∈ ((s.step op).1.run a).2, o.fatal = false := fun o ho => h o (by simp [ho])
      rw [ih _ h']
      simp

theorem Spec.globals_append (s : Spec) (a b : List Op) (h : ∀ o ∈ (s.run a).2, o.fatal = false) :
    Spec.globals s (a ++ b) = Spec.globals s a ++ Spec.globals (s.run a).1 b := by
  induction a generalizing s with
  | nil => rfl
  | cons op a ih =>
    simp only [Spec.run] at h
    by_cases hf : (s.step op).2.fatal = true
    · simp only [hf, if_true] at h
      have := h (s.step op).2 (by simp)
      simp [hf] at this
    · have hf' : (s.step op).2.fatal = false := by simpa using hf
      simp only [hf', Bool.false_eq_true, if_false] at h
      have h' : ∀ o ∈ ((s.step op).1.run a).2, o.fatal = false := fun o ho => h o (by simp [ho])
      simp only [List.cons_append, Spec.globals, Spec.run, hf', Bool.false_eq_true, if_false]
      cases Spec.globalTarget s op <;> simp [ih _ h']

/-! ## Agreement of environments outside a set of targets -/

def AgreeOff (G : List Target) (e e' : Env) : Prop := ∀ t, t ∉ G → e.valOf t = e'.valOf t

inductive Agree (G : List Target) : List Env → List Env → Prop
  | nil : Agree G [] []
  | cons {e e' : Env} {l l' : List Env} : AgreeOff G e e' → Agree G l l' → Agree G (e :: l) (e' :: l')

theorem AgreeOff.refl (G : List Target) (e : Env) : AgreeOff G e e := fun _ _ => rfl

theorem AgreeOff.trans {G1 G2 : List Target} {a b c : Env} (h1 : AgreeOff G1 a b) (h2 : AgreeOff G2 b c) :
    AgreeOff (G1 ++ G2) a c := by
  intro t ht
  simp only [List.mem_append, not_or] at ht
  rw [h1 t ht.1, h2 t ht.2]

theorem Agree.refl (G : List Target) (l : List Env) : Agree G l l := by
  induction l with
  | nil => exact .nil
  | cons e l ih => exact .cons (AgreeOff.refl G e) ih

theorem Agree.trans {G1 G2 : List Target} {a b c : List Env} (h1 : Agree G1 a b) (h2 : Agree G2 b c) :
    Agree (G1 ++ G2) a c := by
  induction h1 generalizing c with
  | nil => cases h2; exact .nil
  | cons hd _ ih =>
    cases h2 with
    | cons hd' tl' => exact .cons (hd.trans hd') (ih tl')

/-- The three environment updates change one target only. -/
theorem valOf_setVarEnv (v : Var) (x : Val) (e : Env) (t : Target) (h : t ≠ .var v) :
    (Spec.setVarEnv v x e).valOf t = e.valOf t := by
  cases t with
  | var w =>
    have : v ≠ w := fun hh => h (by rw [hh])
    simp [Env.valOf, Spec.setVarEnv, fupd, this]
  | cmd t => rfl
  | font => rfl

theorem valOf_setFontEnv (f : Nat) (e : Env) (t : Target) (h : t ≠ .font) :
    (Spec.setFontEnv f e).valOf t = e.valOf t := by
  cases t with
  | var w => rfl
  | cmd t => cases t <;> rfl
  | font => exact absurd rfl h

theorem valOf_setCmdEnv (tg : CTarget) (c : Cmd) (e : Env) (t : Target) (h : t ≠ .cmd tg) :
    (Spec.setCmdEnv tg c e).valOf t = e.valOf t := by
  cases t with
  | var w => cases tg <;> rfl
  | font => cases tg <;> rfl
  | cmd t' =>
    cases tg with
    | cs n =>
      cases t' with
      | cs n' =>
        have : n ≠ n' := fun hh => h (by rw [hh])
        simp [Env.valOf, Spec.setCmdEnv, Spec.getCmd, fupd, this]
      | act c' => rfl
    | act n =>
      cases t' with
      | cs n' => rfl
      | act n' =>
        have : n ≠ n' := fun hh => h (by rw [hh])
        simp [Env.valOf, Spec.setCmdEnv, Spec.getCmd, fupd, this]

theorem Agree.map_single (t : Target) (f : Env → Env)
    (hf : ∀ e t', t' ≠ t → (f e).valOf t' = e.valOf t') (l : List Env) :
    Agree [t] l (l.map f) := by
  induction l with
  | nil => exact .nil
  | cons e l ih =>
    refine .cons ?_ ih
    intro t' ht'
    exact (hf e t' (by simpa using ht')).symm

/-- One non-grouping step changes the saved environments at most at the target it assigns
globally. -/
theorem Spec.step_saved (s : Spec) (op : Op) (hb : op ≠ .beginGroup) (he : op ≠ .endGroup) :
    (s.step op).2.fatal = false ∧
    Agree (match Spec.globalTarget s op with | none => [] | some t => [t]) s.saved (s.step op).1.saved := by
  cases op with
  | beginGroup => exact absurd rfl hb
  | endGroup => exact absurd rfl he
  | read t => exact ⟨by cases t <;> rfl, Agree.refl _ _⟩
  | assign pre v x =>
    refine ⟨rfl, ?_⟩
    simp only [Spec.step, Spec.globalTarget]
    cases Spec.effScope s.globalDefs pre with
    | loc => exact Agree.refl _ _
    | glob => exact Agree.map_single _ _ (fun e t' h => valOf_setVarEnv v x e t' h) _
  | selectFont pre f =>
    refine ⟨rfl, ?_⟩
    simp only [Spec.step, Spec.globalTarget]
    cases Spec.effScope s.globalDefs pre with
    | loc => exact Agree.refl _ _
    | glob => exact Agree.map_single _ _ (fun e t' h => valOf_setFontEnv f e t' h) _
  | define pre t d =>
    simp only [Spec.step, Spec.globalTarget]
    cases Spec.resolveDef s.cur d with
    | none => exact ⟨rfl, Agree.refl _ _⟩
    | some c =>
      refine ⟨rfl, ?_⟩
      cases defScope d (Spec.effScope s.globalDefs pre) with
      | loc => exact Agree.refl _ _
      | glob => exact Agree.map_single _ _ (fun e t' h => valOf_setCmdEnv t c e t' h) _

theorem Spec.run_cons_nonfatal (s : Spec) (op : Op) (l : List Op) (h : (s.step op).2.fatal = false) :
    s.run (op :: l) = (((s.step op).1.run l).1, (s.step op).2 :: ((s.step op).1.run l).2) := by
  simp only [Spec.run, h, Bool.false_eq_true, if_false]

/-- A well-bracketed program never fails and changes the saved environments only at the targets it
assigns globally. -/
theorem Spec.bal_run {blk : List Op} (hb : Bal blk) : ∀ s : Spec,
    (∀ o ∈ (s.run blk).2, o.fatal = false) ∧
    Agree (Spec.globals s blk) s.saved (s.run blk).1.saved := by
  induction hb with
  | nil => intro s; exact ⟨by simp [Spec.run], Agree.refl _ _⟩
  | assign pre v x _ ih =>
    intro s
    obtain ⟨h1, h2⟩ := Spec.step_saved s (.assign pre v x) (by simp) (by simp)
    obtain ⟨i1, i2⟩ := ih (s.step (.assign pre v x)).1
    rw [Spec.run_cons_nonfatal _ _ _ h1]
    refine ⟨by intro o ho; simp at ho; rcases ho with rfl | ho; exact h1; exact i1 o ho, ?_⟩
    simp only [Spec.globals]
    cases hg : Spec.globalTarget s (.assign pre v x) with
    | none => rw [hg] at h2; exact h2.trans i2
    | some t => rw [hg] at h2; exact h2.trans i2
  | define pre t d _ ih =>
    intro s
    obtain ⟨h1, h2⟩ := Spec.step_saved s (.define pre t d) (by simp) (by simp)
    obtain ⟨i1, i2⟩ := ih (s.step (.define pre t d)).1
    rw [Spec.run_cons_nonfatal _ _ _ h1]
    refine ⟨by intro o ho; simp at ho; rcases ho with rfl | ho; exact h1; exact i1 o ho, ?_⟩
    simp only [Spec.globals]
    cases hg : Spec.globalTarget s (.define pre t d) with
    | none => rw [hg] at h2; exact h2.trans i2
    | some t => rw [hg] at h2; exact h2.trans i2
  | selectFont pre f _ ih =>
    intro s
    obtain ⟨h1, h2⟩ := Spec.step_saved s (.selectFont pre f) (by simp) (by simp)
    obtain ⟨i1, i2⟩ := ih (s.step (.selectFont pre f)).1
    rw [Spec.run_cons_nonfatal _ _ _ h1]
    refine ⟨by intro o ho; simp at ho; rcases ho with rfl | ho; exact h1; exact i1 o ho, ?_⟩
    simp only [Spec.globals]
    cases hg : Spec.globalTarget s (.selectFont pre f) with
    | none => rw [hg] at h2; exact h2.trans i2
    | some t => rw [hg] at h2; exact h2.trans i2
  | read t _ ih =>
    intro s
    obtain ⟨h1, h2⟩ := Spec.step_saved s (.read t) (by simp) (by simp)
    obtain ⟨i1, i2⟩ := ih (s.step (.read t)).1
    rw [Spec.run_cons_nonfatal _ _ _ h1]
    refine ⟨by intro o ho; simp at ho; rcases ho with rfl | ho; exact h1; exact i1 o ho, ?_⟩
    simp only [Spec.globals]
    cases hg : Spec.globalTarget s (.read t) with
    | none => rw [hg] at h2; exact h2.trans i2
    | some t => rw [hg] at h2; exact h2.trans i2
  | @group a b _ _ iha ihb =>
    intro s
    -- `{`
    have hbeg : (s.step .beginGroup).2.fatal = false := rfl
    rw [Spec.run_cons_nonfatal _ _ _ hbeg]
    obtain ⟨a1, a2⟩ := iha (s.step .beginGroup).1
    rw [Spec.run_append _ a _ a1]
    have hglob : Spec.globals s (.beginGroup :: (a ++ .endGroup :: b)) =
        Spec.globals (s.step .beginGroup).1 a ++
          Spec.globals ((s.step .beginGroup).1.run a).1 (.endGroup :: b) := by
      simp only [Spec.globals, Spec.globalTarget]
      exact Spec.globals_append _ a _ a1
    rw [hglob]
    -- the saved stack after `a` still has the environment pushed by `{` (up to globals) on top
    generalize hs2 : ((s.step .beginGroup).1.run a).1 = s2 at a2 ⊢
    have hsaved : (s.step .beginGroup).1.saved = s.cur :: s.saved := rfl
    rw [hsaved] at a2
    generalize hs2saved : s2.saved = sv at a2
    cases a2 with
    | @cons _ e' _ rest' hd tl =>
      -- `}`
      have hend : s2.step .endGroup = ({ cur := e', saved := rest' }, .unit) := by
        simp only [Spec.step, hs2saved]
      have hendnf : (s2.step .endGroup).2.fatal = false := by rw [hend]; rfl
      rw [Spec.run_cons_nonfatal _ _ _ hendnf, hend]
      obtain ⟨b1, b2⟩ := ihb { cur := e', saved := rest' }
      refine ⟨?_, ?_⟩
      · intro o ho
        simp only [List.mem_cons, List.mem_append] at ho
        rcases ho with rfl | ho | rfl | ho
        · rfl
        · exact a1 o ho
        · rfl
        · exact b1 o ho
      · simp only [Spec.globals, Spec.globalTarget, hend]
        exact tl.trans b2

/-- `{ blk }` with `blk` well bracketed: never fails, and afterwards every target that was not
assigned globally inside has the value it had before the `{`. -/
theorem Spec.close_restores (s : Spec) {blk : List Op} (hb : Bal blk) :
    (∀ o ∈ (s.run (.beginGroup :: (blk ++ [.endGroup]))).2, o.fatal = false) ∧
    AgreeOff (Spec.globals (s.step .beginGroup).1 blk) s.cur
      (s.run (.beginGroup :: (blk ++ [.endGroup]))).1.cur := by
  have hbeg : (s.step .beginGroup).2.fatal = false := rfl
  rw [Spec.run_cons_nonfatal _ _ _ hbeg]
  obtain ⟨a1, a2⟩ := Spec.bal_run hb (s.step .beginGroup).1
  rw [Spec.run_append _ blk _ a1]
  generalize hs2 : ((s.step .beginGroup).1.run blk).1 = s2 at a2 ⊢
  have hsaved : (s.step .beginGroup).1.saved = s.cur :: s.saved := rfl
  rw [hsaved] at a2
  generalize hs2saved : s2.saved = sv at a2
  cases a2 with
  | @cons _ e' _ rest' hd tl =>
    have hend : s2.step .endGroup = ({ cur := e', saved := rest' }, .unit) := by
      simp only [Spec.step, hs2saved]
    have hendnf : (s2.step .endGroup).2.fatal = false := by rw [hend]; rfl
    rw [Spec.run_cons_nonfatal _ _ _ hendnf, hend]
    refine ⟨?_, hd⟩
    intro o ho
    simp only [List.mem_cons, List.mem_append, Spec.run, List.not_mem_nil, or_false] at ho
    rcases ho with rfl | ho | rfl
    · rfl
    · exact a1 o ho
    · rfl

/-- Right after a global assignment every environment on the stack agrees with the current one
on the assigned target. -/
theorem Spec.global_all (s : Spec) (op : Op) (t : Target) (h : Spec.globalTarget s op = some t) :
    (s.step op).2.fatal = false ∧
    ∀ e ∈ (s.step op).1.saved, e.valOf t = (s.step op).1.cur.valOf t := by
  cases op with
  | beginGroup => simp [Spec.globalTarget] at h
  | endGroup => simp [Spec.globalTarget] at h
  | read t' => simp [Spec.globalTarget] at h
  | assign pre v x =>
    simp only [Spec.globalTarget] at h
    simp only [Spec.step]
    cases hsc : Spec.effScope s.globalDefs pre with
    | loc => simp [hsc] at h
    | glob =>
      simp only [hsc, Option.some.injEq] at h
      subst h
      refine ⟨rfl, ?_⟩
      intro e he
      simp only [Spec.update, List.mem_map] at he
      obtain ⟨e0, _, rfl⟩ := he
      simp [Env.valOf, Spec.setVarEnv, Spec.update, fupd]
  | selectFont pre f =>
    simp only [Spec.globalTarget] at h
    simp only [Spec.step]
    cases hsc : Spec.effScope s.globalDefs pre with
    | loc => simp [hsc] at h
    | glob =>
      simp only [hsc, Option.some.injEq] at h
      subst h
      refine ⟨rfl, ?_⟩
      intro e he
      simp only [Spec.update, List.mem_map] at he
      obtain ⟨e0, _, rfl⟩ := he
      simp [Env.valOf, Spec.setFontEnv, Spec.update]
  | define pre tg d =>
    simp only [Spec.globalTarget] at h
    simp only [Spec.step]
    cases hr : Spec.resolveDef s.cur d with
    | none => simp [hr] at h
    | some c =>
      simp only [hr] at h
      cases hsc : defScope d (Spec.effScope s.globalDefs pre) with
      | loc => simp [hsc] at h
      | glob =>
        simp only [hsc, Option.some.injEq] at h
        subst h
        refine ⟨rfl, ?_⟩
        intro e he
        simp only [Spec.update, List.mem_map] at he
        obtain ⟨e0, _, rfl⟩ := he
        cases tg <;> simp [Env.valOf, Spec.setCmdEnv, Spec.update, Spec.getCmd, fupd]

/-- … so closing any number of open groups keeps that value. -/
theorem Spec.close_many (t : Target) : ∀ (k : Nat) (s : Spec),
    (∀ e ∈ s.saved, e.valOf t = s.cur.valOf t) → k ≤ s.saved.length →
    (∀ o ∈ (s.run (List.replicate k .endGroup)).2, o.fatal = false) ∧
    (s.run (List.replicate k .endGroup)).1.cur.valOf t = s.cur.valOf t := by
  intro k
  induction k with
  | zero => intro s _ _; exact ⟨by simp [Spec.run], rfl⟩
  | succ k ih =>
    intro s hall hk
    obtain ⟨cur, saved⟩ := s
    cases saved with
    | nil => simp at hk
    | cons e rest =>
      have hend : (Spec.step ⟨cur, e :: rest⟩ .endGroup) = ({ cur := e, saved := rest }, .unit) := rfl
      have hnf : (Spec.step ⟨cur, e :: rest⟩ .endGroup).2.fatal = false := rfl
      rw [List.replicate_succ, Spec.run_cons_nonfatal _ _ _ hnf, hend]
      have he : e.valOf t = cur.valOf t := hall e (by simp)
      obtain ⟨i1, i2⟩ := ih ⟨e, rest⟩ (fun e' he' => by
        show e'.valOf t = e.valOf t
        rw [he]; exact hall e' (by simp [he'])) (by simpa using hk)
      refine ⟨?_, by rw [i2]; exact he⟩
      intro o ho
      simp only [List.mem_cons] at ho
      rcases ho with rfl | ho
      · rfl
      · exact i1 o ho

/-! ## Carrying the corollaries to the model -/

theorem R.valOf {m : VMState} {s : Spec} (h : R m s) (t : Target) : valOf m t = s.cur.valOf t := by
  cases t with
  | var v => simp only [C01.valOf, Env.valOf, h.curVar, GMap.abs, varsG]
  | cmd t => simp only [C01.valOf, Env.valOf, h.getCmd]
  | font => simp only [C01.valOf, Env.valOf, h.curFont]

theorem absGroups_length {K V : Type} [DecidableEq K] (f : K → Option V)
    (gs : List (AList K (Action V))) : (absGroups f gs).length = gs.length := by
  induction gs generalizing f with
  | nil => rfl
  | cons g t ih => simp [absGroups, ih]

theorem Zip4.length_var {es : List Env} {as : List (Var → Option Val)} {bs cs : List (Nat → Option Cmd)}
    {fs : List Nat} (h : Zip4 es as bs cs fs) : es.length = as.length := by
  induction h with
  | nil => rfl
  | cons a b c f _ ih => simp [ih]

theorem R.depth {m : VMState} {s : Spec} (h : R m s) : s.saved.length = m.save.length := by
  rw [h.saved.length_var]
  simp only [GMap.abs, varsG, absGroups_length]

/-- The model's run of a program fails exactly when the specification's does. -/
theorem outs_eq (ops : List Op) : (run .fixed VMState.init ops).2 = (Spec.init.run ops).2 :=
  (refines_run_from R_init ops).1

theorem close_restores_M (hist blk : List Op) (t : Target)
    (hnf : ∀ o ∈ (run .fixed VMState.init hist).2, o.fatal = false)
    (hb : Bal blk)
    (ht : t ∉ Spec.globals ((Spec.init.run hist).1.step .beginGroup).1 blk) :
    (∀ o ∈ (run .fixed VMState.init (hist ++ .beginGroup :: (blk ++ [.endGroup]))).2, o.fatal = false) ∧
    valOf (run .fixed VMState.init (hist ++ .beginGroup :: (blk ++ [.endGroup]))).1 t =
      valOf (run .fixed VMState.init hist).1 t := by
  have hnfS : ∀ o ∈ (Spec.init.run hist).2, o.fatal = false := by rw [← outs_eq]; exact hnf
  obtain ⟨c1, c2⟩ := Spec.close_restores (Spec.init.run hist).1 hb
  have happ := Spec.run_append Spec.init hist (.beginGroup :: (blk ++ [.endGroup])) hnfS
  refine ⟨?_, ?_⟩
  · rw [outs_eq, happ]
    intro o ho
    simp only [List.mem_append] at ho
    rcases ho with ho | ho
    · exact hnfS o ho
    · exact c1 o ho
  · rw [(R_reachable _).valOf, (R_reachable hist).valOf, happ]
    exact (c2 t ht).symm

theorem global_survives_M (hist : List Op) (op : Op) (t : Target) (k : Nat)
    (hnf : ∀ o ∈ (run .fixed VMState.init hist).2, o.fatal = false)
    (hg : Spec.globalTarget (Spec.init.run hist).1 op = some t)
    (hk : k ≤ (run .fixed VMState.init (hist ++ [op])).1.save.length) :
    (∀ o ∈ (run .fixed VMState.init (hist ++ op :: List.replicate k .endGroup)).2, o.fatal = false) ∧
    valOf (run .fixed VMState.init (hist ++ op :: List.replicate k .endGroup)).1 t =
      valOf (run .fixed VMState.init (hist ++ [op])).1 t := by
  have hnfS : ∀ o ∈ (Spec.init.run hist).2, o.fatal = false := by rw [← outs_eq]; exact hnf
  obtain ⟨g1, g2⟩ := Spec.global_all (Spec.init.run hist).1 op t hg
  have happ1 := Spec.run_append Spec.init hist [op] hnfS
  have happ2 := Spec.run_append Spec.init hist (op :: List.replicate k .endGroup) hnfS
  have hone : (Spec.init.run hist).1.run [op] =
      (((Spec.init.run hist).1.step op).1, [((Spec.init.run hist).1.step op).2]) := by
    rw [Spec.run_cons_nonfatal _ _ _ g1]; rfl
  have hdepth : k ≤ ((Spec.init.run hist).1.step op).1.saved.length := by
    have := (R_reachable (hist ++ [op])).depth
    rw [happ1, hone] at this
    rw [this]; exact hk
  obtain ⟨m1, m2⟩ := Spec.close_many t k ((Spec.init.run hist).1.step op).1 g2 hdepth
  refine ⟨?_, ?_⟩
  · rw [outs_eq, happ2, Spec.run_cons_nonfatal _ _ _ g1]
    intro o ho
    simp only [List.mem_append, List.mem_cons] at ho
    rcases ho with ho | rfl | ho
    · exact hnfS o ho
    · exact g1
    · exact m1 o ho
  · rw [(R_reachable _).valOf, (R_reachable (hist ++ [op])).valOf, happ1, happ2, hone,
      Spec.run_cons_nonfatal _ _ _ g1]
    exact m2

/-! ## No `unwrap` fails, no prefix is rejected -/

theorem Spec.step_out_ok (s : Spec) (op : Op) :
    (s.step op).2 ≠ .panic ∧ (s.step op).2 ≠ .errPrefix := by
  cases op with
  | beginGroup => exact ⟨by simp [Spec.step], by simp [Spec.step]⟩
  | endGroup =>
    simp only [Spec.step]
    cases s.saved <;> exact ⟨by simp, by simp⟩
  | assign pre v x => exact ⟨by simp [Spec.step], by simp [Spec.step]⟩
  | define pre t d =>
    simp only [Spec.step]
    cases Spec.resolveDef s.cur d <;> exact ⟨by simp, by simp⟩
  | selectFont pre f => exact ⟨by simp [Spec.step], by simp [Spec.step]⟩
  | read t => cases t <;> exact ⟨by simp [Spec.step, Spec.readTarget], by simp [Spec.step, Spec.readTarget]⟩

theorem Spec.run_outs_ok (s : Spec) (ops : List Op) :
    ∀ o ∈ (s.run ops).2, o ≠ .panic ∧ o ≠ .errPrefix := by
  induction ops generalizing s with
  | nil => simp [Spec.run]
  | cons op ops ih =>
    intro o ho
    simp only [Spec.run] at ho
    by_cases hf : (s.step op).2.fatal = true
    · simp only [hf, if_true, List.mem_singleton] at ho
      subst ho; exact Spec.step_out_ok s op
    · have hf' : (s.step op).2.fatal = false := by simpa using hf
      simp only [hf', Bool.false_eq_true, if_false, List.mem_cons] at ho
      rcases ho with rfl | ho
      · exact Spec.step_out_ok s op
      · exact ih _ o ho

/-- Right after an assignment the target has the assigned value (whatever the scope). -/
theorem Spec.assign_value (s : Spec) (pre : Nat) (v : Var) (x : Val) :
    (s.step (.assign pre v x)).1.cur.valOf (.var v) = .v (some x) := by
  simp only [Spec.step]
  cases Spec.effScope s.globalDefs pre <;> simp [Spec.update, Env.valOf, Spec.setVarEnv, fupd]

theorem Spec.font_value (s : Spec) (pre f : Nat) :
    (s.step (.selectFont pre f)).1.cur.valOf .font = .f f := by
  simp only [Spec.step]
  cases Spec.effScope s.globalDefs pre <;> simp [Spec.update, Env.valOf, Spec.setFontEnv]

theorem assign_value_M (hist : List Op) (pre : Nat) (v : Var) (x : Val)
    (hnf : ∀ o ∈ (run .fixed VMState.init hist).2, o.fatal = false) :
    valOf (run .fixed VMState.init (hist ++ [.assign pre v x])).1 (.var v) = .v (some x) := by
  have hnfS : ∀ o ∈ (Spec.init.run hist).2, o.fatal = false := by rw [← outs_eq]; exact hnf
  rw [(R_reachable _).valOf, Spec.run_append Spec.init hist _ hnfS,
    Spec.run_cons_nonfatal _ _ _ (by rfl)]
  exact Spec.assign_value _ pre v x

theorem font_value_M (hist : List Op) (pre f : Nat)
    (hnf : ∀ o ∈ (run .fixed VMState.init hist).2, o.fatal = false) :
    valOf (run .fixed VMState.init (hist ++ [.selectFont pre f])).1 .font = .f f := by
  have hnfS : ∀ o ∈ (Spec.init.run hist).2, o.fatal = false := by rw [← outs_eq]; exact hnf
  rw [(R_reachable _).valOf, Spec.run_append Spec.init hist _ hnfS,
    Spec.run_cons_nonfatal _ _ _ (by rfl)]
  exact Spec.font_value _ pre f

/-! ## The purely syntactic form: unprefixed assignments are undone -/

/-- `\globaldefs` has its initial value 0 in every environment on the stack. -/
def NoGD (s : Spec) : Prop :=
  s.cur.var globaldefsVar = none ∧ ∀ e ∈ s.saved, e.var globaldefsVar = none

theorem NoGD_init : NoGD Spec.init := ⟨rfl, by simp [Spec.init]⟩

theorem NoGD.update {s : Spec} (h : NoGD s) (sc : Scope) (f : Env → Env)
    (hf : ∀ e, (f e).var globaldefsVar = e.var globaldefsVar) : NoGD (s.update sc f) := by
  cases sc with
  | loc => exact ⟨by simp only [Spec.update, hf]; exact h.1, h.2⟩
  | glob =>
    refine ⟨by simp only [Spec.update, hf]; exact h.1, ?_⟩
    intro e he
    simp only [Spec.update, List.mem_map] at he
    obtain ⟨e0, he0, rfl⟩ := he
    rw [hf]; exact h.2 e0 he0

theorem NoGD.step {s : Spec} (h : NoGD s) (op : Op) (hop : op.noGlobaldefs = true) :
    NoGD (s.step op).1 := by
  cases op with
  | beginGroup =>
    refine ⟨h.1, ?_⟩
    intro e he
    simp only [Spec.step, List.mem_cons] at he
    rcases he with rfl | he
    · exact h.1
    · exact h.2 e he
  | endGroup =>
    obtain ⟨cur, saved⟩ := s
    cases saved with
    | nil => exact h
    | cons e rest =>
      refine ⟨h.2 e (by simp), ?_⟩
      intro e' he'
      have he'' : e' ∈ rest := he'
      exact h.2 e' (by simp [he''])
  | assign pre v x =>
    simp only [Op.noGlobaldefs, decide_eq_true_eq] at hop
    refine h.update _ _ ?_
    intro e
    have : ¬ v = globaldefsVar := hop
    simp [Spec.setVarEnv, fupd, this]
  | define pre t d =>
    simp only [Spec.step]
    cases Spec.resolveDef s.cur d with
    | none => exact h
    | some c => exact h.update _ _ (fun e => by cases t <;> rfl)
  | selectFont pre f => exact h.update _ _ (fun _ => rfl)
  | read t => exact h

theorem NoGD.run {s : Spec} (h : NoGD s) (ops : List Op) (hops : ∀ op ∈ ops, op.noGlobaldefs = true) :
    NoGD (s.run ops).1 := by
  induction ops generalizing s with
  | nil => exact h
  | cons op ops ih =>
    have h1 := h.step op (hops op (by simp))
    simp only [Spec.run]
    by_cases hf : (s.step op).2.fatal = true
    · simp only [hf, if_true]; exact h1
    · have hf' : (s.step op).2.fatal = false := by simpa using hf
      simp only [hf', Bool.false_eq_true, if_false]
      exact ih h1 (fun o ho => hops o (by simp [ho]))

theorem Op.plain_noGlobaldefs (op : Op) (h : op.plain = true) : op.noGlobaldefs = true := by
  cases op <;> simp_all [Op.plain, Op.noGlobaldefs]

theorem NoGD.globalTarget {s : Spec} (h : NoGD s) (op : Op) (hop : op.plain = true) :
    Spec.globalTarget s op = none := by
  have hg : s.globalDefs = 0 := by simp only [Spec.globalDefs, h.1]
  cases op with
  | beginGroup => rfl
  | endGroup => rfl
  | read t => rfl
  | assign pre v x =>
    simp only [Op.plain, Bool.and_eq_true, decide_eq_true_eq] at hop
    simp [Spec.globalTarget, hg, hop.1, Spec.effScope]
  | selectFont pre f =>
    simp only [Op.plain, decide_eq_true_eq] at hop
    simp [Spec.globalTarget, hg, hop, Spec.effScope]
  | define pre t d =>
    simp only [Op.plain, Bool.and_eq_true, decide_eq_true_eq] at hop
    simp only [Spec.globalTarget, hg, hop.1, Spec.effScope]
    cases Spec.resolveDef s.cur d with
    | none => rfl
    | some c => cases d <;> simp_all [defScope]

theorem NoGD.globals {s : Spec} (h : NoGD s) (blk : List Op) (hblk : ∀ op ∈ blk, op.plain = true) :
    Spec.globals s blk = [] := by
  induction blk generalizing s with
  | nil => rfl
  | cons op blk ih =>
    have hp := hblk op (by simp)
    simp only [Spec.globals, h.globalTarget op hp]
    exact ih (h.step op (Op.plain_noGlobaldefs op hp)) (fun o ho => hblk o (by simp [ho]))

theorem close_restores_plain_M (hist blk : List Op) (t : Target)
    (hnf : ∀ o ∈ (run .fixed VMState.init hist).2, o.fatal = false)
    (hh : ∀ op ∈ hist, op.noGlobaldefs = true)
    (hb : Bal blk) (hp : ∀ op ∈ blk, op.plain = true) :
    valOf (run .fixed VMState.init (hist ++ .beginGroup :: (blk ++ [.endGroup]))).1 t =
      valOf (run .fixed VMState.init hist).1 t := by
  have h0 : NoGD ((Spec.init.run hist).1.step .beginGroup).1 :=
    (NoGD_init.run hist hh).step .beginGroup rfl
  exact (close_restores_M hist blk t hnf hb (by rw [h0.globals blk hp]; simp)).2

/-! ## TeX's specification and the code-compatible one coincide away from finding C01-d -/

theorem Spec.stepTeX_eq (s : Spec) (op : Op) (h : Spec.undefLet s op = false) :
    s.stepTeX op = s.step op := by
  cases op with
  | define pre t d =>
    simp only [Spec.undefLet] at h
    simp only [Spec.stepTeX]
    cases hr : Spec.resolveDef s.cur d with
    | none => simp [hr] at h
    | some c => rfl
  | _ => rfl

theorem Spec.runTeX_eq (s : Spec) (ops : List Op) (h : Spec.noUndefLet s ops = true) :
    s.runTeX ops = s.run ops := by
  induction ops generalizing s with
  | nil => rfl
  | cons op ops ih =>
    simp only [Spec.noUndefLet, Bool.and_eq_true, Bool.not_eq_true'] at h
    simp only [Spec.runTeX, Spec.run, Spec.stepTeX_eq s op h.1]
    by_cases hf : (s.step op).2.fatal = true
    · simp [hf]
    · have hf' : (s.step op).2.fatal = false := by simpa using hf
      simp only [hf', Bool.false_eq_true, if_false] at h ⊢
      rw [ih _ h.2]

theorem outs_eq_tex (ops : List Op) (h : Spec.noUndefLet Spec.init ops = true) :
    (run .fixed VMState.init ops).2 = (Spec.init.runTeX ops).2 := by
  rw [Spec.runTeX_eq _ _ h]; exact outs_eq ops

end C01
