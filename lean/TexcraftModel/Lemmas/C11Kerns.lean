import TexcraftModel.Model.C11
namespace C11

/-! ## `indexOf` -/

theorem indexOf_get {k : Int} {ks : List Int} {idx : Nat} (h : indexOf k ks = some idx) :
    ks[idx]? = some k := by
  induction ks generalizing idx with
  | nil => simp [indexOf] at h
  | cons x xs ih =>
    simp only [indexOf] at h
    split at h
    · cases h
      simp [*]
    · cases hx : indexOf k xs with
      | none => simp [hx] at h
      | some j =>
        simp [hx] at h
        subst h
        simpa using ih hx

theorem indexOf_lt {k : Int} {ks : List Int} {idx : Nat} (h : indexOf k ks = some idx) :
    idx < ks.length := by
  have h1 := indexOf_get h
  exact (List.getElem?_eq_some_iff.mp h1).1

theorem indexOf_none_not_mem {k : Int} {ks : List Int} (h : indexOf k ks = none) : k ∉ ks := by
  induction ks with
  | nil => simp
  | cons x xs ih =>
    simp only [indexOf] at h
    split at h
    · simp at h
    · rename_i hne
      cases hx : indexOf k xs with
      | none =>
        have := ih hx
        simp only [List.mem_cons, not_or]
        exact ⟨fun e => hne e.symm, this⟩
      | some j => simp [hx] at h

/-! ## Unfolding lemmas for `unpackKernsAux` -/

theorem unpackKernsAux_nil (ks : List Int) : unpackKernsAux ks [] = ([], ks) := by
  simp only [unpackKernsAux]

theorem unpackKernsAux_kern_some {ks : List Int} {i : Instr} {rest : List Instr} {k : Int} {idx : Nat}
    (hop : i.op = .kern k) (hidx : indexOf k ks = some idx) :
    unpackKernsAux ks (i :: rest) =
      ({ i with op := .kernAt idx } :: (unpackKernsAux ks rest).1, (unpackKernsAux ks rest).2) := by
  simp only [unpackKernsAux, hop, hidx]

theorem unpackKernsAux_kern_none {ks : List Int} {i : Instr} {rest : List Instr} {k : Int}
    (hop : i.op = .kern k) (hidx : indexOf k ks = none) :
    unpackKernsAux ks (i :: rest) =
      ({ i with op := .kernAt ks.length } :: (unpackKernsAux (ks ++ [k]) rest).1,
        (unpackKernsAux (ks ++ [k]) rest).2) := by
  simp only [unpackKernsAux, hop, hidx]

theorem unpackKernsAux_other {ks : List Int} {i : Instr} {rest : List Instr}
    (hop : ∀ k, i.op ≠ .kern k) :
    unpackKernsAux ks (i :: rest) =
      (i :: (unpackKernsAux ks rest).1, (unpackKernsAux ks rest).2) := by
  cases i with
  | mk n r op =>
    cases op with
    | kern k => exact absurd rfl (hop k)
    | kernAt j => simp only [unpackKernsAux]
    | lig c p => simp only [unpackKernsAux]
    | redirect u f => simp only [unpackKernsAux]

/-! ## The kerns array only grows -/

theorem unpackKernsAux_prefix (ks : List Int) (l : List Instr) :
    ∃ more, (unpackKernsAux ks l).2 = ks ++ more := by
  induction l generalizing ks with
  | nil => exact ⟨[], by simp [unpackKernsAux_nil]⟩
  | cons i rest ih =>
    cases hop : i.op with
    | kern k =>
      cases hidx : indexOf k ks with
      | some idx =>
        rw [unpackKernsAux_kern_some hop hidx]
        exact ih ks
      | none =>
        rw [unpackKernsAux_kern_none hop hidx]
        obtain ⟨more, hm⟩ := ih (ks ++ [k])
        exact ⟨k :: more, by simp [hm]⟩
    | kernAt j =>
      rw [unpackKernsAux_other (by simp [hop])]
      exact ih ks
    | lig c p =>
      rw [unpackKernsAux_other (by simp [hop])]
      exact ih ks
    | redirect u f =>
      rw [unpackKernsAux_other (by simp [hop])]
      exact ih ks

/-! ## Round trip -/

/-- pack_kerns undoes unpack_kerns (generalised over the kerns collected so far) -/
theorem unpackKernsAux_roundtrip (ks : List Int) (l : List Instr) (h : noKernAt l = true) :
    packKerns (unpackKernsAux ks l).2 (unpackKernsAux ks l).1 = l := by
  induction l generalizing ks with
  | nil => simp [unpackKernsAux_nil, packKerns]
  | cons i rest ih =>
    have hh : i.op.isKernAt = false ∧ noKernAt rest = true := by
      simpa [noKernAt] using h
    obtain ⟨hi, hrest⟩ := hh
    cases hop : i.op with
    | kern k =>
      cases hidx : indexOf k ks with
      | some idx =>
        rw [unpackKernsAux_kern_some hop hidx]
        obtain ⟨more, hm⟩ := unpackKernsAux_prefix ks rest
        have hlt := indexOf_lt hidx
        have hget : (unpackKernsAux ks rest).2[idx]? = some k := by
          rw [hm, List.getElem?_append_left hlt]
          exact indexOf_get hidx
        have ihr := ih ks hrest
        simp only [packKerns, List.map_cons] at ihr ⊢
        rw [ihr]
        cases i with
        | mk n r op =>
          simp only at hop
          subst hop
          simp [resolve, hget]
      | none =>
        rw [unpackKernsAux_kern_none hop hidx]
        obtain ⟨more, hm⟩ := unpackKernsAux_prefix (ks ++ [k]) rest
        have hget : (unpackKernsAux (ks ++ [k]) rest).2[ks.length]? = some k := by
          rw [hm]
          simp
        have ihr := ih (ks ++ [k]) hrest
        simp only [packKerns, List.map_cons] at ihr ⊢
        rw [ihr]
        cases i with
        | mk n r op =>
          simp only at hop
          subst hop
          simp [resolve, hget]
    | kernAt j => simp [hop, Op.isKernAt] at hi
    | lig c p =>
      rw [unpackKernsAux_other (by simp [hop])]
      have ihr := ih ks hrest
      simp only [packKerns, List.map_cons] at ihr ⊢
      rw [ihr]
      cases i with
      | mk n r op =>
        simp only at hop
        subst hop
        simp [resolve]
    | redirect u f =>
      rw [unpackKernsAux_other (by simp [hop])]
      have ihr := ih ks hrest
      simp only [packKerns, List.map_cons] at ihr ⊢
      rw [ihr]
      cases i with
      | mk n r op =>
        simp only at hop
        subst hop
        simp [resolve]

theorem kerns_roundtrip (l : List Instr) (h : noKernAt l = true) :
    packKerns (unpackKerns l).2 (unpackKerns l).1 = l :=
  unpackKernsAux_roundtrip [] l h

/-! ## Shape of the unpacked program -/

theorem unpackKernsAux_no_kern (ks : List Int) (l : List Instr) :
    ∀ i ∈ (unpackKernsAux ks l).1, ∀ k, i.op ≠ Op.kern k := by
  induction l generalizing ks with
  | nil => simp [unpackKernsAux_nil]
  | cons i rest ih =>
    cases hop : i.op with
    | kern k =>
      cases hidx : indexOf k ks with
      | some idx =>
        rw [unpackKernsAux_kern_some hop hidx]
        intro j hj
        simp only [List.mem_cons] at hj
        rcases hj with rfl | hj
        · simp
        · exact ih ks j hj
      | none =>
        rw [unpackKernsAux_kern_none hop hidx]
        intro j hj
        simp only [List.mem_cons] at hj
        rcases hj with rfl | hj
        · simp
        · exact ih _ j hj
    | kernAt n =>
      rw [unpackKernsAux_other (by simp [hop])]
      intro j hj
      simp only [List.mem_cons] at hj
      rcases hj with rfl | hj
      · simp [hop]
      · exact ih ks j hj
    | lig c p =>
      rw [unpackKernsAux_other (by simp [hop])]
      intro j hj
      simp only [List.mem_cons] at hj
      rcases hj with rfl | hj
      · simp [hop]
      · exact ih ks j hj
    | redirect u f =>
      rw [unpackKernsAux_other (by simp [hop])]
      intro j hj
      simp only [List.mem_cons] at hj
      rcases hj with rfl | hj
      · simp [hop]
      · exact ih ks j hj

/-- unpack_kerns leaves no `Kern` operation behind and keeps skip/right fields -/
theorem unpackKerns_no_kern (l : List Instr) : ∀ i ∈ (unpackKerns l).1, ∀ k, i.op ≠ Op.kern k :=
  unpackKernsAux_no_kern [] l

theorem unpackKernsAux_shape (ks : List Int) (l : List Instr) :
    (unpackKernsAux ks l).1.map (fun i => (i.next, i.right)) =
      l.map (fun i => (i.next, i.right)) := by
  induction l generalizing ks with
  | nil => simp [unpackKernsAux_nil]
  | cons i rest ih =>
    cases hop : i.op with
    | kern k =>
      cases hidx : indexOf k ks with
      | some idx =>
        rw [unpackKernsAux_kern_some hop hidx]
        simp [ih ks]
      | none =>
        rw [unpackKernsAux_kern_none hop hidx]
        simp [ih (ks ++ [k])]
    | kernAt n =>
      rw [unpackKernsAux_other (by simp [hop])]
      simp [ih ks]
    | lig c p =>
      rw [unpackKernsAux_other (by simp [hop])]
      simp [ih ks]
    | redirect u f =>
      rw [unpackKernsAux_other (by simp [hop])]
      simp [ih ks]

theorem unpackKerns_shape (l : List Instr) :
    (unpackKerns l).1.map (fun i => (i.next, i.right)) = l.map (fun i => (i.next, i.right)) :=
  unpackKernsAux_shape [] l

/-! ## No duplicates in the kerns array -/

theorem unpackKernsAux_nodup (ks : List Int) (l : List Instr) (hks : ks.Nodup) :
    (unpackKernsAux ks l).2.Nodup := by
  induction l generalizing ks with
  | nil => simpa [unpackKernsAux_nil] using hks
  | cons i rest ih =>
    cases hop : i.op with
    | kern k =>
      cases hidx : indexOf k ks with
      | some idx =>
        rw [unpackKernsAux_kern_some hop hidx]
        exact ih ks hks
      | none =>
        rw [unpackKernsAux_kern_none hop hidx]
        apply ih
        have hnm := indexOf_none_not_mem hidx
        rw [List.nodup_append]
        refine ⟨hks, by simp, ?_⟩
        intro a ha b hb
        simp only [List.mem_singleton] at hb
        subst hb
        intro e
        subst e
        exact hnm ha
    | kernAt n =>
      rw [unpackKernsAux_other (by simp [hop])]
      exact ih ks hks
    | lig c p =>
      rw [unpackKernsAux_other (by simp [hop])]
      exact ih ks hks
    | redirect u f =>
      rw [unpackKernsAux_other (by simp [hop])]
      exact ih ks hks

/-- the kerns array has no duplicates (each value is stored once) -/
theorem unpackKerns_nodup (l : List Instr) : (unpackKerns l).2.Nodup :=
  unpackKernsAux_nodup [] l (by simp)

end C11
