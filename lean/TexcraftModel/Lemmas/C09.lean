import TexcraftModel.Model.C09

/-! Helper lemmas for `Props/C09.lean`. -/
namespace C09

/-! ### Protocol -/

theorem specRun_ok_or_err (m : Mode) (evs : List Ev) : specRun m evs = .ok ∨ specRun m evs = .err := by
  induction evs generalizing m with
  | nil => simp [specRun]
  | cons e es ih =>
    cases e <;> simp only [specRun] <;> try exact ih _
    · split
      · simp
      · exact ih _
    · simp
    · simp

/-- While the contract is respected the status is `None` at the head of the loop, and the loop
computes what the specification says. -/
theorem runLoop_eq_spec (m : Mode) (evs : List Ev) (h : ∀ e ∈ evs, e.respects = true) :
    runLoop ⟨.none, m⟩ evs = specRun m evs := by
  induction evs generalizing m with
  | nil => simp [runLoop, specRun, toNormal, finish]
  | cons e es ih =>
    have he : e.respects = true := h e (by simp)
    have hes : ∀ e ∈ es, e.respects = true := fun x hx => h x (by simp [hx])
    cases e with
    | ok => simp [runLoop, step, specRun, ih m hes]
    | setMode m' => simp [runLoop, step, specRun, ih m' hes]
    | recoverable =>
      cases m <;> simp [runLoop, step, vmError, hookContinues, toError, finish, specRun, ih _ hes]
    | fatal => simp [runLoop, step, toError, finish, specRun]
    | shutdown => simp [runLoop, step, toNormal, finish, specRun]
    | ignFatal => simp [Ev.respects] at he
    | ignShutdown => simp [Ev.respects] at he
    | ignRecoverable => simp [Ev.respects] at he
    | spurious => simp [Ev.respects] at he

/-! ### Bytes and characters -/

theorem u8len_pos (c : Char) : 0 < u8len c := by
  unfold u8len
  split
  · omega
  · split
    · omega
    · split <;> omega

theorem byteLen_append (a b : List Char) : byteLen (a ++ b) = byteLen a + byteLen b := by
  induction a with
  | nil => simp [byteLen]
  | cons c cs ih => simp [byteLen, ih]; omega

theorem splitAtByte_take (s : List Char) (k : Nat) (h : k ≤ s.length) :
    splitAtByte s (byteLen (s.take k)) = some (s.take k, s.drop k) := by
  induction s generalizing k with
  | nil => simp [splitAtByte, byteLen]
  | cons c cs ih =>
    cases k with
    | zero => simp [splitAtByte, byteLen]
    | succ n =>
      have hp := u8len_pos c
      have hn : n ≤ cs.length := by simpa using h
      simp only [List.take_succ_cons, List.drop_succ_cons, byteLen, splitAtByte]
      rw [if_neg (by omega), if_pos (by omega)]
      have : u8len c + byteLen (List.take n cs) - u8len c = byteLen (List.take n cs) := by omega
      rw [this, ih n hn]

theorem byteLen_take_add (s : List Char) (a b : Nat) :
    byteLen (s.take (a + b)) = byteLen (s.take a) + byteLen ((s.drop a).take b) := by
  rw [List.take_add, byteLen_append]

/-- On a line of one-byte characters byte offsets and character indices coincide. -/
theorem byteLen_ascii (s : List Char) (h : ∀ c ∈ s, u8len c = 1) : byteLen s = s.length := by
  induction s with
  | nil => simp [byteLen]
  | cons c cs ih =>
    have h1 : u8len c = 1 := h c (by simp)
    have h2 : ∀ c ∈ cs, u8len c = 1 := fun x hx => h x (by simp [hx])
    simp [byteLen, h1, ih h2]; omega

theorem splitAtByte_ascii (s : List Char) (h : ∀ c ∈ s, u8len c = 1) (k : Nat) (hk : k ≤ s.length) :
    splitAtByte s k = some (s.take k, s.drop k) := by
  have h' : ∀ c ∈ s.take k, u8len c = 1 := fun c hc => h c (List.mem_of_mem_take hc)
  have := splitAtByte_take s k hk
  rwa [byteLen_ascii _ h', List.length_take, Nat.min_eq_left hk] at this

/-! ### `Tracer::trace` -/

/-- Invariant of the loop: the line start recorded so far is at or before the cursor, it is a
character boundary of the whole content (`pre` = what has been consumed), and the line count
is positive. -/
theorem traceLoop_inv (off : Nat) (rest : List Char) :
    ∀ (pre : List Char) (loc : Loc),
      loc.lineStartChar ≤ pre.length → pre.length ≤ off →
      loc.lineStartByte = byteLen (pre.take loc.lineStartChar) →
      let r := traceLoop off rest pre.length (byteLen pre) loc
      r.lineStartChar ≤ off ∧ r.lineStartChar ≤ (pre ++ rest).length ∧
        r.lineStartByte = byteLen ((pre ++ rest).take r.lineStartChar) := by
  induction rest with
  | nil =>
    intro pre loc h1 h2 h3
    simp only [traceLoop, List.append_nil]
    exact ⟨by omega, h1, h3⟩
  | cons c cs ih =>
    intro pre loc h1 h2 h3
    simp only [traceLoop]
    split
    · -- reached the offset
      refine ⟨by omega, by simp; omega, ?_⟩
      rw [List.take_append_of_le_length h1]; exact h3
    · rename_i hne
      have hlt : pre.length < off := by omega
      have hpre : (pre ++ [c]).length = pre.length + 1 := by simp
      have hb : byteLen (pre ++ [c]) = byteLen pre + u8len c := by simp [byteLen_append, byteLen]
      have happ : pre ++ c :: cs = (pre ++ [c]) ++ cs := by simp
      split
      · -- newline: a new line starts after it
        have := ih (pre ++ [c]) ⟨loc.line + 1, pre.length + 1, byteLen pre + u8len c⟩
          (by simp) (by simp; omega)
          (by simp only []; rw [List.take_of_length_le (by simp), hb])
        rw [hpre, hb] at this
        rw [happ]; exact this
      · have := ih (pre ++ [c]) loc (by simp; omega) (by simp; omega)
          (by rw [List.take_append_of_le_length h1]; exact h3)
        rw [hpre, hb] at this
        rw [happ]; exact this

end C09
