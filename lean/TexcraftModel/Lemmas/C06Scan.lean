import TexcraftModel.Lemmas.C06Units
/-!
C06 — `scan_and_apply_units` / `scan_dimen` (M) against TeX §448–§460 (S).
-/
namespace C06

/-- The model's outcome read as a specification outcome (`panic` has no counterpart). -/
def SRes.toSR : SRes → Spec.SR
  | .ok s => .ok s.val s.nerr s.order
  | .panic => .undef

/-- Recorded deviation C06-f: a *negative* internal unit whose multiple overflows (the code
clamps to `-max_dimen`, TeX to `+max_dimen`, before the explicit signs). -/
def negUnitOverflow (ip f : Int) : UnitSpec → Bool
  | .internal v => decide (v < 0) &&
      (match xnOverD v f 65536 with
       | .ok (a, _) => (match nxPlusY v ip a with | .ok _ => false | _ => true)
       | _ => true)
  | _ => false

/-! ## shifting sign and error count through `attach_sign` -/

def shift (neg : Bool) (e : Nat) : Spec.SR → Spec.SR
  | .ok v n o => .ok (if neg then -v else v) (n + e) o
  | .undef => .undef

theorem attachSign_shift (cv : Int) (ae neg : Bool) (e o : Nat) :
    Spec.attachSign cv ae neg e o = shift neg e (Spec.attachSign cv ae false 0 o) := by
  unfold Spec.attachSign
  by_cases h : (ae = true ∨ cv.natAbs ≥ 1073741824)
  · simp only [if_pos h, shift]; simp [Nat.add_comm]
  · simp only [if_neg h, shift]; simp

theorem attachFraction_shift (cv f : Int) (ae neg : Bool) (e o : Nat) :
    Spec.attachFraction cv f ae neg e o = shift neg e (Spec.attachFraction cv f ae false 0 o) := by
  unfold Spec.attachFraction
  split <;> exact attachSign_shift _ _ _ _ _

theorem units_shift (cv f : Int) (neg : Bool) (e : Nat) (u : UnitSpec) :
    Spec.units cv f neg e u = shift neg e (Spec.units cv f false 0 u) := by
  cases u with
  | fil ls =>
    simp only [Spec.units]
    rw [attachFraction_shift cv f false neg (e + (ls - 2)), attachFraction_shift cv f false false (0 + (ls - 2))]
    generalize Spec.attachFraction cv f false false 0 (min (1 + ls) 3) = r
    cases r <;> simp [shift]; omega
  | internal v => simp only [Spec.units]; exact attachSign_shift _ _ _ _ _
  | bad =>
    simp only [Spec.units]
    rw [attachFraction_shift cv f false neg (e + 1), attachFraction_shift cv f false false (0 + 1)]
    generalize Spec.attachFraction cv f false false 0 0 = r
    cases r <;> simp [shift]; omega
  | phys pu =>
    cases pu <;> simp only [Spec.units] <;>
      first | exact attachFraction_shift _ _ _ _ _ _ | exact attachSign_shift _ _ _ _ _

/-! ## `nx_plus_y` stays in range -/

theorem specNxPlusY_range (n x y : Int) (hy : -1073741823 ≤ y ∧ y ≤ 1073741823)
    (he : (Spec.nxPlusY n x y).err = false) :
    -1073741823 ≤ (Spec.nxPlusY n x y).val ∧ (Spec.nxPlusY n x y).val ≤ 1073741823 := by
  rw [Spec.nxPlusY, multAndAdd_exact n x y 1073741823 (by omega) hy] at he ⊢
  by_cases h0 : n = 0
  · rw [if_pos h0]; exact hy
  · rw [if_neg h0] at he ⊢
    by_cases hc : (-1073741823 ≤ n * x + y ∧ n * x + y ≤ 1073741823)
    · rw [if_pos hc]; exact hc
    · rw [if_neg hc] at he; simp at he

/-! ## the units -/

theorem applyUnits_fil (ip f : Int) (hip : 0 ≤ ip) (hf0 : 0 ≤ f) (hf : f ≤ 65536) (ls : Nat) :
    (applyUnits ip f (.fil ls)).toSR = Spec.units ip f false 0 (.fil ls) := by
  have hM : maxDimen = 1073741823 := rfl
  simp only [applyUnits, Spec.units, Spec.attachFraction, Nat.zero_add]
  by_cases h1 : ip ≥ 16384
  · have : fromInteger ip = none := by unfold fromInteger; rw [if_pos (Or.inl h1)]
    simp only [this]
    rw [if_pos h1, attachSign_err _ _ _ _ _ (Or.inl rfl)]
    simp [handleOverflow, SRes.toSR, hM]
  · have : fromInteger ip = some (65536 * ip) := by unfold fromInteger; rw [if_neg (by omega)]
    simp only [this]
    rw [if_neg h1]
    have hc : chk32 (65536 * ip + f) = .ok (65536 * ip + f) := by
      unfold chk32; rw [if_pos (by simp [inI32]; omega)]
    simp only [hc]
    by_cases h2 : 65536 * ip + f ≤ maxDimen
    · rw [if_pos h2, attachSign_ok _ _ _ _ (by omega)]
      simp [SRes.toSR]; omega
    · rw [if_neg h2, attachSign_err _ _ _ _ _ (Or.inr (by omega))]
      simp [handleOverflow, SRes.toSR, hM]

theorem applyUnits_phys (ip f : Int) (hip : 0 ≤ ip) (hip2 : ip ≤ 2147483647) (hf0 : 0 ≤ f) (hf : f ≤ 65536)
    (pu : TUnit) : (applyUnits ip f (.phys pu)).toSR = Spec.units ip f false 0 (.phys pu) := by
  rw [← scaledNew_eq pu ip f hip hip2 hf0 hf]
  simp only [applyUnits]
  cases scaledNew ip f pu <;> simp [SRes.toSR, handleOverflow]

theorem applyUnits_bad (ip f : Int) (hip : 0 ≤ ip) (hip2 : ip ≤ 2147483647) (hf0 : 0 ≤ f) (hf : f ≤ 65536) :
    (applyUnits ip f .bad).toSR = Spec.units ip f false 0 .bad := by
  have h := scaledNew_eq .pt ip f hip hip2 hf0 hf
  have e : Spec.units ip f false 0 .bad = shift false 1 (Spec.units ip f false 0 (.phys .pt)) := by
    simp only [Spec.units]
    rw [attachFraction_shift ip f false false (0 + 1)]
  rw [e, ← h]
  simp only [applyUnits]
  cases scaledNew ip f .pt <;> simp [SRes.toSR, handleOverflow, shift]

theorem applyUnits_internal (ip f v : Int) (_hip : 0 ≤ ip) (hf0 : 0 ≤ f) (hf : f ≤ 65536)
    (hex : negUnitOverflow ip f (.internal v) = false) :
    (applyUnits ip f (.internal v)).toSR = Spec.units ip f false 0 (.internal v) := by
  have hM : maxDimen = 1073741823 := rfl
  by_cases hv : 0 ≤ v
  · obtain ⟨g, hg⟩ := specXnOverD_nonneg v f 65536 hv hf0 (by omega)
    have hx := xnOverD_nonneg v f 65536 hv hf0 hf (by omega) (by omega)
    have hq0 : 0 ≤ v * f / 65536 := Int.ediv_nonneg (Int.mul_nonneg hv hf0) (by omega)
    simp only [applyUnits, Spec.units, hx, hg]
    by_cases hbig : v * f / 65536 > maxDimen
    · rw [if_pos hbig, if_pos hbig]
      simp only []
      rw [attachSign_err _ _ _ _ _ (Or.inl (by simp))]
      have : decide (v < 0) = false := by simp; omega
      simp [handleOverflow, SRes.toSR, hM, this]
    · rw [if_neg hbig, if_neg hbig]
      simp only []
      rw [nxPlusY_eq v ip (v * f / 65536) (by omega)]
      by_cases he : (Spec.nxPlusY ip v (v * f / 65536)).err = true
      · rw [if_pos he, attachSign_err _ _ _ _ _ (Or.inl (by simp [he]))]
        have : decide (v < 0) = false := by simp; omega
        simp [handleOverflow, SRes.toSR, hM, this]
      · have he' : (Spec.nxPlusY ip v (v * f / 65536)).err = false := by simpa using he
        have hr := specNxPlusY_range ip v (v * f / 65536) (by omega) he'
        rw [if_neg he, he']
        simp only [Bool.or_false]
        rw [attachSign_ok _ _ _ _ (by omega)]
        simp [SRes.toSR]
  · have hX : 0 < -v := by omega
    obtain ⟨g, hg⟩ := specXnOverD_neg (-v) f 65536 hX hf0 (by omega)
    have hx := xnOverD_neg (-v) f 65536 hX hf0 hf (by omega) (by omega)
    rw [Int.neg_neg] at hg hx
    have hq0 : 0 ≤ -v * f / 65536 := Int.ediv_nonneg (Int.mul_nonneg (by omega) hf0) (by omega)
    have hdv : decide (v < 0) = true := by simp; omega
    simp only [negUnitOverflow, hx, hdv, Bool.true_and] at hex
    simp only [applyUnits, Spec.units, hx, hg]
    by_cases hbig : -v * f / 65536 > maxDimen
    · rw [if_pos hbig] at hex; simp at hex
    · rw [if_neg hbig] at hex
      rw [if_neg hbig, if_neg hbig]
      simp only [] at hex ⊢
      rw [nxPlusY_eq v ip (-(-v * f / 65536)) (by omega)] at hex ⊢
      by_cases he : (Spec.nxPlusY ip v (-(-v * f / 65536))).err = true
      · rw [if_pos he] at hex; simp at hex
      · have he' : (Spec.nxPlusY ip v (-(-v * f / 65536))).err = false := by simpa using he
        have hr := specNxPlusY_range ip v (-(-v * f / 65536)) (by omega) he'
        rw [if_neg he, he']
        simp only [Bool.or_false]
        rw [attachSign_ok _ _ _ _ (by omega)]
        simp [SRes.toSR]

/-- `scan_and_apply_units` = §453–§459 followed by `attach_fraction`/`attach_sign`, for every
kind of unit; the only excluded inputs are those of the recorded deviation C06-f. -/
theorem applyUnits_eq (ip f : Int) (hip : 0 ≤ ip) (hip2 : ip ≤ 2147483647) (hf0 : 0 ≤ f) (hf : f ≤ 65536)
    (u : UnitSpec) (hex : negUnitOverflow ip f u = false) :
    (applyUnits ip f u).toSR = Spec.units ip f false 0 u := by
  cases u with
  | fil ls => exact applyUnits_fil ip f hip hf0 hf ls
  | internal v => exact applyUnits_internal ip f v hip hf0 hf hex
  | phys pu => exact applyUnits_phys ip f hip hip2 hf0 hf pu
  | bad => exact applyUnits_bad ip f hip hip2 hf0 hf


/-! ## `scan_dimen` -/


theorem rdAcc_foldr (ds : List Nat) :
    rdAcc ds = ds.foldr (fun (d : Nat) (a : Int) => (a + (d : Int) * 131072) / 10) 0 := by
  induction ds with
  | nil => rfl
  | cons d ds ih => simp only [rdAcc, List.foldr_cons, ih]

theorem scanFraction_eq (ds : List Nat) : scanFraction ds = Spec.scanFraction ds := by
  unfold scanFraction Spec.scanFraction fromDecimalDigits Spec.roundDecimals
  rw [rdAcc_foldr]

theorem scanFraction_bound (fr : List Nat) (h : ∀ d ∈ fr, d < 10) :
    0 ≤ scanFraction fr ∧ scanFraction fr ≤ 65536 :=
  fromDecimalDigits_bound _ (fun d hd => h d (List.mem_of_mem_take hd))

theorem attachSign_bound (cv : Int) (ae neg : Bool) (e o : Nat) :
    ∃ v n, Spec.attachSign cv ae neg e o = .ok v n o ∧ -1073741823 ≤ v ∧ v ≤ 1073741823 := by
  by_cases h : (ae = true ∨ cv.natAbs ≥ 1073741824)
  · rw [attachSign_err _ _ _ _ _ h]
    cases neg <;> exact ⟨_, _, rfl, by simp⟩
  · have hae : ae = false := by cases ae <;> simp_all
    subst hae
    rw [attachSign_ok _ _ _ _ (by omega)]
    cases neg
    · exact ⟨_, _, rfl, by simp; omega⟩
    · exact ⟨_, _, rfl, by simp; omega⟩

theorem attachFraction_bound (cv f : Int) (ae neg : Bool) (e o : Nat) :
    ∃ v n, Spec.attachFraction cv f ae neg e o = .ok v n o ∧ -1073741823 ≤ v ∧ v ≤ 1073741823 := by
  unfold Spec.attachFraction; split <;> exact attachSign_bound _ _ _ _ _

/-- Whatever `scan_dimen` returns after the units is within `±max_dimen`. -/
theorem units_bound (cv f : Int) (neg : Bool) (e : Nat) (u : UnitSpec) :
    ∃ v n o, Spec.units cv f neg e u = .ok v n o ∧ -1073741823 ≤ v ∧ v ≤ 1073741823 := by
  cases u with
  | fil ls => obtain ⟨v, n, h⟩ := attachFraction_bound cv f false neg (e + (ls - 2)) (min (1 + ls) 3); exact ⟨v, n, _, h⟩
  | internal w => simp only [Spec.units]; obtain ⟨v, n, h⟩ := attachSign_bound _ _ neg e 0; exact ⟨v, n, _, h⟩
  | bad => obtain ⟨v, n, h⟩ := attachFraction_bound cv f false neg (e + 1) 0; exact ⟨v, n, _, h⟩
  | phys pu =>
    cases pu <;> simp only [Spec.units] <;>
      first
        | (obtain ⟨v, n, h⟩ := attachFraction_bound _ _ _ neg e 0; exact ⟨v, n, _, h⟩)
        | (obtain ⟨v, n, h⟩ := attachSign_bound _ _ neg e 0; exact ⟨v, n, _, h⟩)

/-- Applying the explicit sign after the fact (`? * negative`) = `if negative then negate`. -/
theorem mulSign_shift (r : SRes) (neg : Bool) (v : Int) (n o : Nat) (hr : r.toSR = .ok v n o)
    (hb : -1073741823 ≤ v ∧ v ≤ 1073741823) :
    (mulSign r (if neg then -1 else 1)).toSR = shift neg 0 (.ok v n o) := by
  cases r with
  | panic => simp [SRes.toSR] at hr
  | ok sc =>
    simp only [SRes.toSR, Spec.SR.ok.injEq] at hr
    obtain ⟨h1, h2, h3⟩ := hr
    subst h1 h2 h3
    cases neg
    · simp only [mulSign, Bool.false_eq_true, if_false, Int.mul_one]
      rw [if_pos (by simp [inI32]; omega)]
      simp [SRes.toSR, shift]
    · simp only [mulSign, if_true]
      rw [if_pos (by simp [inI32]; omega)]
      simp [SRes.toSR, shift]


/-- The coefficient the code computes from the head of a dimension: integer part, fraction. -/
def coeff : Head → Int × Int
  | .const radix ds fr =>
    ((scanConst radix ds).1,
     match fr with
     | some fd => if radix = 10 then scanFraction fd else 0
     | none => 0)
  | .point fr => (0, scanFraction fr)
  | .int i => (satAbs i, 0)
  | .dimen _ => (0, 0)

/-- Inputs the scanner can be given: digits below the radix, 32-bit internal values; the
internal integer `-2^31` (whose negation TeX cannot form) is covered by examples instead. -/
def Head.WF : Head → Prop
  | .const radix ds fr =>
    (radix = 10 ∨ radix = 8 ∨ radix = 16) ∧ (∀ d ∈ ds, (d : Int) < radix) ∧
      (∀ fd, fr = some fd → ∀ d ∈ fd, d < 10)
  | .point fr => ∀ d ∈ fr, d < 10
  | .int i => -2147483647 ≤ i ∧ i ≤ 2147483647
  | .dimen d => -2147483648 ≤ d ∧ d ≤ 2147483647

theorem scanDimen_dimen (neg : Bool) (d : Int) (hd : -2147483648 ≤ d ∧ d ≤ 2147483647) (u : UnitSpec) :
    (scanDimen neg (.dimen d) u).toSR = Spec.scanDimen neg (.dimen d) u := by
  have hM : maxDimen = 1073741823 := rfl
  simp only [scanDimen, Spec.scanDimen]
  by_cases h : d < -maxDimen ∨ d > maxDimen
  · rw [if_pos h, attachSign_err _ _ _ _ _ (Or.inr (by omega))]
    cases neg <;> simp [mulSign, handleOverflow, inI32, hM, SRes.toSR]
  · rw [if_neg h, attachSign_ok _ _ _ _ (by omega)]
    cases neg
    · simp only [mulSign, Bool.false_eq_true, if_false, Int.mul_one]
      rw [if_pos (by simp [inI32]; omega)]; simp [SRes.toSR]
    · simp only [mulSign, if_true]
      rw [if_pos (by simp [inI32]; omega)]; simp [SRes.toSR]


theorem scan_const_range (radix : Int) (hr : radix = 10 ∨ radix = 8 ∨ radix = 16) (ds : List Nat)
    (hd : ∀ d ∈ ds, (d : Int) < radix) :
    0 ≤ (scanConst radix ds).1 ∧ (scanConst radix ds).1 ≤ 2147483647 := by
  unfold scanConst
  cases ds with
  | nil => simp
  | cons d rest =>
    have hd0 : (d : Int) < radix := hd d (by simp)
    simp only []
    split
    · have := constLoop_range radix (by omega) rest d false (by omega) (by omega) (by simp)
      exact ⟨this.1, this.2.1⟩
    · have := constLoop_range radix (by omega) (d :: rest) 0 false (by omega) (by omega) (by simp)
      exact ⟨this.1, this.2.1⟩

theorem shift_shift (neg : Bool) (e : Nat) (r : Spec.SR) : shift false e (shift neg 0 r) = shift neg e r := by
  cases r <;> simp [shift]

/-- Units, then the explicit sign. -/
theorem signed_units (neg : Bool) (ip f : Int) (hip : 0 ≤ ip) (hip2 : ip ≤ 2147483647) (hf0 : 0 ≤ f)
    (hf : f ≤ 65536) (u : UnitSpec) (hex : negUnitOverflow ip f u = false) :
    (mulSign (applyUnits ip f u) (if neg then -1 else 1)).toSR = Spec.units ip f neg 0 u := by
  have h1 := applyUnits_eq ip f hip hip2 hf0 hf u hex
  obtain ⟨v, n, o, h2, h3⟩ := units_bound ip f false 0 u
  rw [h2] at h1
  rw [mulSign_shift _ neg v n o h1 h3, units_shift ip f neg 0 u, h2]

theorem units_zero (u : UnitSpec) : ∃ n o, Spec.units 0 0 false 0 u = .ok 0 n o := by
  cases u with
  | fil ls =>
    simp only [Spec.units, Spec.attachFraction]
    rw [if_neg (by omega), attachSign_ok _ _ _ _ (by simp)]
    refine ⟨0 + (ls - 2), min (1 + ls) 3, ?_⟩; simp
  | bad =>
    simp only [Spec.units, Spec.attachFraction]
    rw [if_neg (by omega), attachSign_ok _ _ _ _ (by simp)]
    refine ⟨0 + 1, 0, ?_⟩; simp
  | phys pu => cases pu <;> exact ⟨0, 0, by decide⟩
  | internal v =>
    have hn : Spec.nxPlusY 0 v 0 = ⟨0, false⟩ := by simp [Spec.nxPlusY, Spec.multAndAdd]
    by_cases hv : 0 ≤ v
    · obtain ⟨g, hg⟩ := specXnOverD_nonneg v 0 65536 hv (by omega) (by omega)
      simp only [Int.mul_zero, Int.zero_ediv, Int.zero_emod] at hg
      rw [if_neg (by decide)] at hg
      simp only [Spec.units, hg, hn, Bool.or_false]
      rw [attachSign_ok _ _ _ _ (by simp)]
      refine ⟨0, 0, ?_⟩; simp
    · obtain ⟨g, hg⟩ := specXnOverD_neg (-v) 0 65536 (by omega) (by omega) (by omega)
      simp only [Int.mul_zero, Int.zero_ediv, Int.zero_emod, Int.neg_neg, Int.neg_zero] at hg
      rw [if_neg (by decide)] at hg
      simp only [Spec.units, hg, hn, Bool.or_false]
      rw [attachSign_ok _ _ _ _ (by simp)]
      refine ⟨0, 0, ?_⟩; simp

/-- `scan_dimen` (M, the code with the fixes) = TeX §448–§460 (S): same value, same number of
errors, same glue order — for every sign string, head and unit. Excluded: the recorded deviation
C06-f (`negUnitOverflow`) and, via `Head.WF`, the internal integer `-2^31`. -/
theorem scanDimen_eq (neg : Bool) (h : Head) (u : UnitSpec) (wf : h.WF)
    (hex : negUnitOverflow (coeff h).1 (coeff h).2 u = false) :
    (scanDimen neg h u).toSR = Spec.scanDimen neg h u := by
  cases h with
  | dimen d => exact scanDimen_dimen neg d wf u
  | point fr =>
    simp only [coeff] at hex
    have hb := scanFraction_bound fr wf
    simp only [scanDimen, Spec.scanDimen, ← scanFraction_eq]
    exact signed_units neg 0 (scanFraction fr) (by omega) (by omega) hb.1 hb.2 u hex
  | int i =>
    simp only [Head.WF] at wf
    simp only [coeff] at hex
    simp only [scanDimen, Spec.scanDimen]
    by_cases hi : i < 0
    · rw [if_pos hi]
      have hs : satAbs i = -i := by unfold satAbs; rw [if_neg (by omega), if_pos hi]
      have hg : sgn i = -1 := by unfold sgn; rw [if_neg (by omega), if_pos hi]
      rw [hs] at hex ⊢
      rw [hg]
      have := signed_units (!neg) (-i) 0 (by omega) (by omega) (by omega) (by omega) u hex
      rw [← this]
      cases neg <;> simp
    · rw [if_neg hi]
      by_cases h0 : i = 0
      · subst h0
        have hs : satAbs 0 = 0 := by decide
        have hg : sgn 0 = 0 := by decide
        rw [hs] at hex ⊢
        rw [hg, Int.mul_zero]
        obtain ⟨n, o, hz⟩ := units_zero u
        have h1 := applyUnits_eq 0 0 (by omega) (by omega) (by omega) (by omega) u hex
        rw [hz] at h1
        rw [units_shift 0 0 neg 0 u, hz]
        cases hr : applyUnits 0 0 u with
        | panic => rw [hr] at h1; simp [SRes.toSR] at h1
        | ok sc =>
          rw [hr] at h1
          simp only [SRes.toSR, Spec.SR.ok.injEq] at h1
          simp only [mulSign, Int.mul_zero]
          rw [if_pos (by decide)]
          cases neg <;> simp [SRes.toSR, shift, h1.2.1, h1.2.2]
      · have hs : satAbs i = i := by unfold satAbs; rw [if_neg (by omega), if_neg hi]
        have hg : sgn i = 1 := by unfold sgn; rw [if_pos (by omega)]
        rw [hs] at hex ⊢
        rw [hg, Int.mul_one]
        exact signed_units neg i 0 (by omega) (by omega) (by omega) (by omega) u hex
  | const radix ds fr =>
    obtain ⟨hr, hd, hfd⟩ := wf
    simp only [coeff] at hex
    have hc := scanConst_eq radix hr ds hd
    have hrange := (scan_const_range radix hr ds hd)
    simp only [scanDimen, Spec.scanDimen, ← hc]
    generalize hcv : scanConst radix ds = c at *
    obtain ⟨ip, e⟩ := c
    simp only [] at hex hrange ⊢
    have key : ∀ f : Int, 0 ≤ f → f ≤ 65536 → negUnitOverflow ip f u = false →
        (match mulSign (applyUnits ip f u) (if neg = true then -1 else 1) with
          | SRes.ok sc => SRes.ok { val := sc.val, nerr := sc.nerr + e, order := sc.order }
          | SRes.panic => SRes.panic).toSR = Spec.units ip f neg e u := by
      intro f hf0 hf hx
      have h1 := signed_units neg ip f hrange.1 hrange.2 hf0 hf u hx
      rw [units_shift ip f neg e u]
      rw [units_shift ip f neg 0 u] at h1
      rw [← shift_shift neg e, ← h1]
      cases mulSign (applyUnits ip f u) (if neg = true then -1 else 1) <;> simp [SRes.toSR, shift]
    cases fr with
    | none => exact key 0 (by omega) (by omega) hex
    | some fd =>
      simp only [] at hex ⊢
      by_cases h10 : radix = 10
      · rw [if_pos h10] at hex ⊢
        rw [if_pos h10, ← scanFraction_eq]
        have hb := scanFraction_bound fd (hfd fd rfl)
        exact key _ hb.1 hb.2 hex
      · rw [if_neg h10] at hex ⊢
        rw [if_neg h10]
        exact key 0 (by omega) (by omega) hex



/-! ## totality -/


/-- `scan_and_apply_units` never panics and what it returns is within `±max_dimen`
(no hypothesis about C06-f here). -/
theorem applyUnits_total (ip f : Int) (hip : 0 ≤ ip) (hip2 : ip ≤ 2147483647) (hf0 : 0 ≤ f) (hf : f ≤ 65536)
    (u : UnitSpec) :
    ∃ sc, applyUnits ip f u = .ok sc ∧ -1073741823 ≤ sc.val ∧ sc.val ≤ 1073741823 := by
  have hM : maxDimen = 1073741823 := rfl
  have viaSpec : ∀ u', (applyUnits ip f u').toSR = Spec.units ip f false 0 u' →
      ∃ sc, applyUnits ip f u' = .ok sc ∧ -1073741823 ≤ sc.val ∧ sc.val ≤ 1073741823 := by
    intro u' h
    obtain ⟨v, n, o, h2, h3⟩ := units_bound ip f false 0 u'
    rw [h2] at h
    cases hr : applyUnits ip f u' with
    | panic => rw [hr] at h; simp [SRes.toSR] at h
    | ok sc =>
      rw [hr] at h
      simp only [SRes.toSR, Spec.SR.ok.injEq] at h
      exact ⟨sc, rfl, by omega, by omega⟩
  cases u with
  | fil ls => exact viaSpec _ (applyUnits_fil ip f hip hf0 hf ls)
  | phys pu => exact viaSpec _ (applyUnits_phys ip f hip hip2 hf0 hf pu)
  | bad => exact viaSpec _ (applyUnits_bad ip f hip hip2 hf0 hf)
  | internal v =>
    simp only [applyUnits]
    have hx : xnOverD v f 65536 ≠ .panic := by
      unfold xnOverD
      rw [if_neg (by omega), if_neg (by omega)]
      simp only []
      split <;> simp
    cases hq : xnOverD v f 65536 with
    | panic => exact absurd hq hx
    | overflow =>
      simp only [handleOverflow]
      exact ⟨_, rfl, by simp only []; split <;> omega, by simp only []; split <;> omega⟩
    | ok qr =>
      obtain ⟨a, r⟩ := qr
      simp only []
      unfold nxPlusY
      by_cases h0 : ip = 0
      · rw [if_pos h0]
        simp only []
        -- a is within ±max_dimen because xnOverD answered ok
        unfold xnOverD at hq
        rw [if_neg (by omega), if_neg (by omega)] at hq
        simp only [] at hq
        split at hq
        · simp at hq
        · rename_i hb
          simp only [Res.ok.injEq, Prod.mk.injEq] at hq
          exact ⟨_, rfl, by simp only []; omega, by simp only []; omega⟩
      · rw [if_neg h0]
        simp only []
        by_cases hc : (-maxDimen ≤ v * ip + a ∧ v * ip + a ≤ maxDimen)
        · rw [if_pos hc]; exact ⟨_, rfl, by simp only []; omega, by simp only []; omega⟩
        · rw [if_neg hc]
          simp only [handleOverflow]
          exact ⟨_, rfl, by simp only []; split <;> omega, by simp only []; split <;> omega⟩

theorem mulSign_total (r : SRes) (sign : Int) (hs : sign = 1 ∨ sign = -1 ∨ sign = 0)
    (hr : ∃ sc, r = .ok sc ∧ -1073741823 ≤ sc.val ∧ sc.val ≤ 1073741823) :
    ∃ sc, mulSign r sign = .ok sc ∧ -1073741823 ≤ sc.val ∧ sc.val ≤ 1073741823 := by
  obtain ⟨sc, rfl, h1, h2⟩ := hr
  simp only [mulSign]
  rcases hs with rfl | rfl | rfl
  · rw [if_pos (by simp [inI32]; omega)]; exact ⟨_, rfl, by simp only []; omega, by simp only []; omega⟩
  · rw [if_pos (by simp [inI32]; omega)]; exact ⟨_, rfl, by simp only []; omega, by simp only []; omega⟩
  · rw [if_pos (by simp [inI32])]; exact ⟨_, rfl, by simp only []; omega, by simp only []; omega⟩

/-- Heads the scanner can be given, *including* the internal integer `-2^31`. -/
def Head.WF32 : Head → Prop
  | .const radix ds fr =>
    (radix = 10 ∨ radix = 8 ∨ radix = 16) ∧ (∀ d ∈ ds, (d : Int) < radix) ∧
      (∀ fd, fr = some fd → ∀ d ∈ fd, d < 10)
  | .point fr => ∀ d ∈ fr, d < 10
  | .int i => -2147483648 ≤ i ∧ i ≤ 2147483647
  | .dimen d => -2147483648 ≤ d ∧ d ≤ 2147483647

/-- Totality of `scan_dimen` (for C09): on every 32-bit input the model answers a value
within `±max_dimen` and an error count — never `panic`. -/
theorem scanDimen_total (neg : Bool) (h : Head) (u : UnitSpec) (wf : h.WF32) :
    ∃ sc, scanDimen neg h u = .ok sc ∧ -1073741823 ≤ sc.val ∧ sc.val ≤ 1073741823 := by
  have hM : maxDimen = 1073741823 := rfl
  have hneg : ((if neg then (-1 : Int) else 1) = 1 ∨ (if neg then (-1 : Int) else 1) = -1 ∨
      (if neg then (-1 : Int) else 1) = 0) := by cases neg <;> simp
  cases h with
  | dimen d =>
    simp only [scanDimen]
    split
    · exact mulSign_total _ _ hneg ⟨_, rfl, by simp [hM], by simp [hM]⟩
    · rename_i hc
      exact mulSign_total _ _ hneg ⟨_, rfl, by simp only []; omega, by simp only []; omega⟩
  | point fr =>
    have hb := scanFraction_bound fr wf
    simp only [scanDimen]
    exact mulSign_total _ _ hneg (applyUnits_total 0 _ (by omega) (by omega) hb.1 hb.2 u)
  | int i =>
    simp only [Head.WF32] at wf
    simp only [scanDimen]
    have hs : 0 ≤ satAbs i ∧ satAbs i ≤ 2147483647 := by unfold satAbs; split <;> (try split) <;> omega
    have hsg : ((if neg then (-1 : Int) else 1) * sgn i = 1 ∨ (if neg then (-1 : Int) else 1) * sgn i = -1 ∨
        (if neg then (-1 : Int) else 1) * sgn i = 0) := by
      have h3 : sgn i = 1 ∨ sgn i = -1 ∨ sgn i = 0 := by
        unfold sgn; split
        · exact Or.inl rfl
        · split
          · exact Or.inr (Or.inl rfl)
          · exact Or.inr (Or.inr rfl)
      cases neg <;> rcases h3 with h | h | h <;> rw [h] <;> simp
    exact mulSign_total _ _ hsg (applyUnits_total _ 0 hs.1 hs.2 (by omega) (by omega) u)
  | const radix ds fr =>
    obtain ⟨hr, hd, hfd⟩ := wf
    have hrange := scan_const_range radix hr ds hd
    simp only [scanDimen]
    generalize scanConst radix ds = c at *
    obtain ⟨ip, e⟩ := c
    simp only [] at hrange ⊢
    have key : ∀ f : Int, 0 ≤ f → f ≤ 65536 →
        ∃ sc, (match mulSign (applyUnits ip f u) (if neg = true then -1 else 1) with
          | SRes.ok sc => SRes.ok { val := sc.val, nerr := sc.nerr + e, order := sc.order }
          | SRes.panic => SRes.panic) = .ok sc ∧ -1073741823 ≤ sc.val ∧ sc.val ≤ 1073741823 := by
      intro f hf0 hf
      obtain ⟨sc, h1, h2, h3⟩ := mulSign_total _ _ hneg (applyUnits_total ip f hrange.1 hrange.2 hf0 hf u)
      rw [h1]
      exact ⟨_, rfl, h2, h3⟩
    cases fr with
    | none => exact key 0 (by omega) (by omega)
    | some fd =>
      simp only []
      by_cases h10 : radix = 10
      · rw [if_pos h10]
        have hb := scanFraction_bound fd (hfd fd rfl)
        exact key _ hb.1 hb.2
      · rw [if_neg h10]
        exact key 0 (by omega) (by omega)


end C06
