import TexcraftModel.Lemmas.C06Units
/-!
C06 — `scan_and_apply_units` / `scan_dimen` (M) against TeX §448–§460 (S).
-/
namespace C06

/-- The model's outcome read as a specification outcome (`panic` has no counterpart). -/
def SRes.toSR : SRes → Spec.SR
  | .ok s => .ok s.val s.nerr s.order
  | .panic => .undef

/-- Recorded deviation C06-f: a *negative* internal unit whose multiple overflows (the code
clamps to `-max_dimen`, TeX to `+max_dimen`, before the explicit signs). -/
def negUnitOverflow (ip f : Int) : UnitSpec → Bool
  | .internal v => decide (v < 0) &&
      (match xnOverD v f 65536 with
       | .ok (a, _) => (match nxPlusY v ip a with | .ok _ => false | _ => true)
       | _ => true)
  | _ => false

/-! ## shifting sign and error count through `attach_sign` -/

def shift (neg : Bool) (e : Nat) : Spec.SR → Spec.SR
  | .ok v n o => .ok (if neg then -v else v) (n + e) o
  | .undef => .undef

theorem attachSign_shift (cv : Int) (ae neg : Bool) (e o : Nat) :
    Spec.attachSign cv ae neg e o = shift neg e (Spec.attachSign cv ae false 0 o) := by
  unfold Spec.attachSign
  by_cases h : (ae = true ∨ cv.natAbs ≥ 1073741824)
  · simp only [if_pos h, shift]; simp [Nat.add_comm]
  · simp only [if_neg h, shift]; simp

theorem attachFraction_shift (cv f : Int) (ae neg : Bool) (e o : Nat) :
    Spec.attachFraction cv f ae neg e o = shift neg e (Spec.attachFraction cv f ae false 0 o) := by
  unfold Spec.attachFraction
  split <;> exact attachSign_shift _ _ _ _ _

theorem units_shift (cv f : Int) (neg : Bool) (e : Nat) (u : UnitSpec) :
    Spec.units cv f neg e u = shift neg e (Spec.units cv f false 0 u) := by
  cases u with
  | fil ls =>
    simp only [Spec.units]
    rw [attachFraction_shift cv f false neg (e + (ls - 2)), attachFraction_shift cv f false false (0 + (ls - 2))]
    generalize Spec.attachFraction cv f false false 0 (min (1 + ls) 3) = r
    cases r <;> simp [shift]; omega
  | internal v => simp only [Spec.units]; exact attachSign_shift _ _ _ _ _
  | bad =>
    simp only [Spec.units]
    rw [attachFraction_shift cv f false neg (e + 1), attachFraction_shift cv f false false (0 + 1)]
    generalize Spec.attachFraction cv f false false 0 0 = r
    cases r <;> simp [shift]; omega
  | phys pu =>
    cases pu <;> simp only [Spec.units] <;>
      first | exact attachFraction_shift _ _ _ _ _ _ | exact attachSign_shift _ _ _ _ _

/-! ## `nx_plus_y` stays in range -/

theorem specNxPlusY_range (n x y : Int) (hy : -1073741823 ≤ y ∧ y ≤ 1073741823)
    (he : (Spec.nxPlusY n x y).err = false) :
    -1073741823 ≤ (Spec.nxPlusY n x y).val ∧ (Spec.nxPlusY n x y).val ≤ 1073741823 := by
  rw [Spec.nxPlusY, multAndAdd_exact n x y 1073741823 (by omega) hy] at he ⊢
  by_cases h0 : n = 0
  · rw [if_pos h0]; exact hy
  · rw [if_neg h0] at he ⊢
    by_cases hc : (-1073741823 ≤ n * x + y ∧ n * x + y ≤ 1073741823)
    · rw [if_pos hc]; exact hc
    · rw [if_neg hc] at he; simp at he

/-! ## the units -/

theorem applyUnits_fil (ip f : Int) (hip : 0 ≤ ip) (hf0 : 0 ≤ f) (hf : f ≤ 65536) (ls : Nat) :
    (applyUnits ip f (.fil ls)).toSR = Spec.units ip f false 0 (.fil ls) := by
  have hM : maxDimen = 1073741823 := rfl
  simp only [applyUnits, Spec.units, Spec.attachFraction, Nat.zero_add]
  by_cases h1 : ip ≥ 16384
  · have : fromInteger ip = none := by unfold fromInteger; rw [if_pos (Or.inl h1)]
    simp only [this]
    rw [if_pos h1, attachSign_err _ _ _ _ _ (Or.inl rfl)]
    simp [handleOverflow, SRes.toSR, hM]
  · have : fromInteger ip = some (65536 * ip) := by unfold fromInteger; rw [if_neg (by omega)]
    simp only [this]
    rw [if_neg h1]
    have hc : chk32 (65536 * ip + f) = .ok (65536 * ip + f) := by
      unfold chk32; rw [if_pos (by simp [inI32]; omega)]
    simp only [hc]
    by_cases h2 : 65536 * ip + f ≤ maxDimen
    · rw [if_pos h2, attachSign_ok _ _ _ _ (by omega)]
      simp [SRes.toSR]; omega
    · rw [if_neg h2, attachSign_err _ _ _ _ _ (Or.inr (by omega))]
      simp [handleOverflow, SRes.toSR, hM]

theorem applyUnits_phys (ip f : Int) (hip : 0 ≤ ip) (hip2 : ip ≤ 2147483647) (hf0 : 0 ≤ f) (hf : f ≤ 65536)
    (pu : TUnit) : (applyUnits ip f (.phys pu)).toSR = Spec.units ip f false 0 (.phys pu) := by
  rw [← scaledNew_eq pu ip f hip hip2 hf0 hf]
  simp only [applyUnits]
  cases scaledNew ip f pu <;> simp [SRes.toSR, handleOverflow]

theorem applyUnits_bad (ip f : Int) (hip : 0 ≤ ip) (hip2 : ip ≤ 2147483647) (hf0 : 0 ≤ f) (hf : f ≤ 65536) :
    (applyUnits ip f .bad).toSR = Spec.units ip f false 0 .bad := by
  have h := scaledNew_eq .pt ip f hip hip2 hf0 hf
  have e : Spec.units ip f false 0 .bad = shift false 1 (Spec.units ip f false 0 (.phys .pt)) := by
    simp only [Spec.units]
    rw [attachFraction_shift ip f false false (0 + 1)]
  rw [e, ← h]
  simp only [applyUnits]
  cases scaledNew ip f .pt <;> simp [SRes.toSR, handleOverflow, shift]

theorem applyUnits_internal (ip f v : Int) (_hip : 0 ≤ ip) (hf0 : 0 ≤ f) (hf : f ≤ 65536)
    (hex : negUnitOverflow ip f (.internal v) = false) :
    (applyUnits ip f (.internal v)).toSR = Spec.units ip f false 0 (.internal v) := by
  have hM : maxDimen = 1073741823 := rfl
  by_cases hv : 0 ≤ v
  · obtain ⟨g, hg⟩ := specXnOverD_nonneg v f 65536 hv hf0 (by omega)
    have hx := xnOverD_nonneg v f 65536 hv hf0 hf (by omega) (by omega)
    have hq0 : 0 ≤ v * f / 65536 := Int.ediv_nonneg (Int.mul_nonneg hv hf0) (by omega)
    simp only [applyUnits, Spec.units, hx, hg]
    by_cases hbig : v * f / 65536 > maxDimen
    · rw [if_pos hbig, if_pos hbig]
      simp only []
      rw [attachSign_err _ _ _ _ _ (Or.inl (by simp))]
      have : decide (v < 0) = false := by simp; omega
      simp [handleOverflow, SRes.toSR, hM, this]
    · rw [if_neg hbig, if_neg hbig]
      simp only []
      rw [nxPlusY_eq v ip (v * f / 65536) (by omega)]
      by_cases he : (Spec.nxPlusY ip v (v * f / 65536)).err = true
      · rw [if_pos he, attachSign_err _ _ _ _ _ (Or.inl (by simp [he]))]
        have : decide (v < 0) = false := by simp; omega
        simp [handleOverflow, SRes.toSR, hM, this]
      · have he' : (Spec.nxPlusY ip v (v * f / 65536)).err = false := by simpa using he
        have hr := specNxPlusY_range ip v (v * f / 65536) (by omega) he'
        rw [if_neg he, he']
        simp only [Bool.or_false]
        rw [attachSign_ok _ _ _ _ (by omega)]
        simp [SRes.toSR]
  · have hX : 0 < -v := by omega
    obtain ⟨g, hg⟩ := specXnOverD_neg (-v) f 65536 hX hf0 (by omega)
    have hx := xnOverD_neg (-v) f 65536 hX hf0 hf (by omega) (by omega)
    rw [Int.neg_neg] at hg hx
    have hq0 : 0 ≤ -v * f / 65536 := Int.ediv_nonneg (Int.mul_nonneg (by omega) hf0) (by omega)
    have hdv : decide (v < 0) = true := by simp; omega
    simp only [negUnitOverflow, hx, hdv, Bool.true_and] at hex
    simp only [applyUnits, Spec.units, hx, hg]
    by_cases hbig : -v * f / 65536 > maxDimen
    · rw [if_pos hbig] at hex; simp at hex
    · rw [if_neg hbig] at hex
      rw [if_neg hbig, if_neg hbig]
      simp only [] at hex ⊢
      rw [nxPlusY_eq v ip (-(-v * f / 65536)) (by omega)] at hex ⊢
      by_cases he : (Spec.nxPlusY ip v (-(-v * f / 65536))).err = true
      · rw [if_pos he] at hex; simp at hex
      · have he' : (Spec.nxPlusY ip v (-(-v * f / 65536))).err = false := by simpa using he
        have hr := specNxPlusY_range ip v (-(-v * f / 65536)) (by omega) he'
        rw [if_neg he, he']
        simp only [Bool.or_false]
        rw [attachSign_ok _ _ _ _ (by omega)]
        simp [SRes.toSR]

/-- `scan_and_apply_units` = §453–§459 followed by `attach_fraction`/`attach_sign`, for every
kind of unit; the only excluded inputs are those of the recorded deviation C06-f. -/
theorem applyUnits_eq (ip f : Int) (hip : 0 ≤ ip) (hip2 : ip ≤ 2147483647) (hf0 : 0 ≤ f) (hf : f ≤ 65536)
    (u : UnitSpec) (hex : negUnitOverflow ip f u = false) :
    (applyUnits ip f u).toSR = Spec.units ip f false 0 u := by
  cases u with
  | fil ls => exact applyUnits_fil ip f hip hf0 hf ls
  | internal v => exact applyUnits_internal ip f v hip hf0 hf hex
  | phys pu => exact applyUnits_phys ip f hip hip2 hf0 hf pu
  | bad => exact applyUnits_bad ip f hip hip2 hf0 hf

end C06
