import TexcraftModel.Model.C04Algo
import TexcraftModel.Lemmas.C04

/-!
Definitions used by the proofs about `C04.algo` (no theorems here): the quantities of one
`try_break` round seen from one active node, the pure ("scan") form of the loops on the
deque, and the invariants. Core Lean only.
-/
namespace C04

/-- Position of a node: its most recent break (`none` = start of the paragraph). -/
def ANode.pos (ν : ANode) : Option Nat := ν.path.head?

/-- `auto_breaking` at the start of iteration `i`. `autoAt items b = autoBefore items (b+1)`. -/
def autoBefore (items : List Item) (i : Nat) : Bool :=
  (items.take i).foldl (fun a it => match it with | .math after => after | _ => a) true

/-- `end_of_replaced_nodes` at the start of iteration `i`. -/
def eorAt (items : List Item) (i : Nat) : Nat :=
  (List.range i).foldl
    (fun (e a : Nat) => match items[a]? with | some (Item.disc _ _ r) => a + 1 + r | _ => e) 0

/-- The scalar loop variables agree with the specification's prefix functions. -/
structure LBasic (x : Inst) (i : Nat) (st : LState) : Prop where
  diffs : st.diffs = cum x.items i
  auto : st.auto = autoBefore x.items i
  eor : st.eor = eorAt x.items i

/-! ### One round of `try_break` seen from one node (`force_solution = false`) -/

/-- Badness and fitness class of the line from node `ν` to the break of `c`. -/
def nodeRate (x : Inst) (c : BCtx) (ν : ANode) : Int × Fit :=
  rateFn ((c.diffs.sub ν.ref).add (background x.p)) (lineWidth x.p.widths ν.line) c.discWidth

def deactOf (x : Inst) (c : BCtx) (ν : ANode) : Bool :=
  decide (10000 < (nodeRate x c ν).1 ∨ c.penalty = -10000)

def allowOf (x : Inst) (c : BCtx) (ν : ANode) : Bool :=
  decide ((nodeRate x c ν).1 ≤ threshold x.p)

/-- Total demerits of the candidate through `ν`. -/
def totOf (x : Inst) (c : BCtx) (ν : ANode) : Int :=
  demeritsFn x.p (nodeRate x c ν).1 c.penalty ν.fit (nodeRate x c ν).2
    (ν.hyph && c.hyph) (ν.hyph && c.isEnd) + ν.total

/-- The two `<=` updates (lib.rs:771-782). -/
def offer (s : Cands × Int) (f : Fit) (tot : Int) (line : Nat) (path : List Nat) : Cands × Int :=
  (if tot ≤ (s.1 f).total then s.1.set f ⟨tot, line, path⟩ else s.1, if tot ≤ s.2 then tot else s.2)

def scanStep (x : Inst) (c : BCtx) (ν : ANode) (s : Cands × Int) : Cands × Int :=
  if allowOf x c ν then offer s (nodeRate x c ν).2 (totOf x c ν) (ν.line + 1) ν.path else s

/-- Candidates and minimum after the nodes of `G` have been looked at. -/
def scanC (x : Inst) (c : BCtx) (G : List ANode) (s : Cands × Int) : Cands × Int :=
  G.foldl (fun s ν => scanStep x c ν s) s

def survivors (x : Inst) (c : BCtx) (G : List ANode) : List ANode :=
  G.filter fun ν => !deactOf x c ν

/-- What one round of the `while n > 0` loop appends to the deque for the group `G`. -/
def groupOut (x : Inst) (c : BCtx) (G : List ANode) : List ANode :=
  let s := scanC x c G (Cands.init, awfulBad)
  survivors x c G ++
    (if s.2 < awfulBad then
      newNodes c (breakWidth x c.i c.diffs) s.1 (pruneThreshold x.p.adjDemerits s.2)
     else [])

/-- The whole `while n > 0` loop as a function of the nodes still to be looked at. -/
def groupsRun (x : Inst) (q : Int) (c : BCtx) : Nat → List ANode → List ANode
  | 0, _ => []
  | fuel + 1, todo =>
    if todo = [] then []
    else
      let m := numNext x q todo todo.length
      groupOut x c (todo.take m) ++ groupsRun x q c fuel (todo.drop m)

/-- The candidates record a true minimum. -/
def MinOK (s : Cands × Int) : Prop :=
  (∀ g, s.2 ≤ (s.1 g).total) ∧ (∃ g, s.2 = (s.1 g).total)

/-- Candidate `cd` of class `f` was offered by a node of `G`. -/
def CandFrom (x : Inst) (c : BCtx) (G : List ANode) (f : Fit) (cd : Cand) : Prop :=
  ∃ μ, μ ∈ G ∧ allowOf x c μ = true ∧ (nodeRate x c μ).2 = f ∧
    cd = ⟨totOf x c μ, μ.line + 1, μ.path⟩

/-- Line class: all line numbers from `widths.length - 1` on use the last width. -/
def lkey (x : Inst) (L : Nat) : Nat := min L (x.p.widths.length - 1)

def SortedK (x : Inst) (l : List ANode) : Prop :=
  l.Pairwise fun a b => lkey x a.line ≤ lkey x b.line

/-- The nodes looked at in one round either all have the same line number or all produce
nodes of the last line class. -/
def GroupShape (x : Inst) (G : List ANode) : Prop :=
  (∀ μ ∈ G, ∀ μ' ∈ G, μ.line = μ'.line) ∨ (∀ μ ∈ G, x.p.widths.length ≤ μ.line + 2)

/-! ### Invariants of the main loop -/

/-- Node `ν` records a feasible sequence of breaks with its totals (plan: `NodeOK`). -/
structure NodeOK (x : Inst) (ν : ANode) : Prop where
  run : run x {} ν.path.reverse = some (ν.total, ⟨ν.pos, ν.line, ν.fit⟩)
  ref : ν.ref = afterRef x ν.pos
  hyph : ν.hyph = hyphAt x ν.pos

/-- `NodeOK` at the start of iteration `i`: the node lies before `i` and no forced break
has been passed since. -/
structure NodeInv (x : Inst) (i : Nat) (ν : ANode) : Prop where
  ok : NodeOK x ν
  lt : lt? ν.pos i = true
  nf : forcedBetween x ν.pos i = false

/-- Every feasible sequence of lines from the start has total demerits below `AWFUL_BAD`. -/
def PrefixBounded (x : Inst) : Prop :=
  ∀ s c st, run x {} s = some (c, st) → c < awfulBad

end C04
