import TexcraftModel.Model.C17
/-! Totality and range of the PL decimal reader `parseFix` on arbitrary text (C17): every
accumulator stays far inside `i32` (which is why the model has no panic outcome for the
`checked_*().unwrap()` of the Rust code) and the result is an `i32` in `(−2^31, 2^31)` or one
of the documented replacements. -/
namespace C17

theorem digVal_range (c : Char) (h : isDig c = true) : 0 ≤ digVal c ∧ digVal c ≤ 9 := by
  simp only [isDig, Bool.and_eq_true, decide_eq_true_eq] at h
  have h0 : '0'.toNat = 48 := rfl
  have h9 : '9'.toNat = 57 := rfl
  simp only [digVal]
  omega

/-- PLtoTF §64: the accumulator of the integer part stays in `[0, 2048]`; the value before the
saturation is at most `20489`. -/
theorem readInt_range : ∀ (s : List Char) (acc : Int), 0 ≤ acc → acc ≤ 2048 →
    0 ≤ (readInt s acc).1 ∧ (readInt s acc).1 ≤ 2048 := by
  intro s
  induction s with
  | nil => intro acc h0 h1; exact ⟨h0, h1⟩
  | cons c t ih =>
    intro acc h0 h1
    simp only [readInt]
    split
    · rename_i hd
      obtain ⟨d0, d9⟩ := digVal_range c hd
      apply ih
      · split <;> omega
      · split <;> omega
    · exact ⟨h0, h1⟩

theorem readFracDigits_range : ∀ (n : Nat) (s : List Char),
    (∀ d ∈ (readFracDigits n s).1, 0 ≤ d ∧ d ≤ 9) ∧ (readFracDigits n s).1.length ≤ n := by
  intro n
  induction n with
  | zero => intro s; simp [readFracDigits]
  | succ n ih =>
    intro s
    cases s with
    | nil => simp [readFracDigits]
    | cons c t =>
      simp only [readFracDigits]
      split
      · rename_i hd
        obtain ⟨h1, h2⟩ := ih t
        refine ⟨?_, by simp only [List.length_cons]; omega⟩
        intro d hm
        rcases List.mem_cons.1 hm with rfl | hm
        · exact digVal_range c hd
        · exact h1 d hm
      · simp

/-- PLtoTF §66: the fraction accumulator is at most `10·2^21` (no `i32` overflow). -/
theorem fracAcc_bound : ∀ (ds : List Int), (∀ d ∈ ds, 0 ≤ d ∧ d ≤ 9) →
    0 ≤ fracAcc ds ∧ fracAcc ds ≤ 20971519 := by
  intro ds
  induction ds with
  | nil => intro _; simp [fracAcc]
  | cons d t ih =>
    intro h
    obtain ⟨h0, h1⟩ := ih (fun x hx => h x (List.mem_cons_of_mem _ hx))
    obtain ⟨d0, d9⟩ := h d (by simp)
    simp only [fracAcc, Int.tdiv_eq_ediv_of_nonneg h0]
    omega

theorem fracValue_range (ds : List Int) (h : ∀ d ∈ ds, 0 ≤ d ∧ d ≤ 9) :
    0 ≤ fracValue ds ∧ fracValue ds ≤ 1048576 := by
  have hp : ∀ d ∈ ds ++ List.replicate (7 - ds.length) 0, 0 ≤ d ∧ d ≤ 9 := by
    intro d hd
    rcases List.mem_append.1 hd with h' | h'
    · exact h d h'
    · have := (List.mem_replicate.1 h').2
      subst this; omega
  obtain ⟨h0, h1⟩ := fracAcc_bound _ hp
  simp only [fracValue]
  rw [Int.tdiv_eq_ediv_of_nonneg (by omega)]
  omega

/-- **Totality and range of the reader** on arbitrary text. -/
theorem parseFix_range (s : List Char) :
    ((parseFix s).warn = .none → -2147483648 < (parseFix s).value ∧ (parseFix s).value < 2147483648) ∧
    ((parseFix s).warn = .tooBig → (parseFix s).value = 0 ∨ (parseFix s).value = 1048576) ∧
    ((parseFix s).warn = .invalidPrefix → (parseFix s).value = 0) := by
  simp only [parseFix]
  split
  · simp
  · rename_i c t _
    split
    · -- a number follows the prefix
      generalize hs2 : readSigns (skipSpaces t) false = rs
      obtain ⟨neg, s2⟩ := rs
      simp only
      have hi := readInt_range s2 0 (Int.le_refl 0) (by omega)
      generalize hri : readInt s2 0 = ri at hi
      obtain ⟨ip, s3⟩ := ri
      simp only at hi ⊢
      have hf : ∀ s4, 0 ≤ fracValue (readFracDigits 7 s4).1 ∧ fracValue (readFracDigits 7 s4).1 ≤ 1048576 :=
        fun s4 => fracValue_range _ (readFracDigits_range 7 s4).1
      have hfp : ∀ fp : Int, 0 ≤ fp → fp ≤ 1048576 →
          (((if ip ≥ 2048 ∨ (fp ≥ 1048576 ∧ ip = 2047) then
              (⟨if ip = 2047 then 1048576 else 0, .tooBig⟩ : Parsed)
            else ⟨if neg then -(ip * 1048576 + fp) else ip * 1048576 + fp, .none⟩).warn = .none →
            -2147483648 < (if ip ≥ 2048 ∨ (fp ≥ 1048576 ∧ ip = 2047) then
              (⟨if ip = 2047 then 1048576 else 0, .tooBig⟩ : Parsed)
            else ⟨if neg then -(ip * 1048576 + fp) else ip * 1048576 + fp, .none⟩).value ∧
            (if ip ≥ 2048 ∨ (fp ≥ 1048576 ∧ ip = 2047) then
              (⟨if ip = 2047 then 1048576 else 0, .tooBig⟩ : Parsed)
            else ⟨if neg then -(ip * 1048576 + fp) else ip * 1048576 + fp, .none⟩).value < 2147483648) ∧
          ((if ip ≥ 2048 ∨ (fp ≥ 1048576 ∧ ip = 2047) then
              (⟨if ip = 2047 then 1048576 else 0, .tooBig⟩ : Parsed)
            else ⟨if neg then -(ip * 1048576 + fp) else ip * 1048576 + fp, .none⟩).warn = .tooBig →
            (if ip ≥ 2048 ∨ (fp ≥ 1048576 ∧ ip = 2047) then
              (⟨if ip = 2047 then 1048576 else 0, .tooBig⟩ : Parsed)
            else ⟨if neg then -(ip * 1048576 + fp) else ip * 1048576 + fp, .none⟩).value = 0 ∨
            (if ip ≥ 2048 ∨ (fp ≥ 1048576 ∧ ip = 2047) then
              (⟨if ip = 2047 then 1048576 else 0, .tooBig⟩ : Parsed)
            else ⟨if neg then -(ip * 1048576 + fp) else ip * 1048576 + fp, .none⟩).value = 1048576) ∧
          ((if ip ≥ 2048 ∨ (fp ≥ 1048576 ∧ ip = 2047) then
              (⟨if ip = 2047 then 1048576 else 0, .tooBig⟩ : Parsed)
            else ⟨if neg then -(ip * 1048576 + fp) else ip * 1048576 + fp, .none⟩).warn = .invalidPrefix →
            (if ip ≥ 2048 ∨ (fp ≥ 1048576 ∧ ip = 2047) then
              (⟨if ip = 2047 then 1048576 else 0, .tooBig⟩ : Parsed)
            else ⟨if neg then -(ip * 1048576 + fp) else ip * 1048576 + fp, .none⟩).value = 0)) := by
        intro fp f0 f1
        split
        · refine ⟨by simp, ?_, by simp⟩
          intro _
          simp only
          split <;> simp
        · rename_i hno
          refine ⟨?_, by simp, by simp⟩
          intro _
          simp only
          cases neg <;> simp only [Bool.false_eq_true, if_false, if_true] <;> omega
      split
      · exact hfp _ (hf _).1 (hf _).2
      · exact hfp 0 (Int.le_refl 0) (by omega)
    · simp

end C17
