import TexcraftModel.Lemmas.C18Lex

/-! C18: the lexer inverts the printer's concrete text: `lex (renderCalls raw d cs) =
printCalls cs` for every CST whose names are words and whose numbers the language can
express — whatever the indentation depth, the layout (one line / one argument per line) and
the characters left unescaped. -/
namespace C18

def Res.prepend {α} (l : List α) : Res (List α) → Res (List α)
  | .ok t => .ok (l ++ t)
  | .err e => .err e
  | .unsupported => .unsupported

theorem Res.prepend_nil {α} (r : Res (List α)) : r.prepend [] = r := by
  cases r <;> rfl

theorem Res.cons_eq_prepend {α} (a : α) (r : Res (List α)) : r.cons a = r.prepend [a] := by
  cases r <;> rfl

theorem Res.prepend_prepend {α} (a b : List α) (r : Res (List α)) :
    (r.prepend b).prepend a = r.prepend (a ++ b) := by
  cases r <;> simp [Res.prepend]

theorem Res.cons_prepend {α} (a : α) (l : List α) (r : Res (List α)) :
    (r.prepend l).cons a = r.prepend (a :: l) := by
  cases r <;> rfl

mutual
/-- The leaves of a CST are values the text level can carry. -/
def valOk : Val → Bool
  | .int n => intOk n
  | .dim s => dimOk s
  | .inf s _ => intOk s
  | .str _ => true
  | .list cs => callsOk cs
def argOk : Arg → Bool
  | .mk none v => valOk v
  | .mk (some k) v => isWord k && valOk v
def argsOk : List Arg → Bool
  | [] => true
  | a :: r => argOk a && argsOk r
def callOk : Call → Bool
  | .mk name args => isWord name && argsOk args
def callsOk : List Call → Bool
  | [] => true
  | c :: r => callOk c && callsOk r
end

/-- What follows a value in the printed text: `,` or `)`. -/
def AfterVal (rest : List Char) : Prop := Terminated rest ∧ WordEnd rest

theorem afterVal_comma (r : List Char) : AfterVal (',' :: r) :=
  ⟨⟨by decide, by decide, by decide⟩, ⟨by decide, by decide⟩⟩
theorem afterVal_rparen (r : List Char) : AfterVal (')' :: r) :=
  ⟨⟨by decide, by decide, by decide⟩, ⟨by decide, by decide⟩⟩

theorem wordEnd_lparen (r : List Char) : WordEnd ('(' :: r) := ⟨by decide, by decide⟩
theorem wordEnd_eq (r : List Char) : WordEnd ('=' :: r) := ⟨by decide, by decide⟩

theorem intOk_range {n : Int} (h : intOk n = true) : -2147483647 ≤ n ∧ n ≤ 2147483647 := by
  unfold intOk at h; exact of_decide_eq_true h
theorem dimOk_range {s : Int} (h : dimOk s = true) : -1073741823 ≤ s ∧ s ≤ 1073741823 := by
  unfold dimOk maxDimen at h; exact of_decide_eq_true h

mutual
theorem lex_renderVal (H : ScaledRoundTrip) (raw : Char → Bool) : ∀ (v : Val) (d : Nat) (rest : List Char),
    valOk v = true → AfterVal rest →
    lex (renderVal raw d v ++ rest) = (lex rest).prepend (printVal v)
  | .int n, d, rest, hv, hr => by
    simp only [valOk] at hv
    simp only [renderVal, printVal]
    rw [lex_int n rest (intOk_range hv) hr.1, Res.cons_eq_prepend]
  | .dim s, d, rest, hv, hr => by
    simp only [valOk] at hv
    simp only [renderVal, printVal]
    rw [lex_dim H s rest (dimOk_range hv) hr.2, Res.cons_eq_prepend]
  | .inf s o, d, rest, hv, hr => by
    simp only [valOk] at hv
    simp only [renderVal, printVal, List.append_assoc]
    rw [lex_inf H s o rest (intOk_range hv) hr.2, Res.cons_eq_prepend]
  | .str s, d, rest, hv, hr => by
    simp only [renderVal, printVal]
    rw [lex_str, Res.cons_eq_prepend]
  | .list cs, d, rest, hv, hr => by
    have ih := lex_renderCalls H raw cs
    simp only [valOk] at hv
    simp only [renderVal, printVal, List.cons_append, List.append_assoc]
    rw [lex_lbrack]
    cases cs with
    | nil =>
      simp only [List.nil_append, printCalls]
      rw [lex_rbrack]
      generalize lex rest = x; cases x <;> simp [Res.cons, Res.prepend]
    | cons c cs' =>
      simp only [List.cons_append, List.append_assoc]
      rw [lex_newline, ih (d + 4) _ hv]
      simp only [indent]
      rw [lex_indent]
      simp only [List.cons_append, List.nil_append]
      rw [lex_rbrack]
      generalize lex rest = x; cases x <;> simp [Res.cons, Res.prepend]

theorem lex_renderArg (H : ScaledRoundTrip) (raw : Char → Bool) : ∀ (a : Arg) (d : Nat) (rest : List Char),
    argOk a = true → AfterVal rest →
    lex (renderArg raw d a ++ rest) = (lex rest).prepend (printArg a)
  | .mk none v, d, rest, ha, hr => by
    have ih := lex_renderVal H raw v
    simp only [argOk] at ha
    simp only [renderArg, printArg]
    exact ih d rest ha hr
  | .mk (some k) v, d, rest, ha, hr => by
    have ih := lex_renderVal H raw v
    simp only [argOk, Bool.and_eq_true] at ha
    simp only [renderArg, printArg, List.append_assoc, List.cons_append]
    rw [lex_kw k _ ha.1 (wordEnd_eq _), lex_eq, ih d rest ha.2 hr]
    generalize lex rest = x; cases x <;> simp [Res.cons, Res.prepend]

theorem lex_renderArgsMulti (H : ScaledRoundTrip) (raw : Char → Bool) : ∀ (as : List Arg) (d : Nat) (rest : List Char),
    argsOk as = true →
    lex (renderArgsMulti raw d as ++ rest) = (lex rest).prepend (printArgsMulti as)
  | [], d, rest, ha => by
    simp [renderArgsMulti, printArgsMulti, Res.prepend_nil]
  | a :: r, d, rest, ha => by
    have ih1 := lex_renderArg H raw a
    have ih2 := lex_renderArgsMulti H raw r
    simp only [argsOk, Bool.and_eq_true] at ha
    simp only [renderArgsMulti, printArgsMulti, List.cons_append, List.append_assoc, indent]
    rw [lex_newline, lex_indent, lex_space, lex_space, ih1 d _ ha.1 (afterVal_comma _), lex_comma,
      ih2 d rest ha.2]
    generalize lex rest = x; cases x <;> simp [Res.cons, Res.prepend]

theorem lex_renderArgsSingle (H : ScaledRoundTrip) (raw : Char → Bool) : ∀ (as : List Arg) (d : Nat) (rest : List Char),
    argsOk as = true → AfterVal rest →
    lex (renderArgsSingle raw d as ++ rest) = (lex rest).prepend (printArgsSingle as)
  | [], d, rest, ha, hr => by
    simp [renderArgsSingle, printArgsSingle, Res.prepend_nil]
  | a :: r, d, rest, ha, hr => by
    have ih1 := lex_renderArg H raw a
    have ih2 := lex_renderArgsSingle H raw r
    simp only [argsOk, Bool.and_eq_true] at ha
    cases r with
    | nil =>
      simp only [renderArgsSingle, printArgsSingle, List.append_nil]
      exact ih1 d rest ha.1 hr
    | cons b r' =>
      simp only [renderArgsSingle, printArgsSingle, List.cons_append, List.append_assoc]
      rw [ih1 d _ ha.1 (afterVal_comma _), lex_comma, lex_space]
      have := ih2 d rest ha.2 hr
      simp only [renderArgsSingle, printArgsSingle, List.append_assoc] at this
      rw [this]
      generalize lex rest = x; cases x <;> simp [Res.cons, Res.prepend]

theorem lex_renderCalls (H : ScaledRoundTrip) (raw : Char → Bool) : ∀ (cs : List Call) (d : Nat) (rest : List Char),
    callsOk cs = true →
    lex (renderCalls raw d cs ++ rest) = (lex rest).prepend (printCalls cs)
  | [], d, rest, hc => by
    simp [renderCalls, printCalls, Res.prepend_nil]
  | .mk name args :: r, d, rest, hc => by
    have ihm := lex_renderArgsMulti H raw args
    have ihs := lex_renderArgsSingle H raw args
    have ihc := lex_renderCalls H raw r
    simp only [callsOk, callOk, Bool.and_eq_true] at hc
    obtain ⟨⟨hn, ha⟩, hr⟩ := hc
    simp only [renderCalls, renderCall, printCalls, printCall, List.append_assoc, List.cons_append,
      List.nil_append, indent]
    rw [lex_indent, lex_kw name _ hn (wordEnd_lparen _), lex_lparen]
    by_cases hm : multiline args = true
    · simp only [hm, ↓reduceIte, List.append_assoc, List.cons_append]
      rw [ihm d _ ha, lex_newline, lex_indent, lex_rparen, lex_newline, ihc d rest hr]
      generalize lex rest = x; cases x <;> simp [Res.cons, Res.prepend]
    · have hm' : multiline args = false := by simpa using hm
      simp only [hm', Bool.false_eq_true, ↓reduceIte]
      rw [ihs d _ ha (afterVal_rparen _), lex_rparen, lex_newline, ihc d rest hr]
      generalize lex rest = x; cases x <;> simp [Res.cons, Res.prepend]
end

/-- The lexer inverts the printer on every printable CST. -/
theorem lex_render (H : ScaledRoundTrip) (raw : Char → Bool) (cs : List Call) (hc : callsOk cs = true) :
    lex (renderCalls raw 0 cs) = .ok (printCalls cs) := by
  have := lex_renderCalls H raw cs 0 [] hc
  simp only [List.append_nil, lex_nil, Res.prepend] at this
  exact this

/-! ### comments -/

theorem dropLine_comment : ∀ (cmt s : List Char), (∀ x ∈ cmt, x ≠ '\n') →
    dropLine (cmt ++ '\n' :: s) = s := by
  intro cmt
  induction cmt with
  | nil => intro s _; simp [dropLine]
  | cons c cmt ih =>
    intro s h
    simp only [List.cons_append, dropLine, h c (by simp), if_false]
    exact ih s (fun x hx => h x (by simp [hx]))

/-- A comment line lexes to nothing. -/
theorem lex_comment (cmt s : List Char) (h : ∀ x ∈ cmt, x ≠ '\n') :
    lex ('#' :: (cmt ++ '\n' :: s)) = lex s := by
  rw [lex_cons]
  have : lexStep '#' (cmt ++ '\n' :: s) = .skip s := by
    unfold lexStep
    rw [if_pos rfl, dropLine_comment cmt s h]
  rw [this]

/-- A comment line after printed calls (at any depth) does not change the tokens. -/
theorem lex_comment_after_calls (H : ScaledRoundTrip) (raw : Char → Bool) (cs : List Call) (d : Nat)
    (cmt rest : List Char) (hc : callsOk cs = true) (h : ∀ x ∈ cmt, x ≠ '\n') :
    lex (renderCalls raw d cs ++ '#' :: (cmt ++ '\n' :: rest)) = lex (renderCalls raw d cs ++ rest) := by
  rw [lex_renderCalls H raw cs d _ hc, lex_renderCalls H raw cs d _ hc, lex_comment cmt rest h]

end C18
