import TexcraftModel.Model.C18

/-! Helper lemmas for C18 (leaf level: keywords, decimal integers, scaled numbers, strings). -/
namespace C18

/-! ### keywords -/

theorem Order.ofKeyword_keyword (o : Order) : Order.ofKeyword o.keyword = some o := by
  cases o <;> decide

theorem InfOrder.ofUnit_unit (o : InfOrder) : InfOrder.ofUnit o.unit = some o := by
  cases o <;> decide

/-! ### decimal digits -/

theorem digitVal_digitChar {d : Nat} (h : d < 10) : digitVal (digitChar d) = some d := by
  have : d = 0 ∨ d = 1 ∨ d = 2 ∨ d = 3 ∨ d = 4 ∨ d = 5 ∨ d = 6 ∨ d = 7 ∨ d = 8 ∨ d = 9 := by omega
  rcases this with h | h | h | h | h | h | h | h | h | h <;> subst h <;> decide

/-- Value of a digit list, least significant first. -/
def ofLsd (l : List Nat) : Nat := l.foldr (fun d a => a * 10 + d) 0

theorem ofLsd_lsdAux : ∀ (f n : Nat), n < f → ofLsd (lsdAux f n) = n := by
  intro f
  induction f with
  | zero => intro n h; omega
  | succ f ih =>
    intro n h
    unfold lsdAux
    split
    · simp [ofLsd]
    · have := ih (n / 10) (by omega)
      simp only [ofLsd, List.foldr_cons] at this ⊢
      omega

theorem lsdAux_lt : ∀ (f n : Nat), ∀ d ∈ lsdAux f n, d < 10 := by
  intro f
  induction f with
  | zero => intro n d h; simp [lsdAux] at h
  | succ f ih =>
    intro n d h
    unfold lsdAux at h
    split at h
    · simp at h; omega
    · simp only [List.mem_cons] at h
      rcases h with h | h
      · omega
      · exact ih _ _ h

theorem lsdAux_ne_nil (f n : Nat) : lsdAux (f + 1) n ≠ [] := by
  unfold lsdAux; split <;> simp

def fromDigits (acc : Nat) (ds : List Nat) : Nat := ds.foldl (fun a d => a * 10 + d) acc

theorem fromDigits_natDigits (n : Nat) : fromDigits 0 (natDigits n) = n := by
  unfold fromDigits natDigits
  rw [List.foldl_reverse]
  exact ofLsd_lsdAux (n + 1) n (by omega)

theorem natDigits_lt (n : Nat) : ∀ d ∈ natDigits n, d < 10 := by
  intro d h
  unfold natDigits at h
  exact lsdAux_lt _ _ d (List.mem_reverse.mp h)

theorem natDigits_ne_nil (n : Nat) : natDigits n ≠ [] := by
  unfold natDigits
  simp [lsdAux_ne_nil]

/-- The text after a number does not continue it. -/
def NoDigitHead : List Char → Prop
  | [] => True
  | c :: _ => digitVal c = none

theorem scanDigits_digits : ∀ (ds : List Nat) (acc : Nat) (rest : List Char),
    (∀ d ∈ ds, d < 10) → NoDigitHead rest →
    scanDigits acc (ds.map digitChar ++ rest) = (fromDigits acc ds, rest) := by
  intro ds
  induction ds with
  | nil =>
    intro acc rest _ hr
    cases rest with
    | nil => simp [scanDigits, fromDigits]
    | cons c r => simp only [NoDigitHead] at hr; simp [scanDigits, fromDigits, hr]
  | cons d ds ih =>
    intro acc rest hd hr
    have h1 : d < 10 := hd d (by simp)
    simp only [List.map_cons, List.cons_append, scanDigits, digitVal_digitChar h1]
    rw [ih _ _ (fun x hx => hd x (by simp [hx])) hr]
    simp [fromDigits]

theorem scanFrac_digits : ∀ (ds : List Nat) (rest : List Char),
    (∀ d ∈ ds, d < 10) → NoDigitHead rest →
    scanFrac (ds.map digitChar ++ rest) = (ds, rest) := by
  intro ds
  induction ds with
  | nil =>
    intro rest _ hr
    cases rest with
    | nil => simp [scanFrac]
    | cons c r => simp only [NoDigitHead] at hr; simp [scanFrac, hr]
  | cons d ds ih =>
    intro rest hd hr
    have h1 : d < 10 := hd d (by simp)
    simp only [List.map_cons, List.cons_append, scanFrac, digitVal_digitChar h1]
    rw [ih _ (fun x hx => hd x (by simp [hx])) hr]

theorem scanDigits_natChars (n : Nat) (rest : List Char) (hr : NoDigitHead rest) :
    scanDigits 0 (natChars n ++ rest) = (n, rest) := by
  unfold natChars
  rw [scanDigits_digits _ _ _ (natDigits_lt n) hr, fromDigits_natDigits]

/-! ### integers as text -/

/-- The text after an integer token: not a digit, a decimal point or a letter. -/
def Terminated : List Char → Prop
  | [] => True
  | c :: _ => digitVal c = none ∧ c ≠ '.' ∧ isAlpha c = false

theorem Terminated.noDigit {r : List Char} (h : Terminated r) : NoDigitHead r := by
  cases r with
  | nil => trivial
  | cons c r => exact h.1

theorem lexNumber_int (st : List Char) (neg : Bool) (n : Nat) (rest : List Char) (hn : n ≤ 2147483647)
    (hr : Terminated rest) :
    lexNumber st neg (natChars n ++ rest) = .ok (.int ((if neg then -1 else 1) * (n : Int)), rest) := by
  unfold lexNumber
  rw [scanDigits_natChars n rest hr.noDigit]
  cases rest with
  | nil => simp [lexInt]; omega
  | cons c r =>
    obtain ⟨h1, h2, h3⟩ := hr
    simp [h2, h3, lexInt]; omega

/-! ### scaled numbers as text -/

theorem tdiv_small (f : Nat) (hf : f < 65536) : ((f:Int)).tdiv 65536 = 0 := by
  rw [Int.tdiv_eq_ediv_of_nonneg (by omega)]; omega
theorem tmod_small (f : Nat) (hf : f < 65536) : ((f:Int)).tmod 65536 = f := by
  rw [Int.tmod_eq_emod_of_nonneg (by omega)]; omega

theorem scaledNew_pt (n f : Nat) (hf : f < 65536) (hn : n < 16384) :
    scaledNew (n : Int) f 1 1 false = some ((n : Int) * 65536 + f) := by
  unfold scaledNew maxDimen
  have e1 : ((1:Nat):Int) = 1 := rfl
  simp only [Bool.false_eq_true, if_false, e1, Int.mul_one, Int.tdiv_one, Int.tmod_one,
    Nat.mul_one, Int.zero_mul, Int.add_zero, tdiv_small f hf, tmod_small f hf]
  simp
  omega

/-- The text after a unit: not a letter or underscore. -/
def WordEnd : List Char → Prop
  | [] => True
  | c :: _ => isAlpha c = false ∧ c ≠ '_'

theorem scanWord_end (rest : List Char) (h : WordEnd rest) : scanWord rest = ([], rest) := by
  cases rest with
  | nil => rfl
  | cons c r => obtain ⟨h1, h2⟩ := h; simp [scanWord, h1, h2]

theorem scanWord_word : ∀ (w : List Char) (rest : List Char),
    (∀ c ∈ w, isAlpha c = true) → WordEnd rest → scanWord (w ++ rest) = (w, rest) := by
  intro w
  induction w with
  | nil => intro rest _ h; simpa using scanWord_end rest h
  | cons c w ih =>
    intro rest hw h
    have hc : isAlpha c = true := hw c (by simp)
    simp only [List.cons_append, scanWord, hc, Bool.true_or, if_true]
    rw [ih rest (fun x hx => hw x (by simp [hx])) h]

theorem fracDigitsAux_len : ∀ (k f delta : Nat), (fracDigitsAux k f delta).length ≤ k := by
  intro k
  induction k with
  | zero => intro f delta; simp [fracDigitsAux]
  | succ k ih =>
    intro f delta
    simp only [fracDigitsAux, List.length_cons]
    generalize (if delta > 65536 then f + 32768 - 50000 else f) = g
    have := ih (g % 65536 * 10) (delta * 10)
    split
    · simp
    · omega

theorem fracDigits_take (fp : Nat) : (fracDigits fp).take 17 = fracDigits fp :=
  List.take_of_length_le (fracDigitsAux_len 17 _ _)

/-- A non-negative scaled value below 16384pt, printed by `display_no_units` and followed by a
unit, lexes back to itself (given the decimal round trip of the fraction). -/
theorem lexNumber_scaled (H : ScaledRoundTrip) (st : List Char) (neg : Bool) (a : Nat)
    (u rest : List Char) (hu : ∀ c ∈ u, isAlpha c = true) (hne : u ≠ []) :
    lexNumber st neg (printNoUnits (a : Int) ++ (u ++ rest)) =
      lexUnit st neg (a / 65536) (fracDigits (a % 65536)) (u ++ rest) := by
  obtain ⟨h1, h2, h3⟩ := H (a % 65536) (Nat.mod_lt _ (by omega))
  unfold lexNumber printNoUnits
  have hna : ((a : Int)).natAbs = a := by omega
  have hnn : ¬ ((a : Int) < 0) := by omega
  simp only [hnn, if_false, List.nil_append, hna, List.append_assoc, List.cons_append]
  rw [scanDigits_natChars _ _ (by simp [NoDigitHead]; decide)]
  cases u with
  | nil => exact absurd rfl hne
  | cons c u =>
    have hc : isAlpha c = true := hu c (by simp)
    have hnd : NoDigitHead (c :: u ++ rest) := by
      simp only [List.cons_append, NoDigitHead]
      unfold digitVal
      have : isAlpha c = true := hc
      unfold isAlpha at this
      simp only [Bool.or_eq_true, Bool.and_eq_true, decide_eq_true_eq] at this
      have hv : ∀ d : Char, d.toNat < 'A'.toNat → c ≠ d := by
        intro d hd heq; subst heq
        have e1 : 'a'.toNat = 97 := rfl
        have e2 : 'A'.toNat = 65 := rfl
        omega
      simp [hv '0' (by decide), hv '1' (by decide), hv '2' (by decide), hv '3' (by decide),
        hv '4' (by decide), hv '5' (by decide), hv '6' (by decide), hv '7' (by decide),
        hv '8' (by decide), hv '9' (by decide)]
    simp only [if_true]
    rw [scanFrac_digits _ _ h2 hnd]
    simp [hc]

theorem lexUnit_pt (H : ScaledRoundTrip) (st : List Char) (neg : Bool) (a : Nat) (ha : a ≤ 1073741823)
    (rest : List Char) (hr : WordEnd rest) :
    lexUnit st neg (a / 65536) (fracDigits (a % 65536)) (['p', 't'] ++ rest) =
      .ok (.dim ((if neg then -1 else 1) * (a : Int)), rest) := by
  obtain ⟨h1, h2, h3⟩ := H (a % 65536) (Nat.mod_lt _ (by omega))
  unfold lexUnit
  rw [scanWord_word ['p','t'] rest (by decide) hr]
  have hn : ¬ (a / 65536 > 2147483647) := by omega
  have hu : unitFraction ['p', 't'] = some (1, 1, false) := by decide
  simp only [hn, if_false, hu, h1]
  rw [scaledNew_pt _ _ (Nat.mod_lt _ (by omega)) (by omega)]
  have : ((a / 65536 : Nat) : Int) * 65536 + ((a % 65536 : Nat) : Int) = a := by omega
  rw [this]

theorem lexUnit_inf (H : ScaledRoundTrip) (st : List Char) (neg : Bool) (a : Nat) (ha : a ≤ 2147483647)
    (o : InfOrder) (rest : List Char) (hr : WordEnd rest) :
    lexUnit st neg (a / 65536) (fracDigits (a % 65536)) (o.unit ++ rest) =
      .ok (.inf ((if neg then -1 else 1) * (a : Int)) o, rest) := by
  obtain ⟨h1, h2, h3⟩ := H (a % 65536) (Nat.mod_lt _ (by omega))
  unfold lexUnit
  rw [scanWord_word o.unit rest (by cases o <;> decide) hr]
  have hn : ¬ (a / 65536 > 2147483647) := by omega
  have hu : unitFraction o.unit = none := by cases o <;> decide
  simp only [hn, if_false, hu, h1, InfOrder.ofUnit_unit]
  have : ((a % 65536 : Nat) : Int) + 65536 * ((a / 65536 : Nat) : Int) = a := by omega
  simp only [this]
  have : ¬ ((a : Int) > 2147483647) := by omega
  simp [this]

/-! ### strings -/

theorem hexVal_hexDigitChar {d : Nat} (h : d < 16) : hexVal (hexDigitChar d) = some d := by
  have : d = 0 ∨ d = 1 ∨ d = 2 ∨ d = 3 ∨ d = 4 ∨ d = 5 ∨ d = 6 ∨ d = 7 ∨ d = 8 ∨ d = 9
      ∨ d = 10 ∨ d = 11 ∨ d = 12 ∨ d = 13 ∨ d = 14 ∨ d = 15 := by omega
  rcases this with h | h | h | h | h | h | h | h | h | h | h | h | h | h | h | h <;> subst h <;> decide

theorem hexDigitChar_ne_close (d : Nat) : hexDigitChar d ≠ '}' := by
  unfold hexDigitChar
  split <;> decide

def ofLsd16 (l : List Nat) : Nat := l.foldr (fun d a => a * 16 + d) 0

theorem ofLsd16_hexLsdAux : ∀ (f n : Nat), n < f → ofLsd16 (hexLsdAux f n) = n := by
  intro f
  induction f with
  | zero => intro n h; omega
  | succ f ih =>
    intro n h
    unfold hexLsdAux
    split
    · simp [ofLsd16]
    · have := ih (n / 16) (by omega)
      simp only [ofLsd16, List.foldr_cons] at this ⊢
      omega

theorem hexLsdAux_lt : ∀ (f n : Nat), ∀ d ∈ hexLsdAux f n, d < 16 := by
  intro f
  induction f with
  | zero => intro n d h; simp [hexLsdAux] at h
  | succ f ih =>
    intro n d h
    unfold hexLsdAux at h
    split at h
    · simp at h; omega
    · simp only [List.mem_cons] at h
      rcases h with h | h
      · omega
      · exact ih _ _ h

theorem scanStr_hex_digits (bs : List Char) : ∀ (ds : List Nat) (v : Nat) (r : List Char), (∀ d ∈ ds, d < 16) →
    scanStr (.hex bs v true) (ds.map hexDigitChar ++ '}' :: r) =
      scanStr (.hex bs (ds.foldl (fun a d => a * 16 + d) v) true) ('}' :: r) := by
  intro ds
  induction ds with
  | nil => intro v r _; rfl
  | cons d ds ih =>
    intro v r hd
    have h1 : d < 16 := hd d (by simp)
    simp only [List.map_cons, List.cons_append, List.foldl_cons]
    rw [scanStr]
    simp only [hexDigitChar_ne_close, if_false, hexVal_hexDigitChar h1]
    exact ih _ _ (fun x hx => hd x (by simp [hx]))

theorem scanStr_hexChars (bs : List Char) (n : Nat) (r : List Char) :
    scanStr (.hex bs 0 true) (hexChars n ++ '}' :: r) = scanStr (.hex bs n true) ('}' :: r) := by
  unfold hexChars
  rw [scanStr_hex_digits bs _ _ _ (fun d hd => hexLsdAux_lt _ _ d (List.mem_reverse.mp hd))]
  rw [List.foldl_reverse]
  have := ofLsd16_hexLsdAux (n + 1) n (by omega)
  unfold ofLsd16 at this
  rw [this]

theorem scanStr_escapeChar (raw : Char → Bool) (c : Char) (r : List Char) :
    scanStr .norm (escapeChar raw c ++ r) = (scanStr .norm r).push c := by
  unfold escapeChar
  split
  · rename_i h; subst h; simp [scanStr]
  split
  · rename_i h; subst h; simp [scanStr]
  split
  · rename_i h; subst h; simp [scanStr]
  split
  · rename_i h; subst h; simp [scanStr]
  split
  · rename_i h; subst h; simp [scanStr]
  split
  · rename_i h; subst h; simp [scanStr]
  split
  · rename_i h; subst h; simp [scanStr]
  rename_i h0 ht hr hn hb hq hs
  split
  · simp [scanStr, hb, hq]
  · simp only [List.cons_append, List.nil_append, List.append_assoc]
    rw [scanStr]; simp only [show ('\\' : Char) ≠ '"' by decide, if_false, if_true]
    rw [scanStr]
    simp only [show ¬ (('u' : Char) = '"' ∨ ('u' : Char) = '\'' ∨ ('u' : Char) = '\\') by decide,
      show ('u' : Char) ≠ 'n' by decide, show ('u' : Char) ≠ 't' by decide,
      show ('u' : Char) ≠ '0' by decide, show ('u' : Char) ≠ 'r' by decide, if_false, if_true]
    rw [scanStr]; simp only [if_true]
    rw [scanStr_hexChars, scanStr]
    have hv : Nat.isValidChar c.toNat := c.valid
    simp only [if_true, hv, and_self, Char.ofNat_toNat]

/-- `string_escape_roundtrip`, lexer form. -/
theorem scanStr_escapeStr (raw : Char → Bool) : ∀ (s : Str) (rest : List Char),
    scanStr .norm (escapeStr raw s ++ '"' :: rest) = .ok (s, rest) := by
  intro s
  induction s with
  | nil => intro rest; simp [escapeStr, scanStr]
  | cons c s ih =>
    intro rest
    simp only [escapeStr, List.append_assoc]
    rw [scanStr_escapeChar, ih]
    rfl

end C18
