import TexcraftModel.Lemmas.C05Sem

/-!
# C05 — node types: the compiled run types its items as the typed cursor machine does

A character is a ligature node iff an instruction inserted it. The compiler's `is_lig` flags
compose exactly like the machine's flags: for a table entry `(ops, last)` of the pair `(l, r)`,
started on a left element flagged `bl` and a right element flagged `br`, the machine emits
`tgl (markFirst bl ops)` and continues on `last` flagged `last.lig || br`.
-/
namespace C05

def tgl : List IOp → List TGlyph
  | [] => []
  | .kern k :: t => .kern k :: tgl t
  | .ch c :: t => .glyph c.c c.lig :: tgl t

theorem tgl_append (a b : List IOp) : tgl (a ++ b) = tgl a ++ tgl b := by
  induction a with
  | nil => rfl
  | cons x t ih => cases x <;> simp [tgl, ih]

/-! ## Flag algebra of `markFirst` -/

theorem markFirst_append_hasCh (b : Bool) (x y : List IOp) (h : hasCh x = true) :
    (markFirst b (x ++ y)).1 = (markFirst b x).1 ++ y := by
  induction x with
  | nil => simp [hasCh] at h
  | cons i t ih =>
    cases i with
    | kern k => simp [markFirst, ih (by simpa [hasCh] using h)]
    | ch c => simp [markFirst]

theorem markFirst_append_noCh (b : Bool) (x y : List IOp) (h : hasCh x = false) :
    (markFirst b (x ++ y)).1 = x ++ (markFirst b y).1 := by
  induction x with
  | nil => rfl
  | cons i t ih =>
    cases i with
    | kern k => simp [markFirst, ih (by simpa [hasCh] using h)]
    | ch c => simp [hasCh] at h

theorem markFirst_markFirst (a b : Bool) (ops : List IOp) :
    (markFirst a (markFirst b ops).1).1 = (markFirst (a || b) ops).1 := by
  induction ops with
  | nil => rfl
  | cons i t ih =>
    cases i with
    | kern k => simp [markFirst, ih]
    | ch c => simp [markFirst, Bool.or_assoc, Bool.or_comm a b]

theorem markFirst_false_fst (ops : List IOp) : (markFirst false ops).1 = ops := by
  rw [markFirst_false]

theorem markFirst_leftOps (b : Bool) (l : Option Nat) :
    tgl (markFirst b (leftOps l)).1 = (emitT (elOf l, b)) := by
  cases l <;> simp [leftOps, markFirst, tgl, emitT, elOf]

/-! ## The typed machine as a relation -/

def ligSeqT (x y : El × Bool) (z : Nat) (post : PostLig) (tail : List (El × Bool)) : List (El × Bool) :=
  (if post.abc.2.1 then [x] else []) ++ [(El.ch z, true)] ++ (if post.abc.2.2 then [y] else []) ++ tail

inductive InterpTR (p : Program) : List (El × Bool) → List TGlyph → Prop
  | single (x : El × Bool) : InterpTR p [x] (emitT x)
  | noRule (x y : El × Bool) (tail : List (El × Bool)) (out : List TGlyph) :
      x.1 ≠ .rb → lookup p x.1 y.1 = none → InterpTR p (y :: tail) out →
      InterpTR p (x :: y :: tail) (emitT x ++ out)
  | kern (x y : El × Bool) (tail : List (El × Bool)) (k : Int) (out : List TGlyph) :
      x.1 ≠ .rb → lookup p x.1 y.1 = some (.kern k) → InterpTR p (y :: tail) out →
      InterpTR p (x :: y :: tail) (emitT x ++ TGlyph.kern k :: out)
  | lig (x y : El × Bool) (tail : List (El × Bool)) (z : Nat) (post : PostLig) (out : List TGlyph) :
      x.1 ≠ .rb → lookup p x.1 y.1 = some (.lig z post) →
      InterpTR p ((ligSeqT x y z post tail).drop post.abc.1) out →
      InterpTR p (x :: y :: tail) (((ligSeqT x y z post tail).take post.abc.1).flatMap emitT ++ out)

theorem interpT_step (p : Program) (f : Nat) (x y : El × Bool) (tail : List (El × Bool)) (hx : x.1 ≠ .rb) :
    interpT p (f + 1) (x :: y :: tail) =
      match lookup p x.1 y.1 with
      | none => (interpT p f (y :: tail)).map (emitT x ++ ·)
      | some (.kern k) => (interpT p f (y :: tail)).map (emitT x ++ TGlyph.kern k :: ·)
      | some (.lig z post) =>
        (interpT p f ((ligSeqT x y z post tail).drop post.abc.1)).map
          (((ligSeqT x y z post tail).take post.abc.1).flatMap emitT ++ ·) := by
  obtain ⟨e, b⟩ := x
  cases e with
  | rb => exact absurd rfl hx
  | lb => first | rfl | (simp only [interpT, lookup, ligSeqT]; rfl)
  | ch c => first | rfl | (simp only [interpT, lookup, ligSeqT]; rfl)

theorem interpT_complete (p : Program) {s : List (El × Bool)} {out : List TGlyph} (h : InterpTR p s out) :
    ∃ f, interpT p f s = some out := by
  induction h with
  | single x => exact ⟨1, rfl⟩
  | noRule x y tail out hx hl _ ih =>
    obtain ⟨f, hf⟩ := ih
    exact ⟨f + 1, by rw [interpT_step p f x y tail hx, hl]; simp [hf]⟩
  | kern x y tail k out hx hl _ ih =>
    obtain ⟨f, hf⟩ := ih
    exact ⟨f + 1, by rw [interpT_step p f x y tail hx, hl]; simp [hf]⟩
  | lig x y tail z post out hx hl _ ih =>
    obtain ⟨f, hf⟩ := ih
    exact ⟨f + 1, by rw [interpT_step p f x y tail hx, hl]; simp [hf]⟩

end C05

namespace C05

def lastLig (c : Option Repl) : Bool :=
  match c with
  | none => false
  | some rep => rep.2.lig

/-- What the machine emits while it evaluates a child pair whose table value is `c`. -/
def childOps (c : Option Repl) (l : Option Nat) (fl : Bool) : List TGlyph :=
  match c with
  | none => emitT (elOf l, fl)
  | some rep => tgl (markFirst fl rep.1).1

def SemRealT (p : Program) (n : Nat) : Prop :=
  ∀ l r rep, pairResult n p l r = some (some rep) → ∀ (bl br : Bool) tail out, (l = none → bl = false) →
    InterpTR p ((.ch rep.2.c, rep.2.lig || br) :: tail) out →
    InterpTR p ((elOf l, bl) :: (.ch r, br) :: tail) (tgl (markFirst bl rep.1).1 ++ out)

theorem childT (p : Program) (n : Nat) (ih : SemRealT p n) (l : Option Nat) (r : Nat) (c : Option Repl)
    (hc : pairResult n p l r = some c) (fl fr : Bool) (hl : l = none → fl = false)
    (tail : List (El × Bool)) (out : List TGlyph)
    (h : InterpTR p ((.ch (lastOf c r), lastLig c || fr) :: tail) out) :
    InterpTR p ((elOf l, fl) :: (.ch r, fr) :: tail) (childOps c l fl ++ out) := by
  cases c with
  | none =>
    have hr := pairResult_none_rule p n _ _ hc
    exact InterpTR.noRule (elOf l, fl) (.ch r, fr) tail out (elOf_ne_rb l)
      (by rw [lookup_ch]; exact hr) (by simpa [lastOf, lastLig] using h)
  | some rep => exact ih l r rep hc fl fr tail out hl h

theorem markFirst_noCh (b : Bool) (x : List IOp) (h : hasCh x = false) : (markFirst b x).1 = x := by
  have := markFirst_append_noCh b x [] h
  simpa [markFirst] using this

/-- Pattern 1: the pending left character is flagged (an inserted character). -/
theorem applyChild_typed1 (x pr : C) (hx : x.lig = true) (c : Option Repl)
    (hg : ∀ rep, c = some rep → GoodRepl (some x.c) pr.c rep) (b br : Bool) :
    tgl (markFirst b (applyChild (some x) pr c).1).1 = childOps c (some x.c) true
      ∧ ((applyChild (some x) pr c).2.lig || br) = (lastLig c || (pr.lig || br)) := by
  cases c with
  | none => obtain ⟨xc, xl⟩ := x; simp at hx; subst hx; simp [applyChild, markFirst, tgl, childOps, emitT, elOf, lastLig]
  | some rep =>
    have hgood := hg rep rfl
    simp only [applyChild, hx, childOps, lastLig]
    rw [markFirst_markFirst, applyChild_flag_redundant true x.c pr.c pr.lig rep hgood]
    simp [Bool.or_assoc]

/-- Pattern 2: the pending left character is the pair's own left character (or the boundary). -/
theorem applyChild_typed2 (l : Option Nat) (pr : C) (c : Option Repl) (b br : Bool) :
    tgl (markFirst b (applyChild (leftC l) pr c).1).1 = childOps c l b
      ∧ ((applyChild (leftC l) pr c).2.lig || br) = (lastLig c || (pr.lig || br)) := by
  cases c with
  | none => cases l <;> simp [applyChild, leftC, markFirst, tgl, childOps, emitT, elOf, lastLig]
  | some rep =>
    cases l <;> simp [applyChild, leftC, markFirst_false, childOps, lastLig, Bool.or_assoc]

end C05

namespace C05

theorem tgl_unmarked (ops : List IOp) : tgl ops = tgl (markFirst false ops).1 := by
  rw [markFirst_false]

theorem sem_realT (p : Program) : ∀ n, SemRealT p n := by
  intro n
  induction n with
  | zero => intro l r rep h; simp [pairResult] at h
  | succ n ih =>
    intro l r rep h bl br tail out hbl hout
    rw [pairResult] at h
    cases hr : rule p l r with
    | none => simp [hr] at h
    | some op =>
      have hne : (elOf l, bl).1 ≠ El.rb := elOf_ne_rb l
      have hlk : lookup p (elOf l, bl).1 ((El.ch r, br) : El × Bool).1 = some op := by
        show lookup p (elOf l) (.ch r) = some op
        rw [lookup_ch]; exact hr
      cases op with
      | kern k =>
        simp [hr] at h
        subst h
        have := InterpTR.kern (elOf l, bl) (.ch r, br) tail k out hne hlk (by simpa using hout)
        cases l <;> simpa [leftOps, markFirst, tgl, emitT, elOf] using this
      | lig z post =>
        simp only [hr] at h
        cases post with
        | neither =>
          simp at h; subst h
          have := InterpTR.lig (elOf l, bl) (.ch r, br) tail z .neither out hne hlk
            (by simpa [ligSeqT, PostLig.abc] using hout)
          simpa [ligSeqT, PostLig.abc, markFirst, tgl] using this
        | leftInserted =>
          simp at h; subst h
          have := InterpTR.lig (elOf l, bl) (.ch r, br) tail z .leftInserted out hne hlk
            (by simpa [ligSeqT, PostLig.abc] using hout)
          simpa [ligSeqT, PostLig.abc, markFirst_leftOps] using this
        | rightRight =>
          simp at h; subst h
          have := InterpTR.lig (elOf l, bl) (.ch r, br) tail z .rightRight out hne hlk
            (by simpa [ligSeqT, PostLig.abc] using hout)
          simpa [ligSeqT, PostLig.abc, markFirst, tgl, emitT] using this
        | bothRight =>
          simp at h; subst h
          have := InterpTR.lig (elOf l, bl) (.ch r, br) tail z .bothRight out hne hlk
            (by simpa [ligSeqT, PostLig.abc] using hout)
          cases l with
          | none =>
            have := hbl rfl; subst this
            simpa [ligSeqT, PostLig.abc, leftOps, markFirst, tgl, emitT, elOf] using this
          | some lc => simpa [ligSeqT, PostLig.abc, leftOps, markFirst, tgl, emitT, elOf] using this
        | rightInserted =>
          simp only at h
          cases h1 : pairResult n p (some z) r with
          | none => simp [h1] at h
          | some c1 =>
            simp only [h1] at h
            simp at h; subst h
            have hg : ∀ rep, c1 = some rep → GoodRepl (some z) r rep :=
              fun rep hrep => pairResult_good p n _ _ rep (by rw [h1, hrep])
            obtain ⟨a1, a2⟩ := applyChild_typed1 ⟨z, true⟩ ⟨r, false⟩ rfl c1 hg bl br
            have t1 := childT p n ih (some z) r c1 h1 true br (by simp) tail out
              (by rw [applyChild_last, a2] at hout; simpa using hout)
            have := InterpTR.lig (elOf l, bl) (.ch r, br) tail z .rightInserted _ hne hlk
              (by simpa [ligSeqT, PostLig.abc, elOf] using t1)
            rw [a1]
            simpa [ligSeqT, PostLig.abc] using this
        | bothInserted =>
          simp only at h
          cases h1 : pairResult n p (some z) r with
          | none => simp [h1] at h
          | some c1 =>
            simp only [h1] at h
            simp at h; subst h
            have hg : ∀ rep, c1 = some rep → GoodRepl (some z) r rep :=
              fun rep hrep => pairResult_good p n _ _ rep (by rw [h1, hrep])
            obtain ⟨a1, a2⟩ := applyChild_typed1 ⟨z, true⟩ ⟨r, false⟩ rfl c1 hg false br
            have t1 := childT p n ih (some z) r c1 h1 true br (by simp) tail out
              (by rw [applyChild_last, a2] at hout; simpa using hout)
            have := InterpTR.lig (elOf l, bl) (.ch r, br) tail z .bothInserted _ hne hlk
              (by simpa [ligSeqT, PostLig.abc, elOf] using t1)
            rw [markFirst_false] at a1
            cases l with
            | none =>
              have := hbl rfl; subst this
              simpa [ligSeqT, PostLig.abc, leftOps, markFirst_false, a1, emitT, elOf] using this
            | some lc =>
              simpa [ligSeqT, PostLig.abc, leftOps, markFirst, tgl, a1, emitT, elOf] using this
        | leftNowhere =>
          simp only at h
          cases h1 : pairResult n p l z with
          | none => simp [h1] at h
          | some c1 =>
            simp only [h1] at h
            simp at h; subst h
            obtain ⟨b1, b2⟩ := applyChild_typed2 l ⟨z, true⟩ c1 bl br
            have t1 := childT p n ih l z c1 h1 bl true hbl tail out
              (by rw [applyChild_last, b2] at hout; simpa using hout)
            have := InterpTR.lig (elOf l, bl) (.ch r, br) tail z .leftNowhere _ hne hlk
              (by simpa [ligSeqT, PostLig.abc] using t1)
            rw [b1]
            simpa [ligSeqT, PostLig.abc] using this
        | bothNowhere =>
          simp only at h
          cases h1 : pairResult n p l z with
          | none => simp [h1] at h
          | some c1 =>
            simp only [h1] at h
            cases h2 : pairResult n p (some (applyChild (leftC l) ⟨z, true⟩ c1).2.c) r with
            | none => simp [h2] at h
            | some c2 =>
              simp only [h2] at h
              simp at h; subst h
              have hs1 : (applyChild (leftC l) ⟨z, true⟩ c1).2.lig = true := applyChild_lig_right _ _ _
              have hg : ∀ rep, c2 = some rep → GoodRepl (some (applyChild (leftC l) ⟨z, true⟩ c1).2.c) r rep :=
                fun rep hrep => pairResult_good p n _ _ rep (by rw [h2, hrep])
              have A := fun b => applyChild_typed1 (applyChild (leftC l) ⟨z, true⟩ c1).2 ⟨r, false⟩ hs1 c2 hg b br
              have B := fun b => applyChild_typed2 l ⟨z, true⟩ c1 b true
              have t2 := childT p n ih _ r c2 h2 true br (by simp) tail out
                (by rw [applyChild_last, (A false).2] at hout; simpa using hout)
              have t1 := childT p n ih l z c1 h1 bl true hbl ((.ch r, br) :: tail) _
                (by rw [applyChild_last] at t2; simpa [elOf] using t2)
              have := InterpTR.lig (elOf l, bl) (.ch r, br) tail z .bothNowhere _ hne hlk
                (by simpa [ligSeqT, PostLig.abc] using t1)
              have hops : tgl (markFirst bl ((applyChild (leftC l) ⟨z, true⟩ c1).1 ++
                    (applyChild (some (applyChild (leftC l) ⟨z, true⟩ c1).2) ⟨r, false⟩ c2).1)).1
                  = childOps c1 l bl ++ childOps c2 (some (applyChild (leftC l) ⟨z, true⟩ c1).2.c) true := by
                cases hch : hasCh (applyChild (leftC l) ⟨z, true⟩ c1).1 with
                | true =>
                  rw [markFirst_append_hasCh _ _ _ hch, tgl_append, (B bl).1, tgl_unmarked, (A false).1]
                | false =>
                  rw [markFirst_append_noCh _ _ _ hch, tgl_append, (A bl).1,
                    ← markFirst_noCh bl _ hch, (B bl).1]
              rw [hops]
              simpa [ligSeqT, PostLig.abc, List.append_assoc, applyChild_last] using this

end C05

namespace C05

/-! ## Right boundary -/

def lastT (c : C) : List TGlyph := if c.lig then [.glyph c.c true] else []

def lastT' (c : Option Repl) : List TGlyph :=
  match c with
  | none => []
  | some rep => lastT rep.2

def SemBdryT (p : Program) (n : Nat) : Prop :=
  ∀ l r rep, p.rb = some r → pairResult n p l r = some (some rep) → ∀ bl : Bool, (l = none → bl = false) →
    InterpTR p [(elOf l, bl), (.rb, false)] (tgl (markFirst bl rep.1).1 ++ lastT rep.2)

theorem interpTR_rb (p : Program) : InterpTR p [(El.rb, false)] [] := InterpTR.single (El.rb, false)

theorem childBT (p : Program) (n : Nat) (ih : SemBdryT p n) (x r : Nat) (hrb : p.rb = some r)
    (c : Option Repl) (hc : pairResult n p (some x) r = some c) :
    InterpTR p [(.ch x, true), (.rb, false)] (childOps c (some x) true ++ lastT' c) := by
  cases c with
  | none =>
    have hr := pairResult_none_rule p n _ _ hc
    have := InterpTR.noRule (.ch x, true) (.rb, false) [] [] (by simp)
      (by show lookup p (elOf (some x)) .rb = none; rw [lookup_rb p (some x) r hrb]; exact hr) (interpTR_rb p)
    simpa [childOps, lastT', elOf] using this
  | some rep => simpa [childOps, lastT', elOf] using ih (some x) r rep hrb hc true (by simp)

theorem lastT_apply (c : Option Repl) (r : Nat) (rep2 : C) (hc : rep2.c = lastOf c r)
    (hl : (rep2.lig || false) = (lastLig c || (false || false))) : lastT rep2 = lastT' c := by
  cases c with
  | none => simp [lastLig] at hl; simp [lastT, lastT', hl]
  | some rep => simp [lastLig] at hl; simp [lastT, lastT', hl, hc, lastOf]

theorem sem_bdryT (p : Program) : ∀ n, SemBdryT p n := by
  intro n
  induction n with
  | zero => intro l r rep _ h; simp [pairResult] at h
  | succ n ih =>
    intro l r rep hrb h bl hbl
    rw [pairResult] at h
    cases hr : rule p l r with
    | none => simp [hr] at h
    | some op =>
      have hne : (elOf l, bl).1 ≠ El.rb := elOf_ne_rb l
      have hlk : lookup p (elOf l, bl).1 ((El.rb, false) : El × Bool).1 = some op := by
        show lookup p (elOf l) .rb = some op
        rw [lookup_rb p l r hrb]; exact hr
      cases op with
      | kern k =>
        simp [hr] at h; subst h
        have := InterpTR.kern (elOf l, bl) (.rb, false) [] k [] hne hlk (interpTR_rb p)
        cases l <;> simpa [leftOps, markFirst, tgl, emitT, elOf, lastT] using this
      | lig z post =>
        simp only [hr] at h
        cases post with
        | neither =>
          simp at h; subst h
          have := InterpTR.lig (elOf l, bl) (.rb, false) [] z .neither _ hne hlk
            (by simpa [ligSeqT, PostLig.abc] using InterpTR.single (p := p) (.ch z, true))
          simpa [ligSeqT, PostLig.abc, markFirst, tgl, lastT, emitT] using this
        | leftInserted =>
          simp at h; subst h
          have := InterpTR.lig (elOf l, bl) (.rb, false) [] z .leftInserted _ hne hlk
            (by simpa [ligSeqT, PostLig.abc] using InterpTR.single (p := p) (.ch z, true))
          simpa [ligSeqT, PostLig.abc, markFirst_leftOps, lastT, emitT] using this
        | rightRight =>
          simp at h; subst h
          have := InterpTR.lig (elOf l, bl) (.rb, false) [] z .rightRight _ hne hlk
            (by simpa [ligSeqT, PostLig.abc] using interpTR_rb p)
          simpa [ligSeqT, PostLig.abc, markFirst, tgl, emitT, lastT] using this
        | bothRight =>
          simp at h; subst h
          have := InterpTR.lig (elOf l, bl) (.rb, false) [] z .bothRight _ hne hlk
            (by simpa [ligSeqT, PostLig.abc] using interpTR_rb p)
          cases l with
          | none =>
            have := hbl rfl; subst this
            simpa [ligSeqT, PostLig.abc, leftOps, markFirst, tgl, emitT, elOf, lastT] using this
          | some lc => simpa [ligSeqT, PostLig.abc, leftOps, markFirst, tgl, emitT, elOf, lastT] using this
        | rightInserted =>
          simp only at h
          cases h1 : pairResult n p (some z) r with
          | none => simp [h1] at h
          | some c1 =>
            simp only [h1] at h
            simp at h; subst h
            have hg : ∀ rep, c1 = some rep → GoodRepl (some z) r rep :=
              fun rep hrep => pairResult_good p n _ _ rep (by rw [h1, hrep])
            obtain ⟨a1, a2⟩ := applyChild_typed1 ⟨z, true⟩ ⟨r, false⟩ rfl c1 hg bl false
            have t1 := childBT p n ih z r hrb c1 h1
            have := InterpTR.lig (elOf l, bl) (.rb, false) [] z .rightInserted _ hne hlk
              (by simpa [ligSeqT, PostLig.abc] using t1)
            rw [a1, lastT_apply c1 r _ (applyChild_last _ _ _) a2]
            simpa [ligSeqT, PostLig.abc] using this
        | bothInserted =>
          simp only at h
          cases h1 : pairResult n p (some z) r with
          | none => simp [h1] at h
          | some c1 =>
            simp only [h1] at h
            simp at h; subst h
            have hg : ∀ rep, c1 = some rep → GoodRepl (some z) r rep :=
              fun rep hrep => pairResult_good p n _ _ rep (by rw [h1, hrep])
            obtain ⟨a1, a2⟩ := applyChild_typed1 ⟨z, true⟩ ⟨r, false⟩ rfl c1 hg false false
            have t1 := childBT p n ih z r hrb c1 h1
            have := InterpTR.lig (elOf l, bl) (.rb, false) [] z .bothInserted _ hne hlk
              (by simpa [ligSeqT, PostLig.abc] using t1)
            rw [markFirst_false] at a1
            rw [lastT_apply c1 r _ (applyChild_last _ _ _) a2]
            cases l with
            | none =>
              have := hbl rfl; subst this
              simpa [ligSeqT, PostLig.abc, leftOps, markFirst_false, a1, emitT, elOf] using this
            | some lc =>
              simpa [ligSeqT, PostLig.abc, leftOps, markFirst, tgl, a1, emitT, elOf] using this
        | leftNowhere =>
          simp only at h
          cases h1 : pairResult n p l z with
          | none => simp [h1] at h
          | some c1 =>
            simp only [h1] at h
            simp at h; subst h
            obtain ⟨b1, b2⟩ := applyChild_typed2 l ⟨z, true⟩ c1 bl false
            have t1 := childT p n (sem_realT p n) l z c1 h1 bl true hbl [] _
              (by simpa using InterpTR.single (p := p) (.ch (lastOf c1 z), true))
            have := InterpTR.lig (elOf l, bl) (.rb, false) [] z .leftNowhere _ hne hlk
              (by simpa [ligSeqT, PostLig.abc] using t1)
            have hl : (applyChild (leftC l) ⟨z, true⟩ c1).2.lig = true := applyChild_lig_right _ _ _
            rw [b1]
            simpa [ligSeqT, PostLig.abc, lastT, hl, applyChild_last, emitT] using this
        | bothNowhere =>
          simp only at h
          cases h1 : pairResult n p l z with
          | none => simp [h1] at h
          | some c1 =>
            simp only [h1] at h
            cases h2 : pairResult n p (some (applyChild (leftC l) ⟨z, true⟩ c1).2.c) r with
            | none => simp [h2] at h
            | some c2 =>
              simp only [h2] at h
              simp at h; subst h
              have hs1 : (applyChild (leftC l) ⟨z, true⟩ c1).2.lig = true := applyChild_lig_right _ _ _
              have hg : ∀ rep, c2 = some rep → GoodRepl (some (applyChild (leftC l) ⟨z, true⟩ c1).2.c) r rep :=
                fun rep hrep => pairResult_good p n _ _ rep (by rw [h2, hrep])
              have A := fun b => applyChild_typed1 (applyChild (leftC l) ⟨z, true⟩ c1).2 ⟨r, false⟩ hs1 c2 hg b false
              have B := fun b => applyChild_typed2 l ⟨z, true⟩ c1 b true
              have t2 := childBT p n ih _ r hrb c2 h2
              have t1 := childT p n (sem_realT p n) l z c1 h1 bl true hbl [(.rb, false)] _
                (by rw [applyChild_last] at t2; simpa using t2)
              have := InterpTR.lig (elOf l, bl) (.rb, false) [] z .bothNowhere _ hne hlk
                (by simpa [ligSeqT, PostLig.abc] using t1)
              have hops : tgl (markFirst bl ((applyChild (leftC l) ⟨z, true⟩ c1).1 ++
                    (applyChild (some (applyChild (leftC l) ⟨z, true⟩ c1).2) ⟨r, false⟩ c2).1)).1
                  = childOps c1 l bl ++ childOps c2 (some (applyChild (leftC l) ⟨z, true⟩ c1).2.c) true := by
                cases hch : hasCh (applyChild (leftC l) ⟨z, true⟩ c1).1 with
                | true =>
                  rw [markFirst_append_hasCh _ _ _ hch, tgl_append, (B bl).1, tgl_unmarked, (A false).1]
                | false =>
                  rw [markFirst_append_noCh _ _ _ hch, tgl_append, (A bl).1,
                    ← markFirst_noCh bl _ hch, (B bl).1]
              rw [hops, lastT_apply c2 r _ (applyChild_last _ _ _) (A false).2]
              simpa [ligSeqT, PostLig.abc, List.append_assoc, applyChild_last] using this

end C05

namespace C05

/-! ## The lift to words -/

def tglyphs (l : List Item) : List TGlyph := l.map Item.tglyph

@[simp] theorem tglyphs_append (a b : List Item) : tglyphs (a ++ b) = tglyphs a ++ tglyphs b := by
  simp [tglyphs]

theorem drainT (left : Option Nat) (nl : Bool) (ops : List IOp) :
    ∀ lg cl, tglyphs (drain left nl ops lg cl).1 = tgl (markFirst lg.isSome ops).1 := by
  induction ops with
  | nil => intro lg cl; rfl
  | cons x t ih =>
    intro lg cl
    cases x with
    | kern k =>
      have := ih lg cl
      simp only [tglyphs] at this
      simp [drain, tglyphs, tgl, markFirst, Item.tglyph, this]
    | ch c =>
      obtain ⟨c, b⟩ := c
      have := ih none false
      simp only [tglyphs, Option.isSome_none, markFirst_false] at this
      cases b <;> cases lg <;> simp [drain, tglyphs, tgl, markFirst, Item.tglyph, this]

def rbT (p : Program) : List (El × Bool) := if p.rb.isSome then [(El.rb, false)] else []

def untagged (w : List Nat) : List (El × Bool) := w.map (fun c => (El.ch c, false))

theorem tglyphs_emitLeft (l : Nat) (lg : Option Pending) :
    tglyphs [emitLeft l lg] = [.glyph l lg.isSome] := by
  cases lg <;> rfl

theorem untagged_cons (r : Nat) (rest : List Nat) :
    untagged (r :: rest) = (El.ch r, false) :: untagged rest := rfl

theorem goL_semT (p : Program) (hac : acyclicB p = true) :
    ∀ (w : List Nat),
      (∀ l, InterpTR p ((.ch l, false) :: (untagged w ++ rbT p))
          (tglyphs (goL (table p) p.rb w (some l) true none))) ∧
      (∀ x s, InterpTR p ((.ch x, true) :: (untagged w ++ rbT p))
          (tglyphs (goL (table p) p.rb w (some x) false (some s)))) := by
  intro w
  induction w with
  | nil =>
    have key : ∀ (l : Nat) (lio : Bool) (lg : Option Pending),
        InterpTR p ((.ch l, lg.isSome) :: rbT p) (tglyphs (goL (table p) p.rb [] (some l) lio lg)) := by
      intro l lio lg
      simp only [goL]
      cases hrb : p.rb with
      | none =>
        simp only [rbT, hrb, Option.bind_none, Option.isSome_none]
        rw [tglyphs_emitLeft]
        exact InterpTR.single (.ch l, lg.isSome)
      | some r =>
        simp only [rbT, hrb, Option.bind_some, Option.isSome_some, if_true]
        cases ht : table p (some l) r with
        | none =>
          simp only
          rw [tglyphs_emitLeft]
          have hr := table_none_rule p hac _ _ ht
          have := InterpTR.noRule (.ch l, lg.isSome) (.rb, false) [] [] (by simp)
            (by show lookup p (elOf (some l)) .rb = none; rw [lookup_rb p (some l) r hrb]; exact hr)
            (interpTR_rb p)
          simpa [emitT] using this
        | some rep =>
          have := sem_bdryT p _ (some l) r rep hrb (table_some p _ _ _ ht) lg.isSome (by simp)
          simp only
          cases hl : rep.2.lig with
          | true =>
            simp only [if_true, tglyphs_append]
            rw [drainT]
            simpa [hl, lastT, tglyphs, Item.tglyph, elOf] using this
          | false =>
            simp only [Bool.false_eq_true, if_false]
            rw [drainT]
            simpa [hl, lastT, elOf] using this
    exact ⟨fun l => by simpa [untagged] using key l true none,
      fun x s => by simpa [untagged] using key x false (some s)⟩
  | cons r rest ih =>
    obtain ⟨ihA, ihB⟩ := ih
    refine ⟨?_, ?_⟩
    · intro l
      simp only [goL, untagged_cons, List.cons_append]
      cases ht : table p (some l) r with
      | none =>
        simp only
        have hr := table_none_rule p hac _ _ ht
        have := InterpTR.noRule (.ch l, false) (.ch r, false) (untagged rest ++ rbT p) _ (by simp)
          (by show lookup p (elOf (some l)) (.ch r) = none; rw [lookup_ch]; exact hr) (ihA r)
        simpa [emitT, tglyphs, emitLeft, Item.tglyph] using this
      | some rep =>
        simp only
        have hg := table_good p _ _ _ ht
        obtain ⟨items, hdr, _⟩ := drain_A' (some l) false rep.1 hg.first
        have hT := drainT (some l) false rep.1 none true
        have hs := sem_realT p _ (some l) r rep (table_some p _ _ _ ht) false false (untagged rest ++ rbT p)
        cases hl : rep.2.lig with
        | true =>
          simp only [if_true, tglyphs_append]
          rw [hT]
          have step : ∀ s', _ := fun s' =>
            hs (tglyphs (goL (table p) p.rb rest (some rep.2.c) false (some s'))) (by simp)
              (by simp only [hl, Bool.true_or]; exact ihB rep.2.c s')
          simp only [elOf] at step
          exact step _
        | false =>
          simp only [Bool.false_eq_true, if_false, tglyphs_append]
          rw [hT]
          simp only [hdr]
          have step := hs (tglyphs (goL (table p) p.rb rest (some rep.2.c) true none)) (by simp)
            (by simp only [hl, Bool.false_or]; exact ihA rep.2.c)
          simp only [elOf] at step
          exact step
    · intro x s
      simp only [goL, untagged_cons, List.cons_append]
      cases ht : table p (some x) r with
      | none =>
        simp only
        have hr := table_none_rule p hac _ _ ht
        have := InterpTR.noRule (.ch x, true) (.ch r, false) (untagged rest ++ rbT p) _ (by simp)
          (by show lookup p (elOf (some x)) (.ch r) = none; rw [lookup_ch]; exact hr) (ihA r)
        simpa [emitT, tglyphs, emitLeft, Item.tglyph] using this
      | some rep =>
        simp only
        have hg := table_good p _ _ _ ht
        obtain ⟨items, hdr, _⟩ := drain_B' (some x) false s rep.1 hg.first
        have hT := drainT (some x) false rep.1 (some s) false
        have hs := sem_realT p _ (some x) r rep (table_some p _ _ _ ht) true false (untagged rest ++ rbT p)
        cases hl : rep.2.lig with
        | true =>
          simp only [if_true, tglyphs_append]
          rw [hT]
          have step : ∀ s', _ := fun s' =>
            hs (tglyphs (goL (table p) p.rb rest (some rep.2.c) false (some s'))) (by simp)
              (by simp only [hl, Bool.true_or]; exact ihB rep.2.c s')
          simp only [elOf] at step
          exact step _
        | false =>
          have hc := hasCh_of_good hg hl
          simp only [Bool.false_eq_true, if_false, tglyphs_append]
          rw [hT]
          simp only [hdr, hc, if_true]
          have step := hs (tglyphs (goL (table p) p.rb rest (some rep.2.c) true none)) (by simp)
            (by simp only [hl, Bool.false_or]; exact ihA rep.2.c)
          simp only [elOf] at step
          exact step

theorem runM_semT (p : Program) (hac : acyclicB p = true) (w : List Nat) (hw : w ≠ []) :
    InterpTR p ((seqOf p w).map (fun e => (e, false))) (tglyphs (runM p w)) := by
  cases w with
  | nil => exact absurd rfl hw
  | cons r rest =>
    have hseq : (seqOf p (r :: rest)).map (fun e => (e, false))
        = (.lb, false) :: (.ch r, false) :: (untagged rest ++ rbT p) := by
      simp only [seqOf, untagged, rbT]
      cases p.rb <;> simp
    rw [hseq]
    simp only [runM, runCompiled, goL]
    cases ht : table p none r with
    | none =>
      simp only
      have hr := table_none_rule p hac _ _ ht
      have := InterpTR.noRule (.lb, false) (.ch r, false) (untagged rest ++ rbT p) _ (by simp)
        (by show lookup p (elOf none) (.ch r) = none; rw [lookup_ch]; exact hr) ((goL_semT p hac rest).1 r)
      simpa [emitT] using this
    | some rep =>
      simp only
      have hg := table_good p _ _ _ ht
      obtain ⟨items, hdr, _⟩ := drain_A' none false rep.1 hg.first
      have hT := drainT none false rep.1 none true
      have hs := sem_realT p _ none r rep (table_some p _ _ _ ht) false false (untagged rest ++ rbT p)
      cases hl : rep.2.lig with
      | true =>
        simp only [if_true, tglyphs_append]
        rw [hT]
        have step : ∀ s', _ := fun s' =>
          hs (tglyphs (goL (table p) p.rb rest (some rep.2.c) false (some s'))) (by simp)
            (by simp only [hl, Bool.true_or]; exact (goL_semT p hac rest).2 rep.2.c s')
        simp only [elOf] at step
        exact step _
      | false =>
        simp only [Bool.false_eq_true, if_false, tglyphs_append]
        rw [hT]
        simp only [hdr]
        have step := hs (tglyphs (goL (table p) p.rb rest (some rep.2.c) true none)) (by simp)
          (by simp only [hl, Bool.false_or]; exact (goL_semT p hac rest).1 rep.2.c)
        simp only [elOf] at step
        exact step

end C05

namespace C05

theorem interpT_succ (p : Program) : ∀ f s out, interpT p f s = some out → interpT p (f + 1) s = some out := by
  intro f
  induction f with
  | zero => intro s out h; simp [interpT] at h
  | succ f ih =>
    intro s out h
    match s with
    | [] => simpa [interpT] using h
    | [x] => simpa [interpT] using h
    | x :: y :: tail =>
      by_cases hx : x.1 = .rb
      · obtain ⟨e, b⟩ := x
        simp only at hx
        subst hx
        simpa [interpT] using h
      · rw [interpT_step p _ x y tail hx] at h ⊢
        cases hl : lookup p x.1 y.1 with
        | none =>
          simp only [hl] at h ⊢
          cases hi : interpT p f (y :: tail) with
          | none => simp [hi] at h
          | some o => rw [ih _ _ hi]; simpa [hi] using h
        | some op =>
          cases op with
          | kern k =>
            simp only [hl] at h ⊢
            cases hi : interpT p f (y :: tail) with
            | none => simp [hi] at h
            | some o => rw [ih _ _ hi]; simpa [hi] using h
          | lig z post =>
            simp only [hl] at h ⊢
            cases hi : interpT p f ((ligSeqT x y z post tail).drop post.abc.1) with
            | none => simp [hi] at h
            | some o => rw [ih _ _ hi]; simpa [hi] using h

theorem interpT_mono (p : Program) {f g : Nat} (hfg : f ≤ g) {s : List (El × Bool)} {out : List TGlyph}
    (h : interpT p f s = some out) : interpT p g s = some out := by
  induction hfg with
  | refl => exact h
  | step _ ih => exact interpT_succ p _ _ _ ih

theorem interpT_det (p : Program) {f g : Nat} {s : List (El × Bool)} {o o' : List TGlyph}
    (h : interpT p f s = some o) (h' : interpT p g s = some o') : o = o' := by
  have a := interpT_mono p (Nat.le_max_left f g) h
  have b := interpT_mono p (Nat.le_max_right f g) h'
  rw [a] at b; exact Option.some.inj b

end C05
