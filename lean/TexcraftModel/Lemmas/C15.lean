import TexcraftModel.Model.C15

/-! Helper lemmas for C15: the loop of `HBox::pack` computes the declarative totals. -/
namespace C15

theorem max0_nonneg (l : List Int) : 0 ≤ max0 l := by
  induction l with
  | nil => simp [max0]
  | cons x l ih => simp only [max0]; omega

theorem boxHeight_nonneg (l : List Item) : 0 ≤ boxHeight l := max0_nonneg _
theorem boxDepth_nonneg (l : List Item) : 0 ≤ boxDepth l := max0_nonneg _

theorem le_max0 (l : List Int) : ∀ x ∈ l, x ≤ max0 l := by
  induction l with
  | nil => simp
  | cons y l ih =>
    intro x hx
    simp only [max0]
    rcases List.mem_cons.mp hx with h | h
    · omega
    · have := ih x h; omega

theorem max0_attained (l : List Int) : max0 l = 0 ∨ max0 l ∈ l := by
  induction l with
  | nil => simp [max0]
  | cons y l ih =>
    simp only [max0]
    rcases Int.le_total y (max0 l) with h | h
    · rw [Int.max_eq_right h]
      rcases ih with h0 | hm
      · exact Or.inl h0
      · exact Or.inr (List.mem_cons_of_mem _ hm)
    · rw [Int.max_eq_left h]; exact Or.inr List.mem_cons_self

/-! ### one iteration -/

theorem step_natW (a : Acc) (i : Item) : (step a i).natW = a.natW + i.natWidth := by
  cases i with
  | char w h d => cases w <;> simp [step, Item.whd, fontWhd, Item.natWidth]
  | _ => simp [step, Item.whd, Item.natWidth]

theorem step_h (a : Acc) (i : Item) (ha : 0 ≤ a.h) : (step a i).h = max a.h i.boxHeight := by
  cases i with
  | char w h d =>
    cases w <;> cases h <;> simp [step, Item.whd, fontWhd, Item.boxHeight] <;> omega
  | _ => simp [step, Item.whd, Item.boxHeight] <;> omega

theorem step_d (a : Acc) (i : Item) (ha : 0 ≤ a.d) : (step a i).d = max a.d i.boxDepth := by
  cases i with
  | char w h d =>
    cases w <;> cases d <;> simp [step, Item.whd, fontWhd, Item.boxDepth] <;> omega
  | _ => simp [step, Item.whd, Item.boxDepth] <;> omega

theorem Totals.get_add (t : Totals) (o o' : Order) (v : Int) :
    (t.add o v).get o' = t.get o' + (if o = o' then v else 0) := by
  cases o <;> cases o' <;> simp [Totals.add, Totals.get]

theorem step_st (a : Acc) (i : Item) (o : Order) :
    (step a i).st.get o = a.st.get o + i.stretchAt o := by
  cases i with
  | char w h d => cases w <;> simp [step, Item.whd, fontWhd, Item.stretchAt]
  | glue g => simp [step, Item.whd, Item.stretchAt, Totals.get_add]
  | _ => simp [step, Item.whd, Item.stretchAt]

theorem step_sh (a : Acc) (i : Item) (o : Order) :
    (step a i).sh.get o = a.sh.get o + i.shrinkAt o := by
  cases i with
  | char w h d => cases w <;> simp [step, Item.whd, fontWhd, Item.shrinkAt]
  | glue g => simp [step, Item.whd, Item.shrinkAt, Totals.get_add]
  | _ => simp [step, Item.whd, Item.shrinkAt]

/-! ### the loop -/

theorem loop_natW (l : List Item) : ∀ a : Acc, (loop a l).natW = a.natW + natWidth l := by
  induction l with
  | nil => intro a; simp [loop, natWidth, sum]
  | cons i l ih =>
    intro a
    simp only [loop, ih, step_natW, natWidth, List.map, sum] at *
    omega

theorem loop_h (l : List Item) : ∀ a : Acc, 0 ≤ a.h → (loop a l).h = max a.h (boxHeight l) := by
  induction l with
  | nil => intro a ha; simp [loop, boxHeight, max0]; omega
  | cons i l ih =>
    intro a ha
    have h1 := step_h a i ha
    have h2 : 0 ≤ (step a i).h := by rw [h1]; omega
    simp only [loop, ih _ h2, h1, boxHeight, List.map, max0] at *
    omega

theorem loop_d (l : List Item) : ∀ a : Acc, 0 ≤ a.d → (loop a l).d = max a.d (boxDepth l) := by
  induction l with
  | nil => intro a ha; simp [loop, boxDepth, max0]; omega
  | cons i l ih =>
    intro a ha
    have h1 := step_d a i ha
    have h2 : 0 ≤ (step a i).d := by rw [h1]; omega
    simp only [loop, ih _ h2, h1, boxDepth, List.map, max0] at *
    omega

theorem loop_st (l : List Item) (o : Order) :
    ∀ a : Acc, (loop a l).st.get o = a.st.get o + totalStretch l o := by
  induction l with
  | nil => intro a; simp [loop, totalStretch, sum]
  | cons i l ih =>
    intro a
    simp only [loop, ih, step_st, totalStretch, List.map, sum] at *
    omega

theorem loop_sh (l : List Item) (o : Order) :
    ∀ a : Acc, (loop a l).sh.get o = a.sh.get o + totalShrink l o := by
  induction l with
  | nil => intro a; simp [loop, totalShrink, sum]
  | cons i l ih =>
    intro a
    simp only [loop, ih, step_sh, totalShrink, List.map, sum] at *
    omega

theorem dominating_eq (t : Totals) : t.dominating = texOrder t.get := by
  rfl

theorem texOrder_congr {f g : Order → Int} (h : ∀ o, f o = g o) : texOrder f = texOrder g := by
  simp [texOrder, h]

/-- The loop, started as `pack` starts it, computes TeX's totals. -/
theorem loop_init (l : List Item) :
    (loop {} l).natW = natWidth l ∧ (loop {} l).h = boxHeight l ∧ (loop {} l).d = boxDepth l ∧
    (∀ o, (loop {} l).st.get o = totalStretch l o) ∧ (∀ o, (loop {} l).sh.get o = totalShrink l o) := by
  refine ⟨?_, ?_, ?_, ?_, ?_⟩
  · rw [loop_natW]; simp
  · rw [loop_h _ _ (by decide)]; have := boxHeight_nonneg l; simp; omega
  · rw [loop_d _ _ (by decide)]; have := boxDepth_nonneg l; simp; omega
  · intro o; rw [loop_st]; cases o <;> simp [Totals.get]
  · intro o; rw [loop_sh]; cases o <;> simp [Totals.get]

/-- `hpack` is the tail of `pack` applied to TeX's quantities. -/
theorem hpack_eq (l : List Item) (pw : PackWidth) :
    hpack l pw =
      setGlue (boxHeight l) (boxDepth l) (natWidth l)
        (totalStretch l (texOrder (totalStretch l))) (texOrder (totalStretch l))
        (totalShrink l (texOrder (totalShrink l))) (texOrder (totalShrink l)) pw := by
  obtain ⟨h1, h2, h3, h4, h5⟩ := loop_init l
  unfold hpack finish
  simp only [dominating_eq, texOrder_congr h4, texOrder_congr h5, h1, h2, h3, h4, h5]

/-! ### the tail of `pack`, branch by branch -/

section setGlue
variable (h d n st : Int) (so : Order) (sh : Int) (sho : Order) (pw : PackWidth)

theorem setGlue_dims :
    (setGlue h d n st so sh sho pw).height = h ∧ (setGlue h d n st so sh sho pw).depth = d ∧
    (setGlue h d n st so sh sho pw).width = pw.width n := by
  unfold setGlue
  simp only []
  repeat' split
  all_goals exact ⟨rfl, rfl, rfl⟩

theorem setGlue_exact (hx : pw.width n - n = 0) :
    setGlue h d n st so sh sho pw = ⟨h, pw.width n, d, .normal, 0, 1⟩ := by
  simp [setGlue, hx]

theorem setGlue_stretch (hx : 0 < pw.width n - n) (hs : st ≠ 0) :
    setGlue h d n st so sh sho pw = ⟨h, pw.width n, d, so, pw.width n - n, st⟩ := by
  have h1 : ¬ pw.width n - n < 0 := by omega
  have h2 : ¬ pw.width n - n = 0 := by omega
  simp [setGlue, h1, h2, hs]

theorem setGlue_stretch_unset (hx : 0 < pw.width n - n) (hs : st = 0) :
    setGlue h d n st so sh sho pw = ⟨h, pw.width n, d, .normal, 0, 1⟩ := by
  have h1 : ¬ pw.width n - n < 0 := by omega
  have h2 : ¬ pw.width n - n = 0 := by omega
  simp [setGlue, h1, h2, hs]

theorem setGlue_overfull (hx : pw.width n - n < 0) (ho : sho = .normal) (hlt : sh < -(pw.width n - n))
    (hs : sh ≠ 0) : setGlue h d n st so sh sho pw = ⟨h, pw.width n, d, .normal, -ONE, ONE⟩ := by
  simp [setGlue, hx, ho, hlt, hs]

theorem setGlue_overfull_zero (hx : pw.width n - n < 0) (ho : sho = .normal)
    (hs : sh = 0) : setGlue h d n st so sh sho pw = ⟨h, pw.width n, d, .normal, 0, ONE⟩ := by
  simp [setGlue, hx, ho, hs]

theorem setGlue_shrink (hx : pw.width n - n < 0) (hno : ¬ (sho = .normal ∧ sh < -(pw.width n - n)))
    (hs : sh ≠ 0) : setGlue h d n st so sh sho pw = ⟨h, pw.width n, d, sho, pw.width n - n, sh⟩ := by
  simp [setGlue, hx, hno, hs]

theorem setGlue_shrink_unset (hx : pw.width n - n < 0) (hs : sh = 0) :
    setGlue h d n st so sh sho pw = ⟨h, pw.width n, d, sho, 0, ONE⟩ := by
  simp [setGlue, hx, hs]

end setGlue

/-! ### facts about TeX's order choice -/

theorem texOrder_zero (f : Order → Int) (h : f (texOrder f) = 0) : texOrder f = .normal := by
  unfold texOrder at *
  split at h <;> try contradiction
  split at h <;> try contradiction
  split at h <;> try contradiction
  simp_all

theorem texOrder_all_zero (f : Order → Int) (h : f (texOrder f) = 0) : ∀ o, f o = 0 := by
  unfold texOrder at h
  split at h <;> try contradiction
  split at h <;> try contradiction
  split at h <;> try contradiction
  intro o; cases o <;> simp_all

theorem texOrder_highest (f : Order → Int) : IsHighestNonzero f (texOrder f) := by
  unfold IsHighestNonzero texOrder
  by_cases h3 : f .filll = 0 <;> by_cases h2 : f .fill = 0 <;> by_cases h1 : f .fil = 0 <;>
    simp [h1, h2, h3] <;> (try (intro o'; cases o' <;> simp_all [Order.toNat])) <;>
    (try (by_cases h0 : f .normal = 0 <;> simp [h0]))

/-- The six ways `pack` can end, with the box it returns, in TeX's quantities. -/
theorem hpack_cases (l : List Item) (pw : PackWidth) :
    (excess l pw = 0 ∧
      hpack l pw = ⟨boxHeight l, pw.width (natWidth l), boxDepth l, .normal, 0, 1⟩) ∨
    (0 < excess l pw ∧ totalStretch l (texOrder (totalStretch l)) ≠ 0 ∧
      hpack l pw = ⟨boxHeight l, pw.width (natWidth l), boxDepth l, texOrder (totalStretch l),
        excess l pw, totalStretch l (texOrder (totalStretch l))⟩) ∨
    (0 < excess l pw ∧ (∀ o, totalStretch l o = 0) ∧
      hpack l pw = ⟨boxHeight l, pw.width (natWidth l), boxDepth l, .normal, 0, 1⟩) ∨
    (excess l pw < 0 ∧ texOrder (totalShrink l) = .normal ∧ totalShrink l .normal < -excess l pw ∧
      totalShrink l .normal ≠ 0 ∧
      hpack l pw = ⟨boxHeight l, pw.width (natWidth l), boxDepth l, .normal, -ONE, ONE⟩) ∨
    (excess l pw < 0 ∧ (∀ o, totalShrink l o = 0) ∧
      hpack l pw = ⟨boxHeight l, pw.width (natWidth l), boxDepth l, .normal, 0, ONE⟩) ∨
    (excess l pw < 0 ∧ ¬ (texOrder (totalShrink l) = .normal ∧ totalShrink l .normal < -excess l pw) ∧
      totalShrink l (texOrder (totalShrink l)) ≠ 0 ∧
      hpack l pw = ⟨boxHeight l, pw.width (natWidth l), boxDepth l, texOrder (totalShrink l),
        excess l pw, totalShrink l (texOrder (totalShrink l))⟩) := by
  rw [hpack_eq]
  unfold excess
  rcases Int.lt_trichotomy (pw.width (natWidth l) - natWidth l) 0 with hx | hx | hx
  · by_cases hs : totalShrink l (texOrder (totalShrink l)) = 0
    · have ho := texOrder_zero _ hs
      have hall := texOrder_all_zero _ hs
      right; right; right; right; left
      exact ⟨hx, hall, setGlue_overfull_zero _ _ _ _ _ _ _ _ hx ho hs⟩
    · by_cases hov : texOrder (totalShrink l) = .normal ∧
          totalShrink l (texOrder (totalShrink l)) < -(pw.width (natWidth l) - natWidth l)
      · right; right; right; left
        have ho := hov.1
        have hlt := hov.2
        rw [ho] at hlt hs
        refine ⟨hx, ho, hlt, hs, ?_⟩
        have := setGlue_overfull (boxHeight l) (boxDepth l) (natWidth l)
          (totalStretch l (texOrder (totalStretch l))) (texOrder (totalStretch l))
          (totalShrink l (texOrder (totalShrink l))) (texOrder (totalShrink l)) pw hx ho hov.2
          (by rw [ho]; exact hs)
        exact this
      · right; right; right; right; right
        refine ⟨hx, ?_, hs, setGlue_shrink _ _ _ _ _ _ _ _ hx hov hs⟩
        intro hc
        apply hov
        refine ⟨hc.1, ?_⟩
        rw [hc.1]; exact hc.2
  · left
    exact ⟨hx, setGlue_exact _ _ _ _ _ _ _ _ hx⟩
  · by_cases hs : totalStretch l (texOrder (totalStretch l)) = 0
    · right; right; left
      exact ⟨hx, texOrder_all_zero _ hs, setGlue_stretch_unset _ _ _ _ _ _ _ _ hx hs⟩
    · right; left
      exact ⟨hx, hs, setGlue_stretch _ _ _ _ _ _ _ _ hx hs⟩

theorem sum_map_zero (l : List Item) (f : Item → Int) (h : ∀ i ∈ l, f i = 0) : sum (l.map f) = 0 := by
  induction l with
  | nil => simp [sum]
  | cons i l ih =>
    simp only [List.map, sum]
    rw [h i List.mem_cons_self, ih (fun j hj => h j (List.mem_cons_of_mem _ hj))]; rfl

theorem totalShrink_nil (o : Order) : totalShrink [] o = 0 := by simp [totalShrink, sum]

theorem natWidth_append (l₁ l₂ : List Item) : natWidth (l₁ ++ l₂) = natWidth l₁ + natWidth l₂ := by
  induction l₁ with
  | nil => simp [natWidth, sum]
  | cons i l ih => simp only [natWidth, List.cons_append, List.map, sum] at *; omega

end C15
