/-
C11 — after normalisation every step is reachable, and the result is a well-formed
PL-level program (`wf`): the output of the TFM→PL direction is a fixed point candidate.
-/
import TexcraftModel.Model.C11
import TexcraftModel.Model.C11Norm
import TexcraftModel.Lemmas.C11Chain
import TexcraftModel.Lemmas.C11Norm

namespace C11

/-- Marks of a PL-level program: every label and the boundary label (no "last word" quirk:
the PL-level program has no trailing boundary word). -/
def plainMarks (p : Prog) (es : List (Nat × Nat)) : List Nat := es.map (·.2) ++ p.lb.toList

/-- Every step of the PL-level program is reachable from a label. -/
def AllReach (p : Prog) (es : List (Nat × Nat)) : Prop :=
  reachFrom (plainMarks p es) p.instrs = List.replicate p.instrs.length true

theorem countTrue_take_succ (fl : List Bool) (r : Bool) (k : Nat) :
    countTrue ((r :: fl).take (k + 1)) = (if r then 1 else 0) + countTrue (fl.take k) := by
  cases r <;> simp [countTrue] <;> omega

theorem cnt_succ_true (fl : List Bool) (k : Nat) :
    countTrue ((true :: fl).take (k + 1)) = countTrue (fl.take k) + 1 := by simp [countTrue]

theorem cnt_succ_false (fl : List Bool) (k : Nat) :
    countTrue ((false :: fl).take (k + 1)) = countTrue (fl.take k) := by simp [countTrue]

theorem compact_length : ∀ (l : List Instr) (fl : List Bool), fl.length = l.length →
    noReachRedirect l fl = true → (compact l fl).length = countTrue fl := by
  intro l
  induction l with
  | nil => intro fl hl _; cases fl <;> simp_all [compact, countTrue]
  | cons i rest ih =>
    intro fl hl hnr
    cases fl with
    | nil => simp at hl
    | cons f fl' =>
      obtain ⟨h1, h2⟩ := noReachRedirect_cons hnr
      have := ih fl' (by simpa using hl) h2
      cases f with
      | false => simp [compact, countTrue, this]
      | true => simp [compact, countTrue, this, h1 rfl]

theorem shift_map_true (marks : List Nat) (fl1 : List Bool) :
    ((marks.map fun m => countTrue ((true :: fl1).take m)).filter (· ≠ 0)).map (· - 1)
      = ((marks.filter (· ≠ 0)).map (· - 1)).map (fun m => countTrue (fl1.take m)) := by
  rw [List.filter_map, List.map_map, List.map_map]
  have hf : (marks.filter ((fun x => decide (x ≠ 0)) ∘ fun m => countTrue ((true :: fl1).take m)))
      = marks.filter (fun x => decide (x ≠ 0)) := by
    apply List.filter_congr
    intro m _
    cases m with
    | zero => simp [countTrue]
    | succ k => simp only [Function.comp, cnt_succ_true]; simp
  rw [hf]
  apply List.map_congr_left
  intro m hm
  have hm0 : m ≠ 0 := by simpa using (List.mem_filter.mp hm).2
  obtain ⟨k, rfl⟩ := Nat.exists_eq_succ_of_ne_zero hm0
  simp only [Function.comp, cnt_succ_true]
  simp

theorem shift_map_false (marks : List Nat) (fl1 : List Bool) (h0 : (0 : Nat) ∉ marks) :
    (marks.map fun m => countTrue ((false :: fl1).take m))
      = ((marks.filter (· ≠ 0)).map (· - 1)).map (fun m => countTrue (fl1.take m)) := by
  have hfilt : marks.filter (fun x => decide (x ≠ 0)) = marks := by
    apply List.filter_eq_self.mpr
    intro m hm
    have : m ≠ 0 := fun h => h0 (h ▸ hm)
    simpa using this
  rw [List.map_map, hfilt]
  apply List.map_congr_left
  intro m hm
  have hm0 : m ≠ 0 := fun h => h0 (h ▸ hm)
  obtain ⟨k, rfl⟩ := Nat.exists_eq_succ_of_ne_zero hm0
  simp only [Function.comp, cnt_succ_false]
  simp

/-- The simulation: running `reachable_array` on the compacted list, from the images of the
marks, marks everything. -/
theorem reach_compact : ∀ (l : List Instr) (marks : List Nat), closed l = true →
    noReachRedirect l (reachFrom marks l) = true →
    reachFrom (marks.map (fun m => countTrue ((reachFrom marks l).take m))) (compact l (reachFrom marks l)) =
      List.replicate (compact l (reachFrom marks l)).length true := by
  intro l
  induction l with
  | nil => intro marks _ _; simp [reachFrom, compact]
  | cons i rest ih =>
    intro marks hc hnr
    obtain ⟨hnext, hcrest⟩ := closed_cons hc
    by_cases hr : marks.contains 0 = true
    · -- the head is reachable: it is emitted, and its SKIP is renumbered
      have h0 : (0 : Nat) ∈ marks := by simpa [List.contains_iff_mem] using hr
      cases hn : i.next with
      | none =>
        simp only [reachFrom, hr, if_true, hn] at hnr ⊢
        obtain ⟨hnr1, hnr2⟩ := noReachRedirect_cons hnr
        have hop := hnr1 rfl
        simp only [compact, hop, Bool.not_false, Bool.and_self, if_true, List.singleton_append, reachFrom,
          List.length_cons, List.replicate_succ, hn]
        have hc0 : (marks.map fun m => countTrue ((true :: reachFrom ((marks.filter (· ≠ 0)).map (· - 1)) rest).take m)).contains 0 = true := by
          simp only [List.contains_iff_mem, List.mem_map]
          exact ⟨0, h0, by simp [countTrue]⟩
        simp only [hc0, if_true, List.cons.injEq, true_and]
        have hon : outNext none (reachFrom ((marks.filter (· ≠ 0)).map (· - 1)) rest) = none := by
          simp [outNext, adjSkip]
        simp only [hon, shift_map_true]
        exact ih _ hcrest hnr2
      | some inc =>
        simp only [reachFrom, hr, if_true, hn] at hnr ⊢
        obtain ⟨hnr1, hnr2⟩ := noReachRedirect_cons hnr
        have hop := hnr1 rfl
        have hlt := hnext inc hn
        have hlen1 := reachFrom_length rest (inc :: (marks.filter (· ≠ 0)).map (· - 1))
        simp only [compact, hop, Bool.not_false, Bool.and_self, if_true, List.singleton_append, reachFrom,
          List.length_cons, List.replicate_succ, hn]
        have hc0 : (marks.map fun m => countTrue ((true :: reachFrom (inc :: (marks.filter (· ≠ 0)).map (· - 1)) rest).take m)).contains 0 = true := by
          simp only [List.contains_iff_mem, List.mem_map]
          exact ⟨0, h0, by simp [countTrue]⟩
        simp only [hc0, if_true, List.cons.injEq, true_and]
        rw [outNext_some rest _ inc hlen1 hnr2 hlt, posOf_eq_count rest _ inc hlen1 hnr2 (Nat.le_of_lt hlt)]
        simp only [shift_map_true]
        have := ih (inc :: (marks.filter (· ≠ 0)).map (· - 1)) hcrest hnr2
        simpa using this
    · -- the head is dropped
      have hr' : marks.contains 0 = false := by simpa using hr
      have h0 : (0 : Nat) ∉ marks := by simpa [List.contains_iff_mem] using hr'
      simp only [reachFrom, hr', Bool.false_eq_true, if_false] at hnr ⊢
      obtain ⟨_, hnr2⟩ := noReachRedirect_cons hnr
      simp only [compact, Bool.false_and, Bool.false_eq_true, if_false, List.nil_append]
      rw [shift_map_false marks _ h0]
      exact ih _ hcrest hnr2

/-! ### The normalised program: every step reachable, well-formed -/

theorem reachFrom_cons (marks : List Nat) (i : Instr) (rest : List Instr) :
    reachFrom marks (i :: rest) = marks.contains 0 ::
      reachFrom (if marks.contains 0 then
        (match i.next with
          | some inc => inc :: (marks.filter (· ≠ 0)).map (· - 1)
          | none => (marks.filter (· ≠ 0)).map (· - 1))
        else (marks.filter (· ≠ 0)).map (· - 1)) rest := rfl

theorem reachFrom_fixLast : ∀ (l : List Instr) (marks : List Nat), reachFrom marks (fixLast l) = reachFrom marks l := by
  intro l
  induction l with
  | nil => intro marks; rfl
  | cons a t ih =>
    intro marks
    cases t with
    | nil => simp [fixLast, reachFrom]
    | cons b t' =>
      rw [show fixLast (a :: b :: t') = a :: fixLast (b :: t') from rfl, reachFrom_cons, reachFrom_cons, ih]

theorem closed_fixLast : ∀ (l : List Instr), closed l = true → fixLast l = l := by
  intro l
  induction l with
  | nil => intro _; rfl
  | cons a t ih =>
    intro hc
    obtain ⟨hnext, hct⟩ := closed_cons hc
    cases t with
    | nil =>
      simp only [fixLast]
      by_cases h : a.next = some 0
      · have := hnext 0 h; simp at this
      · simp [h]
    | cons b t' =>
      simp only [fixLast]
      rw [ih hct]

theorem count_take_lt : ∀ (fl : List Bool) (e : Nat), fl[e]? = some true → countTrue (fl.take e) < countTrue fl := by
  intro fl
  induction fl with
  | nil => intro e h; simp at h
  | cons f t ih =>
    intro e h
    cases e with
    | zero =>
      have : f = true := by simpa using h
      subst this
      simp [countTrue]
    | succ k =>
      have h' : t[k]? = some true := by simpa using h
      have := ih k h'
      cases f
      · rw [cnt_succ_false]; simpa [countTrue] using this
      · rw [cnt_succ_true]; simp only [countTrue]; omega

theorem noRedirect_compact : ∀ (l : List Instr) (fl : List Bool), noRedirect (compact l fl) = true := by
  intro l
  induction l with
  | nil => intro fl; simp [compact, noRedirect]
  | cons i rest ih =>
    intro fl
    cases fl with
    | nil => simp [compact, noRedirect]
    | cons f fl' =>
      have := ih fl'
      simp only [noRedirect, List.all_eq_true] at this ⊢
      intro x hx
      simp only [compact, List.mem_append] at hx
      rcases hx with hx | hx
      · split at hx
        · rename_i hem
          simp only [List.mem_singleton] at hx
          subst hx
          simp only [Bool.and_eq_true, Bool.not_eq_true'] at hem
          simp [hem.2]
        · simp at hx
      · exact this x hx

theorem closed_compact : ∀ (l : List Instr) (fl : List Bool), fl.length = l.length → closed l = true →
    RClosed l fl → noReachRedirect l fl = true → closed (compact l fl) = true := by
  intro l
  induction l with
  | nil => intro fl _ _ _ _; cases fl <;> simp [compact, closed]
  | cons i rest ih =>
    intro fl hl hc hrc hnr
    cases fl with
    | nil => simp at hl
    | cons f fl' =>
      have hl' : fl'.length = rest.length := by simpa using hl
      obtain ⟨hnext, hcrest⟩ := closed_cons hc
      obtain ⟨hnr1, hnr2⟩ := noReachRedirect_cons hnr
      simp only [RClosed] at hrc
      obtain ⟨hrc1, hrc2⟩ := hrc
      have ihr := ih fl' hl' hcrest hrc2 hnr2
      simp only [compact]
      by_cases hem : (f && !i.op.isRedirect) = true
      · have hf : f = true := by
          simp only [Bool.and_eq_true] at hem; exact hem.1
        simp only [hem, if_true, List.singleton_append, closed, ihr, Bool.and_true]
        cases hn : i.next with
        | none => simp [outNext, adjSkip]
        | some inc =>
          have hlt := hnext inc hn
          rw [outNext_some rest fl' inc hl' hnr2 hlt, posOf_eq_count rest fl' inc hl' hnr2 (Nat.le_of_lt hlt)]
          simp only [decide_eq_true_eq]
          rw [compact_length rest fl' hl' hnr2]
          exact count_take_lt fl' inc (hrc1 hf inc hn hlt)
      · simp only [hem, Bool.false_eq_true, if_false, List.nil_append]
        exact ihr

/-- **The normalised program is a well-formed PL-level program in which every step is
reachable from a label**, and its labels are the images of the original entry points. -/
theorem normalise_wf_allReach {p : Prog} {es : List (Nat × Nat)} (h : nwf p es = true) :
    wf (normalise p es).1 (normalise p es).2 = true ∧ AllReach (normalise p es).1 (normalise p es).2 ∧
      (normalise p es).2.map (·.1) = es.map (·.1) := by
  obtain ⟨hcl, hent, hlb, hnr⟩ := nwf_parts h
  obtain ⟨hre, hrl⟩ := entry_reach h
  have hlen : (reachable p es).length = p.instrs.length := reachFrom_length _ _
  have hrc : RClosed p.instrs (reachable p es) := reachFrom_closed _ _
  have hcc := closed_compact _ _ hlen hcl hrc hnr
  have hfix : fixLast (compact p.instrs (reachable p es)) = compact p.instrs (reachable p es) := closed_fixLast _ hcc
  have hclen := compact_length _ _ hlen hnr
  have hpos : ∀ e, e < p.instrs.length →
      posOf p.instrs (reachable p es) e = countTrue ((reachable p es).take e) :=
    fun e he => posOf_eq_count _ _ e hlen hnr (Nat.le_of_lt he)
  have hes : (normalise p es).2 = es.map (fun ce => (ce.1, posOf p.instrs (reachable p es) ce.2)) := by
    simp only [normalise]
    apply filterMap_all_some
    intro ce hce
    simp [isReach, hre ce hce]
  have hlbN : (normalise p es).1.lb = p.lb.map (posOf p.instrs (reachable p es)) := by
    simp only [normalise]
    cases hl : p.lb with
    | none => rfl
    | some l => simp [isReach, hrl l hl]
  have hinstr : (normalise p es).1.instrs = compact p.instrs (reachable p es) := by
    simp only [normalise, hfix]
  refine ⟨?_, ?_, ?_⟩
  · -- wf
    simp only [wf, Bool.and_eq_true, List.all_eq_true, decide_eq_true_eq]
    refine ⟨⟨⟨?_, ?_⟩, ?_⟩, ?_⟩
    · rw [hinstr]; exact noRedirect_compact _ _
    · rw [hinstr]; exact hcc
    · intro ce hce
      rw [hes] at hce
      simp only [List.mem_map] at hce
      obtain ⟨ce0, hce0, rfl⟩ := hce
      rw [hinstr, hclen, hpos _ (hent ce0 hce0)]
      exact count_take_lt _ _ (hre ce0 hce0)
    · rw [hlbN]
      cases hl : p.lb with
      | none => simp
      | some l =>
        have hl1 := hlb l hl
        simp only [Option.map_some, decide_eq_true_eq]
        rw [hinstr, hclen, hpos _ (by omega)]
        exact count_take_lt _ _ (hrl l hl)
  · -- every step reachable
    simp only [AllReach, plainMarks]
    rw [hinstr, hes, hlbN]
    have hsm : startMarks p es = es.map (·.2) ++ p.lb.toList := by
      simp only [startMarks]
      cases hl : p.lb with
      | none => rfl
      | some l =>
        have hl1 := hlb l hl
        have hne : ¬ l + 1 = p.instrs.length := by omega
        simp [hne]
    have hmarks : (es.map (fun ce => (ce.1, posOf p.instrs (reachable p es) ce.2))).map (·.2) ++
        (p.lb.map (posOf p.instrs (reachable p es))).toList
        = (startMarks p es).map (fun m => countTrue ((reachFrom (startMarks p es) p.instrs).take m)) := by
      have h1 : (es.map (fun ce => (ce.1, posOf p.instrs (reachable p es) ce.2))).map (·.2) ++
          (p.lb.map (posOf p.instrs (reachable p es))).toList
          = (startMarks p es).map (posOf p.instrs (reachable p es)) := by
        rw [hsm]
        cases p.lb <;> simp [List.map_map, Function.comp_def]
      rw [h1]
      apply List.map_congr_left
      intro m hm
      have hmlt : m < p.instrs.length := by
        rw [hsm] at hm
        rcases List.mem_append.mp hm with hm | hm
        · obtain ⟨ce, hce, rfl⟩ := List.mem_map.mp hm
          exact hent ce hce
        · cases hl : p.lb with
          | none => simp [hl] at hm
          | some l =>
            simp only [hl, Option.toList_some, List.mem_singleton] at hm
            have := hlb l hl
            omega
      exact hpos m hmlt
    rw [hmarks]
    exact reach_compact p.instrs (startMarks p es) hcl hnr
  · rw [hes]; simp [List.map_map, Function.comp_def]

end C11
