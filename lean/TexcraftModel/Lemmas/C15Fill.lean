import TexcraftModel.Model.C15
import TexcraftModel.Lemmas.C15

/-! C15: applying the ratio node by node; the `<=` variant of the overfull test. -/
namespace C15

/-- The set widths add up to `natural·den + num·total[order]`. -/
theorem sum_setWidth (l : List Item) (b : HBox) (st : Bool) :
    sum (l.map (Item.setWidthTimesDen b st)) =
      natWidth l * b.den + b.num * (if st then totalStretch l b.order else totalShrink l b.order) := by
  induction l with
  | nil => cases st <;> simp [sum, natWidth, totalStretch, totalShrink]
  | cons i l ih =>
    cases st <;>
      simp only [List.map, sum, natWidth, totalStretch, totalShrink, Item.setWidthTimesDen,
        Bool.false_eq_true, if_false, if_true, Int.add_mul, Int.mul_add] at * <;>
      omega

theorem fill_key (n w t : Int) : n * t + (w - n) * t = w * t := by
  rw [← Int.add_mul]; congr 1; omega

section
variable (h d n st : Int) (so : Order) (sh : Int) (sho : Order) (pw : PackWidth)

/-- `setGlueLe` differs from `setGlue` only at the boundary `shrink = -excess`, order normal. -/
theorem setGlueLe_eq :
    setGlueLe h d n st so sh sho pw =
      if pw.width n - n < 0 ∧ sho = .normal ∧ sh = -(pw.width n - n) then
        ⟨h, pw.width n, d, .normal, -ONE, ONE⟩
      else setGlue h d n st so sh sho pw := by
  unfold setGlueLe setGlue
  simp only []
  by_cases hx : pw.width n - n < 0
  · by_cases ho : sho = .normal
    · by_cases he : sh = -(pw.width n - n)
      · subst he
        have h2 : ¬ -(pw.width n - n) = 0 := by omega
        simp [hx, ho, h2]
      · by_cases hl : sh < -(pw.width n - n)
        · have h1 : sh ≤ -(pw.width n - n) := by omega
          simp [hx, ho, he, hl, h1]
        · have h1 : ¬ sh ≤ -(pw.width n - n) := by omega
          simp [hx, ho, he, hl, h1]
    · simp [hx, ho]
  · simp [hx]

end

end C15
