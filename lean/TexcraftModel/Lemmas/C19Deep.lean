import TexcraftModel.Model.C19
import TexcraftModel.Lemmas.C19

/-! C19, deepening round: exact characterisations of the two pinned deviations, and the
input-stack view of `\input` inside a macro. -/

namespace C19

/-! ### C19-b exactly: the model's `\read` is TeX's, except that a stream left with no real
line is closed at once -/

theorem readFile_eq_closeEmpty_tex : ∀ (ls : List TLine) (d : Nat) (acc : List Tok), ls ≠ [] →
    readFile ls d acc = closeEmpty (texReadFile ls d acc) := by
  intro ls
  induction ls with
  | nil => intro d acc h; exact absurd rfl h
  | cons l ls ih =>
    intro d acc _
    simp only [readFile, texReadFile]
    cases hsc : scanLine l d acc with
    | cut acc' =>
      cases ls with
      | nil => simp [closeEmpty]
      | cons l2 ls2 => simp [closeEmpty]
    | eol acc' d' =>
      cases ls with
      | nil =>
        by_cases hz : d' = 0
        · simp [hz, closeEmpty]
        · have : d' > 0 := by omega
          simp [hz, this, texReadFile, closeEmpty]
      | cons l2 ls2 =>
        by_cases hz : d' = 0
        · simp [hz, closeEmpty]
        · simp only [hz, if_false]
          exact ih d' acc' (by simp)

/-! ### C19-a exactly: the machine is TeX on the program in which the rest of every
`\endinput` line has been deleted -/

theorem denAtoms_ended (denF : Nat → List Tok) : ∀ (b : List Atom),
    (denAtoms denF b).2 = !noEndAtoms b := by
  intro b
  induction b with
  | nil => rfl
  | cons a r ih =>
    cases a with
    | tok t => simp [denAtoms, noEndAtoms, ih]
    | input f => simp [denAtoms, noEndAtoms, ih]
    | endinput => simp [denAtoms, noEndAtoms]

theorem denItems_trunc (denF : Nat → List Tok) : ∀ (l : List Item),
    denItems false denF l = denItems true denF (truncItems l) := by
  intro l
  induction l with
  | nil => rfl
  | cons it r ih =>
    cases it with
    | atom a =>
      cases a with
      | tok t => simp [truncItems, denItems, ih]
      | input f => simp [truncItems, denItems, ih]
      | endinput => simp [truncItems, denItems]
    | call body =>
      have hb := denAtoms_ended denF body
      cases hn : noEndAtoms body with
      | true =>
        simp only [hn, Bool.not_true] at hb
        simp [truncItems, hn, denItems, hb, ih]
      | false =>
        simp only [hn, Bool.not_false] at hb
        simp [truncItems, hn, denItems, hb]

theorem denLines_trunc (denF : Nat → List Tok) : ∀ (ls : List Line),
    denLines false denF ls = denLines true denF (truncLines ls) := by
  intro ls
  induction ls with
  | nil => rfl
  | cons l r ih =>
    have := ih
    simp only [truncLines] at this ⊢
    simp [denLines, denItems_trunc denF l, this]

theorem lookup_truncFS : ∀ (fs : FS) (f : Nat), lookup (truncFS fs) f = (lookup fs f).map truncLines := by
  intro fs
  induction fs with
  | nil => intro f; rfl
  | cons p r ih =>
    intro f
    obtain ⟨g, file⟩ := p
    simp only [truncFS, lookup]
    by_cases hg : g = f
    · simp [hg]
    · simp [hg, ih]

theorem denFile_trunc (fs : FS) : ∀ d, denFile false fs d = denFile true (truncFS fs) d := by
  intro d
  induction d with
  | zero => funext f; simp [denFile]
  | succ d ih =>
    funext f
    simp only [denFile, lookup_truncFS]
    cases lookup fs f with
    | none => rfl
    | some file => simp [ih, denLines_trunc]

theorem endLast_truncItems : ∀ (l : List Item), endLastItems (truncItems l) = true := by
  intro l
  induction l with
  | nil => rfl
  | cons it r ih =>
    cases it with
    | atom a =>
      cases a with
      | tok t => simpa [truncItems, endLastItems] using ih
      | input f => simpa [truncItems, endLastItems] using ih
      | endinput => simp [truncItems, endLastItems]
    | call body =>
      cases hn : noEndAtoms body with
      | true => simp [truncItems, hn, endLastItems, ih]
      | false => simp [truncItems, hn, endLastItems]

theorem endLast_truncLines : ∀ (ls : List Line), endLastLines (truncLines ls) = true := by
  intro ls
  induction ls with
  | nil => rfl
  | cons l r ih =>
    have := ih
    simp only [truncLines] at this ⊢
    simp [endLastLines, endLast_truncItems, this]

/-! ### The input stack: `\input` among pending macro tokens -/

theorem input_among_pending (fs : FS) (d N : Nat) (hN : 1 ≤ N) (hle : N + (d + 1) ≤ 100)
    (f : Nat) (hf : wfFile fs (d + 1) f = true)
    (p : List Atom) (cur : List Item) (rest : List Line) (below : List Source) (out : List Tok)
    (hlen : below.length = N) :
    Reaches fs ⟨⟨.input f :: p, cur, rest⟩ :: below, out, .running⟩
      ⟨⟨p, cur, rest⟩ :: below, out ++ denFile false fs (d + 1) f, .running⟩ := by
  obtain ⟨hN99, file, hfile, hreach⟩ := src_run_depth fs (d + 1) N hN hle f hf
  apply Reaches.step
  have h1 := hreach (⟨p, cur, rest⟩ :: below) out (by simp [hlen])
  have hd : ¬ (below.length + 1 > maxSources) := by simp [maxSources]; omega
  simpa [step, exec, hfile, hd] using h1

end C19
