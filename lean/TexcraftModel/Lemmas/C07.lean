import TexcraftModel.Model.C07

/-! # C07 — helper lemmas (conditions, step lemmas of the state machine, skipping) -/
namespace C07

/-! ## Conditions -/

theorem tmod_two (n : Int) : n.tmod 2 = if 0 ≤ n then n % 2 else -((-n) % 2) := by
  split
  · next h => exact Int.tmod_eq_emod_of_nonneg h
  · next h =>
    have : n = -(-n) := by omega
    rw [this, Int.neg_tmod, Int.tmod_eq_emod_of_nonneg (by omega)]
    simp

theorem ifodd_iff (n : Int) : ifodd n = true ↔ n % 2 ≠ 0 := by
  unfold ifodd
  simp only [bne_iff_ne, ne_eq, tmod_two]
  split <;> omega

theorem ifoddPre_iff (n : Int) : ifoddPreFix n = true ↔ (0 ≤ n ∧ n % 2 ≠ 0) := by
  unfold ifoddPreFix
  simp only [beq_iff_eq, tmod_two]
  split <;> omega

theorem ifnum_lt (a b : Int) : ifnum a .lt b = true ↔ a < b := by
  unfold ifnum
  rcases Int.lt_trichotomy a b with h | h | h
  · simp [Int.compare_eq_lt.2 h, h]
  · subst h; simp
  · simp [Int.compare_eq_gt.2 h]; omega
theorem ifnum_eq (a b : Int) : ifnum a .eq b = true ↔ a = b := by
  unfold ifnum
  rcases Int.lt_trichotomy a b with h | h | h
  · simp [Int.compare_eq_lt.2 h]; omega
  · subst h; simp
  · simp [Int.compare_eq_gt.2 h]; omega
theorem ifnum_gt (a b : Int) : ifnum a .gt b = true ↔ a > b := by
  unfold ifnum
  rcases Int.lt_trichotomy a b with h | h | h
  · simp [Int.compare_eq_lt.2 h]; omega
  · subst h; simp
  · simp [Int.compare_eq_gt.2 h, h]

theorem evalTest_holds (c : Test) : evalTest c = true ↔ c.holds := by
  cases c with
  | tt => simp [evalTest, Test.holds]
  | ff => simp [evalTest, Test.holds]
  | odd n =>
    simp only [evalTest, Test.holds, ifodd_iff]
    constructor
    · intro h hd; omega
    · intro h h0; exact h (Int.dvd_of_emod_eq_zero h0)
  | num a r b =>
    cases r
    · simpa [evalTest, Test.holds] using ifnum_lt a b
    · simpa [evalTest, Test.holds] using ifnum_eq a b
    · simpa [evalTest, Test.holds] using ifnum_gt a b

/-! ## The state machine: step lemmas for the skipping loops -/

/-- The four loops that skip to a `\fi`, as functions of their depth counter. -/
def IsSkip (mk : Int → Mode) : Prop :=
  mk = Mode.skipFalse ∨ (∃ left, mk = Mode.skipCase left) ∨ mk = Mode.skipOr ∨ mk = Mode.skipElse

theorem run_nil (s : St) : run s [] = finish s := rfl

theorem run_cons (s : St) (t : Tok) (ts : List Tok) :
    run s (t :: ts) = match step s t with | .ok s' => run s' ts | .error e => .error e := rfl

theorem step_skip_plain {mk} (h : IsSkip mk) (st g o) (d : Int) (p : Plain) :
    step ⟨st, mk d, g, o⟩ p.tok = .ok ⟨st, mk d, g, o⟩ := by
  rcases h with rfl | ⟨l, rfl⟩ | rfl | rfl <;> cases p <;> rfl

theorem step_skip_iff {mk} (h : IsSkip mk) (st g o) (d : Int) (c : Test) :
    step ⟨st, mk d, g, o⟩ (.iff c) = .ok ⟨st, mk (d + 1), g, o⟩ := by
  rcases h with rfl | ⟨l, rfl⟩ | rfl | rfl <;> rfl

theorem step_skip_ifcase {mk} (h : IsSkip mk) (st g o) (d : Int) (n : Int) :
    step ⟨st, mk d, g, o⟩ (.ifcase n) = .ok ⟨st, mk (d + 1), g, o⟩ := by
  rcases h with rfl | ⟨l, rfl⟩ | rfl | rfl <;> rfl

theorem step_skip_fi {mk} (h : IsSkip mk) (st g o) (d : Int) (hd : 0 ≤ d) :
    step ⟨st, mk (d + 1), g, o⟩ .fi = .ok ⟨st, mk d, g, o⟩ := by
  have h1 : ¬ (d + 1 - 1 < 0) := by omega
  have h2 : d + 1 - 1 = d := by omega
  rcases h with rfl | ⟨l, rfl⟩ | rfl | rfl <;> simp [step, fiClause, h2] <;> exact hd

theorem step_skip_fi0 {mk} (h : IsSkip mk) (st g o) :
    step ⟨st, mk 0, g, o⟩ .fi = .ok ⟨st, .deliver, g, o⟩ := by
  rcases h with rfl | ⟨l, rfl⟩ | rfl | rfl <;> simp [step, fiClause]

theorem step_skip_els {mk} (h : IsSkip mk) (st g o) (d : Int) (hd : 0 ≤ d) :
    step ⟨st, mk (d + 1), g, o⟩ .els = .ok ⟨st, mk (d + 1), g, o⟩ := by
  have h1 : ¬ (d + 1 = 0) := by omega
  rcases h with rfl | ⟨l, rfl⟩ | rfl | rfl <;> simp [step, h1]

theorem step_skip_orr {mk} (h : IsSkip mk) (st g o) (d : Int) (hd : 0 ≤ d) :
    step ⟨st, mk (d + 1), g, o⟩ .orr = .ok ⟨st, mk (d + 1), g, o⟩ := by
  have h1 : ¬ (d + 1 = 0) := by omega
  rcases h with rfl | ⟨l, rfl⟩ | rfl | rfl <;> simp [step, h1]

/-! ## Skipped text contributes nothing

A well-nested piece of text is passed over by every skipping loop, at every depth, without
any change of state; the body of an `\ifcase` (which ends in its `\fi`) takes the loop from
depth `d + 1` back to depth `d`. -/

mutual
theorem skip_text {mk} (h : IsSkip mk) : ∀ (t : Text) (st g o) (d : Int) (rest : List Tok), 0 ≤ d →
    run ⟨st, mk d, g, o⟩ (t.flatten ++ rest) = run ⟨st, mk d, g, o⟩ rest
  | .nil, st, g, o, d, rest, _ => by simp [Text.flatten]
  | .plain p r, st, g, o, d, rest, hd => by
    simp only [Text.flatten, List.cons_append, run_cons, step_skip_plain h]
    exact skip_text h r st g o d rest hd
  | .ifThen c a r, st, g, o, d, rest, hd => by
    simp only [Text.flatten, List.cons_append, List.append_assoc, run_cons, step_skip_iff h]
    rw [skip_text h a st g o (d + 1) _ (by omega)]
    simp only [run_cons, step_skip_fi h st g o d hd]
    exact skip_text h r st g o d rest hd
  | .ifElse c a b r, st, g, o, d, rest, hd => by
    simp only [Text.flatten, List.cons_append, List.append_assoc, run_cons, step_skip_iff h]
    rw [skip_text h a st g o (d + 1) _ (by omega)]
    simp only [run_cons, step_skip_els h st g o d hd]
    rw [skip_text h b st g o (d + 1) _ (by omega)]
    simp only [run_cons, step_skip_fi h st g o d hd]
    exact skip_text h r st g o d rest hd
  | .caseOf n cs r, st, g, o, d, rest, hd => by
    simp only [Text.flatten, List.cons_append, List.append_assoc, run_cons, step_skip_ifcase h]
    rw [skip_cases h cs st g o d _ hd]
    exact skip_text h r st g o d rest hd
theorem skip_cases {mk} (h : IsSkip mk) : ∀ (cs : Cases) (st g o) (d : Int) (rest : List Tok), 0 ≤ d →
    run ⟨st, mk (d + 1), g, o⟩ (cs.flatten ++ rest) = run ⟨st, mk d, g, o⟩ rest
  | .last b, st, g, o, d, rest, hd => by
    simp only [Cases.flatten, List.append_assoc]
    rw [skip_text h b st g o (d + 1) _ (by omega)]
    simp only [List.cons_append, List.nil_append, run_cons, step_skip_fi h st g o d hd]
  | .lastElse b e, st, g, o, d, rest, hd => by
    simp only [Cases.flatten, List.append_assoc, List.cons_append]
    rw [skip_text h b st g o (d + 1) _ (by omega)]
    simp only [run_cons, step_skip_els h st g o d hd]
    rw [skip_text h e st g o (d + 1) _ (by omega)]
    simp only [List.cons_append, List.nil_append, run_cons, step_skip_fi h st g o d hd]
  | .more b cs, st, g, o, d, rest, hd => by
    simp only [Cases.flatten, List.append_assoc, List.cons_append]
    rw [skip_text h b st g o (d + 1) _ (by omega)]
    simp only [run_cons, step_skip_orr h st g o d hd]
    exact skip_cases h cs st g o d rest hd
end

/-! ### Raw skipped text -/

theorem step_skip_els_pos {mk} (h : IsSkip mk) (st g o) (d : Int) (hd : 1 ≤ d) :
    step ⟨st, mk d, g, o⟩ .els = .ok ⟨st, mk d, g, o⟩ := by
  have := step_skip_els h st g o (d - 1) (by omega)
  simpa [show d - 1 + 1 = d by omega] using this

theorem step_skip_orr_pos {mk} (h : IsSkip mk) (st g o) (d : Int) (hd : 1 ≤ d) :
    step ⟨st, mk d, g, o⟩ .orr = .ok ⟨st, mk d, g, o⟩ := by
  have := step_skip_orr h st g o (d - 1) (by omega)
  simpa [show d - 1 + 1 = d by omega] using this

theorem step_skip_fi_pos {mk} (h : IsSkip mk) (st g o) (d : Int) (hd : 1 ≤ d) :
    step ⟨st, mk d, g, o⟩ .fi = .ok ⟨st, mk (d - 1), g, o⟩ := by
  have := step_skip_fi h st g o (d - 1) (by omega)
  simpa [show d - 1 + 1 = d by omega] using this

theorem skip_raw {mk} (h : IsSkip mk) (st g o) : ∀ (l : List Tok) (k k' : Nat) (d : Int) (rest : List Tok),
    0 ≤ d → rawDepth k l = some k' →
    run ⟨st, mk (d + k), g, o⟩ (l ++ rest) = run ⟨st, mk (d + k'), g, o⟩ rest
  | [], k, k', d, rest, _, hr => by
    simp only [rawDepth, Option.some.injEq] at hr
    subst hr; rfl
  | t :: ts, k, k', d, rest, hd, hr => by
    simp only [List.cons_append, run_cons]
    cases t with
    | iff c =>
      simp only [rawDepth] at hr
      rw [step_skip_iff h]
      have := skip_raw h st g o ts (k + 1) k' d rest hd hr
      simpa [Int.add_assoc] using this
    | ifcase n =>
      simp only [rawDepth] at hr
      rw [step_skip_ifcase h]
      have := skip_raw h st g o ts (k + 1) k' d rest hd hr
      simpa [Int.add_assoc] using this
    | els =>
      cases k with
      | zero => simp [rawDepth] at hr
      | succ j =>
        simp only [rawDepth] at hr
        rw [step_skip_els_pos h st g o _ (by omega)]
        exact skip_raw h st g o ts (j + 1) k' d rest hd hr
    | orr =>
      cases k with
      | zero => simp [rawDepth] at hr
      | succ j =>
        simp only [rawDepth] at hr
        rw [step_skip_orr_pos h st g o _ (by omega)]
        exact skip_raw h st g o ts (j + 1) k' d rest hd hr
    | fi =>
      cases k with
      | zero => simp [rawDepth] at hr
      | succ j =>
        simp only [rawDepth] at hr
        rw [step_skip_fi_pos h st g o _ (by omega)]
        have := skip_raw h st g o ts j k' d rest hd hr
        have e : d + ((j + 1 : Nat) : Int) - 1 = d + (j : Int) := by omega
        rw [e]; exact this
    | other n =>
      simp only [rawDepth] at hr
      rw [show Tok.other n = (Plain.other n).tok from rfl, step_skip_plain h]
      exact skip_raw h st g o ts k k' d rest hd hr
    | bg =>
      simp only [rawDepth] at hr
      rw [show Tok.bg = Plain.bg.tok from rfl, step_skip_plain h]
      exact skip_raw h st g o ts k k' d rest hd hr
    | eg =>
      simp only [rawDepth] at hr
      rw [show Tok.eg = Plain.eg.tok from rfl, step_skip_plain h]
      exact skip_raw h st g o ts k k' d rest hd hr

/-- `\or`/`\else` loops at depth 0 (they have no depth test for `\or`/`\else`): the rest of an
`\ifcase` body up to and including its `\fi` is skipped and the loop returns. -/
theorem skip_cases_exit {mk} (h : mk = Mode.skipOr ∨ mk = Mode.skipElse) :
    ∀ (cs : Cases) (st g o) (rest : List Tok),
    run ⟨st, mk 0, g, o⟩ (cs.flatten ++ rest) = run ⟨st, .deliver, g, o⟩ rest
  | .last b, st, g, o, rest => by
    have hs : IsSkip mk := by rcases h with rfl | rfl <;> simp [IsSkip]
    simp only [Cases.flatten, List.append_assoc]
    rw [skip_text hs b st g o 0 _ (by omega)]
    simp only [List.cons_append, List.nil_append, run_cons, step_skip_fi0 hs]
  | .lastElse b e, st, g, o, rest => by
    have hs : IsSkip mk := by rcases h with rfl | rfl <;> simp [IsSkip]
    have hels : step ⟨st, mk 0, g, o⟩ .els = .ok ⟨st, mk 0, g, o⟩ := by
      rcases h with rfl | rfl <;> rfl
    simp only [Cases.flatten, List.append_assoc, List.cons_append]
    rw [skip_text hs b st g o 0 _ (by omega)]
    simp only [run_cons, hels]
    rw [skip_text hs e st g o 0 _ (by omega)]
    simp only [List.nil_append, run_cons, step_skip_fi0 hs]
  | .more b cs, st, g, o, rest => by
    have hs : IsSkip mk := by rcases h with rfl | rfl <;> simp [IsSkip]
    have horr : step ⟨st, mk 0, g, o⟩ .orr = .ok ⟨st, mk 0, g, o⟩ := by
      rcases h with rfl | rfl <;> rfl
    simp only [Cases.flatten, List.append_assoc, List.cons_append]
    rw [skip_text hs b st g o 0 _ (by omega)]
    simp only [run_cons, horr]
    exact skip_cases_exit h cs st g o rest

/-! ## Delivered text -/

/-- Delivering one plain token touches only the group counter and the output. -/
def plainStep (g : Nat) (o : List Tok) : Plain → Except Err (Nat × List Tok)
  | .other n => .ok (g, o ++ [.other n])
  | .bg => .ok (g + 1, o ++ [.bg])
  | .eg =>
    match g with
    | 0 => .error .noGroupToEnd
    | g + 1 => .ok (g, o ++ [.eg])

def plainRun : Nat → List Tok → List Plain → Except Err (Nat × List Tok)
  | g, o, [] => .ok (g, o)
  | g, o, p :: ps =>
    match plainStep g o p with
    | .ok (g', o') => plainRun g' o' ps
    | .error e => .error e

/-- Continue in delivering mode with stack `st` on `rest`. -/
def andThen (r : Except Err (Nat × List Tok)) (st : List BranchKind) (rest : List Tok) : Except Err St :=
  match r with
  | .ok (g, o) => run ⟨st, .deliver, g, o⟩ rest
  | .error e => .error e

theorem step_deliver_plain (st g o) (p : Plain) :
    step ⟨st, .deliver, g, o⟩ p.tok =
      match plainStep g o p with
      | .ok (g', o') => .ok ⟨st, .deliver, g', o'⟩
      | .error e => .error e := by
  cases p with
  | other n => rfl
  | bg => rfl
  | eg => cases g <;> rfl

theorem run_plain (st) : ∀ (l : List Plain) (g o) (rest : List Tok),
    run ⟨st, .deliver, g, o⟩ (l.map Plain.tok ++ rest) = andThen (plainRun g o l) st rest
  | [], g, o, rest => by simp [plainRun, andThen]
  | p :: ps, g, o, rest => by
    simp only [List.map_cons, List.cons_append, run_cons, step_deliver_plain, plainRun]
    cases plainStep g o p with
    | error e => simp [andThen]
    | ok r => obtain ⟨g', o'⟩ := r; exact run_plain st ps g' o' rest

theorem plainRun_append : ∀ (l1 l2 : List Plain) (g o),
    plainRun g o (l1 ++ l2) =
      match plainRun g o l1 with
      | .ok (g', o') => plainRun g' o' l2
      | .error e => .error e
  | [], l2, g, o => by simp [plainRun]
  | p :: ps, l2, g, o => by
    simp only [List.cons_append, plainRun]
    cases plainStep g o p with
    | error e => rfl
    | ok r => obtain ⟨g', o'⟩ := r; exact plainRun_append ps l2 g' o'

theorem andThen_append (l1 l2 : List Plain) (g o st rest) :
    andThen (plainRun g o (l1 ++ l2)) st rest =
      match plainRun g o l1 with
      | .ok (g', o') => andThen (plainRun g' o' l2) st rest
      | .error e => .error e := by
  rw [plainRun_append]
  cases plainRun g o l1 with
  | error e => rfl
  | ok r => rfl

theorem andThen_nil (g o st rest) : andThen (plainRun g o []) st rest = run ⟨st, .deliver, g, o⟩ rest := rfl

theorem step_deliver_iff (st g o) (c : Test) :
    step ⟨st, .deliver, g, o⟩ (.iff c) =
      if evalTest c then .ok ⟨.tru :: st, .deliver, g, o⟩ else .ok ⟨st, .skipFalse 0, g, o⟩ := rfl

theorem step_deliver_ifcase (st g o) (n : Int) :
    step ⟨st, .deliver, g, o⟩ (.ifcase n) =
      if n == 0 then .ok ⟨.switch :: st, .deliver, g, o⟩ else .ok ⟨st, .skipCase n 0, g, o⟩ := rfl

theorem select_neg (cs : Cases) (n : Int) (h : n < 0) : cs.select n = cs.selectElse := by
  have h0 : n ≠ 0 := by omega
  cases cs <;> simp [Cases.select, Cases.selectElse, h0, h]

theorem isSkip_false : IsSkip Mode.skipFalse := Or.inl rfl
theorem isSkip_case (l : Int) : IsSkip (Mode.skipCase l) := Or.inr (Or.inl ⟨l, rfl⟩)
theorem isSkip_or : IsSkip Mode.skipOr := Or.inr (Or.inr (Or.inl rfl))
theorem isSkip_else : IsSkip Mode.skipElse := Or.inr (Or.inr (Or.inr rfl))

mutual
theorem deliver_text : ∀ (t : Text) (st g o) (rest : List Tok),
    run ⟨st, .deliver, g, o⟩ (t.flatten ++ rest) = andThen (plainRun g o t.select) st rest
  | .nil, st, g, o, rest => by simp [Text.flatten, Text.select, andThen_nil]
  | .plain p r, st, g, o, rest => by
    simp only [Text.flatten, Text.select, List.cons_append, run_cons, step_deliver_plain, plainRun]
    cases plainStep g o p with
    | error e => simp [andThen]
    | ok q => obtain ⟨g', o'⟩ := q; exact deliver_text r st g' o' rest
  | .ifThen c a r, st, g, o, rest => by
    simp only [Text.flatten, Text.select, List.cons_append, List.append_assoc, run_cons, step_deliver_iff]
    by_cases hc : evalTest c = true
    · have hh : c.holds := (evalTest_holds c).1 hc
      simp only [hc, if_true, if_pos hh]
      rw [deliver_text a, andThen_append]
      cases plainRun g o a.select with
      | error e => rfl
      | ok q =>
        obtain ⟨g', o'⟩ := q
        simp only [andThen, run_cons]
        exact deliver_text r st g' o' rest
    · have hh : ¬ c.holds := fun h => hc ((evalTest_holds c).2 h)
      have hc' : evalTest c = false := by simpa using hc
      simp only [hc', Bool.false_eq_true, if_false, if_neg hh, List.nil_append]
      rw [skip_text isSkip_false a st g o 0 _ (by omega)]
      simp only [run_cons, step_skip_fi0 isSkip_false]
      exact deliver_text r st g o rest
  | .ifElse c a b r, st, g, o, rest => by
    simp only [Text.flatten, Text.select, List.cons_append, List.append_assoc, run_cons, step_deliver_iff]
    by_cases hc : evalTest c = true
    · have hh : c.holds := (evalTest_holds c).1 hc
      simp only [hc, if_true, if_pos hh]
      rw [deliver_text a, andThen_append]
      cases plainRun g o a.select with
      | error e => rfl
      | ok q =>
        obtain ⟨g', o'⟩ := q
        simp only [andThen, run_cons]
        show run ⟨st, .skipElse 0, g', o'⟩ _ = _
        rw [skip_text isSkip_else b st g' o' 0 _ (by omega)]
        simp only [run_cons, step_skip_fi0 isSkip_else]
        exact deliver_text r st g' o' rest
    · have hh : ¬ c.holds := fun h => hc ((evalTest_holds c).2 h)
      have hc' : evalTest c = false := by simpa using hc
      simp only [hc', Bool.false_eq_true, if_false, if_neg hh]
      rw [skip_text isSkip_false a st g o 0 _ (by omega)]
      simp only [run_cons]
      show run ⟨.els :: st, .deliver, g, o⟩ _ = _
      rw [deliver_text b, andThen_append]
      cases plainRun g o b.select with
      | error e => rfl
      | ok q =>
        obtain ⟨g', o'⟩ := q
        simp only [andThen, run_cons]
        exact deliver_text r st g' o' rest
  | .caseOf n cs r, st, g, o, rest => by
    simp only [Text.flatten, Text.select, List.cons_append, List.append_assoc, run_cons, step_deliver_ifcase]
    by_cases hn : n = 0
    · subst hn
      simp only [beq_self_eq_true, if_true]
      rw [deliver_case0 cs, andThen_append]
      cases plainRun g o (cs.select 0) with
      | error e => rfl
      | ok q =>
        obtain ⟨g', o'⟩ := q
        exact deliver_text r st g' o' rest
    · have hb : (n == 0) = false := by simpa using hn
      simp only [hb, Bool.false_eq_true, if_false]
      rw [deliver_caseN cs n st g o _ hn, andThen_append]
      cases plainRun g o (cs.select n) with
      | error e => rfl
      | ok q =>
        obtain ⟨g', o'⟩ := q
        exact deliver_text r st g' o' rest
theorem deliver_case0 : ∀ (cs : Cases) (st g o) (rest : List Tok),
    run ⟨.switch :: st, .deliver, g, o⟩ (cs.flatten ++ rest) = andThen (plainRun g o (cs.select 0)) st rest
  | .last b, st, g, o, rest => by
    simp only [Cases.flatten, Cases.select, List.append_assoc, if_true]
    rw [deliver_text b]
    cases plainRun g o b.select with
    | error e => rfl
    | ok q => obtain ⟨g', o'⟩ := q; rfl
  | .lastElse b e, st, g, o, rest => by
    simp only [Cases.flatten, Cases.select, List.append_assoc, List.cons_append, if_true]
    rw [deliver_text b]
    cases plainRun g o b.select with
    | error e => rfl
    | ok q =>
      obtain ⟨g', o'⟩ := q
      simp only [andThen, run_cons]
      show run ⟨st, .skipElse 0, g', o'⟩ _ = _
      rw [skip_text isSkip_else e st g' o' 0 _ (by omega)]
      simp only [List.nil_append, run_cons, step_skip_fi0 isSkip_else]
  | .more b cs, st, g, o, rest => by
    simp only [Cases.flatten, Cases.select, List.append_assoc, List.cons_append, if_true]
    rw [deliver_text b]
    cases plainRun g o b.select with
    | error e => rfl
    | ok q =>
      obtain ⟨g', o'⟩ := q
      simp only [andThen, run_cons]
      show run ⟨st, .skipOr 0, g', o'⟩ _ = _
      exact skip_cases_exit (Or.inl rfl) cs st g' o' rest
theorem deliver_caseN : ∀ (cs : Cases) (left : Int) (st g o) (rest : List Tok), left ≠ 0 →
    run ⟨st, .skipCase left 0, g, o⟩ (cs.flatten ++ rest) = andThen (plainRun g o (cs.select left)) st rest
  | .last b, left, st, g, o, rest, hl => by
    simp only [Cases.flatten, Cases.select, List.append_assoc, if_neg hl]
    rw [skip_text (isSkip_case left) b st g o 0 _ (by omega)]
    simp only [List.cons_append, List.nil_append, run_cons, step_skip_fi0 (isSkip_case left), andThen_nil]
  | .lastElse b e, left, st, g, o, rest, hl => by
    simp only [Cases.flatten, Cases.select, List.append_assoc, List.cons_append, if_neg hl]
    rw [skip_text (isSkip_case left) b st g o 0 _ (by omega)]
    simp only [run_cons]
    show run ⟨.els :: st, .deliver, g, o⟩ _ = _
    rw [deliver_text e]
    cases plainRun g o e.select with
    | error e => rfl
    | ok q => obtain ⟨g', o'⟩ := q; rfl
  | .more b cs, left, st, g, o, rest, hl => by
    simp only [Cases.flatten, List.append_assoc, List.cons_append]
    rw [skip_text (isSkip_case left) b st g o 0 _ (by omega)]
    simp only [run_cons]
    by_cases hpos : left > 0
    · by_cases h1 : left = 1
      · subst h1
        show run ⟨.switch :: st, .deliver, g, o⟩ _ = _
        rw [deliver_case0 cs]
        simp [Cases.select]
      · have hstep : step ⟨st, .skipCase left 0, g, o⟩ .orr = .ok ⟨st, .skipCase (left - 1) 0, g, o⟩ := by
          have : ¬ (left - 1 = 0) := by omega
          simp [step, hpos, this]
        rw [hstep]
        simp only []
        rw [deliver_caseN cs (left - 1) st g o rest (by omega)]
        have : ¬ left < 0 := by omega
        simp [Cases.select, hl, this]
    · have hneg : left < 0 := by omega
      have hstep : step ⟨st, .skipCase left 0, g, o⟩ .orr = .ok ⟨st, .skipCase left 0, g, o⟩ := by
        simp [step, hpos]
      rw [hstep]
      simp only []
      rw [deliver_caseN cs left st g o rest hl, select_neg cs left hneg]
      simp [Cases.select, hl, hneg]
end

/-! ## Relational specification (raw skipped branches) -/

/-- The `\or`/`\else` loops skip any if/fi-balanced text (they do not look at `\else`/`\or`). -/
theorem skip_rawAny {mk} (h : mk = Mode.skipOr ∨ mk = Mode.skipElse) (st g o) :
    ∀ (l : List Tok) (k k' : Nat) (rest : List Tok), rawDepthAny k l = some k' →
    run ⟨st, mk k, g, o⟩ (l ++ rest) = run ⟨st, mk k', g, o⟩ rest
  | [], k, k', rest, hr => by
    simp only [rawDepthAny, Option.some.injEq] at hr
    subst hr; rfl
  | t :: ts, k, k', rest, hr => by
    have hs : IsSkip mk := by rcases h with rfl | rfl <;> simp [IsSkip]
    simp only [List.cons_append, run_cons]
    cases t with
    | iff c =>
      simp only [rawDepthAny] at hr
      rw [step_skip_iff hs]
      exact skip_rawAny h st g o ts (k + 1) k' rest hr
    | ifcase n =>
      simp only [rawDepthAny] at hr
      rw [step_skip_ifcase hs]
      exact skip_rawAny h st g o ts (k + 1) k' rest hr
    | els =>
      simp only [rawDepthAny] at hr
      have : step ⟨st, mk k, g, o⟩ .els = .ok ⟨st, mk k, g, o⟩ := by rcases h with rfl | rfl <;> rfl
      rw [this]
      exact skip_rawAny h st g o ts k k' rest hr
    | orr =>
      simp only [rawDepthAny] at hr
      have : step ⟨st, mk k, g, o⟩ .orr = .ok ⟨st, mk k, g, o⟩ := by rcases h with rfl | rfl <;> rfl
      rw [this]
      exact skip_rawAny h st g o ts k k' rest hr
    | fi =>
      cases k with
      | zero => simp [rawDepthAny] at hr
      | succ j =>
        simp only [rawDepthAny] at hr
        have := step_skip_fi hs st g o (j : Int) (by omega)
        rw [show ((j + 1 : Nat) : Int) = (j : Int) + 1 by omega, this]
        exact skip_rawAny h st g o ts j k' rest hr
    | other n =>
      simp only [rawDepthAny] at hr
      rw [show Tok.other n = (Plain.other n).tok from rfl, step_skip_plain hs]
      exact skip_rawAny h st g o ts k k' rest hr
    | bg =>
      simp only [rawDepthAny] at hr
      rw [show Tok.bg = Plain.bg.tok from rfl, step_skip_plain hs]
      exact skip_rawAny h st g o ts k k' rest hr
    | eg =>
      simp only [rawDepthAny] at hr
      rw [show Tok.eg = Plain.eg.tok from rfl, step_skip_plain hs]
      exact skip_rawAny h st g o ts k k' rest hr

/-- `skip_raw` at relative level 0, depth 0. -/
theorem skip_raw0 {mk} (h : IsSkip mk) (st g o) (l rest : List Tok) (hr : rawDepth 0 l = some 0) :
    run ⟨st, mk 0, g, o⟩ (l ++ rest) = run ⟨st, mk 0, g, o⟩ rest := by
  have := skip_raw h st g o l 0 0 0 rest (by omega) hr
  simpa using this

theorem skip_rawAny0 {mk} (h : mk = Mode.skipOr ∨ mk = Mode.skipElse) (st g o) (l rest : List Tok)
    (hr : rawDepthAny 0 l = some 0) :
    run ⟨st, mk 0, g, o⟩ (l ++ rest) = run ⟨st, mk 0, g, o⟩ rest := by
  have := skip_rawAny h st g o l 0 0 rest hr
  simpa using this

mutual
theorem delivers_run : ∀ {l : List Tok} {p : List Plain}, Delivers l p → ∀ (st g o) (rest : List Tok),
    run ⟨st, .deliver, g, o⟩ (l ++ rest) = andThen (plainRun g o p) st rest
  | _, _, .nil, st, g, o, rest => by simp [andThen_nil]
  | _, _, .plain q h, st, g, o, rest => by
    simp only [List.cons_append, run_cons, step_deliver_plain, plainRun]
    cases plainStep g o q with
    | error e => simp [andThen]
    | ok r => obtain ⟨g', o'⟩ := r; exact delivers_run h st g' o' rest
  | _, _, .ifTrueFi (c := c) hc ha hr, st, g, o, rest => by
    have hc' : evalTest c = true := (evalTest_holds c).2 hc
    simp only [List.cons_append, List.append_assoc, run_cons, step_deliver_iff, hc', if_true]
    rw [delivers_run ha, andThen_append]
    cases plainRun g o _ with
    | error e => rfl
    | ok q =>
      obtain ⟨g', o'⟩ := q
      simp only [andThen, run_cons]
      exact delivers_run hr st g' o' rest
  | _, _, .ifTrueElse (c := c) (b := b) hc ha hb hr, st, g, o, rest => by
    have hc' : evalTest c = true := (evalTest_holds c).2 hc
    simp only [List.cons_append, List.append_assoc, run_cons, step_deliver_iff, hc', if_true]
    rw [delivers_run ha, andThen_append]
    cases plainRun g o _ with
    | error e => rfl
    | ok q =>
      obtain ⟨g', o'⟩ := q
      simp only [andThen, run_cons]
      show run ⟨st, .skipElse 0, g', o'⟩ _ = _
      rw [skip_rawAny0 (Or.inr rfl) st g' o' b _ hb]
      simp only [run_cons, step_skip_fi0 isSkip_else]
      exact delivers_run hr st g' o' rest
  | _, _, .ifFalseFi (c := c) (a := a) hc ha hr, st, g, o, rest => by
    have hc' : evalTest c = false := by
      cases h : evalTest c with
      | false => rfl
      | true => exact absurd ((evalTest_holds c).1 h) hc
    simp only [List.cons_append, List.append_assoc, run_cons, step_deliver_iff, hc', Bool.false_eq_true, if_false]
    rw [skip_raw0 isSkip_false st g o a _ ha]
    simp only [run_cons, step_skip_fi0 isSkip_false]
    exact delivers_run hr st g o rest
  | _, _, .ifFalseElse (c := c) (a := a) hc ha hb hr, st, g, o, rest => by
    have hc' : evalTest c = false := by
      cases h : evalTest c with
      | false => rfl
      | true => exact absurd ((evalTest_holds c).1 h) hc
    simp only [List.cons_append, List.append_assoc, run_cons, step_deliver_iff, hc', Bool.false_eq_true, if_false]
    rw [skip_raw0 isSkip_false st g o a _ ha]
    simp only [run_cons]
    show run ⟨.els :: st, .deliver, g, o⟩ _ = _
    rw [delivers_run hb, andThen_append]
    cases plainRun g o _ with
    | error e => rfl
    | ok q =>
      obtain ⟨g', o'⟩ := q
      simp only [andThen, run_cons]
      exact delivers_run hr st g' o' rest
  | _, _, .ifcase (n := n) hb hr, st, g, o, rest => by
    simp only [List.cons_append, List.append_assoc, run_cons, step_deliver_ifcase]
    by_cases hn : n = 0
    · have hb' : (n == 0) = true := by simpa using hn
      simp only [hb', if_true]
      rw [caseDelivers_run0 hb hn, andThen_append]
      cases plainRun g o _ with
      | error e => rfl
      | ok q => obtain ⟨g', o'⟩ := q; exact delivers_run hr st g' o' rest
    · have hb' : (n == 0) = false := by simpa using hn
      simp only [hb', Bool.false_eq_true, if_false]
      rw [caseDelivers_runN hb hn, andThen_append]
      cases plainRun g o _ with
      | error e => rfl
      | ok q => obtain ⟨g', o'⟩ := q; exact delivers_run hr st g' o' rest
theorem caseDelivers_run0 : ∀ {n : Int} {body : List Tok} {p : List Plain}, CaseDelivers n body p → n = 0 →
    ∀ (st g o) (rest : List Tok),
    run ⟨.switch :: st, .deliver, g, o⟩ (body ++ rest) = andThen (plainRun g o p) st rest
  | _, _, _, .selFi _ hb, _, st, g, o, rest => by
    simp only [List.append_assoc]
    rw [delivers_run hb]
    cases plainRun g o _ with
    | error e => rfl
    | ok q => obtain ⟨g', o'⟩ := q; rfl
  | _, _, _, .selOr (x := x) _ hb hx, _, st, g, o, rest => by
    simp only [List.append_assoc, List.cons_append]
    rw [delivers_run hb]
    cases plainRun g o _ with
    | error e => rfl
    | ok q =>
      obtain ⟨g', o'⟩ := q
      simp only [andThen, run_cons]
      show run ⟨st, .skipOr 0, g', o'⟩ _ = _
      rw [skip_rawAny0 (Or.inl rfl) st g' o' x _ hx]
      simp only [List.nil_append, run_cons, step_skip_fi0 isSkip_or]
  | _, _, _, .selElse (x := x) _ hb hx, _, st, g, o, rest => by
    simp only [List.append_assoc, List.cons_append]
    rw [delivers_run hb]
    cases plainRun g o _ with
    | error e => rfl
    | ok q =>
      obtain ⟨g', o'⟩ := q
      simp only [andThen, run_cons]
      show run ⟨st, .skipElse 0, g', o'⟩ _ = _
      rw [skip_rawAny0 (Or.inr rfl) st g' o' x _ hx]
      simp only [List.nil_append, run_cons, step_skip_fi0 isSkip_else]
  | _, _, _, .skipFi hn _, h0, _, _, _, _ => absurd h0 hn
  | _, _, _, .skipElse hn _ _, h0, _, _, _, _ => absurd h0 hn
  | _, _, _, .skipOr hn _ _, h0, _, _, _, _ => absurd h0 hn
theorem caseDelivers_runN : ∀ {n : Int} {body : List Tok} {p : List Plain}, CaseDelivers n body p → n ≠ 0 →
    ∀ (st g o) (rest : List Tok),
    run ⟨st, .skipCase n 0, g, o⟩ (body ++ rest) = andThen (plainRun g o p) st rest
  | _, _, _, .selFi h0 _, hn, _, _, _, _ => absurd h0 hn
  | _, _, _, .selOr h0 _ _, hn, _, _, _, _ => absurd h0 hn
  | _, _, _, .selElse h0 _ _, hn, _, _, _, _ => absurd h0 hn
  | n, _, _, .skipFi (a := a) _ ha, hn, st, g, o, rest => by
    simp only [List.append_assoc]
    rw [skip_raw0 (isSkip_case n) st g o a _ ha]
    simp only [List.cons_append, List.nil_append, run_cons, step_skip_fi0 (isSkip_case n), andThen_nil]
  | n, _, _, .skipElse (a := a) _ ha he, hn, st, g, o, rest => by
    simp only [List.append_assoc, List.cons_append]
    rw [skip_raw0 (isSkip_case n) st g o a _ ha]
    simp only [run_cons]
    show run ⟨.els :: st, .deliver, g, o⟩ _ = _
    rw [delivers_run he]
    cases plainRun g o _ with
    | error e => rfl
    | ok q => obtain ⟨g', o'⟩ := q; rfl
  | n, _, _, .skipOr (a := a) _ ha hb, hn, st, g, o, rest => by
    simp only [List.append_assoc, List.cons_append]
    rw [skip_raw0 (isSkip_case n) st g o a _ ha]
    simp only [run_cons]
    by_cases hpos : n > 0
    · have e : (if n > 0 then n - 1 else n) = n - 1 := if_pos hpos
      by_cases h1 : n = 1
      · have hstep : step ⟨st, .skipCase n 0, g, o⟩ .orr = .ok ⟨.switch :: st, .deliver, g, o⟩ := by
          simp [step, h1]
        rw [hstep]
        exact caseDelivers_run0 hb (by rw [e]; omega) st g o rest
      · have hstep : step ⟨st, .skipCase n 0, g, o⟩ .orr = .ok ⟨st, .skipCase (n - 1) 0, g, o⟩ := by
          have : ¬ (n - 1 = 0) := by omega
          simp [step, hpos, this]
        rw [hstep]
        have := caseDelivers_runN hb (by rw [e]; omega) st g o rest
        rw [e] at this
        exact this
    · have e : (if n > 0 then n - 1 else n) = n := if_neg hpos
      have hstep : step ⟨st, .skipCase n 0, g, o⟩ .orr = .ok ⟨st, .skipCase n 0, g, o⟩ := by
        simp [step, hpos]
      rw [hstep]
      have := caseDelivers_runN hb (by rw [e]; exact hn) st g o rest
      rw [e] at this
      exact this
end


/-! ## The tree specification is an instance of the relational one -/

theorem rawDepth_plain (k : Nat) (p : Plain) (l : List Tok) : rawDepth k (p.tok :: l) = rawDepth k l := by
  cases p <;> cases k <;> simp [Plain.tok, rawDepth]

theorem rawDepthAny_plain (k : Nat) (p : Plain) (l : List Tok) : rawDepthAny k (p.tok :: l) = rawDepthAny k l := by
  cases p <;> cases k <;> simp [Plain.tok, rawDepthAny]

mutual
theorem rawDepth_text : ∀ (t : Text) (k : Nat) (rest : List Tok),
    rawDepth k (t.flatten ++ rest) = rawDepth k rest
  | .nil, k, rest => by simp [Text.flatten]
  | .plain p r, k, rest => by
    simp only [Text.flatten, List.cons_append, rawDepth_plain]; exact rawDepth_text r k rest
  | .ifThen c a r, k, rest => by
    simp only [Text.flatten, List.cons_append, List.append_assoc, rawDepth]
    rw [rawDepth_text a]; simp only [rawDepth]; exact rawDepth_text r k rest
  | .ifElse c a b r, k, rest => by
    simp only [Text.flatten, List.cons_append, List.append_assoc, rawDepth]
    rw [rawDepth_text a]; simp only [rawDepth]
    rw [rawDepth_text b]; simp only [rawDepth]; exact rawDepth_text r k rest
  | .caseOf n cs r, k, rest => by
    simp only [Text.flatten, List.cons_append, List.append_assoc, rawDepth]
    rw [rawDepth_cases cs]; exact rawDepth_text r k rest
theorem rawDepth_cases : ∀ (cs : Cases) (k : Nat) (rest : List Tok),
    rawDepth (k + 1) (cs.flatten ++ rest) = rawDepth k rest
  | .last b, k, rest => by
    simp only [Cases.flatten, List.append_assoc, List.cons_append, List.nil_append]
    rw [rawDepth_text b]; simp only [rawDepth]
  | .lastElse b e, k, rest => by
    simp only [Cases.flatten, List.append_assoc, List.cons_append, List.nil_append]
    rw [rawDepth_text b]; simp only [rawDepth]
    rw [rawDepth_text e]; simp only [rawDepth]
  | .more b cs, k, rest => by
    simp only [Cases.flatten, List.append_assoc, List.cons_append]
    rw [rawDepth_text b]; simp only [rawDepth]; exact rawDepth_cases cs k rest
end

mutual
theorem rawDepthAny_text : ∀ (t : Text) (k : Nat) (rest : List Tok),
    rawDepthAny k (t.flatten ++ rest) = rawDepthAny k rest
  | .nil, k, rest => by simp [Text.flatten]
  | .plain p r, k, rest => by
    simp only [Text.flatten, List.cons_append, rawDepthAny_plain]; exact rawDepthAny_text r k rest
  | .ifThen c a r, k, rest => by
    simp only [Text.flatten, List.cons_append, List.append_assoc, rawDepthAny]
    rw [rawDepthAny_text a]; simp only [rawDepthAny]; exact rawDepthAny_text r k rest
  | .ifElse c a b r, k, rest => by
    simp only [Text.flatten, List.cons_append, List.append_assoc, rawDepthAny]
    rw [rawDepthAny_text a]; simp only [rawDepthAny]
    rw [rawDepthAny_text b]; simp only [rawDepthAny]; exact rawDepthAny_text r k rest
  | .caseOf n cs r, k, rest => by
    simp only [Text.flatten, List.cons_append, List.append_assoc, rawDepthAny]
    rw [rawDepthAny_cases cs]; exact rawDepthAny_text r k rest
theorem rawDepthAny_cases : ∀ (cs : Cases) (k : Nat) (rest : List Tok),
    rawDepthAny (k + 1) (cs.flatten ++ rest) = rawDepthAny k rest
  | .last b, k, rest => by
    simp only [Cases.flatten, List.append_assoc, List.cons_append, List.nil_append]
    rw [rawDepthAny_text b]; simp only [rawDepthAny]
  | .lastElse b e, k, rest => by
    simp only [Cases.flatten, List.append_assoc, List.cons_append, List.nil_append]
    rw [rawDepthAny_text b]; simp only [rawDepthAny]
    rw [rawDepthAny_text e]; simp only [rawDepthAny]
  | .more b cs, k, rest => by
    simp only [Cases.flatten, List.append_assoc, List.cons_append]
    rw [rawDepthAny_text b]; simp only [rawDepthAny]; exact rawDepthAny_cases cs k rest
end

/-- An `\ifcase` body without its closing `\fi`. -/
def Cases.body : Cases → List Tok
  | .last b => b.flatten
  | .lastElse b e => b.flatten ++ .els :: e.flatten
  | .more b cs => b.flatten ++ .orr :: cs.body

theorem Cases.flatten_eq_body : ∀ (cs : Cases), cs.flatten = cs.body ++ [.fi]
  | .last b => by simp [Cases.flatten, Cases.body]
  | .lastElse b e => by simp [Cases.flatten, Cases.body]
  | .more b cs => by simp [Cases.flatten, Cases.body, Cases.flatten_eq_body cs]

theorem rawDepthAny_body : ∀ (cs : Cases) (k : Nat) (rest : List Tok),
    rawDepthAny k (cs.body ++ rest) = rawDepthAny k rest
  | .last b, k, rest => by simp only [Cases.body]; exact rawDepthAny_text b k rest
  | .lastElse b e, k, rest => by
    simp only [Cases.body, List.append_assoc, List.cons_append]
    rw [rawDepthAny_text b]
    cases k <;> simp only [rawDepthAny] <;> exact rawDepthAny_text e _ rest
  | .more b cs, k, rest => by
    simp only [Cases.body, List.append_assoc, List.cons_append]
    rw [rawDepthAny_text b]
    cases k <;> simp only [rawDepthAny] <;> exact rawDepthAny_body cs _ rest

theorem rawDepth_flatten0 (t : Text) : rawDepth 0 t.flatten = some 0 := by
  have := rawDepth_text t 0 []
  simpa [rawDepth] using this

theorem rawDepthAny_flatten0 (t : Text) : rawDepthAny 0 t.flatten = some 0 := by
  have := rawDepthAny_text t 0 []
  simpa [rawDepthAny] using this

theorem rawDepthAny_body0 (cs : Cases) : rawDepthAny 0 cs.body = some 0 := by
  have := rawDepthAny_body cs 0 []
  simpa [rawDepthAny] using this

mutual
theorem delivers_flatten : ∀ (t : Text), Delivers t.flatten t.select
  | .nil => .nil
  | .plain p r => .plain p (delivers_flatten r)
  | .ifThen c a r => by
    simp only [Text.flatten, Text.select]
    by_cases hc : c.holds
    · rw [if_pos hc]; exact .ifTrueFi hc (delivers_flatten a) (delivers_flatten r)
    · rw [if_neg hc, List.nil_append]; exact .ifFalseFi hc (rawDepth_flatten0 a) (delivers_flatten r)
  | .ifElse c a b r => by
    simp only [Text.flatten, Text.select]
    by_cases hc : c.holds
    · rw [if_pos hc]
      exact .ifTrueElse hc (delivers_flatten a) (rawDepthAny_flatten0 b) (delivers_flatten r)
    · rw [if_neg hc]
      exact .ifFalseElse hc (rawDepth_flatten0 a) (delivers_flatten b) (delivers_flatten r)
  | .caseOf n cs r => by
    simp only [Text.flatten, Text.select]
    exact .ifcase (caseDelivers_flatten cs n) (delivers_flatten r)
theorem caseDelivers_flatten : ∀ (cs : Cases) (n : Int), CaseDelivers n cs.flatten (cs.select n)
  | .last b, n => by
    simp only [Cases.flatten, Cases.select]
    by_cases hn : n = 0
    · rw [if_pos hn]; exact .selFi hn (delivers_flatten b)
    · rw [if_neg hn]; exact .skipFi hn (rawDepth_flatten0 b)
  | .lastElse b e, n => by
    simp only [Cases.flatten, Cases.select]
    by_cases hn : n = 0
    · rw [if_pos hn]; exact .selElse hn (delivers_flatten b) (rawDepthAny_flatten0 e)
    · rw [if_neg hn]; exact .skipElse hn (rawDepth_flatten0 b) (delivers_flatten e)
  | .more b cs, n => by
    simp only [Cases.flatten, Cases.select]
    by_cases hn : n = 0
    · rw [if_pos hn, Cases.flatten_eq_body cs]
      exact .selOr hn (delivers_flatten b) (rawDepthAny_body0 cs)
    · rw [if_neg hn]
      by_cases hneg : n < 0
      · rw [if_pos hneg]
        have ih := caseDelivers_flatten cs n
        rw [select_neg cs n hneg] at ih
        refine .skipOr hn (rawDepth_flatten0 b) ?_
        have e : (if n > 0 then n - 1 else n) = n := if_neg (by omega)
        rw [e]; exact ih
      · rw [if_neg hneg]
        have ih := caseDelivers_flatten cs (n - 1)
        refine .skipOr hn (rawDepth_flatten0 b) ?_
        have e : (if n > 0 then n - 1 else n) = n - 1 := if_pos (by omega)
        rw [e]; exact ih
end


/-! ## `\\expandafter`: the optimized loop is the simple recursion -/

/-- Prepend the buffered tokens to the stream of a successful result. -/
def XRes.prepend {σ} (buf : List XTok) : XRes σ → XRes σ
  | .ok (s, l) => .ok (s, buf ++ l)
  | .error e => .error e

theorem XRes.prepend_nil {σ} (r : XRes σ) : XRes.prepend [] r = r := by
  cases r with
  | error e => rfl
  | ok p => obtain ⟨s, l⟩ := p; rfl

theorem xaOptLoop_eq {σ} (E : Expander σ) : ∀ (l : List XTok) (name : Nat) (buf : List XTok) (s : σ),
    xaOptLoop E name buf s l = XRes.prepend buf (xaSimple E s l)
  | [], name, buf, s => by simp [xaOptLoop, xaSimple, XRes.prepend]
  | [_], name, buf, s => by simp [xaOptLoop, xaSimple, XRes.prepend]
  | first :: second :: rest, name, buf, s => by
    by_cases h : second = .xa name
    · subst h
      simp only [xaOptLoop, xaSimple, if_true]
      rw [xaOptLoop_eq E rest name (buf ++ [first]) s]
      cases xaSimple E s rest with
      | error e => rfl
      | ok p => obtain ⟨s', l'⟩ := p; simp [XRes.prepend]
    · cases second with
      | xa other =>
        simp only [xaOptLoop, xaSimple, if_neg h]
        rw [xaOptLoop_eq E rest other [] s, XRes.prepend_nil]
        cases xaSimple E s rest with
        | error e => rfl
        | ok p => obtain ⟨s', l'⟩ := p; simp [XRes.prepend]
      | noexp =>
        simp only [xaOptLoop, xaSimple, if_neg h]
        cases noexpandOnce s rest with
        | error e => rfl
        | ok p => obtain ⟨s', l'⟩ := p; simp [XRes.prepend]
      | cs k =>
        simp only [xaOptLoop, xaSimple, if_neg h]
        cases E s (.cs k) rest with
        | none => simp [XRes.prepend]
        | some r =>
          cases r with
          | error e => rfl
          | ok p => obtain ⟨s', l'⟩ := p; simp [XRes.prepend]
      | ch k =>
        simp only [xaOptLoop, xaSimple, if_neg h]
        cases E s (.ch k) rest with
        | none => simp [XRes.prepend]
        | some r =>
          cases r with
          | error e => rfl
          | ok p => obtain ⟨s', l'⟩ := p; simp [XRes.prepend]


/-! ## Braces of the delivered text -/

theorem plainRun_braces : ∀ (l : List Plain) (g : Nat) (o : List Tok),
    plainRun g o l =
      match bracesOk g l with
      | some g' => .ok (g', o ++ l.map Plain.tok)
      | none => .error .noGroupToEnd
  | [], g, o => by simp [plainRun, bracesOk]
  | .other n :: ps, g, o => by
    simp only [plainRun, plainStep, bracesOk, plainRun_braces ps]
    cases bracesOk g ps <;> simp [Plain.tok]
  | .bg :: ps, g, o => by
    simp only [plainRun, plainStep, bracesOk, plainRun_braces ps]
    cases bracesOk (g + 1) ps <;> simp [Plain.tok]
  | .eg :: ps, 0, o => by simp [plainRun, plainStep, bracesOk]
  | .eg :: ps, g + 1, o => by
    simp only [plainRun, plainStep, bracesOk, plainRun_braces ps]
    cases bracesOk g ps <;> simp [Plain.tok]

theorem selectElse_eq : ∀ (cs : Cases),
    cs.selectElse = match cs.elseBranch with | some e => e.select | none => []
  | .last _ => rfl
  | .lastElse _ _ => rfl
  | .more _ cs => by simp only [Cases.selectElse, Cases.elseBranch]; exact selectElse_eq cs

end C07
