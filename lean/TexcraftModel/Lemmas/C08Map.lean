import TexcraftModel.Model.C20
import TexcraftModel.Lemmas.C20GMap
namespace C08
open C20

/-!
# C08 — mapping the values of a scoped map commutes with `FromIterator` and `iter_all`;
the values of a rebuilt map / of `iter_all` come from the input.

Core Lean only.
-/

variable {K V W : Type} [DecidableEq K]

/-- map the values of an association list -/
def amap (f : V → W) (l : AList K V) : AList K W := l.map (fun p => (p.1, f p.2))

def actMap (f : V → W) : Action V → Action W
  | .revert v => .revert (f v)
  | .delete => .delete

/-- map the values of a scoped map (structure untouched) -/
def gmapMap (f : V → W) (m : GMap K V) : GMap K W :=
  { bc := amap f m.bc, groups := m.groups.map (amap (actMap f)) }

def itemMap (f : V → W) : Item K V → Item K W
  | .beginGroup => .beginGroup
  | .value k v => .value k (f v)

/-! ## Association-list laws for `amap` -/

omit [DecidableEq K] in
theorem amap_nil (f : V → W) : amap f ([] : AList K V) = [] := rfl

omit [DecidableEq K] in
theorem amap_cons (f : V → W) (a : K) (v : V) (t : AList K V) :
    amap f ((a, v) :: t) = (a, f v) :: amap f t := rfl

theorem alookup_amap (f : V → W) (l : AList K V) (k : K) :
    alookup (amap f l) k = (alookup l k).map f := by
  induction l with
  | nil => rfl
  | cons p t ih =>
    obtain ⟨a, v⟩ := p
    simp only [amap_cons, alookup, ih]
    by_cases h : a = k <;> simp [h]

theorem aerase_amap (f : V → W) (k : K) (l : AList K V) :
    aerase k (amap f l) = amap f (aerase k l) := by
  induction l with
  | nil => rfl
  | cons p t ih =>
    obtain ⟨a, v⟩ := p
    simp only [amap_cons, aerase, ih]
    by_cases h : a = k <;> simp [h, amap_cons]

theorem ainsert_amap (f : V → W) (k : K) (v : V) (l : AList K V) :
    ainsert k (f v) (amap f l) = amap f (ainsert k v l) := by
  simp only [ainsert, aerase_amap, amap_cons]

/-! ## (1) `fromIter` commutes with mapping the values -/

theorem feed_map (f : V → W) (m : GMap K V) (it : Item K V) :
    GMap.feed (gmapMap f m) (itemMap f it) = gmapMap f (GMap.feed m it) := by
  obtain ⟨bc, groups⟩ := m
  cases it with
  | beginGroup => rfl
  | value k v =>
    simp only [GMap.feed, itemMap, gmapMap, GMap.insert, alookup_amap]
    cases hb : alookup bc k with
    | none =>
      cases groups with
      | nil => simp [ainsert_amap]
      | cons g gs =>
        simp only [Option.map_none, List.map_cons, ainsert_amap]
        rw [show (Action.delete : Action W) = actMap f .delete from rfl, ainsert_amap]
    | some old =>
      cases groups with
      | nil => simp [ainsert_amap]
      | cons g gs =>
        simp only [Option.map_some, List.map_cons, ainsert_amap, alookup_amap]
        cases hg : alookup g k with
        | none =>
          simp only [Option.map_none]
          rw [show (Action.revert (f old) : Action W) = actMap f (.revert old) from rfl,
            ainsert_amap]
        | some _ => simp only [Option.map_some]

theorem foldl_feed_map (f : V → W) (items : List (Item K V)) (m : GMap K V) :
    (items.map (itemMap f)).foldl GMap.feed (gmapMap f m) =
      gmapMap f (items.foldl GMap.feed m) := by
  induction items generalizing m with
  | nil => rfl
  | cons it items ih => simp only [List.map_cons, List.foldl_cons, feed_map, ih]

-- (1) FromIterator commutes with mapping the values (exact structural equality)
theorem fromIter_map (f : V → W) (items : List (Item K V)) :
    GMap.fromIter (items.map (itemMap f)) = gmapMap f (GMap.fromIter items) :=
  foldl_feed_map f items GMap.empty

/-! ## (2) `iterAll` commutes with mapping the values -/

theorem view_amap (f : V → W) (ktv : AList K (Option V)) (bc : AList K V) (a : K) :
    view (amap (Option.map f) ktv) (fun k => alookup (amap f bc) k) a =
      (view ktv (fun k => alookup bc k) a).map f := by
  simp only [view, alookup_amap]
  cases alookup ktv a <;> rfl

theorem savedOf_actMap (f : V → W) (act : Action V) :
    savedOf (actMap f act) = (savedOf act).map f := by
  cases act <;> rfl

theorem iterGroup_map (f : V → W) (bc : AList K V) (g : AList K (Action V))
    (ktv : AList K (Option V)) :
    GMap.iterGroup (amap f bc) (amap (actMap f) g) (amap (Option.map f) ktv) =
      match GMap.iterGroup bc g ktv with
      | .ok (ktv', items) => .ok (amap (Option.map f) ktv', items.map (itemMap f))
      | .panic => .panic
      | .fuel => .fuel := by
  induction g generalizing ktv with
  | nil => rfl
  | cons p t ih =>
    obtain ⟨a, act⟩ := p
    rw [amap_cons, iterGroup_cons, iterGroup_cons, view_amap, savedOf_actMap, ainsert_amap, ih]
    cases view ktv (fun k => alookup bc k) a with
    | none => rfl
    | some v =>
      simp only [Option.map_some]
      cases GMap.iterGroup bc t (ainsert a (savedOf act) ktv) with
      | ok r => rfl
      | panic => rfl
      | fuel => rfl

theorem iterGroups_map (f : V → W) (bc : AList K V) (gs : List (AList K (Action V)))
    (ktv : AList K (Option V)) :
    GMap.iterGroups (amap f bc) (gs.map (amap (actMap f))) (amap (Option.map f) ktv) =
      match GMap.iterGroups bc gs ktv with
      | .ok (ktv', items) => .ok (amap (Option.map f) ktv', items.map (itemMap f))
      | .panic => .panic
      | .fuel => .fuel := by
  induction gs generalizing ktv with
  | nil => rfl
  | cons g gs ih =>
    simp only [List.map_cons, GMap.iterGroups, iterGroup_map]
    cases GMap.iterGroup bc g ktv with
    | panic => rfl
    | fuel => rfl
    | ok r =>
      obtain ⟨ktv1, vals⟩ := r
      simp only [ih]
      cases GMap.iterGroups bc gs ktv1 with
      | panic => rfl
      | fuel => rfl
      | ok r2 =>
        obtain ⟨ktv2, rest⟩ := r2
        simp [itemMap]

theorem visibleItems_map (f : V → W) (ktv : AList K (Option V)) (l : AList K V) :
    GMap.visibleItems (amap (Option.map f) ktv) (amap f l) =
      (GMap.visibleItems ktv l).map (itemMap f) := by
  induction l with
  | nil => rfl
  | cons p t ih =>
    obtain ⟨a, v⟩ := p
    simp only [amap_cons, GMap.visibleItems, alookup_amap, ih]
    cases alookup ktv a with
    | none => rfl
    | some o => cases o <;> rfl

-- (2) iter_all commutes with mapping the values
theorem iterAll_map (f : V → W) (m : GMap K V) :
    (gmapMap f m).iterAll =
      match m.iterAll with
      | .ok l => .ok (l.map (itemMap f))
      | .panic => .panic
      | .fuel => .fuel := by
  obtain ⟨bc, gs⟩ := m
  have h := iterGroups_map f bc gs []
  rw [amap_nil] at h
  simp only [GMap.iterAll, gmapMap, h]
  cases GMap.iterGroups bc gs [] with
  | panic => rfl
  | fuel => rfl
  | ok r =>
    obtain ⟨ktv, pushed⟩ := r
    simp [visibleItems_map]

/-! ## (3), (4) where the values come from -/

/-- every value of an item / of a scoped map (visible values and values saved for `Revert`)
satisfies `Q` -/
def ItemAll (Q : V → Prop) : Item K V → Prop
  | .beginGroup => True
  | .value _ v => Q v

def GAll (Q : V → Prop) (m : GMap K V) : Prop :=
  (∀ p ∈ m.bc, Q p.2) ∧ (∀ g ∈ m.groups, ∀ p ∈ g, ∀ v, p.2 = Action.revert v → Q v)

theorem mem_of_alookup {X : Type} (l : AList K X) (k : K) (x : X) (h : alookup l k = some x) :
    (k, x) ∈ l := by
  induction l with
  | nil => simp [alookup] at h
  | cons p t ih =>
    obtain ⟨a, w⟩ := p
    simp only [alookup] at h
    by_cases ha : a = k
    · simp only [ha, if_true, Option.some.injEq] at h
      simp [ha, h]
    · simp only [ha, if_false] at h
      exact List.mem_cons_of_mem _ (ih h)

theorem mem_of_mem_aerase {X : Type} (k : K) (l : AList K X) (p : K × X) (h : p ∈ aerase k l) :
    p ∈ l := by
  induction l with
  | nil => simp [aerase] at h
  | cons q t ih =>
    obtain ⟨a, w⟩ := q
    simp only [aerase] at h
    by_cases ha : a = k
    · simp only [ha, if_true] at h
      exact List.mem_cons_of_mem _ (ih h)
    · simp only [ha, if_false, List.mem_cons] at h
      rcases h with h | h
      · simp [h]
      · exact List.mem_cons_of_mem _ (ih h)

theorem mem_ainsert {X : Type} (k : K) (x : X) (l : AList K X) (p : K × X)
    (h : p ∈ ainsert k x l) : p = (k, x) ∨ p ∈ l := by
  simp only [ainsert, List.mem_cons] at h
  rcases h with h | h
  · exact Or.inl h
  · exact Or.inr (mem_of_mem_aerase k l p h)

theorem all_ainsert (Q : V → Prop) (k : K) (v : V) (l : AList K V) (hv : Q v)
    (hl : ∀ p ∈ l, Q p.2) : ∀ p ∈ ainsert k v l, Q p.2 := by
  intro p hp
  rcases mem_ainsert k v l p hp with rfl | hp
  · exact hv
  · exact hl p hp

theorem feed_all (Q : V → Prop) (m : GMap K V) (it : Item K V) (hm : GAll Q m)
    (hit : ItemAll Q it) : GAll Q (GMap.feed m it) := by
  obtain ⟨bc, groups⟩ := m
  obtain ⟨hbc, hgs⟩ := hm
  simp only at hbc hgs
  cases it with
  | beginGroup =>
    refine ⟨hbc, ?_⟩
    intro g hg
    simp only [GMap.feed, GMap.beginGroup, List.mem_cons] at hg
    rcases hg with rfl | hg
    · intro p hp; cases hp
    · exact hgs g hg
  | value k v =>
    have hv : Q v := hit
    have hbc' := all_ainsert Q k v bc hv hbc
    simp only [GMap.feed, GMap.insert]
    cases hb : alookup bc k with
    | none =>
      cases groups with
      | nil => exact ⟨hbc', hgs⟩
      | cons g gs =>
        refine ⟨hbc', ?_⟩
        intro g' hg'
        simp only [List.mem_cons] at hg'
        rcases hg' with rfl | hg'
        · intro p hp w hw
          rcases mem_ainsert _ _ _ p hp with rfl | hp
          · cases hw
          · exact hgs g (by simp) p hp w hw
        · exact hgs g' (by simp [hg'])
    | some old =>
      have hold : Q old := hbc (k, old) (mem_of_alookup bc k old hb)
      cases groups with
      | nil => exact ⟨hbc', hgs⟩
      | cons g gs =>
        refine ⟨hbc', ?_⟩
        intro g' hg'
        simp only [List.mem_cons] at hg'
        rcases hg' with rfl | hg'
        · cases hgk : alookup g k with
          | some _ => exact hgs g (by simp)
          | none =>
            intro p hp w hw
            rcases mem_ainsert _ _ _ p hp with rfl | hp
            · cases hw; exact hold
            · exact hgs g (by simp) p hp w hw
        · exact hgs g' (by simp [hg'])

theorem foldl_feed_all (Q : V → Prop) (items : List (Item K V)) (m : GMap K V) (hm : GAll Q m)
    (h : ∀ it ∈ items, ItemAll Q it) : GAll Q (items.foldl GMap.feed m) := by
  induction items generalizing m with
  | nil => exact hm
  | cons it items ih =>
    simp only [List.foldl_cons]
    exact ih _ (feed_all Q m it hm (h it (by simp))) (fun i hi => h i (by simp [hi]))

-- (3) values of a rebuilt map come from the items
theorem fromIter_all (Q : V → Prop) (items : List (Item K V)) (h : ∀ it ∈ items, ItemAll Q it) :
    GAll Q (GMap.fromIter items) := by
  refine foldl_feed_all Q items GMap.empty ⟨?_, ?_⟩ h
  · intro p hp; cases hp
  · intro g hg; cases hg

/-- every `some v` stored in `key_to_val` satisfies `Q` -/
def KtvAll (Q : V → Prop) (ktv : AList K (Option V)) : Prop :=
  ∀ p ∈ ktv, ∀ v, p.2 = some v → Q v

theorem view_all (Q : V → Prop) (bc : AList K V) (ktv : AList K (Option V))
    (hbc : ∀ p ∈ bc, Q p.2) (hk : KtvAll Q ktv) (a : K) (v : V)
    (h : view ktv (fun k => alookup bc k) a = some v) : Q v := by
  simp only [view] at h
  cases hl : alookup ktv a with
  | none =>
    simp only [hl] at h
    exact hbc (a, v) (mem_of_alookup bc a v h)
  | some o =>
    simp only [hl] at h
    exact hk (a, o) (mem_of_alookup ktv a o hl) v h

theorem iterGroup_all (Q : V → Prop) (bc : AList K V) (g : AList K (Action V))
    (ktv : AList K (Option V)) (hbc : ∀ p ∈ bc, Q p.2)
    (hg : ∀ p ∈ g, ∀ v, p.2 = Action.revert v → Q v) (hk : KtvAll Q ktv)
    (ktv' : AList K (Option V)) (items : List (Item K V))
    (h : GMap.iterGroup bc g ktv = .ok (ktv', items)) :
    KtvAll Q ktv' ∧ ∀ it ∈ items, ItemAll Q it := by
  induction g generalizing ktv ktv' items with
  | nil =>
    simp only [GMap.iterGroup, Res.ok.injEq, Prod.mk.injEq] at h
    obtain ⟨rfl, rfl⟩ := h
    exact ⟨hk, by intro it hit; cases hit⟩
  | cons p t ih =>
    obtain ⟨a, act⟩ := p
    rw [iterGroup_cons] at h
    cases hv : view ktv (fun k => alookup bc k) a with
    | none => simp [hv] at h
    | some v =>
      simp only [hv] at h
      have hQv : Q v := view_all Q bc ktv hbc hk a v hv
      have hk1 : KtvAll Q (ainsert a (savedOf act) ktv) := by
        intro p hp w hw
        rcases mem_ainsert _ _ _ p hp with rfl | hp
        · cases act with
          | delete => cases hw
          | revert old =>
            simp only [savedOf, Option.some.injEq] at hw
            subst hw
            exact hg (a, .revert old) (by simp) old rfl
        · exact hk p hp w hw
      cases hr : GMap.iterGroup bc t (ainsert a (savedOf act) ktv) with
      | panic => simp [hr] at h
      | fuel => simp [hr] at h
      | ok r =>
        obtain ⟨ktv1, items1⟩ := r
        simp only [hr, Res.ok.injEq, Prod.mk.injEq] at h
        obtain ⟨rfl, rfl⟩ := h
        obtain ⟨h1, h2⟩ := ih _ (fun p hp => hg p (by simp [hp])) hk1 _ _ hr
        refine ⟨h1, ?_⟩
        intro it hit
        simp only [List.mem_cons] at hit
        rcases hit with rfl | hit
        · exact hQv
        · exact h2 it hit

theorem iterGroups_all (Q : V → Prop) (bc : AList K V) (gs : List (AList K (Action V)))
    (ktv : AList K (Option V)) (hbc : ∀ p ∈ bc, Q p.2)
    (hgs : ∀ g ∈ gs, ∀ p ∈ g, ∀ v, p.2 = Action.revert v → Q v) (hk : KtvAll Q ktv)
    (ktv' : AList K (Option V)) (items : List (Item K V))
    (h : GMap.iterGroups bc gs ktv = .ok (ktv', items)) :
    KtvAll Q ktv' ∧ ∀ it ∈ items, ItemAll Q it := by
  induction gs generalizing ktv ktv' items with
  | nil =>
    simp only [GMap.iterGroups, Res.ok.injEq, Prod.mk.injEq] at h
    obtain ⟨rfl, rfl⟩ := h
    exact ⟨hk, by intro it hit; cases hit⟩
  | cons g gs ih =>
    simp only [GMap.iterGroups] at h
    cases hr : GMap.iterGroup bc g ktv with
    | panic => simp [hr] at h
    | fuel => simp [hr] at h
    | ok r =>
      obtain ⟨ktv1, vals⟩ := r
      simp only [hr] at h
      obtain ⟨hk1, hvals⟩ := iterGroup_all Q bc g ktv hbc (hgs g (by simp)) hk _ _ hr
      cases hr2 : GMap.iterGroups bc gs ktv1 with
      | panic => simp [hr2] at h
      | fuel => simp [hr2] at h
      | ok r2 =>
        obtain ⟨ktv2, rest⟩ := r2
        simp only [hr2, Res.ok.injEq, Prod.mk.injEq] at h
        obtain ⟨rfl, rfl⟩ := h
        obtain ⟨hk2, hrest⟩ := ih ktv1 (fun g' hg' => hgs g' (by simp [hg'])) hk1 _ _ hr2
        refine ⟨hk2, ?_⟩
        intro it hit
        simp only [List.mem_append, List.mem_cons] at hit
        rcases hit with hit | rfl | hit
        · exact hvals it hit
        · trivial
        · exact hrest it hit

theorem visibleItems_all (Q : V → Prop) (ktv : AList K (Option V)) (l : AList K V)
    (hl : ∀ p ∈ l, Q p.2) (hk : KtvAll Q ktv) :
    ∀ it ∈ GMap.visibleItems ktv l, ItemAll Q it := by
  induction l with
  | nil => intro it hit; cases hit
  | cons p t ih =>
    obtain ⟨a, v⟩ := p
    have iht := ih (fun p hp => hl p (by simp [hp]))
    intro it hit
    simp only [GMap.visibleItems] at hit
    cases hla : alookup ktv a with
    | none =>
      simp only [hla, List.mem_cons] at hit
      rcases hit with rfl | hit
      · exact hl (a, v) (by simp)
      · exact iht it hit
    | some o =>
      cases o with
      | none =>
        simp only [hla] at hit
        exact iht it hit
      | some w =>
        simp only [hla, List.mem_cons] at hit
        rcases hit with rfl | hit
        · exact hk (a, some w) (mem_of_alookup ktv a _ hla) w rfl
        · exact iht it hit

-- (4) values yielded by iter_all come from the map
theorem iterAll_all (Q : V → Prop) (m : GMap K V) (h : GAll Q m) (items : List (Item K V))
    (hi : m.iterAll = .ok items) : ∀ it ∈ items, ItemAll Q it := by
  obtain ⟨bc, gs⟩ := m
  obtain ⟨hbc, hgs⟩ := h
  simp only at hbc hgs
  simp only [GMap.iterAll] at hi
  cases hr : GMap.iterGroups bc gs [] with
  | panic => simp [hr] at hi
  | fuel => simp [hr] at hi
  | ok r =>
    obtain ⟨ktv, pushed⟩ := r
    simp only [hr, Res.ok.injEq] at hi
    subst hi
    obtain ⟨hk, hp⟩ := iterGroups_all Q bc gs [] hbc hgs (by intro p hp; cases hp) _ _ hr
    intro it hit
    simp only [List.mem_append, List.mem_reverse] at hit
    rcases hit with hit | hit
    · exact visibleItems_all Q ktv bc hbc hk it hit
    · exact hp it hit

end C08
