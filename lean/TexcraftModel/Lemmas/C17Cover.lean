import TexcraftModel.Model.C17
/-! Lemmas for `compress` (C17): the greedy interval cover is optimal and monotone in the
tolerance (which is what makes the binary search of the Rust code correct), and the
executable checker `checkCompress` is sound for the specification. -/
namespace C17

/-- Greedy stays ahead: whatever covers the elements beyond the reach `r` with intervals of
length `δ` has at least as many intervals as the greedy pass opens. (No sortedness needed.) -/
theorem greedy_le_cover (δ : Int) (l : List Int) : ∀ (r : Int) (C : List Int),
    (∀ v ∈ l, v > r → ∃ c ∈ C, c ≤ v ∧ v ≤ c + δ) → (greedyStarts δ r l).length ≤ C.length := by
  induction l with
  | nil => intro r C _; simp [greedyStarts]
  | cons a t ih =>
    intro r C h
    simp only [greedyStarts]
    split
    · rename_i har
      obtain ⟨c, hc, h1, h2⟩ := h a (by simp) har
      have := ih (a + δ) (C.erase c) (by
        intro w hw hwr
        obtain ⟨c', hc', h3, h4⟩ := h w (by simp [hw]) (by omega)
        have hne : c' ≠ c := by intro e; subst e; omega
        exact ⟨c', (List.mem_erase_of_ne hne).2 hc', h3, h4⟩)
      have hl : (C.erase c).length = C.length - 1 := List.length_erase_of_mem hc
      have hpos : 0 < C.length := List.length_pos_of_mem hc
      simp only [List.length_cons]
      omega
    · exact ih r C (fun w hw hwr => h w (by simp [hw]) hwr)

/-- The greedy starts do cover a sorted list beyond the reach. -/
theorem greedy_covers (δ : Int) (hδ : 0 ≤ δ) (l : List Int) : ∀ (r : Int),
    l.Pairwise (· ≤ ·) → ∀ v ∈ l, v > r → ∃ c ∈ greedyStarts δ r l, c ≤ v ∧ v ≤ c + δ := by
  induction l with
  | nil => intro r _ v hv; simp at hv
  | cons a t ih =>
    intro r hs v hv hvr
    have hs' := List.pairwise_cons.1 hs
    simp only [greedyStarts]
    simp only [List.mem_cons] at hv
    split
    · rename_i har
      rcases hv with rfl | hv
      · exact ⟨v, by simp, by omega, by omega⟩
      · by_cases hw : v > a + δ
        · obtain ⟨c, hc, h1, h2⟩ := ih (a + δ) hs'.2 v hv hw
          exact ⟨c, by simp [hc], h1, h2⟩
        · exact ⟨a, by simp, hs'.1 v hv, by omega⟩
    · rename_i har
      rcases hv with rfl | hv
      · omega
      · exact ih r hs'.2 v hv hvr

/-- Monotonicity of the greedy cover: a larger tolerance (and a larger reach) never needs more
intervals. This justifies the binary search over the tolerance. -/
theorem greedy_mono (δ δ' : Int) (hδ : 0 ≤ δ) (hδδ : δ ≤ δ') (l : List Int) (r r' : Int) (hr : r ≤ r')
    (hs : l.Pairwise (· ≤ ·)) :
    (greedyStarts δ' r' l).length ≤ (greedyStarts δ r l).length := by
  apply greedy_le_cover
  intro v hv hvr
  obtain ⟨c, hc, h1, h2⟩ := greedy_covers δ hδ l r hs v hv (by omega)
  exact ⟨c, hc, h1, by omega⟩

theorem greedyCount_eq (δ : Int) (a : Int) (t : List Int) :
    greedyCount δ (a :: t) = (greedyStarts δ (a - 1) (a :: t)).length := by
  have : a > a - 1 := by omega
  simp [greedyCount, greedyStarts, this]
  omega

/-- `greedy_optimal`: no cover of the values by intervals of length `δ` has fewer intervals
than the greedy pass. -/
theorem greedyCount_le_cover (δ : Int) (vals C : List Int) (h : Covers δ C vals) :
    greedyCount δ vals ≤ C.length := by
  cases vals with
  | nil => simp [greedyCount]
  | cons a t =>
    rw [greedyCount_eq]
    exact greedy_le_cover δ (a :: t) (a - 1) C (fun v hv _ => h v hv)

theorem greedyCount_mono (δ δ' : Int) (hδ : 0 ≤ δ) (hδδ : δ ≤ δ') (vals : List Int)
    (hs : vals.Pairwise (· ≤ ·)) : greedyCount δ' vals ≤ greedyCount δ vals := by
  cases vals with
  | nil => simp [greedyCount]
  | cons a t =>
    rw [greedyCount_eq, greedyCount_eq]
    exact greedy_mono δ δ' hδ hδδ (a :: t) (a - 1) (a - 1) (Int.le_refl _) hs

/-- The greedy pass is itself a cover with `greedyCount` intervals. -/
theorem greedyCount_covers (δ : Int) (hδ : 0 ≤ δ) (vals : List Int) (hs : vals.Pairwise (· ≤ ·)) :
    ∃ C, C.length = greedyCount δ vals ∧ Covers δ C vals := by
  cases vals with
  | nil => exact ⟨[], by simp [greedyCount], fun v hv => by simp at hv⟩
  | cons a t =>
    refine ⟨greedyStarts δ (a - 1) (a :: t), (greedyCount_eq δ a t).symm, ?_⟩
    intro v hv
    have hge : a ≤ v := by
      rcases List.mem_cons.1 hv with rfl | h
      · exact Int.le_refl _
      · exact (List.pairwise_cons.1 hs).1 v h
    exact greedy_covers δ hδ (a :: t) (a - 1) hs v hv (by omega)

theorem covers_mono (δ δ' : Int) (h : δ ≤ δ') (C vals : List Int) (hc : Covers δ C vals) :
    Covers δ' C vals := by
  intro v hv
  obtain ⟨c, hc, h1, h2⟩ := hc v hv
  exact ⟨c, hc, h1, by omega⟩

/-! ### `dedupSort` -/

theorem mem_insertD (x y : Int) (l : List Int) : y ∈ insertD x l ↔ y = x ∨ y ∈ l := by
  induction l with
  | nil => simp [insertD]
  | cons a t ih =>
    simp only [insertD]
    split
    · simp
    · split
      · rename_i h; subst h; simp
      · simp [ih]; constructor <;> (intro h; rcases h with h | h | h <;> simp [h])

theorem mem_dedupSort (y : Int) (l : List Int) : y ∈ dedupSort l ↔ y ∈ l := by
  induction l with
  | nil => simp [dedupSort]
  | cons a t ih =>
    have : dedupSort (a :: t) = insertD a (dedupSort t) := rfl
    rw [this, mem_insertD, ih]; simp

theorem insertD_sorted (x : Int) (l : List Int) (h : l.Pairwise (· < ·)) :
    (insertD x l).Pairwise (· < ·) := by
  induction l with
  | nil => simp [insertD]
  | cons a t ih =>
    have h' := List.pairwise_cons.1 h
    simp only [insertD]
    split
    · rename_i hxa
      refine List.pairwise_cons.2 ⟨?_, h⟩
      intro y hy
      rcases List.mem_cons.1 hy with rfl | hy
      · exact hxa
      · have := h'.1 y hy; omega
    · split
      · exact h
      · refine List.pairwise_cons.2 ⟨?_, ih h'.2⟩
        intro y hy
        rcases (mem_insertD x y t).1 hy with rfl | hy
        · omega
        · exact h'.1 y hy

/-- `dedupSort` is strictly increasing (sorted, no duplicates). -/
theorem dedupSort_sorted (l : List Int) : (dedupSort l).Pairwise (· < ·) := by
  induction l with
  | nil => simp [dedupSort]
  | cons a t ih => exact insertD_sorted a _ ih

theorem listMax_ge_head (x : Int) (t : List Int) : x ≤ listMax (x :: t) := by
  cases t with
  | nil => simp [listMax]
  | cons y t => simp only [listMax]; split <;> omega

/-- **Soundness of the executable checker**: if `checkCompress` accepts a claimed result (in
the correspondence: the *real* output of the Rust `compress`), the result satisfies
`CompressSpec`. -/
theorem checkCompress_sound (values : List Int) (maxSize : Nat) (table : List Int)
    (m : List (Int × Nat)) (h : checkCompress values maxSize table m = (true, true, true)) :
    CompressSpec values maxSize table m := by
  simp only [checkCompress, Prod.mk.injEq] at h
  obtain ⟨hle, hnear, hmin⟩ := h
  refine ⟨usedTol (dedupSort values) m (table.length - 1), listMax_ge_head 0 _, ?_, ?_, ?_⟩
  · simpa using hle
  · intro v hv
    have hv' : v ∈ dedupSort values := (mem_dedupSort v values).2 hv
    have := (List.all_eq_true.1 hnear) v hv'
    cases hl : lookupIdx m v with
    | none => simp [hl] at this
    | some i =>
      simp only [hl] at this
      cases ht : table[i]? with
      | none => simp [ht] at this
      | some rep =>
        simp only [ht, Bool.and_eq_true, decide_eq_true_eq] at this
        exact ⟨i, rep, rfl, this.1.1, ht, this.2⟩
  · intro δ' C h0 hlt hC hcov
    simp only [Bool.or_eq_true, decide_eq_true_eq] at hmin
    rcases hmin with h | h
    · omega
    · have h1 : Covers (usedTol (dedupSort values) m (table.length - 1) - 1) C (dedupSort values) := by
        intro v hv
        obtain ⟨c, hc, a, b⟩ := hcov v ((mem_dedupSort v values).1 hv)
        exact ⟨c, hc, a, by omega⟩
      have := greedyCount_le_cover _ _ _ h1
      omega

end C17
