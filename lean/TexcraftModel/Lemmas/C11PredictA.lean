/-
C11 — `predict`, part A: labels as a map (`lookup`, `sortByChar`), the parser's label list
has distinct characters, and the PL-level program of the trip (`plOf`) is well-formed and
has the rule function of the raw table.
-/
import TexcraftModel.Model.C05
import TexcraftModel.Model.C11
import TexcraftModel.Model.C11Bridge
import TexcraftModel.Model.C11Norm
import TexcraftModel.Model.C11Words
import TexcraftModel.Model.C11Predict
import TexcraftModel.Lemmas.C11Rule
import TexcraftModel.Lemmas.C11Norm
import TexcraftModel.Lemmas.C11NormReach
import TexcraftModel.Lemmas.C11Parse

namespace C11

/-! ### `C05.rule` sees the labels only through `lookup` -/

theorem find?_eq_lookup (es : List (Nat × Nat)) (c : Nat) :
    (es.find? (fun x => decide (x.1 = c))).map (·.2) = lookup es c := by
  induction es with
  | nil => rfl
  | cons x t ih =>
    obtain ⟨k, v⟩ := x
    simp only [List.find?_cons, lookup]
    by_cases h : k = c
    · simp [h]
    · simp only [h, decide_false, if_false]; exact ih

theorem rule_congr_lookup (instrs : List C05.Instr) (lb rb : Option Nat) (ks : List Int)
    (es1 es2 : List (Nat × Nat)) (h : ∀ c, lookup es1 c = lookup es2 c) (l : Option Nat) (r : Nat) :
    C05.rule ⟨instrs, lb, rb, es1, ks⟩ l r = C05.rule ⟨instrs, lb, rb, es2, ks⟩ l r := by
  simp only [C05.rule, C05.rawRule]
  cases l with
  | none => rfl
  | some c =>
    simp only [C05.entryOf]
    rw [find?_eq_lookup, find?_eq_lookup, h c]

/-! ### `sortByChar` -/

theorem mem_insertByChar (x y : Nat × Nat) : ∀ (l : List (Nat × Nat)), y ∈ insertByChar x l ↔ y = x ∨ y ∈ l := by
  intro l
  induction l with
  | nil => simp [insertByChar]
  | cons a t ih =>
    simp only [insertByChar]
    split
    · simp
    · simp only [List.mem_cons, ih]
      constructor
      · rintro (h | h | h) <;> simp [h]
      · rintro (h | h | h) <;> simp [h]

theorem mem_sortByChar (y : Nat × Nat) : ∀ (l : List (Nat × Nat)), y ∈ sortByChar l ↔ y ∈ l := by
  intro l
  induction l with
  | nil => simp [sortByChar]
  | cons a t ih =>
    have : sortByChar (a :: t) = insertByChar a (sortByChar t) := rfl
    rw [this, mem_insertByChar, ih]
    simp

theorem keys_insertByChar (x : Nat × Nat) : ∀ (l : List (Nat × Nat)),
    (l.map (·.1)).Pairwise (· < ·) → x.1 ∉ l.map (·.1) → ((insertByChar x l).map (·.1)).Pairwise (· < ·) := by
  intro l
  induction l with
  | nil => intro _ _; simp [insertByChar]
  | cons a t ih =>
    intro hs hx
    simp only [List.map_cons, List.pairwise_cons] at hs
    simp only [List.map_cons, List.mem_cons, not_or] at hx
    simp only [insertByChar]
    split
    · rename_i hle
      simp only [List.map_cons, List.pairwise_cons, List.mem_cons]
      refine ⟨?_, hs.1, hs.2⟩
      rintro k (rfl | hk)
      · omega
      · have := hs.1 k hk; omega
    · rename_i hgt
      simp only [List.map_cons, List.pairwise_cons]
      refine ⟨?_, ih hs.2 hx.2⟩
      intro k hk
      obtain ⟨y, hy, rfl⟩ := List.mem_map.mp hk
      rcases (mem_insertByChar x y t).mp hy with rfl | hy'
      · omega
      · exact hs.1 _ (List.mem_map_of_mem (f := (·.1)) hy')

theorem keys_sortByChar : ∀ (l : List (Nat × Nat)), (l.map (·.1)).Nodup →
    ((sortByChar l).map (·.1)).Pairwise (· < ·) := by
  intro l
  induction l with
  | nil => intro _; simp [sortByChar]
  | cons a t ih =>
    intro hnd
    simp only [List.map_cons, List.nodup_cons] at hnd
    have : sortByChar (a :: t) = insertByChar a (sortByChar t) := rfl
    rw [this]
    apply keys_insertByChar a _ (ih hnd.2)
    intro hmem
    obtain ⟨y, hy, hk⟩ := List.mem_map.mp hmem
    apply hnd.1
    rw [← hk]
    exact List.mem_map_of_mem (f := (·.1)) ((mem_sortByChar y t).mp hy)

theorem nodup_of_lt : ∀ (l : List Nat), l.Pairwise (· < ·) → l.Nodup := by
  intro l h
  exact List.Pairwise.imp (fun hab => Nat.ne_of_lt hab) h

theorem lookup_iff_mem {l : List (Nat × Nat)} (hnd : (l.map (·.1)).Nodup) (c e : Nat) :
    lookup l c = some e ↔ (c, e) ∈ l :=
  ⟨lookup_mem, lookup_mem_nodup l c e hnd⟩

/-- Sorting by character does not change the map. -/
theorem lookup_sortByChar {l : List (Nat × Nat)} (hnd : (l.map (·.1)).Nodup) (c : Nat) :
    lookup (sortByChar l) c = lookup l c := by
  have hnd' : ((sortByChar l).map (·.1)).Nodup := nodup_of_lt _ (keys_sortByChar l hnd)
  cases h : lookup l c with
  | some e =>
    rw [lookup_iff_mem hnd'] 
    exact (mem_sortByChar _ l).mpr ((lookup_iff_mem hnd c e).mp h)
  | none =>
    cases h' : lookup (sortByChar l) c with
    | none => rfl
    | some e =>
      have := (mem_sortByChar _ l).mp ((lookup_iff_mem hnd' c e).mp h')
      rw [(lookup_iff_mem hnd c e).mpr this] at h
      simp at h

/-! ### The parser's label list has distinct characters -/

theorem keys_insertEntry (es : List (Nat × Nat)) (c u : Nat) (h : (es.map (·.1)).Nodup) :
    ((insertEntry es c u).map (·.1)).Nodup := by
  simp only [insertEntry, List.map_append, List.map_cons, List.map_nil]
  rw [List.nodup_append]
  refine ⟨?_, by simp, ?_⟩
  · exact List.Nodup.sublist (List.Sublist.map _ List.filter_sublist) h
  · intro a ha b hb
    simp only [List.mem_singleton] at hb
    subst hb
    obtain ⟨y, hy, rfl⟩ := List.mem_map.mp ha
    have := (List.mem_filter.mp hy).2
    simpa using this

theorem keys_addLabels : ∀ (cs : List Nat) (es : List (Nat × Nat)) (u : Nat), (es.map (·.1)).Nodup →
    ((addLabels es cs u).map (·.1)).Nodup := by
  intro cs
  induction cs with
  | nil => intro es u h; simpa [addLabels] using h
  | cons c t ih =>
    intro es u h
    have := ih (insertEntry es c u) u (keys_insertEntry es c u h)
    simpa [addLabels] using this

theorem keys_parseSpec (lb : Option Nat) (es : List (Nat × Nat)) :
    ∀ (l : List Instr) (fl : List Bool) (k : Nat) (s : PState), (s.entries.map (·.1)).Nodup →
      ((parseSpec lb es k l fl s).entries.map (·.1)).Nodup := by
  intro l
  induction l with
  | nil => intro fl k s h; cases fl <;> simpa [parseSpec] using h
  | cons i rest ih =>
    intro fl k s h
    cases fl with
    | nil => simpa [parseSpec] using h
    | cons f fl' =>
      simp only [parseSpec]
      split
      · exact ih fl' (k + 1) _ (keys_addLabels _ _ _ h)
      · exact ih fl' (k + 1) s h

theorem keys_printParse {p : Prog} {es : List (Nat × Nat)}
    (hnr : noReachRedirect p.instrs (reachable p es) = true) :
    ((printParse p es).2.map (·.1)).Nodup := by
  have hfold := foldl_printItems p.lb es p.instrs (reachable p es) 0 ⟨[], [], none, false⟩ hnr
  simp only [printParse, parseItems, hfold]
  exact keys_parseSpec p.lb es _ _ 0 _ (by simp)

/-! ### The PL-level program of the trip -/

theorem keys_unpackAll (instrs : List Instr) : ∀ (pe : List (Nat × Nat)), (pe.map (·.1)).Nodup →
    ((unpackAll instrs pe).map (·.1)).Nodup := by
  intro pe
  induction pe with
  | nil => intro _; simp [unpackAll]
  | cons x t ih =>
    intro h
    simp only [List.map_cons, List.nodup_cons] at h
    simp only [unpackAll, List.filterMap_cons]
    cases hu : unpackEntry instrs x.2 with
    | none => simpa [unpackAll] using ih h.2
    | some e =>
      simp only [Option.map_some, List.map_cons, List.nodup_cons]
      refine ⟨?_, by simpa [unpackAll] using ih h.2⟩
      intro hmem
      apply h.1
      obtain ⟨y, hy, hk⟩ := List.mem_map.mp hmem
      obtain ⟨z, hz, hzy⟩ := List.mem_filterMap.mp hy
      cases hz' : unpackEntry instrs z.2 with
      | none => simp [hz'] at hzy
      | some e' =>
        simp only [hz', Option.map_some, Option.some.injEq] at hzy
        rw [← hk, ← hzy]
        exact List.mem_map_of_mem (f := (·.1)) hz

theorem noKernAt_packKerns (ks : List Int) (l : List Instr) : noKernAt (packKerns ks l) = true := by
  simp only [noKernAt, packKerns, List.all_map, List.all_eq_true]
  intro i _
  cases hop : i.op <;> simp [resolve, Op.isKernAt, hop]

theorem noKernAt_compact : ∀ (l : List Instr) (fl : List Bool), noKernAt l = true → noKernAt (compact l fl) = true := by
  intro l
  induction l with
  | nil => intro fl _; simp [compact, noKernAt]
  | cons i rest ih =>
    intro fl h
    cases fl with
    | nil => simp [compact, noKernAt]
    | cons f fl' =>
      simp only [noKernAt, List.all_cons, Bool.and_eq_true] at h
      have ih' := ih fl' (by simpa [noKernAt] using h.2)
      simp only [noKernAt, List.all_eq_true] at ih' ⊢
      intro x hx
      simp only [compact, List.mem_append] at hx
      rcases hx with hx | hx
      · split at hx
        · simp only [List.mem_singleton] at hx
          subst hx
          simpa using h.1
        · simp at hx
      · exact ih' x hx

theorem noKernAt_fixLast : ∀ (l : List Instr), noKernAt l = true → noKernAt (fixLast l) = true := by
  intro l
  induction l with
  | nil => intro h; exact h
  | cons a t ih =>
    intro h
    cases t with
    | nil =>
      simp only [noKernAt, List.all_cons, List.all_nil, Bool.and_true] at h
      simp only [fixLast, noKernAt, List.all_cons, List.all_nil, Bool.and_true]
      split <;> simpa using h
    | cons b t' =>
      simp only [noKernAt, List.all_cons, Bool.and_eq_true] at h
      have := ih (by simpa [noKernAt] using h.2)
      simp only [fixLast, noKernAt, List.all_cons, Bool.and_eq_true] at this ⊢
      exact ⟨h.1, this⟩

theorem rawOk_parts {b : RawLK} (h : rawOk b = true) :
    (b.ligs.map (·.1)).Nodup ∧ nwf (preOf b).1 (preOf b).2 = true ∧ ((preOf b).2.map (·.1)).Nodup := by
  simp only [rawOk, Bool.and_eq_true, decide_eq_true_eq] at h
  refine ⟨h.1, h.2, ?_⟩
  exact keys_unpackAll _ _ h.1

/-- The PL-level program of the trip: same program as the closed form `normalise`, the same
label map, hence well-formed, every step reachable, no `KernAtIndex`, distinct characters —
and the rule function of the raw table. -/
theorem plOf_facts {b : RawLK} (h : rawOk b = true) :
    (plOf b).1 = (normalise (preOf b).1 (preOf b).2).1 ∧
    (∀ c, lookup (plOf b).2 c = lookup (normalise (preOf b).1 (preOf b).2).2 c) ∧
    ((plOf b).2.map (·.1)).Nodup ∧
    wf (plOf b).1 (plOf b).2 = true ∧
    noKernAt (plOf b).1.instrs = true ∧
    (∀ l r, C05.rule (toC05 (plOf b).1 (plOf b).2 []) l r = rawRule b l r) := by
  obtain ⟨_, hnwf, hnd⟩ := rawOk_parts h
  obtain ⟨_, _, _, hnr⟩ := nwf_parts hnwf
  obtain ⟨hq1, hq2⟩ := printParse_normalise hnr hnd
  have hkq := keys_printParse (es := (preOf b).2) hnr
  obtain ⟨hwfN, _, hkN⟩ := normalise_wf_allReach hnwf
  have hl : ∀ c, lookup (plOf b).2 c = lookup (normalise (preOf b).1 (preOf b).2).2 c := by
    intro c
    simp only [plOf]
    rw [lookup_sortByChar hkq c, hq2 c]
  have hks : ((plOf b).2.map (·.1)).Nodup := nodup_of_lt _ (keys_sortByChar _ hkq)
  have hkN' : ((normalise (preOf b).1 (preOf b).2).2.map (·.1)).Nodup := by rw [hkN]; exact hnd
  have h1 : (plOf b).1 = (normalise (preOf b).1 (preOf b).2).1 := by simp only [plOf]; exact hq1
  refine ⟨h1, hl, hks, ?_, ?_, ?_⟩
  · -- wf
    obtain ⟨hnrN, hclN, hentN, hlbN⟩ := wf_parts hwfN
    simp only [wf, Bool.and_eq_true, List.all_eq_true, decide_eq_true_eq]
    rw [h1]
    refine ⟨⟨⟨hnrN, hclN⟩, ?_⟩, ?_⟩
    · intro ce hce
      have h2 : lookup (plOf b).2 ce.1 = some ce.2 := (lookup_iff_mem hks ce.1 ce.2).mpr hce
      rw [hl] at h2
      exact hentN _ (lookup_mem h2)
    · cases hlb : (normalise (preOf b).1 (preOf b).2).1.lb with
      | none => simp
      | some l => simpa using hlbN l hlb
  · rw [h1]
    simp only [normalise]
    exact noKernAt_fixLast _ (noKernAt_compact _ _ (by simp only [preOf]; exact noKernAt_packKerns _ _))
  · intro l r
    have e1 := rule_congr_lookup ((plOf b).1.instrs.map toC05Instr) (plOf b).1.lb (plOf b).1.rb []
      (plOf b).2 (normalise (preOf b).1 (preOf b).2).2 hl l r
    simp only [toC05] at e1 ⊢
    rw [e1, h1]
    have e2 := normalise_rule hnwf [] l r
    simp only [toC05] at e2
    rw [e2]
    have e3 := rule_packKerns (decodeRaw b.words).instrs (decodeRaw b.words).lb (decodeRaw b.words).rb
      (unpackAll (decodeRaw b.words).instrs b.ligs) b.kerns l r
    simp only [toC05] at e3
    simp only [rawRule, toC05, preOf]
    exact e3.symm

end C11
