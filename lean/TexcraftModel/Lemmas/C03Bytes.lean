import TexcraftModel.Model.C03Bytes
import TexcraftModel.Lemmas.C03

/-! C03 — the byte-level `RawLexer` never slices off a character boundary and is the
character-level one: `Rep` (offsets are byte lengths of whole prefixes), one refinement lemma per
method, then the `Lexer` on top (`nextF_refines`, `bLexAll_eq`). -/
namespace C03
namespace Bytes


theorem sliceFrom_cons (c : Char) (t : List Char) (p : Nat) (h : utf8Len c ≤ p) :
    sliceFrom (c :: t) p = sliceFrom t (p - utf8Len c) := by
  have := utf8Len_pos c
  cases p with
  | zero => omega
  | succ p => simp only [sliceFrom]; rw [if_neg (by omega)]

theorem sliceFrom_append (pre post : List Char) : sliceFrom (pre ++ post) (byteLen pre) = some post := by
  induction pre with
  | nil => cases post <;> simp [byteLen, sliceFrom]
  | cons c t ih =>
    simp only [List.cons_append, byteLen]
    rw [sliceFrom_cons _ _ _ (by omega), show utf8Len c + byteLen t - utf8Len c = byteLen t by omega, ih]

theorem takeBytes_append (a b : List Char) : takeBytes (a ++ b) (byteLen a) = some a := by
  induction a with
  | nil => cases b <;> simp [byteLen, takeBytes]
  | cons c t ih =>
    have := utf8Len_pos c
    simp only [List.cons_append, byteLen]
    cases h : utf8Len c + byteLen t with
    | zero => omega
    | succ n =>
      simp only [takeBytes]
      rw [if_neg (by omega), show n + 1 - utf8Len c = byteLen t by omega, ih]; rfl

theorem sliceRange_append (pre a b : List Char) :
    sliceRange (pre ++ (a ++ b)) (byteLen pre) (byteLen pre + byteLen a) = some a := by
  unfold sliceRange
  rw [if_neg (by omega), sliceFrom_append]
  simp only [Option.bind_some, show byteLen pre + byteLen a - byteLen pre = byteLen a by omega]
  exact takeBytes_append a b

theorem charAt_append (done line : List Char) : charAt (done ++ line) (byteLen done) = some line.head? := by
  simp [charAt, sliceFrom_append]

theorem writeAscii_append (done : List Char) (c : Char) (t : List Char) (m : Char) (h : utf8Len c = 1) :
    writeAscii (done ++ c :: t) (byteLen done) m = some (done ++ m :: t) := by
  induction done with
  | nil => simp [byteLen, writeAscii, h]
  | cons d t' ih =>
    have := utf8Len_pos d
    simp only [List.cons_append, byteLen]
    cases hh : utf8Len d + byteLen t' with
    | zero => omega
    | succ n =>
      simp only [writeAscii]
      rw [if_neg (by omega), show n + 1 - utf8Len d = byteLen t' by omega, ih]; rfl

theorem byteLen_replicate_space (p : Nat) : byteLen (List.replicate p ' ') = p := by
  induction p with
  | zero => rfl
  | succ n ih => simp only [List.replicate_succ, byteLen, ih]; have : utf8Len ' ' = 1 := by decide
                 omega


theorem lineLoop_eq (s : List Char) : ∀ (acc : List Char) (p base : Nat),
    lineLoop (base + byteLen acc) p s
      = (base + byteLen (scanLineGo acc p s).1, (scanLineGo acc p s).2.1) := by
  induction s with
  | nil => intros; simp [lineLoop, scanLineGo]
  | cons c t ih =>
    intro acc p base
    simp only [lineLoop, scanLineGo]
    split
    · rfl
    · split
      · exact ih acc (p + 1) base
      · have := ih (acc ++ List.replicate p ' ' ++ [c]) 0 base
        rw [byteLen_append, byteLen_append, byteLen_replicate_space] at this
        simp only [byteLen] at this
        rw [← this]
        congr 1; omega

/-- What `start_new_line` skips between the content of a line and the next line: blanks and at
most the newline — one byte each. -/
theorem scanLineGo_decomp (s : List Char) : ∀ (acc : List Char) (p : Nat),
    ∃ gap : List Char, acc ++ List.replicate p ' ' ++ s
        = (scanLineGo acc p s).1 ++ (gap ++ (scanLineGo acc p s).2.2) ∧
      byteLen gap = (scanLineGo acc p s).2.1 := by
  induction s with
  | nil =>
    intro acc p
    exact ⟨List.replicate p ' ', by simp [scanLineGo], by simp [scanLineGo, byteLen_replicate_space]⟩
  | cons c t ih =>
    intro acc p
    simp only [scanLineGo]
    split
    · rename_i h
      refine ⟨List.replicate p ' ' ++ ['\n'], by simp [h], ?_⟩
      rw [byteLen_append, byteLen_replicate_space]
      have : utf8Len '\n' = 1 := by decide
      simp [byteLen, this]
    · split
      · rename_i h1 h2
        obtain ⟨gap, e1, e2⟩ := ih acc (p + 1)
        refine ⟨gap, ?_, e2⟩
        rw [← e1, List.replicate_succ', h2]; simp
      · obtain ⟨gap, e1, e2⟩ := ih (acc ++ List.replicate p ' ' ++ [c]) 0
        refine ⟨gap, ?_, e2⟩
        rw [← e1]; simp

/-- The byte-level state `b` stands for the character-level state `r`: both offsets are the
byte lengths of whole prefixes. -/
structure Rep (b : BRaw) (r : Raw) : Prop where
  ex : ∃ pre done, b.src = pre ++ r.rest ∧ b.nextLine = byteLen pre ∧
        b.cur = done ++ r.line ∧ b.pos = byteLen done
  key : b.key = r.key
  limit : b.limit = r.limit
  trimmed : b.trimmed = r.trimmed

theorem Rep.abs {b : BRaw} {r : Raw} (h : Rep b r) : b.abs = some r := by
  obtain ⟨⟨pre, done, h1, h2, h3, h4⟩, hk, hl, ht⟩ := h
  unfold BRaw.abs
  rw [h1, h2, h3, h4, sliceFrom_append, sliceFrom_append]
  cases r; simp_all

theorem Rep.init (src : List Char) : Rep (BRaw.init src) (Lexer.init src).raw :=
  ⟨⟨[], [], rfl, rfl, rfl, rfl⟩, rfl, rfl, rfl⟩

theorem Rep.slice_cur {b : BRaw} {r : Raw} (h : Rep b r) : sliceFrom b.cur b.pos = some r.line := by
  obtain ⟨⟨pre, done, h1, h2, h3, h4⟩, _⟩ := h
  rw [h3, h4, sliceFrom_append]


theorem next_refines {b : BRaw} {r : Raw} (h : Rep b r) :
    match r.next with
    | .eol => b.next = some .eol
    | .panic => b.next = some .panic
    | .got c k r' => ∃ b', b.next = some (.got c k b') ∧ Rep b' r' := by
  have hs := h.slice_cur
  obtain ⟨⟨pre, done, h1, h2, h3, h4⟩, hk, hl, ht⟩ := h
  unfold Raw.next BRaw.next
  rw [hs]
  cases hline : r.line with
  | nil => simp
  | cons c l =>
    simp only [hk, hl]
    by_cases hkl : r.key < r.limit
    · simp only [hkl, if_true]
      refine ⟨_, rfl, ⟨⟨pre, done ++ [c], h1, h2, ?_, ?_⟩, rfl, rfl, ht⟩⟩
      · simp [h3, hline]
      · simp only [h4, byteLen_append, byteLen]; omega
    · simp only [hkl, if_false]

theorem endLine_refines {b : BRaw} {r : Raw} (h : Rep b r) :
    ∃ b', b.endLine = some b' ∧ Rep b' r.endLine := by
  have hs := h.slice_cur
  obtain ⟨⟨pre, done, h1, h2, h3, h4⟩, hk, hl, ht⟩ := h
  refine ⟨{ b with key := b.key + r.line.length, pos := byteLen b.cur }, by simp only [BRaw.endLine, hs]; rfl,
    ⟨⟨pre, b.cur, h1, h2, by simp [Raw.endLine], rfl⟩, ?_, hl, ht⟩⟩
  simp [Raw.endLine, hk]

theorem startNewLine_refines (cfg : Cfg) {b : BRaw} {r : Raw} (h : Rep b r) :
    ∃ b', b.startNewLine cfg = some ((r.startNewLine cfg).1, b') ∧ Rep b' (r.startNewLine cfg).2 := by
  have hs := h.slice_cur
  obtain ⟨⟨pre, done, h1, h2, h3, h4⟩, hk, hl, ht⟩ := h
  unfold BRaw.startNewLine Raw.startNewLine
  rw [hs]
  simp only []
  cases hrest : r.rest with
  | nil =>
    have : byteLen b.src ≤ b.nextLine := by rw [h1, h2, hrest]; simp
    rw [if_pos this]
    exact ⟨_, rfl, ⟨⟨pre, [], by simp [h1, hrest], h2, rfl, rfl⟩, by simp [hk, ht], hl, ht⟩⟩
  | cons c t =>
    have hpos := utf8Len_pos c
    have : ¬ byteLen b.src ≤ b.nextLine := by
      rw [h1, h2, hrest, byteLen_append]; simp only [byteLen]; omega
    rw [if_neg this]
    have hsl : sliceFrom b.src b.nextLine = some (c :: t) := by rw [h1, h2, hrest, sliceFrom_append]
    rw [hsl]
    simp only []
    have hloop := lineLoop_eq (c :: t) [] 0 b.nextLine
    simp only [byteLen, Nat.add_zero] at hloop
    obtain ⟨gap, hd, hg⟩ := scanLineGo_decomp (c :: t) [] 0
    simp only [List.replicate_zero, List.append_nil, List.nil_append] at hd
    rw [hloop]
    generalize hgo : scanLineGo [] 0 (c :: t) = g at hd hg
    obtain ⟨content, nsp, rest'⟩ := g
    simp only [] at hd hg ⊢
    have hsr : sliceRange b.src b.nextLine (b.nextLine + byteLen content) = some content := by
      rw [h1, h2, hrest, hd]; exact sliceRange_append pre content (gap ++ rest')
    rw [hsr]
    simp only []
    have hsrc : b.src = (pre ++ content ++ gap) ++ rest' := by rw [h1, hrest, hd]; simp
    have hnl : b.nextLine + byteLen content + nsp = byteLen (pre ++ content ++ gap) := by
      rw [byteLen_append, byteLen_append, h2, hg]
    cases cfg.endline with
    | none =>
      exact ⟨_, rfl, ⟨⟨pre ++ content ++ gap, [], hsrc, hnl, rfl, rfl⟩, by simp [hk, ht], hl, rfl⟩⟩
    | some e =>
      exact ⟨_, rfl, ⟨⟨pre ++ content ++ gap, [], hsrc, hnl, rfl, rfl⟩, by simp [hk, ht], hl, rfl⟩⟩


theorem advance_refines : ∀ (n : Nat) {b : BRaw} {r : Raw}, Rep b r → n ≤ r.line.length →
    (r.key + n ≤ r.limit → ∃ b', b.advance n = some (some b') ∧
        Rep b' { r with line := r.line.drop n, key := r.key + n }) ∧
    (r.limit < r.key + n → 0 < n → b.advance n = some none) := by
  intro n
  induction n with
  | zero =>
    intro b r h _
    refine ⟨fun _ => ⟨b, rfl, ?_⟩, fun _ h' => by omega⟩
    cases r; simpa using h
  | succ n ih =>
    intro b r h hn
    have hnx := next_refines h
    have hs := h.slice_cur
    cases hline : r.line with
    | nil => rw [hline] at hn; simp at hn
    | cons c l =>
      simp only [BRaw.advance, hs, hline, h.key, h.limit]
      unfold Raw.next at hnx
      rw [hline] at hnx
      by_cases hk : r.key < r.limit
      · simp only [hk, if_true] at hnx ⊢
        obtain ⟨b', e, hrep⟩ := hnx
        unfold BRaw.next at e
        rw [hs, hline] at e
        simp only [h.key, h.limit, hk, if_true, Option.some.injEq, BNx.got.injEq, true_and] at e
        subst e
        have := ih hrep (by rw [hline] at hn; simpa using hn)
        simp only [List.drop_succ_cons] at this ⊢
        refine ⟨fun hle => ?_, fun hlt _ => ?_⟩
        · obtain ⟨b'', e2, r2⟩ := this.1 (by omega)
          refine ⟨b'', e2, ?_⟩
          have e3 : r.key + 1 + n = r.key + (n + 1) := by omega
          rw [e3] at r2; exact r2
        · exact this.2 (by omega) (by omega)
      · simp only [hk, if_false]
        exact ⟨fun hle => by omega, fun _ _ => trivial⟩

theorem utf8Len_ascii {c : Char} (h : c.toNat < 128) : utf8Len c = 1 := by simp [utf8Len, h]

theorem hexVal_ascii {c : Char} {v : Nat} (h : hexVal c = some v) : c.toNat < 128 := by
  unfold hexVal at h
  split at h
  · omega
  · split at h
    · omega
    · cases h


theorem charAt_at (pfx line : List Char) (p : Nat) (hp : p = byteLen pfx) (l : List Char)
    (hl : l = pfx ++ line) : charAt l p = some line.head? := by
  subst hp; subst hl; exact charAt_append pfx line

theorem caret_refines {b : BRaw} {r : Raw} (h : Rep b r) (c1 : Char) (consumed : Bool)
    (hb : consumed = false → ∃ t, r.line = c1 :: t) :
    match r.caret c1 consumed with
    | .no => b.caret c1 consumed = some .no
    | .panic => b.caret c1 consumed = some .panic
    | .yes r' => ∃ b', b.caret c1 consumed = some (.yes b') ∧ Rep b' r' := by
  obtain ⟨pre, done, h1, h2, h3, h4⟩ := h.ex
  -- the characters before `char_2`
  obtain ⟨front, l2, hline, hskip, hfront⟩ : ∃ front l2, r.line = front ++ l2 ∧
      front.length = (if consumed then 0 else 1) ∧
      (if consumed then b.pos else b.pos + utf8Len c1) = byteLen (done ++ front) := by
    cases consumed with
    | true => exact ⟨[], r.line, rfl, rfl, by simp [h4]⟩
    | false =>
      obtain ⟨t, ht⟩ := hb rfl
      exact ⟨[c1], t, ht, rfl, by simp [h4, byteLen_append, byteLen]⟩
  have hdrop : r.line.drop (if consumed then 0 else 1) = l2 := by
    rw [hline, ← hskip]; simp
  have hcur : b.cur = (done ++ front) ++ l2 := by rw [h3, hline]; simp
  unfold Raw.caret BRaw.caret
  simp only [hdrop, hfront]
  rw [hcur, charAt_append]
  match l2, hdrop, hcur with
  | [], _, _ => simp
  | [c2], _, hcur =>
    simp only [List.head?_cons]
    by_cases h2 : c2 = c1
    · simp only [h2, ne_eq, not_true_eq_false, if_false]
      rw [charAt_at (done ++ front ++ [c1]) [] _ (by simp only [byteLen_append, byteLen]; omega) _ (by simp)]
      simp
    · simp [h2]
  | c2 :: c3 :: l3, hdrop, hcur =>
    simp only [List.head?_cons]
    by_cases h2 : c2 = c1
    · subst h2
      simp only [ne_eq, not_true_eq_false, if_false]
      rw [charAt_at (done ++ front ++ [c2]) (c3 :: l3) _ (by simp only [byteLen_append, byteLen]; omega) _ (by simp)]
      simp only [List.head?_cons]
      by_cases h3 : 128 ≤ c3.toNat
      · simp [h3]
      · simp only [h3, if_false]
        rw [charAt_at (done ++ front ++ [c2, c3]) l3 _ (by simp only [byteLen_append, byteLen]; omega) _ (by simp)]
        simp only []
        have hlen : r.line.length = (if consumed then 0 else 1) + l3.length + 2 := by
          rw [hline, List.length_append, hskip]; simp; omega
        cases hx : hexVal c3 with
        | none =>
          simp only []
          have adv := advance_refines ((if consumed then 0 else 1) + 1) h (by omega)
          have hd : r.line.drop ((if consumed then 0 else 1) + 1) = c3 :: l3 := by
            rw [hline, ← hskip]; simp
          by_cases hk : r.key + ((if consumed then 0 else 1) + 1) ≤ r.limit
          · obtain ⟨b', e, hrep⟩ := adv.1 hk
            obtain ⟨pre', done', q1, q2, q3, q4⟩ := hrep.ex
            simp only [hd] at q3
            rw [e, if_pos hk]
            simp only []
            rw [q3, q4, writeAscii_append _ _ _ _ (utf8Len_ascii (by omega))]
            refine ⟨_, rfl, ⟨⟨pre', done', q1, q2, rfl, rfl⟩, hrep.key, hrep.limit, hrep.trimmed⟩⟩
          · rw [adv.2 (by omega) (by omega), if_neg hk]
        | some hi =>
          cases hy : l3.head?.bind hexVal with
          | none =>
            simp only []
            have adv := advance_refines ((if consumed then 0 else 1) + 1) h (by omega)
            have hd : r.line.drop ((if consumed then 0 else 1) + 1) = c3 :: l3 := by
              rw [hline, ← hskip]; simp
            by_cases hk : r.key + ((if consumed then 0 else 1) + 1) ≤ r.limit
            · obtain ⟨b', e, hrep⟩ := adv.1 hk
              obtain ⟨pre', done', q1, q2, q3, q4⟩ := hrep.ex
              simp only [hd] at q3
              rw [e, if_pos hk]
              simp only []
              rw [q3, q4, writeAscii_append _ _ _ _ (utf8Len_ascii (by omega))]
              refine ⟨_, rfl, ⟨⟨pre', done', q1, q2, rfl, rfl⟩, hrep.key, hrep.limit, hrep.trimmed⟩⟩
            · rw [adv.2 (by omega) (by omega), if_neg hk]
          | some lo =>
            simp only []
            obtain ⟨c4, l4, hl3, hc4⟩ : ∃ c4 l4, l3 = c4 :: l4 ∧ hexVal c4 = some lo := by
              cases l3 with
              | nil => simp at hy
              | cons c4 l4 => exact ⟨c4, l4, rfl, by simpa using hy⟩
            have adv := advance_refines ((if consumed then 0 else 1) + 2) h (by rw [hlen, hl3]; simp)
            have hd : r.line.drop ((if consumed then 0 else 1) + 2) = c4 :: l4 := by
              rw [hline, ← hskip, hl3]; simp
            by_cases hk : r.key + ((if consumed then 0 else 1) + 2) ≤ r.limit
            · obtain ⟨b', e, hrep⟩ := adv.1 hk
              obtain ⟨pre', done', q1, q2, q3, q4⟩ := hrep.ex
              simp only [hd] at q3
              rw [e, if_pos hk]
              simp only [replaceOne]
              rw [q3, q4, writeAscii_append _ _ _ _ (utf8Len_ascii (hexVal_ascii hc4))]
              refine ⟨_, rfl, ⟨⟨pre', done', q1, q2, ?_, rfl⟩, hrep.key, hrep.limit, hrep.trimmed⟩⟩
              simp [hl3]
            · rw [adv.2 (by omega) (by omega), if_neg hk]
    · simp [h2]


/-! ### the `Lexer` on top -/


def RelOut {α : Type} : Out (α × BRaw) → Out (α × Raw) → Prop
  | .ok (a, b), .ok (a', r) => a = a' ∧ Rep b r
  | .panic, .panic => True
  | .fuel, .fuel => True
  | _, _ => False

theorem readLetters_refines (cfg : Cfg) : ∀ (f : Nat) (acc : List Char) {b : BRaw} {r : Raw},
    Rep b r → ∃ o, bReadLetters cfg f acc b = some o ∧ RelOut o (readLetters cfg f acc r) := by
  intro f
  induction f with
  | zero => intro acc b r _; exact ⟨.fuel, rfl, trivial⟩
  | succ f ih =>
    intro acc b r h
    have hs := h.slice_cur
    simp only [bReadLetters, readLetters, hs]
    cases hline : r.line with
    | nil => exact ⟨_, rfl, rfl, h⟩
    | cons c l =>
      simp only [h.key, h.limit]
      by_cases hk : r.limit ≤ r.key
      · simp only [hk, if_true]; exact ⟨_, rfl, trivial⟩
      · simp only [hk, if_false]
        cases hc : cfg.cat c
        case letter =>
          simp only []
          have adv := advance_refines 1 h (by rw [hline]; simp)
          obtain ⟨b', e, hrep⟩ := adv.1 (by omega)
          rw [e]
          simp only [hline, List.drop_succ_cons, List.drop_zero] at hrep
          exact ih (acc ++ [c]) hrep
        case superscript =>
          simp only []
          have cr := caret_refines h c false (fun _ => ⟨l, hline⟩)
          cases hcr : r.caret c false with
          | no => rw [hcr] at cr; rw [cr]; exact ⟨_, rfl, rfl, h⟩
          | panic => rw [hcr] at cr; rw [cr]; exact ⟨_, rfl, trivial⟩
          | yes r' =>
            rw [hcr] at cr
            obtain ⟨b', e, hrep⟩ := cr
            rw [e]
            exact ih acc hrep
        all_goals exact ⟨_, rfl, rfl, h⟩


def RelOut2 : Out (List Char × St × BRaw) → Out (List Char × St × Raw) → Prop
  | .ok (a, s, b), .ok (a', s', r) => a = a' ∧ s = s' ∧ Rep b r
  | .panic, .panic => True
  | .fuel, .fuel => True
  | _, _ => False

theorem readCS_refines (cfg : Cfg) : ∀ (f : Nat) {b : BRaw} {r : Raw},
    Rep b r → ∃ o, bReadCS cfg f b = some o ∧ RelOut2 o (readCS cfg f r) := by
  intro f
  induction f with
  | zero => intro b r _; exact ⟨.fuel, rfl, trivial⟩
  | succ f ih =>
    intro b r h
    have hn := next_refines h
    simp only [bReadCS, readCS]
    cases hnx : r.next with
    | eol => rw [hnx] at hn; rw [hn]; exact ⟨_, rfl, rfl, rfl, h⟩
    | panic => rw [hnx] at hn; rw [hn]; exact ⟨_, rfl, trivial⟩
    | got c k r1 =>
      rw [hnx] at hn
      obtain ⟨b1, e, h1⟩ := hn
      rw [e]
      simp only []
      cases hc : cfg.cat c
      case letter =>
        simp only [h1.slice_cur]
        obtain ⟨o, eo, ro⟩ := readLetters_refines cfg (r1.line.length + 1) [c] h1
        rw [eo]
        cases hrl : readLetters cfg (r1.line.length + 1) [c] r1 with
        | ok x =>
          obtain ⟨name, r2⟩ := x
          rw [hrl] at ro
          cases o with
          | ok y => obtain ⟨n2, b2⟩ := y; exact ⟨_, rfl, ro.1, rfl, ro.2⟩
          | panic => exact absurd ro (by simp [RelOut])
          | fuel => exact absurd ro (by simp [RelOut])
        | panic =>
          rw [hrl] at ro
          cases o with
          | ok y => obtain ⟨n2, b2⟩ := y; exact absurd ro (by simp [RelOut])
          | panic => exact ⟨_, rfl, trivial⟩
          | fuel => exact absurd ro (by simp [RelOut])
        | fuel =>
          rw [hrl] at ro
          cases o with
          | ok y => obtain ⟨n2, b2⟩ := y; exact absurd ro (by simp [RelOut])
          | panic => exact absurd ro (by simp [RelOut])
          | fuel => exact ⟨_, rfl, trivial⟩
      case superscript =>
        simp only []
        have cr := caret_refines h1 c true (by simp)
        cases hcr : r1.caret c true with
        | no => rw [hcr] at cr; rw [cr]; exact ⟨_, rfl, rfl, rfl, h1⟩
        | panic => rw [hcr] at cr; rw [cr]; exact ⟨_, rfl, trivial⟩
        | yes r' =>
          rw [hcr] at cr
          obtain ⟨b', e', hrep⟩ := cr
          rw [e']
          exact ih hrep
      all_goals exact ⟨_, rfl, rfl, rfl, h1⟩


structure RepL (B : BLexer) (L : Lexer) : Prop where
  raw : Rep B.raw L.raw
  st : B.st = L.st
  started : B.started = L.started

theorem nextF_refines (cfg : Cfg) (rep : Bool) : ∀ (f : Nat) {B : BLexer} {L : Lexer}, RepL B L →
    ∃ B', B.nextF cfg rep f = some ((L.nextF cfg rep f).1, B') ∧ RepL B' (L.nextF cfg rep f).2 := by
  intro f
  induction f with
  | zero => intro B L h; exact ⟨B, rfl, h⟩
  | succ f ih =>
    intro B L h
    have hn := next_refines h.raw
    simp only [BLexer.nextF, Lexer.nextF]
    cases hnx : L.raw.next with
    | eol =>
      rw [hnx] at hn; rw [hn]
      simp only []
      obtain ⟨b', e, hrep⟩ := startNewLine_refines cfg h.raw
      rw [e]
      generalize L.raw.startNewLine cfg = p at hrep
      obtain ⟨more, raw⟩ := p
      simp only [] at hrep ⊢
      cases more with
      | false => exact ⟨_, rfl, hrep, rfl, h.started⟩
      | true =>
        simp only [Bool.not_true, Bool.false_eq_true, if_false]
        cases rep with
        | false =>
          simp only [Bool.false_eq_true, if_false]
          exact ih ⟨hrep, rfl, h.started⟩
        | true =>
          simp only [if_true, h.started]
          cases L.started with
          | true => exact ⟨_, rfl, hrep, rfl, rfl⟩
          | false =>
            simp only [Bool.false_eq_true, if_false]
            exact ih ⟨hrep, rfl, rfl⟩
    | panic => rw [hnx] at hn; rw [hn]; exact ⟨_, rfl, h⟩
    | got c k r1 =>
      rw [hnx] at hn
      obtain ⟨b1, e, h1⟩ := hn
      rw [e]
      simp only []
      have hE := endLine_refines h1
      cases hc : cfg.cat c
      case escape =>
        simp only [h1.slice_cur]
        obtain ⟨o, eo, ro⟩ := readCS_refines cfg (r1.line.length + 1) h1
        rw [eo]
        cases hrc : readCS cfg (r1.line.length + 1) r1 with
        | ok x =>
          obtain ⟨name, st, r2⟩ := x
          rw [hrc] at ro
          cases o with
          | ok y =>
            obtain ⟨n2, s2, b2⟩ := y
            obtain ⟨rfl, rfl, hr⟩ := ro
            exact ⟨_, rfl, hr, rfl, h.started⟩
          | panic => exact absurd ro (by simp [RelOut2])
          | fuel => exact absurd ro (by simp [RelOut2])
        | panic =>
          rw [hrc] at ro
          cases o with
          | ok y => obtain ⟨n2, s2, b2⟩ := y; exact absurd ro (by simp [RelOut2])
          | panic => exact ⟨_, rfl, h1, h.st, h.started⟩
          | fuel => exact absurd ro (by simp [RelOut2])
        | fuel =>
          rw [hrc] at ro
          cases o with
          | ok y => obtain ⟨n2, s2, b2⟩ := y; exact absurd ro (by simp [RelOut2])
          | panic => exact absurd ro (by simp [RelOut2])
          | fuel => exact ⟨_, rfl, h1, h.st, h.started⟩
      case endOfLine =>
        obtain ⟨bE, eE, hEr⟩ := hE
        simp only [eE, h.st]
        cases L.st with
        | newLine => exact ⟨_, rfl, hEr, rfl, h.started⟩
        | midLine => exact ⟨_, rfl, hEr, rfl, h.started⟩
        | skipBlanks => exact ih ⟨hEr, rfl, h.started⟩
      case space =>
        simp only [h.st]
        cases hst : L.st with
        | midLine => exact ⟨_, rfl, h1, rfl, h.started⟩
        | newLine => exact ih ⟨h1, rfl, h.started⟩
        | skipBlanks => exact ih ⟨h1, rfl, h.started⟩
      case superscript =>
        simp only []
        have cr := caret_refines h1 c true (by simp)
        cases hcr : r1.caret c true with
        | no => rw [hcr] at cr; rw [cr]; exact ⟨_, rfl, h1, rfl, h.started⟩
        | panic => rw [hcr] at cr; rw [cr]; exact ⟨_, rfl, h1, h.st, h.started⟩
        | yes r' =>
          rw [hcr] at cr
          obtain ⟨b', e', hrep⟩ := cr
          rw [e']
          exact ih ⟨hrep, h.st, h.started⟩
      case comment =>
        obtain ⟨bE, eE, hEr⟩ := hE
        simp only [eE]
        exact ih ⟨hEr, h.st, h.started⟩
      case ignored => exact ih ⟨h1, h.st, h.started⟩
      case invalid => exact ⟨_, rfl, h1, h.st, h.started⟩
      all_goals exact ⟨_, rfl, h1, rfl, h.started⟩


theorem RepL.mu {B : BLexer} {L : Lexer} (h : RepL B L) : B.mu = L.mu := by
  obtain ⟨pre, done, h1, h2, h3, h4⟩ := h.raw.ex
  unfold BLexer.mu Lexer.mu
  rw [h1, h2, h3, h4, sliceFrom_append, sliceFrom_append]

theorem bLexAllF_eq (cfg : Cfg) (rep : Bool) : ∀ (F : Nat) {B : BLexer} {L : Lexer}, RepL B L →
    bLexAllF cfg rep F B = some (lexAllF cfg rep F L) := by
  intro F
  induction F with
  | zero => intros; rfl
  | succ F ih =>
    intro B L h
    obtain ⟨B', e, hrep⟩ := nextF_refines cfg rep (L.mu + 1) h
    simp only [bLexAllF, lexAllF, Lexer.next, h.mu, e]
    generalize Lexer.nextF cfg rep (L.mu + 1) L = p at hrep
    obtain ⟨res, L'⟩ := p
    cases res <;> simp [ih hrep]

/-- The byte-level lexer never slices off a character boundary, and delivers what the
character-level model delivers. -/
theorem bLexAll_eq (cfg : Cfg) (rep : Bool) (src : List Char) :
    bLexAll cfg rep src = some (lexAll cfg rep src) := by
  unfold bLexAll lexAll
  have : (Lexer.init src).mu + 2 = 3 * src.length + 2 := by simp [Lexer.mu, Lexer.init]
  rw [this]
  exact bLexAllF_eq cfg rep _ ⟨Rep.init src, rfl, rfl⟩


end Bytes
end C03

/-! ### the two equivalent mutants of the sweep (23, 25) -/
namespace C03

/-- Mutant 25 of the sweep (`mutants/C03/25-…`): the newline step guarded by
`char_index < char_offset` and done before the offset test. -/
def traceLoop25 (off : Nat) : Nat → Nat → Nat → List Char → List Char → Nat × Nat × List Char
  | _, ln, ls, tail, [] => (ln, ls, tail)
  | i, ln, ls, tail, c :: t =>
    let (ln', ls', tail') := if c = '\n' ∧ i < off then (ln + 1, i + 1, t) else (ln, ls, tail)
    if i = off then (ln', ls', tail') else traceLoop25 off (i + 1) ln' ls' tail' t

theorem traceLoop25_eq (off : Nat) : ∀ (rem : List Char) (i ln ls : Nat) (tail : List Char), i ≤ off →
    traceLoop25 off i ln ls tail rem = traceLoop off i ln ls tail rem := by
  intro rem
  induction rem with
  | nil => intros; rfl
  | cons c t ih =>
    intro i ln ls tail hi
    simp only [traceLoop25, traceLoop]
    by_cases h : i = off
    · subst h; simp
    · have hlt : i < off := by omega
      by_cases hc : c = '\n'
      · simp only [hc, hlt, and_self, if_true, h, if_false]; exact ih _ _ _ _ (by omega)
      · simp only [hc, false_and, if_false, h]; exact ih _ _ _ _ (by omega)

namespace Bytes

/-- Mutant 23 of the sweep: `self.next_line = end + num_spaces.max(1)`. -/
def BRaw.startNewLine23 (cfg : Cfg) (b : BRaw) : Option (Bool × BRaw) :=
  match sliceFrom b.cur b.pos with
  | none => none
  | some tail =>
    let key := b.key + tail.length + b.trimmed
    if byteLen b.src ≤ b.nextLine then some (false, { b with key := key, pos := 0, cur := [] })
    else
      match sliceFrom b.src b.nextLine with
      | none => none
      | some s =>
        match lineLoop b.nextLine 0 s with
        | (e, nsp) =>
          match sliceRange b.src b.nextLine e with
          | none => none
          | some content =>
            match cfg.endline with
            | none =>
              some (true, { b with key := key, pos := 0, cur := content, trimmed := nsp,
                                   nextLine := e + max nsp 1 })
            | some ch =>
              some (true, { b with key := key, pos := 0, cur := content ++ [ch],
                                   trimmed := nsp - 1, nextLine := e + max nsp 1 })

/-- Why mutant 23 is equivalent: the two `start_new_line`s produce the same state except for
`next_line`, and `next_line` differs only when the source is used up — there the original has
`next_line = len` and the mutant `len + 1`, both of which make the next `start_new_line` return
`false` before it slices (`next_line` is read nowhere else). -/
theorem mutant23_equiv (cfg : Cfg) {b : BRaw} {r : Raw} (h : Rep b r) :
    ∃ m b' n, b.startNewLine cfg = some (m, b') ∧
      b.startNewLine23 cfg = some (m, { b' with nextLine := n }) ∧
      (n = b'.nextLine ∨ (b'.nextLine = byteLen b.src ∧ n = byteLen b.src + 1)) := by
  have hs := h.slice_cur
  obtain ⟨pre, done, h1, h2, h3, h4⟩ := h.ex
  unfold BRaw.startNewLine BRaw.startNewLine23
  rw [hs]
  simp only []
  cases hrest : r.rest with
  | nil =>
    have : byteLen b.src ≤ b.nextLine := by rw [h1, h2, hrest]; simp
    simp only [this, if_true]
    exact ⟨_, _, _, rfl, rfl, Or.inl rfl⟩
  | cons c t =>
    have hpos := utf8Len_pos c
    have : ¬ byteLen b.src ≤ b.nextLine := by
      rw [h1, h2, hrest, byteLen_append]; simp only [byteLen]; omega
    simp only [this, if_false]
    have hsl : sliceFrom b.src b.nextLine = some (c :: t) := by rw [h1, h2, hrest, sliceFrom_append]
    simp only [hsl]
    have hloop := lineLoop_eq (c :: t) [] 0 b.nextLine
    simp only [byteLen, Nat.add_zero] at hloop
    obtain ⟨gap, hd, hg⟩ := scanLineGo_decomp (c :: t) [] 0
    have hz := (scanLineGo_len (c :: t) [] 0).2
    simp only [List.replicate_zero, List.append_nil, List.nil_append] at hd
    simp only [hloop]
    generalize hgo : scanLineGo [] 0 (c :: t) = g at hd hg hz
    obtain ⟨content, nsp, rest'⟩ := g
    simp only [] at hd hg hz ⊢
    have hsr : sliceRange b.src b.nextLine (b.nextLine + byteLen content) = some content := by
      rw [h1, h2, hrest, hd]; exact sliceRange_append pre content (gap ++ rest')
    simp only [hsr]
    have hend : nsp = 0 → b.nextLine + byteLen content + nsp = byteLen b.src := by
      intro h0
      have hr := hz h0
      have hg0 : gap = [] := by
        cases gap with
        | nil => rfl
        | cons a t' => rw [h0] at hg; simp only [byteLen] at hg; have := utf8Len_pos a; omega
      rw [h1, h2, hrest, hd, hr, hg0, h0]
      simp [byteLen_append]
    cases cfg.endline with
    | none =>
      refine ⟨_, _, _, rfl, rfl, ?_⟩
      by_cases h0 : nsp = 0
      · right; exact ⟨hend h0, by rw [← hend h0, h0]; rfl⟩
      · left; show b.nextLine + byteLen content + max nsp 1 = b.nextLine + byteLen content + nsp; omega
    | some e =>
      refine ⟨_, _, _, rfl, rfl, ?_⟩
      by_cases h0 : nsp = 0
      · right; exact ⟨hend h0, by rw [← hend h0, h0]; rfl⟩
      · left; show b.nextLine + byteLen content + max nsp 1 = b.nextLine + byteLen content + nsp; omega

end Bytes
end C03
