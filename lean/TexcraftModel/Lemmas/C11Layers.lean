/-
C11 — the character layer: `charsTrip` preserves every value (width, height, depth, italic
correction, tag, NEXTLARGER, VARCHAR recipe) of every character, and is idempotent.
-/
import TexcraftModel.Model.C11
import TexcraftModel.Model.C11Layers
import TexcraftModel.Lemmas.C11Dims

namespace C11

/-! ### One table -/

theorem contrib_ne_zero {t : List Int} {i : Nat} {v : Int} (h : contrib t i = some v) : v ≠ 0 := by
  simp only [contrib] at h
  split at h
  · simp at h
  · cases hs : sel t i with
    | none => simp [hs] at h
    | some w =>
      simp only [hs, Option.bind_some] at h
      split at h
      · simp at h
      · simp only [Option.some.injEq] at h; subst h; assumption

theorem zero_not_pushed (t : List Int) (idx : List Nat) : (0 : Int) ∉ pushed t idx := by
  intro h
  simp only [pushed, List.mem_filterMap] at h
  obtain ⟨i, _, hi⟩ := h
  exact contrib_ne_zero hi rfl

/-- The value a height/depth/italic index selects survives the trip. -/
theorem sel_newIdx (t : List Int) (idx : List Nat) (i : Nat) (h0 : t[0]? = some 0) (hi : i < t.length)
    (hmem : i ∈ idx) : sel (table (pushed t idx)) (newIdx t idx i) = sel t i := by
  simp only [newIdx]
  by_cases hz : i = 0
  · subst hz; simp [sel, table, h0]
  · simp only [hz, if_false]
    have hs : sel t i = some t[i] := by simp [sel, List.getElem?_eq_getElem hi]
    simp only [hs]
    by_cases hv : t[i] = 0
    · rw [hv]
      have := index_absent (v := 0) (vals := pushed t idx) (zero_not_pushed t idx)
      rw [this.1]; exact this.2
    · have hin : t[i] ∈ pushed t idx := by
        simp only [pushed, List.mem_filterMap]
        exact ⟨i, hmem, by simp [contrib, hz, hs, hv]⟩
      exact index_preserved hin

theorem newIdx_cases (t : List Int) (idx : List Nat) (i : Nat) (hi : i < t.length) (hmem : i ∈ idx) :
    (newIdx t idx i = 0 ∧ contrib t i = none) ∨
    (i ≠ 0 ∧ t[i] ≠ 0 ∧ t[i] ∈ pushed t idx ∧ newIdx t idx i = dimIndex t[i] (pushed t idx) ∧
      newIdx t idx i ≠ 0 ∧ contrib t i = some t[i]) := by
  have hs : sel t i = some t[i] := by simp [sel, List.getElem?_eq_getElem hi]
  by_cases hz : i = 0
  · left; subst hz; simp [newIdx, contrib]
  · by_cases hv : t[i] = 0
    · left
      refine ⟨?_, by simp [contrib, hz, hs, hv]⟩
      simp only [newIdx, hz, if_false, hs, hv]
      exact (index_absent (zero_not_pushed t idx)).1
    · right
      have hin : t[i] ∈ pushed t idx := by
        simp only [pushed, List.mem_filterMap]
        exact ⟨i, hmem, by simp [contrib, hz, hs, hv]⟩
      have hn : newIdx t idx i = dimIndex t[i] (pushed t idx) := by simp [newIdx, hz, hs]
      refine ⟨hz, hv, hin, hn, ?_, by simp [contrib, hz, hs, hv]⟩
      rw [hn]
      simp only [dimIndex]
      obtain ⟨j, hj, _⟩ := dims_indexOf_of_mem ((mem_sortDedup).mpr hin)
      simp [hj]

/-- What a character contributes to the table is the same on the second trip. -/
theorem contrib_stable (t : List Int) (idx : List Nat) (i : Nat) (h0 : t[0]? = some 0) (hi : i < t.length)
    (hmem : i ∈ idx) : contrib (table (pushed t idx)) (newIdx t idx i) = contrib t i := by
  have hsel := sel_newIdx t idx i h0 hi hmem
  rcases newIdx_cases t idx i hi hmem with ⟨hn, hc⟩ | ⟨hz, hv, _, _, hpos, hc⟩
  · rw [hn, hc]; simp [contrib]
  · have hs : sel t i = some t[i] := by simp [sel, List.getElem?_eq_getElem hi]
    rw [hc]
    simp only [contrib, hpos, if_false, hsel, hs, Option.bind_some, hv]

theorem filterMap_congr' {α β : Type} (f g : α → Option β) : ∀ (l : List α), (∀ x ∈ l, f x = g x) →
    l.filterMap f = l.filterMap g := by
  intro l
  induction l with
  | nil => intro _; rfl
  | cons a t ih =>
    intro h
    rw [List.filterMap_cons, List.filterMap_cons, h a (List.mem_cons_self ..),
      ih (fun x hx => h x (List.mem_cons_of_mem _ hx))]

theorem newIdx_nonzero (T : List Int) (idx' : List Nat) (n : Nat) (v : Int) (hn : n ≠ 0) (hs : sel T n = some v) :
    newIdx T idx' n = dimIndex v (pushed T idx') := by
  simp [newIdx, hn, hs]

theorem pushed_stable (t : List Int) (idx : List Nat) (h0 : t[0]? = some 0) (hall : ∀ i ∈ idx, i < t.length) :
    pushed (table (pushed t idx)) (idx.map (newIdx t idx)) = pushed t idx := by
  simp only [pushed, List.filterMap_map]
  apply filterMap_congr'
  intro i hi
  exact contrib_stable t idx i h0 (hall i hi) hi

theorem newIdx_stable (t : List Int) (idx : List Nat) (i : Nat) (h0 : t[0]? = some 0)
    (hall : ∀ i ∈ idx, i < t.length) (hmem : i ∈ idx) :
    newIdx (table (pushed t idx)) (idx.map (newIdx t idx)) (newIdx t idx i) = newIdx t idx i := by
  have hi := hall i hmem
  have hsel := sel_newIdx t idx i h0 hi hmem
  rcases newIdx_cases t idx i hi hmem with ⟨hn, _⟩ | ⟨_, _, _, hn, hpos, _⟩
  · rw [hn]; simp [newIdx]
  · have hs : sel t i = some t[i] := by simp [sel, List.getElem?_eq_getElem hi]
    rw [hs] at hsel
    rw [newIdx_nonzero _ _ _ _ hpos hsel, pushed_stable t idx h0 hall]
    exact hn.symm

/-! ### Widths -/

theorem sel_newWi (W : List Int) (rows : List CharRow) (r : CharRow) (hr : r ∈ rows) (hi : r.wi < W.length) :
    sel (table (widthVals W rows)) (newWi W (widthVals W rows) r.wi) = sel W r.wi := by
  have hs : sel W r.wi = some W[r.wi] := by simp [sel, List.getElem?_eq_getElem hi]
  simp only [newWi, hs]
  apply index_preserved
  simp only [widthVals, List.mem_filterMap]
  exact ⟨r, hr, hs⟩

/-! ### Rows -/

theorem tripRows_filterMap {β : Type} (x : RawChars) (wv : List Int) (his dis iis : List Nat)
    (F G : CharRow → Option β) : ∀ (rows : List CharRow) (n : Nat),
    (∀ r ∈ rows, ∀ n, F (tripRow x wv his dis iis n r) = G r) →
    (tripRows x wv his dis iis n rows).filterMap F = rows.filterMap G := by
  intro rows
  induction rows with
  | nil => intro n _; rfl
  | cons r rest ih =>
    intro n h
    simp only [tripRows, List.filterMap_cons, h r (List.mem_cons_self ..) n]
    rw [ih _ (fun r' hr' => h r' (List.mem_cons_of_mem _ hr'))]

theorem tripRows_map {β : Type} (x : RawChars) (wv : List Int) (his dis iis : List Nat)
    (F G : CharRow → β) : ∀ (rows : List CharRow) (n : Nat),
    (∀ r ∈ rows, ∀ n, F (tripRow x wv his dis iis n r) = G r) →
    (tripRows x wv his dis iis n rows).map F = rows.map G := by
  intro rows
  induction rows with
  | nil => intro n _; rfl
  | cons r rest ih =>
    intro n h
    simp only [tripRows, List.map_cons, h r (List.mem_cons_self ..) n]
    rw [ih _ (fun r' hr' => h r' (List.mem_cons_of_mem _ hr'))]

theorem tripRows_fixed (x x' : RawChars) (wv wv' : List Int) (his dis iis his' dis' iis' : List Nat) :
    ∀ (rows : List CharRow) (n : Nat),
    (∀ r ∈ rows, ∀ n, tripRow x' wv' his' dis' iis' n (tripRow x wv his dis iis n r) = tripRow x wv his dis iis n r) →
    tripRows x' wv' his' dis' iis' n (tripRows x wv his dis iis n rows) = tripRows x wv his dis iis n rows := by
  intro rows
  induction rows with
  | nil => intro n _; rfl
  | cons r rest ih =>
    intro n h
    simp only [tripRows, h r (List.mem_cons_self ..) n]
    have htag : (tripRow x wv his dis iis n r).tag = r.tag := rfl
    rw [htag, ih _ (fun r' hr' => h r' (List.mem_cons_of_mem _ hr'))]

/-! ### Recipes -/

def recipeOf (x : RawChars) (codes : List Nat) (r : CharRow) : Option Recipe :=
  if r.tag = 3 then some (printedRecipe codes r.code ((x.ext[r.rem]?).getD default)) else none

theorem newExt_eq (x : RawChars) : newExt x = x.rows.filterMap (recipeOf x (x.rows.map (·.code))) := rfl

theorem printedRecipe_idem (codes : List Nat) (c : Nat) (hc : c ∈ codes) (rc : Recipe) :
    printedRecipe codes c (printedRecipe codes c rc) = printedRecipe codes c rc := by
  have hc' : codes.contains c = true := by simpa [List.contains_iff_mem] using hc
  by_cases h : codes.contains rc.rep = true
  · simp only [printedRecipe, h, if_true]
  · have h' : codes.contains rc.rep = false := by simpa using h
    simp only [printedRecipe, h', Bool.false_eq_true, if_false, hc', if_true]

/-- On the second trip every character finds its own recipe word again. -/
theorem ext_fixed (x : RawChars) (wv : List Int) (his dis iis : List Nat) (codes : List Nat) :
    ∀ (rest : List CharRow) (pre : List Recipe), (∀ r ∈ rest, r.code ∈ codes) →
    (tripRows x wv his dis iis pre.length rest).filterMap
        (fun r' => if r'.tag = 3 then
          some (printedRecipe codes r'.code (((pre ++ rest.filterMap (recipeOf x codes))[r'.rem]?).getD default)) else none) =
      rest.filterMap (recipeOf x codes) := by
  intro rest
  induction rest with
  | nil => intro pre _; rfl
  | cons r tl ih =>
    intro pre h
    have hc := h r (List.mem_cons_self ..)
    have htl := fun r' hr' => h r' (List.mem_cons_of_mem _ hr')
    simp only [tripRows, List.filterMap_cons]
    by_cases ht : r.tag = 3
    · have hrec : recipeOf x codes r = some (printedRecipe codes r.code ((x.ext[r.rem]?).getD default)) := by
        simp [recipeOf, ht]
      simp only [ht, if_true, hrec, tripRow, List.getElem?_append_right (Nat.le_refl _), Nat.sub_self,
        List.getElem?_cons_zero, Option.getD_some, printedRecipe_idem codes r.code hc, List.cons.injEq, true_and]
      have := ih (pre ++ [printedRecipe codes r.code ((x.ext[r.rem]?).getD default)]) htl
      simp only [List.length_append, List.length_cons, List.length_nil, List.append_assoc, List.singleton_append] at this
      exact this
    · have hrec : recipeOf x codes r = none := by simp [recipeOf, ht]
      simp only [ht, if_false, hrec, tripRow]
      exact ih pre htl

/-- After the trip every character with a VARCHAR finds, under its new remainder, the recipe
tftopl printed for it. -/
theorem ext_found (x : RawChars) (wv : List Int) (his dis iis : List Nat) (codes : List Nat) :
    ∀ (rest : List CharRow) (pre : List Recipe),
    (tripRows x wv his dis iis pre.length rest).filterMap
        (fun r' => if r'.tag = 3 then (pre ++ rest.filterMap (recipeOf x codes))[r'.rem]? else none) =
      rest.filterMap (recipeOf x codes) := by
  intro rest
  induction rest with
  | nil => intro pre; rfl
  | cons r tl ih =>
    intro pre
    simp only [tripRows, List.filterMap_cons]
    by_cases ht : r.tag = 3
    · have hrec : recipeOf x codes r = some (printedRecipe codes r.code ((x.ext[r.rem]?).getD default)) := by
        simp [recipeOf, ht]
      simp only [ht, if_true, hrec, tripRow, List.getElem?_append_right (Nat.le_refl _), Nat.sub_self,
        List.getElem?_cons_zero, List.cons.injEq, true_and]
      have := ih (pre ++ [printedRecipe codes r.code ((x.ext[r.rem]?).getD default)])
      simp only [List.length_append, List.length_cons, List.length_nil, List.append_assoc, List.singleton_append] at this
      exact this
    · have hrec : recipeOf x codes r = none := by simp [recipeOf, ht]
      simp only [ht, if_false, hrec, tripRow]
      exact ih pre

theorem charsOk_parts {x : RawChars} (h : charsOk x = true) :
    (∀ r ∈ x.rows, r.wi < x.W.length ∧ r.hi < x.H.length ∧ r.di < x.D.length ∧ r.ii < x.I.length) ∧
      x.H[0]? = some 0 ∧ x.D[0]? = some 0 ∧ x.I[0]? = some 0 := by
  simp only [charsOk, Bool.and_eq_true, List.all_eq_true, decide_eq_true_eq, beq_iff_eq] at h
  obtain ⟨⟨⟨hr, hH⟩, hD⟩, hI⟩ := h
  refine ⟨?_, hH, hD, hI⟩
  intro r hr'
  have := hr r hr'
  exact ⟨this.1.1.1.1, this.1.1.1.2, this.1.1.2, this.1.2⟩

/-- **Every value of every character survives the trip**: code, tag kind, and the width,
height, depth and italic correction the index bytes select in the new tables. -/
theorem charsTrip_values_aux (x : RawChars) (h : charsOk x = true) :
    (charsTrip x).rows.map (fun r => (r.code, r.tag, sel (charsTrip x).W r.wi, sel (charsTrip x).H r.hi,
        sel (charsTrip x).D r.di, sel (charsTrip x).I r.ii)) =
      x.rows.map (fun r => (r.code, r.tag, sel x.W r.wi, sel x.H r.hi, sel x.D r.di, sel x.I r.ii)) := by
  obtain ⟨hr, hH, hD, hI⟩ := charsOk_parts h
  simp only [charsTrip]
  apply tripRows_map
  intro r hrm n
  obtain ⟨h1, h2, h3, h4⟩ := hr r hrm
  have e1 := sel_newWi x.W x.rows r hrm h1
  have e2 := sel_newIdx x.H (x.rows.map (·.hi)) r.hi hH h2 (List.mem_map_of_mem (f := (·.hi)) hrm)
  have e3 := sel_newIdx x.D (x.rows.map (·.di)) r.di hD h3 (List.mem_map_of_mem (f := (·.di)) hrm)
  have e4 := sel_newIdx x.I (x.rows.map (·.ii)) r.ii hI h4 (List.mem_map_of_mem (f := (·.ii)) hrm)
  simp only [tripRow]
  rw [e1, e2, e3, e4]

/-- NEXTLARGER targets are copied, and every VARCHAR character finds the recipe tftopl printed. -/
theorem charsTrip_tags_aux (x : RawChars) :
    (charsTrip x).rows.filterMap (fun r => if r.tag = 2 then some (r.code, r.rem) else none) =
        x.rows.filterMap (fun r => if r.tag = 2 then some (r.code, r.rem) else none) ∧
    (charsTrip x).rows.filterMap (fun r => if r.tag = 3 then (charsTrip x).ext[r.rem]? else none) =
        x.rows.filterMap (recipeOf x (x.rows.map (·.code))) := by
  constructor
  · simp only [charsTrip]
    apply tripRows_filterMap
    intro r _ n
    simp only [tripRow]
    by_cases ht : r.tag = 2
    · simp [ht]
    · simp [ht]
  · have := ext_found x (widthVals x.W x.rows) (x.rows.map (·.hi)) (x.rows.map (·.di)) (x.rows.map (·.ii))
      (x.rows.map (·.code)) x.rows []
    simpa [charsTrip, newExt_eq] using this

/-- **The second trip is the identity on the character layer.** -/
theorem charsTrip_idem_aux (x : RawChars) (h : charsOk x = true) : charsTrip (charsTrip x) = charsTrip x := by
  obtain ⟨hr, hH, hD, hI⟩ := charsOk_parts h
  -- abbreviations
  generalize hwv : widthVals x.W x.rows = wv
  generalize hhis : x.rows.map (·.hi) = his
  generalize hdis : x.rows.map (·.di) = dis
  generalize hiis : x.rows.map (·.ii) = iis
  have hx' : charsTrip x = ⟨tripRows x wv his dis iis 0 x.rows, table wv, table (pushed x.H his),
      table (pushed x.D dis), table (pushed x.I iis), newExt x⟩ := by
    simp only [charsTrip, hwv, hhis, hdis, hiis]
  have hHall : ∀ i ∈ his, i < x.H.length := by
    intro i hi; rw [← hhis] at hi; obtain ⟨r, hr', rfl⟩ := List.mem_map.mp hi; exact (hr r hr').2.1
  have hDall : ∀ i ∈ dis, i < x.D.length := by
    intro i hi; rw [← hdis] at hi; obtain ⟨r, hr', rfl⟩ := List.mem_map.mp hi; exact (hr r hr').2.2.1
  have hIall : ∀ i ∈ iis, i < x.I.length := by
    intro i hi; rw [← hiis] at hi; obtain ⟨r, hr', rfl⟩ := List.mem_map.mp hi; exact (hr r hr').2.2.2
  -- the second trip sees the same values
  have hwv' : widthVals (table wv) (tripRows x wv his dis iis 0 x.rows) = wv := by
    have hpt : ∀ r ∈ x.rows, ∀ n, sel (table wv) (tripRow x wv his dis iis n r).wi = sel x.W r.wi := by
      intro r hrm n
      have := sel_newWi x.W x.rows r hrm (hr r hrm).1
      rw [hwv] at this
      exact this
    have := tripRows_filterMap x wv his dis iis (fun r => sel (table wv) r.wi) (fun r => sel x.W r.wi) x.rows 0 hpt
    unfold widthVals
    rw [this]
    exact hwv
  have hhis' : (tripRows x wv his dis iis 0 x.rows).map (·.hi) = his.map (newIdx x.H his) := by
    rw [← hhis, List.map_map]
    apply tripRows_map
    intro r _ n
    simp only [tripRow, Function.comp, hhis]
  have hdis' : (tripRows x wv his dis iis 0 x.rows).map (·.di) = dis.map (newIdx x.D dis) := by
    rw [← hdis, List.map_map]
    apply tripRows_map
    intro r _ n
    simp only [tripRow, Function.comp, hdis]
  have hiis' : (tripRows x wv his dis iis 0 x.rows).map (·.ii) = iis.map (newIdx x.I iis) := by
    rw [← hiis, List.map_map]
    apply tripRows_map
    intro r _ n
    simp only [tripRow, Function.comp, hiis]
  have hpH := pushed_stable x.H his hH hHall
  have hpD := pushed_stable x.D dis hD hDall
  have hpI := pushed_stable x.I iis hI hIall
  have hcodes : (tripRows x wv his dis iis 0 x.rows).map (·.code) = x.rows.map (·.code) := by
    apply tripRows_map
    intro r _ n
    rfl
  -- assemble
  rw [hx']
  simp only [charsTrip, hwv', hhis', hdis', hiis', hpH, hpD, hpI]
  congr 1
  · -- rows
    apply tripRows_fixed
    intro r hrm n
    obtain ⟨h1, h2, h3, h4⟩ := hr r hrm
    have e1 : newWi (table wv) wv (newWi x.W wv r.wi) = newWi x.W wv r.wi := by
      have hs : sel x.W r.wi = some x.W[r.wi] := by simp [sel, List.getElem?_eq_getElem h1]
      have hsel := sel_newWi x.W x.rows r hrm h1
      rw [hwv, hs] at hsel
      show (match sel (table wv) (newWi x.W wv r.wi) with | some v => dimIndex v wv | none => 0) = _
      rw [hsel]
      simp only [newWi, hs]
    have e2 := newIdx_stable x.H his r.hi hH hHall (by rw [← hhis]; exact List.mem_map_of_mem (f := (·.hi)) hrm)
    have e3 := newIdx_stable x.D dis r.di hD hDall (by rw [← hdis]; exact List.mem_map_of_mem (f := (·.di)) hrm)
    have e4 := newIdx_stable x.I iis r.ii hI hIall (by rw [← hiis]; exact List.mem_map_of_mem (f := (·.ii)) hrm)
    simp only [tripRow, e1, e2, e3, e4, CharRow.mk.injEq, true_and]
    by_cases ht : r.tag = 3
    · simp [ht]
    · by_cases ht0 : r.tag = 0
      · simp [ht0]
      · simp [ht, ht0]
  · -- recipes
    have := ext_fixed x wv his dis iis (x.rows.map (·.code)) x.rows []
      (fun r hrm => List.mem_map_of_mem (f := (·.code)) hrm)
    simp only [newExt, recipeOf, hcodes, List.nil_append, List.length_nil] at this ⊢
    exact this

end C11
