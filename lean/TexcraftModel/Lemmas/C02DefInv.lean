import TexcraftModel.Lemmas.C02Def

/-! C02: inversion of the definition parser — every accepted definition text is the rendering
of a valid `SpecMacro`, and the parser never panics. -/
namespace C02

theorem paramIndex_inv {p : Tok} {i : Nat} (h : paramIndex p = some i) : p = .ch (49 + i) ∧ i ≤ 8 := by
  cases p <;> simp [paramIndex] at h
  rename_i c
  obtain ⟨hc, rfl⟩ := h
  constructor
  · congr 1; omega
  · omega

theorem replLoop_inv (e : Option Tok) (n : Nat) (d : Int) (rs : List Repl) (inp : List Tok) :
    ∀ (rs' : List Repl) (rest : List Tok), 0 ≤ d → replLoop e n d rs inp = .ok (rs', rest) →
    ∃ body, inp = (body.map renderItem).flatten ++ .eg :: rest ∧
      runDepth d.toNat (bodyToks body) = some 0 ∧
      (∀ i, Item.arg i ∈ body → i < n) ∧ (∀ t, Item.lit t ∈ body → t ≠ .param) ∧
      rs' = (match e with | some f => pushRepl (compileBody rs body) f | none => compileBody rs body) := by
  fun_induction replLoop e n d rs inp
  case case1 => intro rs' rest _ h; simp at h
  case case2 d rs ts ih =>
    intro rs' rest hd h
    obtain ⟨body, rfl, hdp, ha, hl, hrs⟩ := ih rs' rest (by omega) h
    refine ⟨.lit .bg :: body, by simp [renderItem], ?_, ?_, ?_, ?_⟩
    · simp only [bodyToks, runDepth]
      have : (d + 1).toNat = d.toNat + 1 := by omega
      rw [← this]; exact hdp
    · intro i hi; simp at hi; exact ha i hi
    · intro t ht; simp at ht; rcases ht with rfl | ht
      · simp
      · exact hl t ht
    · simpa [compileBody] using hrs
  case case3 rs ts f he =>
    intro rs' rest _ h
    simp at h; obtain ⟨rfl, rfl⟩ := h
    subst he
    exact ⟨[], by simp, by simp [bodyToks, runDepth], by simp, by simp, by simp [compileBody]⟩
  case case4 rs ts he =>
    intro rs' rest _ h
    simp at h; obtain ⟨rfl, rfl⟩ := h
    subst he
    exact ⟨[], by simp, by simp [bodyToks, runDepth], by simp, by simp, by simp [compileBody]⟩
  case case5 d rs ts hne ih =>
    intro rs' rest hd h
    obtain ⟨body, rfl, hdp, ha, hl, hrs⟩ := ih rs' rest (by omega) h
    refine ⟨.lit .eg :: body, by simp [renderItem], ?_, ?_, ?_, ?_⟩
    · have : d.toNat = (d - 1).toNat + 1 := by omega
      simp only [bodyToks]
      rw [this]
      simp only [runDepth]; exact hdp
    · intro i hi; simp at hi; exact ha i hi
    · intro t ht; simp at ht; rcases ht with rfl | ht
      · simp
      · exact hl t ht
    · simpa [compileBody] using hrs
  case case6 => intro rs' rest _ h; simp at h
  case case7 d rs ts ih =>
    intro rs' rest hd h
    obtain ⟨body, rfl, hdp, ha, hl, hrs⟩ := ih rs' rest hd h
    refine ⟨.hash :: body, by simp [renderItem], by simpa [bodyToks] using hdp, ?_, ?_, ?_⟩
    · intro i hi; simp at hi; exact ha i hi
    · intro t ht; simp at ht; exact hl t ht
    · simpa [compileBody] using hrs
  case case8 d rs p ts hp i hpi hin ih =>
    intro rs' rest hd h
    obtain ⟨body, rfl, hdp, ha, hl, hrs⟩ := ih rs' rest hd h
    obtain ⟨rfl, _⟩ := paramIndex_inv hpi
    refine ⟨.arg i :: body, by simp [renderItem], by simpa [bodyToks] using hdp, ?_, ?_, ?_⟩
    · intro j hj; simp at hj; rcases hj with rfl | hj
      · exact hin
      · exact ha j hj
    · intro t ht; simp at ht; exact hl t ht
    · simpa [compileBody] using hrs
  case case9 => intro rs' rest _ h; simp at h
  case case10 => intro rs' rest _ h; simp at h
  case case11 d rs t ts hbg heg hp1 hp2 ih =>
    intro rs' rest hd h
    have htp : t ≠ .param := by
      intro ht
      cases ts with
      | nil => exact hp1 ht rfl
      | cons p ts' => exact hp2 p ts' ht rfl
    obtain ⟨body, rfl, hdp, ha, hl, hrs⟩ := ih rs' rest hd h
    refine ⟨.lit t :: body, by simp [renderItem], ?_, ?_, ?_, ?_⟩
    · simp only [bodyToks]
      rw [runDepth_cons_other (fun h => hbg h) (fun h => heg h)]; exact hdp
    · intro i hi; simp at hi; exact ha i hi
    · intro x hx; simp at hx; rcases hx with rfl | hx
      · exact htp
      · exact hl x hx
    · simpa [compileBody] using hrs

/-! ## Parameter text -/

/-- The accumulators of `parse_prefix_and_parameters` after pushing the tokens `ext`. -/
def pushAll (pre : List Tok) (ps : List (List Tok)) (ext : List Tok) : List Tok × List (List Tok) :=
  ext.foldl (fun (s : List Tok × List (List Tok)) t => pushTok s.1 s.2 t) (pre, ps)

/-- The result of the parameter-text parser from its accumulators. -/
def ptFinish (pre : List Tok) (ps : List (List Tok)) (hb : Bool) : ParamText :=
  if hb then ⟨(pushTok pre ps .bg).1, (pushTok pre ps .bg).2, some .bg⟩ else ⟨pre, ps, none⟩

theorem pushTok_length (pre : List Tok) (ps : List (List Tok)) (t : Tok) :
    (pushTok pre ps t).2.length = ps.length := by
  rcases List.eq_nil_or_concat ps with rfl | ⟨init, last, rfl⟩
  · simp [pushTok]
  · simp [pushTok]

theorem pushAll_last (pre : List Tok) (init : List (List Tok)) : ∀ (ext last : List Tok),
    pushAll pre (init ++ [last]) ext = (pre, init ++ [last ++ ext]) := by
  intro ext
  induction ext with
  | nil => intro last; simp [pushAll]
  | cons t ts ih =>
    intro last
    have := ih (last ++ [t])
    simp only [pushAll, List.foldl_cons] at this ⊢
    have e : pushTok pre (init ++ [last]) t = (pre, init ++ [last ++ [t]]) := by simp [pushTok]
    rw [e]; simpa using this

theorem pushAll_nil (ext : List Tok) : ∀ pre : List Tok, pushAll pre [] ext = (pre ++ ext, []) := by
  induction ext with
  | nil => intro pre; simp [pushAll]
  | cons t ts ih =>
    intro pre
    have := ih (pre ++ [t])
    simp only [pushAll, List.foldl_cons] at this ⊢
    have e : pushTok pre [] t = (pre ++ [t], []) := by simp [pushTok]
    rw [e]; simpa using this

theorem ppLoop_inv (pre : List Tok) (ps : List (List Tok)) (inp : List Tok) :
    ∀ (pt : ParamText) (rest : List Tok), ps.length ≤ 9 → ppLoop pre ps inp = .ok (pt, rest) →
    ∃ ext ds, ∃ hb : Bool, (∀ t ∈ ext, Plain t) ∧ (∀ d ∈ ds, ∀ t ∈ d, Plain t) ∧
      ps.length + ds.length ≤ 9 ∧
      inp = ext ++ renderParams ps.length ds ++ (if hb then [.param, .bg] else [.bg]) ++ rest ∧
      pt = ptFinish (pushAll pre ps ext).1 ((pushAll pre ps ext).2 ++ ds) hb := by
  fun_induction ppLoop pre ps inp
  case case1 => intro pt rest _ h; simp at h
  case case2 pre ps ts =>
    intro pt rest hlen h
    simp at h; obtain ⟨rfl, rfl⟩ := h
    exact ⟨[], [], false, by simp, by simp, by simpa using hlen, by simp [renderParams],
      by simp [pushAll, ptFinish]⟩
  case case3 => intro pt rest _ h; simp at h
  case case4 => intro pt rest _ h; simp at h
  case case5 pre ps ts pre' ps' hx =>
    intro pt rest hlen h
    simp at h; obtain ⟨rfl, rfl⟩ := h
    exact ⟨[], [], true, by simp, by simp, by simpa using hlen, by simp [renderParams],
      by simp [pushAll, ptFinish, hx]⟩
  case case6 => intro pt rest _ h; simp at h
  case case7 pre ps p ts hpb h9 hpi ih =>
    intro pt rest hlen h
    obtain ⟨ext', ds', hb, hext, hds, hl, rfl, hpt⟩ := ih pt rest (by simp; omega) h
    obtain ⟨rfl, _⟩ := paramIndex_inv hpi
    refine ⟨[], ext' :: ds', hb, by simp, ?_, by simp at hl ⊢; omega, ?_, ?_⟩
    · intro d hd; simp at hd; rcases hd with rfl | hd
      · exact hext
      · exact hds d hd
    · simp [renderParams]
    · rw [pushAll_last] at hpt
      simpa [pushAll] using hpt
  case case8 => intro pt rest _ h; simp at h
  case case9 pre ps t ts hbg heg hp1 hp2 pre' ps' hx ih =>
    intro pt rest hlen h
    have hlen' : ps'.length = ps.length := by
      have := pushTok_length pre ps t; rw [hx] at this; exact this
    have htp : t ≠ .param := by
      intro ht
      cases ts with
      | nil => exact hp1 ht rfl
      | cons p ts' => exact hp2 p ts' ht rfl
    obtain ⟨ext', ds', hb, hext, hds, hl, rfl, hpt⟩ := ih pt rest (by omega) h
    refine ⟨t :: ext', ds', hb, ?_, hds, by omega, by simp [hlen'], ?_⟩
    · intro x hx'; simp at hx'; rcases hx' with rfl | hx'
      · exact ⟨fun h => hbg h, fun h => heg h, htp⟩
      · exact hext x hx'
    · have : pushAll pre ps (t :: ext') = pushAll pre' ps' ext' := by
        simp [pushAll, hx]
      rw [this]; exact hpt

theorem ppLoop_no_panic (pre : List Tok) (ps : List (List Tok)) (inp : List Tok) :
    ppLoop pre ps inp ≠ .panic := by
  fun_induction ppLoop pre ps inp <;> simp_all

theorem replLoop_no_panic (e : Option Tok) (n : Nat) (d : Int) (rs : List Repl) (inp : List Tok) :
    replLoop e n d rs inp ≠ .panic := by
  fun_induction replLoop e n d rs inp <;> simp_all

theorem mkParams_total : ∀ ds : List (List Tok), ∃ ps, mkParams ds = some ps ∧ ps.length = ds.length := by
  intro ds
  induction ds with
  | nil => exact ⟨[], rfl, rfl⟩
  | cons d ds ih =>
    obtain ⟨ps, hps, hl⟩ := ih
    cases d with
    | nil => exact ⟨.undelim :: ps, by simp [mkParams, mkParam, hps], by simp [hl]⟩
    | cons x xs =>
      obtain ⟨pf, hpf, _⟩ := kmp_correct (x :: xs) (by simp)
      exact ⟨.delim ⟨x :: xs, pf⟩ :: ps, by simp [mkParams, mkParam, hpf, hps], by simp [hl]⟩

/-- The definition parser never panics (in particular `Matcher::new` never does). -/
theorem defParse_no_panic' (inp : List Tok) : defParse inp ≠ .panic := by
  unfold defParse
  cases h1 : ppLoop [] [] inp with
  | ok r =>
    obtain ⟨pt, inp1⟩ := r
    obtain ⟨ps, hps, _⟩ := mkParams_total pt.raw
    simp only [hps]
    cases h2 : replLoop pt.endTok ps.length 0 [] inp1 with
    | ok r2 => simp
    | err e => simp
    | panic => exact absurd h2 (replLoop_no_panic _ _ _ _ _)
  | err e => simp
  | panic => exact absurd h1 (ppLoop_no_panic _ _ _)

/-- Every accepted definition text is the rendering of a valid macro description, and the
stored macro is its compilation. -/
theorem defParse_inv {inp rest : List Tok} {m : Macro} (h : defParse inp = .ok (m, rest)) :
    ∃ s, SMValid s ∧ inp = renderDef s ++ rest ∧ compile s = some m := by
  unfold defParse at h
  cases h1 : ppLoop [] [] inp with
  | err e => simp [h1] at h
  | panic => simp [h1] at h
  | ok r =>
    obtain ⟨pt, inp1⟩ := r
    simp only [h1] at h
    obtain ⟨ext, ds, hb, hext, hds, hl, hinp, hpt⟩ := ppLoop_inv [] [] inp pt inp1 (by simp) h1
    rw [pushAll_nil] at hpt
    simp only [List.nil_append, List.length_nil, Nat.zero_add] at hpt hl hinp
    obtain ⟨ps, hps, hpl⟩ := mkParams_total pt.raw
    simp only [hps] at h
    cases h2 : replLoop pt.endTok ps.length 0 [] inp1 with
    | err e => simp [h2] at h
    | panic => simp [h2] at h
    | ok r2 =>
      obtain ⟨rs, rest'⟩ := r2
      simp only [h2] at h
      simp at h
      obtain ⟨hm, rfl⟩ := h
      obtain ⟨body, hinp1, hdp, hargs, hlits, hrs⟩ := replLoop_inv pt.endTok ps.length 0 [] inp1 rs rest' (by omega) h2
      let s : SpecMacro := ⟨ext, ds, hb, body⟩
      have hraw : pt.raw = s.effDelims ∧ pt.pre = s.effPre ∧ pt.endTok = (if hb then some .bg else none) := by
        cases hb with
        | true =>
          have := pushTok_bg s rfl
          simp only [s] at this
          simp [hpt, ptFinish, this, s]
        | false =>
          have := eff_noHash s rfl
          simp [hpt, ptFinish, this.1, this.2, s]
      have hplen : ps.length = ds.length := by
        rw [hpl, hraw.1, effDelims_length]
      refine ⟨s, ⟨hext, hds, hl, ?_, hlits, by simpa using hdp⟩, ?_, ?_⟩
      · intro i hi; have := hargs i hi; show i < ds.length; omega
      · rw [hinp, hinp1]; simp [renderDef, s]
      · have hmk : mkParams s.effDelims = some ps := by rw [← hraw.1]; exact hps
        simp only [compile, hmk]
        rw [← hm]
        congr 1
        · congr 1
          · exact hraw.2.1.symm
          · rw [hrs, hraw.2.2]
            cases hb <;> simp [compileRepl, s]

/-! ## The call never panics on a macro `\def` accepted -/

theorem delimLoop_no_panic (m : Matcher) (hok : MatcherOK m) (c : Int) (n : Nat) :
    ∀ (inp seen : List Tok) (q : Nat) (d : Int), m.run 0 seen = some q →
      delimLoop m c n q d inp ≠ .panic := by
  intro inp
  induction inp with
  | nil => intro seen q d _; simp [delimLoop]
  | cons t ts ih =>
    intro seen q d hrun
    obtain ⟨q0, q', b, hrun0, hnext, _⟩ := hok seen t
    have hq : q0 = q := by rw [hrun] at hrun0; exact (Option.some.inj hrun0).symm
    subst hq
    have hrun' := run_snoc m seen 0 q0 q' b t hrun hnext
    have := ih (seen ++ [t]) q' (depthStep d t) hrun'
    simp only [delimLoop, hnext]
    split
    · simp
    · cases h : delimLoop m c n q' (depthStep d t) ts <;> simp_all

theorem finishBalanced_no_panic : ∀ (inp : List Tok) (d : Int), finishBalanced d inp ≠ .panic := by
  intro inp
  induction inp with
  | nil => intro d; simp [finishBalanced]
  | cons t ts ih =>
    intro d
    have := ih (depthStep d t)
    simp only [finishBalanced]
    split
    · simp
    · cases h : finishBalanced (depthStep d t) ts <;> simp_all

theorem parseArgs_step_no_panic {n : Nat} (r : Res (List Tok × List Tok))
    (k : List Tok → Res (List (List Tok) × List Tok)) (hr : r ≠ .panic)
    (hk : ∀ rest, k rest ≠ .panic ∧ ∀ args rest', k rest = .ok (args, rest') → args.length = n) :
    (match r with
      | .ok (a, rest) =>
        (match k rest with
          | .ok (as, rest') => Res.ok (a :: as, rest')
          | .err e => .err e
          | .panic => .panic)
      | .err e => .err e
      | .panic => .panic) ≠ .panic ∧
    ∀ args rest,
      (match r with
        | .ok (a, rest) =>
          (match k rest with
            | .ok (as, rest') => Res.ok (a :: as, rest')
            | .err e => .err e
            | .panic => .panic)
        | .err e => .err e
        | .panic => .panic) = .ok (args, rest) → args.length = n + 1 := by
  cases r with
  | ok r =>
    obtain ⟨a, rest1⟩ := r
    have := hk rest1
    cases h2 : k rest1 with
    | ok r2 =>
      obtain ⟨as, rest2⟩ := r2
      simp only [h2]
      refine ⟨by simp, ?_⟩
      intro args rest h
      simp at h
      rw [← h.1]
      simp [this.2 as rest2 h2]
    | err e => simp only [h2]; simp
    | panic => exact absurd h2 this.1
  | err e => simp
  | panic => exact absurd rfl hr

theorem parseArgs_no_panic (trim : List Tok → Bool) : ∀ (ps : List Param) (i : Nat) (inp : List Tok),
    (∀ p ∈ ps, ParamOK p) →
    parseArgs trim i ps inp ≠ .panic ∧
      ∀ args rest, parseArgs trim i ps inp = .ok (args, rest) → args.length = ps.length := by
  intro ps
  induction ps with
  | nil => intro i inp _; simp [parseArgs]
  | cons p ps ih =>
    intro i inp hok
    have hp := hok p (by simp)
    have hps : ∀ q ∈ ps, ParamOK q := fun q hq => hok q (by simp [hq])
    cases p with
    | undelim =>
      have hfirst : parseUndelimited (i + 1) inp ≠ .panic := by
        simp only [parseUndelimited]
        cases hk : skipSpaces inp with
        | nil => simp
        | cons t ts =>
          cases t with
          | bg => exact finishBalanced_no_panic ts 0
          | _ => simp
      simp only [parseArgs, List.length_cons]
      exact parseArgs_step_no_panic _ _ hfirst (fun rest => ih (i + 1) rest hps)
    | delim m =>
      have hfirst : parseDelimited trim m (i + 1) inp ≠ .panic := by
        simp only [parseDelimited]
        have := delimLoop_no_panic m hp.1 (closingDepth m) (i + 1) inp [] 0 0 rfl
        cases h : delimLoop m (closingDepth m) (i + 1) 0 0 inp with
        | ok r => obtain ⟨c, r2⟩ := r; simp only; split <;> simp
        | err e => simp
        | panic => exact absurd h this
      simp only [parseArgs, List.length_cons]
      exact parseArgs_step_no_panic _ _ hfirst (fun rest => ih (i + 1) rest hps)

theorem performReplacement_some (args : List (List Tok)) : ∀ (repl : List Repl),
    (∀ i, Repl.par i ∈ repl → i < args.length) → ∃ stack, performReplacement args repl = some stack := by
  intro repl
  induction repl with
  | nil => intro _; exact ⟨[], rfl⟩
  | cons r rs ih =>
    intro h
    obtain ⟨tail, ht⟩ := ih (fun i hi => h i (by simp [hi]))
    cases r with
    | toks rev => exact ⟨tail ++ rev, by simp [performReplacement, ht]⟩
    | par i =>
      have hi := h i (by simp)
      have : args[i]? = some args[i] := by simp [hi]
      exact ⟨tail ++ args[i].reverse, by simp [performReplacement, ht, this]⟩

theorem pushRepl_par (rs : List Repl) (t : Tok) (i : Nat) : Repl.par i ∈ pushRepl rs t → Repl.par i ∈ rs := by
  rcases List.eq_nil_or_concat rs with rfl | ⟨init, last, rfl⟩
  · simp [pushRepl]
  · cases last <;> simp [pushRepl]

theorem compileBody_par (body : List Item) : ∀ (rs : List Repl) (i : Nat),
    Repl.par i ∈ compileBody rs body → Repl.par i ∈ rs ∨ Item.arg i ∈ body := by
  induction body with
  | nil => intro rs i h; exact Or.inl (by simpa [compileBody] using h)
  | cons it is ih =>
    intro rs i h
    cases it with
    | lit t =>
      rcases ih _ i (by simpa [compileBody] using h) with h | h
      · exact Or.inl (pushRepl_par rs t i h)
      · exact Or.inr (by simp [h])
    | hash =>
      rcases ih _ i (by simpa [compileBody] using h) with h | h
      · exact Or.inl (pushRepl_par rs .param i h)
      · exact Or.inr (by simp [h])
    | arg j =>
      rcases ih _ i (by simpa [compileBody] using h) with h | h
      · simp at h
        rcases h with h | h
        · exact Or.inl h
        · exact Or.inr (by simp [h])
      · exact Or.inr (by simp [h])

/-- A macro stored by `\def` never makes the call panic, whatever follows it. -/
theorem call_no_panic_of_compile {s : SpecMacro} (h : SMValid s) {m : Macro} (hm : compile s = some m)
    (inp : List Tok) : call m inp ≠ .panic := by
  obtain ⟨ps, hps, hmap, hok⟩ := mkParams_ok s.effDelims (effDelims_wf h)
  simp only [compile, hps] at hm
  cases hm
  have hplen : ps.length = s.delims.length := by
    rw [← effDelims_length, ← hmap]; simp
  unfold call callWith
  cases h1 : removePrefix s.effPre inp with
  | err e => simp
  | panic =>
    exfalso
    clear hps hmap hok hplen
    revert h1
    generalize s.effPre = p
    intro h1
    induction p generalizing inp with
    | nil => simp [removePrefix] at h1
    | cons x xs ih =>
      cases inp with
      | nil => simp [removePrefix] at h1
      | cons t ts =>
        simp only [removePrefix] at h1
        split at h1
        · exact ih ts h1
        · simp at h1
  | ok inp1 =>
    simp only
    have hpa := parseArgs_no_panic shouldTrim ps 0 inp1 hok
    cases h2 : parseArgs shouldTrim 0 ps inp1 with
    | err e => simp
    | panic => exact absurd h2 hpa.1
    | ok r =>
      obtain ⟨args, rest⟩ := r
      have hal := hpa.2 args rest h2
      simp only
      obtain ⟨stack, hst⟩ := performReplacement_some args ((compileRepl s).map reverseToks) (by
        intro i hi
        simp at hi
        obtain ⟨r, hr, hrr⟩ := hi
        have hr' : Repl.par i ∈ compileRepl s := by
          cases r with
          | toks ts => simp [reverseToks] at hrr
          | par j => simp [reverseToks] at hrr; subst hrr; exact hr
        have : Item.arg i ∈ s.body := by
          unfold compileRepl at hr'
          split at hr'
          · rcases compileBody_par s.body [] i (pushRepl_par _ _ i hr') with h | h
            · simp at h
            · exact h
          · rcases compileBody_par s.body [] i hr' with h | h
            · simp at h
            · exact h
        have := h.args i this
        omega)
      simp [hst]

end C02
