import TexcraftModel.Model.C05Raw

/-! # C05 — the crate's reading of raw lig/kern words agrees with TeX's -/
namespace C05

/-! ## Op bytes -/

def formM (op : Nat) : PostLig :=
  match decodeOp op 0 with
  | .lig _ p => p
  | _ => .neither

def formS (op : Nat) : PostLig :=
  match texOp [] op 0 with
  | .lig _ p => p
  | _ => .neither

theorem form_eq : ∀ op, op < 128 → formM op = formS op := by decide

theorem decodeOp_lig (op rem : Nat) (h : op < 128) : decodeOp op rem = .lig rem (formM op) := by
  have h' : ¬ (128 ≤ op) := by omega
  simp only [decodeOp, formM, h', if_false]

theorem texOp_lig (kerns : List Int) (op rem : Nat) (h : op < 128) :
    texOp kerns op rem = .lig rem (formS op) := by
  have h' : ¬ (128 ≤ op) := by omega
  simp only [texOp, formS, h', if_false]

theorem resolve_decodeOp (kerns : List Int) (op rem : Nat) :
    resolveOp kerns (decodeOp op rem) = some (texOp kerns op rem) := by
  by_cases h : 128 ≤ op
  · simp [decodeOp, texOp, h, resolveOp, Nat.mul_comm]
  · have h' : op < 128 := by omega
    rw [decodeOp_lig op rem h', texOp_lig kerns op rem h', form_eq op h']
    rfl

/-! ## Chains -/

theorem findInstr_skip (r : Nat) : ∀ (s : Nat) (l : List Instr),
    findInstr r s l = findInstr r 0 (l.drop s) := by
  intro s
  induction s with
  | zero => intro l; simp
  | succ s ih =>
    intro l
    cases l with
    | nil => simp [findInstr]
    | cons x t => simp [findInstr, ih]

theorem drop_eq_cons_of_getElem? {α} (l : List α) (k : Nat) (x : α) (h : l[k]? = some x) :
    l.drop k = x :: l.drop (k + 1) := by
  obtain ⟨hk, rfl⟩ := List.getElem?_eq_some_iff.mp h
  exact List.drop_eq_getElem_cons hk

theorem walk_eq (ws : List Word) (kerns : List Int) (r : Nat) :
    ∀ (fuel k : Nat), ws.length < fuel + k →
      (findInstr r 0 ((ws.drop k).map decodeWord)).bind (fun i => resolveOp kerns i.op)
        = (texWalk ws r fuel k).map (fun w => texOp kerns w.op w.rem) := by
  intro fuel
  induction fuel with
  | zero =>
    intro k hk
    have : ws.drop k = [] := List.drop_eq_nil_of_le (by omega)
    simp [this, findInstr, texWalk]
  | succ fuel ih =>
    intro k hk
    cases hw : ws[k]? with
    | none =>
      have : ws.drop k = [] := List.drop_eq_nil_of_le (by
        have := List.getElem?_eq_none_iff.mp hw; omega)
      simp [this, findInstr, texWalk, hw]
    | some w =>
      rw [drop_eq_cons_of_getElem? ws k w hw]
      simp only [List.map_cons, findInstr, texWalk, hw]
      by_cases hr : w.next = r
      · by_cases hs : 128 < w.skip
        · have : ¬ w.skip ≤ 128 := by omega
          simp [decodeWord, hs, hr, this, resolveOp]
        · have : w.skip ≤ 128 := by omega
          simp [decodeWord, hs, hr, this, resolve_decodeOp]
      · by_cases hs : 128 < w.skip
        · have : ¬ w.skip < 128 := by omega
          simp [decodeWord, hs, hr, this]
        · by_cases hs2 : w.skip < 128
          · simp only [decodeWord, hs, hr, hs2, if_false, if_true]
            rw [findInstr_skip, ← List.map_drop, List.drop_drop]
            have := ih (k + w.skip + 1) (by omega)
            have e : k + 1 + w.skip = k + w.skip + 1 := by omega
            rw [e]
            exact this
          · simp [decodeWord, hs, hr, hs2]

/-! ## Entry points -/

theorem find?_none_of_not_mem_keys (l : List (Nat × Nat)) (c : Nat) (h : c ∉ l.map Prod.fst) :
    l.find? (fun x => decide (x.1 = c)) = none := by
  rw [List.find?_eq_none]
  intro x hx hc
  simp at hc
  exact h (List.mem_map.mpr ⟨x, hx, hc⟩)

theorem find?_filterMap_keys (l : List (Nat × Nat)) (g : Nat → Option Nat) (c : Nat)
    (hnd : (l.map Prod.fst).Nodup) :
    ((l.filterMap (fun t => (g t.2).map (fun u => (t.1, u)))).find? (fun x => decide (x.1 = c))).map Prod.snd
      = (l.find? (fun x => decide (x.1 = c))).bind (fun t => g t.2) := by
  induction l with
  | nil => rfl
  | cons t rest ih =>
    obtain ⟨a, e⟩ := t
    simp only [List.map_cons, List.nodup_cons] at hnd
    by_cases hac : a = c
    · subst hac
      cases hg : g e with
      | none =>
        have hn : a ∉ (rest.filterMap (fun t => (g t.2).map (fun u => (t.1, u)))).map Prod.fst := by
          intro hm
          obtain ⟨x, hx, hxa⟩ := List.mem_map.mp hm
          obtain ⟨t, ht, htx⟩ := List.mem_filterMap.mp hx
          cases hgt : g t.2 with
          | none => simp [hgt] at htx
          | some u =>
            simp [hgt] at htx
            subst htx
            exact hnd.1 (List.mem_map.mpr ⟨t, ht, hxa⟩)
        simp [hg, find?_none_of_not_mem_keys _ _ hn]
      | some u => simp [hg]
    · cases hg : g e with
      | none => simpa [List.filterMap_cons, hg, hac] using ih hnd.2
      | some u => simpa [List.filterMap_cons, hg, hac] using ih hnd.2

theorem entryOf_decode (f : RawFont) (hnd : (f.tags.map Prod.fst).Nodup) (l : Option Nat) :
    entryOf (decodeFont f) l = texStart f l := by
  cases l with
  | none => rfl
  | some c =>
    simp only [entryOf, decodeFont, texStart]
    rw [find?_filterMap_keys f.tags (unpackEntry f.words) c hnd]
    cases hf : f.tags.find? (fun x => decide (x.1 = c)) with
    | none => rfl
    | some t =>
      simp only [Option.bind_some, unpackEntry]

end C05

namespace C05

/-- The crate's reading of the raw words gives every pair the command TeX executes for it. -/
theorem rule_decode (f : RawFont) (hnd : (f.tags.map Prod.fst).Nodup) (l : Option Nat) (r : Nat) :
    rule (decodeFont f) l r = texRule f l r := by
  simp only [rule, rawRule, texRule, entryOf_decode f hnd l]
  cases texStart f l with
  | none => rfl
  | some k =>
    have := walk_eq f.words f.kerns r (f.words.length + 1) k (by omega)
    simp only []
    rw [← this, findInstr_skip]
    simp [decodeFont, List.map_drop]

end C05

namespace C05

theorem interpG_spec (p : Program) : ∀ (fuel : Nat) (s : List El),
    interpG (specRule p) p.rb fuel s = interp p fuel s := by
  intro fuel
  induction fuel with
  | zero => intro s; rfl
  | succ n ih =>
    intro s
    match s with
    | [] => rfl
    | [x] => rfl
    | x :: y :: tail =>
      cases x <;> simp only [interpG, interp, ih] <;> rfl

end C05
