import TexcraftModel.Model.C14

/-! Helper lemmas for C14: the word-discovery loop = one declarative clause per glue node. -/
namespace C14

/-! ## `seek` -/

theorem classify_cont_of_skippable {x : Item} (h : skippable x = true) : classify x = .cont := by
  cases x with
  | char c f => simp [skippable] at h; simp [classify, h]
  | lig c f o lb rb =>
    cases o with
    | nil => rfl
    | cons a o => simp [skippable] at h; simp [classify, h]
  | kern k w => simp [skippable] at h; simp [classify, h]
  | other k p => cases k <;> simp_all [skippable, classify]
  | disc a b c => simp [skippable] at h

theorem classify_of_not_skippable {x : Item} (h : skippable x = false) :
    classify x = match startFont x with | some f => .start f | none => .abort := by
  cases x with
  | char c f => simp [skippable] at h; simp [classify, startFont, h]
  | lig c f o lb rb =>
    cases o with
    | nil => simp [skippable] at h
    | cons a o => simp [skippable] at h; simp [classify, startFont, h]
  | kern k w => simp [skippable] at h; simp [classify, startFont, h]
  | other k p => cases k <;> simp_all [skippable, classify, startFont]
  | disc a b c => simp [classify, startFont]

theorem seek_spec (xs : List Item) (n : Nat) :
    seek false xs n = (n + (xs.takeWhile skippable).length, (xs.dropWhile skippable).head? >>= startFont) := by
  induction xs generalizing n with
  | nil => simp [seek]
  | cons x xs ih =>
    cases hs : skippable x with
    | true =>
      simp only [seek, classify_cont_of_skippable hs, List.takeWhile_cons, hs, if_true,
        List.dropWhile_cons, List.length_cons]
      rw [ih]; simp; omega
    | false =>
      cases hf : startFont x with
      | none => simp [seek, classify_of_not_skippable hs, hf, hs]
      | some f => simp [seek, classify_of_not_skippable hs, hf, hs]

theorem not_glue_of_skippable {x : Item} (h : skippable x = true) : x.isGlue = false := by
  cases x with
  | other k p => cases k <;> simp_all [skippable, Item.isGlue]
  | _ => rfl

theorem not_glue_of_wordNode {f : Nat} {x : Item} (h : wordNode f x = true) : x.isGlue = false := by
  cases x with
  | other k p => simp [wordNode] at h
  | _ => rfl

/-! ## `terminatorOk` -/

theorem terminatorOk_spec (l : List Item) :
    terminatorOk l = !(((l.dropWhile charLigKern).head?.map forbids).getD false) := by
  induction l with
  | nil => rfl
  | cons x xs ih =>
    cases x with
    | char c f =>
      have h : charLigKern (.char c f) = true := rfl
      simp [terminatorOk, h, ih]
    | lig c f o lb rb =>
      have h : charLigKern (.lig c f o lb rb) = true := rfl
      simp [terminatorOk, h, ih]
    | kern k w =>
      by_cases hk : k = 0
      · simp [terminatorOk, charLigKern, hk, ih]
      · simp [terminatorOk, charLigKern, hk, forbids]
    | other k p => cases k <;> simp [terminatorOk, charLigKern, forbids]
    | disc a b c => simp [terminatorOk, charLigKern, forbids]

/-! ## `gather` = the longest admissible prefix -/

/-- Admissibility with `s` letters already collected. -/
def adm (f s : Nat) (p : List Item) : Bool := p.all (wordNode f) && decide (s + (lettersL p).length ≤ 63)

theorem adm_nil (f s : Nat) : adm f s [] = decide (s ≤ 63) := by simp [adm, lettersL]

theorem adm_cons (f s : Nat) (x : Item) (p : List Item) :
    adm f s (x :: p) = (wordNode f x && adm f (s + (lettersI x).length) p) := by
  simp only [adm, List.all_cons, lettersL, List.map_cons, List.flatten_cons, List.length_append,
    Bool.and_assoc, Nat.add_assoc]

theorem adm_cons_of_not_wordNode {f s : Nat} {x : Item} (p : List Item) (h : wordNode f x = false) :
    adm f s (x :: p) = false := by simp [adm_cons, h]

theorem admissible_eq (f : Nat) (p : List Item) : admissible f p = adm f 0 p := by simp [admissible, adm]

/-- What `gather` returns, characterised: some `m` nodes, admissible, and no longer prefix is. -/
theorem gather_spec (f : Nat) :
    ∀ (xs : List Item) (s : List Nat) (n0 : Nat), s.length ≤ 63 →
      ∃ m, m ≤ xs.length ∧ gather f xs s n0 = (s ++ lettersL (xs.take m), n0 + m) ∧
        adm f s.length (xs.take m) = true ∧
        ∀ m', m < m' → m' ≤ xs.length → adm f s.length (xs.take m') = false := by
  intro xs
  induction xs with
  | nil =>
    intro s n0 hs
    exact ⟨0, by simp, by simp [gather, lettersL], by simp [adm_nil, hs], by intro m' h1 h2; simp at h2; omega⟩
  | cons x xs ih =>
    intro s n0 hs
    -- the "stop here" answer, valid whenever no admissible prefix contains `x`
    have stop : gather f (x :: xs) s n0 = (s, n0) →
        (∀ p, adm f s.length (x :: p) = false) →
        ∃ m, m ≤ (x :: xs).length ∧ gather f (x :: xs) s n0 = (s ++ lettersL ((x :: xs).take m), n0 + m) ∧
          adm f s.length ((x :: xs).take m) = true ∧
          ∀ m', m < m' → m' ≤ (x :: xs).length → adm f s.length ((x :: xs).take m') = false := by
      intro hg hbad
      refine ⟨0, by simp, by simp [hg, lettersL], by simp [adm_nil, hs], ?_⟩
      intro m' h1 _
      obtain ⟨k, rfl⟩ : ∃ k, m' = k + 1 := ⟨m' - 1, by omega⟩
      simp only [List.take_succ_cons]
      exact hbad _
    -- the "take it and go on" answer
    have go : ∀ (s' : List Nat), s' = s ++ lettersI x → s'.length ≤ 63 → wordNode f x = true →
        gather f (x :: xs) s n0 = gather f xs s' (n0 + 1) →
        ∃ m, m ≤ (x :: xs).length ∧ gather f (x :: xs) s n0 = (s ++ lettersL ((x :: xs).take m), n0 + m) ∧
          adm f s.length ((x :: xs).take m) = true ∧
          ∀ m', m < m' → m' ≤ (x :: xs).length → adm f s.length ((x :: xs).take m') = false := by
      intro s' hs' hlen hw hg
      obtain ⟨m, hm, hgm, hadm, hmax⟩ := ih s' (n0 + 1) hlen
      have hl : s'.length = s.length + (lettersI x).length := by simp [hs']
      refine ⟨m + 1, by simp; omega, ?_, ?_, ?_⟩
      · rw [hg, hgm, hs']
        simp only [List.take_succ_cons, lettersL, List.map_cons, List.flatten_cons, List.append_assoc]
        congr 1; omega
      · simp only [List.take_succ_cons, adm_cons, hw, Bool.true_and, ← hl]
        exact hadm
      · intro m' h1 h2
        obtain ⟨k, rfl⟩ : ∃ k, m' = k + 1 := ⟨m' - 1, by omega⟩
        simp only [List.take_succ_cons, adm_cons, hw, Bool.true_and, ← hl]
        exact hmax k (by omega) (by simpa using h2)
    cases x with
    | char c g =>
      by_cases hg : g = f
      · by_cases hlet : isLetter c = true
        · by_cases hcap : s.length + 1 ≥ 64
          · apply stop
            · simp [gather, hg, hlet, hcap]
            · intro p
              simp only [adm_cons, lettersI, List.length_cons, List.length_nil]
              simp only [adm, Bool.and_eq_false_iff, decide_eq_false_iff_not]
              right; right; omega
          · apply go (s ++ [c]) (by simp [lettersI]) (by simp; omega) (by simp [wordNode, hg, hlet])
            simp [gather, hg, hlet, hcap]
        · apply stop
          · simp [gather, hg, hlet]
          · intro p; exact adm_cons_of_not_wordNode p (by simp [wordNode, hlet])
      · apply stop
        · simp [gather, hg]
        · intro p; exact adm_cons_of_not_wordNode p (by simp [wordNode, hg])
    | lig c g orig lb rb =>
      by_cases hg : g = f
      · by_cases hlet : orig.all isLetter = true
        · by_cases hcap : s.length + orig.length ≥ 64
          · apply stop
            · simp [gather, hg, hlet, hcap]
            · intro p
              simp only [adm_cons, lettersI]
              simp only [adm, Bool.and_eq_false_iff, decide_eq_false_iff_not]
              right; right; omega
          · apply go (s ++ orig) (by simp [lettersI]) (by simp; omega) (by simp [wordNode, hg, hlet])
            simp [gather, hg, hlet, hcap]
        · apply stop
          · simp [gather, hg, hlet]
          · intro p; exact adm_cons_of_not_wordNode p (by simp [wordNode, hlet])
      · apply stop
        · simp [gather, hg]
        · intro p; exact adm_cons_of_not_wordNode p (by simp [wordNode, hg])
    | kern k w =>
      by_cases hk : k = 0
      · apply go s (by simp [lettersI]) hs (by simp [wordNode, hk])
        simp [gather, hk]
      · apply stop
        · simp [gather, hk]
        · intro p; exact adm_cons_of_not_wordNode p (by simp [wordNode, hk])
    | other k p =>
      apply stop
      · simp [gather]
      · intro p; exact adm_cons_of_not_wordNode p (by simp [wordNode])
    | disc a b c =>
      apply stop
      · simp [gather]
      · intro p; exact adm_cons_of_not_wordNode p (by simp [wordNode])

/-! ## `longestAdmissible` -/

theorem foldl_max_ge (l : List Nat) (a : Nat) : a ≤ l.foldl max a ∧ ∀ m ∈ l, m ≤ l.foldl max a := by
  induction l generalizing a with
  | nil => simp
  | cons b l ih =>
    simp only [List.foldl_cons, List.mem_cons, forall_eq_or_imp]
    have := ih (max a b)
    refine ⟨by omega, by omega, this.2⟩

theorem foldl_max_le (l : List Nat) (a n : Nat) (ha : a ≤ n) (h : ∀ m ∈ l, m ≤ n) : l.foldl max a ≤ n := by
  induction l generalizing a with
  | nil => simpa
  | cons b l ih =>
    simp only [List.foldl_cons]
    apply ih
    · have := h b (by simp); omega
    · intro m hm; exact h m (by simp [hm])

theorem longestAdmissible_eq {f : Nat} {l : List Item} {m : Nat} (hm : m ≤ l.length)
    (hadm : adm f 0 (l.take m) = true)
    (hmax : ∀ m', m < m' → m' ≤ l.length → adm f 0 (l.take m') = false) :
    longestAdmissible f l = m := by
  unfold longestAdmissible
  apply Nat.le_antisymm
  · apply foldl_max_le _ _ _ (by omega)
    intro k hk
    simp only [List.mem_filter, List.mem_range, admissible_eq] at hk
    by_cases hkm : k ≤ m
    · exact hkm
    · have := hmax k (by omega) (by omega)
      simp [this] at hk
  · apply (foldl_max_ge _ 0).2
    simp only [List.mem_filter, List.mem_range, admissible_eq]
    exact ⟨by omega, hadm⟩

theorem gather_eq (f : Nat) (rest : List Item) :
    gather f rest [] 0 = (lettersL (rest.take (longestAdmissible f rest)), longestAdmissible f rest) ∧
      longestAdmissible f rest ≤ rest.length ∧
      (rest.take (longestAdmissible f rest)).all (wordNode f) = true := by
  obtain ⟨m, hm, hg, hadm, hmax⟩ := gather_spec f rest [] 0 (by simp)
  have := longestAdmissible_eq hm (by simpa using hadm) (by simpa using hmax)
  rw [this]
  refine ⟨by simpa using hg, hm, ?_⟩
  simp only [adm, Bool.and_eq_true] at hadm
  exact hadm.1

/-! ## One clause per glue node -/

/-- The specification restricted to the glue nodes from index `i` on (`suf` = the list from there). -/
def specFrom (i : Nat) (suf : List Item) : List Word :=
  (List.range suf.length).filterMap (fun d => specAt (i + d) (suf.drop d))

theorem specFrom_nil (i : Nat) : specFrom i [] = [] := rfl

theorem specFrom_cons (i : Nat) (x : Item) (xs : List Item) :
    specFrom i (x :: xs) = (specAt i (x :: xs)).toList ++ specFrom (i + 1) xs := by
  simp only [specFrom, List.length_cons, List.range_succ_eq_map, List.filterMap_cons, List.filterMap_map]
  have : ((fun d => specAt (i + d) (List.drop d (x :: xs))) ∘ Nat.succ) = (fun d => specAt (i + 1 + d) (List.drop d xs)) := by
    funext d
    simp only [Function.comp, Nat.succ_eq_add_one, List.drop_succ_cons]
    congr 1; omega
  rw [this]
  cases h : specAt (i + 0) (List.drop 0 (x :: xs)) with
  | none => simp at h; simp [h]
  | some w => simp at h; simp [h]

theorem specAt_not_glue (i : Nat) (x : Item) (xs : List Item) (h : x.isGlue = false) :
    specAt i (x :: xs) = none := by simp [specAt, h]

/-- Stepping over `k` nodes none of which is a glue does not lose a word. -/
theorem specFrom_skip (k : Nat) : ∀ (i : Nat) (xs : List Item), k ≤ xs.length →
    (xs.take k).all (fun x => !x.isGlue) = true → specFrom i xs = specFrom (i + k) (xs.drop k) := by
  induction k with
  | zero => intro i xs _ _; simp
  | succ k ih =>
    intro i xs hk hall
    cases xs with
    | nil => simp at hk
    | cons x xs =>
      simp only [List.take_succ_cons, List.all_cons, Bool.and_eq_true, Bool.not_eq_true'] at hall
      rw [specFrom_cons, specAt_not_glue i x xs hall.1, List.drop_succ_cons]
      simp only [Option.toList_none, List.nil_append]
      rw [ih (i + 1) xs (by simpa using hk) hall.2]
      congr 1; omega

theorem all_not_glue_of_skippable (l : List Item) (h : l.all skippable = true) :
    l.all (fun x => !x.isGlue) = true := by
  simp only [List.all_eq_true] at h ⊢
  intro x hx; simp [not_glue_of_skippable (h x hx)]

theorem all_not_glue_of_wordNode (f : Nat) (l : List Item) (h : l.all (wordNode f) = true) :
    l.all (fun x => !x.isGlue) = true := by
  simp only [List.all_eq_true] at h ⊢
  intro x hx; simp [not_glue_of_wordNode (h x hx)]

theorem takeWhile_drop (p : Item → Bool) (xs : List Item) :
    xs.drop (xs.takeWhile p).length = xs.dropWhile p ∧ xs.take (xs.takeWhile p).length = xs.takeWhile p := by
  induction xs with
  | nil => simp
  | cons x xs ih =>
    cases h : p x <;> simp [h, ih]

/-- The loop of the fixed code finds exactly the word of every glue node. -/
theorem scan_eq_specFrom : ∀ (fuel i : Nat) (suf : List Item), suf.length < fuel →
    scan false fuel i suf = specFrom i suf := by
  intro fuel
  induction fuel with
  | zero => intro i suf h; omega
  | succ fuel ih =>
    intro i suf hlen
    cases suf with
    | nil => simp [scan, specFrom_nil]
    | cons x xs =>
      have hxs : xs.length < fuel := by simpa using hlen
      rw [specFrom_cons]
      by_cases hg : x.isGlue = true
      · -- a glue node: one search
        have hk := takeWhile_drop skippable xs
        have hkl : (xs.takeWhile skippable).length ≤ xs.length := by
          have := congrArg List.length hk.2
          simp only [List.length_take] at this
          omega
        have hskip : specFrom (i + 1) xs
            = specFrom (i + 1 + (xs.takeWhile skippable).length) (xs.dropWhile skippable) := by
          rw [specFrom_skip (xs.takeWhile skippable).length (i + 1) xs hkl
            (by rw [hk.2]; exact all_not_glue_of_skippable _ (by simp)), hk.1]
        have hrest : (xs.dropWhile skippable).length < fuel := by
          rw [← hk.1]; simp; omega
        simp only [scan, hg, Bool.not_true, Bool.false_eq_true, if_false, seek_spec, Nat.zero_add, hk.1]
        simp only [specAt, hg, Bool.not_true, Bool.false_eq_true, if_false]
        cases hf : (xs.dropWhile skippable).head? >>= startFont with
        | none =>
          simp only [Option.toList_none, List.nil_append]
          rw [ih _ _ hrest, hskip]
        | some f =>
          obtain ⟨hgath, hn, hall⟩ := gather_eq f (xs.dropWhile skippable)
          simp only [hgath, terminatorOk_spec]
          by_cases he : (lettersL ((xs.dropWhile skippable).take (longestAdmissible f (xs.dropWhile skippable)))).isEmpty = true
          · simp only [he, if_true, Option.toList_none, List.nil_append]
            rw [ih _ _ hrest, hskip]
          · simp only [he, Bool.false_eq_true, if_false]
            by_cases ht : ((((xs.dropWhile skippable).drop (longestAdmissible f (xs.dropWhile skippable))).dropWhile charLigKern).head?.map forbids).getD false = true
            · simp only [ht, Bool.not_true, Bool.not_false, if_true, Option.toList_none, List.nil_append]
              rw [ih _ _ hrest, hskip]
            · simp only [ht, Bool.not_false, Bool.not_true, Bool.false_eq_true, if_false, Option.toList_some,
                List.singleton_append, List.cons.injEq, true_and]
              rw [ih _ _ (by simp; omega), hskip]
              rw [specFrom_skip (longestAdmissible f (xs.dropWhile skippable)) _ (xs.dropWhile skippable) hn
                (all_not_glue_of_wordNode f _ hall)]
      · -- not a glue: next node
        have hg' : x.isGlue = false := by simpa using hg
        rw [specAt_not_glue i x xs hg']
        simp only [scan, hg', Bool.not_false, if_true, Option.toList_none, List.nil_append]
        exact ih (i + 1) xs hxs

end C14
