import TexcraftModel.Model.C14

/-! Helper lemmas for C14: the word-discovery loop = one declarative clause per glue node. -/
namespace C14

/-! ## `seek` -/

theorem classify_cont_of_skippable {x : Item} (h : skippable x = true) : classify x = .cont := by
  cases x with
  | char c f => simp [skippable] at h; simp [classify, h]
  | lig c f o lb rb =>
    cases o with
    | nil => rfl
    | cons a o => simp [skippable] at h; simp [classify, h]
  | kern k w => simp [skippable] at h; simp [classify, h]
  | other k p => cases k <;> simp_all [skippable, classify]
  | disc a b c => simp [skippable] at h

theorem classify_of_not_skippable {x : Item} (h : skippable x = false) :
    classify x = match startFont x with | some f => .start f | none => .abort := by
  cases x with
  | char c f => simp [skippable] at h; simp [classify, startFont, h]
  | lig c f o lb rb =>
    cases o with
    | nil => simp [skippable] at h
    | cons a o => simp [skippable] at h; simp [classify, startFont, h]
  | kern k w => simp [skippable] at h; simp [classify, startFont, h]
  | other k p => cases k <;> simp_all [skippable, classify, startFont]
  | disc a b c => simp [classify, startFont]

theorem seek_spec (xs : List Item) (n : Nat) :
    seek false xs n = (n + (xs.takeWhile skippable).length, (xs.dropWhile skippable).head? >>= startFont) := by
  induction xs generalizing n with
  | nil => simp [seek]
  | cons x xs ih =>
    cases hs : skippable x with
    | true =>
      simp only [seek, classify_cont_of_skippable hs, List.takeWhile_cons, hs, if_true,
        List.dropWhile_cons, List.length_cons]
      rw [ih]; simp; omega
    | false =>
      cases hf : startFont x with
      | none => simp [seek, classify_of_not_skippable hs, hf, hs]
      | some f => simp [seek, classify_of_not_skippable hs, hf, hs]

theorem not_glue_of_skippable {x : Item} (h : skippable x = true) : x.isGlue = false := by
  cases x with
  | other k p => cases k <;> simp_all [skippable, Item.isGlue]
  | _ => rfl

theorem not_glue_of_wordNode {f : Nat} {x : Item} (h : wordNode f x = true) : x.isGlue = false := by
  cases x with
  | other k p => simp [wordNode] at h
  | _ => rfl

/-! ## `terminatorOk` -/

theorem terminatorOk_spec (l : List Item) :
    terminatorOk l = !(((l.dropWhile charLigKern).head?.map forbids).getD false) := by
  induction l with
  | nil => rfl
  | cons x xs ih =>
    cases x with
    | char c f =>
      have h : charLigKern (.char c f) = true := rfl
      simp [terminatorOk, h, ih]
    | lig c f o lb rb =>
      have h : charLigKern (.lig c f o lb rb) = true := rfl
      simp [terminatorOk, h, ih]
    | kern k w =>
      by_cases hk : k = 0
      · simp [terminatorOk, charLigKern, hk, ih]
      · simp [terminatorOk, charLigKern, hk, forbids]
    | other k p => cases k <;> simp [terminatorOk, charLigKern, forbids]
    | disc a b c => simp [terminatorOk, charLigKern, forbids]

/-! ## `gather` = the longest admissible prefix -/

/-- Admissibility with `s` letters already collected. -/
def adm (f s : Nat) (p : List Item) : Bool := p.all (wordNode f) && decide (s + (lettersL p).length ≤ 63)

theorem adm_nil (f s : Nat) : adm f s [] = decide (s ≤ 63) := by simp [adm, lettersL]

theorem adm_cons (f s : Nat) (x : Item) (p : List Item) :
    adm f s (x :: p) = (wordNode f x && adm f (s + (lettersI x).length) p) := by
  simp only [adm, List.all_cons, lettersL, List.map_cons, List.flatten_cons, List.length_append,
    Bool.and_assoc, Nat.add_assoc]

theorem adm_cons_of_not_wordNode {f s : Nat} {x : Item} (p : List Item) (h : wordNode f x = false) :
    adm f s (x :: p) = false := by simp [adm_cons, h]

theorem admissible_eq (f : Nat) (p : List Item) : admissible f p = adm f 0 p := by simp [admissible, adm]

/-- What `gather` returns, characterised: some `m` nodes, admissible, and no longer prefix is. -/
theorem gather_spec (f : Nat) :
    ∀ (xs : List Item) (s : List Nat) (n0 : Nat), s.length ≤ 63 →
      ∃ m, m ≤ xs.length ∧ gather f xs s n0 = (s ++ lettersL (xs.take m), n0 + m) ∧
        adm f s.length (xs.take m) = true ∧
        ∀ m', m < m' → m' ≤ xs.length → adm f s.length (xs.take m') = false := by
  intro xs
  induction xs with
  | nil =>
    intro s n0 hs
    exact ⟨0, by simp, by simp [gather, lettersL], by simp [adm_nil, hs], by intro m' h1 h2; simp at h2; omega⟩
  | cons x xs ih =>
    intro s n0 hs
    -- the "stop here" answer, valid whenever no admissible prefix contains `x`
    have stop : gather f (x :: xs) s n0 = (s, n0) →
        (∀ p, adm f s.length (x :: p) = false) →
        ∃ m, m ≤ (x :: xs).length ∧ gather f (x :: xs) s n0 = (s ++ lettersL ((x :: xs).take m), n0 + m) ∧
          adm f s.length ((x :: xs).take m) = true ∧
          ∀ m', m < m' → m' ≤ (x :: xs).length → adm f s.length ((x :: xs).take m') = false := by
      intro hg hbad
      refine ⟨0, by simp, by simp [hg, lettersL], by simp [adm_nil, hs], ?_⟩
      intro m' h1 _
      obtain ⟨k, rfl⟩ : ∃ k, m' = k + 1 := ⟨m' - 1, by omega⟩
      simp only [List.take_succ_cons]
      exact hbad _
    -- the "take it and go on" answer
    have go : ∀ (s' : List Nat), s' = s ++ lettersI x → s'.length ≤ 63 → wordNode f x = true →
        gather f (x :: xs) s n0 = gather f xs s' (n0 + 1) →
        ∃ m, m ≤ (x :: xs).length ∧ gather f (x :: xs) s n0 = (s ++ lettersL ((x :: xs).take m), n0 + m) ∧
          adm f s.length ((x :: xs).take m) = true ∧
          ∀ m', m < m' → m' ≤ (x :: xs).length → adm f s.length ((x :: xs).take m') = false := by
      intro s' hs' hlen hw hg
      obtain ⟨m, hm, hgm, hadm, hmax⟩ := ih s' (n0 + 1) hlen
      have hl : s'.length = s.length + (lettersI x).length := by simp [hs']
      refine ⟨m + 1, by simp; omega, ?_, ?_, ?_⟩
      · rw [hg, hgm, hs']
        simp only [List.take_succ_cons, lettersL, List.map_cons, List.flatten_cons, List.append_assoc]
        congr 1; omega
      · simp only [List.take_succ_cons, adm_cons, hw, Bool.true_and, ← hl]
        exact hadm
      · intro m' h1 h2
        obtain ⟨k, rfl⟩ : ∃ k, m' = k + 1 := ⟨m' - 1, by omega⟩
        simp only [List.take_succ_cons, adm_cons, hw, Bool.true_and, ← hl]
        exact hmax k (by omega) (by simpa using h2)
    cases x with
    | char c g =>
      by_cases hg : g = f
      · by_cases hlet : isLetter c = true
        · by_cases hcap : s.length + 1 ≥ 64
          · apply stop
            · simp [gather, hg, hlet, hcap]
            · intro p
              simp only [adm_cons, lettersI, List.length_cons, List.length_nil]
              simp only [adm, Bool.and_eq_false_iff, decide_eq_false_iff_not]
              right; right; omega
          · apply go (s ++ [c]) (by simp [lettersI]) (by simp; omega) (by simp [wordNode, hg, hlet])
            simp [gather, hg, hlet, hcap]
        · apply stop
          · simp [gather, hg, hlet]
          · intro p; exact adm_cons_of_not_wordNode p (by simp [wordNode, hlet])
      · apply stop
        · simp [gather, hg]
        · intro p; exact adm_cons_of_not_wordNode p (by simp [wordNode, hg])
    | lig c g orig lb rb =>
      by_cases hg : g = f
      · by_cases hlet : orig.all isLetter = true
        · by_cases hcap : s.length + orig.length ≥ 64
          · apply stop
            · simp [gather, hg, hlet, hcap]
            · intro p
              simp only [adm_cons, lettersI]
              simp only [adm, Bool.and_eq_false_iff, decide_eq_false_iff_not]
              right; right; omega
          · apply go (s ++ orig) (by simp [lettersI]) (by simp; omega) (by simp [wordNode, hg, hlet])
            simp [gather, hg, hlet, hcap]
        · apply stop
          · simp [gather, hg, hlet]
          · intro p; exact adm_cons_of_not_wordNode p (by simp [wordNode, hlet])
      · apply stop
        · simp [gather, hg]
        · intro p; exact adm_cons_of_not_wordNode p (by simp [wordNode, hg])
    | kern k w =>
      by_cases hk : k = 0
      · apply go s (by simp [lettersI]) hs (by simp [wordNode, hk])
        simp [gather, hk]
      · apply stop
        · simp [gather, hk]
        · intro p; exact adm_cons_of_not_wordNode p (by simp [wordNode, hk])
    | other k p =>
      apply stop
      · simp [gather]
      · intro p; exact adm_cons_of_not_wordNode p (by simp [wordNode])
    | disc a b c =>
      apply stop
      · simp [gather]
      · intro p; exact adm_cons_of_not_wordNode p (by simp [wordNode])

end C14
