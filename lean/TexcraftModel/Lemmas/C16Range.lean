import TexcraftModel.Lemmas.C16Seq

/-!
# C16 — positions stay inside `i32` when the total movement does

`dvi::Values::update` adds with `+=` on `i32` (a panic under overflow checks, a silent wrap
without). The model's `h`, `v` are unbounded `Int`; this file states when that abstraction is
exact: if the movements performed so far sum (in absolute value) to at most `B`, every `h` and `v`
the tracker holds — current level and every stacked level — is within `[-B, B]`.
-/
namespace C16

def StackValues.Within (s : StackValues) (B : Nat) : Prop :=
  s.h.natAbs ≤ B ∧ s.v.natAbs ≤ B

def Values.Within (s : Values) (B : Nat) : Prop :=
  s.top.Within B ∧ ∀ t ∈ s.tail, t.Within B

theorem StackValues.Within.mono {s : StackValues} {B C : Nat} (h : s.Within B) (hBC : B ≤ C) :
    s.Within C := ⟨Nat.le_trans h.1 hBC, Nat.le_trans h.2 hBC⟩

theorem Values.Within.mono {s : Values} {B C : Nat} (h : s.Within B) (hBC : B ≤ C) :
    s.Within C := ⟨h.1.mono hBC, fun t ht => (h.2 t ht).mono hBC⟩

theorem moveBy_within (s : StackValues) (v : Var) (d : Int) (B : Nat) (h : s.Within B) :
    (s.moveBy v d).Within (B + d.natAbs) := by
  obtain ⟨h1, h2⟩ := h
  cases v <;> simp only [StackValues.moveBy, StackValues.Within] <;> omega

theorem setVar_within (s : StackValues) (v : Var) (i : Int) (B : Nat) (h : s.Within B) :
    (s.setVar v i).Within B := by
  cases v <;> exact h

/-- One step: the bound grows by exactly the movement of the step. -/
theorem update_within (s : Values) (op : Op) (B : Nat) (h : s.Within B) :
    (s.update op).Within (B + stepMag s op) := by
  obtain ⟨ht, hl⟩ := h
  have hl' : ∀ t ∈ s.tail, t.Within (B + stepMag s op) :=
    fun t hm => (hl t hm).mono (Nat.le_add_right _ _)
  have ht' : s.top.Within (B + stepMag s op) := ht.mono (Nat.le_add_right _ _)
  cases op with
  | typesetChar c m => cases m <;> exact ⟨ht', hl'⟩
  | typesetRule hh w m =>
    cases m
    · exact ⟨ht', hl'⟩
    · refine ⟨?_, hl'⟩
      obtain ⟨h1, h2⟩ := ht
      show (s.top.h + w).natAbs ≤ _ ∧ s.top.v.natAbs ≤ _
      simp only [stepMag, if_true]
      omega
  | beginPage ps p =>
    refine ⟨⟨by show (0 : Int).natAbs ≤ _; simp, by show (0 : Int).natAbs ≤ _; simp⟩, ?_⟩
    intro t hm; cases hm
  | push =>
    refine ⟨ht', ?_⟩
    intro t hm
    change t ∈ s.top :: s.tail at hm
    simp only [List.mem_cons] at hm
    rcases hm with rfl | hm
    · exact ht'
    · exact hl' t hm
  | pop =>
    cases htl : s.tail with
    | nil =>
      have : s.update .pop = s := by simp only [Values.update, htl]
      rw [this]; exact ⟨ht', hl'⟩
    | cons t rest =>
      have : s.update .pop = { s with top := t, tail := rest } := by simp only [Values.update, htl]
      rw [this]
      rw [htl] at hl'
      exact ⟨hl' t (List.mem_cons_self), fun u hu => hl' u (List.mem_cons_of_mem _ hu)⟩
  | right d =>
    refine ⟨?_, hl'⟩
    obtain ⟨h1, h2⟩ := ht
    show (s.top.h + d).natAbs ≤ _ ∧ s.top.v.natAbs ≤ _
    simp only [stepMag]; omega
  | down d =>
    refine ⟨?_, hl'⟩
    obtain ⟨h1, h2⟩ := ht
    show s.top.h.natAbs ≤ _ ∧ (s.top.v + d).natAbs ≤ _
    simp only [stepMag]; omega
  | move v => exact ⟨moveBy_within _ _ _ _ ht, hl'⟩
  | setVar v i => exact ⟨moveBy_within _ _ _ _ (setVar_within _ _ _ _ ht), hl'⟩
  | enableFont f => exact ⟨ht', hl'⟩
  | noOp => exact ⟨ht', hl'⟩
  | endPage => exact ⟨ht', hl'⟩
  | extension d => exact ⟨ht', hl'⟩
  | defineFont n c a d area name => exact ⟨ht', hl'⟩
  | preamble f n d m c => exact ⟨ht', hl'⟩
  | beginPostamble fbp n d m lh lw ms np => exact ⟨ht', hl'⟩
  | endPostamble f p k => exact ⟨ht', hl'⟩

/-- Every state along a run stays within the bound reached at the end of the run. -/
theorem run_within (ops : List Op) (s : Values) (B : Nat) (h : s.Within B) :
    ∀ k, k ≤ ops.length → ((ops.take k).foldl Values.update s).Within (B + runMag s ops) := by
  induction ops generalizing s B with
  | nil => intro k _; simpa [runMag] using h
  | cons op ops ih =>
    intro k hk
    cases k with
    | zero => simpa using h.mono (Nat.le_add_right _ _)
    | succ j =>
      have := ih (s.update op) (B + stepMag s op) (update_within s op B h) j (by simpa using hk)
      simpa [runMag, List.take_succ_cons, List.foldl_cons, Nat.add_assoc] using this

end C16
