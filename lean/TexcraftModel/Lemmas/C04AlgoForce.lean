import TexcraftModel.Lemmas.C04AlgoScan
/-!
C04 — with `force_solution = true` the algorithm always returns breakpoints: the deque never
becomes empty and every node's total stays below `AWFUL_BAD`. Core Lean only.
-/
namespace C04

/-! ### `tryNode` -/

/-- The triple (deactivate, allowable_break, artificial_demerits) of `tryNode`. -/
def force_daa (x : Inst) (force : Bool) (c : BCtx) (ν : ANode) (e : Bool) (md : Int) :
    Bool × Bool × Bool :=
  if 10000 < (nodeRate x c ν).1 ∨ c.penalty = -10000 then
    if force ∧ md = awfulBad ∧ e then (true, true, true)
    else (true, decide ((nodeRate x c ν).1 ≤ threshold x.p), false)
  else (false, decide ((nodeRate x c ν).1 ≤ threshold x.p), false)

/-- The total that `tryNode` offers. -/
def force_tot (x : Inst) (force : Bool) (c : BCtx) (ν : ANode) (e : Bool) (md : Int) : Int :=
  (if (force_daa x force c ν e md).2.2 then 0
   else demeritsFn x.p (nodeRate x c ν).1 c.penalty ν.fit (nodeRate x c ν).2
     (ν.hyph && c.hyph) (ν.hyph && c.isEnd)) + ν.total

theorem force_tryNode_eq (x : Inst) (force : Bool) (c : BCtx) (ν : ANode) (e : Bool)
    (cs : Cands) (md : Int) :
    tryNode x force c ν e cs md =
      if (force_daa x force c ν e md).2.1 then
        ⟨(force_daa x force c ν e md).1,
         (offer (cs, md) (nodeRate x c ν).2 (force_tot x force c ν e md) (ν.line + 1) ν.path).1,
         (offer (cs, md) (nodeRate x c ν).2 (force_tot x force c ν e md) (ν.line + 1) ν.path).2⟩
      else ⟨(force_daa x force c ν e md).1, cs, md⟩ := rfl

/-- `tryNode` either leaves candidates and minimum alone or makes one `offer`. -/
theorem force_tryNode_cases (x : Inst) (force : Bool) (c : BCtx) (ν : ANode) (e : Bool)
    (cs : Cands) (md : Int) :
    ((tryNode x force c ν e cs md).cs = cs ∧ (tryNode x force c ν e cs md).md = md) ∨
    ∃ f tot, (tryNode x force c ν e cs md).cs = (offer (cs, md) f tot (ν.line + 1) ν.path).1 ∧
      (tryNode x force c ν e cs md).md = (offer (cs, md) f tot (ν.line + 1) ν.path).2 := by
  rw [force_tryNode_eq]
  split
  · exact Or.inr ⟨_, _, rfl, rfl⟩
  · exact Or.inl ⟨rfl, rfl⟩

theorem force_tryNode_minOK (x : Inst) (force : Bool) (c : BCtx) (ν : ANode) (e : Bool)
    (cs : Cands) (md : Int) (h : MinOK (cs, md)) :
    MinOK ((tryNode x force c ν e cs md).cs, (tryNode x force c ν e cs md).md) := by
  rcases force_tryNode_cases x force c ν e cs md with ⟨h1, h2⟩ | ⟨f, tot, h1, h2⟩
  · rw [h1, h2]; exact h
  · rw [h1, h2]; exact scan_offer_minOK _ _ _ _ _ h

theorem force_tryNode_md_le (x : Inst) (force : Bool) (c : BCtx) (ν : ANode) (e : Bool)
    (cs : Cands) (md : Int) : (tryNode x force c ν e cs md).md ≤ md := by
  rcases force_tryNode_cases x force c ν e cs md with ⟨_, h2⟩ | ⟨f, tot, _, h2⟩
  · rw [h2]; exact Int.le_refl _
  · rw [h2]; exact (scan_offer_mono (cs, md) f tot _ _ f).2

/-- A deactivated last node with nothing found so far is taken artificially. -/
theorem force_tryNode_awful (x : Inst) (c : BCtx) (ν : ANode) (cs : Cands)
    (hν : ν.total < awfulBad)
    (hd : (tryNode x true c ν true cs awfulBad).deact = true) :
    (tryNode x true c ν true cs awfulBad).md < awfulBad := by
  rw [force_tryNode_eq] at hd ⊢
  by_cases h1 : 10000 < (nodeRate x c ν).1 ∨ c.penalty = -10000
  · have hdaa : force_daa x true c ν true awfulBad = (true, true, true) := by
      unfold force_daa; simp [h1]
    have htot : force_tot x true c ν true awfulBad = ν.total := by
      unfold force_tot; rw [hdaa]; simp
    rw [hdaa, htot]
    simp only [if_true]
    refine Int.lt_of_le_of_lt (scan_offer_le _ _ _ _ _).2 hν
  · have hdaa : (force_daa x true c ν true awfulBad).1 = false := by
      unfold force_daa; simp [h1]
    rw [hdaa] at hd
    split at hd <;> simp at hd

theorem force_tryNode_lt (x : Inst) (c : BCtx) (ν : ANode) (cs : Cands) (md : Int)
    (hν : ν.total < awfulBad) (hmd : md ≤ awfulBad)
    (hd : (tryNode x true c ν true cs md).deact = true) :
    (tryNode x true c ν true cs md).md < awfulBad := by
  by_cases he : md = awfulBad
  · subst he; exact force_tryNode_awful x c ν cs hν hd
  · have := force_tryNode_md_le x true c ν true cs md
    omega

/-! ### The inner loop -/

theorem force_inner_cons (x : Inst) (c : BCtx) (ν : ANode) (G R : List ANode) (cs : Cands)
    (md : Int) :
    inner x true c (ν :: G).length ((ν :: G) ++ R) cs md =
      inner x true c G.length
        (if (tryNode x true c ν (G ++ R).isEmpty cs md).deact then G ++ R else G ++ (R ++ [ν]))
        (tryNode x true c ν (G ++ R).isEmpty cs md).cs
        (tryNode x true c ν (G ++ R).isEmpty cs md).md := by
  rw [List.length_cons, List.cons_append, inner, List.append_assoc]

/-- The statement about one run of the inner loop over the group `G`. -/
def force_InnerOK (G R : List ANode) (r : List ANode × Cands × Int) : Prop :=
  MinOK (r.2.1, r.2.2) ∧ r.2.2 ≤ awfulBad ∧ R.length ≤ r.1.length ∧
    (∀ μ ∈ r.1, μ ∈ G ∨ μ ∈ R) ∧ (r.1 = [] → r.2.2 < awfulBad)

theorem force_inner_last (x : Inst) (c : BCtx) (ν : ANode) (R : List ANode) (cs : Cands)
    (md : Int) (hm : MinOK (cs, md)) (hmd : md ≤ awfulBad) (hν : ν.total < awfulBad) :
    force_InnerOK [ν] R (inner x true c [ν].length ([ν] ++ R) cs md) := by
  rw [force_inner_cons]
  have ht1 := force_tryNode_minOK x true c ν ([] ++ R).isEmpty cs md hm
  have ht2 := force_tryNode_md_le x true c ν ([] ++ R).isEmpty cs md
  simp only [List.length_nil, inner]
  cases hd : (tryNode x true c ν ([] ++ R).isEmpty cs md).deact
  · refine ⟨ht1, Int.le_trans ht2 hmd, ?_, ?_, ?_⟩
    · simp
    · intro μ hμ
      simp at hμ
      rcases hμ with h | h
      · exact Or.inr h
      · exact Or.inl (List.mem_singleton.mpr h)
    · intro h; simp at h
  · refine ⟨ht1, Int.le_trans ht2 hmd, ?_, ?_, ?_⟩
    · simp
    · intro μ hμ
      simp at hμ
      exact Or.inr hμ
    · intro h
      simp at h
      subst h
      exact force_tryNode_lt x c ν cs md hν hmd hd

theorem force_inner (x : Inst) (c : BCtx) (G R : List ANode) (cs : Cands) (md : Int)
    (hG : G ≠ []) (hm : MinOK (cs, md)) (hmd : md ≤ awfulBad)
    (htot : ∀ ν ∈ G, ν.total < awfulBad) :
    force_InnerOK G R (inner x true c G.length (G ++ R) cs md) := by
  induction G generalizing R cs md with
  | nil => exact absurd rfl hG
  | cons ν G' ih =>
    by_cases hG' : G' = []
    · subst hG'
      exact force_inner_last x c ν R cs md hm hmd (htot ν (List.mem_cons_self ..))
    · rw [force_inner_cons]
      have ht1 := force_tryNode_minOK x true c ν (G' ++ R).isEmpty cs md hm
      have ht2 := Int.le_trans (force_tryNode_md_le x true c ν (G' ++ R).isEmpty cs md) hmd
      have htot' : ∀ ν ∈ G', ν.total < awfulBad := fun μ hμ => htot μ (List.mem_cons_of_mem _ hμ)
      cases hd : (tryNode x true c ν (G' ++ R).isEmpty cs md).deact
      · simp only [Bool.false_eq_true, if_false]
        obtain ⟨h1, h2, h3, h4, h5⟩ := ih (R ++ [ν]) _ _ hG' ht1 ht2 htot'
        refine ⟨h1, h2, ?_, ?_, h5⟩
        · rw [List.length_append] at h3
          exact Nat.le_trans (Nat.le_add_right _ _) h3
        · intro μ hμ
          rcases h4 μ hμ with h | h
          · exact Or.inl (List.mem_cons_of_mem _ h)
          · rcases List.mem_append.mp h with h | h
            · exact Or.inr h
            · rw [List.mem_singleton.mp h]; exact Or.inl (List.mem_cons_self ..)
      · simp only [if_true]
        obtain ⟨h1, h2, h3, h4, h5⟩ := ih R _ _ hG' ht1 ht2 htot'
        refine ⟨h1, h2, h3, ?_, h5⟩
        intro μ hμ
        rcases h4 μ hμ with h | h
        · exact Or.inl (List.mem_cons_of_mem _ h)
        · exact Or.inr h

/-! ### Pruning threshold and new nodes -/

theorem force_pruneThreshold (adj md : Int) (h : md < awfulBad) :
    md ≤ pruneThreshold adj md ∧ pruneThreshold adj md < awfulBad := by
  unfold pruneThreshold iabs awfulBad at *
  split <;> split <;> omega

theorem force_newNodes_total (c : BCtx) (bw : Totals) (cs : Cands) (thr : Int) (μ : ANode)
    (h : μ ∈ newNodes c bw cs thr) : μ.total ≤ thr := by
  unfold newNodes at h
  obtain ⟨f, _, hf⟩ := List.mem_filterMap.mp h
  by_cases ht : thr < (cs f).total
  · simp [ht] at hf
  · simp only [if_neg ht, Option.some.injEq] at hf
    rw [← hf]
    exact Int.not_lt.mp ht

theorem force_newNodes_ne (c : BCtx) (bw : Totals) (cs : Cands) (md thr : Int)
    (hm : MinOK (cs, md)) (h : md ≤ thr) : newNodes c bw cs thr ≠ [] := by
  obtain ⟨_, g, hg⟩ := hm
  have hg' : md = (cs g).total := hg
  have hnot : ¬ thr < (cs g).total := by omega
  intro hnil
  have hmem : (⟨bw, g, c.hyph, (cs g).line, (cs g).total, c.i :: (cs g).path⟩ : ANode) ∈
      newNodes c bw cs thr := by
    unfold newNodes
    refine List.mem_filterMap.mpr ⟨g, Fit.mem_all g, ?_⟩
    simp only [if_neg hnot]
  rw [hnil] at hmem
  cases hmem

/-! ### The outer loop -/

/-- The invariant: the deque is not empty and every total is below `AWFUL_BAD`. -/
def force_ActOK (act : List ANode) : Prop := act ≠ [] ∧ ∀ ν ∈ act, ν.total < awfulBad

/-- The deque after one round of the `while n > 0` loop. -/
def force_round (x : Inst) (q : Int) (c : BCtx) (n : Nat) (act : List ANode) : List ANode :=
  let r := inner x true c (numNext x q act n) act Cands.init awfulBad
  if r.2.2 < awfulBad then
    r.1 ++ newNodes c (breakWidth x c.i c.diffs) r.2.1 (pruneThreshold x.p.adjDemerits r.2.2)
  else r.1

theorem force_outer_succ (x : Inst) (q : Int) (c : BCtx) (fuel n : Nat) (act : List ANode) :
    outer x q true c (fuel + 1) n act =
      if n = 0 then act
      else outer x q true c fuel (n - numNext x q act n) (force_round x q c n act) := rfl

theorem force_round_ok (x : Inst) (q : Int) (c : BCtx) (n : Nat) (act : List ANode)
    (hact : force_ActOK act) (hn : n ≤ act.length) (hn0 : n ≠ 0) :
    force_ActOK (force_round x q c n act) ∧
      n - numNext x q act n ≤ (force_round x q c n act).length := by
  obtain ⟨hne, htot⟩ := hact
  have hm_le : numNext x q act n ≤ n := numNext_le x q act n
  have hm_pos : 0 < numNext x q act n := numNext_pos x q act n hne (Nat.pos_of_ne_zero hn0)
  unfold force_round
  generalize numNext x q act n = m at hm_le hm_pos
  have htl : (act.take m).length = m := by
    rw [List.length_take]; exact Nat.min_eq_left (Nat.le_trans hm_le hn)
  have hG : act.take m ≠ [] := by
    intro h; rw [h] at htl; simp at htl; omega
  have hin := force_inner x c (act.take m) (act.drop m) Cands.init awfulBad hG minOK_init
    (Int.le_refl _) (fun ν hν => htot ν (List.mem_of_mem_take hν))
  rw [htl, List.take_append_drop] at hin
  obtain ⟨h1, h2, h3, h4, h5⟩ := hin
  rw [List.length_drop] at h3
  have hold : ∀ μ ∈ (inner x true c m act Cands.init awfulBad).1, μ.total < awfulBad := by
    intro μ hμ
    rcases h4 μ hμ with h | h
    · exact htot μ (List.mem_of_mem_take h)
    · exact htot μ (List.mem_of_mem_drop h)
  dsimp only
  by_cases hlt : (inner x true c m act Cands.init awfulBad).2.2 < awfulBad
  · rw [if_pos hlt]
    have hthr := force_pruneThreshold x.p.adjDemerits _ hlt
    refine ⟨⟨?_, ?_⟩, ?_⟩
    · intro h
      exact force_newNodes_ne c (breakWidth x c.i c.diffs) _ _ _ h1 hthr.1
        (List.append_eq_nil_iff.mp h).2
    · intro μ hμ
      rcases List.mem_append.mp hμ with h | h
      · exact hold μ h
      · exact Int.lt_of_le_of_lt (force_newNodes_total _ _ _ _ μ h) hthr.2
    · rw [List.length_append]; omega
  · rw [if_neg hlt]
    refine ⟨⟨fun h => hlt (h5 h), hold⟩, ?_⟩
    omega

theorem force_outer (x : Inst) (q : Int) (c : BCtx) (fuel n : Nat) (act : List ANode)
    (hact : force_ActOK act) (hn : n ≤ act.length) :
    force_ActOK (outer x q true c fuel n act) := by
  induction fuel generalizing n act with
  | zero => exact hact
  | succ fuel ih =>
    rw [force_outer_succ]
    by_cases hn0 : n = 0
    · rw [if_pos hn0]; exact hact
    · rw [if_neg hn0]
      have h := force_round_ok x q c n act hact hn hn0
      exact ih _ _ h.1 h.2

/-! ### The main loop -/

theorem force_classify_active (x : Inst) (i : Nat) (st : LState) :
    (classify x i st).1.active = st.active := by
  unfold classify
  split <;> try rfl
  · split <;> rfl
  · split <;> rfl
  · split <;> rfl

theorem force_step (x : Inst) (q : Int) (st : LState) (i : Nat) (h : force_ActOK st.active) :
    force_ActOK (step x q true st i).active := by
  have hc : force_ActOK (classify x i st).1.active := by
    rw [force_classify_active]; exact h
  unfold step
  dsimp only
  split
  · exact hc
  · split
    · exact hc
    · exact force_outer x q _ _ _ _ hc (Nat.le_refl _)

theorem force_foldl (x : Inst) (q : Int) (l : List Nat) (st : LState)
    (h : force_ActOK st.active) : force_ActOK (l.foldl (step x q true) st).active := by
  induction l generalizing st with
  | nil => exact h
  | cons i t ih => exact ih _ (force_step x q st i h)

theorem force_mainLoop (x : Inst) (q : Int) : force_ActOK (mainLoop x q true).active := by
  unfold mainLoop
  apply force_foldl
  refine ⟨by simp, ?_⟩
  intro ν hν
  have : ν = {} := by simpa using hν
  subst this
  decide

/-! ### The result -/

theorem force_finish (q : Int) (act : List ANode) (h : act ≠ []) :
    (finish q true act).isSome = true := by
  cases act with
  | nil => exact absurd rfl h
  | cons first t =>
    unfold finish
    dsimp only
    split
    · rw [if_neg (by simp)]; rfl
    · rfl

theorem algo_force_some (x : Inst) (q : Int) : (algo x q true).isSome = true :=
  force_finish q _ (force_mainLoop x q).1

end C04
