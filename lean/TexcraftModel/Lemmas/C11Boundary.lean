/-
C11 — `pack_entrypoints`: the boundary data survive (what the `.tfm` reader recovers from
the packed words), and the PL-level view of the packed table is the original table
(the round trip through a property list reproduces the input of `pack`: idempotence).
-/
import TexcraftModel.Model.C11
import TexcraftModel.Lemmas.C11Chain
import TexcraftModel.Lemmas.C11Pack

namespace C11

theorem chain_subset (l : List Instr) : ∀ (e : Nat), ∀ i ∈ chain e l, i ∈ l := by
  induction l with
  | nil => intro e i hi; simp [chain_nil] at hi
  | cons a rest ih =>
    intro e i hi
    cases e with
    | zero =>
      simp only [chain, List.mem_cons] at hi
      rcases hi with rfl | hi
      · exact List.mem_cons_self ..
      · cases hn : a.next with
        | none => simp [hn] at hi
        | some inc =>
          simp only [hn] at hi
          exact List.mem_cons_of_mem _ (ih inc i hi)
    | succ s =>
      simp only [chain] at hi
      exact List.mem_cons_of_mem _ (ih s i hi)

/-- Every word in front is a redirect word with the flag set that carries the boundary char. -/
theorem frontOf_all (p : Prog) (st : LoopSt) :
    ∀ i ∈ frontOf p st, i.right = p.rb.getD 0 ∧ ∃ u, i.op = .redirect u true := by
  intro i hi
  simp only [frontOf, List.mem_append, List.mem_map] at hi
  rcases hi with hi | ⟨e, _, rfl⟩
  · split at hi
    · simp only [List.mem_singleton] at hi
      subst hi
      exact ⟨rfl, 0, rfl⟩
    · simp at hi
  · exact ⟨rfl, _, rfl⟩

theorem packLoop_offset_pos (rbSome : Bool) (ds : List Nat) :
    ∀ (k : Nat) (st st' : LoopSt), packLoop rbSome (k + 1) ds st = some st' → 1 ≤ st.offset → 1 ≤ st'.offset := by
  induction ds with
  | nil =>
    intro k st st' h hp
    simp only [packLoop, Option.some.injEq] at h
    subst h; exact hp
  | cons e rest ih =>
    intro k st st' h hp
    simp only [packLoop] at h
    split at h
    · exact ih (k + 1) _ st' h hp
    · have hk0 : (k + 1 == 0) = false := by simp
      simp only [hk0, Bool.false_and, Bool.false_eq_true, if_false, Bool.or_false] at h
      split at h
      · exact ih (k + 1) _ st' h (by simp)
      · simp at h

theorem packLoop_zero_offset_pos (ds : List Nat) (st' : LoopSt)
    (h : packLoop true 0 ds (initSt true) = some st') : 1 ≤ st'.offset := by
  cases ds with
  | nil =>
    simp only [packLoop, Option.some.injEq] at h
    subst h; simp [initSt]
  | cons e rest =>
    simp only [packLoop] at h
    split at h
    · exact packLoop_offset_pos true rest 0 _ st' h (by simp [initSt])
    · have h00 : ((0 : Nat) == 0) = true := by simp
      simp only [h00, Bool.true_and, if_true, Nat.zero_le, Nat.zero_add] at h
      exact packLoop_offset_pos true rest 0 _ st' h (by simp)

theorem not_redirect_of_mem {I : List Instr} (hnr : noRedirect I = true) {x : Instr} (hx : x ∈ I) :
    x.op.isRedirect = false := by
  simp only [noRedirect, List.all_eq_true, Bool.not_eq_eq_eq_not, Bool.not_true] at hnr
  exact hnr _ hx

theorem skip255_of_not_redirect {rb : Option Nat} {x : Instr} (h : x.op.isRedirect = false) :
    skip255 rb x = false := by
  cases hx : x.op <;> simp_all [skip255, Op.isRedirect]

/-- **The boundary data survive packing and serialisation.** -/
theorem pack_boundary {p : Prog} {entries : List (Nat × Nat)} {P : Prog} {pe : List (Nat × Nat)}
    (h : pack p entries = some (P, pe)) (hwf : wf p entries = true) : boundaryOk p P = true := by
  obtain ⟨st, hst, hg, _, _, hP, hlen⟩ := pack_shape h
  obtain ⟨hnr, hcl, _, hlb⟩ := wf_parts hwf
  have hF := frontOf_all p st
  subst hP
  simp only [boundaryOk, beq_self_eq_true, Bool.true_and, Bool.and_eq_true]
  refine ⟨?_, ?_⟩
  · -- boundary char
    cases hrb : p.rb with
    | some c =>
      have hpos : 1 ≤ st.offset := by
        rw [hrb] at hst
        exact packLoop_zero_offset_pos _ _ hst
      cases hFl : frontOf p st with
      | nil => rw [hFl] at hlen; simp at hlen; omega
      | cons f F' =>
        obtain ⟨hr, u, hu⟩ := hF f (by rw [hFl]; exact List.mem_cons_self ..)
        simp [readRb, skip255, hu, hr, hrb]
    | none =>
      cases hFl : frontOf p st with
      | cons f F' =>
        obtain ⟨_, u, hu⟩ := hF f (by rw [hFl]; exact List.mem_cons_self ..)
        simp [readRb, skip255, hu]
      | nil =>
        cases hI : p.instrs with
        | cons x I' =>
          have := skip255_of_not_redirect (rb := none) (not_redirect_of_mem hnr (by rw [hI]; exact List.mem_cons_self ..))
          simp [readRb, this]
        | nil =>
          cases hl : p.lb with
          | none => simp [readRb, postOf, hl]
          | some l =>
            have := hlb l hl
            rw [hI] at this
            simp at this
  · -- left boundary
    cases hl : p.lb with
    | some l =>
      have hl' := hlb l hl
      have hlast : (frontOf p st ++ p.instrs ++ postOf p st).getLast? = some (lbInstr (l + st.offset)) := by
        simp [postOf, hl]
      have hchain : chain (l + st.offset) (frontOf p st ++ p.instrs ++ postOf p st) = chain l p.instrs := by
        rw [Nat.add_comm, ← hlen]
        exact chain_embedded _ _ _ _ hcl hl'
      simp only [readLb, hlast, Option.map_some]
      rw [List.append_assoc] at hchain
      simp [skip255, lbInstr, hchain]
    | none =>
      have hQ : postOf p st = [] := by simp [postOf, hl]
      simp only [hQ, List.append_nil, Option.map_none, beq_self_eq_true, Bool.true_and]
      cases hI : p.instrs.getLast? with
      | some x =>
        have hx : x ∈ p.instrs := List.mem_of_getLast? hI
        have hne : p.instrs ≠ [] := by intro hh; rw [hh] at hx; simp at hx
        have hlast : (frontOf p st ++ p.instrs).getLast? = some x := by
          rw [List.getLast?_append, hI]; simp
        have := skip255_of_not_redirect (rb := p.rb) (not_redirect_of_mem hnr hx)
        simp [readLb, hlast, this]
      | none =>
        have hIn : p.instrs = [] := List.getLast?_eq_none_iff.mp hI
        simp only [hIn, List.append_nil]
        cases hFl : (frontOf p st).getLast? with
        | none => simp [readLb, hFl]
        | some x =>
          have hx : x ∈ frontOf p st := List.mem_of_getLast? hFl
          obtain ⟨_, u, hu⟩ := hF x hx
          simp only [readLb, hFl, skip255, hu]
          cases hrb : p.rb with
          | none => simp
          | some c =>
            simp only [Option.isSome_some, if_true, List.all_eq_true]
            intro i hi
            obtain ⟨_, u', hu'⟩ := hF i (chain_subset _ _ i hi)
            simp [hu', Op.isRedirect]

/-- S holds of the model: **pack_spec**. -/
theorem pack_checkPack {p : Prog} {entries : List (Nat × Nat)} {P : Prog} {pe : List (Nat × Nat)}
    (h : pack p entries = some (P, pe)) (hwf : wf p entries = true)
    (hnd : (entries.map (·.1)).Nodup) : checkPack p entries P pe = true := by
  simp only [checkPack, Bool.and_eq_true, List.all_eq_true, beq_iff_eq]
  obtain ⟨_, _, _, _, hkeys, _⟩ := pack_entry_explicit h hwf hnd
  exact ⟨⟨pack_preserves_entry h hwf hnd, hkeys⟩, pack_boundary h hwf⟩

/-! ### The PL-level view of the packed table (idempotence across print/parse) -/

/-- What `tfm_to_pl` prints and `pl_to_tfm` reads back as the instruction list: the redirect
words are omitted (`build_lig_kern_op` returns `None`, pl/mod.rs:737; pass-through words are
skipped, pl/mod.rs:809). -/
def stripRedirects (l : List Instr) : List Instr := l.filter (fun i => !i.op.isRedirect)

/-- The position a label printed in front of word `e` has when the text is read back:
the number of non-redirect words before it. -/
def plIndex (l : List Instr) (e : Nat) : Nat := (stripRedirects (l.take e)).length

theorem strip_all_redirect {F : List Instr} (h : ∀ i ∈ F, i.op.isRedirect = true) : stripRedirects F = [] := by
  simp only [stripRedirects, List.filter_eq_nil_iff]
  intro i hi
  simp [h i hi]

theorem strip_none_redirect {I : List Instr} (h : noRedirect I = true) : stripRedirects I = I := by
  simp only [stripRedirects, List.filter_eq_self]
  intro i hi
  simp [not_redirect_of_mem h hi]

theorem noRedirect_take {I : List Instr} (h : noRedirect I = true) (e : Nat) : noRedirect (I.take e) = true := by
  simp only [noRedirect, List.all_eq_true] at h ⊢
  intro i hi
  exact h i (List.mem_of_mem_take hi)

theorem strip_embedded (F I Q : List Instr) (hF : ∀ i ∈ F, i.op.isRedirect = true)
    (hQ : ∀ i ∈ Q, i.op.isRedirect = true) (hI : noRedirect I = true) :
    stripRedirects (F ++ I ++ Q) = I := by
  have h1 := strip_all_redirect hF
  have h2 := strip_all_redirect hQ
  have h3 := strip_none_redirect hI
  simp only [stripRedirects] at h1 h2 h3 ⊢
  simp [List.filter_append, h1, h2, h3]

theorem plIndex_embedded (F I Q : List Instr) (e : Nat) (hF : ∀ i ∈ F, i.op.isRedirect = true)
    (hI : noRedirect I = true) (he : e ≤ I.length) : plIndex (F ++ I ++ Q) (F.length + e) = e := by
  have htake : (F ++ I ++ Q).take (F.length + e) = F ++ I.take e := by
    rw [List.append_assoc, List.take_append, List.take_of_length_le (by omega)]
    simp [List.take_append, List.take_of_length_le, he, Nat.min_eq_left he]
  have h1 := strip_all_redirect hF
  have h3 := strip_none_redirect (noRedirect_take hI e)
  simp only [plIndex, htake]
  simp only [stripRedirects] at h1 h3 ⊢
  simp [List.filter_append, h1, h3, Nat.min_eq_left he]

/-- **pack_idempotent.** Reading the packed table the way the PL printer/parser does — drop
the redirect words, count labels in non-redirect words — gives back exactly the program and
the entry points `pack` was applied to. Since `pack` is a function of these, packing the
re-read program reproduces the packed table: the second trip is the identity on the
lig/kern part. -/
theorem pack_pl_view {p : Prog} {entries : List (Nat × Nat)} {P : Prog} {pe : List (Nat × Nat)}
    (h : pack p entries = some (P, pe)) (hwf : wf p entries = true)
    (hnd : (entries.map (·.1)).Nodup) :
    stripRedirects P.instrs = p.instrs ∧ P.rb = p.rb ∧
      P.lb.map (plIndex P.instrs) = p.lb ∧
      ∀ ce ∈ entries, ∃ u e', lookup pe ce.1 = some u ∧ unpackEntry P.instrs u = some e' ∧
        plIndex P.instrs e' = ce.2 := by
  obtain ⟨st, _, hlen, hP, _, hex⟩ := pack_entry_explicit h hwf hnd
  obtain ⟨hnr, _, hent, hlb⟩ := wf_parts hwf
  have hF : ∀ i ∈ frontOf p st, i.op.isRedirect = true := by
    intro i hi
    obtain ⟨_, u, hu⟩ := frontOf_all p st i hi
    simp [hu, Op.isRedirect]
  have hQ : ∀ i ∈ postOf p st, i.op.isRedirect = true := by
    intro i hi
    simp only [postOf] at hi
    split at hi
    · simp at hi
    · simp only [List.mem_singleton] at hi
      subst hi
      simp [lbInstr, Op.isRedirect]
  subst hP
  refine ⟨strip_embedded _ _ _ hF hQ hnr, rfl, ?_, ?_⟩
  · cases hl : p.lb with
    | none => simp
    | some l =>
      simp only [Option.map_some]
      congr 1
      rw [Nat.add_comm, ← hlen]
      exact plIndex_embedded _ _ _ _ hF hnr (Nat.le_of_lt (hlb l hl))
  · intro ce hce
    obtain ⟨u, hu1, _, hu3⟩ := hex ce hce
    refine ⟨u, st.offset + ce.2, hu1, hu3, ?_⟩
    rw [← hlen]
    exact plIndex_embedded _ _ _ _ hF hnr (Nat.le_of_lt (hent ce hce))

end C11
