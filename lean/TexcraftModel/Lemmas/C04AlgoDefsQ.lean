import TexcraftModel.Lemmas.C04AlgoDefs

/-!
Line classes for an arbitrary looseness `q` (lib.rs:1037): with `q = 0` all line numbers from
`widths.length - 1` on form one class (`lkey`); with `q ≠ 0` every line number is its own
class. Definitions only. Core Lean only.
-/
namespace C04

def ckey (x : Inst) (q : Int) (L : Nat) : Nat := if q = 0 then lkey x L else L

def SortedQ (x : Inst) (q : Int) (l : List ANode) : Prop :=
  l.Pairwise fun a b => ckey x q a.line ≤ ckey x q b.line

/-- The nodes looked at in one round all have the same line number, or (looseness 0 only) all
produce nodes of the last line class. -/
def GroupShapeQ (x : Inst) (q : Int) (G : List ANode) : Prop :=
  (∀ μ ∈ G, ∀ μ' ∈ G, μ.line = μ'.line) ∨ (q = 0 ∧ ∀ μ ∈ G, x.p.widths.length ≤ μ.line + 2)

end C04
