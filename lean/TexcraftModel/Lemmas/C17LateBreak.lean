import TexcraftModel.Lemmas.C17Compress
/-! Sweep mutant 23 (C17): the early `break` of the candidate pass of `compress` taken later
(`buffer.len() > max_size + 1`). The pass then answers the same question: the same solution when
there is one, "not a solution" exactly when the real pass says so, with a `delta_upper` that is
at most the real one (a minimum over more gaps). -/
namespace C17

/-- The candidate pass with the break threshold raised by `extra` intervals. -/
def passLoopL (extra : Nat) (delta : Int) (maxSize : Nat) :
    List Int → Int → Int → Int → List Int → List (List Int) → PassRes
  | [], _, dlo, dhi, cur, done =>
    if done.length + 1 ≤ maxSize then .sol (done ++ [cur]) dlo else .fail dhi
  | v :: t, start, dlo, dhi, cur, done =>
    let gap := v - start
    if gap > delta then
      let dhi' := if gap < dhi then gap else dhi
      let done' := done ++ [cur]
      if done'.length ≥ maxSize + extra then .fail dhi'
      else passLoopL extra delta maxSize t v dlo dhi' [v] done'
    else passLoopL extra delta maxSize t start (if gap > dlo then gap else dlo) dhi (cur ++ [v]) done

theorem passLoopL_zero (delta : Int) (maxSize : Nat) : ∀ (l : List Int) (start dlo dhi : Int)
    (cur : List Int) (done : List (List Int)),
    passLoopL 0 delta maxSize l start dlo dhi cur done = passLoop delta maxSize l start dlo dhi cur done := by
  intro l
  induction l with
  | nil => intro start dlo dhi cur done; rfl
  | cons v t ih =>
    intro start dlo dhi cur done
    simp only [passLoopL, passLoop, Nat.add_zero, ih]

/-- Once too many intervals are closed, the late-breaking pass can only fail, with a
`delta_upper` not above the current one. -/
theorem passLoopL_full (extra : Nat) (delta : Int) (maxSize : Nat) : ∀ (l : List Int)
    (start dlo dhi : Int) (cur : List Int) (done : List (List Int)), maxSize ≤ done.length →
    ∃ d, passLoopL extra delta maxSize l start dlo dhi cur done = .fail d ∧ d ≤ dhi := by
  intro l
  induction l with
  | nil =>
    intro start dlo dhi cur done h
    have : ¬ done.length + 1 ≤ maxSize := by omega
    exact ⟨dhi, by simp only [passLoopL, this, if_false], Int.le_refl _⟩
  | cons v t ih =>
    intro start dlo dhi cur done h
    simp only [passLoopL]
    split
    · have hmin : (if v - start < dhi then v - start else dhi) ≤ dhi := by split <;> omega
      split
      · exact ⟨_, rfl, hmin⟩
      · obtain ⟨d, h1, h2⟩ := ih v dlo (if v - start < dhi then v - start else dhi) [v]
          (done ++ [cur]) (by simp; omega)
        exact ⟨d, h1, by omega⟩
    · exact ih start _ dhi (cur ++ [v]) done h

/-- **Why mutant 23 is equivalent (1).** When the real pass finds a solution, the late-breaking
pass returns the same solution and the same `delta_lower`. -/
theorem late_break_sol (extra : Nat) (delta : Int) (maxSize : Nat) : ∀ (l : List Int)
    (start dlo dhi : Int) (cur : List Int) (done cls : List (List Int)) (d : Int),
    passLoop delta maxSize l start dlo dhi cur done = .sol cls d →
    passLoopL extra delta maxSize l start dlo dhi cur done = .sol cls d := by
  intro l
  induction l with
  | nil =>
    intro start dlo dhi cur done cls d h
    simpa only [passLoop, passLoopL] using h
  | cons v t ih =>
    intro start dlo dhi cur done cls d h
    simp only [passLoop] at h
    simp only [passLoopL]
    split at h
    · rename_i hg
      split at h
      · simp at h
      · rename_i hb
        have hb' : ¬ (done ++ [cur]).length ≥ maxSize + extra := by omega
        simp only [hg, if_true, hb', if_false]
        exact ih v dlo _ [v] (done ++ [cur]) cls d h
    · rename_i hg
      simp only [hg, if_false]
      exact ih start _ dhi (cur ++ [v]) done cls d h

/-- **Why mutant 23 is equivalent (2).** When the real pass says "not a solution", so does the
late-breaking pass, with a `delta_upper` that is at most the real one (it is a minimum over more
gaps that open an interval, so it is still a tolerance below which nothing changes). -/
theorem late_break_fail (extra : Nat) (delta : Int) (maxSize : Nat) : ∀ (l : List Int)
    (start dlo dhi : Int) (cur : List Int) (done : List (List Int)) (d : Int),
    passLoop delta maxSize l start dlo dhi cur done = .fail d →
    ∃ d', passLoopL extra delta maxSize l start dlo dhi cur done = .fail d' ∧ d' ≤ d := by
  intro l
  induction l with
  | nil =>
    intro start dlo dhi cur done d h
    exact ⟨d, by simpa only [passLoop, passLoopL] using h, Int.le_refl _⟩
  | cons v t ih =>
    intro start dlo dhi cur done d h
    simp only [passLoop] at h
    simp only [passLoopL]
    split at h
    · rename_i hg
      simp only [hg, if_true]
      split at h
      · rename_i hb
        simp only [PassRes.fail.injEq] at h
        subst h
        split
        · exact ⟨_, rfl, Int.le_refl _⟩
        · exact passLoopL_full extra delta maxSize t v dlo
            (if v - start < dhi then v - start else dhi) [v] (done ++ [cur]) (by simpa using hb)
      · rename_i hb
        have hb' : ¬ (done ++ [cur]).length ≥ maxSize + extra := by omega
        simp only [hb', if_false]
        exact ih v dlo _ [v] (done ++ [cur]) d h
    · rename_i hg
      simp only [hg, if_false]
      exact ih start _ dhi (cur ++ [v]) done d h

end C17
