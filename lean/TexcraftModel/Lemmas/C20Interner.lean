import TexcraftModel.Model.C20Interner

/-!
# C20 — string interner: the model refines the specification, for every hash function

`Rep h st strs`: the interner state `st` (hasher `h`) represents the list `strs` of distinct
strings in first-occurrence order. Nothing is assumed of `h` (a constant `h` is covered).
-/
namespace C20.Intern

/-! ## Association lists -/

theorem alookup_aerase {V : Type} (k k' : Nat) (l : AList Nat V) :
    alookup (aerase k l) k' = if k = k' then none else alookup l k' := by
  induction l with
  | nil => simp [aerase, alookup]
  | cons p t ih =>
    obtain ⟨a, v⟩ := p
    by_cases hak : a = k
    · subst hak
      simp only [aerase, if_true, ih, alookup]
      by_cases h2 : a = k' <;> simp [h2]
    · simp only [aerase, hak, if_false, alookup, ih]
      by_cases h2 : a = k'
      · subst h2
        have : ¬ k = a := fun e => hak e.symm
        simp [this]
      · simp [h2]

theorem alookup_ainsert {V : Type} (k k' : Nat) (v : V) (l : AList Nat V) :
    alookup (ainsert k v l) k' = if k = k' then some v else alookup l k' := by
  simp only [ainsert, alookup, alookup_aerase]
  by_cases h : k = k' <;> simp [h]

theorem alookup_populate (d : AList Nat (List Nat)) (hv k hv' : Nat) :
    alookup (populate d hv k) hv' =
      if hv = hv' then some (k :: (alookup d hv).getD []) else alookup d hv' := by
  unfold populate
  cases hd : alookup d hv <;> simp [alookup_ainsert]

/-! ## Layout of `buffer` and `ends` -/

/-- Running sums of the lengths: the `ends` vector. -/
def sums : Nat → List Str → List Nat
  | _, [] => []
  | off, s :: ss => (off + s.length) :: sums (off + s.length) ss

theorem length_sums (off : Nat) (strs : List Str) : (sums off strs).length = strs.length := by
  induction strs generalizing off with
  | nil => rfl
  | cons s ss ih => simp [sums, ih]

theorem sums_append (off : Nat) (a b : List Str) :
    sums off (a ++ b) = sums off a ++ sums (off + a.flatten.length) b := by
  induction a generalizing off with
  | nil => simp [sums]
  | cons s ss ih => simp [sums, ih, Nat.add_assoc]

/-- The `start` computed by `resolve` for index `i`, generalised (offset `off` for index 0). -/
def startFrom (off : Nat) (ends : List Nat) : Nat → Option Nat
  | 0 => some off
  | p + 1 => ends[p]?

theorem startFrom_cons (off e : Nat) (es : List Nat) (p : Nat) :
    startFrom off (e :: es) (p + 1) = startFrom e es p := by
  cases p <;> simp [startFrom]

/-- Slice of a flatten between consecutive running sums. -/
theorem layout_some (strs : List Str) (off i : Nat) (s : Str) (hs : strs[i]? = some s) :
    ∃ a, startFrom off (sums off strs) i = some a ∧ (sums off strs)[i]? = some (a + s.length) ∧
      ∀ pre : List Nat, pre.length = off →
        ((pre ++ strs.flatten).drop a).take s.length = s ∧
        a + s.length ≤ (pre ++ strs.flatten).length := by
  induction strs generalizing off i with
  | nil => simp at hs
  | cons t ts ih =>
    cases i with
    | zero =>
      simp at hs
      subst hs
      refine ⟨off, rfl, by simp [sums], ?_⟩
      intro pre hpre
      constructor
      · rw [List.flatten_cons, List.drop_left' hpre, List.take_left' rfl]
      · simp; omega
    | succ p =>
      simp at hs
      obtain ⟨a, h1, h2, h3⟩ := ih (off + t.length) p hs
      refine ⟨a, ?_, ?_, ?_⟩
      · simp only [sums]
        rw [startFrom_cons]
        exact h1
      · simp only [sums, List.getElem?_cons_succ]
        exact h2
      · intro pre hpre
        have := h3 (pre ++ t) (by simp [hpre])
        simpa [List.append_assoc] using this

theorem slice_ok (buffer : List Nat) (a n : Nat) (h : a + n ≤ buffer.length) :
    slice buffer a (a + n) = .ok ((buffer.drop a).take n) := by
  unfold slice
  have : a ≤ a + n ∧ a + n ≤ buffer.length := ⟨by omega, h⟩
  simp [this]

theorem resolve_succ (st : Interner) (i : Nat) :
    resolve st (i + 1) =
      match startFrom 0 st.ends i with
      | none => .ok none
      | some start =>
        match st.ends[i]? with
        | none => .ok none
        | some stop =>
          match slice st.buffer start stop with
          | .ok s => .ok (some s)
          | .panic => .panic
          | .fuel => .fuel := by
  cases i <;> rfl

/-- `resolve` only depends on `buffer` and `ends`. -/
theorem resolve_layout (st : Interner) (strs : List Str)
    (hb : st.buffer = strs.flatten) (he : st.ends = sums 0 strs) (k : Nat) :
    resolve st k = .ok (specResolve strs k) := by
  cases k with
  | zero => rfl
  | succ i =>
    rw [resolve_succ]
    simp only [specResolve]
    cases hs : strs[i]? with
    | none =>
      have hlen : st.ends[i]? = none := by
        rw [he]
        apply List.getElem?_eq_none
        rw [length_sums]
        simp at hs
        exact hs
      cases startFrom 0 st.ends i <;> simp [hlen]
    | some s =>
      obtain ⟨a, h1, h2, h3⟩ := layout_some strs 0 i s hs
      obtain ⟨h4, h5⟩ := h3 [] rfl
      simp only [List.nil_append] at h4 h5
      rw [he, h1, h2, hb]
      simp only []
      rw [slice_ok _ _ _ h5, h4]

/-! ## `indexOf?` -/

theorem indexOf?_some {s : Str} {strs : List Str} {i : Nat} (h : indexOf? s strs = some i) :
    strs[i]? = some s := by
  induction strs generalizing i with
  | nil => simp [indexOf?] at h
  | cons t ts ih =>
    simp only [indexOf?] at h
    by_cases hts : t = s
    · simp [hts] at h
      subst h
      simp [hts]
    · simp only [hts, if_false] at h
      cases hi : indexOf? s ts with
      | none => simp [hi] at h
      | some j =>
        simp [hi] at h
        subst h
        simpa using ih hi

theorem indexOf?_none {s : Str} {strs : List Str} (h : indexOf? s strs = none) : s ∉ strs := by
  induction strs with
  | nil => simp
  | cons t ts ih =>
    simp only [indexOf?] at h
    by_cases hts : t = s
    · simp [hts] at h
    · simp only [hts, if_false, Option.map_eq_none_iff] at h
      have := ih h
      simp only [List.mem_cons, not_or]
      exact ⟨fun e => hts e.symm, this⟩

/-! ## The representation relation -/

/-- `dedup` maps every hash value to exactly the keys of the strings with that hash. -/
structure DedupRep (h : Str → Nat) (d : AList Nat (List Nat)) (strs : List Str) : Prop where
  /-- completeness: the key of every string is in the list of its hash -/
  complete : ∀ i s, strs[i]? = some s → ∃ keys, alookup d (h s) = some keys ∧ i + 1 ∈ keys
  /-- soundness: every key in the list of `hv` is the key of a string with hash `hv` -/
  sound : ∀ hv keys, alookup d hv = some keys →
    ∀ k, k ∈ keys → ∃ i s, k = i + 1 ∧ strs[i]? = some s ∧ h s = hv

/-- The interner `st` (with hasher `h`) represents the distinct strings `strs`, in
first-occurrence order; the key of `strs[i]` is `i + 1`. -/
structure Rep (h : Str → Nat) (st : Interner) (strs : List Str) : Prop where
  nodup : strs.Nodup
  buffer : st.buffer = strs.flatten
  ends : st.ends = sums 0 strs
  dedup : DedupRep h st.dedup strs

/-- A hash value without an entry is the hash of no interned string. -/
theorem DedupRep.absent {h : Str → Nat} {d : AList Nat (List Nat)} {strs : List Str}
    (hd : DedupRep h d strs) (hv : Nat) (hn : alookup d hv = none) : ∀ s, s ∈ strs → h s ≠ hv := by
  intro s hs e
  obtain ⟨i, hi⟩ := List.mem_iff_getElem?.mp hs
  obtain ⟨keys, hk, _⟩ := hd.complete i s hi
  rw [e, hn] at hk
  cases hk

theorem rep_empty (h : Str → Nat) : Rep h empty [] := by
  refine ⟨by simp, rfl, rfl, ?_, ?_⟩
  · intro i s hs; simp at hs
  · intro hv keys hk; simp [empty, alookup] at hk

theorem DedupRep.populate {h : Str → Nat} {d : AList Nat (List Nat)} {strs : List Str}
    (hd : DedupRep h d strs) (s : Str) :
    DedupRep h (populate d (h s) (strs.length + 1)) (strs ++ [s]) := by
  constructor
  · intro i t ht
    rw [alookup_populate]
    by_cases hi : i < strs.length
    · rw [List.getElem?_append_left hi] at ht
      obtain ⟨keys, hk1, hk2⟩ := hd.complete i t ht
      by_cases hh : h s = h t
      · refine ⟨_, if_pos hh, ?_⟩
        rw [hh, hk1]
        simp [hk2]
      · exact ⟨keys, by rw [if_neg hh]; exact hk1, hk2⟩
    · have hi' : strs.length ≤ i := by omega
      rw [List.getElem?_append_right hi'] at ht
      have hi0 : i - strs.length = 0 := by
        cases hj : i - strs.length with
        | zero => rfl
        | succ j => rw [hj] at ht; simp at ht
      rw [hi0] at ht
      simp at ht
      subst ht
      have : i = strs.length := by omega
      subst this
      exact ⟨_, if_pos rfl, by simp⟩
  · intro hv keys hk k hkm
    rw [alookup_populate] at hk
    have old : ∀ keys', alookup d hv = some keys' → k ∈ keys' →
        ∃ i t, k = i + 1 ∧ (strs ++ [s])[i]? = some t ∧ h t = hv := by
      intro keys' h1 h2
      obtain ⟨i, t, e1, e2, e3⟩ := hd.sound hv keys' h1 k h2
      have hi : i < strs.length := by
        rcases List.getElem?_eq_some_iff.mp e2 with ⟨hlt, _⟩
        exact hlt
      exact ⟨i, t, e1, by rw [List.getElem?_append_left hi]; exact e2, e3⟩
    by_cases hh : h s = hv
    · rw [if_pos hh] at hk
      injection hk with hk
      subst hk
      rcases List.mem_cons.mp hkm with e | hmem
      · exact ⟨strs.length, s, e, by simp, hh⟩
      · cases hl : alookup d (h s) with
        | none => rw [hl] at hmem; simp at hmem
        | some keys' =>
          rw [hl] at hmem
          simp only [Option.getD_some] at hmem
          exact old keys' (hh ▸ hl) hmem
    · rw [if_neg hh] at hk
      exact old keys hk hkm

/-! ## `walk`, `get_internal` -/

theorem walk_found (st : Interner) (strs : List Str)
    (hres : ∀ k, resolve st k = .ok (specResolve strs k)) (hnd : strs.Nodup)
    (s : Str) (i : Nat) (hs : strs[i]? = some s) (keys : List Nat)
    (hvalid : ∀ k, k ∈ keys → ∃ j t, k = j + 1 ∧ strs[j]? = some t)
    (hmem : i + 1 ∈ keys) : walk st s keys = .ok (some (i + 1)) := by
  induction keys with
  | nil => simp at hmem
  | cons key rest ih =>
    obtain ⟨j, t, hj, ht⟩ := hvalid key (by simp)
    subst hj
    have hr : resolve st (j + 1) = .ok (some t) := by rw [hres]; simp [specResolve, ht]
    simp only [walk, hr]
    by_cases hts : t = s
    · subst hts
      have hlt : j < strs.length := (List.getElem?_eq_some_iff.mp ht).1
      have : j = i := (List.getElem?_inj hlt hnd).mp (by rw [ht, hs])
      simp [this]
    · simp only [hts, if_false]
      apply ih
      · intro k hk; exact hvalid k (by simp [hk])
      · rcases List.mem_cons.mp hmem with e | e
        · have : i = j := by omega
          subst this
          rw [hs] at ht
          injection ht with ht
          exact absurd ht.symm hts
        · exact e

theorem walk_notfound (st : Interner) (strs : List Str)
    (hres : ∀ k, resolve st k = .ok (specResolve strs k))
    (s : Str) (hs : s ∉ strs) (keys : List Nat)
    (hvalid : ∀ k, k ∈ keys → ∃ j t, k = j + 1 ∧ strs[j]? = some t) :
    walk st s keys = .ok none := by
  induction keys with
  | nil => rfl
  | cons key rest ih =>
    obtain ⟨j, t, hj, ht⟩ := hvalid key (by simp)
    subst hj
    have hr : resolve st (j + 1) = .ok (some t) := by rw [hres]; simp [specResolve, ht]
    simp only [walk, hr]
    have hts : ¬ t = s := by
      intro e
      subst e
      exact hs (List.mem_iff_getElem?.mpr ⟨j, ht⟩)
    simp only [hts, if_false]
    exact ih (fun k hk => hvalid k (by simp [hk]))

theorem resolve_spec {h : Str → Nat} {st : Interner} {strs : List Str} (hr : Rep h st strs)
    (k : Nat) : resolve st k = .ok (specResolve strs k) :=
  resolve_layout st strs hr.buffer hr.ends k

theorem getInternal_spec {h : Str → Nat} {st : Interner} {strs : List Str} (hr : Rep h st strs)
    (s : Str) : getInternal st s (h s) = .ok ((indexOf? s strs).map (· + 1)) := by
  unfold getInternal
  cases hi : indexOf? s strs with
  | none =>
    have hs := indexOf?_none hi
    cases hl : alookup st.dedup (h s) with
    | none => rfl
    | some keys =>
      simp only [Option.map_none]
      apply walk_notfound st strs (resolve_spec hr) s hs
      intro k hk
      obtain ⟨j, t, e1, e2, _⟩ := hr.dedup.sound _ _ hl k hk
      exact ⟨j, t, e1, e2⟩
  | some i =>
    have hs := indexOf?_some hi
    obtain ⟨keys, hk1, hk2⟩ := hr.dedup.complete i s hs
    rw [hk1]
    simp only [Option.map_some]
    apply walk_found st strs (resolve_spec hr) hr.nodup s i hs keys _ hk2
    intro k hk
    obtain ⟨j, t, e1, e2, _⟩ := hr.dedup.sound _ _ hk1 k hk
    exact ⟨j, t, e1, e2⟩

theorem get_spec {h : Str → Nat} {st : Interner} {strs : List Str} (hr : Rep h st strs)
    (s : Str) : get h st s = .ok ((indexOf? s strs).map (· + 1)) :=
  getInternal_spec hr s

/-! ## `get_or_intern` -/

theorem getOrIntern_spec {h : Str → Nat} {st : Interner} {strs : List Str} (hr : Rep h st strs)
    (s : Str) :
    ∃ st', getOrIntern h st s = .ok (st', (specIntern strs s).2) ∧
      Rep h st' (specIntern strs s).1 := by
  unfold getOrIntern specIntern
  rw [getInternal_spec hr s]
  cases hi : indexOf? s strs with
  | some i => exact ⟨st, rfl, hr⟩
  | none =>
    have hs := indexOf?_none hi
    have hlen : st.ends.length = strs.length := by rw [hr.ends, length_sums]
    refine ⟨{ buffer := st.buffer ++ s, ends := st.ends ++ [(st.buffer ++ s).length],
              dedup := populate st.dedup (h s) (st.ends.length + 1) }, ?_, ?_⟩
    · simp only [Option.map_none, hlen]
    constructor
    · rw [List.nodup_append]
      refine ⟨hr.nodup, by simp, ?_⟩
      intro a ha b hb e
      simp at hb
      subst hb
      subst e
      exact hs ha
    · simp [hr.buffer, List.flatten_append]
    · simp [hr.buffer, hr.ends, sums_append, sums]
    · simp only [hlen]
      exact hr.dedup.populate s

/-! ## `internAll` -/

theorem internAll_spec_from (h : Str → Nat) (hist : List Str) (st : Interner) (strs : List Str)
    (hr : Rep h st strs) :
    ∃ st', internAll h st hist = .ok (st', (specInternAll strs hist).2) ∧
      Rep h st' (specInternAll strs hist).1 := by
  induction hist generalizing st strs with
  | nil => exact ⟨st, rfl, hr⟩
  | cons s ss ih =>
    obtain ⟨st1, h1, r1⟩ := getOrIntern_spec hr s
    obtain ⟨st2, h2, r2⟩ := ih st1 _ r1
    refine ⟨st2, ?_, r2⟩
    simp only [internAll, h1, h2, specInternAll]

theorem internAll_spec (h : Str → Nat) (hist : List Str) :
    ∃ st, internAll h empty hist = .ok (st, (specInternAll [] hist).2) ∧
      Rep h st (specInternAll [] hist).1 :=
  internAll_spec_from h hist empty [] (rep_empty h)

/-! ## Pure facts about the specification -/

theorem specIntern_prefix (strs : List Str) (s : Str) :
    ∃ extra, (specIntern strs s).1 = strs ++ extra := by
  unfold specIntern
  cases indexOf? s strs with
  | none => exact ⟨[s], rfl⟩
  | some i => exact ⟨[], by simp⟩

theorem specIntern_nodup (strs : List Str) (s : Str) (hnd : strs.Nodup) :
    (specIntern strs s).1.Nodup := by
  unfold specIntern
  cases hi : indexOf? s strs with
  | some i => exact hnd
  | none =>
    have hs := indexOf?_none hi
    show (strs ++ [s]).Nodup
    rw [List.nodup_append]
    refine ⟨hnd, by simp, ?_⟩
    intro a ha b hb e
    simp at hb
    subst hb
    subst e
    exact hs ha

/-- The key returned by `specIntern` resolves to the string. -/
theorem specIntern_resolve (strs : List Str) (s : Str) :
    specResolve (specIntern strs s).1 (specIntern strs s).2 = some s := by
  unfold specIntern
  cases hi : indexOf? s strs with
  | some i => exact indexOf?_some hi
  | none => simp [specResolve]

theorem getElem?_append_some {α : Type} (l extra : List α) (i : Nat) (x : α)
    (h : l[i]? = some x) : (l ++ extra)[i]? = some x := by
  have hlt : i < l.length := (List.getElem?_eq_some_iff.mp h).1
  rw [List.getElem?_append_left hlt]
  exact h

theorem specResolve_stable (strs : List Str) (s t : Str) (k : Nat)
    (h : specResolve strs k = some t) : specResolve (specIntern strs s).1 k = some t := by
  obtain ⟨extra, he⟩ := specIntern_prefix strs s
  rw [he]
  cases k with
  | zero => simp [specResolve] at h
  | succ i => exact getElem?_append_some strs extra i t h

theorem specInternAll_prefix (strs : List Str) (hist : List Str) :
    ∃ extra, (specInternAll strs hist).1 = strs ++ extra := by
  induction hist generalizing strs with
  | nil => exact ⟨[], by simp [specInternAll]⟩
  | cons s ss ih =>
    obtain ⟨e1, h1⟩ := specIntern_prefix strs s
    obtain ⟨e2, h2⟩ := ih (specIntern strs s).1
    refine ⟨e1 ++ e2, ?_⟩
    simp only [specInternAll]
    rw [h2, h1, List.append_assoc]

theorem specInternAll_nodup (strs : List Str) (hist : List Str) (hnd : strs.Nodup) :
    (specInternAll strs hist).1.Nodup := by
  induction hist generalizing strs with
  | nil => exact hnd
  | cons s ss ih => exact ih _ (specIntern_nodup strs s hnd)

theorem specInternAll_length (strs : List Str) (hist : List Str) :
    (specInternAll strs hist).2.length = hist.length := by
  induction hist generalizing strs with
  | nil => rfl
  | cons s ss ih => simp [specInternAll, ih]

/-- Every returned key resolves (in the final table) to the string interned at that point. -/
theorem specInternAll_keys (strs : List Str) (hist : List Str) (i : Nat) (hi : i < hist.length) :
    ∃ k, (specInternAll strs hist).2[i]? = some (k + 1) ∧
      (specInternAll strs hist).1[k]? = some hist[i] := by
  induction hist generalizing strs i with
  | nil => simp at hi
  | cons s ss ih =>
    cases i with
    | zero =>
      obtain ⟨extra, he⟩ := specInternAll_prefix (specIntern strs s).1 ss
      have hres := specIntern_resolve strs s
      cases hk : (specIntern strs s).2 with
      | zero => rw [hk] at hres; simp [specResolve] at hres
      | succ k =>
        rw [hk] at hres
        refine ⟨k, by simp [specInternAll, hk], ?_⟩
        simp only [specInternAll, List.getElem_cons_zero]
        rw [he]
        exact getElem?_append_some _ extra k s hres
    | succ j =>
      have hj : j < ss.length := by simpa using hi
      obtain ⟨k, h1, h2⟩ := ih (specIntern strs s).1 j hj
      exact ⟨k, by simpa [specInternAll] using h1, by simpa [specInternAll] using h2⟩

/-- Two occurrences get equal keys exactly when the strings are equal. -/
theorem specInternAll_key_eq_iff (strs : List Str) (hnd : strs.Nodup) (hist : List Str)
    (i j : Nat) (hi : i < hist.length) (hj : j < hist.length) :
    ((specInternAll strs hist).2[i]? = (specInternAll strs hist).2[j]?) ↔ hist[i] = hist[j] := by
  obtain ⟨k, hk1, hk2⟩ := specInternAll_keys strs hist i hi
  obtain ⟨k', hk1', hk2'⟩ := specInternAll_keys strs hist j hj
  have hnd' := specInternAll_nodup strs hist hnd
  constructor
  · intro e
    rw [hk1, hk1'] at e
    have : k = k' := by injection e with e; omega
    subst this
    rw [hk2] at hk2'
    injection hk2'
  · intro e
    rw [e] at hk2
    have hlt : k < (specInternAll strs hist).1.length := (List.getElem?_eq_some_iff.mp hk2).1
    have : k = k' := (List.getElem?_inj hlt hnd').mp (by rw [hk2, hk2'])
    rw [hk1, hk1', this]

theorem intern_key_eq_iff (h : Str → Nat) (hist : List Str) (st : Interner) (keys : List Nat)
    (hk : internAll h empty hist = .ok (st, keys)) :
    keys.length = hist.length ∧
      ∀ i j (hi : i < hist.length) (hj : j < hist.length),
        (keys[i]? = keys[j]?) ↔ (hist[i] = hist[j]) := by
  obtain ⟨st', h1, _⟩ := internAll_spec h hist
  rw [h1] at hk
  injection hk with hk
  injection hk with _ hk
  subst hk
  exact ⟨specInternAll_length [] hist,
    fun i j hi hj => specInternAll_key_eq_iff [] (by simp) hist i j hi hj⟩

/-! ## `resolve` after `get_or_intern` -/

theorem resolve_intern {h : Str → Nat} {st st' : Interner} {strs : List Str} {s : Str} {k : Nat}
    (hr : Rep h st strs) (hg : getOrIntern h st s = .ok (st', k)) :
    resolve st' k = .ok (some s) := by
  obtain ⟨st1, h1, r1⟩ := getOrIntern_spec hr s
  rw [h1] at hg
  injection hg with hg
  injection hg with e1 e2
  subst e1
  subst e2
  rw [resolve_spec r1, specIntern_resolve]

theorem resolve_stable {h : Str → Nat} {st st' : Interner} {strs : List Str} {s t : Str}
    {k k' : Nat} (hr : Rep h st strs) (hres : resolve st k = .ok (some t))
    (hg : getOrIntern h st s = .ok (st', k')) : resolve st' k = .ok (some t) := by
  obtain ⟨st1, h1, r1⟩ := getOrIntern_spec hr s
  rw [h1] at hg
  injection hg with hg
  injection hg with e1 e2
  subst e1
  rw [resolve_spec hr] at hres
  injection hres with hres
  rw [resolve_spec r1, specResolve_stable strs s t k hres]

/-! ## Deserialisation: `dedup` rebuilt under another hasher -/

theorem rebuildLoop_spec (h' : Str → Nat) (buffer : List Nat) (todo : List Str) :
    ∀ (done : List Str) (d : AList Nat (List Nat)) (i start : Nat),
      i = done.length → start = done.flatten.length → buffer = (done ++ todo).flatten →
      DedupRep h' d done →
      ∃ d', rebuildLoop h' buffer (sums start todo) i start d = .ok d' ∧
        DedupRep h' d' (done ++ todo) := by
  induction todo with
  | nil =>
    intro done d i start _ _ _ hd
    exact ⟨d, rfl, by simpa using hd⟩
  | cons t ts ih =>
    intro done d i start hi hstart hbuf hd
    have hsl : slice buffer start (start + t.length) = .ok t := by
      have hle : start + t.length ≤ buffer.length := by
        rw [hbuf, hstart]; simp
      rw [slice_ok _ _ _ hle, hbuf, List.flatten_append, List.flatten_cons,
        List.drop_left' hstart.symm, List.take_left' rfl]
    have hd' : DedupRep h' (populate d (h' t) (i + 1)) (done ++ [t]) := by
      rw [hi]; exact hd.populate t
    obtain ⟨d', h1, h2⟩ := ih (done ++ [t]) _ (i + 1) (start + t.length)
      (by simp [hi]) (by simp [hstart]) (by simp [hbuf]) hd'
    refine ⟨d', ?_, by simpa using h2⟩
    simp only [sums, rebuildLoop, hsl]
    exact h1

theorem rebuild_spec {h : Str → Nat} {st : Interner} {strs : List Str} (hr : Rep h st strs)
    (h' : Str → Nat) : ∃ st', rebuild h' st.buffer st.ends = .ok st' ∧ Rep h' st' strs := by
  have hd0 : DedupRep h' ([] : AList Nat (List Nat)) [] := (rep_empty h').dedup
  obtain ⟨d', h1, h2⟩ := rebuildLoop_spec h' st.buffer strs [] [] 0 0 rfl rfl
    (by simp [hr.buffer]) hd0
  refine ⟨{ buffer := st.buffer, ends := st.ends, dedup := d' }, ?_, ?_⟩
  · unfold rebuild
    rw [hr.ends, h1]
  · exact ⟨hr.nodup, hr.buffer, hr.ends, by simpa using h2⟩

theorem rebuild_get {h h' : Str → Nat} {st st' : Interner} {strs : List Str} (hr : Rep h st strs)
    (hb : rebuild h' st.buffer st.ends = .ok st') : ∀ s, get h' st' s = get h st s := by
  intro s
  obtain ⟨st1, h1, r1⟩ := rebuild_spec hr h'
  rw [h1] at hb
  injection hb with hb
  subst hb
  rw [get_spec r1, get_spec hr]

/-- The rebuilt interner resolves every key as the original does. -/
theorem rebuild_resolve {h h' : Str → Nat} {st st' : Interner} {strs : List Str}
    (hr : Rep h st strs) (hb : rebuild h' st.buffer st.ends = .ok st') :
    ∀ k, resolve st' k = resolve st k := by
  intro k
  obtain ⟨st1, h1, r1⟩ := rebuild_spec hr h'
  rw [h1] at hb
  injection hb with hb
  subst hb
  rw [resolve_spec r1, resolve_spec hr]

end C20.Intern
