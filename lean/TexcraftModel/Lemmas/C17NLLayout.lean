import TexcraftModel.Lemmas.C17NLBasic
/-! The array layout of `NextLargerProgram::new` (C17): for a functional, topologically ordered
map the vectors are built without a panic and the iterator of `get` follows the map. -/
namespace C17

/-- Follow a partial step function for at most `n` steps. -/
def chainS (s : Nat → Option Nat) : Nat → Nat → List Nat
  | 0, _ => []
  | n + 1, c => match s c with
    | none => []
    | some d => d :: chainS s n d

theorem chain_eq_chainS (g : List (Nat × Nat)) : ∀ n c, chain g n c = chainS (cutNxt g) n c := by
  intro n
  induction n with
  | zero => intro c; rfl
  | succ n ih =>
    intro c
    simp only [chain, chainS]
    cases cutNxt g c with
    | none => rfl
    | some d => simp [ih d]

theorem chainS_congr (s s' : Nat → Option Nat) (h : ∀ c, s c = s' c) : ∀ n c, chainS s n c = chainS s' n c := by
  intro n
  induction n with
  | zero => intro c; rfl
  | succ n ih =>
    intro c
    simp only [chainS, h c]
    cases s' c with
    | none => rfl
    | some d => simp [ih d]

/-! ### list index facts -/

theorem idxOf_mid (pre t : List Nat) (c : Nat) (hc : c ∉ pre) : (pre ++ c :: t).idxOf c = pre.length := by
  rw [List.idxOf_append]
  simp [hc, List.idxOf_cons]

theorem mem_pre_of_idxOf_lt (pre t : List Nat) (x : Nat) (h : (pre ++ t).idxOf x < pre.length) : x ∈ pre := by
  rw [List.idxOf_append] at h
  by_cases hx : x ∈ pre
  · exact hx
  · simp only [hx, if_false] at h; omega

theorem idxOf_append_left (l₁ l₂ : List Nat) (x : Nat) (hx : x ∈ l₁) : (l₁ ++ l₂).idxOf x = l₁.idxOf x := by
  rw [List.idxOf_append]; simp [hx]

theorem nodup_reverse (l : List Nat) (h : l.Nodup) : l.reverse.Nodup := by
  rw [List.nodup_iff_pairwise_ne, List.pairwise_reverse]
  rw [List.nodup_iff_pairwise_ne] at h
  exact h.imp (fun h => fun e => h e.symm)

theorem idxOf_reverse (l : List Nat) (h : l.Nodup) (x : Nat) (hx : x ∈ l) :
    l.reverse.idxOf x = l.length - 1 - l.idxOf x := by
  have hk : l.idxOf x < l.length := List.idxOf_lt_length_iff.2 hx
  have hk' : l.length - 1 - l.idxOf x < l.reverse.length := by simp; omega
  have e : l.reverse[l.length - 1 - l.idxOf x] = x := by
    rw [List.getElem_reverse]
    have : l.length - 1 - (l.length - 1 - l.idxOf x) = l.idxOf x := by omega
    simp only [this]
    exact List.getElem_idxOf hk
  have := (nodup_reverse l h).idxOf_getElem (l.length - 1 - l.idxOf x) hk'
  rw [e] at this
  exact this

/-! ### `buildArr` -/

/-- What an entry `(c, o)` at (pre-reverse) position `k` must be, `K` the list of all keys. -/
def OffOK (g : List (Nat × Nat)) (K : List Nat) (k c o : Nat) : Prop :=
  K.idxOf c = k ∧
  match nxt g c with
  | none => o = 255
  | some par => par ∈ K ∧ K.idxOf par < k ∧ o = k - K.idxOf par

theorem buildArr_spec (g : List (Nat × Nat)) (parents ord : List Nat) (p : Nat → Bool)
    (hp : ∀ c, parents.contains c = p c) (hN : ord.Nodup)
    (hE : ∀ y x, nxt g y = some x → x ∈ ord ∧ ord.idxOf x < ord.idxOf y)
    (hP : ∀ y x, nxt g y = some x → p x = true)
    (hK : (ord.filter p).length ≤ 255) :
    ∀ (t pre : List Nat) (arr pos : List (Nat × Nat)), ord = pre ++ t →
      arr.map Prod.fst = pre.filter p →
      (∀ c ∈ pre.filter p,
        nxt pos c = some ((ord.filter p).idxOf c)) →
      (∀ k c o, arr[k]? = some (c, o) → OffOK g (ord.filter p) k c o) →
      ∃ arrF, buildArr g parents t arr pos = .ok arrF ∧
        arrF.map Prod.fst = ord.filter p ∧
        (∀ k c o, arrF[k]? = some (c, o) → OffOK g (ord.filter p) k c o) := by
  intro t
  induction t with
  | nil =>
    intro pre arr pos hord ha hb hc
    simp only [List.append_nil] at hord
    subst hord
    exact ⟨arr, rfl, ha, hc⟩
  | cons c t ih =>
    intro pre arr pos hord ha hb hc
    have hlen : arr.length = (pre.filter p).length := by
      rw [← ha]; simp
    have hord' : ord = (pre ++ [c]) ++ t := by rw [hord]; simp
    have hcpre : c ∉ pre := by
      rw [hord] at hN
      have := (List.nodup_append.1 hN).2.2
      intro h
      exact this c h c (by simp) rfl
    simp only [buildArr, hp]
    by_cases hpar : p c = true
    · -- `c` is a parent: it gets the next position
      have hKsplit : ord.filter p =
          pre.filter p ++ c :: t.filter p := by
        rw [hord, List.filter_append, List.filter_cons]; simp [hpar]
      have hcK : c ∉ pre.filter p := fun h => hcpre (List.mem_filter.1 h).1
      have hidx : (ord.filter p).idxOf c = arr.length := by
        rw [hKsplit, idxOf_mid _ _ _ hcK, hlen]
      have hbound : ¬ arr.length > 255 := by
        have : arr.length < (ord.filter p).length := by
          rw [hKsplit, hlen]; simp
        omega
      have hfilter : (pre ++ [c]).filter p =
          pre.filter p ++ [c] := by
        rw [List.filter_append]; simp [hpar]
      simp only [hpar, Bool.not_true, Bool.false_eq_true, if_false, hbound]
      cases hn : nxt g c with
      | none =>
        simp only
        apply ih (pre ++ [c]) _ _ hord'
        · rw [hfilter, List.map_append, ha]; rfl
        · intro x hx
          rw [hfilter] at hx
          simp only [nxt]
          rcases List.mem_append.1 hx with h | h
          · have hne : ¬ c = x := fun e => hcK (e ▸ h)
            simp only [hne, if_false]; exact hb x h
          · simp only [List.mem_singleton] at h
            subst h; simp [hidx]
        · intro k x o hk
          by_cases hkl : k < arr.length
          · rw [List.getElem?_append_left hkl] at hk
            exact hc k x o hk
          · rw [List.getElem?_append_right (by omega)] at hk
            have hk0 : k - arr.length = 0 := by
              cases hd : k - arr.length with
              | zero => rfl
              | succ d => rw [hd] at hk; simp at hk
            rw [hk0] at hk
            simp only [List.getElem?_cons_zero, Option.some.injEq, Prod.mk.injEq] at hk
            obtain ⟨rfl, rfl⟩ := hk
            have : k = arr.length := by omega
            subst this
            exact ⟨hidx, by simp [hn]⟩
      | some par =>
        simp only
        obtain ⟨hpo, hplt⟩ := hE c par hn
        have hppre : par ∈ pre := by
          apply mem_pre_of_idxOf_lt pre (c :: t)
          rw [← hord]
          have : ord.idxOf c = pre.length := by rw [hord]; exact idxOf_mid _ _ _ hcpre
          omega
        have hpK : par ∈ pre.filter p :=
          List.mem_filter.2 ⟨hppre, hP c par hn⟩
        have hpp := hb par hpK
        have hppval : (ord.filter p).idxOf par < arr.length := by
          rw [hKsplit, idxOf_append_left _ _ _ hpK, hlen]
          exact List.idxOf_lt_length_iff.2 hpK
        have hnle : ¬ arr.length ≤ (ord.filter p).idxOf par := by omega
        simp only [hpp, hnle, if_false]
        apply ih (pre ++ [c]) _ _ hord'
        · rw [hfilter, List.map_append, ha]; rfl
        · intro x hx
          rw [hfilter] at hx
          simp only [nxt]
          rcases List.mem_append.1 hx with h | h
          · have hne : ¬ c = x := fun e => hcK (e ▸ h)
            simp only [hne, if_false]; exact hb x h
          · simp only [List.mem_singleton] at h
            subst h; simp [hidx]
        · intro k x o hk
          by_cases hkl : k < arr.length
          · rw [List.getElem?_append_left hkl] at hk
            exact hc k x o hk
          · rw [List.getElem?_append_right (by omega)] at hk
            have hk0 : k - arr.length = 0 := by
              cases hd : k - arr.length with
              | zero => rfl
              | succ d => rw [hd] at hk; simp at hk
            rw [hk0] at hk
            simp only [List.getElem?_cons_zero, Option.some.injEq, Prod.mk.injEq] at hk
            obtain ⟨rfl, rfl⟩ := hk
            have : k = arr.length := by omega
            subst this
            refine ⟨hidx, ?_⟩
            simp only [hn]
            exact ⟨by rw [hKsplit]; exact List.mem_append_left _ hpK, hppval, trivial⟩
    · -- not a parent: skipped
      have hpar' : p c = false := by simpa using hpar
      have hfilter : (pre ++ [c]).filter p =
          pre.filter p := by
        rw [List.filter_append]; simp [hpar']
      simp only [hpar', Bool.not_false, if_true]
      apply ih (pre ++ [c]) arr pos hord'
      · rw [hfilter]; exact ha
      · rw [hfilter]; exact hb
      · exact hc

/-! ### `posOf`, `buildEntry` -/

theorem posOf_spec : ∀ (l : List (Nat × Nat)) (i : Nat) (acc : List (Nat × Nat)),
    i + l.length ≤ 256 → (l.map Prod.fst).Nodup →
    ∃ r, posOf i l acc = .ok r ∧
      (∀ c ∈ l.map Prod.fst, nxt r c = some (i + (l.map Prod.fst).idxOf c)) := by
  intro l
  induction l with
  | nil => intro i acc _ _; exact ⟨acc, rfl, by simp⟩
  | cons a t ih =>
    intro i acc hi hn
    obtain ⟨c0, o0⟩ := a
    simp only [List.map_cons, List.nodup_cons] at hn
    simp only [List.length_cons] at hi
    have hi' : ¬ i > 255 := by omega
    -- lookups outside the rest fall through to the accumulator
    have hfall : ∀ (l : List (Nat × Nat)) (i : Nat) (acc r : List (Nat × Nat)),
        posOf i l acc = .ok r → ∀ c, c ∉ l.map Prod.fst → nxt r c = nxt acc c := by
      intro l
      induction l with
      | nil => intro i acc r h c _; simp only [posOf, Res.ok.injEq] at h; rw [h]
      | cons a t ih2 =>
        intro i acc r h c hc
        obtain ⟨c1, o1⟩ := a
        simp only [posOf] at h
        split at h
        · simp at h
        · simp only [List.map_cons, List.mem_cons, not_or] at hc
          rw [ih2 (i + 1) _ r h c hc.2]
          have : ¬ c1 = c := fun e => hc.1 e.symm
          simp [nxt, this]
    obtain ⟨r, hr, hspec⟩ := ih (i + 1) ((c0, i) :: acc) (by omega) hn.2
    refine ⟨r, by simp only [posOf, hi', if_false]; exact hr, ?_⟩
    intro c hc
    simp only [List.map_cons, List.mem_cons] at hc
    rcases hc with rfl | hc
    · rw [hfall t (i + 1) _ r hr c hn.1]
      simp [nxt, List.idxOf_cons]
    · have hne : c0 ≠ c := fun e => hn.1 (e ▸ hc)
      rw [hspec c hc]
      have e : (c0 == c) = false := beq_false_of_ne hne
      simp only [List.map_cons, List.idxOf_cons, e, cond_false]
      congr 1; omega

theorem buildEntry_spec (g pos : List (Nat × Nat)) : ∀ (t : List Nat) (acc : List (Nat × Nat)),
    t.Nodup → (∀ c ∈ t, nxt acc c = none) →
    (∀ c ∈ t, ∀ par, nxt g c = some par → ∃ i, nxt pos par = some i) →
    ∃ r, buildEntry g pos t acc = .ok r ∧
      ∀ c, nxt r c = if c ∈ t then (nxt g c).bind (nxt pos) else nxt acc c := by
  intro t
  induction t with
  | nil => intro acc _ _ _; exact ⟨acc, rfl, by simp⟩
  | cons c0 t ih =>
    intro acc hn hacc hpos
    have hn' := List.nodup_cons.1 hn
    simp only [buildEntry]
    cases hg : nxt g c0 with
    | none =>
      obtain ⟨r, hr, hspec⟩ := ih acc hn'.2 (fun c hc => hacc c (List.mem_cons_of_mem _ hc))
        (fun c hc => hpos c (List.mem_cons_of_mem _ hc))
      refine ⟨r, hr, ?_⟩
      intro c
      rw [hspec c]
      by_cases hc0 : c = c0
      · subst hc0
        simp [hn'.1, hg, hacc c (by simp)]
      · simp [hc0]
    | some par =>
      obtain ⟨i, hi⟩ := hpos c0 (by simp) par hg
      simp only [hi]
      obtain ⟨r, hr, hspec⟩ := ih ((c0, i) :: acc) hn'.2
        (fun c hc => by
          have hne : ¬ c0 = c := fun e => hn'.1 (e ▸ hc)
          simp only [nxt, hne, if_false]
          exact hacc c (List.mem_cons_of_mem _ hc))
        (fun c hc => hpos c (List.mem_cons_of_mem _ hc))
      refine ⟨r, hr, ?_⟩
      intro c
      rw [hspec c]
      by_cases hc0 : c = c0
      · subst hc0
        simp [hn'.1, hg, hi, nxt]
      · have : ¬ c0 = c := fun e => hc0 e.symm
        simp [hc0, nxt, this]

/-! ### the iterator -/

theorem getIter_spec (g : List (Nat × Nat)) (K : List Nat) (A : List (Nat × Nat))
    (hA : A.map Prod.fst = K) (hL : K.length ≤ 255)
    (hoff : ∀ k c o, A[k]? = some (c, o) → OffOK g K k c o) :
    ∀ (n : Nat) (x : Nat), x ∈ K →
      getIter A.reverse (n + 1) (some (K.length - 1 - K.idxOf x)) = x :: chainS (nxt g) n x := by
  have hlen : A.length = K.length := by rw [← hA]; simp
  have hentry : ∀ x, x ∈ K → ∃ o, A[K.idxOf x]? = some (x, o) := by
    intro x hx
    have hk : K.idxOf x < A.length := by rw [hlen]; exact List.idxOf_lt_length_iff.2 hx
    have h1 : (A.map Prod.fst)[K.idxOf x]? = some x := by
      rw [hA]
      have hk' : K.idxOf x < K.length := List.idxOf_lt_length_iff.2 hx
      rw [List.getElem?_eq_getElem hk', List.getElem_idxOf hk']
    rw [List.getElem?_map] at h1
    cases h2 : A[K.idxOf x]? with
    | none => simp [h2] at h1
    | some e =>
      obtain ⟨c, o⟩ := e
      simp only [h2, Option.map_some, Option.some.injEq] at h1
      exact ⟨o, by rw [h1]⟩
  have hget : ∀ x, x ∈ K → ∀ o, A[K.idxOf x]? = some (x, o) →
      A.reverse[K.length - 1 - K.idxOf x]? = some (x, o) := by
    intro x hx o ho
    have hk : K.idxOf x < K.length := List.idxOf_lt_length_iff.2 hx
    rw [List.getElem?_reverse (by rw [hlen]; omega), hlen]
    have : K.length - 1 - (K.length - 1 - K.idxOf x) = K.idxOf x := by omega
    rw [this]; exact ho
  intro n
  induction n with
  | zero =>
    intro x hx
    obtain ⟨o, ho⟩ := hentry x hx
    simp only [getIter, hget x hx o ho, chainS]
  | succ n ih =>
    intro x hx
    obtain ⟨o, ho⟩ := hentry x hx
    have hk : K.idxOf x < K.length := List.idxOf_lt_length_iff.2 hx
    obtain ⟨_, hoff'⟩ := hoff (K.idxOf x) x o ho
    rw [getIter, hget x hx o ho]
    simp only [chainS]
    cases hn : nxt g x with
    | none =>
      rw [hn] at hoff'
      simp only at hoff'
      subst hoff'
      simp only
      congr 1
      split
      · rename_i hle
        have h0 : K.length - 1 - K.idxOf x + 255 = 255 := by omega
        rw [h0, getIter]
        have : A.reverse[255]? = none := by
          apply List.getElem?_eq_none
          simp only [List.length_reverse]; omega
        rw [this]
      · rfl
    | some par =>
      rw [hn] at hoff'
      simp only at hoff'
      obtain ⟨hpK, hplt, ho'⟩ := hoff'
      subst ho'
      simp only
      congr 1
      have e : K.length - 1 - K.idxOf x + (K.idxOf x - K.idxOf par) = K.length - 1 - K.idxOf par := by
        omega
      have hle : K.length - 1 - K.idxOf par ≤ 255 := by omega
      rw [e]
      simp only [hle, if_true]
      exact ih par hpK

end C17
