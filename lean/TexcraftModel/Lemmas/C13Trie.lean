import TexcraftModel.Model.C13Trie
import TexcraftModel.Lemmas.C13Main

/-! C13: the coded trie (numbered vertices, one edge map) refines the prefix map. -/
namespace C13

/-! ## Walking the coded trie -/

def cStep (t : CTrie) (acc : Option (Nat × Option Nat)) (e : Edge) : Option (Nat × Option Nat) :=
  acc.bind (fun x => t.nextOr x.1 e)

/-- Vertex reached from the root along `π`, with the value of the last entry used. -/
def cWalk (t : CTrie) (π : List Edge) : Option (Nat × Option Nat) :=
  π.foldl (cStep t) (some (rootV, none))

theorem cWalk_nil (t : CTrie) : cWalk t [] = some (rootV, none) := rfl

theorem cWalk_snoc (t : CTrie) (π : List Edge) (e : Edge) :
    cWalk t (π ++ [e]) = (cWalk t π).bind (fun x => t.nextOr x.1 e) := by
  simp [cWalk, List.foldl_append, cStep]

theorem snoc_cases (π : List Edge) : π = [] ∨ ∃ ρ e, π = ρ ++ [e] := by
  rcases List.eq_nil_or_concat π with h | ⟨ρ, e, h⟩
  · exact Or.inl h
  · exact Or.inr ⟨ρ, e, by simpa using h⟩

theorem snoc_induction {P : List Edge → Prop} (h0 : P [])
    (hs : ∀ ρ e, P ρ → P (ρ ++ [e])) : ∀ π, P π := by
  have : ∀ r : List Edge, P r.reverse := by
    intro r
    induction r with
    | nil => exact h0
    | cons e r ih => simpa using hs _ e ih
  intro π
  simpa using this π.reverse

/-- What is maintained while the trie is built. -/
structure Good (t : CTrie) : Prop where
  lt : t.next < rootV
  tgt : ∀ k v x, assoc t.m k = some (v, x) → v < t.next
  fresh : ∀ u e, t.next ≤ u → u ≠ rootV → assoc t.m (u, e) = none
  uniq : ∀ k1 k2 u x1 x2, assoc t.m k1 = some (u, x1) → assoc t.m k2 = some (u, x2) → k1 = k2
  inj : ∀ π1 π2 u x1 x2, cWalk t π1 = some (u, x1) → cWalk t π2 = some (u, x2) → π1 = π2

theorem good_empty : Good {} := by
  refine ⟨by decide, ?_, ?_, ?_, ?_⟩
  · intro k v x h; simp [assoc] at h
  · intro u e _ _; rfl
  · intro k1 k2 u x1 x2 h; simp [assoc] at h
  · intro π1 π2 u x1 x2 h1 h2
    have key : ∀ π, π ≠ [] → cWalk ({} : CTrie) π = none := by
      intro π hπ
      rcases snoc_cases π with h | ⟨ρ, e, rfl⟩
      · exact absurd h hπ
      · rw [cWalk_snoc]; cases cWalk ({} : CTrie) ρ <;> simp [CTrie.nextOr, assoc]
    by_cases a : π1 = [] <;> by_cases b : π2 = []
    · rw [a, b]
    · rw [key π2 b] at h2; cases h2
    · rw [key π1 a] at h1; cases h1
    · rw [key π1 a] at h1; cases h1

/-- A reached vertex is the root (empty path) or an allocated number. -/
theorem Good.reach {t : CTrie} (g : Good t) (π : List Edge) (u : Nat) (x : Option Nat)
    (h : cWalk t π = some (u, x)) : (π = [] ∧ u = rootV ∧ x = none) ∨ (π ≠ [] ∧ u < t.next) := by
  rcases snoc_cases π with rfl | ⟨ρ, e, rfl⟩
  · left; simp [cWalk_nil] at h; exact ⟨rfl, h.1.symm, h.2.symm⟩
  · right
    refine ⟨by simp, ?_⟩
    rw [cWalk_snoc] at h
    cases hw : cWalk t ρ with
    | none => simp [hw] at h
    | some y => simp [hw, CTrie.nextOr] at h; exact g.tgt _ _ _ h

theorem Good.reach_ne {t : CTrie} (g : Good t) (π : List Edge) (u : Nat) (x : Option Nat)
    (h : cWalk t π = some (u, x)) : u = rootV ∨ u < t.next := by
  rcases g.reach π u x h with ⟨_, h, _⟩ | ⟨_, h⟩
  · exact Or.inl h
  · exact Or.inr h

/-! ## One `next` call that allocates -/

def addEntry (t : CTrie) (v : Nat) (e : Edge) : CTrie :=
  { m := ((v, e), (t.next, none)) :: t.m, next := t.next + 1 }

theorem next'_some (t : CTrie) (v : Nat) (e : Edge) (v' : Nat) (x : Option Nat)
    (h : assoc t.m (v, e) = some (v', x)) : t.next' v e = (t, v') := by
  simp [CTrie.next', h]

theorem next'_none (t : CTrie) (v : Nat) (e : Edge) (h : assoc t.m (v, e) = none) :
    t.next' v e = (addEntry t v e, t.next) := by
  simp [CTrie.next', h, addEntry]

theorem assoc_addEntry (t : CTrie) (v : Nat) (e : Edge) (k : Nat × Edge) :
    assoc (addEntry t v e).m k = if (v, e) = k then some (t.next, none) else assoc t.m k := by
  simp [addEntry, assoc]

/-- Walks in the trie with one more entry: only the new path changes. -/
theorem cWalk_addEntry (t : CTrie) (g : Good t) (ρ : List Edge) (v : Nat) (xv : Option Nat)
    (e : Edge) (hρ : cWalk t ρ = some (v, xv)) (hn : assoc t.m (v, e) = none) :
    ∀ π, cWalk (addEntry t v e) π
      = if π = ρ ++ [e] then some (t.next, none) else cWalk t π := by
  have hv : v = rootV ∨ v < t.next := g.reach_ne ρ v xv hρ
  apply snoc_induction
  · have : ([] : List Edge) ≠ ρ ++ [e] := by simp
    simp [this, cWalk_nil]
  · intro π e' ih
    rw [cWalk_snoc, ih, cWalk_snoc]
    by_cases h1 : π = ρ ++ [e]
    · -- from the fresh vertex nothing leaves; in the old trie the path did not exist
      subst h1
      have hne : ρ ++ [e] ++ [e'] ≠ ρ ++ [e] := by
        intro h; have := congrArg List.length h; simp at this
      have hold : cWalk t (ρ ++ [e]) = none := by
        rw [cWalk_snoc, hρ]; simp [CTrie.nextOr, hn]
      rw [if_pos rfl, if_neg hne, hold]
      simp only [Option.bind_some, Option.bind_none, CTrie.nextOr]
      have hk : ¬ (v, e) = (t.next, e') := by
        intro h; simp at h; rcases hv with hv | hv
        · have := g.lt; omega
        · omega
      rw [assoc_addEntry, if_neg hk]
      exact g.fresh _ _ (Nat.le_refl _) (by have := g.lt; omega)
    · simp only [h1, if_false]
      cases hw : cWalk t π with
      | none =>
        have hne : π ++ [e'] ≠ ρ ++ [e] := by
          intro h
          have := List.append_inj' h rfl
          rw [this.1, hρ] at hw; cases hw
        simp [hne]
      | some y =>
        obtain ⟨u, xu⟩ := y
        simp only [Option.bind_some, CTrie.nextOr]
        rw [assoc_addEntry]
        by_cases h2 : (v, e) = (u, e')
        · simp only [Prod.mk.injEq] at h2
          obtain ⟨rfl, rfl⟩ := h2
          have : π = ρ := g.inj π ρ v xu xv hw hρ
          simp [this]
        · have hne : π ++ [e'] ≠ ρ ++ [e] := by
            intro h
            have := List.append_inj' h rfl
            apply h2
            rw [this.1, hρ] at hw
            simp at hw this
            simp [hw.1, this.2]
          simp [h2, hne]

theorem good_addEntry (t : CTrie) (g : Good t) (ρ : List Edge) (v : Nat) (xv : Option Nat)
    (e : Edge) (hρ : cWalk t ρ = some (v, xv)) (hn : assoc t.m (v, e) = none)
    (hlt : t.next + 1 < rootV) : Good (addEntry t v e) := by
  have hv : v = rootV ∨ v < t.next := g.reach_ne ρ v xv hρ
  have hw := cWalk_addEntry t g ρ v xv e hρ hn
  refine ⟨hlt, ?_, ?_, ?_, ?_⟩
  · intro k u x h
    rw [assoc_addEntry] at h
    split at h
    · simp at h; simp [addEntry]; omega
    · have := g.tgt k u x h; simp [addEntry]; omega
  · intro u e' hu hr
    rw [assoc_addEntry]
    have : ¬ (v, e) = (u, e') := by
      intro h; simp at h; simp [addEntry] at hu; rcases hv with hv | hv <;> omega
    simp only [this, if_false]
    exact g.fresh u e' (by simp [addEntry] at hu; omega) hr
  · intro k1 k2 u x1 x2 h1 h2
    rw [assoc_addEntry] at h1 h2
    split at h1 <;> split at h2
    · simp_all
    · simp at h1; have := g.tgt k2 u x2 h2; omega
    · simp at h2; have := g.tgt k1 u x1 h1; omega
    · exact g.uniq k1 k2 u x1 x2 h1 h2
  · intro π1 π2 u x1 x2 h1 h2
    rw [hw] at h1 h2
    split at h1 <;> split at h2
    · simp_all
    · simp at h1; have := g.reach_ne π2 u x2 h2; have := g.lt; omega
    · simp at h2; have := g.reach_ne π1 u x1 h1; have := g.lt; omega
    · exact g.inj π1 π2 u x1 x2 h1 h2

/-! ## Simulation: coded trie vs prefix map (with a path under construction) -/

/-- Value view of a walk. -/
def cv (t : CTrie) (π : List Edge) : Option (Option Nat) := (cWalk t π).map (·.2)

/-- The coded trie `t` holds exactly the paths of the prefix map `a` plus the (valueless)
prefixes of the path `ρ0` being inserted. -/
def SimP (t : CTrie) (a : List (List Edge × Nat)) (ρ0 : List Edge) : Prop :=
  ∀ π, π ≠ [] →
    cv t π = if (hasPrefix a π || π.isPrefixOf ρ0) = true then some (lookup a π) else none

theorem isPrefixOf_concat (π ρ : List Edge) (e : Edge) :
    π.isPrefixOf (ρ ++ [e]) = (π.isPrefixOf ρ || decide (π = ρ ++ [e])) := by
  rw [Bool.eq_iff_iff]
  simp only [List.isPrefixOf_iff_prefix, Bool.or_eq_true, decide_eq_true_eq,
    List.prefix_concat_iff]
  constructor
  · rintro (h | h); exact Or.inr h; exact Or.inl h
  · rintro (h | h); exact Or.inr h; exact Or.inl h

theorem lookup_none_of_hasPrefix_false (a : List (List Edge × Nat)) (π : List Edge)
    (h : hasPrefix a π = false) : lookup a π = none :=
  lookup_none_of_not_hasPrefix a π π h (List.prefix_refl _)

/-- One `next` call keeps everything. -/
theorem next'_step (t : CTrie) (a : List (List Edge × Nat)) (ρ : List Edge) (v : Nat)
    (xv : Option Nat) (e : Edge) (g : Good t) (hs : SimP t a ρ)
    (hρ : cWalk t ρ = some (v, xv)) (hlt : t.next + 1 < rootV) :
    Good (t.next' v e).1 ∧ SimP (t.next' v e).1 a (ρ ++ [e]) ∧
    (t.next' v e).1.next ≤ t.next + 1 ∧
    ∃ x, cWalk (t.next' v e).1 (ρ ++ [e]) = some ((t.next' v e).2, x) ∧
      assoc (t.next' v e).1.m (v, e) = some ((t.next' v e).2, x) := by
  cases hn : assoc t.m (v, e) with
  | some y =>
    obtain ⟨v', x⟩ := y
    rw [next'_some t v e v' x hn]
    have hw : cWalk t (ρ ++ [e]) = some (v', x) := by
      rw [cWalk_snoc, hρ]; simp [CTrie.nextOr, hn]
    refine ⟨g, ?_, by simp, x, hw, hn⟩
    intro π hπ
    rw [hs π hπ, isPrefixOf_concat]
    by_cases hc : (hasPrefix a π || π.isPrefixOf ρ) = true
    · have : (hasPrefix a π || (π.isPrefixOf ρ || decide (π = ρ ++ [e]))) = true := by
        simp only [Bool.or_eq_true] at hc ⊢; rcases hc with h | h
        · exact Or.inl h
        · exact Or.inr (Or.inl h)
      simp [hc, this]
    · by_cases hp : π = ρ ++ [e]
      · exfalso
        have := hs π hπ
        rw [if_neg hc, hp] at this
        simp [cv, hw] at this
      · have : ¬ (hasPrefix a π || (π.isPrefixOf ρ || decide (π = ρ ++ [e]))) = true := by
          simp only [Bool.or_eq_true, decide_eq_true_eq] at hc ⊢
          rintro (h | h | h)
          · exact hc (Or.inl h)
          · exact hc (Or.inr h)
          · exact hp h
        simp [hc, this]
  | none =>
    rw [next'_none t v e hn]
    have hw := cWalk_addEntry t g ρ v xv e hρ hn
    refine ⟨good_addEntry t g ρ v xv e hρ hn hlt, ?_, by simp [addEntry], none, ?_, ?_⟩
    · intro π hπ
      simp only [cv, hw π]
      rw [isPrefixOf_concat]
      by_cases hp : π = ρ ++ [e]
      · have hold : cWalk t π = none := by
          rw [hp, cWalk_snoc, hρ]; simp [CTrie.nextOr, hn]
        have h1 := hs π hπ
        simp only [cv, hold, Option.map_none] at h1
        have hc : ¬ (hasPrefix a π || π.isPrefixOf ρ) = true := by
          intro hc; rw [if_pos hc] at h1; cases h1
        have hf : hasPrefix a π = false := by
          cases h : hasPrefix a π
          · rfl
          · exfalso; exact hc (by simp [h])
        simp [hp] at hf ⊢
        exact (lookup_none_of_hasPrefix_false a _ hf).symm
      · have h1 := hs π hπ
        simp only [cv] at h1
        simp only [hp, if_false, decide_false, Bool.or_false]
        exact h1
    · rw [hw]; simp
    · rw [assoc_addEntry]; simp

/-- Key of the entry the `value` reference points to. -/
def LastOK (t : CTrie) (π : List Edge) (v : Nat) (last : Option (Nat × Edge)) : Prop :=
  (π = [] ∧ last = none) ∨ (π ≠ [] ∧ ∃ k x, last = some k ∧ assoc t.m k = some (v, x))

theorem insertPath_spec (a : List (List Edge × Nat)) (es : List Edge) :
    ∀ (t : CTrie) (ρ : List Edge) (v : Nat) (xv : Option Nat) (last : Option (Nat × Edge)),
      Good t → SimP t a ρ → cWalk t ρ = some (v, xv) → LastOK t ρ v last →
      t.next + es.length < rootV →
      Good (insertPath t v es last).1 ∧ SimP (insertPath t v es last).1 a (ρ ++ es) ∧
      (insertPath t v es last).1.next ≤ t.next + es.length ∧
      ∃ v1 x1, cWalk (insertPath t v es last).1 (ρ ++ es) = some (v1, x1) ∧
        LastOK (insertPath t v es last).1 (ρ ++ es) v1 (insertPath t v es last).2 := by
  induction es with
  | nil =>
    intro t ρ v xv last g hs hρ hl _
    simp only [insertPath, List.append_nil]
    exact ⟨g, hs, by simp, v, xv, hρ, hl⟩
  | cons e es ih =>
    intro t ρ v xv last g hs hρ _ hlt
    simp only [List.length_cons] at hlt
    obtain ⟨g1, hs1, hn1, x, hw1, ha1⟩ := next'_step t a ρ v xv e g hs hρ (by omega)
    have hl1 : LastOK (t.next' v e).1 (ρ ++ [e]) (t.next' v e).2 (some (v, e)) :=
      Or.inr ⟨by simp, (v, e), x, rfl, ha1⟩
    obtain ⟨g2, hs2, hn2, v1, x1, hw2, hl2⟩ :=
      ih (t.next' v e).1 (ρ ++ [e]) (t.next' v e).2 x (some (v, e)) g1 hs1 hw1 hl1 (by omega)
    simp only [insertPath]
    have happ : ρ ++ e :: es = ρ ++ [e] ++ es := by simp
    rw [happ]
    exact ⟨g2, hs2, by simp only [List.length_cons]; omega, v1, x1, hw2, hl2⟩

/-! ## `*value = Some(..)` -/

def withVal (t : CTrie) (k : Nat × Edge) (off : Nat) : CTrie := { t with m := setVal t.m k off }

theorem assoc_setVal (m : CMap) (k k' : Nat × Edge) (off : Nat) :
    assoc (setVal m k off) k' =
      (assoc m k').map (fun y => if k' = k then (y.1, some off) else y) := by
  induction m with
  | nil => rfl
  | cons kx m ih =>
    obtain ⟨k0, y0⟩ := kx
    simp only [setVal, List.map_cons] at ih ⊢
    by_cases h0 : k0 = k
    · subst h0
      by_cases h1 : k0 = k'
      · subst h1; simp [assoc]
      · simp only [if_true, assoc, h1, if_false]; exact ih
    · by_cases h1 : k0 = k'
      · subst h1; simp [assoc, h0]
      · simp only [h0, if_false, assoc, h1]; exact ih

theorem nextOr_withVal (t : CTrie) (g : Good t) (k : Nat × Edge) (u : Nat) (x0 : Option Nat)
    (off : Nat) (hk : assoc t.m k = some (u, x0)) (w : Nat) (e : Edge) :
    (withVal t k off).nextOr w e =
      (t.nextOr w e).map (fun y => (y.1, if y.1 = u then some off else y.2)) := by
  simp only [CTrie.nextOr, withVal, assoc_setVal]
  cases h : assoc t.m (w, e) with
  | none => rfl
  | some y =>
    obtain ⟨w', x'⟩ := y
    simp only [Option.map_some]
    by_cases hkk : (w, e) = k
    · rw [hkk, hk] at h; simp at h
      simp [hkk, h.1]
    · have : w' ≠ u := by
        intro hu; subst hu
        exact hkk (g.uniq _ _ _ _ _ h hk)
      simp [hkk, this]

theorem cWalk_withVal (t : CTrie) (g : Good t) (k : Nat × Edge) (u : Nat) (x0 : Option Nat)
    (off : Nat) (hk : assoc t.m k = some (u, x0)) :
    ∀ π, cWalk (withVal t k off) π =
      (cWalk t π).map (fun y => (y.1, if y.1 = u then some off else y.2)) := by
  have hu : u < t.next := g.tgt _ _ _ hk
  apply snoc_induction
  · have : rootV ≠ u := by have := g.lt; omega
    simp [cWalk_nil, this]
  · intro π e ih
    rw [cWalk_snoc, cWalk_snoc, ih]
    cases cWalk t π with
    | none => rfl
    | some y => simp [nextOr_withVal t g k u x0 off hk]

theorem good_withVal (t : CTrie) (g : Good t) (k : Nat × Edge) (u : Nat) (x0 : Option Nat)
    (off : Nat) (hk : assoc t.m k = some (u, x0)) : Good (withVal t k off) := by
  have hw := cWalk_withVal t g k u x0 off hk
  have ha : ∀ k' v x, assoc (withVal t k off).m k' = some (v, x) → ∃ x', assoc t.m k' = some (v, x') := by
    intro k' v x h
    simp only [withVal, assoc_setVal] at h
    cases h' : assoc t.m k' with
    | none => simp [h'] at h
    | some y =>
      simp only [h', Option.map_some, Option.some.injEq] at h
      split at h
      · simp at h; exact ⟨y.2, by rw [← h.1]⟩
      · exact ⟨x, by rw [h]⟩
  refine ⟨g.lt, ?_, ?_, ?_, ?_⟩
  · intro k' v x h; obtain ⟨x', h'⟩ := ha k' v x h; exact g.tgt _ _ _ h'
  · intro w e h1 h2
    simp only [withVal, assoc_setVal, g.fresh w e h1 h2, Option.map_none]
  · intro k1 k2 w x1 x2 h1 h2
    obtain ⟨_, h1'⟩ := ha k1 w x1 h1
    obtain ⟨_, h2'⟩ := ha k2 w x2 h2
    exact g.uniq _ _ _ _ _ h1' h2'
  · intro π1 π2 w x1 x2 h1 h2
    rw [hw] at h1 h2
    cases h1' : cWalk t π1 with
    | none => simp [h1'] at h1
    | some y1 =>
      cases h2' : cWalk t π2 with
      | none => simp [h2'] at h2
      | some y2 =>
        simp [h1'] at h1; simp [h2'] at h2
        exact g.inj π1 π2 w y1.2 y2.2 (by rw [h1', ← h1.1]) (by rw [h2', ← h2.1])

/-! ## Inserting a whole path with its value -/

theorem isPrefixOf_nil (π : List Edge) (h : π ≠ []) : π.isPrefixOf ([] : List Edge) = false := by
  cases π with
  | nil => exact absurd rfl h
  | cons x xs => rfl

def Sim (t : CTrie) (a : List (List Edge × Nat)) : Prop := SimP t a []

/-- Writing the value at the end of a freshly walked path. -/
theorem setVal_sim (t1 : CTrie) (a : List (List Edge × Nat)) (p : List Edge) (off : Nat)
    (g1 : Good t1) (hs1 : SimP t1 a p) (hp : p ≠ []) (v1 : Nat) (x1 x : Option Nat)
    (k : Nat × Edge) (hw1 : cWalk t1 p = some (v1, x1)) (hk : assoc t1.m k = some (v1, x)) :
    Good (withVal t1 k off) ∧ Sim (withVal t1 k off) ((p, off) :: a) := by
  have hg2 := good_withVal _ g1 k v1 x off hk
  have hw2 := cWalk_withVal _ g1 k v1 x off hk
  refine ⟨hg2, ?_⟩
  intro π hπ
  have hR : cv (withVal t1 k off) π = if π = p then some (some off) else cv t1 π := by
    simp only [cv, hw2 π]
    by_cases hpp : π = p
    · subst hpp; simp [hw1]
    · simp only [hpp, if_false]
      cases hc : cWalk t1 π with
      | none => rfl
      | some y =>
        have hy : y.1 ≠ v1 := by
          intro h
          exact hpp (g1.inj π p v1 y.2 x1 (by rw [hc, ← h]) hw1)
        simp [hy]
  rw [hR, isPrefixOf_nil π hπ, Bool.or_false]
  have hhp : hasPrefix ((p, off) :: a) π = (π.isPrefixOf p || hasPrefix a π) := by
    simp [hasPrefix]
  have hlk : lookup ((p, off) :: a) π = if p = π then some off else lookup a π := by
    simp [lookup]
  rw [hhp, hlk]
  by_cases hpp : π = p
  · subst hpp
    have hself : π.isPrefixOf π = true := by
      rw [List.isPrefixOf_iff_prefix]; exact List.prefix_refl _
    simp [hself]
  · have hpp' : ¬ p = π := fun h => hpp h.symm
    simp only [hpp, hpp', if_false]
    rw [hs1 π hπ, Bool.or_comm]

theorem cAddPath_spec (t : CTrie) (a : List (List Edge × Nat)) (p : List Edge) (off : Nat)
    (g : Good t) (hs : Sim t a) (hlt : t.next + p.length < rootV) :
    Good (cAddPath t p off) ∧
    Sim (cAddPath t p off) (if p = [] then a else (p, off) :: a) ∧
    (cAddPath t p off).next ≤ t.next + p.length := by
  obtain ⟨g1, hs1, hn1, v1, x1, hw1, hl1⟩ :=
    insertPath_spec a p t [] rootV none none g hs (cWalk_nil t) (Or.inl ⟨rfl, rfl⟩) hlt
  simp only [List.nil_append] at hs1 hw1 hl1
  unfold cAddPath
  rcases hl1 with ⟨hp, hlast⟩ | ⟨hp, k, x, hlast, hk⟩
  · subst hp
    simp only [insertPath] at *
    simp only [if_true]
    exact ⟨g, hs, by simp⟩
  · have hsplit : insertPath t rootV p none
        = ((insertPath t rootV p none).1, some k) := by rw [← hlast]
    rw [hsplit]
    simp only [hp, if_false]
    obtain ⟨h1, h2⟩ := setVal_sim _ a p off g1 hs1 hp v1 x1 x k hw1 hk
    exact ⟨h1, h2, hn1⟩

theorem hasPrefix_of_lookup (a : List (List Edge × Nat)) (p π : List Edge) (o : Nat)
    (hl : lookup a p = some o) (hp : π.isPrefixOf p = true) : hasPrefix a π = true := by
  induction a with
  | nil => simp [lookup] at hl
  | cons kv a ih =>
    obtain ⟨k, v⟩ := kv
    simp only [lookup] at hl
    simp only [hasPrefix, List.any_cons, Bool.or_eq_true]
    by_cases hk : k = p
    · left; rw [hk]; exact hp
    · right
      simp only [hk, if_false] at hl
      have := ih hl
      simpa [hasPrefix] using this

/-- The end of a `load_patterns` iteration, with the `holds_exception` test. -/
theorem cAddPathG_spec (t : CTrie) (a : List (List Edge × Nat)) (data : List Nat)
    (p : List Edge) (off : Nat)
    (g : Good t) (hs : Sim t a) (hlt : t.next + p.length < rootV) :
    Good (cAddPathG true t data p off) ∧
    Sim (cAddPathG true t data p off)
      (if p = [] then a else if holdsExc ⟨data, a⟩ p = true then a else (p, off) :: a) ∧
    (cAddPathG true t data p off).next ≤ t.next + p.length := by
  obtain ⟨g1, hs1, hn1, v1, x1, hw1, hl1⟩ :=
    insertPath_spec a p t [] rootV none none g hs (cWalk_nil t) (Or.inl ⟨rfl, rfl⟩) hlt
  simp only [List.nil_append] at hs1 hw1 hl1
  unfold cAddPathG
  rcases hl1 with ⟨hp, hlast⟩ | ⟨hp, k, x, hlast, hk⟩
  · subst hp
    simp only [insertPath] at *
    simp only [if_true]
    exact ⟨g, hs, by simp⟩
  · have hsplit : insertPath t rootV p none
        = ((insertPath t rootV p none).1, some k) := by rw [← hlast]
    rw [hsplit]
    simp only [hp, if_false]
    -- the value the entry holds is the prefix map's value at `p`
    have hself : p.isPrefixOf p = true := by
      rw [List.isPrefixOf_iff_prefix]; exact List.prefix_refl _
    have hx1 : x1 = lookup a p := by
      have := hs1 p hp
      simp only [cv, hw1, Option.map_some, hself, Bool.or_true, if_true, Option.some.injEq] at this
      exact this
    have hxx : x = x1 := by
      rcases snoc_cases p with h | ⟨ρ, e, rfl⟩
      · exact absurd h hp
      · rw [cWalk_snoc] at hw1
        cases hc : cWalk (insertPath t rootV (ρ ++ [e]) none).1 ρ with
        | none => simp [hc] at hw1
        | some y =>
          simp only [hc, Option.bind_some, CTrie.nextOr] at hw1
          have := g1.uniq _ _ _ _ _ hw1 hk
          rw [← this, hw1] at hk
          simp at hk; exact hk.symm
    have hcond : entryHoldsExc data (assoc (insertPath t rootV p none).1.m k)
        = holdsExc ⟨data, a⟩ p := by
      rw [hk, hxx, hx1]
      unfold holdsExc entryHoldsExc
      cases lookup a p <;> rfl
    rw [hcond]
    by_cases hh : holdsExc ⟨data, a⟩ p = true
    · simp only [hh, Bool.true_and, if_true]
      refine ⟨g1, ?_, hn1⟩
      -- the vertex keeps its exception: the prefix map is unchanged, and `p` was already in it
      have hlk : ∃ o, lookup a p = some o := by
        unfold holdsExc at hh
        cases hl : lookup a p with
        | none => simp [hl] at hh
        | some o => exact ⟨o, rfl⟩
      obtain ⟨o, hlo⟩ := hlk
      intro π hπ
      rw [hs1 π hπ, isPrefixOf_nil π hπ, Bool.or_false]
      by_cases hpre : π.isPrefixOf p = true
      · simp [hasPrefix_of_lookup a p π o hlo hpre]
      · have : π.isPrefixOf p = false := by
          cases hb : π.isPrefixOf p
          · rfl
          · exact absurd hb hpre
        simp [this]
    · have hh' : holdsExc ⟨data, a⟩ p = false := by simpa using hh
      simp only [hh', Bool.and_false, Bool.false_eq_true, if_false]
      obtain ⟨h1, h2⟩ := setVal_sim _ a p off g1 hs1 hp v1 x1 x k hw1 hk
      exact ⟨h1, h2, hn1⟩

/-! ## The two hyphenators -/

/-- Coded hyphenator `c` and prefix-map hyphenator `h` hold the same thing. -/
structure Rel (c : CHyph) (h : Hyph) : Prop where
  data : c.data = h.data
  good : Good c.trie
  sim : Sim c.trie h.trie

theorem rel_empty : Rel {} {} := by
  refine ⟨rfl, good_empty, ?_⟩
  intro π hπ
  have : cWalk ({} : CTrie) π = none := by
    rcases snoc_cases π with h | ⟨ρ, e, rfl⟩
    · exact absurd h hπ
    · rw [cWalk_snoc]; cases cWalk ({} : CTrie) ρ <;> simp [CTrie.nextOr, assoc]
  simp [cv, this, hasPrefix, isPrefixOf_nil π hπ]

theorem rel_loadPattern (c : CHyph) (h : Hyph) (p : List Char) (r : Rel c h)
    (hlt : c.trie.next + (patOps p).2.length < rootV) :
    Rel (cLoadPattern c p) (loadPattern h p) ∧
    (cLoadPattern c p).trie.next ≤ c.trie.next + (patOps p).2.length := by
  obtain ⟨g, s, n⟩ := cAddPathG_spec c.trie h.trie c.data (patOps p).2 c.data.length
    r.good r.sim hlt
  refine ⟨⟨?_, g, ?_⟩, n⟩
  · simp [cLoadPattern, cLoadPatternG, loadPattern, r.data]
  · simp only [cLoadPattern, cLoadPatternG, loadPattern]
    have : (⟨c.data, h.trie⟩ : Hyph) = h := by rw [r.data]
    rw [this] at s
    rw [← r.data]
    by_cases h1 : (patOps p).2 = []
    · simpa [h1] using s
    · by_cases h2 : holdsExc h (patOps p).2 = true
      · simpa [h1, h2] using s
      · simpa [h1, h2] using s

theorem rel_insertException (c : CHyph) (h : Hyph) (e : List Char) (r : Rel c h)
    (hlt : c.trie.next + ((excScan e [excNo] [.start]).2.length + 1) < rootV) :
    Rel (cInsertException c e) (insertException h e) ∧
    (cInsertException c e).trie.next ≤ c.trie.next + ((excScan e [excNo] [.start]).2.length + 1) := by
  obtain ⟨g, s, n⟩ := cAddPath_spec c.trie h.trie ((excScan e [excNo] [.start]).2 ++ [.stop])
    c.data.length r.good r.sim (by simpa using hlt)
  have hne : ¬ ((excScan e [excNo] [.start]).2 ++ [Edge.stop] = []) := by simp
  simp only [hne, if_false] at s
  refine ⟨⟨?_, g, ?_⟩, by simpa [cInsertException] using n⟩
  · simp [cInsertException, insertException, r.data]
  · simp only [cInsertException, insertException]
    rw [← r.data]; exact s

theorem rel_loadPatterns (ps : List (List Char)) (c : CHyph) (h : Hyph) (r : Rel c h)
    (hlt : c.trie.next + (ps.map (fun p => (patOps p).2.length)).sum < rootV) :
    Rel (ps.foldl cLoadPattern c) (ps.foldl loadPattern h) ∧
    (ps.foldl cLoadPattern c).trie.next
      ≤ c.trie.next + (ps.map (fun p => (patOps p).2.length)).sum := by
  induction ps generalizing c h with
  | nil => exact ⟨r, by simp⟩
  | cons p ps ih =>
    simp only [List.map_cons, List.sum_cons] at hlt ⊢
    obtain ⟨r1, n1⟩ := rel_loadPattern c h p r (by omega)
    obtain ⟨r2, n2⟩ := ih (cLoadPattern c p) (loadPattern h p) r1 (by omega)
    exact ⟨r2, by simp only [List.foldl_cons]; omega⟩

theorem rel_insertExceptions' (es : List (List Char)) (c : CHyph) (h : Hyph) (r : Rel c h)
    (hlt : c.trie.next
      + (es.map (fun e => (excScan e [excNo] [.start]).2.length + 1)).sum < rootV) :
    Rel (es.foldl cInsertException c) (es.foldl insertException h) ∧
    (es.foldl cInsertException c).trie.next
      ≤ c.trie.next + (es.map (fun e => (excScan e [excNo] [.start]).2.length + 1)).sum := by
  induction es generalizing c h with
  | nil => exact ⟨r, by simp⟩
  | cons e es ih =>
    simp only [List.map_cons, List.sum_cons] at hlt ⊢
    obtain ⟨r1, n1⟩ := rel_insertException c h e r (by omega)
    obtain ⟨r2, n2⟩ := ih (cInsertException c e) (insertException h e) r1 (by omega)
    exact ⟨r2, by simp only [List.foldl_cons]; omega⟩

theorem rel_insertExceptions (es : List (List Char)) (c : CHyph) (h : Hyph) (r : Rel c h)
    (hlt : c.trie.next
      + (es.map (fun e => (excScan e [excNo] [.start]).2.length + 1)).sum < rootV) :
    Rel (es.foldl cInsertException c) (es.foldl insertException h) :=
  (rel_insertExceptions' es c h r hlt).1

theorem rel_build (ps es : List (List Char)) (hlt : edgeCount ps es < rootV) :
    Rel (cBuild ps es) (build ps es) := by
  unfold edgeCount at hlt
  obtain ⟨r1, n1⟩ := rel_loadPatterns ps {} {} rel_empty (by simp; omega)
  exact rel_insertExceptions es _ _ r1 (by simp at n1; omega)

/-! ## The walk by vertex numbers is the walk by paths -/

theorem sim_next (c : CHyph) (h : Hyph) (r : Rel c h) (π : List Edge) (v : Nat) (xv : Option Nat)
    (hw : cWalk c.trie π = some (v, xv)) (e : Edge) :
    (c.trie.nextOr v e = none ∧ hasPrefix h.trie (π ++ [e]) = false) ∨
    (∃ x, c.trie.nextOr v e = some x ∧ hasPrefix h.trie (π ++ [e]) = true ∧
      lookup h.trie (π ++ [e]) = x.2 ∧ cWalk c.trie (π ++ [e]) = some x) := by
  have hs := r.sim (π ++ [e]) (by simp)
  have hnil : (π ++ [e]).isPrefixOf ([] : List Edge) = false := isPrefixOf_nil _ (by simp)
  rw [hnil, Bool.or_false] at hs
  have hsn : cWalk c.trie (π ++ [e]) = c.trie.nextOr v e := by
    rw [cWalk_snoc, hw]; rfl
  simp only [cv, hsn] at hs
  cases hn : c.trie.nextOr v e with
  | none =>
    left
    refine ⟨rfl, ?_⟩
    rw [hn] at hs
    cases hp : hasPrefix h.trie (π ++ [e]) with
    | false => rfl
    | true => rw [hp] at hs; simp at hs
  | some x =>
    right
    rw [hn] at hs
    cases hp : hasPrefix h.trie (π ++ [e]) with
    | false => rw [hp] at hs; simp at hs
    | true =>
      rw [hp] at hs
      simp only [Option.map_some, if_true, Option.some.injEq] at hs
      exact ⟨x, rfl, rfl, hs.symm, by rw [hsn, hn]⟩

theorem cVisit_eq (c : CHyph) (h : Hyph) (r : Rel c h) (off : Nat) (π : List Edge)
    (x : Option Nat) (hl : lookup h.trie π = x) (s : List Nat) :
    cVisit c off x s = visit h off π s := by
  subst hl
  cases h' : lookup h.trie π <;> simp [cVisit, visit, h', r.data]

theorem cProcess_eq (c : CHyph) (h : Hyph) (r : Rel c h) (lc : Char → Option Char) (off : Nat)
    (cs : List Char) : ∀ (π : List Edge) (v : Nat) (xv : Option Nat) (s : List Nat),
      cWalk c.trie π = some (v, xv) → cProcess c lc off v cs s = process h lc off π cs s := by
  induction cs with
  | nil =>
    intro π v xv s hw
    simp only [cProcess, process]
    rcases sim_next c h r π v xv hw .stop with ⟨h1, h2⟩ | ⟨x, h1, h2, h3, _⟩
    · simp [h1, h2]
    · simp only [h1, h2, if_true]
      exact cVisit_eq c h r off _ _ h3 s
  | cons ch cs ih =>
    intro π v xv s hw
    simp only [cProcess, process]
    cases lc ch with
    | none => rfl
    | some l =>
      simp only
      rcases sim_next c h r π v xv hw (.ch l) with ⟨h1, h2⟩ | ⟨x, h1, h2, h3, h4⟩
      · simp [h1, h2]
      · simp only [h1, h2, if_true]
        rw [cVisit_eq c h r off _ _ h3 s]
        cases visit h off (π ++ [.ch l]) s with
        | none => rfl
        | some s' => exact ih (π ++ [.ch l]) x.1 x.2 s' h4

theorem cOffsets_eq (c : CHyph) (h : Hyph) (r : Rel c h) (lc : Char → Option Char)
    (cs : List Char) : ∀ (off : Nat) (s : List Nat),
      cOffsets c lc off cs s = offsets h lc off cs s := by
  induction cs with
  | nil => intro off s; rfl
  | cons ch cs ih =>
    intro off s
    simp only [cOffsets, offsets]
    cases lc ch with
    | none => rfl
    | some l =>
      simp only
      rw [cProcess_eq c h r lc off (ch :: cs) [] rootV none s (cWalk_nil _)]
      cases process h lc off [] (ch :: cs) s with
      | none => rfl
      | some s' => exact ih (off + 1) s'

theorem cForEachPattern_eq (c : CHyph) (h : Hyph) (r : Rel c h) (lc : Char → Option Char)
    (w : List Char) (s : List Nat) : cForEachPattern c lc w s = forEachPattern h lc w s := by
  unfold cForEachPattern forEachPattern
  rcases sim_next c h r [] rootV none (cWalk_nil _) .start with ⟨h1, h2⟩ | ⟨x, h1, h2, _, h4⟩
  · simp only [List.nil_append] at h2
    simp only [h1, h2, Bool.false_eq_true, if_false]
    exact cOffsets_eq c h r lc w 0 s
  · simp only [List.nil_append] at h2 h4
    simp only [h1, h2, if_true]
    rw [cProcess_eq c h r lc 0 w [.start] x.1 x.2 s h4]
    cases process h lc 0 [.start] w s with
    | none => rfl
    | some s' => exact cOffsets_eq c h r lc w 0 s'

theorem cAggregateScores_eq (c : CHyph) (h : Hyph) (r : Rel c h) (lc : Char → Option Char)
    (w : List Char) : cAggregateScores c lc w = aggregateScores h lc w := by
  unfold cAggregateScores aggregateScores
  rw [cForEachPattern_eq c h r]
  cases forEachPattern h lc w (List.replicate (byteLen w + 1) 0) <;> rfl

end C13
