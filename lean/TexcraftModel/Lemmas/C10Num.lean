import TexcraftModel.Model.C10Num

/-! Helper lemmas for the number readers: the accumulators stay in the ranges that make every
`checked_*().unwrap()` succeed. -/
namespace C10.Num

theorem toDigit_lt (radix : Nat) (c : Char) (d : Nat) (h : toDigit radix c = some d) : d < radix := by
  unfold toDigit at h
  simp only [] at h
  split at h
  · split at h
    · simp at h; omega
    · simp at h
  · simp at h

theorem ck32_some (x : Int) (h : -2147483648 ≤ x ∧ x ≤ 2147483647) : ck32 x = some x := by
  simp [ck32, h]

/-- The integer part never panics and stays in `[0, 2048]`. -/
theorem intPart_ok : ∀ (l : List Char) (p : Nat) (acc : Int), 0 ≤ acc → acc ≤ 2048 →
    ∃ ip i, intPart l p acc = some (ip, i) ∧ 0 ≤ ip ∧ ip ≤ 2048
  | [], p, acc, h0, h1 => ⟨acc, ⟨[], p⟩, by simp [intPart], h0, h1⟩
  | c :: t, p, acc, h0, h1 => by
    simp only [intPart]
    cases hd : toDigit 10 c with
    | none => exact ⟨acc, _, rfl, h0, h1⟩
    | some d =>
      have hlt := toDigit_lt 10 c d hd
      simp only []
      rw [ck32_some (acc * 10) (by omega)]
      simp only []
      rw [ck32_some (acc * 10 + d) (by omega)]
      simp only []
      exact intPart_ok t (p + 1) _ (by split <;> omega) (by split <;> omega)

/-- The fraction digits never panic; each stored value is `2^21 · d` with `d < 10`. -/
theorem fracDigits_ok : ∀ (k : Nat) (l : List Char) (p : Nat),
    ∃ ds i, fracDigits k l p = some (ds, i) ∧ ∀ x ∈ ds, 0 ≤ x ∧ x ≤ 18874368
  | 0, l, p => ⟨[], ⟨l, p⟩, by simp [fracDigits], by simp⟩
  | k + 1, [], p => ⟨[], ⟨[], p⟩, by simp [fracDigits], by simp⟩
  | k + 1, c :: t, p => by
    simp only [fracDigits]
    cases hd : toDigit 10 c with
    | none => exact ⟨[], _, rfl, by simp⟩
    | some d =>
      have hlt := toDigit_lt 10 c d hd
      simp only []
      rw [ck32_some (2097152 * (d : Int)) (by omega)]
      obtain ⟨ds, i, h, hr⟩ := fracDigits_ok k t (p + 1)
      simp only [h]
      refine ⟨_, _, rfl, ?_⟩
      intro x hx
      simp only [List.mem_cons] at hx
      rcases hx with rfl | hx
      · omega
      · exact hr x hx

/-- The fold over the fraction digits never panics and stays below `2^21 · 10`. -/
theorem fracFold_ok : ∀ (ds : List Int), (∀ x ∈ ds, 0 ≤ x ∧ x ≤ 18874368) →
    ∃ acc, fracFold ds = some acc ∧ 0 ≤ acc ∧ acc ≤ 20971520
  | [], _ => ⟨0, by simp [fracFold], by omega, by omega⟩
  | d :: ds, h => by
    obtain ⟨acc, ha, h0, h1⟩ := fracFold_ok ds (fun x hx => h x (by simp [hx]))
    have hd := h d (by simp)
    simp only [fracFold, ha]
    exact ⟨d + acc / 10, ck32_some _ (by omega), by omega, by omega⟩

/-- The fractional part never panics and is at most one unit (`2^20`). -/
theorem fracPart_ok (k : In) : ∃ fp m, fracPart k = some (fp, m) ∧ 0 ≤ fp ∧ fp ≤ 1048576 := by
  unfold fracPart
  split
  · rename_i t' _
    obtain ⟨ds, m, hd, hr⟩ := fracDigits_ok 7 t' (k.pos + 1)
    obtain ⟨acc, ha, h0, h1⟩ := fracFold_ok ds hr
    simp only [hd, ha]
    rw [ck32_some (acc + 10) (by omega)]
    exact ⟨_, _, rfl, by omega, by omega⟩
  · exact ⟨0, k, rfl, by omega, by omega⟩

end C10.Num
