import TexcraftModel.Lemmas.C02Call

/-! C02: `\def` on a rendered definition builds the compiled macro (`parse_prefix_and_parameters`,
`parse_replacement_text`). -/
namespace C02

theorem ppLoop_plain_prefix (toks : List Tok) (h : ∀ t ∈ toks, Plain t) :
    ∀ (pre rest : List Tok), ppLoop pre [] (toks ++ rest) = ppLoop (pre ++ toks) [] rest := by
  induction toks with
  | nil => intro pre rest; simp
  | cons t ts ih =>
    intro pre rest
    have ht := h t (by simp)
    have hts : ∀ x ∈ ts, Plain x := fun x hx => h x (by simp [hx])
    have := ih hts (pre ++ [t]) rest
    cases t <;> simp_all [ppLoop, pushTok, Plain]

theorem ppLoop_plain_delim (toks : List Tok) (h : ∀ t ∈ toks, Plain t) :
    ∀ (pre : List Tok) (init : List (List Tok)) (last rest : List Tok),
      ppLoop pre (init ++ [last]) (toks ++ rest) = ppLoop pre (init ++ [last ++ toks]) rest := by
  induction toks with
  | nil => intro pre init last rest; simp
  | cons t ts ih =>
    intro pre init last rest
    have ht := h t (by simp)
    have hts : ∀ x ∈ ts, Plain x := fun x hx => h x (by simp [hx])
    have := ih hts pre init (last ++ [t]) rest
    cases t <;> simp_all [ppLoop, pushTok, Plain]

theorem paramIndex_digit {i : Nat} (h : i ≤ 8) : paramIndex (.ch (49 + i)) = some i := by
  simp only [paramIndex]
  rw [if_pos (by omega)]
  congr 1; omega

theorem ppLoop_params : ∀ (ds : List (List Tok)) (ps : List (List Tok)) (pre rest : List Tok),
    (∀ d ∈ ds, ∀ t ∈ d, Plain t) → ps.length + ds.length ≤ 9 →
    ppLoop pre ps (renderParams ps.length ds ++ rest) = ppLoop pre (ps ++ ds) rest := by
  intro ds
  induction ds with
  | nil => intro ps pre rest _ _; simp [renderParams]
  | cons d ds ih =>
    intro ps pre rest hpl hlen
    simp only [List.length_cons] at hlen
    have hne : (Tok.ch (49 + ps.length) = Tok.bg) = False := by simp
    have h9 : (ps.length = 9) = False := by simp; omega
    simp only [renderParams, List.cons_append, List.nil_append, List.append_assoc, ppLoop, hne, h9,
      if_false, paramIndex_digit (show ps.length ≤ 8 by omega), if_true]
    rw [ppLoop_plain_delim d (hpl d (by simp))]
    have := ih (ps ++ [d]) pre rest (fun x hx => hpl x (by simp [hx])) (by simp; omega)
    simp only [List.length_append, List.length_singleton, List.nil_append, List.append_assoc,
      List.singleton_append] at this ⊢
    exact this

theorem pushTok_bg (s : SpecMacro) (hb : s.hashBrace = true) :
    pushTok s.pre s.delims .bg = (s.effPre, s.effDelims) := by
  unfold pushTok SpecMacro.effPre SpecMacro.effDelims
  cases hl : s.delims.getLast? with
  | none =>
    have : s.delims = [] := by simpa using hl
    simp [hb, this]
  | some d =>
    have : s.delims ≠ [] := by intro h; simp [h] at hl
    simp [hb, this]

theorem eff_noHash (s : SpecMacro) (hb : s.hashBrace = false) :
    s.effPre = s.pre ∧ s.effDelims = s.delims := by
  simp [SpecMacro.effPre, SpecMacro.effDelims, hb]

theorem effDelims_length (s : SpecMacro) : s.effDelims.length = s.delims.length := by
  unfold SpecMacro.effDelims
  split
  · rcases List.eq_nil_or_concat s.delims with h | ⟨init, last, h⟩
    · simp [h]
    · simp [h]
  · rfl

/-- `parse_prefix_and_parameters` on a rendered parameter text. -/
theorem ppLoop_render {s : SpecMacro} (h : SMValid s) (rest : List Tok) :
    ppLoop [] [] (s.pre ++ renderParams 0 s.delims ++ (if s.hashBrace then [.param, .bg] else [.bg]) ++ rest)
      = .ok (⟨s.effPre, s.effDelims, if s.hashBrace then some .bg else none⟩, rest) := by
  rw [List.append_assoc, List.append_assoc, ppLoop_plain_prefix s.pre h.pre]
  have := ppLoop_params s.delims [] ([] ++ s.pre) ((if s.hashBrace then [.param, .bg] else [.bg]) ++ rest)
    h.delims (by simpa using h.nparams)
  simp only [List.length_nil, List.nil_append] at this ⊢
  rw [this]
  cases hb : s.hashBrace with
  | true =>
    have hp := pushTok_bg s hb
    simp [ppLoop, hp]
  | false =>
    have := eff_noHash s hb
    simp [ppLoop, this.1, this.2]

/-- `parse_replacement_text` on a rendered replacement text. -/
theorem replLoop_body (e : Option Tok) (n : Nat) (hn : n ≤ 9) : ∀ (body : List Item) (d d' : Nat)
    (rs : List Repl) (rest : List Tok),
    runDepth d (bodyToks body) = some d' →
    (∀ i, Item.arg i ∈ body → i < n) → (∀ t, Item.lit t ∈ body → t ≠ .param) →
    replLoop e n d rs ((body.map renderItem).flatten ++ rest) = replLoop e n d' (compileBody rs body) rest := by
  intro body
  induction body with
  | nil => intro d d' rs rest h _ _; simp [bodyToks, runDepth] at h; subst h; simp [compileBody]
  | cons it is ih =>
    intro d d' rs rest h hargs hlits
    have hargs' : ∀ i, Item.arg i ∈ is → i < n := fun i hi => hargs i (by simp [hi])
    have hlits' : ∀ t, Item.lit t ∈ is → t ≠ .param := fun t ht => hlits t (by simp [ht])
    cases it with
    | lit t =>
      have htp := hlits t (by simp)
      simp only [bodyToks] at h
      simp only [List.map_cons, List.flatten_cons, renderItem, List.cons_append, List.nil_append, compileBody]
      cases t with
      | bg =>
        simp only [runDepth] at h
        have := ih (d + 1) d' (pushRepl rs .bg) rest h hargs' hlits'
        simp only [replLoop]; exact this
      | eg =>
        cases d with
        | zero => simp [runDepth] at h
        | succ k =>
          simp only [runDepth] at h
          have := ih k d' (pushRepl rs .eg) rest h hargs' hlits'
          have h0 : (((k + 1 : Nat) : Int) = 0) = False := by simp; omega
          have h1 : ((k + 1 : Nat) : Int) - 1 = (k : Int) := by omega
          simp only [replLoop, h0, if_false, h1]; exact this
      | param => exact absurd rfl htp
      | sp =>
        simp only [runDepth] at h
        have := ih d d' (pushRepl rs .sp) rest h hargs' hlits'
        simp only [replLoop]; exact this
      | ch c =>
        simp only [runDepth] at h
        have := ih d d' (pushRepl rs (.ch c)) rest h hargs' hlits'
        simp only [replLoop]; exact this
      | cs c =>
        simp only [runDepth] at h
        have := ih d d' (pushRepl rs (.cs c)) rest h hargs' hlits'
        simp only [replLoop]; exact this
    | hash =>
      simp only [bodyToks] at h
      have := ih d d' (pushRepl rs .param) rest h hargs' hlits'
      simp only [List.map_cons, List.flatten_cons, renderItem, List.cons_append, List.nil_append,
        compileBody, replLoop, if_true]
      exact this
    | arg i =>
      simp only [bodyToks] at h
      have hi := hargs i (by simp)
      have := ih d d' (rs ++ [.par i]) rest h hargs' hlits'
      have hne : (Tok.ch (49 + i) = Tok.param) = False := by simp
      simp only [List.map_cons, List.flatten_cons, renderItem, List.cons_append, List.nil_append,
        compileBody, replLoop, hne, if_false, paramIndex_digit (show i ≤ 8 by omega), hi, if_true]
      exact this

/-- `\def` on the rendered definition stores the compiled macro and consumes exactly the
definition. -/
theorem defParse_render {s : SpecMacro} (h : SMValid s) {m : Macro} (hm : compile s = some m)
    (tail : List Tok) : defParse (renderDef s ++ tail) = .ok (m, tail) := by
  obtain ⟨ps, hps, hmap, _⟩ := mkParams_ok s.effDelims (effDelims_wf h)
  simp only [compile, hps] at hm
  cases hm
  have hlen : ps.length = s.delims.length := by
    rw [← effDelims_length, ← hmap]; simp
  unfold defParse renderDef
  rw [List.append_assoc, List.append_assoc, ppLoop_render h]
  simp only [hps]
  have hbody := replLoop_body (if s.hashBrace then some .bg else none) ps.length (by rw [hlen]; exact h.nparams)
    s.body 0 0 [] ([.eg] ++ tail) h.body (by rw [hlen]; exact h.args) h.lits
  simp only [Int.natCast_zero] at hbody
  rw [hbody]
  cases hb : s.hashBrace <;> simp [replLoop, compileRepl, hb]

end C02
