import TexcraftModel.Model.C08Macros
import TexcraftModel.Lemmas.C08

/-! C08 — the macro table as coded (`encItemsInc`) equals its description by the final table
(`macrosOf` / `List.idxOf`), for an injective de-duplication key. -/
namespace C08
open C20 C01

/-! ## Lists -/

theorem idxOf_append_left (a : Nat) (l r : List Nat) (h : a ∈ l) : (l ++ r).idxOf a = l.idxOf a := by
  induction l with
  | nil => cases h
  | cons x t ih =>
    simp only [List.cons_append, List.idxOf_cons]
    by_cases hx : x = a
    · simp [hx]
    · have hb : (x == a) = false := by simp [hx]
      have : a ∈ t := by
        rcases List.mem_cons.1 h with h' | h'
        · exact absurd h'.symm hx
        · exact h'
      simp [hb, ih this]

theorem idxOf_append_new (a : Nat) (l r : List Nat) (h : a ∉ l) :
    (l ++ a :: r).idxOf a = l.length := by
  induction l with
  | nil => simp
  | cons x t ih =>
    have hx : x ≠ a := fun e => h (by simp [e])
    have hb : (x == a) = false := by simp [hx]
    have ht : a ∉ t := fun e => h (List.mem_cons_of_mem _ e)
    simp only [List.cons_append, List.idxOf_cons, List.length_cons, hb, cond_false, ih ht]

/-- In a table two members have the same index iff they are equal. -/
theorem idxOf_inj (tbl : List Nat) (a b : Nat) (ha : a ∈ tbl) (hb : b ∈ tbl) :
    tbl.idxOf a = tbl.idxOf b ↔ a = b := by
  constructor
  · intro h
    have h1 := getElem?_idxOf_of_mem a tbl ha
    have h2 := getElem?_idxOf_of_mem b tbl hb
    rw [h] at h1
    rw [h1] at h2
    exact Option.some.inj h2
  · intro h; rw [h]

/-! ## `macrosOf` step by step -/

/-- What one item does to the table. -/
def stepTbl (tbl : List Nat) : Item Nat Cmd → List Nat
  | .value _ (.mac n) => if n ∈ tbl then tbl else tbl ++ [n]
  | _ => tbl

theorem macrosOf_cons (it : Item Nat Cmd) (t : List (Item Nat Cmd)) (tbl : List Nat) :
    macrosOf (it :: t) tbl = macrosOf t (stepTbl tbl it) := by
  cases it with
  | beginGroup => simp [macrosOf, stepTbl]
  | value k c => cases c <;> simp [macrosOf, stepTbl]

theorem stepTbl_append (tbl : List Nat) (it : Item Nat Cmd) : ∃ suf, stepTbl tbl it = tbl ++ suf := by
  cases it with
  | beginGroup => exact ⟨[], by simp [stepTbl]⟩
  | value k c =>
    cases c with
    | mac n =>
      by_cases h : n ∈ tbl
      · exact ⟨[], by simp [stepTbl, h]⟩
      · exact ⟨[n], by simp [stepTbl, h]⟩
    | _ => exact ⟨[], by simp [stepTbl]⟩

theorem stepTbl_nodup (tbl : List Nat) (it : Item Nat Cmd) (h : tbl.Nodup) : (stepTbl tbl it).Nodup := by
  cases it with
  | beginGroup => simpa [stepTbl] using h
  | value k c =>
    cases c with
    | mac n =>
      by_cases hn : n ∈ tbl
      · simpa [stepTbl, hn] using h
      · simp only [stepTbl, hn, if_false]
        rw [List.nodup_append]
        refine ⟨h, by simp, ?_⟩
        intro a ha b hb
        simp at hb
        subst hb
        exact fun e => hn (e ▸ ha)
    | _ => simpa [stepTbl] using h

/-- `macrosOf` only appends. -/
theorem macrosOf_append (items : List (Item Nat Cmd)) :
    ∀ tbl : List Nat, ∃ suf, macrosOf items tbl = tbl ++ suf := by
  induction items with
  | nil => intro tbl; exact ⟨[], by simp [macrosOf]⟩
  | cons it t ih =>
    intro tbl
    obtain ⟨s1, h1⟩ := stepTbl_append tbl it
    obtain ⟨s2, h2⟩ := ih (stepTbl tbl it)
    exact ⟨s1 ++ s2, by rw [macrosOf_cons, h2, h1, List.append_assoc]⟩

/-- … and keeps the table free of duplicates. -/
theorem macrosOf_nodup (items : List (Item Nat Cmd)) :
    ∀ tbl : List Nat, tbl.Nodup → (macrosOf items tbl).Nodup := by
  induction items with
  | nil => intro tbl h; simpa [macrosOf] using h
  | cons it t ih =>
    intro tbl h
    rw [macrosOf_cons]
    exact ih _ (stepTbl_nodup tbl it h)

/-! ## The closure's state -/

/-- Invariant of the closure's state: the table has no duplicates and the de-dup map sends the
key of a macro to its index in the table exactly when the macro is in the table. -/
structure EncWF (key : Nat → Nat) (st : EncSt) : Prop where
  nodup : st.macros.Nodup
  look : ∀ n, alookup st.dedup (key n) = if n ∈ st.macros then some (st.macros.idxOf n) else none

theorem encWF_empty (key : Nat → Nat) : EncWF key EncSt.empty :=
  ⟨by simp [EncSt.empty], by intro n; simp [EncSt.empty, alookup]⟩

/-- The state after one command (whether or not the encoding of the command succeeds). -/
def stepSt (key : Nat → Nat) (st : EncSt) : Item Nat Cmd → EncSt
  | .value _ (.mac n) =>
    match alookup st.dedup (key n) with
    | some _ => st
    | none => { macros := st.macros ++ [n], dedup := ainsert (key n) st.macros.length st.dedup }
  | _ => st

def walkSt (key : Nat → Nat) : EncSt → List (Item Nat Cmd) → EncSt
  | st, [] => st
  | st, it :: t => walkSt key (stepSt key st it) t

theorem stepSt_macros (key : Nat → Nat) (st : EncSt) (h : EncWF key st) (it : Item Nat Cmd) :
    (stepSt key st it).macros = stepTbl st.macros it := by
  cases it with
  | beginGroup => simp [stepSt, stepTbl]
  | value k c =>
    cases c with
    | mac n =>
      have hl := h.look n
      by_cases hn : n ∈ st.macros
      · simp only [hn, if_true] at hl
        simp [stepSt, stepTbl, hl, hn]
      · simp only [hn, if_false] at hl
        simp [stepSt, stepTbl, hl, hn]
    | _ => simp [stepSt, stepTbl]

theorem stepSt_wf (key : Nat → Nat) (hk : KeyInj key) (st : EncSt) (h : EncWF key st)
    (it : Item Nat Cmd) : EncWF key (stepSt key st it) := by
  cases it with
  | beginGroup => simpa [stepSt] using h
  | value k c =>
    cases c with
    | mac n =>
      have hl := h.look n
      by_cases hn : n ∈ st.macros
      · simp only [hn, if_true] at hl
        simpa [stepSt, hl] using h
      · simp only [hn, if_false] at hl
        simp only [stepSt, hl]
        refine ⟨?_, ?_⟩
        · have := stepTbl_nodup st.macros (.value k (.mac n)) h.nodup
          simpa [stepTbl, hn] using this
        · intro m
          show alookup (ainsert (key n) st.macros.length st.dedup) (key m) = _
          rw [alookup_ainsert]
          by_cases hm : key n = key m
          · have : n = m := hk _ _ hm
            subst this
            simp [idxOf_append_new n st.macros [] hn]
          · have hne : n ≠ m := fun e => hm (by rw [e])
            simp only [hm, if_false, h.look m]
            by_cases hmm : m ∈ st.macros
            · simp [hmm, idxOf_append_left m st.macros [n] hmm]
            · have : m ∉ st.macros ++ [n] := by
                simp only [List.mem_append, List.mem_singleton, not_or]
                exact ⟨hmm, fun e => hne e.symm⟩
              simp [hmm, this]
    | _ => simpa [stepSt] using h

theorem walkSt_wf (key : Nat → Nat) (hk : KeyInj key) (items : List (Item Nat Cmd)) :
    ∀ st, EncWF key st → EncWF key (walkSt key st items) ∧
      (walkSt key st items).macros = macrosOf items st.macros := by
  induction items with
  | nil => intro st h; exact ⟨by simpa [walkSt] using h, by simp [walkSt, macrosOf]⟩
  | cons it t ih =>
    intro st h
    have h1 := stepSt_wf key hk st h it
    obtain ⟨a, b⟩ := ih _ h1
    refine ⟨by simpa [walkSt] using a, ?_⟩
    rw [macrosOf_cons, ← stepSt_macros key st h it]
    simpa [walkSt] using b

/-- One command: the closure as coded gives the pure encoding with any table that extends the
table after this command, and moves to `stepSt`. -/
theorem encCmdInc_eq (key : Nat → Nat) (T : Table) (st : EncSt) (h : EncWF key st)
    (k : Nat) (c : Cmd) (tblF suf : List Nat) (hF : tblF = stepTbl st.macros (.value k c) ++ suf) :
    encCmdInc key T st c = (encCmd T tblF c).map (fun s => (s, stepSt key st (.value k c))) := by
  cases c with
  | mac n =>
    have hl := h.look n
    by_cases hn : n ∈ st.macros
    · simp only [hn, if_true] at hl
      have hmem : n ∈ tblF := by rw [hF]; simp [stepTbl, hn]
      have hidx : tblF.idxOf n = st.macros.idxOf n := by
        rw [hF]; simp only [stepTbl, hn, if_true]; exact idxOf_append_left n _ _ hn
      simp [encCmdInc, encCmd, stepSt, hl, hmem, hidx]
    · simp only [hn, if_false] at hl
      have hF' : tblF = st.macros ++ n :: suf := by
        rw [hF]; simp [stepTbl, hn]
      have hmem : n ∈ tblF := by rw [hF']; simp
      have hidx : tblF.idxOf n = st.macros.length := by
        rw [hF']; exact idxOf_append_new n _ _ hn
      simp [encCmdInc, encCmd, stepSt, hl, hmem, hidx]
  | prim p => cases hp : T.nameOfPrim p <;> simp [encCmdInc, encCmd, stepSt, hp]
  | alias v =>
    cases hv : T.nameOfVar v with
    | none => simp [encCmdInc, encCmd, stepSt, hv]
    | some ni => obtain ⟨n, i⟩ := ni; simp [encCmdInc, encCmd, stepSt, hv]
  | tok c => simp [encCmdInc, encCmd, stepSt]
  | chr c => simp [encCmdInc, encCmd, stepSt]
  | mchr n => simp [encCmdInc, encCmd, stepSt]
  | font f => simp [encCmdInc, encCmd, stepSt]

/-- The walk as coded = the description by the final table: for an injective key, from a
well-formed state, with any table `tblF` that extends the table reached after these items. -/
theorem encItemsInc_eq (key : Nat → Nat) (hk : KeyInj key) (T : Table)
    (items : List (Item Nat Cmd)) :
    ∀ (st : EncSt), EncWF key st → ∀ (tblF suf : List Nat),
      tblF = macrosOf items st.macros ++ suf →
      encItemsInc key T st items =
        (mapOpt (encItem T tblF) items).map (fun r => (r, walkSt key st items)) := by
  induction items with
  | nil => intro st _ tblF suf _; simp [encItemsInc, mapOpt, walkSt]
  | cons it t ih =>
    intro st h tblF suf hF
    rw [macrosOf_cons] at hF
    have h1 := stepSt_wf key hk st h it
    have hm := stepSt_macros key st h it
    have iht := ih (stepSt key st it) h1 tblF suf (by rw [hm]; exact hF)
    cases it with
    | beginGroup =>
      simp only [encItemsInc, stepSt] at iht ⊢
      rw [iht]
      simp only [mapOpt, encItem, walkSt, stepSt]
      cases mapOpt (encItem T tblF) t <;> simp
    | value k c =>
      obtain ⟨s2, hs2⟩ := macrosOf_append t (stepTbl st.macros (.value k c))
      have hc := encCmdInc_eq key T st h k c tblF (s2 ++ suf)
        (by rw [hF, hs2, List.append_assoc])
      simp only [encItemsInc, hc, mapOpt, encItem, walkSt]
      cases he : encCmd T tblF c with
      | none => simp
      | some s =>
        simp only [Option.map_some]
        rw [iht]
        cases mapOpt (encItem T tblF) t <;> simp

/-- The as-coded serialiser and `Model/C08.lean`'s `serialize` are the same function (for an
injective key). -/
theorem serializeInc_eq (key : Nat → Nat) (hk : KeyInj key) (T : Table) (vm : VMState) :
    serializeInc key T vm = serialize true T vm := by
  unfold serializeInc serialize
  cases hci : vm.cmds.iterAll with
  | panic => rfl
  | fuel => rfl
  | ok ci =>
    simp only [if_true]
    cases hai : vm.active.iterAll with
    | panic => rfl
    | fuel => rfl
    | ok ai =>
      simp only []
      obtain ⟨sufA, hA⟩ := macrosOf_append ai (macrosOf ci [])
      have e1 := encItemsInc_eq key hk T ci EncSt.empty (encWF_empty key)
        (macrosOf ai (macrosOf ci [])) sufA (by simpa [EncSt.empty] using hA)
      obtain ⟨w1, m1⟩ := walkSt_wf key hk ci EncSt.empty (encWF_empty key)
      have m1' : (walkSt key EncSt.empty ci).macros = macrosOf ci [] := by
        simpa [EncSt.empty] using m1
      have e2 := encItemsInc_eq key hk T ai (walkSt key EncSt.empty ci) w1
        (macrosOf ai (macrosOf ci [])) [] (by rw [m1']; simp)
      obtain ⟨_, m2⟩ := walkSt_wf key hk ai (walkSt key EncSt.empty ci) w1
      rw [m1'] at m2
      rw [e1]
      cases h1 : mapOpt (encItem T (macrosOf ai (macrosOf ci []))) ci with
      | none => simp
      | some sc =>
        simp only [Option.map_some]
        rw [e2]
        cases h2 : mapOpt (encItem T (macrosOf ai (macrosOf ci []))) ai with
        | none => simp
        | some sa =>
          simp only [Option.map_some]
          cases h3 : mapOpt (mapOpt (encSave T)) vm.save with
          | none => simp
          | some sv => simp [m2]

/-! ## What the serialised map says about a macro -/

/-- One map: a name that is a macro before serialisation is, in the serialised map, the index of
that macro in the table (and the macro is in the table). -/
theorem ser_get_mac_one (T : Table) (tbl : List Nat) (m : GMap Nat Cmd) (hm : Inv m)
    (ci : List (Item Nat Cmd)) (hci : m.iterAll = .ok ci) (sc : List (Item Nat SCmd))
    (hsc : mapOpt (encItem T tbl) ci = some sc) (k n : Nat) (hk : m.get k = some (.mac n)) :
    n ∈ tbl ∧ (GMap.fromIter sc).get k = some (.macro (tbl.idxOf n)) := by
  obtain ⟨items, hi, habs, _⟩ := iterAll_roundtrip m hm
  rw [hci] at hi
  injection hi with hi
  subst hi
  obtain ⟨hmap, hall⟩ := mapOpt_encItem T tbl ci sc hsc
  have hg := fromIter_all (EncOk T tbl) ci hall
  have hget : (GMap.fromIter ci).get k = some (.mac n) := by
    have := congrFun (congrArg Snap.cur habs) k
    simp only [GMap.abs] at this
    have hk' : alookup m.bc k = some (.mac n) := by simpa [GMap.get] using hk
    simp only [GMap.get]
    rw [this, hk']
  have hmem := mem_of_alookup _ _ _ (by simpa [GMap.get] using hget)
  have hok : EncOk T tbl (.mac n) := hg.1 _ hmem
  have hn : n ∈ tbl := by
    simp only [EncOk, encCmd] at hok
    by_cases h : n ∈ tbl
    · exact h
    · simp [h] at hok
  refine ⟨hn, ?_⟩
  rw [hmap, fromIter_map]
  simp only [GMap.get, gmapMap, alookup_amap]
  have : alookup (GMap.fromIter ci).bc k = some (.mac n) := by simpa [GMap.get] using hget
  simp [this, encF, encCmd, hn]

end C08
