import TexcraftModel.Lemmas.C06Scan
import TexcraftModel.Lemmas.C06Print
import TexcraftModel.Tables.C06Dec
/-!
C06 — glue: addition (§1239), multiplication and division (§1240), and scanning back the
printed components.
-/
namespace C06


theorem addComp_eq (a : Int) (ao : Nat) (b : Int) (bo : Nat) : addComp a ao b bo = Spec.addComp a ao b bo := by
  unfold addComp Spec.addComp
  simp only []
  by_cases h1 : (if b = 0 then 0 else bo) = ao
  · rw [if_pos h1, if_pos h1, Int.add_comm b a, h1]
  · rw [if_neg h1, if_neg h1]

def ARes.toAR {α : Type} : ARes α → Spec.AR α
  | .set a => .set a
  | .error => .error

theorem advanceGlue_eq (a b : Glue) : (advanceGlue a b).toAR = Spec.advanceGlue a b := by
  unfold advanceGlue Spec.advanceGlue
  simp only [addComp_eq, ARes.toAR, Int.add_comm b.width a.width]

theorem scaledCheckedMul_eq (a n : Int) :
    scaledCheckedMul a n = (if (Spec.nxPlusY a n 0).err then none else some (Spec.nxPlusY a n 0).val) := by
  have hM : maxDimen = 1073741823 := rfl
  unfold scaledCheckedMul
  rw [nxPlusY_eq a n 0 (by omega)]
  rw [Spec.nxPlusY, Spec.nxPlusY, multAndAdd_exact n a 0 1073741823 (by omega) (by omega),
    multAndAdd_exact a n 0 1073741823 (by omega) (by omega), Int.mul_comm n a]
  by_cases ha : a = 0
  · subst ha; by_cases hn : n = 0
    · subst hn; simp
    · simp [hn]
  by_cases hn : n = 0
  · subst hn; simp [ha]
  simp only [if_neg ha, if_neg hn, Int.add_zero]
  by_cases hc : (-1073741823 ≤ a * n ∧ a * n ≤ 1073741823)
  · rw [if_pos hc]; simp
  · rw [if_neg hc]; simp

theorem multiplyGlue_eq (a : Glue) (n : Int) : (multiplyGlue a n).toAR = Spec.multiplyGlue a n := by
  unfold multiplyGlue Spec.multiplyGlue
  simp only [scaledCheckedMul_eq]
  cases h1 : (Spec.nxPlusY a.width n 0).err <;> cases h2 : (Spec.nxPlusY a.stretch n 0).err <;>
    cases h3 : (Spec.nxPlusY a.shrink n 0).err <;> simp [ARes.toAR]

theorem checkedDiv_eq (x n : Int) (hx : -2147483648 ≤ x ∧ x ≤ 2147483647) :
    checkedDiv x n = (if (Spec.xOverN x n).err then none
      else if Spec.fits (Spec.xOverN x n).val then some (Spec.xOverN x n).val else none) ∨
    (x = -2147483648 ∧ n = -1) := by
  by_cases hex : (x = -2147483648 ∧ n = -1)
  · exact Or.inr hex
  left
  unfold checkedDiv
  by_cases hb : n = 0
  · subst hb; simp [Spec.xOverN]
  · rw [if_neg hb, if_neg hex]
    have hv := tdiv_cases x n hb
    have hf := xOverN_fits x n hx hb hex
    have he : (Spec.xOverN x n).err = false := by
      unfold Spec.xOverN; rw [if_neg hb]; simp only []; split <;> split <;> rfl
    have : Spec.fits (Spec.xOverN x n).val = true := by simp [Spec.fits]; omega
    simp [he, hv, this]


theorem divideGlue_eq (a : Glue) (n : Int)
    (hw : -2147483648 ≤ a.width ∧ a.width ≤ 2147483647)
    (hst : -2147483648 ≤ a.stretch ∧ a.stretch ≤ 2147483647)
    (hsh : -2147483648 ≤ a.shrink ∧ a.shrink ≤ 2147483647)
    (hex : ¬ (n = -1 ∧ (a.width = -2147483648 ∨ a.stretch = -2147483648 ∨ a.shrink = -2147483648))) :
    (divideGlue a n).toAR = Spec.divideGlue a n := by
  have h1 := (checkedDiv_eq a.width n hw).resolve_right (fun h => hex ⟨h.2, Or.inl h.1⟩)
  have h2 := (checkedDiv_eq a.stretch n hst).resolve_right (fun h => hex ⟨h.2, Or.inr (Or.inl h.1)⟩)
  have h3 := (checkedDiv_eq a.shrink n hsh).resolve_right (fun h => hex ⟨h.2, Or.inr (Or.inr h.1)⟩)
  unfold divideGlue Spec.divideGlue
  simp only [h1, h2, h3]
  by_cases hn : n = 0
  · subst hn; simp [Spec.xOverN, ARes.toAR]
  · have e : ∀ x, (Spec.xOverN x n).err = false := by
      intro x; unfold Spec.xOverN; rw [if_neg hn]; simp only []; split <;> split <;> rfl
    have f : ∀ x, -2147483648 ≤ x ∧ x ≤ 2147483647 → ¬ (x = -2147483648 ∧ n = -1) →
        Spec.fits (Spec.xOverN x n).val = true := by
      intro x hx hne
      have := xOverN_fits x n hx hn hne
      simp [Spec.fits]; omega
    have f1 := f a.width hw (fun h => hex ⟨h.2, Or.inl h.1⟩)
    have f2 := f a.stretch hst (fun h => hex ⟨h.2, Or.inr (Or.inl h.1)⟩)
    have f3 := f a.shrink hsh (fun h => hex ⟨h.2, Or.inr (Or.inr h.1)⟩)
    simp [e, f1, f2, f3, ARes.toAR]


/-! ## printed glue components scan back -/

theorem rdAcc_zeros (k : Nat) : rdAcc (List.replicate k 0) = 0 := by
  induction k with
  | zero => rfl
  | succ k ih => simp [List.replicate_succ, rdAcc, ih]

theorem rdAcc_append_zeros (ds : List Nat) (k : Nat) : rdAcc (ds ++ List.replicate k 0) = rdAcc ds := by
  induction ds with
  | nil => simpa [rdAcc] using rdAcc_zeros k
  | cons d ds ih => simp only [List.cons_append, rdAcc, ih]

theorem fromDecimalDigits_pad17 (ds : List Nat) : fromDecimalDigits (pad17 ds) = fromDecimalDigits ds := by
  unfold fromDecimalDigits pad17; rw [rdAcc_append_zeros]

/-- The unit printed for a glue order: `pt`, `fil`, `fill`, `filll`. -/
def unitOfOrder : Nat → UnitSpec
  | 0 => .phys .pt
  | k + 1 => .fil k

/-- One printed component (`<sign><int>.<frac><unit>`) read by `scan_dimen`: the identical value,
no error, the same order. `ds` is any digit string that `parse_constant` reads as the printed
integer part (its decimal digits are one). -/
theorem scanDimen_printed (X : Int) (hX0 : 0 ≤ X) (hX : X ≤ maxDimen) (neg : Bool) (ds : List Nat)
    (hds : scanConst 10 ds = (X / 65536, 0)) (k : Nat) (hk : k ≤ 3) :
    ∃ frac, printFrac ((X % 65536).natAbs : Int) = some frac ∧
      scanDimen neg (.const 10 ds (some frac)) (unitOfOrder k)
        = .ok { val := if neg then -X else X, nerr := 0, order := k } := by
  have hM : maxDimen = 1073741823 := rfl
  have hfr : (X % 65536).natAbs < 65536 := by omega
  obtain ⟨frac, h1, h2, h3, h4, h5, h6⟩ := fracOK_unpack _ (fracOK_all _ hfr)
  refine ⟨frac, h1, ?_⟩
  have e2 : (((X % 65536).natAbs : Nat) : Int) = X % 65536 := by omega
  have hsf : scanFraction frac = X % 65536 := by
    unfold scanFraction
    rw [List.take_of_length_le (by omega), ← fromDecimalDigits_pad17, h5, e2]
  simp only [scanDimen, hds, hsf, if_true]
  have hval : 65536 * (X / 65536) + X % 65536 = X := by omega
  cases k with
  | zero =>
    simp only [unitOfOrder, applyUnits]
    rw [scaledNew_pt (X / 65536) (X % 65536) (by omega) (by omega) (by omega), if_neg (by omega), hval]
    cases neg
    · simp only [mulSign, Bool.false_eq_true, if_false, Int.mul_one]
      rw [if_pos (by simp [inI32]; omega)]
    · simp only [mulSign, if_true]
      rw [if_pos (by simp [inI32]; omega)]
      simp
  | succ ls =>
    have hfi : fromInteger (X / 65536) = some (65536 * (X / 65536)) := by
      unfold fromInteger; rw [if_neg (by omega)]
    have hc : chk32 (65536 * (X / 65536) + X % 65536) = .ok X := by
      rw [hval]; unfold chk32; rw [if_pos (by simp [inI32]; omega)]
    simp only [unitOfOrder, applyUnits, hfi, hc]
    rw [if_pos hX]
    have ho : min (1 + ls) 3 = ls + 1 := by omega
    have hn : ls - 2 = 0 := by omega
    rw [ho, hn]
    cases neg
    · simp only [mulSign, Bool.false_eq_true, if_false, Int.mul_one]
      rw [if_pos (by simp [inI32]; omega)]
    · simp only [mulSign, if_true]
      rw [if_pos (by simp [inI32]; omega)]
      simp



/-! ## decimal digits of the integer part -/


theorem addLsd_small (r : Int) (d : Nat) (hr : 0 ≤ r ∧ r < 100000) (hd : d < 10) :
    addLsd 10 r d = some (r * 10 + d) := by
  unfold addLsd
  rw [if_pos (by simp [inI32]; omega), if_pos (by simp [inI32]; omega)]

theorem constLoop_step (r : Int) (d : Nat) (ds : List Nat) (hr : 0 ≤ r ∧ r < 100000) (hd : d < 10) :
    constLoop 10 (d :: ds) r false = constLoop 10 ds (r * 10 + d) false := by
  simp only [constLoop, addLsd_small r d hr hd]

theorem scanConst_of_loop (d : Nat) (rest : List Nat) (v : Int)
    (h : constLoop 10 rest d false = (v, false)) : scanConst 10 (d :: rest) = (v, 0) := by
  simp [scanConst, h]

/-- `parse_constant` reads the decimal digits of `n` as `n`, without error. -/
theorem scanConst_dec5 (n : Nat) (h : n < 100000) : scanConst 10 (dec5 n) = ((n : Int), 0) := by
  unfold dec5
  split
  · exact scanConst_of_loop _ _ _ (by simp [constLoop])
  split
  · apply scanConst_of_loop
    rw [constLoop_step _ _ _ (by omega) (by omega)]
    simp only [constLoop]; congr 1; omega
  split
  · apply scanConst_of_loop
    rw [constLoop_step _ _ _ (by omega) (by omega), constLoop_step _ _ _ (by omega) (by omega)]
    simp only [constLoop]; congr 1; omega
  split
  · apply scanConst_of_loop
    rw [constLoop_step _ _ _ (by omega) (by omega), constLoop_step _ _ _ (by omega) (by omega),
      constLoop_step _ _ _ (by omega) (by omega)]
    simp only [constLoop]; congr 1; omega
  · apply scanConst_of_loop
    rw [constLoop_step _ _ _ (by omega) (by omega), constLoop_step _ _ _ (by omega) (by omega),
      constLoop_step _ _ _ (by omega) (by omega), constLoop_step _ _ _ (by omega) (by omega)]
    simp only [constLoop]; congr 1; omega



/-! ## printed components, with the decimal digits of the integer part -/


theorem printed_ip_small (s : Int) (h : -maxDimen ≤ s ∧ s ≤ maxDimen) : (Spec.printScaled s).ip < 16384 := by
  have hM : maxDimen = 1073741823 := rfl
  simp only [Spec.printScaled]; omega

/-- One printed component, with the decimal digits of its integer part. -/
theorem component_roundtrip (s : Int) (h : -maxDimen ≤ s ∧ s ≤ maxDimen) (k : Nat) (hk : k ≤ 3) :
    scanDimen (Spec.printScaled s).neg
      (.const 10 (dec5 (Spec.printScaled s).ip) (some (Spec.printScaled s).frac)) (unitOfOrder k)
      = .ok { val := s, nerr := 0, order := k } := by
  have hM : maxDimen = 1073741823 := rfl
  have hip := printed_ip_small s h
  have hds := scanConst_dec5 (Spec.printScaled s).ip (by omega)
  by_cases hs : 0 ≤ s
  · have e : (((Spec.printScaled s).ip : Nat) : Int) = s / 65536 := by simp only [Spec.printScaled]; omega
    rw [e] at hds
    obtain ⟨frac, h1, h2⟩ := scanDimen_printed s hs h.2 false _ hds k hk
    have hp := (print_scan_core s h)
    obtain ⟨p, hp1, hp2, _⟩ := hp
    subst hp2
    have hfr := printScaled_frac s _ hp1
    have e2 : ((s.natAbs % 65536 : Nat) : Int) = (((s % 65536).natAbs : Nat) : Int) := by omega
    rw [e2, h1] at hfr
    have hneg : (Spec.printScaled s).neg = false := by simp [Spec.printScaled]; omega
    rw [hneg, ← Option.some.inj hfr]
    simpa using h2
  · have e : (((Spec.printScaled s).ip : Nat) : Int) = -s / 65536 := by simp only [Spec.printScaled]; omega
    rw [e] at hds
    obtain ⟨frac, h1, h2⟩ := scanDimen_printed (-s) (by omega) (by omega) true _ hds k hk
    obtain ⟨p, hp1, hp2, _⟩ := print_scan_core s h
    subst hp2
    have hfr := printScaled_frac s _ hp1
    have e2 : ((s.natAbs % 65536 : Nat) : Int) = (((-s % 65536).natAbs : Nat) : Int) := by omega
    rw [e2, h1] at hfr
    have hneg : (Spec.printScaled s).neg = true := by simp [Spec.printScaled]; omega
    rw [hneg, ← Option.some.inj hfr]
    simpa using h2

/-- The width of a glue is scanned as `scan_dimen` without sign, then negated. -/
theorem width_roundtrip (s : Int) (h : -maxDimen ≤ s ∧ s ≤ maxDimen) :
    scanGlueWidth (Spec.printScaled s).neg
      (.const 10 (dec5 (Spec.printScaled s).ip) (some (Spec.printScaled s).frac)) (.phys .pt)
      = .ok { val := s, nerr := 0, order := 0 } := by
  have hM : maxDimen = 1073741823 := rfl
  have hip := printed_ip_small s h
  have hds := scanConst_dec5 (Spec.printScaled s).ip (by omega)
  obtain ⟨p, hp1, hp2, _⟩ := print_scan_core s h
  subst hp2
  have hfr := printScaled_frac s _ hp1
  simp only [scanGlueWidth]
  by_cases hs : 0 ≤ s
  · have e : (((Spec.printScaled s).ip : Nat) : Int) = s / 65536 := by simp only [Spec.printScaled]; omega
    rw [e] at hds
    obtain ⟨frac, h1, h2⟩ := scanDimen_printed s hs h.2 false _ hds 0 (by omega)
    have e2 : ((s.natAbs % 65536 : Nat) : Int) = (((s % 65536).natAbs : Nat) : Int) := by omega
    rw [e2, h1] at hfr
    have hneg : (Spec.printScaled s).neg = false := by simp [Spec.printScaled]; omega
    rw [hneg, ← Option.some.inj hfr]
    simp only [unitOfOrder] at h2
    rw [h2]
    simp only [mulSign, Bool.false_eq_true, if_false, Int.mul_one]
    rw [if_pos (by simp [inI32]; omega)]
  · have e : (((Spec.printScaled s).ip : Nat) : Int) = -s / 65536 := by simp only [Spec.printScaled]; omega
    rw [e] at hds
    obtain ⟨frac, h1, h2⟩ := scanDimen_printed (-s) (by omega) (by omega) false _ hds 0 (by omega)
    have e2 : ((s.natAbs % 65536 : Nat) : Int) = (((-s % 65536).natAbs : Nat) : Int) := by omega
    rw [e2, h1] at hfr
    have hneg : (Spec.printScaled s).neg = true := by simp [Spec.printScaled]; omega
    rw [hneg, ← Option.some.inj hfr]
    simp only [unitOfOrder] at h2
    rw [h2]
    simp only [mulSign, Bool.false_eq_true, if_false, if_true]
    rw [if_pos (by simp [inI32]; omega)]
    simp


end C06
