import TexcraftModel.Lemmas.C04AlgoSound
import TexcraftModel.Lemmas.C04AlgoMono
import TexcraftModel.Lemmas.C04AlgoGroupsQ

/-!
Stage C: under the quantifier's restriction (`monotone x`, `force_solution = false`, totals
below `AWFUL_BAD`) the active list of `C04.algo` *dominates* every feasible sequence of lines
that can still be extended (`DomInv`), per line class (`ckey`: with looseness 0 the classes of
`num_nodes_for_next_class`, with looseness ≠ 0 every line number separately). Core Lean only.
-/
namespace C04

/-! ### Facts about the specification -/

theorem threshold_le (p : Params) : threshold p ≤ 10000 := by
  unfold threshold; split <;> omega

private theorem cube_le (r : Int) (h : r ≤ 1290) : r * r * r ≤ 1290 * 1290 * 1290 := by
  by_cases h0 : 0 ≤ r
  · have h1 : r * r ≤ 1290 * 1290 := Int.mul_le_mul h h h0 (by omega)
    have h2 : 0 ≤ r * r := Int.mul_nonneg h0 h0
    exact Int.mul_le_mul h1 h h0 (by omega)
  · have hneg : r < 0 := by omega
    have h2 : 0 ≤ r * r := by
      have := Int.mul_nonneg (Int.le_of_lt (Int.neg_pos_of_neg hneg)) (Int.le_of_lt (Int.neg_pos_of_neg hneg))
      rwa [Int.neg_mul_neg] at this
    have h3 : r * r * r ≤ 0 := Int.mul_nonpos_of_nonneg_of_nonpos h2 (by omega)
    omega

theorem badness_le (t s : Int) : badness t s ≤ 10000 := by
  unfold badness
  by_cases h1 : t = 0
  · rw [if_pos h1]; omega
  · rw [if_neg h1]
    by_cases h2 : s ≤ 0
    · rw [if_pos h2]; omega
    · rw [if_neg h2]
      simp only
      generalize (if t ≤ 7230584 then t * 297 / s else if 1663497 ≤ s then t / (s / 297) else t) = r
      by_cases h3 : 1290 < r
      · rw [if_pos h3]; omega
      · rw [if_neg h3]
        have := cube_le r (by omega)
        generalize r * r * r = q at this
        omega

/-- A badness is at most 10000, or it is the overfull mark 10001. -/
theorem rate_bad (t : Totals) (w : Int) : (rate t w).1 ≤ 10000 ∨ (rate t w).1 = 10001 := by
  unfold rate
  simp only
  split
  · split
    · left; simp
    · left; exact badness_le _ _
  · split
    · right; rfl
    · left; exact badness_le _ _

theorem lineEval_inv {x : Inst} {a : Option Nat} {L b : Nat} {bad : Int} {g : Fit}
    (h : lineEval x a L b = some (bad, g)) :
    (breakInfo x b).isSome ∧ lt? a b = true ∧ b ≤ x.n ∧ forcedBetween x a b = false ∧
      rate (lineTotals x a b) (lineWidth x.p.widths L) = (bad, g) ∧ bad ≤ threshold x.p := by
  have hb := lineEval_break h
  unfold lineEval at h
  split at h
  · cases h
  · split at h
    · rename_i hc
      simp only at h
      split at h
      · rename_i hthr
        simp only [Option.some.injEq] at h
        refine ⟨hb, hc.1, hc.2.1, ?_, h, ?_⟩
        · simpa using hc.2.2
        · rw [h] at hthr; exact hthr
      · cases h
    · cases h

theorem run_pos_legal {x : Inst} {s : List Nat} {c : Int} {st : St} (h : run x {} s = some (c, st)) :
    st.pos = none ∨ ∃ b, st.pos = some b ∧ b ≤ x.n ∧ (breakInfo x b).isSome := by
  rcases List.eq_nil_or_concat s with rfl | ⟨s', b, rfl⟩
  · simp only [run, Option.some.injEq, Prod.mk.injEq] at h
    left; rw [← h.2]
  · rw [List.concat_eq_append, run_append_one] at h
    cases hr : run x {} s' with
    | none => simp [hr] at h
    | some r =>
      obtain ⟨c0, st0⟩ := r
      simp only [hr] at h
      cases hl : lineEval x st0.pos st0.L b with
      | none => simp [hl] at h
      | some r2 =>
        obtain ⟨bad, g⟩ := r2
        simp only [hl, Option.some.injEq, Prod.mk.injEq] at h
        right
        obtain ⟨hbi, _, hbn, _⟩ := lineEval_inv hl
        exact ⟨b, by rw [← h.2], hbn, hbi⟩

/-- A sequence of lines ending at break `i` is a shorter one extended by a feasible line. -/
theorem run_snoc_inv {x : Inst} {s : List Nat} {c : Int} {i L : Nat} {f : Fit}
    (h : run x {} s = some (c, ⟨some i, L, f⟩)) :
    ∃ s' c0 st0 bad, run x {} s' = some (c0, st0) ∧ s = s' ++ [i] ∧
      lineEval x st0.pos st0.L i = some (bad, f) ∧
      c = c0 + demerits x st0.pos st0.fit i bad f ∧ L = st0.L + 1 := by
  rcases List.eq_nil_or_concat s with rfl | ⟨s', b, rfl⟩
  · simp [run] at h
  · rw [List.concat_eq_append, run_append_one] at h
    cases hr : run x {} s' with
    | none => simp [hr] at h
    | some r =>
      obtain ⟨c0, st0⟩ := r
      simp only [hr] at h
      cases hl : lineEval x st0.pos st0.L b with
      | none => simp [hl] at h
      | some r2 =>
        obtain ⟨bad, g⟩ := r2
        simp only [hl, Option.some.injEq, Prod.mk.injEq, St.mk.injEq] at h
        obtain ⟨hc, hb, hL, hg⟩ := h
        subst hb hg
        exact ⟨s', c0, st0, bad, hr, List.concat_eq_append, hl, hc.symm, hL.symm⟩

theorem iabs_nonneg (a : Int) : 0 ≤ iabs a := by unfold iabs; split <;> omega

/-- Changing the previous fitness class changes the demerits of a line by at most `|adj|`. -/
theorem demerits_adj (x : Inst) (a : Option Nat) (f1 f2 : Fit) (b : Nat) (bad : Int) (g : Fit) :
    demerits x a f1 b bad g ≤ demerits x a f2 b bad g + iabs x.p.adjDemerits := by
  unfold demerits
  simp only
  generalize (if hyphAt x a = true ∧ b = x.n then _ else _ : Int) = d4
  unfold iabs
  split <;> split <;> split <;> omega

/-! ### Line classes -/

theorem lkey_succ {x : Inst} {a b : Nat} (h : lkey x a = lkey x b) : lkey x (a + 1) = lkey x (b + 1) := by
  unfold lkey at *
  simp only [Nat.min_def] at *
  split at h <;> split at h <;> split <;> split <;> omega

theorem overfull_lkey (x : Inst) (hW : 0 < x.p.widths.length) (a : Option Nat) (L b : Nat) :
    overfull x a L b = overfull x a (lkey x L) b := by
  unfold overfull
  rw [lineWidth_lkey x L hW]

theorem lkey_lt (x : Inst) (hW : 0 < x.p.widths.length) (L : Nat) : lkey x L < x.p.widths.length := by
  unfold lkey; simp only [Nat.min_def]; split <;> omega

theorem ckey_succ {x : Inst} {q : Int} {a b : Nat} (h : ckey x q a = ckey x q b) :
    ckey x q (a + 1) = ckey x q (b + 1) := by
  unfold ckey at *
  by_cases hq : q = 0
  · simp only [hq, if_true] at *; exact lkey_succ h
  · simp only [hq, if_false] at *; omega

theorem lineWidth_ckey (x : Inst) (q : Int) (hW : 0 < x.p.widths.length) {a b : Nat}
    (h : ckey x q a = ckey x q b) : lineWidth x.p.widths a = lineWidth x.p.widths b := by
  unfold ckey at h
  by_cases hq : q = 0
  · simp only [hq, if_true] at h
    rw [lineWidth_lkey x a hW, h, ← lineWidth_lkey x b hW]
  · simp only [hq, if_false] at h
    rw [h]

/-! ### Dominance -/

/-- Node `ν` dominates the feasible prefix ending in state `(pos, L, f)` with total `c`. -/
def Dominates (x : Inst) (q : Int) (ν : ANode) (pos : Option Nat) (L : Nat) (f : Fit) (c : Int) : Prop :=
  ν.pos = pos ∧ ckey x q ν.line = ckey x q L ∧
    ((ν.fit = f ∧ ν.total ≤ c) ∨ ν.total + iabs x.p.adjDemerits ≤ c)

/-- The state `(pos, L)` can still be extended past every breakpoint before `i`. -/
def Alive (x : Inst) (pos : Option Nat) (L : Nat) (i : Nat) : Prop :=
  ∀ b, lt? pos b = true → b < i → (breakInfo x b).isSome →
    forced x b = false ∧ overfull x pos L b = false

/-- Every feasible prefix that is still alive at `i` is dominated by an active node. -/
def DomInv (x : Inst) (q : Int) (i : Nat) (act : List ANode) : Prop :=
  ∀ s c pos L f, run x {} s = some (c, ⟨pos, L, f⟩) → lt? pos i = true → Alive x pos L i →
    ∃ ν, ν ∈ act ∧ Dominates x q ν pos L f c

theorem alive_mono {x : Inst} {pos : Option Nat} {L i : Nat} (h : Alive x pos L (i + 1)) :
    Alive x pos L i :=
  fun b h1 h2 h3 => h b h1 (by omega) h3

theorem lt?_of_succ {pos : Option Nat} {i : Nat} (h : lt? pos (i + 1) = true) (hne : pos ≠ some i) :
    lt? pos i = true := by
  cases pos with
  | none => rfl
  | some a =>
    simp [lt?] at h ⊢
    have : a ≠ i := fun e => hne (by rw [e])
    omega

/-- Over an index that is not a legal breakpoint nothing changes. -/
theorem domInv_skip {x : Inst} {q : Int} {i : Nat} {act : List ANode} (hbi : breakInfo x i = none)
    (h : DomInv x q i act) : DomInv x q (i + 1) act := by
  intro s c pos L f hrun hlt hal
  have hne : pos ≠ some i := by
    intro hp
    rcases run_pos_legal hrun with h0 | ⟨b, hb, _, hleg⟩
    · simp only at h0; rw [hp] at h0; cases h0
    · simp only at hb; rw [hp] at hb; cases hb; rw [hbi] at hleg; cases hleg
  exact h s c pos L f hrun (lt?_of_succ hlt hne) (alive_mono hal)

/-- Rating of the candidate line from a node that dominates a state equals the state's own. -/
theorem nodeRate_dom {x : Inst} {q : Int} (hW : 0 < x.p.widths.length) {i : Nat} {c : BCtx} {ν : ANode}
    (hc : CtxOK x i c) (hν : NodeInv x i ν) {pos : Option Nat} {L : Nat}
    (hp : ν.pos = pos) (hk : ckey x q ν.line = ckey x q L) :
    nodeRate x c ν = rate (lineTotals x pos i) (lineWidth x.p.widths L) := by
  rw [nodeRate_spec x c ν i hc.diffs hc.dw hν.ok.ref, hp, lineWidth_ckey x q hW hk]

/-- A prefix that ends with a feasible line `a → i` was alive at `i`. -/
theorem alive_of_lineEval {x : Inst} (hm : monotone x = true) (hW : 0 < x.p.widths.length)
    {s : List Nat} {c0 : Int} {st0 : St} (hrun : run x {} s = some (c0, st0))
    {i : Nat} {bad : Int} {g : Fit} (hl : lineEval x st0.pos st0.L i = some (bad, g)) :
    Alive x st0.pos st0.L i := by
  obtain ⟨hbi, hlt, hin, hnf, hrate, hthr⟩ := lineEval_inv hl
  intro b hab hbi' hleg
  constructor
  · unfold forcedBetween at hnf
    rw [List.any_eq_false] at hnf
    have := hnf b (List.mem_range.mpr hbi')
    simpa [hab] using this
  · cases hov : overfull x st0.pos st0.L b with
    | false => rfl
    | true =>
      exfalso
      rw [overfull_lkey x hW] at hov
      have ha : st0.pos = none ∨ ∃ a0, st0.pos = some a0 ∧ a0 ≤ x.n ∧ (breakInfo x a0).isSome :=
        run_pos_legal hrun
      have := monotone_spec x hm st0.pos (lkey x st0.L) b i ha (lkey_lt x hW _) hleg hbi hin hab hbi' hov
      rw [← overfull_lkey x hW] at this
      unfold overfull at this
      rw [hrate] at this
      simp only [beq_iff_eq] at this
      have := threshold_le x.p
      omega

theorem newNodes_mem {c : BCtx} {bw : Totals} {cs : Cands} {thr : Int} (g : Fit)
    (h : (cs g).total ≤ thr) :
    ({ ref := bw, fit := g, hyph := c.hyph, line := (cs g).line, total := (cs g).total,
       path := c.i :: (cs g).path } : ANode) ∈ newNodes c bw cs thr := by
  unfold newNodes
  rw [List.mem_filterMap]
  refine ⟨g, Fit.mem_all g, ?_⟩
  simp only
  rw [if_neg (by omega)]

/-- Line class of a candidate that came out of a round over a group containing `ν`. -/
theorem cand_lkey {x : Inst} {q : Int} {c : BCtx} {G : List ANode} (hsh : GroupShapeQ x q G) {ν : ANode}
    (hνG : ν ∈ G) {L0 : Nat} (hk : ckey x q ν.line = ckey x q L0) {g : Fit} {cd : Cand}
    (hcf : CandFrom x c G g cd) : ckey x q cd.line = ckey x q (L0 + 1) := by
  obtain ⟨μ, hμG, _, _, hcd⟩ := hcf
  rw [hcd]
  simp only
  rcases hsh with hsame | ⟨hq, hlate⟩
  · rw [hsame μ hμG ν hνG]; exact ckey_succ hk
  · have h1 := hlate μ hμG
    have h2 := hlate ν hνG
    subst hq
    unfold ckey at *
    simp only [if_true] at *
    unfold lkey at *
    simp only [Nat.min_def] at *
    split at hk <;> split at hk <;> split <;> split <;> omega

/-- The heart of Stage C: one call of `try_break` preserves dominance. -/
theorem domInv_break {x : Inst} {q : Int} (hm : monotone x = true) (hW : 0 < x.p.widths.length)
    (hB : PrefixBounded x) {i : Nat} {c : BCtx} (hc : CtxOK x i c) (A : List ANode)
    (hA : ∀ ν, ν ∈ A → NodeInv x i ν) (hs : SortedQ x q A) (h : DomInv x q i A) :
    DomInv x q (i + 1) (groupsRun x q c A.length A) := by
  intro s ctot pos L f hrun hlt hal
  by_cases hpi : pos = some i
  · -- the sequence ends with a line a → i
    subst hpi
    obtain ⟨s', c0, st0, bad, hrun0, _, hle, hct, hL⟩ := run_snoc_inv hrun
    obtain ⟨_, hlt0, _, _, hrate, hthr⟩ := lineEval_inv hle
    have hal0 := alive_of_lineEval hm hW hrun0 hle
    obtain ⟨ν, hνA, hpos, hkey, hdom⟩ := h s' c0 st0.pos st0.L st0.fit hrun0 hlt0 hal0
    obtain ⟨G, hνG, hGsub, hsh, hout⟩ := groupsRun_coverQ x q c A.length A (Nat.le_refl _) hs ν hνA
    have hνI := hA ν hνA
    have hnr : nodeRate x c ν = (bad, f) := by rw [nodeRate_dom hW hc hνI hpos hkey, hrate]
    have hallow : allowOf x c ν = true := by simp [allowOf, hnr, hthr]
    have htot : totOf x c ν ≤ ctot := by
      rw [totOf_spec hc hνI, hnr, hpos, hct]
      simp only
      rcases hdom with ⟨hf, ht⟩ | ht
      · rw [hf]; omega
      · have := demerits_adj x st0.pos ν.fit st0.fit i bad f
        omega
    have hbound : ctot < awfulBad := hB _ _ _ hrun
    -- the round over G
    have hle2 := scanC_le x c G (Cands.init, awfulBad) ν hνG hallow
    rw [hnr] at hle2
    simp only at hle2
    have hmin := scanC_minOK x c G _ minOK_init
    obtain ⟨hminle, gmin, hgmin⟩ := hmin
    have hmd : (scanC x c G (Cands.init, awfulBad)).2 < awfulBad := by omega
    have hnew : ∀ μ, μ ∈ newNodes c (breakWidth x c.i c.diffs) (scanC x c G (Cands.init, awfulBad)).1
        (pruneThreshold x.p.adjDemerits (scanC x c G (Cands.init, awfulBad)).2) →
        μ ∈ groupsRun x q c A.length A := by
      intro μ hμ
      apply hout
      unfold groupOut
      simp only [List.mem_append]
      right
      rw [if_pos hmd]; exact hμ
    have hfrom : ∀ g, ((scanC x c G (Cands.init, awfulBad)).1 g).total < awfulBad →
        ckey x q ((scanC x c G (Cands.init, awfulBad)).1 g).line = ckey x q (st0.L + 1) := by
      intro g hg
      rcases scanC_init_from x c G g with h0 | hcf
      · rw [h0] at hg; simp only at hg; omega
      · exact cand_lkey hsh hνG hkey hcf
    generalize hS : scanC x c G (Cands.init, awfulBad) = S at *
    by_cases hthr2 : (S.1 f).total ≤ pruneThreshold x.p.adjDemerits S.2
    · refine ⟨_, hnew _ (newNodes_mem f hthr2), ?_, ?_, Or.inl ⟨rfl, ?_⟩⟩
      · simp [ANode.pos, hc.i_eq]
      · simp only; rw [hL]; exact hfrom f (by omega)
      · simp only; omega
    · have hadj := iabs_nonneg x.p.adjDemerits
      have hsat : ¬ awfulBad - S.2 ≤ iabs x.p.adjDemerits := by
        intro hsat
        unfold pruneThreshold at hthr2
        rw [if_pos hsat] at hthr2
        omega
      have hthr3 : pruneThreshold x.p.adjDemerits S.2 = S.2 + iabs x.p.adjDemerits := by
        unfold pruneThreshold; rw [if_neg hsat]
      have hgm : (S.1 gmin).total ≤ pruneThreshold x.p.adjDemerits S.2 := by rw [hthr3]; omega
      refine ⟨_, hnew _ (newNodes_mem gmin hgm), ?_, ?_, Or.inr ?_⟩
      · simp [ANode.pos, hc.i_eq]
      · simp only; rw [hL]; exact hfrom gmin (by omega)
      · simp only; rw [hthr3] at hthr2; omega
  · -- the sequence ends before i and survives the breakpoint i
    have hlt' := lt?_of_succ hlt hpi
    obtain ⟨ν, hνA, hpos, hkey, hdom⟩ := h s ctot pos L f hrun hlt' (alive_mono hal)
    obtain ⟨hnf, hno⟩ := hal i hlt' (Nat.lt_succ_self i) (by rw [hc.bi]; rfl)
    obtain ⟨G, hνG, hGsub, hsh, hout⟩ := groupsRun_coverQ x q c A.length A (Nat.le_refl _) hs ν hνA
    refine ⟨ν, hout ν ?_, hpos, hkey, hdom⟩
    unfold groupOut
    simp only [List.mem_append]
    left
    unfold survivors
    rw [List.mem_filter]
    refine ⟨hνG, ?_⟩
    have hnr := nodeRate_dom hW hc (hA ν hνA) hpos hkey
    have hp : ¬ c.penalty = -10000 := by
      rw [forced_of_bi hc.bi] at hnf
      simpa using hnf
    have hb : ¬ 10000 < (nodeRate x c ν).1 := by
      rw [hnr]
      unfold overfull at hno
      simp only [beq_eq_false_iff_ne, ne_eq] at hno
      rcases rate_bad (lineTotals x pos i) (lineWidth x.p.widths L) with h1 | h1
      · omega
      · exact absurd h1 hno
    simp [deactOf, hp, hb]

/-! ### The main loop -/

structure OInv (x : Inst) (q : Int) (i : Nat) (st : LState) : Prop where
  linv : LInv x i st
  sorted : SortedQ x q st.active
  dom : DomInv x q i st.active

theorem step_oinv {x : Inst} (q : Int) (hd : discOK x = true) (hm : monotone x = true)
    (hW : 0 < x.p.widths.length) (hB : PrefixBounded x) (i : Nat) (hi : i ≤ x.n) (st : LState)
    (h : OInv x q i st) : OInv x q (i + 1) (step x q false st i) := by
  have hlin := step_inv hd q i hi st h.linv
  refine ⟨hlin, ?_, ?_⟩
  · cases hcl : (classify x i st).2 with
    | none =>
      rw [step_skip x q st i (Or.inl hcl), (classify_none x hd i st hi h.linv.basic hcl).2.2]
      exact h.sorted
    | some r =>
      obtain ⟨pen, hy, dw⟩ := r
      have hact := (classify_some x hd i st hi h.linv.basic pen hy dw hcl).2.2.2.1
      by_cases hp : 10000 ≤ pen
      · rw [step_skip x q st i (Or.inr ⟨pen, hy, dw, hcl, hp⟩), hact]
        exact h.sorted
      · rw [step_break x q st i pen hy dw hcl hp]
        simp only
        apply groupsRun_sortedQ x q _ _ _ (Nat.le_refl _)
        rw [hact]; exact h.sorted
  · cases hcl : (classify x i st).2 with
    | none =>
      obtain ⟨hbi, _, hact⟩ := classify_none x hd i st hi h.linv.basic hcl
      rw [step_skip x q st i (Or.inl hcl), hact]
      exact domInv_skip hbi h.dom
    | some r =>
      obtain ⟨pen, hy, dw⟩ := r
      obtain ⟨hraw, hdw, hdiffs, hact, _, _, _, _⟩ :=
        classify_some x hd i st hi h.linv.basic pen hy dw hcl
      by_cases hp : 10000 ≤ pen
      · rw [step_skip x q st i (Or.inr ⟨pen, hy, dw, hcl, hp⟩), hact]
        have hbi : breakInfo x i = none := by
          unfold breakInfo; rw [hraw]; simp only [if_pos hp]
        exact domInv_skip hbi h.dom
      · rw [step_break x q st i pen hy dw hcl hp]
        simp only
        have hc : CtxOK x i ⟨i, (classify x i st).1.diffs, dw, if pen ≤ -10000 then -10000 else pen, hy,
            (x.items[i]?).isNone⟩ := by
          refine ⟨rfl, hi, hdiffs, hdw, ?_, isNone_getElem?_iff x i hi⟩
          unfold breakInfo; rw [hraw]; simp only [if_neg hp]
          split <;> rfl
        rw [hact]
        exact domInv_break hm hW hB hc st.active h.linv.nodes h.sorted h.dom

theorem oinv_init (x : Inst) (q : Int) : OInv x q 0 {} := by
  refine ⟨linv_init x, ?_, ?_⟩
  · simp [SortedQ]
  · intro s c pos L f hrun hlt _
    cases pos with
    | some a => simp [lt?] at hlt
    | none =>
      have hs : s = [] := by
        rcases List.eq_nil_or_concat s with rfl | ⟨s', b, rfl⟩
        · rfl
        · exfalso
          rcases run_pos_legal hrun with h0 | ⟨b', hb', _⟩
          · rw [List.concat_eq_append, run_append_one] at hrun
            cases hr : run x {} s' with
            | none => simp [hr] at hrun
            | some r =>
              obtain ⟨c0, st0⟩ := r
              simp only [hr] at hrun
              cases hl : lineEval x st0.pos st0.L b with
              | none => simp [hl] at hrun
              | some r2 => obtain ⟨bad, g⟩ := r2; simp [hl] at hrun
          · simp at hb'
      subst hs
      simp only [run, Option.some.injEq, Prod.mk.injEq, St.mk.injEq] at hrun
      obtain ⟨hc, _, hL, hf⟩ := hrun
      refine ⟨{}, by simp, rfl, ?_, Or.inl ⟨?_, ?_⟩⟩
      · rw [← hL]
      · rw [← hf]
      · rw [← hc]; simp

theorem loop_oinv {x : Inst} (q : Int) (hd : discOK x = true) (hm : monotone x = true)
    (hW : 0 < x.p.widths.length) (hB : PrefixBounded x) (k : Nat) (hk : k ≤ x.n + 1) :
    OInv x q k ((List.range k).foldl (step x q false) {}) := by
  induction k with
  | zero => simpa using oinv_init x q
  | succ k ih =>
    rw [List.range_succ, List.foldl_append]
    simp only [List.foldl_cons, List.foldl_nil]
    exact step_oinv q hd hm hW hB k (by omega) _ (ih (by omega))

/-- At the end every feasible complete sequence is matched or beaten by an active node of its
line class. -/
theorem final_dominated {x : Inst} (q : Int) (hd : discOK x = true) (hm : monotone x = true)
    (hW : 0 < x.p.widths.length) (hB : PrefixBounded x) (s : List Nat) (d : Int)
    (h : total x s = some d) :
    ∃ ν, ν ∈ (mainLoop x q false).active ∧ ckey x q ν.line = ckey x q s.length ∧ ν.total ≤ d := by
  have hinv := loop_oinv q hd hm hW hB (x.n + 1) (Nat.le_refl _)
  unfold total at h
  cases hr : run x {} s with
  | none => simp [hr] at h
  | some r =>
    obtain ⟨c, st⟩ := r
    simp only [hr] at h
    split at h
    · rename_i hpos
      simp only [Option.some.injEq] at h
      subst h
      obtain ⟨pos, L, f⟩ := st
      simp only at hpos
      subst hpos
      have hal : Alive x (some x.n) L (x.n + 1) := by
        intro b h1 h2 _
        simp [lt?] at h1
        omega
      obtain ⟨ν, hν, _, hkey, hdom⟩ := hinv.dom s c (some x.n) L f hr (by simp [lt?]) hal
      have hL : L = s.length := by have := run_L hr; simpa using this
      refine ⟨ν, hν, by rw [← hL]; exact hkey, ?_⟩
      have := iabs_nonneg x.p.adjDemerits
      rcases hdom with ⟨_, h1⟩ | h1 <;> omega
    · cases h

end C04
