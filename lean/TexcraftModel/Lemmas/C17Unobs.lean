import TexcraftModel.Lemmas.C17Round
/-! Two mutants of the sweep (mutants/C17: 02, 08) change the code without being observable
through print ∘ read (C17). -/
namespace C17

/-- The reader's sign loop with mutant 08 (`negative = true` instead of `negative = !negative`). -/
def readSignsT : List Char → Bool → Bool × List Char
  | c :: t, neg =>
    if c = '+' ∨ c = ' ' then readSignsT t neg
    else if c = '-' then readSignsT t true
    else (neg, c :: t)
  | [], neg => (neg, [])

theorem readSignsT_digit (c : Char) (t : List Char) (neg : Bool) (h : isDig c = true) :
    readSignsT (c :: t) neg = (neg, c :: t) := by
  have h1 : c ≠ ' ' := by intro e; subst e; revert h; decide
  have h2 : c ≠ '+' := by intro e; subst e; revert h; decide
  have h3 : c ≠ '-' := by intro e; subst e; revert h; decide
  simp [readSignsT, h1, h2, h3]

/-- On every printed fix_word the mutated sign loop decides exactly like the real one (a
printed number has at most one minus sign), so print ∘ read cannot tell them apart. -/
theorem signs_mutant_same_on_printed (v : Int) (hlo : -2147483648 < v) (hhi : v ≤ 2147483647) :
    readSignsT (printFix v) false = readSigns (printFix v) false := by
  obtain ⟨c, t, hd, hc, _, _⟩ := read_unsigned (v.natAbs / 1048576) (by omega)
    ((v.natAbs % 1048576 : Nat) : Int) (by omega) (by omega)
  have hp := printFix_eq v
  by_cases hv : v < 0
  · simp only [hv, if_true, hd, List.cons_append, List.nil_append] at hp
    rw [hp]
    have e1 : ∀ rest, readSigns ('-' :: c :: rest) false = (true, c :: rest) := by
      intro rest
      rw [readSigns]
      simpa using readSigns_digit c rest true hc
    have e2 : ∀ rest, readSignsT ('-' :: c :: rest) false = (true, c :: rest) := by
      intro rest
      rw [readSignsT]
      simpa using readSignsT_digit c rest true hc
    rw [e1, e2]
  · simp only [hv, if_false, hd, List.cons_append, List.nil_append] at hp
    rw [hp, readSigns_digit c _ false hc, readSignsT_digit c _ false hc]

theorem signs_mutant_same_at_min :
    readSignsT (printFix (-2147483648)) false = readSigns (printFix (-2147483648)) false := by decide

end C17
