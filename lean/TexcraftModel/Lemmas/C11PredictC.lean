/-
C11 — `predict`, part C: the second trip reproduces the first (`predict (predict b) = predict b`).
-/
import TexcraftModel.Model.C05
import TexcraftModel.Model.C11
import TexcraftModel.Model.C11Bridge
import TexcraftModel.Model.C11Norm
import TexcraftModel.Model.C11Words
import TexcraftModel.Model.C11Predict
import TexcraftModel.Lemmas.C11Pack
import TexcraftModel.Lemmas.C11Boundary
import TexcraftModel.Lemmas.C11Kerns
import TexcraftModel.Lemmas.C11Rule
import TexcraftModel.Lemmas.C11Words
import TexcraftModel.Lemmas.C11Norm
import TexcraftModel.Lemmas.C11NormReach
import TexcraftModel.Lemmas.C11NormPack
import TexcraftModel.Lemmas.C11Parse
import TexcraftModel.Lemmas.C11PredictA
import TexcraftModel.Lemmas.C11PredictB

namespace C11

/-! ### `reachable_array` depends on the marks as a set, and on the words through `next` only -/

theorem reachFrom_congr : ∀ (l : List Instr) (m1 m2 : List Nat), (∀ x, x ∈ m1 ↔ x ∈ m2) →
    reachFrom m1 l = reachFrom m2 l := by
  intro l
  induction l with
  | nil => intro _ _ _; rfl
  | cons i rest ih =>
    intro m1 m2 h
    rw [reachFrom_cons, reachFrom_cons]
    have hc : m1.contains 0 = m2.contains 0 := by
      cases h1 : m1.contains 0 <;> cases h2 : m2.contains 0 <;> simp_all [List.contains_iff_mem]
    have hsh : ∀ x, x ∈ (m1.filter (· ≠ 0)).map (· - 1) ↔ x ∈ (m2.filter (· ≠ 0)).map (· - 1) := by
      intro x
      simp only [List.mem_map, List.mem_filter, h]
    rw [hc]
    congr 1
    apply ih
    intro x
    split
    · cases i.next with
      | none => exact hsh x
      | some inc => simp only [List.mem_cons, hsh x]
    · exact hsh x

theorem reachFrom_next : ∀ (l l' : List Instr) (m : List Nat), l.map (·.next) = l'.map (·.next) →
    reachFrom m l = reachFrom m l' := by
  intro l
  induction l with
  | nil => intro l' m h; cases l' <;> simp_all
  | cons a t ih =>
    intro l' m h
    cases l' with
    | nil => simp at h
    | cons b t' =>
      simp only [List.map_cons, List.cons.injEq] at h
      rw [reachFrom_cons, reachFrom_cons, h.1]
      congr 1
      exact ih t' _ h.2

/-! ### Strictly ascending label lists are determined by their map -/

theorem lookup_head_lt {k : Nat} : ∀ {l : List (Nat × Nat)}, (∀ y ∈ l.map (·.1), k < y) → lookup l k = none := by
  intro l h
  apply lookup_none_of_not_key
  intro hk
  have := h k hk
  omega

theorem sorted_lookup_ext : ∀ (l1 l2 : List (Nat × Nat)), (l1.map (·.1)).Pairwise (· < ·) →
    (l2.map (·.1)).Pairwise (· < ·) → (∀ c, lookup l1 c = lookup l2 c) → l1 = l2 := by
  intro l1
  induction l1 with
  | nil =>
    intro l2 _ _ h
    cases l2 with
    | nil => rfl
    | cons y t => have := h y.1; simp [lookup] at this
  | cons x t ih =>
    intro l2 h1 h2 h
    cases l2 with
    | nil => have := h x.1; simp [lookup] at this
    | cons y t2 =>
      simp only [List.map_cons, List.pairwise_cons] at h1 h2
      obtain ⟨k1, v1⟩ := x
      obtain ⟨k2, v2⟩ := y
      have hk : k1 = k2 := by
        rcases Nat.lt_trichotomy k1 k2 with hlt | heq | hgt
        · have := h k1
          have hne : ¬ k2 = k1 := by omega
          simp only [lookup, if_true, hne, if_false] at this
          rw [lookup_head_lt (l := t2) (fun y hy => by have := h2.1 y hy; omega)] at this
          simp at this
        · exact heq
        · have := h k2
          have hne : ¬ k1 = k2 := by omega
          simp only [lookup, if_true, hne, if_false] at this
          rw [lookup_head_lt (l := t) (fun y hy => by have := h1.1 y hy; omega)] at this
          simp at this
      subst hk
      have hv : v1 = v2 := by have := h k1; simpa [lookup] using this
      subst hv
      congr 1
      apply ih t2 h1.2 h2.2
      intro c
      have := h c
      simp only [lookup] at this
      by_cases hc : k1 = c
      · subst hc
        rw [lookup_head_lt (l := t) (fun y hy => h1.1 y hy), lookup_head_lt (l := t2) (fun y hy => h2.1 y hy)]
      · simpa [hc] using this

/-! ### `pack` does not look at the body; `packKerns`, `flagTrue` and the passes -/

theorem pack_of_loop (p : Prog) (es : List (Nat × Nat)) (st : LoopSt) (pe : List (Nat × Nat))
    (h1 : packLoop p.rb.isSome 0 (descDistinct (es.map (·.2))) (initSt p.rb.isSome) = some st)
    (h2 : mapEntries st.assign es = some pe) :
    pack p es = some (⟨frontOf p st ++ p.instrs ++ postOf p st, p.lb.map (· + st.offset), p.rb⟩, pe) := by
  obtain ⟨hg, _⟩ := packLoop_zero _ _ _ (descDistinct_sorted _) h1
  have hlen := frontOf_length p st hg
  have h1' : packLoop p.rb.isSome 0 (descDistinct (es.map (·.2)))
      { offset := if p.rb.isSome then 1 else 0, redirects := [], assign := [], popped := false } = some st := by
    simpa [initSt] using h1
  simp only [pack, h1', h2]
  have hrot : rotateRight (p.instrs ++ (if (p.rb.isSome && !st.popped) = true then [carrier (p.rb.getD 0)] else []) ++
        List.map (redirectInstr (p.rb.getD 0) st.offset) st.redirects) st.offset
      = frontOf p st ++ p.instrs := by
    have hr := rotateRight_append p.instrs (frontOf p st)
    rw [hlen] at hr
    rw [List.append_assoc]
    exact hr
  rw [hrot]
  cases hlb : p.lb <;> simp [postOf, hlb]

theorem packKerns_append (ks : List Int) (a b : List Instr) :
    packKerns ks (a ++ b) = packKerns ks a ++ packKerns ks b := by simp [packKerns]

theorem packKerns_redirects (ks : List Int) : ∀ (l : List Instr), (∀ i ∈ l, i.op.isRedirect = true) →
    packKerns ks l = l := by
  intro l h
  simp only [packKerns]
  conv => rhs; rw [← List.map_id l]
  apply List.map_congr_left
  intro i hi
  have := h i hi
  obtain ⟨n, r, op⟩ := i
  cases op <;> simp_all [resolve, Op.isRedirect]

theorem packKerns_flagTrue (ks : List Int) (l : List Instr) :
    packKerns ks (l.map flagTrue) = (packKerns ks l).map flagTrue := by
  simp only [packKerns, List.map_map]
  apply List.map_congr_left
  intro i _
  obtain ⟨n, r, op⟩ := i
  cases op <;> simp [flagTrue, resolve]

theorem unpackEntry_packKerns (ks : List Int) (l : List Instr) (e : Nat) :
    unpackEntry (packKerns ks l) e = unpackEntry l e := by
  simp only [unpackEntry, packKerns, List.getElem?_map, List.length_map]
  cases hl : l[e]? with
  | none => rfl
  | some i =>
    obtain ⟨n, r, op⟩ := i
    cases op <;> simp [resolve]

theorem unpackAll_packKerns (ks : List Int) (l : List Instr) (pe : List (Nat × Nat)) :
    unpackAll (packKerns ks l) pe = unpackAll l pe := by
  simp only [unpackAll, unpackEntry_packKerns]

theorem flagTrue_next (l : List Instr) : (l.map flagTrue).map (·.next) = l.map (·.next) := by
  simp [List.map_map, Function.comp_def, flagTrue]

theorem flagTrue_isRedirect (i : Instr) : (flagTrue i).op.isRedirect = i.op.isRedirect := by
  obtain ⟨n, r, op⟩ := i
  cases op <;> simp [flagTrue, Op.isRedirect]

theorem flagTrue_step (i : Instr) (h : i.op.isRedirect = false) : flagTrue i = i := by
  obtain ⟨n, r, op⟩ := i
  cases op <;> simp_all [flagTrue, Op.isRedirect]

theorem compact_flagTrue : ∀ (l : List Instr) (fl : List Bool), compact (l.map flagTrue) fl = compact l fl := by
  intro l
  induction l with
  | nil => intro fl; rfl
  | cons i rest ih =>
    intro fl
    cases fl with
    | nil => rfl
    | cons f fl' =>
      simp only [List.map_cons, compact, flagTrue_isRedirect, ih]
      by_cases h : i.op.isRedirect = true
      · simp [h]
      · have h' : i.op.isRedirect = false := by simpa using h
        rw [flagTrue_step i h']

theorem posOf_flagTrue : ∀ (l : List Instr) (fl : List Bool) (e : Nat), posOf (l.map flagTrue) fl e = posOf l fl e := by
  intro l
  induction l with
  | nil => intro fl e; rfl
  | cons i rest ih =>
    intro fl e
    cases fl with
    | nil => rfl
    | cons f fl' =>
      cases e with
      | zero => rfl
      | succ k => simp only [List.map_cons, posOf, flagTrue_isRedirect, ih]

theorem noReachRedirect_flagTrue : ∀ (l : List Instr) (fl : List Bool),
    noReachRedirect (l.map flagTrue) fl = noReachRedirect l fl := by
  intro l
  induction l with
  | nil => intro fl; rfl
  | cons i rest ih =>
    intro fl
    cases fl with
    | nil => rfl
    | cons f fl' => simp only [List.map_cons, noReachRedirect, flagTrue_isRedirect, ih]

theorem reachable_flagTrue (l : List Instr) (lb rb : Option Nat) (es : List (Nat × Nat)) :
    reachable ⟨l.map flagTrue, lb, rb⟩ es = reachable ⟨l, lb, rb⟩ es := by
  simp only [reachable, startMarks, List.length_map]
  exact reachFrom_next _ _ _ (flagTrue_next l)

theorem normalise_flagTrue (l : List Instr) (lb rb : Option Nat) (es : List (Nat × Nat)) :
    normalise ⟨l.map flagTrue, lb, rb⟩ es = normalise ⟨l, lb, rb⟩ es := by
  simp only [normalise, reachable_flagTrue, compact_flagTrue, posOf_flagTrue]

/-! ### The second trip -/

theorem rawRb_encode (rb : Option Nat) (l : List Instr) (ws : List Word)
    (hr : ∀ i ∈ l, rightOk rb i = true) (h : l.mapM (encodeWord rb) = some ws) : rawRb ws = readRb rb l := by
  cases l with
  | nil => simp at h; subst h; rfl
  | cons a t =>
    rw [List.mapM_cons] at h
    cases ha : encodeWord rb a with
    | none => simp [ha] at h
    | some w =>
      cases ht : t.mapM (encodeWord rb) with
      | none => simp [ha, ht] at h
      | some ws' =>
        simp only [ha, ht, Option.pure_def, Option.bind_eq_bind, Option.bind_some, Option.some.injEq] at h
        subst h
        have hok := encodeWord_ok ha
        have h255 := skip255_encode rb a w hok ha
        have hra := hr a (List.mem_cons_self ..)
        simp only [rawRb, readRb]
        by_cases hs : skip255 rb a = true
        · have hb : w.b0 = 255 := h255.mpr hs
          simp only [hb, if_true, hs, Option.some.injEq]
          have he' := encodeWord_raw ha
          obtain ⟨n, r, op⟩ := a
          cases op with
          | kern k => simp [skip255] at hs
          | kernAt k => simp [skip255] at hs
          | lig c q => simp [skip255] at hs
          | redirect u flag =>
            simp only [encodeRaw, Option.some.injEq] at he'
            subst he'
            cases flag <;> cases rb <;> simp_all [rightOk, skip255]
        · have hb : ¬ w.b0 = 255 := fun hb => hs (h255.mp hb)
          simp [hb, hs]

theorem readLb_body (rb : Option Nat) (F I : List Instr) (hI : I ≠ []) (hnr : noRedirect I = true) :
    readLb rb (F ++ I) = none := by
  have hlast : (F ++ I).getLast? = I.getLast? := by
    rw [List.getLast?_append]
    cases hl : I.getLast? with
    | none => exact absurd (List.getLast?_eq_none_iff.mp hl) hI
    | some x => simp
  simp only [readLb, hlast]
  cases hl : I.getLast? with
  | none => rfl
  | some x =>
    have := skip255_of_not_redirect (rb := rb) (not_redirect_of_mem hnr (List.mem_of_getLast? hl))
    simp [this]

theorem plainMarks_mem {p : Prog} {es1 es2 : List (Nat × Nat)} (h : ∀ ce, ce ∈ es1 ↔ ce ∈ es2) :
    ∀ x, x ∈ plainMarks p es1 ↔ x ∈ plainMarks p es2 := by
  intro x
  simp only [plainMarks, List.mem_append, List.mem_map]
  constructor
  · rintro (⟨ce, hce, rfl⟩ | hx)
    · exact Or.inl ⟨ce, (h ce).mp hce, rfl⟩
    · exact Or.inr hx
  · rintro (⟨ce, hce, rfl⟩ | hx)
    · exact Or.inl ⟨ce, (h ce).mpr hce, rfl⟩
    · exact Or.inr hx

/-- The PL-level program of the trip has every step reachable from its (sorted) labels. -/
theorem plOf_allReach {b : RawLK} (h : rawOk b = true) : AllReach (plOf b).1 (plOf b).2 := by
  obtain ⟨h1, hl, hks, _, _, _⟩ := plOf_facts h
  obtain ⟨_, hnwf, hnd⟩ := rawOk_parts h
  obtain ⟨_, hall, hkN⟩ := normalise_wf_allReach hnwf
  have hkN' : ((normalise (preOf b).1 (preOf b).2).2.map (·.1)).Nodup := by rw [hkN]; exact hnd
  simp only [AllReach] at hall ⊢
  rw [h1]
  rw [← hall]
  apply reachFrom_congr
  rw [← h1]
  have hp : ∀ x, x ∈ plainMarks (plOf b).1 (plOf b).2 ↔ x ∈ plainMarks (plOf b).1 (normalise (preOf b).1 (preOf b).2).2 := by
    apply plainMarks_mem
    intro ce
    rw [← lookup_iff_mem hks, ← lookup_iff_mem hkN', hl]
  intro x
  rw [hp x, h1]

/-- The PL-level program of the second trip is the PL-level program of the first. -/
theorem plOf_predict {b b1 : RawLK} (h : rawOk b = true) (hp : predict b = some b1) : plOf b1 = plOf b := by
  obtain ⟨_, _, hks, hwf, hnk, _⟩ := plOf_facts h
  have hall := plOf_allReach h
  have hasc : ((plOf b).2.map (·.1)).Pairwise (· < ·) := by
    obtain ⟨_, hnwf, hnd⟩ := rawOk_parts h
    obtain ⟨_, _, _, hnr⟩ := nwf_parts hnwf
    simp only [plOf]
    exact keys_sortByChar _ (keys_printParse (es := (preOf b).2) hnr)
  simp only [predict] at hp
  split at hp
  · simp at hp
  · rename_i P pe hpack
    split at hp
    · simp at hp
    · rename_i ws hm
      simp only [Option.some.injEq] at hp
      subst hp
      -- names
      generalize hq : plOf b = q at *
      obtain ⟨⟨I, lb, rb⟩, esS⟩ := q
      simp only at hpack hm hks hwf hnk hall hasc ⊢
      have hwfu := wf_unpackKerns hwf hnk
      obtain ⟨st, hloop, hg, _, hme, hP, hlen⟩ := pack_shape hpack
      obtain ⟨hnrI, hclI, hentI, hlbI⟩ := wf_parts hwf
      -- the same pack on the body with kern values inline
      have hpack2 := pack_of_loop ⟨I, lb, rb⟩ esS st pe hloop hme
      have hF : frontOf ⟨(unpackKerns I).1, lb, rb⟩ st = frontOf ⟨I, lb, rb⟩ st := rfl
      have hQ : postOf ⟨(unpackKerns I).1, lb, rb⟩ st = postOf ⟨I, lb, rb⟩ st := rfl
      have hFr := frontOf_redirect ⟨I, lb, rb⟩ st
      have hQr : ∀ i ∈ postOf ⟨I, lb, rb⟩ st, i.op.isRedirect = true := by
        intro i hi
        simp only [postOf] at hi
        split at hi
        · simp at hi
        · simp only [List.mem_singleton] at hi; subst hi; rfl
      have hbody : packKerns (unpackKerns I).2 P.instrs =
          frontOf ⟨I, lb, rb⟩ st ++ I ++ postOf ⟨I, lb, rb⟩ st := by
        rw [hP]
        simp only [hF, hQ, packKerns_append, packKerns_redirects _ _ hFr, packKerns_redirects _ _ hQr,
          C11.kerns_roundtrip I hnk]
      have hrk := rightOk_pack hpack hwfu
      have hdec : ws.map decodeWord = P.instrs.map flagTrue := mapM_encode_decode P.rb _ _ hrk hm
      have hPrb : P.rb = rb := by rw [hP]
      have hb := pack_boundary hpack hwfu
      simp only [boundaryOk, Bool.and_eq_true, beq_iff_eq] at hb
      have hrawRb : rawRb ws = rb := by
        rw [rawRb_encode P.rb _ _ hrk hm]; exact hb.1.2
      have hrawLb : rawLb ws = readLb P.rb P.instrs := rawLb_encode P.rb _ _ hm
      -- the program tftopl starts from on the second trip
      have hpre : preOf ⟨ws, pe, (unpackKerns I).2⟩ =
          (⟨(frontOf ⟨I, lb, rb⟩ st ++ I ++ postOf ⟨I, lb, rb⟩ st).map flagTrue, readLb P.rb P.instrs, rb⟩,
           unpackAll (frontOf ⟨I, lb, rb⟩ st ++ I ++ postOf ⟨I, lb, rb⟩ st) pe) := by
        simp only [preOf, decodeRaw, hdec, packKerns_flagTrue, hbody, hrawLb, hrawRb, unpackAll_flagTrue]
        rw [← hbody, unpackAll_packKerns]
      simp only [plOf, hpre]
      by_cases hI : I = []
      · -- no lig/kern program at all: at most the boundary-char carrier is written
        subst hI
        have hes : esS = [] := by
          cases esS with
          | nil => rfl
          | cons x t => have := hentI x (List.mem_cons_self ..); simp at this
        have hlb0 : lb = none := by
          cases lb with
          | none => rfl
          | some l => have := hlbI l rfl; simp at this
        subst hes; subst hlb0
        have hpk : pack ⟨[], none, rb⟩ [] = some (⟨(if rb.isSome then [carrier (rb.getD 0)] else []), none, rb⟩, []) := by
          cases rb <;> simp [pack, descDistinct, packLoop, mapEntries, rotateRight]
        rw [hpk] at hpack2
        simp only [Option.some.injEq, Prod.mk.injEq] at hpack2
        obtain ⟨hP2, hpe⟩ := hpack2
        subst hpe
        have hA : frontOf ⟨[], none, rb⟩ st ++ [] ++ postOf ⟨[], none, rb⟩ st =
            (if rb.isSome then [carrier (rb.getD 0)] else []) := by
          have := congrArg Prog.instrs hP2; simpa using this.symm
        have hPi : P.instrs = (if rb.isSome then [carrier (rb.getD 0)] else []) := by
          rw [hP]; simpa [unpackKerns, unpackKernsAux] using hA
        rw [hA, hPi, hPrb]
        cases rb with
        | none => simp [plOf, printParse, reachable, startMarks, reachFrom, printItems, parseItems, fixLast,
            sortByChar, unpackAll, readLb]
        | some c => simp [plOf, printParse, reachable, startMarks, reachFrom, printItems, parseItems, fixLast,
            sortByChar, unpackAll, readLb, carrier, flagTrue, skip255]
      · -- the left-boundary entry point the reader finds is the packed program's field
        have hlbeq : readLb P.rb P.instrs = lb.map (· + st.offset) := by
          cases hlbc : lb with
          | some l0 =>
            have h2 := hb.2
            simp only [hlbc] at h2
            cases hrl : readLb P.rb P.instrs with
            | none => simp [hrl] at h2
            | some l' =>
              simp only [hrl, Bool.and_eq_true, beq_iff_eq] at h2
              rw [← h2.1, hP, hlbc]
          | none =>
            rw [hP]
            simp only [postOf, hlbc, List.append_nil]
            apply readLb_body
            · intro hnil
              apply hI
              have := congrArg List.length hnil
              have hsh := congrArg List.length (unpackKerns_shape I)
              simp only [List.length_map] at hsh
              rw [List.length_nil] at this
              exact List.length_eq_zero_iff.mp (by omega)
            · exact (wf_parts hwfu).1
        rw [hlbeq]
        -- second trip = normalise of the packed table = the PL-level program
        have hN := normalise_pack_aux hpack2 hwf hall
        have hnwf2 := pack_nwf_aux hpack2 hwf
        simp only at hN hnwf2
        obtain ⟨_, _, _, hnr2⟩ := nwf_parts hnwf2
        have hkpe : (pe.map (·.1)).Nodup := by rw [(mapEntries_spec hme).1]; exact hks
        have hk1 := keys_unpackAll (frontOf ⟨I, lb, rb⟩ st ++ I ++ postOf ⟨I, lb, rb⟩ st) pe hkpe
        have hnr1 : noReachRedirect ((frontOf ⟨I, lb, rb⟩ st ++ I ++ postOf ⟨I, lb, rb⟩ st).map flagTrue)
            (reachable ⟨(frontOf ⟨I, lb, rb⟩ st ++ I ++ postOf ⟨I, lb, rb⟩ st).map flagTrue, lb.map (· + st.offset), rb⟩
              (unpackAll (frontOf ⟨I, lb, rb⟩ st ++ I ++ postOf ⟨I, lb, rb⟩ st) pe)) = true := by
          rw [noReachRedirect_flagTrue, reachable_flagTrue]; exact hnr2
        obtain ⟨hq1, hq2⟩ := printParse_normalise (p := ⟨_, lb.map (· + st.offset), rb⟩) hnr1 hk1
        have hkpp := keys_printParse (p := ⟨_, lb.map (· + st.offset), rb⟩) (es := unpackAll _ pe) hnr1
        rw [normalise_flagTrue, hN] at hq1 hq2
        rw [Prod.mk.injEq]
        refine ⟨hq1, ?_⟩
        apply sorted_lookup_ext _ _ (keys_sortByChar _ hkpp) hasc
        intro c
        rw [lookup_sortByChar hkpp c, hq2 c]

/-- **Idempotence at byte level**: the second trip writes the same lig/kern sub-file. -/
theorem predict_idem {b b1 : RawLK} (h : rawOk b = true) (hp : predict b = some b1) : predict b1 = some b1 := by
  have hpl := plOf_predict h hp
  have : predict b1 = predict b := by simp only [predict, hpl]
  rw [this, hp]

end C11
