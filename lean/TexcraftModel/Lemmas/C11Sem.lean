/-
C11 — the driver's semantic comparison `firstRuleDiff` is a proved checker: if it finds no
difference on the pairs it searches, the two rule functions agree on *every* pair.
-/
import TexcraftModel.Model.C05
import TexcraftModel.Model.C11Bridge

namespace C11

theorem mem_dedup {α : Type} [DecidableEq α] (x : α) : ∀ (l : List α), x ∈ dedup l ↔ x ∈ l := by
  intro l
  induction l with
  | nil => simp [dedup]
  | cons a t ih =>
    simp only [dedup]
    split
    · rename_i ha
      constructor
      · intro h; exact List.mem_cons_of_mem _ (ih.mp h)
      · intro h
        rcases List.mem_cons.mp h with rfl | h
        · exact ha
        · exact ih.mpr h
    · simp only [List.mem_cons, ih]

theorem findInstr_some (r : Nat) (l : List C05.Instr) :
    ∀ e i, C05.findInstr r e l = some i → i.right = r ∧ i ∈ l := by
  induction l with
  | nil => intro e i h; simp [C05.findInstr] at h
  | cons a rest ih =>
    intro e i h
    cases e with
    | zero =>
      simp only [C05.findInstr] at h
      split at h
      · rename_i hr
        simp only [Option.some.injEq] at h
        subst h
        exact ⟨hr, List.mem_cons_self ..⟩
      · cases hn : a.next with
        | none => simp [hn] at h
        | some inc =>
          simp only [hn] at h
          obtain ⟨h1, h2⟩ := ih inc i h
          exact ⟨h1, List.mem_cons_of_mem _ h2⟩
    | succ s =>
      simp only [C05.findInstr] at h
      obtain ⟨h1, h2⟩ := ih s i h
      exact ⟨h1, List.mem_cons_of_mem _ h2⟩

/-- A pair whose right character occurs in no instruction has no rule. -/
theorem rule_none_of_right (p : C05.Program) (l : Option Nat) (r : Nat) (h : r ∉ rights p) :
    C05.rule p l r = none := by
  simp only [C05.rule, C05.rawRule]
  cases C05.entryOf p l with
  | none => rfl
  | some e =>
    simp only
    cases hf : C05.findInstr r e p.instrs with
    | none => rfl
    | some i =>
      exfalso
      obtain ⟨h1, h2⟩ := findInstr_some r p.instrs e i hf
      apply h
      simp only [rights, List.mem_map]
      exact ⟨i, h2, h1⟩

/-- A left character without an entry point has no rule. -/
theorem rule_none_of_left (p : C05.Program) (l : Option Nat) (r : Nat) (h : l ∉ lefts p) :
    C05.rule p l r = none := by
  cases l with
  | none => simp [lefts] at h
  | some c =>
    simp only [C05.rule, C05.rawRule, C05.entryOf]
    cases hf : p.entries.find? (fun x => x.1 = c) with
    | none => rfl
    | some ce =>
      exfalso
      apply h
      have hm := List.mem_of_find?_eq_some hf
      have hc := List.find?_some hf
      simp only [decide_eq_true_eq] at hc
      simp only [lefts, List.mem_cons, List.mem_map]
      exact Or.inr ⟨ce, hm, by rw [hc]⟩

/-- **The `sem` check of the driver is sound**: no difference found on the searched pairs
means the two programs have the same rule on every pair and boundary. -/
theorem firstRuleDiff_sound (p q : C05.Program) (h : firstRuleDiff p q = none) :
    ∀ (l : Option Nat) (r : Nat), C05.rule p l r = C05.rule q l r := by
  intro l r
  simp only [firstRuleDiff, List.findSome?_eq_none_iff, Option.map_eq_none_iff,
    List.find?_eq_none] at h
  by_cases hl : l ∈ dedup (lefts p ++ lefts q)
  · by_cases hr : r ∈ dedup (rights p ++ rights q)
    · have := h l hl r hr
      simpa using this
    · rw [mem_dedup, List.mem_append] at hr
      rw [rule_none_of_right p l r (fun hh => hr (Or.inl hh)),
        rule_none_of_right q l r (fun hh => hr (Or.inr hh))]
  · rw [mem_dedup, List.mem_append] at hl
    rw [rule_none_of_left p l r (fun hh => hl (Or.inl hh)),
      rule_none_of_left q l r (fun hh => hl (Or.inr hh))]

end C11
