import TexcraftModel.Model.C06
import TexcraftModel.Model.C06Spec
/-!
C06 — helper lemmas about the numeric kernels (no tables here; see `Lemmas/C06Frac.lean`,
`Tables/C06*.lean`, `Lemmas/C06Print.lean`).
-/
namespace C06

/-- Knuth's 15-bit-halves computation is exact division. -/
theorem knuth_core (X n d : Int) (hX : 0 ≤ X) (hn : 0 ≤ n) (hd : 0 < d) :
    (X * n) / d = 32768 * (((X / 32768) * n + ((X % 32768) * n) / 32768) / d)
        + ((((X / 32768) * n + ((X % 32768) * n) / 32768) % d) * 32768 + ((X % 32768) * n) % 32768) / d
    ∧ (X * n) % d
        = ((((X / 32768) * n + ((X % 32768) * n) / 32768) % d) * 32768 + ((X % 32768) * n) % 32768) % d
    ∧ ((((X / 32768) * n + ((X % 32768) * n) / 32768) % d) * 32768 + ((X % 32768) * n) % 32768) / d < 32768
    ∧ 0 ≤ ((((X / 32768) * n + ((X % 32768) * n) / 32768) % d) * 32768 + ((X % 32768) * n) % 32768) / d
    ∧ 0 ≤ ((X / 32768) * n + ((X % 32768) * n) / 32768) / d := by
  have hXn : X * n = 32768 * ((X / 32768) * n) + (X % 32768) * n := by
    have : X = 32768 * (X / 32768) + X % 32768 := by omega
    calc X * n = (32768 * (X / 32768) + X % 32768) * n := by rw [← this]
      _ = 32768 * ((X / 32768) * n) + (X % 32768) * n := by rw [Int.add_mul, Int.mul_assoc]
  have hA : 0 ≤ (X / 32768) * n := Int.mul_nonneg (by omega) hn
  have hB : 0 ≤ (X % 32768) * n := Int.mul_nonneg (by omega) hn
  generalize (X / 32768) * n = An at *
  generalize (X % 32768) * n = t at *
  generalize X * n = Xn at *
  generalize hu : An + t / 32768 = u
  have hu0 : 0 ≤ u := by omega
  have hdne : d ≠ 0 := by omega
  have e1 := Int.emod_add_mul_ediv u d
  have r1 := Int.emod_nonneg u hdne
  have r2 := Int.emod_lt_of_pos u hd
  have q1 : 0 ≤ u / d := Int.ediv_nonneg hu0 (by omega)
  generalize hv : (u % d) * 32768 + t % 32768 = v
  have hv0 : 0 ≤ v := by omega
  have e2 := Int.emod_add_mul_ediv v d
  have r3 := Int.emod_nonneg v hdne
  have r4 := Int.emod_lt_of_pos v hd
  have q2 : 0 ≤ v / d := Int.ediv_nonneg hv0 (by omega)
  have q3 : v / d < 32768 := Int.ediv_lt_of_lt_mul hd (by omega)
  have key : v % d + d * (32768 * (u / d) + v / d) = Xn := by
    have : d * (32768 * (u / d) + v / d) = 32768 * (d * (u / d)) + d * (v / d) := by
      rw [Int.mul_add, Int.mul_left_comm]
    rw [this]
    generalize d * (u / d) = DQ at *
    generalize d * (v / d) = DQ2 at *
    omega
  have := (Int.ediv_emod_unique (a := Xn) (b := d) (r := v % d) (q := 32768 * (u / d) + v / d) hd).mpr ⟨key, r3, r4⟩
  exact ⟨this.1, this.2, q3, q2, q1⟩

/-- What `xnOverD` computes, for a non-negative magnitude. -/
theorem xnOverD_nonneg (X n d : Int) (hX : 0 ≤ X) (hn0 : 0 ≤ n) (hn : n ≤ 65536) (hd0 : 0 < d)
    (hd : d ≤ 65536) :
    xnOverD X n d = (if (X * n) / d > maxDimen then .overflow else .ok ((X * n) / d, (X * n) % d)) := by
  have hp : 0 ≤ X * n := Int.mul_nonneg hX hn0
  have hq : 0 ≤ (X * n) / d := Int.ediv_nonneg hp (by omega)
  have hM : maxDimen = 1073741823 := rfl
  simp only [xnOverD, Int.tdiv_eq_ediv_of_nonneg hp, Int.tmod_eq_emod_of_nonneg hp]
  have h1 : ¬ (n > 65536 ∨ d > 65536) := by omega
  have h2 : ¬ d = 0 := by omega
  rw [if_neg h1, if_neg h2]
  by_cases h : (X * n) / d > maxDimen
  · rw [if_pos h, if_pos (Or.inr h)]
  · rw [if_neg h, if_neg (by omega)]

theorem xnOverD_neg (X n d : Int) (hX : 0 < X) (hn0 : 0 ≤ n) (hn : n ≤ 65536) (hd0 : 0 < d)
    (hd : d ≤ 65536) :
    xnOverD (-X) n d
      = (if (X * n) / d > maxDimen then .overflow else .ok (-((X * n) / d), -((X * n) % d))) := by
  have hp : 0 ≤ X * n := Int.mul_nonneg (by omega) hn0
  have hq : 0 ≤ (X * n) / d := Int.ediv_nonneg hp (by omega)
  have hM : maxDimen = 1073741823 := rfl
  simp only [xnOverD, Int.neg_mul, Int.neg_tdiv, Int.neg_tmod, Int.tdiv_eq_ediv_of_nonneg hp,
    Int.tmod_eq_emod_of_nonneg hp]
  have h1 : ¬ (n > 65536 ∨ d > 65536) := by omega
  have h2 : ¬ d = 0 := by omega
  rw [if_neg h1, if_neg h2]
  by_cases h : (X * n) / d > maxDimen
  · rw [if_pos h, if_pos (Or.inl (by omega))]
  · rw [if_neg h, if_neg (by omega)]

/-- What Knuth's `xn_over_d` computes, for a non-negative magnitude. -/
theorem specXnOverD_nonneg (X n d : Int) (hX : 0 ≤ X) (hn0 : 0 ≤ n) (hd0 : 0 < d) :
    ∃ g, Spec.xnOverD X n d
      = (if (X * n) / d > maxDimen then (g, (X * n) % d, true) else ((X * n) / d, (X * n) % d, false)) := by
  obtain ⟨e1, e2, e3, e4, e5⟩ := knuth_core X n d hX hn0 hd0
  have hM : maxDimen = 1073741823 := rfl
  simp only [Spec.xnOverD]
  have hx : (if X ≥ 0 then X else -X) = X := if_pos hX
  rw [hx, e1, e2]
  generalize ((X / 32768) * n + ((X % 32768) * n) / 32768) = u at *
  generalize ((u % d) * 32768 + ((X % 32768) * n) % 32768) = v at *
  refine ⟨u, ?_⟩
  have hdec : decide (X ≥ 0) = true := by simp [hX]
  rw [hdec]
  by_cases h : u / d ≥ 32768
  · have : 32768 * (u / d) + v / d > maxDimen := by omega
    simp [h, this]
  · have : ¬ 32768 * (u / d) + v / d > maxDimen := by omega
    simp [h, this]


theorem specXnOverD_neg (X n d : Int) (hX : 0 < X) (hn0 : 0 ≤ n) (hd0 : 0 < d) :
    ∃ g, Spec.xnOverD (-X) n d
      = (if (X * n) / d > maxDimen then (g, -((X * n) % d), true)
         else (-((X * n) / d), -((X * n) % d), false)) := by
  obtain ⟨e1, e2, e3, e4, e5⟩ := knuth_core X n d (by omega) hn0 hd0
  have hM : maxDimen = 1073741823 := rfl
  simp only [Spec.xnOverD]
  have hneg : ¬ (-X ≥ 0) := by omega
  have hx : (if -X ≥ 0 then -X else - -X) = X := by rw [if_neg hneg, Int.neg_neg]
  rw [hx, e1, e2]
  generalize ((X / 32768) * n + ((X % 32768) * n) / 32768) = u at *
  generalize ((u % d) * 32768 + ((X % 32768) * n) % 32768) = v at *
  refine ⟨-u, ?_⟩
  have hdec : decide (-X ≥ 0) = false := by simp; omega
  rw [hdec]
  by_cases h : u / d ≥ 32768
  · have : 32768 * (u / d) + v / d > maxDimen := by omega
    simp [h, this]
  · have : ¬ 32768 * (u / d) + v / d > maxDimen := by omega
    simp [h, this]

/-! ## `nx_plus_y`, `mult_integers` -/

/-- Knuth's overflow test of §105 is exact when `|y| ≤ max_answer`. -/
theorem multAndAdd_exact (n x y M : Int) (_hM : 0 ≤ M) (hy : -M ≤ y ∧ y ≤ M) :
    Spec.multAndAdd n x y M
      = (if n = 0 then ⟨y, false⟩
         else if -M ≤ n * x + y ∧ n * x + y ≤ M then ⟨n * x + y, false⟩ else ⟨0, true⟩) := by
  have pos : ∀ (n x : Int), 0 < n →
      ((x ≤ Int.tdiv (M - y) n ∧ -x ≤ Int.tdiv (M + y) n) ↔ (-M ≤ n * x + y ∧ n * x + y ≤ M)) := by
    intro n x hn
    rw [Int.tdiv_eq_ediv_of_nonneg (by omega), Int.tdiv_eq_ediv_of_nonneg (by omega),
      Int.le_ediv_iff_mul_le hn, Int.le_ediv_iff_mul_le hn, Int.neg_mul, Int.mul_comm x n]
    generalize n * x = p
    constructor <;> intro h <;> omega
  unfold Spec.multAndAdd
  by_cases h0 : n = 0
  · subst h0; simp
  by_cases hneg : n < 0
  · have hn' : 0 < -n := by omega
    have := pos (-n) (-x) hn'
    simp only [Int.neg_mul_neg] at this
    simp only [if_pos hneg, if_neg h0, if_neg (show ¬ -n = 0 by omega)]
    by_cases hc : (-M ≤ n * x + y ∧ n * x + y ≤ M)
    · rw [if_pos (this.mpr hc), if_pos hc, Int.neg_mul_neg]
    · rw [if_neg (fun h => hc (this.mp h)), if_neg hc]
  · have hn' : 0 < n := by omega
    have := pos n x hn'
    simp only [if_neg hneg, if_neg h0]
    by_cases hc : (-M ≤ n * x + y ∧ n * x + y ≤ M)
    · rw [if_pos (this.mpr hc), if_pos hc]
    · rw [if_neg (fun h => hc (this.mp h)), if_neg hc]

/-- `nx_plus_y` (64-bit) = Knuth's §105 with `max_answer = 2^30-1`, for `|y| ≤ 2^30-1`. -/
theorem nxPlusY_eq (x n y : Int) (hy : -maxDimen ≤ y ∧ y ≤ maxDimen) :
    nxPlusY x n y = (if (Spec.nxPlusY n x y).err then .overflow else .ok (Spec.nxPlusY n x y).val) := by
  have hM : maxDimen = 1073741823 := rfl
  rw [Spec.nxPlusY, multAndAdd_exact n x y 1073741823 (by omega) (by omega)]
  unfold nxPlusY
  by_cases h0 : n = 0
  · simp [h0]
  · rw [if_neg h0, if_neg h0, Int.mul_comm x n]
    by_cases hc : (-maxDimen ≤ n * x + y ∧ n * x + y ≤ maxDimen)
    · have hc' : -1073741823 ≤ n * x + y ∧ n * x + y ≤ 1073741823 := by omega
      rw [if_pos hc, if_pos hc']; rfl
    · have hc' : ¬ (-1073741823 ≤ n * x + y ∧ n * x + y ≤ 1073741823) := by omega
      rw [if_neg hc, if_neg hc']; rfl

/-- `\\multiply` on integers (with fixes/C06-a.patch) = Knuth's `mult_integers`. -/
theorem multiplyInt_eq (a b : Int) :
    (match multiplyInt a b with | .set v => Spec.AR.set v | .error => Spec.AR.error) = Spec.multiplyInt a b := by
  unfold multiplyInt Spec.multiplyInt
  rw [Spec.multIntegers, multAndAdd_exact a b 0 2147483647 (by omega) (by omega)]
  by_cases h0 : a = 0
  · subst h0; simp [inI32]
  · rw [if_neg h0]
    simp only [inI32, Bool.and_eq_true, decide_eq_true_eq, Int.add_zero]
    by_cases hc : (-2147483647 ≤ a * b ∧ a * b ≤ 2147483647)
    · have : (-2147483648 ≤ a * b ∧ a * b ≤ 2147483647) ∧ a * b ≠ -2147483648 := by omega
      rw [if_pos this, if_pos hc]; simp
    · have : ¬ ((-2147483648 ≤ a * b ∧ a * b ≤ 2147483647) ∧ a * b ≠ -2147483648) := by omega
      rw [if_neg this, if_neg hc]; simp


/-! ## division -/


theorem tdiv_cases (a b : Int) (hb : b ≠ 0) :
    Int.tdiv a b = (Spec.xOverN a b).val := by
  unfold Spec.xOverN
  rw [if_neg hb]
  by_cases hneg : b < 0
  · simp only [if_pos hneg]
    have e : Int.tdiv a b = -(Int.tdiv a (-b)) := by
      have := Int.tdiv_neg a (-b); rw [Int.neg_neg] at this; exact this
    rw [e]
    by_cases ha : -a ≥ 0
    · rw [if_pos ha]
      have e2 : Int.tdiv a (-b) = -(Int.tdiv (-a) (-b)) := by
        have := Int.neg_tdiv (-a) (-b); rw [Int.neg_neg] at this; exact this
      rw [e2, Int.neg_neg, Int.tdiv_eq_ediv_of_nonneg ha]
    · rw [if_neg ha, Int.neg_neg, Int.tdiv_eq_ediv_of_nonneg (by omega)]
  · simp only [if_neg hneg]
    by_cases ha : a ≥ 0
    · rw [if_pos ha, Int.tdiv_eq_ediv_of_nonneg ha]
    · rw [if_neg ha]
      have e2 : Int.tdiv a b = -(Int.tdiv (-a) b) := by
        have := Int.neg_tdiv a b; omega
      rw [e2, Int.tdiv_eq_ediv_of_nonneg (by omega)]

theorem xOverN_fits (a b : Int) (ha : -2147483648 ≤ a ∧ a ≤ 2147483647) (hb : b ≠ 0)
    (hx : ¬ (a = -2147483648 ∧ b = -1)) :
    -2147483648 ≤ (Spec.xOverN a b).val ∧ (Spec.xOverN a b).val ≤ 2147483647 := by
  have bound : ∀ (X N : Int), 0 ≤ X → 0 < N → 0 ≤ X / N ∧ X / N ≤ X := by
    intro X N hX hN
    exact ⟨Int.ediv_nonneg hX (by omega), Int.ediv_le_self N hX⟩
  have strict : ∀ (X N : Int), 0 ≤ X → X ≤ 2147483648 → 2 ≤ N → X / N < 2147483648 := by
    intro X N hX h1 hN
    exact Int.ediv_lt_of_lt_mul (by omega) (by omega)
  unfold Spec.xOverN
  rw [if_neg hb]
  by_cases hneg : b < 0
  · simp only [if_pos hneg]
    by_cases h : -a ≥ 0
    · rw [if_pos h]
      have b1 := bound (-a) (-b) h (by omega)
      by_cases hb1 : b = -1
      · have : a ≠ -2147483648 := fun e => hx ⟨e, hb1⟩
        simp only []; omega
      · have := strict (-a) (-b) h (by omega) (by omega)
        simp only []; omega
    · rw [if_neg h]
      have b1 := bound (- -a) (-b) (by omega) (by omega)
      simp only []; omega
  · simp only [if_neg hneg]
    by_cases h : a ≥ 0
    · rw [if_pos h]
      have b1 := bound a b h (by omega)
      simp only []; omega
    · rw [if_neg h]
      have b1 := bound (-a) b (by omega) (by omega)
      simp only []; omega



/-! ## integer constants -/


theorem constLoop_eq10 (ds : List Nat) : ∀ (r : Int) (tb : Bool), (∀ d ∈ ds, d < 10) → 0 ≤ r → r ≤ 2147483647 →
      (tb = true → r = 2147483647) →
      constLoop 10 ds r tb
        = ((Spec.accumulate 10 214748364 ds r (!tb)).1, !(Spec.accumulate 10 214748364 ds r (!tb)).2) := by
  induction ds with
  | nil => intro r tb _ _ _ _; simp [constLoop, Spec.accumulate]
  | cons d ds ih =>
    intro r tb hd h0 h1 htb
    have hd' : d < 10 := hd d (by simp)
    have hds : ∀ x ∈ ds, x < 10 := fun x hx => hd x (by simp [hx])
    by_cases hov : r * 10 + (d : Int) ≤ 2147483647
    · have ha : addLsd 10 r d = some (r * 10 + d) := by
        unfold addLsd
        rw [if_pos (by simp [inI32]; omega), if_pos (by simp [inI32]; omega)]
      simp only [constLoop, Spec.accumulate, ha]
      rw [if_neg (by omega)]
      exact ih _ tb hds (by omega) hov (by intro h; have := htb h; omega)
    · have ha : addLsd 10 r d = none := by
        unfold addLsd
        by_cases h1 : inI32 (r * 10) = true
        · rw [if_pos h1, if_neg (by simp [inI32]; omega)]
        · rw [if_neg h1]
      simp only [constLoop, Spec.accumulate, ha]
      rw [if_pos (by omega)]
      have := ih 2147483647 true hds (by omega) (by omega) (fun _ => rfl)
      simpa using this

theorem constLoop_eq8 (ds : List Nat) : ∀ (r : Int) (tb : Bool), (∀ d ∈ ds, d < 8) → 0 ≤ r → r ≤ 2147483647 →
      (tb = true → r = 2147483647) →
      constLoop 8 ds r tb
        = ((Spec.accumulate 8 268435456 ds r (!tb)).1, !(Spec.accumulate 8 268435456 ds r (!tb)).2) := by
  induction ds with
  | nil => intro r tb _ _ _ _; simp [constLoop, Spec.accumulate]
  | cons d ds ih =>
    intro r tb hd h0 h1 htb
    have hd' : d < 8 := hd d (by simp)
    have hds : ∀ x ∈ ds, x < 8 := fun x hx => hd x (by simp [hx])
    by_cases hov : r * 8 + (d : Int) ≤ 2147483647
    · have ha : addLsd 8 r d = some (r * 8 + d) := by
        unfold addLsd
        rw [if_pos (by simp [inI32]; omega), if_pos (by simp [inI32]; omega)]
      simp only [constLoop, Spec.accumulate, ha]
      rw [if_neg (by omega)]
      exact ih _ tb hds (by omega) hov (by intro h; have := htb h; omega)
    · have ha : addLsd 8 r d = none := by
        unfold addLsd
        by_cases h1 : inI32 (r * 8) = true
        · rw [if_pos h1, if_neg (by simp [inI32]; omega)]
        · rw [if_neg h1]
      simp only [constLoop, Spec.accumulate, ha]
      rw [if_pos (by omega)]
      have := ih 2147483647 true hds (by omega) (by omega) (fun _ => rfl)
      simpa using this

theorem constLoop_eq16 (ds : List Nat) : ∀ (r : Int) (tb : Bool), (∀ d ∈ ds, d < 16) → 0 ≤ r → r ≤ 2147483647 →
      (tb = true → r = 2147483647) →
      constLoop 16 ds r tb
        = ((Spec.accumulate 16 134217728 ds r (!tb)).1, !(Spec.accumulate 16 134217728 ds r (!tb)).2) := by
  induction ds with
  | nil => intro r tb _ _ _ _; simp [constLoop, Spec.accumulate]
  | cons d ds ih =>
    intro r tb hd h0 h1 htb
    have hd' : d < 16 := hd d (by simp)
    have hds : ∀ x ∈ ds, x < 16 := fun x hx => hd x (by simp [hx])
    by_cases hov : r * 16 + (d : Int) ≤ 2147483647
    · have ha : addLsd 16 r d = some (r * 16 + d) := by
        unfold addLsd
        rw [if_pos (by simp [inI32]; omega), if_pos (by simp [inI32]; omega)]
      simp only [constLoop, Spec.accumulate, ha]
      rw [if_neg (by omega)]
      exact ih _ tb hds (by omega) hov (by intro h; have := htb h; omega)
    · have ha : addLsd 16 r d = none := by
        unfold addLsd
        by_cases h1 : inI32 (r * 16) = true
        · rw [if_pos h1, if_neg (by simp [inI32]; omega)]
        · rw [if_neg h1]
      simp only [constLoop, Spec.accumulate, ha]
      rw [if_pos (by omega)]
      have := ih 2147483647 true hds (by omega) (by omega) (fun _ => rfl)
      simpa using this

/-- `parse_constant` = §444–§445, for every digit string in each radix. -/
theorem scanConst_eq (radix : Int) (hr : radix = 10 ∨ radix = 8 ∨ radix = 16) (ds : List Nat)
    (hd : ∀ d ∈ ds, (d : Int) < radix) : scanConst radix ds = Spec.scanConst radix ds := by
  cases ds with
  | nil => simp [scanConst, Spec.scanConst]
  | cons d rest =>
    rcases hr with rfl | rfl | rfl
    · have hd' : ∀ x ∈ d :: rest, x < 10 := fun x hx => by have := hd x hx; omega
      have h1 := constLoop_eq10 (d :: rest) 0 false hd' (by omega) (by omega) (by simp)
      have hd0 : d < 10 := hd' d (by simp)
      have hstep : constLoop 10 (d :: rest) 0 false = constLoop 10 rest d false := by
        simp only [constLoop, addLsd, inI32, Bool.and_eq_true, decide_eq_true_eq]
        rw [if_pos (by omega), if_pos (by omega)]
        simp
      simp only [scanConst, Spec.scanConst, List.isEmpty_cons]
      rw [← hstep, h1]
      split <;> split <;> simp_all
    · have hd' : ∀ x ∈ d :: rest, x < 8 := fun x hx => by have := hd x hx; omega
      have h1 := constLoop_eq8 (d :: rest) 0 false hd' (by omega) (by omega) (by simp)
      simp only [scanConst, Spec.scanConst, List.isEmpty_cons]
      rw [if_neg (by omega), h1]
      split <;> split <;> simp_all
    · have hd' : ∀ x ∈ d :: rest, x < 16 := fun x hx => by have := hd x hx; omega
      have h1 := constLoop_eq16 (d :: rest) 0 false hd' (by omega) (by omega) (by simp)
      simp only [scanConst, Spec.scanConst, List.isEmpty_cons]
      rw [if_neg (by omega), h1]
      split <;> split <;> simp_all

/-- The value of a constant is in `[0, 2^31-1]`; after an overflow it is exactly `2^31-1`
(the clamp of §445). -/
theorem constLoop_range (radix : Int) (hr : 2 ≤ radix) (ds : List Nat) : ∀ (r : Int) (tb : Bool),
    0 ≤ r → r ≤ 2147483647 → (tb = true → r = 2147483647) →
    0 ≤ (constLoop radix ds r tb).1 ∧ (constLoop radix ds r tb).1 ≤ 2147483647 ∧
      ((constLoop radix ds r tb).2 = true → (constLoop radix ds r tb).1 = 2147483647) := by
  induction ds with
  | nil => intro r tb h0 h1 h2; exact ⟨h0, h1, h2⟩
  | cons d ds ih =>
    intro r tb h0 h1 h2
    simp only [constLoop]
    cases ha : addLsd radix r d with
    | none => exact ih 2147483647 true (by omega) (by omega) (fun _ => rfl)
    | some n =>
      have hp : 0 ≤ r * radix := Int.mul_nonneg h0 (by omega)
      unfold addLsd at ha
      by_cases c1 : inI32 (r * radix) = true
      · rw [if_pos c1] at ha
        by_cases c2 : inI32 (r * radix + d) = true
        · rw [if_pos c2] at ha
          have hn : n = r * radix + d := by simpa using ha.symm
          simp only [inI32, Bool.and_eq_true, decide_eq_true_eq] at c1 c2
          refine ih n tb (by omega) (by omega) ?_
          intro h
          have := h2 h
          subst this
          omega
        · rw [if_neg c2] at ha; simp at ha
      · rw [if_neg c1] at ha; simp at ha



/-! ## `attach_sign` -/

theorem attachSign_ok (cv : Int) (neg : Bool) (nerr order : Nat) (h : cv.natAbs < 1073741824) :
    Spec.attachSign cv false neg nerr order = .ok (if neg then -cv else cv) nerr order := by
  unfold Spec.attachSign
  have : ¬ ((false = true) ∨ cv.natAbs ≥ 1073741824) := by simp; omega
  simp only [if_neg this]

theorem attachSign_err (cv : Int) (ae neg : Bool) (nerr order : Nat) (h : ae = true ∨ cv.natAbs ≥ 1073741824) :
    Spec.attachSign cv ae neg nerr order = .ok (if neg then -1073741823 else 1073741823) (nerr + 1) order := by
  unfold Spec.attachSign
  simp only [if_pos h]

end C06
