import TexcraftModel.Model.C15Font
import TexcraftModel.Lemmas.C15

/-! C15: what the resolved items contribute equals what the raw TFM tables say. -/
namespace C15

theorem Node.resolve_dims (r : Repo) (n : Node) (i : Item) (h : n.resolve r = some i) :
    i.natWidth = n.width r ∧ i.boxHeight = n.height r ∧ i.boxDepth = n.depth r := by
  cases n with
  | other j =>
    simp only [Node.resolve, Option.some.injEq] at h
    subst h; exact ⟨rfl, rfl, rfl⟩
  | glyph c font =>
    simp only [Node.resolve] at h
    cases hf : assoc r font with
    | none => rw [hf] at h; contradiction
    | some f =>
      rw [hf] at h
      simp only [Option.some.injEq] at h
      subst h
      simp only [Node.width, Node.height, Node.depth, hf]
      cases f.width c <;> cases f.height c <;> cases f.depth c <;>
        simp [Item.natWidth, Item.boxHeight, Item.boxDepth]

theorem Node.resolve_isSome (r : Repo) (n : Node) : (n.resolve r).isSome = n.registered r := by
  cases n with
  | other j => rfl
  | glyph c font =>
    simp only [Node.resolve, Node.registered]
    cases assoc r font <;> rfl

theorem resolve_isSome (r : Repo) (ns : List Node) :
    (resolve r ns).isSome = ns.all (Node.registered r) := by
  induction ns with
  | nil => rfl
  | cons n ns ih =>
    have h1 := Node.resolve_isSome r n
    simp only [resolve, List.all_cons]
    rw [← h1, ← ih]
    cases n.resolve r <;> cases resolve r ns <;> rfl

theorem resolve_dims (r : Repo) (ns : List Node) : ∀ l, resolve r ns = some l →
    natWidth l = sum (ns.map (Node.width r)) ∧
    boxHeight l = max0 (ns.map (Node.height r)) ∧
    boxDepth l = max0 (ns.map (Node.depth r)) := by
  induction ns with
  | nil =>
    intro l h
    simp only [resolve, Option.some.injEq] at h
    subst h; exact ⟨rfl, rfl, rfl⟩
  | cons n ns ih =>
    intro l h
    simp only [resolve] at h
    cases hn : n.resolve r with
    | none => rw [hn] at h; simp at h
    | some i =>
      cases hr : resolve r ns with
      | none => rw [hn, hr] at h; simp at h
      | some l' =>
        rw [hn, hr] at h
        simp only [Option.some.injEq] at h
        subst h
        obtain ⟨a, b, c⟩ := ih l' hr
        obtain ⟨x, y, z⟩ := Node.resolve_dims r n i hn
        simp only [natWidth, boxHeight, boxDepth, List.map, sum, max0] at *
        rw [a, b, c, x, y, z]
        exact ⟨rfl, rfl, rfl⟩

end C15
