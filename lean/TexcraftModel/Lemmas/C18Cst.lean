import TexcraftModel.Model.C18

/-! C18: tokens ⇄ CST. `parseCalls (printCalls cs ++ rest) = (cs, rest)` by mutual structural
recursion over the CST, with enough fuel. -/
namespace C18

/-- `rest` does not begin a function call (`name (`). -/
def NotCallStart : List BTok → Prop
  | .kw _ :: .lparen :: _ => False
  | _ => True

theorem parseCalls_stop (f : Nat) (t : List BTok) (h : NotCallStart t) :
    parseCalls (f + 1) t = some ([], t) := by
  simp only [parseCalls]
  split
  · simp [NotCallStart] at h
  · rfl

theorem printVal_len_pos (v : Val) : 0 < (printVal v).length := by
  cases v <;> simp [printVal]

theorem printArg_len_pos (a : Arg) : 0 < (printArg a).length := by
  cases a with
  | mk k v => cases k <;> simp [printArg] <;> have := printVal_len_pos v <;> omega

/-- `parseArgs` on a positional value (the value's first token decides). -/
theorem parseArgs_pos (f : Nat) (v : Val) (t : List BTok) :
    parseArgs (f + 1) (printVal v ++ t) =
      match parseVal f (printVal v ++ t) with
      | some (v, t') =>
        match parseArgs f (skipComma t') with
        | some (as, t'') => some (.mk none v :: as, t'')
        | none => none
      | none => none := by
  cases v <;> simp only [parseArgs, printVal, List.cons_append, List.nil_append] <;> rfl

mutual
theorem parseVal_print : ∀ (v : Val) (f : Nat) (rest : List BTok),
    (printVal v).length < f → parseVal f (printVal v ++ rest) = some (v, rest)
  | .int n, f, rest, h => by
    obtain ⟨f', rfl⟩ : ∃ f', f = f' + 1 := ⟨f - 1, by omega⟩
    simp [printVal, parseVal]
  | .dim n, f, rest, h => by
    obtain ⟨f', rfl⟩ : ∃ f', f = f' + 1 := ⟨f - 1, by omega⟩
    simp [printVal, parseVal]
  | .inf n o, f, rest, h => by
    obtain ⟨f', rfl⟩ : ∃ f', f = f' + 1 := ⟨f - 1, by omega⟩
    simp [printVal, parseVal]
  | .str s, f, rest, h => by
    obtain ⟨f', rfl⟩ : ∃ f', f = f' + 1 := ⟨f - 1, by omega⟩
    simp [printVal, parseVal]
  | .list cs, f, rest, h => by
    have ih := parseCalls_print cs
    obtain ⟨f', rfl⟩ : ∃ f', f = f' + 1 := ⟨f - 1, by omega⟩
    simp only [printVal, List.length_cons, List.length_append, List.length_nil] at h
    simp only [printVal, List.cons_append, List.append_assoc, List.nil_append, parseVal]
    rw [ih f' (.rbrack :: rest) (by omega) (by simp [NotCallStart])]

theorem parseArg_print : ∀ (a : Arg) (f : Nat) (t : List BTok),
    (printArg a).length < f →
    parseArgs (f + 1) (printArg a ++ t) =
      match parseArgs f (skipComma t) with
      | some (as, t'') => some (a :: as, t'')
      | none => none
  | .mk none v, f, t, h => by
    have ih := parseVal_print v
    simp only [printArg] at h ⊢
    rw [parseArgs_pos, ih f t h]
  | .mk (some k) v, f, t, h => by
    have ih := parseVal_print v
    simp only [printArg, List.length_cons] at h
    simp only [printArg, List.cons_append, parseArgs]
    rw [ih f t (by omega)]
    rfl

theorem parseArgs_multi : ∀ (as : List Arg) (f : Nat) (rest : List BTok),
    (printArgsMulti as).length + 1 < f →
    parseArgs f (printArgsMulti as ++ .rparen :: rest) = some (as, rest)
  | [], f, rest, h => by
    obtain ⟨f', rfl⟩ : ∃ f', f = f' + 1 := ⟨f - 1, by omega⟩
    simp [printArgsMulti, parseArgs]
  | a :: r, f, rest, h => by
    have ih1 := parseArg_print a
    have ih2 := parseArgs_multi r
    obtain ⟨f', rfl⟩ : ∃ f', f = f' + 1 := ⟨f - 1, by omega⟩
    have hp := printArg_len_pos a
    simp only [printArgsMulti, List.length_append, List.length_cons] at h
    simp only [printArgsMulti, List.append_assoc, List.cons_append]
    rw [ih1 f' _ (by omega)]
    simp only [skipComma]
    rw [ih2 f' rest (by omega)]

theorem parseArgs_single : ∀ (as : List Arg) (f : Nat) (rest : List BTok),
    (printArgsSingle as).length + 1 < f →
    parseArgs f (printArgsSingle as ++ .rparen :: rest) = some (as, rest)
  | [], f, rest, h => by
    obtain ⟨f', rfl⟩ : ∃ f', f = f' + 1 := ⟨f - 1, by omega⟩
    simp [printArgsSingle, parseArgs]
  | a :: r, f, rest, h => by
    have ih1 := parseArg_print a
    have ih2 := parseArgs_single r
    obtain ⟨f', rfl⟩ : ∃ f', f = f' + 1 := ⟨f - 1, by omega⟩
    have hp := printArg_len_pos a
    cases r with
    | nil =>
      simp [printArgsSingle] at h
      simp only [printArgsSingle, List.append_nil]
      rw [ih1 f' _ (by omega)]
      obtain ⟨f'', rfl⟩ : ∃ f'', f' = f'' + 1 := ⟨f' - 1, by omega⟩
      simp [skipComma, parseArgs]
    | cons b r' =>
      simp only [printArgsSingle, List.length_append, List.length_cons] at h
      simp only [printArgsSingle, List.append_assoc, List.cons_append]
      rw [ih1 f' _ (by omega)]
      simp only [skipComma]
      have := ih2 f' rest (by simp only [printArgsSingle, List.length_append]; omega)
      simp only [printArgsSingle, List.append_assoc] at this
      rw [this]

theorem parseCalls_print : ∀ (cs : List Call) (f : Nat) (rest : List BTok),
    (printCalls cs).length < f → NotCallStart rest →
    parseCalls f (printCalls cs ++ rest) = some (cs, rest)
  | [], f, rest, h, hr => by
    obtain ⟨f', rfl⟩ : ∃ f', f = f' + 1 := ⟨f - 1, by omega⟩
    simpa [printCalls] using parseCalls_stop f' rest hr
  | .mk name args :: r, f, rest, h, hr => by
    have ihm := parseArgs_multi args
    have ihs := parseArgs_single args
    have ihc := parseCalls_print r
    obtain ⟨f', rfl⟩ : ∃ f', f = f' + 1 := ⟨f - 1, by omega⟩
    simp only [printCalls, printCall, List.length_append, List.length_cons, List.length_nil] at h
    simp only [printCalls, printCall, List.cons_append, List.append_assoc, List.nil_append,
      parseCalls]
    split at h
    · rename_i hm
      simp only [hm, ↓reduceIte]
      rw [ihm f' _ (by omega)]
      simp only []
      rw [ihc f' rest (by omega) hr]
    · rename_i hm
      have hm' : multiline args = false := by simpa using hm
      simp only [hm', Bool.false_eq_true, ↓reduceIte]
      rw [ihs f' _ (by omega)]
      simp only []
      rw [ihc f' rest (by omega) hr]
end

/-- Fuel-free corollary: a printed CST parses back to itself. -/
theorem parseSource_printCalls (cs : List Call) : parseSource (printCalls cs) = some cs := by
  unfold parseSource
  have := parseCalls_print cs ((printCalls cs).length + 1) [] (by omega) (by simp [NotCallStart])
  simp only [List.append_nil] at this
  rw [this]

/-! ### commas are optional -/

/-- The arguments with no comma at all between them. -/
def printArgsBare : List Arg → List BTok
  | [] => []
  | a :: r => printArg a ++ printArgsBare r

theorem skipComma_printArg (a : Arg) (t : List BTok) : skipComma (printArg a ++ t) = printArg a ++ t := by
  cases a with
  | mk k v => cases k <;> cases v <;> simp [printArg, printVal, skipComma]

theorem parseArgs_bare : ∀ (as : List Arg) (f : Nat) (rest : List BTok),
    (printArgsBare as).length + 1 < f →
    parseArgs f (printArgsBare as ++ .rparen :: rest) = some (as, rest)
  | [], f, rest, h => by
    obtain ⟨f', rfl⟩ : ∃ f', f = f' + 1 := ⟨f - 1, by omega⟩
    simp [printArgsBare, parseArgs]
  | a :: r, f, rest, h => by
    have ih := parseArgs_bare r
    obtain ⟨f', rfl⟩ : ∃ f', f = f' + 1 := ⟨f - 1, by omega⟩
    have hp := printArg_len_pos a
    simp only [printArgsBare, List.length_append] at h
    simp only [printArgsBare, List.append_assoc]
    rw [parseArg_print a f' _ (by omega)]
    have hs : skipComma (printArgsBare r ++ BTok.rparen :: rest) = printArgsBare r ++ BTok.rparen :: rest := by
      cases r with
      | nil => simp [printArgsBare, skipComma]
      | cons b r' => simp only [printArgsBare, List.append_assoc]; exact skipComma_printArg b _
    rw [hs, ih f' rest (by omega)]

end C18
