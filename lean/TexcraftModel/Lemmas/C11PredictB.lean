/-
C11 — `predict`, part B: writing the packed table as words and reading the words back
(`decodeRaw ∘ encodeWord`) does not change the rule function; font preservation of `predict`.
-/
import TexcraftModel.Model.C05
import TexcraftModel.Model.C11
import TexcraftModel.Model.C11Bridge
import TexcraftModel.Model.C11Norm
import TexcraftModel.Model.C11Words
import TexcraftModel.Model.C11Predict
import TexcraftModel.Lemmas.C11Pack
import TexcraftModel.Lemmas.C11Boundary
import TexcraftModel.Lemmas.C11Rule
import TexcraftModel.Lemmas.C11Words
import TexcraftModel.Lemmas.C11NormPack
import TexcraftModel.Lemmas.C11PredictA

namespace C11

/-- What the reader makes of a written redirect word: the flag is not stored. -/
def flagTrue (i : Instr) : Instr :=
  { i with op := match i.op with | .redirect u _ => .redirect u true | op => op }

/-- A redirect word whose right-character field is the byte the serialiser writes there. -/
def rightOk (rb : Option Nat) (i : Instr) : Bool :=
  match i.op with
  | .redirect _ true => i.right == rb.getD 0
  | .redirect _ false => i.right == 0
  | _ => true

theorem decode_encode (rb : Option Nat) (i : Instr) (w : Word) (hr : rightOk rb i = true)
    (he : encodeWord rb i = some w) : decodeWord w = flagTrue i := by
  have hok := encodeWord_ok he
  obtain ⟨next, right, op⟩ := i
  cases op with
  | kern k => simp [wordOk] at hok
  | kernAt idx => exact word_roundtrip_step rb _ w hok rfl he
  | lig c p => exact word_roundtrip_step rb _ w hok rfl he
  | redirect u flag =>
    have hu : u < 65536 ∧ next = none := by
      simp only [wordOk, Bool.and_eq_true, decide_eq_true_eq, Option.isNone_iff_eq_none] at hok
      exact hok.2
    have h1 := word_roundtrip_redirect rb next right u flag w hu.1 he
    have he' := encodeWord_raw he
    simp only [encodeRaw, Option.some.injEq] at he'
    subst he'
    rw [h1]
    simp only [flagTrue, hu.2, Instr.mk.injEq, true_and, and_true]
    cases flag <;> cases rb <;> simp_all [rightOk]

theorem mapM_encode_decode (rb : Option Nat) : ∀ (l : List Instr) (ws : List Word),
    (∀ i ∈ l, rightOk rb i = true) → l.mapM (encodeWord rb) = some ws →
    ws.map decodeWord = l.map flagTrue := by
  intro l
  induction l with
  | nil => intro ws _ h; simp at h; subst h; rfl
  | cons a t ih =>
    intro ws hr h
    rw [List.mapM_cons] at h
    cases ha : encodeWord rb a with
    | none => simp [ha] at h
    | some w =>
      cases ht : t.mapM (encodeWord rb) with
      | none => simp [ha, ht] at h
      | some ws' =>
        simp only [ha, ht, Option.pure_def, Option.bind_eq_bind, Option.bind_some, Option.some.injEq] at h
        subst h
        simp only [List.map_cons, List.cons.injEq]
        exact ⟨decode_encode rb a w (hr a (List.mem_cons_self ..)) ha,
          ih ws' (fun i hi => hr i (List.mem_cons_of_mem _ hi)) ht⟩

theorem mapM_getLast (rb : Option Nat) : ∀ (l : List Instr) (ws : List Word),
    l.mapM (encodeWord rb) = some ws →
    (match l.getLast?, ws.getLast? with
      | none, none => True
      | some i, some w => encodeWord rb i = some w
      | _, _ => False) := by
  intro l
  induction l with
  | nil => intro ws h; simp at h; subst h; simp
  | cons a t ih =>
    intro ws h
    rw [List.mapM_cons] at h
    cases ha : encodeWord rb a with
    | none => simp [ha] at h
    | some w =>
      cases ht : t.mapM (encodeWord rb) with
      | none => simp [ha, ht] at h
      | some ws' =>
        simp only [ha, ht, Option.pure_def, Option.bind_eq_bind, Option.bind_some, Option.some.injEq] at h
        subst h
        have := ih ws' ht
        cases t with
        | nil => simp at ht; subst ht; simpa using ha
        | cons b t' =>
          cases ws' with
          | nil => simp [List.mapM_cons] at ht; cases encodeWord rb b <;> cases List.mapM (encodeWord rb) t' <;> simp_all
          | cons w2 ws2 => simpa [List.getLast?_cons_cons] using this

/-- The left-boundary entry point TeX reads from the written words is `readLb` of the model. -/
theorem rawLb_encode (rb : Option Nat) (l : List Instr) (ws : List Word)
    (h : l.mapM (encodeWord rb) = some ws) : rawLb ws = readLb rb l := by
  have := mapM_getLast rb l ws h
  simp only [rawLb, readLb]
  cases hl : l.getLast? with
  | none =>
    cases hw : ws.getLast? with
    | none => rfl
    | some w => simp [hl, hw] at this
  | some i =>
    cases hw : ws.getLast? with
    | none => simp [hl, hw] at this
    | some w =>
      simp only [hl, hw] at this
      have hok := encodeWord_ok this
      have h255 := skip255_encode rb i w hok this
      by_cases hs : skip255 rb i = true
      · have hb : w.b0 = 255 := h255.mpr hs
        simp only [hb, if_true, hs]
        obtain ⟨next, right, op⟩ := i
        cases op with
        | kern k => simp [skip255] at hs
        | kernAt k => simp [skip255] at hs
        | lig c p => simp [skip255] at hs
        | redirect u flag =>
          have hu : u < 65536 := by
            simp only [wordOk, Bool.and_eq_true, decide_eq_true_eq] at hok
            exact hok.2.1
          have he' := encodeWord_raw this
          simp only [encodeRaw, Option.some.injEq] at he'
          subst he'
          have := Nat.div_add_mod u 256
          simp only [Option.some.injEq]
          omega
      · have hb : ¬ w.b0 = 255 := fun hb => hs (h255.mp hb)
        simp [hb, hs]

/-! ### Invariance under `flagTrue` -/

theorem toC05Instr_flagTrue (i : Instr) : toC05Instr (flagTrue i) = toC05Instr i := by
  obtain ⟨n, r, op⟩ := i
  cases op <;> simp [flagTrue, toC05Instr, toC05Op]

theorem unpackEntry_flagTrue (l : List Instr) (e : Nat) : unpackEntry (l.map flagTrue) e = unpackEntry l e := by
  simp only [unpackEntry, List.getElem?_map, List.length_map]
  cases hl : l[e]? with
  | none => rfl
  | some i =>
    obtain ⟨n, r, op⟩ := i
    cases op <;> simp [flagTrue]

theorem unpackAll_flagTrue (l : List Instr) (pe : List (Nat × Nat)) :
    unpackAll (l.map flagTrue) pe = unpackAll l pe := by
  simp only [unpackAll, unpackEntry_flagTrue]

/-! ### Written and read back: the same rule function -/

theorem rightOk_pack {p : Prog} {es : List (Nat × Nat)} {P : Prog} {pe : List (Nat × Nat)}
    (h : pack p es = some (P, pe)) (hwf : wf p es = true) : ∀ i ∈ P.instrs, rightOk P.rb i = true := by
  obtain ⟨st, _, _, _, _, hP, _⟩ := pack_shape h
  obtain ⟨hnr, _, _, _⟩ := wf_parts hwf
  subst hP
  intro i hi
  simp only [List.mem_append] at hi
  rcases hi with (hi | hi) | hi
  · obtain ⟨hr, u, hu⟩ := frontOf_all p st i hi
    simp [rightOk, hu, hr]
  · have := not_redirect_of_mem hnr hi
    cases hop : i.op <;> simp_all [rightOk, Op.isRedirect]
  · simp only [postOf] at hi
    split at hi
    · simp at hi
    · simp only [List.mem_singleton] at hi
      subst hi
      simp [rightOk, lbInstr]

theorem rule_lb_redirects (instrs : List Instr) (lb' : Nat) (rb : Option Nat) (es : List (Nat × Nat)) (ks : List Int)
    (h : (chain lb' instrs).all (fun i => i.op.isRedirect) = true) (r : Nat) :
    C05.rule ⟨instrs.map toC05Instr, some lb', rb, es, ks⟩ none r = none := by
  simp only [C05.rule, C05.rawRule, C05.entryOf]
  rw [findInstr_chain]
  cases hf : (chain lb' instrs).find? (fun i => i.right = r) with
  | none => rfl
  | some i =>
    have him : i ∈ chain lb' instrs := List.mem_of_find?_eq_some hf
    have hred : i.op.isRedirect = true := (List.all_eq_true.mp h) i him
    simp only [Option.map_some, Option.bind_some, toC05Instr]
    cases hop : i.op <;> simp_all [Op.isRedirect, toC05Op, C05.resolveOp]

/-- Writing the packed table with `encodeWord` and reading the words back as TeX does gives
a program with the same rule function (the boundary char and the left-boundary program are
found again: `pack_boundary`, `skip_byte_255`). -/
theorem rule_written {p : Prog} {es : List (Nat × Nat)} {P : Prog} {pe : List (Nat × Nat)} {ws : List Word}
    (h : pack p es = some (P, pe)) (hwf : wf p es = true)
    (hm : P.instrs.mapM (encodeWord P.rb) = some ws) (ks : List Int) :
    ∀ (l : Option Nat) (r : Nat),
      C05.rule (toC05 (decodeRaw ws) (unpackAll (decodeRaw ws).instrs pe) ks) l r =
        C05.rule (toC05 P (unpackAll P.instrs pe) ks) l r := by
  have hdec : ws.map decodeWord = P.instrs.map flagTrue := mapM_encode_decode P.rb _ _ (rightOk_pack h hwf) hm
  have hlb : rawLb ws = readLb P.rb P.instrs := rawLb_encode P.rb _ _ hm
  have hb := pack_boundary h hwf
  have hinstr : (ws.map decodeWord).map toC05Instr = P.instrs.map toC05Instr := by
    rw [hdec, List.map_map]
    apply List.map_congr_left
    intro i _
    exact toC05Instr_flagTrue i
  intro l r
  simp only [toC05, decodeRaw, hdec, unpackAll_flagTrue]
  rw [show (P.instrs.map flagTrue).map toC05Instr = P.instrs.map toC05Instr by rw [← hdec]; exact hinstr]
  cases l with
  | some c => simp only [C05.rule, C05.rawRule, C05.entryOf]
  | none =>
    rw [hlb]
    simp only [boundaryOk, Bool.and_eq_true, beq_iff_eq] at hb
    obtain ⟨_, hb2⟩ := hb
    cases hpl : p.lb with
    | some l0 =>
      simp only [hpl] at hb2
      cases hrl : readLb P.rb P.instrs with
      | none => simp [hrl] at hb2
      | some l' =>
        simp only [hrl, Bool.and_eq_true, beq_iff_eq] at hb2
        simp only [C05.rule, C05.rawRule, C05.entryOf, hb2.1]
    | none =>
      simp only [hpl, Bool.and_eq_true, beq_iff_eq] at hb2
      cases hrl : readLb P.rb P.instrs with
      | none => simp only [C05.rule, C05.rawRule, C05.entryOf, hb2.1]
      | some l' =>
        simp only [hrl] at hb2
        rw [rule_lb_redirects P.instrs l' _ _ ks hb2.2 r]
        simp only [C05.rule, C05.rawRule, C05.entryOf, hb2.1, Option.bind_none]

/-- **Font preservation of one trip, at byte level.** -/
theorem predict_rule {b b1 : RawLK} (h : rawOk b = true) (hp : predict b = some b1) :
    ∀ (l : Option Nat) (r : Nat), rawRule b1 l r = rawRule b l r := by
  obtain ⟨_, _, _, hwf, hnk, hrule⟩ := plOf_facts h
  simp only [predict] at hp
  split at hp
  · simp at hp
  · rename_i P pe hpack
    split at hp
    · simp at hp
    · rename_i ws hm
      simp only [Option.some.injEq] at hp
      subst hp
      intro l r
      simp only [rawRule]
      rw [rule_written hpack (wf_unpackKerns hwf hnk) hm _ l r]
      rw [ligkern_meaning_preserved_full hnk hwf hpack l r]
      exact hrule l r

end C11
