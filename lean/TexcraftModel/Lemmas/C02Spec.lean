import TexcraftModel.Lemmas.C02

/-! C02: the executable specification is the declarative one (completeness directions). -/
namespace C02

theorem specGroupFrom_complete : ∀ (g pre rest : List Tok) (dn : Nat),
    runDepth 0 pre = some dn → runDepth dn g = some 0 →
    specGroupFrom pre (g ++ .eg :: rest) = some (pre ++ g, rest) := by
  intro g
  induction g with
  | nil =>
    intro pre rest dn hpre hg
    simp [runDepth] at hg; subst hg
    have : balancedB pre = true := by simp [balancedB, Balanced, hpre]
    simp [specGroupFrom, this]
  | cons t g' ih =>
    intro pre rest dn hpre hg
    have hsplit : runDepth dn ([t] ++ g') = some 0 := by simpa using hg
    obtain ⟨dn', h1, h2⟩ := runDepth_prefix_some hsplit
    have hc : ¬(t = .eg ∧ balancedB pre = true) := by
      rintro ⟨rfl, hb⟩
      have : dn = 0 := by simpa [balancedB, Balanced, hpre] using hb
      subst this
      simp [runDepth] at h1
    have hpre' : runDepth 0 (pre ++ [t]) = some dn' := by
      rw [runDepth_append, hpre]; simpa using h1
    have := ih (pre ++ [t]) rest dn' hpre' h2
    simp only [List.cons_append, specGroupFrom, hc, if_false]
    rw [this]; simp

theorem dropWhile_sp_append (sps tl : List Tok) (h : ∀ x ∈ sps, x = .sp)
    (htl : ∀ t ts, tl = t :: ts → t ≠ .sp) :
    (sps ++ tl).dropWhile (· = .sp) = tl := by
  induction sps with
  | nil =>
    cases tl with
    | nil => rfl
    | cons t ts => simp [List.dropWhile_cons, htl t ts rfl]
  | cons x xs ih =>
    have hx := h x (by simp)
    subst hx
    simp only [List.cons_append, List.dropWhile_cons, decide_true, if_true]
    exact ih (fun y hy => h y (by simp [hy]))

theorem specUndelim_tok (sps : List Tok) (t : Tok) (rest : List Tok) (h : ∀ x ∈ sps, x = .sp)
    (h1 : t ≠ .sp) (h2 : t ≠ .bg) (h3 : t ≠ .eg) :
    specUndelim (sps ++ t :: rest) = some ([t], rest) := by
  unfold specUndelim
  rw [dropWhile_sp_append sps (t :: rest) h (by intro a b hab; cases hab; exact h1)]
  cases t <;> simp_all

theorem specUndelim_group (sps a rest : List Tok) (h : ∀ x ∈ sps, x = .sp) (ha : Balanced a) :
    specUndelim (sps ++ .bg :: a ++ .eg :: rest) = some (a, rest) := by
  unfold specUndelim
  have e : sps ++ Tok.bg :: a ++ Tok.eg :: rest = sps ++ (Tok.bg :: (a ++ Tok.eg :: rest)) := by simp
  rw [e, dropWhile_sp_append sps _ h (by intro x y hxy; cases hxy; simp)]
  simp only
  have := specGroupFrom_complete a [] rest 0 rfl ha
  simpa using this

end C02
