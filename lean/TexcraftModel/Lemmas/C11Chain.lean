/-
C11 — lemmas about the SKIP/STOP chain walk (`chain`) under prepending and appending
instructions: the geometric core of "every character starts the same chain after packing".
-/
import TexcraftModel.Model.C11

namespace C11

theorem chain_nil (e : Nat) : chain e [] = [] := by
  cases e <;> simp [chain]

/-- Instructions put in front shift every chain by their number. -/
theorem chain_append_left (pre l : List Instr) (e : Nat) :
    chain (pre.length + e) (pre ++ l) = chain e l := by
  induction pre with
  | nil => simp
  | cons a pre ih =>
    have : (a :: pre).length + e = (pre.length + e) + 1 := by simp; omega
    rw [this]
    simp only [List.cons_append, chain]
    exact ih

theorem closed_cons {i : Instr} {rest : List Instr} (h : closed (i :: rest) = true) :
    (∀ s, i.next = some s → s < rest.length) ∧ closed rest = true := by
  simp only [closed, Bool.and_eq_true] at h
  refine ⟨?_, h.2⟩
  intro s hs
  have h1 := h.1
  rw [hs] at h1
  simpa using h1

/-- Instructions appended behind a table whose SKIPs stay inside it are never reached. -/
theorem chain_append_right (l post : List Instr) (e : Nat) (hc : closed l = true)
    (he : e < l.length) : chain e (l ++ post) = chain e l := by
  induction l generalizing e with
  | nil => simp at he
  | cons i rest ih =>
    obtain ⟨hnext, hrest⟩ := closed_cons hc
    cases e with
    | zero =>
      simp only [List.cons_append, chain]
      cases hn : i.next with
      | none => rfl
      | some inc =>
        simp only
        rw [ih inc hrest (hnext inc hn)]
    | succ s =>
      simp only [List.cons_append, chain]
      exact ih s hrest (by simpa using he)

/-- Both at once: the table embedded between new words. -/
theorem chain_embedded (pre l post : List Instr) (e : Nat) (hc : closed l = true)
    (he : e < l.length) : chain (pre.length + e) (pre ++ l ++ post) = chain e l := by
  rw [List.append_assoc, chain_append_left, chain_append_right l post e hc he]

end C11
