import TexcraftModel.Model.C04

/-! Helper lemmas for C04 (reference optimiser). Core Lean only. -/
namespace C04

/-! ### `minOpt` is the minimum of the `some` entries -/

theorem minOpt_some {l : List (Option Int)} {c : Int} (h : minOpt l = some c) : some c ∈ l := by
  induction l generalizing c with
  | nil => simp [minOpt] at h
  | cons a t ih =>
    simp only [minOpt, List.foldr_cons] at h
    have ht : minOpt t = List.foldr optMin none t := rfl
    rw [← ht] at h
    cases a with
    | none =>
      simp only [optMin] at h
      exact List.mem_cons_of_mem _ (ih h)
    | some a =>
      cases hm : minOpt t with
      | none => rw [hm] at h; simp only [optMin] at h; cases h; simp
      | some b =>
        rw [hm] at h
        simp only [optMin, Option.some.injEq] at h
        by_cases hab : a ≤ b
        · have : min a b = a := Int.min_eq_left hab
          rw [this] at h; subst h; simp
        · have : min a b = b := Int.min_eq_right (by omega)
          rw [this] at h; subst h
          exact List.mem_cons_of_mem _ (ih hm)

theorem minOpt_le {l : List (Option Int)} {c' : Int} (h : some c' ∈ l) :
    ∃ c, minOpt l = some c ∧ c ≤ c' := by
  induction l with
  | nil => simp at h
  | cons a t ih =>
    simp only [minOpt, List.foldr_cons]
    have ht : List.foldr optMin none t = minOpt t := rfl
    rw [ht]
    rcases List.mem_cons.mp h with rfl | h
    · cases hm : minOpt t with
      | none => exact ⟨c', by simp [optMin], Int.le_refl _⟩
      | some b => exact ⟨min c' b, by simp [optMin], Int.min_le_left _ _⟩
    · obtain ⟨c, hc, hle⟩ := ih h
      rw [hc]
      cases a with
      | none => exact ⟨c, by simp [optMin], hle⟩
      | some a => exact ⟨min a c, by simp [optMin], Int.le_trans (Int.min_le_right _ _) hle⟩

theorem minOpt_none {l : List (Option Int)} (h : minOpt l = none) : ∀ c, some c ∉ l := by
  intro c hc
  obtain ⟨c0, h0, _⟩ := minOpt_le hc
  rw [h] at h0; cases h0

/-! ### Index arithmetic -/

theorem Fit.toNat_lt (f : Fit) : f.toNat < 4 := by cases f <;> decide
theorem Fit.ofIdx_toNat (f : Fit) : Fit.ofIdx f.toNat = f := by cases f <;> rfl
theorem Fit.mem_all (f : Fit) : f ∈ Fit.all := by cases f <;> simp [Fit.all]

theorem idx_div (pos : Option Nat) (f : Fit) : idx pos f / 4 = posIdx pos := by
  unfold idx; have := f.toNat_lt; omega
theorem idx_mod (pos : Option Nat) (f : Fit) : idx pos f % 4 = f.toNat := by
  unfold idx; have := f.toNat_lt; omega
theorem idxPos_posIdx (pos : Option Nat) : idxPos (posIdx pos) = pos := by
  cases pos <;> rfl

theorem idx_lt (x : Inst) (pos : Option Nat) (f : Fit) (h : posIdx pos ≤ x.n + 1) :
    idx pos f < rowSize x := by
  unfold idx rowSize; have := f.toNat_lt; omega

/-! ### Reading the rows -/

theorem lookup_mk (l : List (Option Int)) (pos : Option Nat) (f : Fit) :
    lookup l.toArray pos f = (l[idx pos f]?).join := by
  simp [lookup]

theorem lookup_row0 (x : Inst) (pos : Option Nat) (f : Fit) (c : Int)
    (h : lookup (row0 x) pos f = some c) : pos = none ∧ f = .decent ∧ c = 0 := by
  unfold row0 at h
  rw [lookup_mk] at h
  simp only [List.getElem?_map] at h
  cases hr : (List.range (rowSize x))[idx pos f]? with
  | none => simp [hr] at h
  | some i =>
    have hi : i = idx pos f := by
      have := List.getElem?_range (n := rowSize x) (i := idx pos f)
      rcases Nat.lt_or_ge (idx pos f) (rowSize x) with hlt | hge
      · rw [List.getElem?_range hlt] at hr; cases hr; rfl
      · rw [List.getElem?_eq_none (by simpa using hge)] at hr; cases hr
    simp only [hr, Option.map_some] at h
    subst hi
    split at h
    · rename_i heq
      cases h
      have h1 := congrArg (· / 4) heq
      have h2 := congrArg (· % 4) heq
      simp only [idx_div, idx_mod] at h1 h2
      refine ⟨?_, ?_, rfl⟩
      · cases pos <;> simp_all [posIdx]
      · cases f <;> simp_all [Fit.toNat]
    · cases h

theorem lookup_row0_init (x : Inst) : lookup (row0 x) none .decent = some 0 := by
  unfold row0
  rw [lookup_mk]
  have hlt : idx none .decent < rowSize x := idx_lt x none .decent (by simp [posIdx])
  simp [List.getElem?_map, List.getElem?_range hlt]

theorem lookup_row_succ (x : Inst) (L : Nat) (pos : Option Nat) (f : Fit)
    (h : posIdx pos ≤ x.n + 1) :
    lookup (row x (L + 1)) pos f = cell x (row x L) L (idx pos f) := by
  have hlt := idx_lt x pos f h
  simp only [row]
  rw [lookup_mk]
  simp [List.getElem?_map, List.getElem?_range hlt]

theorem lookup_row_succ_oob (x : Inst) (L : Nat) (pos : Option Nat) (f : Fit)
    (h : ¬ posIdx pos ≤ x.n + 1) : lookup (row x (L + 1)) pos f = none := by
  have hge : rowSize x ≤ idx pos f := by
    unfold idx rowSize; omega
  simp only [row]
  rw [lookup_mk]
  rw [List.getElem?_eq_none (by simpa using hge)]
  rfl

theorem cell_some (x : Inst) (r : Row) (L b : Nat) (f : Fit) (hb : (breakInfo x b).isSome) :
    cell x r L (idx (some b) f) =
      minOpt ((preds b).flatMap fun prev => Fit.all.map fun f' => cand x r L prev f' b f) := by
  unfold cell
  rw [idx_div, idx_mod, idxPos_posIdx, Fit.ofIdx_toNat]
  cases hbi : breakInfo x b with
  | none => simp [hbi] at hb
  | some _ => simp only [hbi]

theorem cell_illegal (x : Inst) (r : Row) (L b : Nat) (f : Fit) (hb : breakInfo x b = none) :
    cell x r L (idx (some b) f) = none := by
  unfold cell
  rw [idx_div, idxPos_posIdx]
  simp [hb]

theorem lineEval_break {x : Inst} {a : Option Nat} {L b : Nat} {r : Int × Fit}
    (h : lineEval x a L b = some r) : (breakInfo x b).isSome := by
  unfold lineEval at h
  split at h
  · cases h
  · rename_i hbi; simp [hbi]

theorem cell_none (x : Inst) (r : Row) (L : Nat) (f : Fit) : cell x r L (idx none f) = none := by
  unfold cell
  rw [idx_div, idxPos_posIdx]

/-! ### Facts about feasible lines -/

theorem lineEval_some {x : Inst} {a : Option Nat} {L b : Nat} {r : Int × Fit}
    (h : lineEval x a L b = some r) : lt? a b = true ∧ b ≤ x.n := by
  unfold lineEval at h
  split at h
  · cases h
  · split at h
    · rename_i hc; exact ⟨hc.1, hc.2.1⟩
    · cases h

theorem mem_preds {a : Option Nat} {b : Nat} (h : lt? a b = true) : a ∈ preds b := by
  cases a with
  | none => simp [preds]
  | some a =>
    have : a < b := by simpa [lt?] using h
    simp [preds, this]

/-! ### `run` extends on the right -/

theorem run_append_one (x : Inst) (st : St) (s : List Nat) (b : Nat) :
    run x st (s ++ [b]) =
      (match run x st s with
       | none => none
       | some (c, st') =>
         match lineEval x st'.pos st'.L b with
         | none => none
         | some (bad, fit) => some (c + demerits x st'.pos st'.fit b bad fit, ⟨some b, st'.L + 1, fit⟩)) := by
  induction s generalizing st with
  | nil =>
    simp only [List.nil_append, run]
    cases lineEval x st.pos st.L b with
    | none => rfl
    | some r => obtain ⟨bad, fit⟩ := r; simp
  | cons a t ih =>
    simp only [List.cons_append, run]
    cases hl : lineEval x st.pos st.L a with
    | none => rfl
    | some r =>
      obtain ⟨bad, fit⟩ := r
      simp only
      rw [ih]
      cases hr : run x ⟨some a, st.L + 1, fit⟩ t with
      | none => rfl
      | some q =>
        obtain ⟨c, st'⟩ := q
        simp only
        cases lineEval x st'.pos st'.L b with
        | none => rfl
        | some r2 => obtain ⟨bad2, fit2⟩ := r2; simp only; congr 2; omega

/-- Along any run the line counter is the number of breaks taken, and the position stays in range. -/
theorem run_L {x : Inst} {st st' : St} {s : List Nat} {c : Int} (h : run x st s = some (c, st')) :
    st'.L = st.L + s.length := by
  induction s generalizing st c with
  | nil => simp [run] at h; rw [← h.2]; simp
  | cons a t ih =>
    simp only [run] at h
    split at h
    · cases h
    · rename_i bad fit _
      split at h
      · cases h
      · rename_i c2 st2 hr
        cases h
        have := ih hr
        simp at this ⊢; omega

theorem run_pos {x : Inst} {st st' : St} {s : List Nat} {c : Int} (h : run x st s = some (c, st'))
    (h0 : posIdx st.pos ≤ x.n + 1) : posIdx st'.pos ≤ x.n + 1 := by
  induction s generalizing st c with
  | nil => simp [run] at h; rw [← h.2]; exact h0
  | cons a t ih =>
    simp only [run] at h
    split at h
    · cases h
    · rename_i bad fit hl
      split at h
      · cases h
      · rename_i c2 st2 hr
        cases h
        have hb := (lineEval_some hl).2
        exact ih hr (by simp [posIdx]; omega)

end C04
