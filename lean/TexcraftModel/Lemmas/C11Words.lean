/-
C11 — words: `decodeWord ∘ encodeWord = id` on instructions the format can hold, the skip
byte 255 test of the reader agrees with `skip255` (so `pack_boundary`'s `readRb`/`readLb`
are what TeX reads from the encoded words), and `ligSafe` is sound for `C05.rule`.
-/
import TexcraftModel.Model.C05
import TexcraftModel.Model.C11
import TexcraftModel.Model.C11Bridge
import TexcraftModel.Model.C11Words
import TexcraftModel.Lemmas.C11Rule

namespace C11

theorem decodePost_encodePost (p : Nat) (h : p < 8) : decodePost (encodePost p) = p := by
  have : p = 0 ∨ p = 1 ∨ p = 2 ∨ p = 3 ∨ p = 4 ∨ p = 5 ∨ p = 6 ∨ p = 7 := by omega
  rcases this with rfl | rfl | rfl | rfl | rfl | rfl | rfl | rfl <;> rfl

theorem encodePost_lt (p : Nat) : encodePost p < 128 := by
  unfold encodePost
  split <;> omega

theorem encodeWord_ok {rb : Option Nat} {i : Instr} {w : Word} (he : encodeWord rb i = some w) :
    wordOk i = true := by
  simp only [encodeWord] at he
  split at he
  · simp at he
  · rename_i h; simpa using h

/-- `encodeWord` without its representability test. -/
def encodeRaw (rb : Option Nat) (i : Instr) : Option Word :=
  let first := (i.next.getD 128, i.right)
  match i.op with
  | .kern _ => none
  | .kernAt idx => some ⟨first.1, first.2, idx / 256 + 128, idx % 256⟩
  | .lig c p => some ⟨first.1, first.2, encodePost p, c⟩
  | .redirect u flag =>
    let h : Nat × Nat := if flag then (match rb with | none => (254, 0) | some c => (255, c)) else (255, 0)
    some ⟨h.1, h.2, u / 256, u % 256⟩

theorem encodeWord_raw {rb : Option Nat} {i : Instr} {w : Word} (he : encodeWord rb i = some w) :
    encodeRaw rb i = some w := by
  have hok := encodeWord_ok he
  simp only [encodeWord, hok, Bool.not_true, Bool.false_eq_true, if_false] at he
  exact he

theorem next_getD (next : Option Nat) (h : match next with | none => True | some s => s < 128) :
    ¬ next.getD 128 > 128 ∧ (if next.getD 128 < 128 then some (next.getD 128) else none) = next := by
  cases next with
  | none => simp
  | some s => simp at h; simp [h]; omega

/-- **word_roundtrip.** Decoding an encoded LIG/KRN step gives the step back. -/
theorem word_roundtrip_step (rb : Option Nat) (i : Instr) (w : Word) (hok : wordOk i = true)
    (hop : i.op.isRedirect = false) (he0 : encodeWord rb i = some w) : decodeWord w = i := by
  have he := encodeWord_raw he0
  clear he0
  obtain ⟨next, right, op⟩ := i
  simp only [wordOk, Bool.and_eq_true, decide_eq_true_eq] at hok
  obtain ⟨⟨hnext, _⟩, hopk⟩ := hok
  have hn := next_getD next (by cases next <;> simp_all)
  cases op with
  | kern k => simp at hopk
  | redirect u f => simp [Op.isRedirect] at hop
  | kernAt idx =>
    simp only [decide_eq_true_eq] at hopk
    simp only [encodeRaw, Option.some.injEq] at he
    subst he
    have h2 : idx / 256 + 128 ≥ 128 := by omega
    simp only [decodeWord, hn.1, if_false, h2, if_true, hn.2, Instr.mk.injEq, true_and, Op.kernAt.injEq]
    omega
  | lig c p =>
    simp only [Bool.and_eq_true, decide_eq_true_eq] at hopk
    simp only [encodeRaw, Option.some.injEq] at he
    subst he
    have h2 : ¬ encodePost p ≥ 128 := by have := encodePost_lt p; omega
    simp only [decodeWord, hn.1, if_false, h2, decodePost_encodePost p hopk.2, hn.2]

/-- A redirect word decodes to an unconditional stop with the same restart address (the
right-character byte carries the boundary character, not the instruction's field). -/
theorem word_roundtrip_redirect (rb : Option Nat) (next : Option Nat) (right u : Nat) (flag : Bool) (w : Word)
    (hu : u < 65536) (he0 : encodeWord rb ⟨next, right, .redirect u flag⟩ = some w) :
    decodeWord w = ⟨none, w.b1, .redirect u true⟩ := by
  have he := encodeWord_raw he0
  clear he0
  simp only [encodeRaw, Option.some.injEq] at he
  subst he
  have := Nat.div_add_mod u 256
  cases flag <;> cases rb <;> simp [decodeWord] <;> omega

/-- The reader's "skip byte = 255" test on an encoded word is `skip255` of `Model/C11.lean`. -/
theorem skip255_encode (rb : Option Nat) (i : Instr) (w : Word) (hok : wordOk i = true)
    (he0 : encodeWord rb i = some w) : (w.b0 = 255) ↔ skip255 rb i = true := by
  have he := encodeWord_raw he0
  clear he0
  obtain ⟨next, right, op⟩ := i
  simp only [wordOk, Bool.and_eq_true, decide_eq_true_eq] at hok
  obtain ⟨⟨hnext, _⟩, hopk⟩ := hok
  have hn := next_getD next (by cases next <;> simp_all)
  cases op with
  | kern k => simp at hopk
  | kernAt idx =>
    simp only [encodeRaw, Option.some.injEq] at he
    subst he
    simp only [skip255]
    constructor
    · intro h; omega
    · intro h; simp at h
  | lig c p =>
    simp only [encodeRaw, Option.some.injEq] at he
    subst he
    simp only [skip255]
    constructor
    · intro h; omega
    · intro h; simp at h
  | redirect u flag =>
    simp only [encodeRaw, Option.some.injEq] at he
    subst he
    cases flag <;> cases rb <;> simp [skip255]

/-- `ligSafe` is sound for the rule function: a seven-bit left character and a seven-bit
right character never have a ligature rule that inserts an eight-bit character. -/
theorem ligSafe_sound (instrs : List Instr) (lb rb : Option Nat) (entries : List (Nat × Nat)) (ks : List Int)
    (h : ligSafe instrs entries = true) (c r z : Nat) (p : C05.PostLig) (hc : c < 128) (hr : r < 128)
    (hrule : C05.rule (toC05 ⟨instrs, lb, rb⟩ entries ks) (some c) r = some (.lig z p)) : z < 128 := by
  simp only [C05.rule, C05.rawRule, C05.entryOf, toC05] at hrule
  cases hf : entries.find? (fun x => x.1 = c) with
  | none => simp [hf] at hrule
  | some ce =>
    have hce : ce ∈ entries := List.mem_of_find?_eq_some hf
    have hck : ce.1 = c := by simpa using List.find?_some hf
    simp only [hf, Option.map_some] at hrule
    rw [findInstr_chain] at hrule
    cases hfi : (chain ce.2 instrs).find? (fun i => i.right = r) with
    | none => simp [hfi] at hrule
    | some i =>
      have him : i ∈ chain ce.2 instrs := List.mem_of_find?_eq_some hfi
      have hir : i.right = r := by simpa using List.find?_some hfi
      simp only [hfi, Option.map_some, Option.bind_some, toC05Instr] at hrule
      simp only [ligSafe, List.all_eq_true, Bool.or_eq_true, decide_eq_true_eq] at h
      have h1 := h ce hce
      rcases h1 with h1 | h1
      · omega
      · have h2 := h1 i him
        rcases h2 with h2 | h2
        · omega
        · cases hop : i.op with
          | kern k => simp [hop, toC05Op, C05.resolveOp] at hrule
          | kernAt k => simp [hop, toC05Op, C05.resolveOp] at hrule
          | redirect u f => simp [hop, toC05Op, C05.resolveOp] at hrule
          | lig z' p' =>
            simp only [hop, toC05Op, C05.resolveOp, Option.some.injEq, C05.Op.lig.injEq] at hrule
            simp only [hop, decide_eq_true_eq] at h2
            omega

end C11
