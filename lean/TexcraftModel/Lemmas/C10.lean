import TexcraftModel.Model.C10

/-! Helper lemmas for C10: sixteen-bit words, checked sums, the slicing loop. -/
namespace C10

/-! ## Sixteen-bit words -/

def InI16 (x : Int) : Prop := -32768 ≤ x ∧ x ≤ 32767

theorem i16OfBytes_range (hi lo : Nat) : InI16 (i16OfBytes hi lo) := by
  unfold i16OfBytes InI16
  simp only []
  split <;> omega

/-- Decoding the two bytes written for a non-negative sixteen-bit value gives it back. -/
theorem i16_roundtrip (x : Int) (h0 : 0 ≤ x) (h1 : x ≤ 32767) (t : List Nat) (n : Nat) :
    words (n + 1) (i16ToBytes x ++ t) = (words n t).map (x :: ·) := by
  have hx : i16OfBytes ((x % 65536).toNat / 256) ((x % 65536).toNat % 256) = x := by
    unfold i16OfBytes
    simp only []
    split <;> omega
  simp only [i16ToBytes, List.cons_append, List.nil_append, words, hx]
  cases words n t <;> rfl

theorem words_length : ∀ (n : Nat) (l : List Nat) (r : List Int), words n l = some r → r.length = n
  | 0, _, r, h => by simp [words] at h; simp [← h]
  | n + 1, [], r, h => by simp [words] at h
  | n + 1, [_], r, h => by simp [words] at h
  | n + 1, hi :: lo :: t, r, h => by
    simp only [words] at h
    split at h
    · rename_i r' hr
      have := words_length n t r' hr
      simp at h
      simp [← h, this]
    · simp at h

theorem words_some : ∀ (n : Nat) (l : List Nat), 2 * n ≤ l.length → ∃ r, words n l = some r
  | 0, _, _ => ⟨[], by simp [words]⟩
  | n + 1, [], h => by simp only [List.length_nil] at h; omega
  | n + 1, [_], h => by simp only [List.length_cons, List.length_nil] at h; omega
  | n + 1, hi :: lo :: t, h => by
    have h' : 2 * n ≤ t.length := by simp at h; omega
    obtain ⟨r, hr⟩ := words_some n t h'
    exact ⟨i16OfBytes hi lo :: r, by simp [words, hr]⟩

theorem words_range : ∀ (n : Nat) (l : List Nat) (r : List Int), words n l = some r → ∀ x ∈ r, InI16 x
  | 0, _, r, h => by
    have : r = [] := by simpa [words] using h.symm
    subst this; simp
  | n + 1, [], r, h => by simp [words] at h
  | n + 1, [_], r, h => by simp [words] at h
  | n + 1, hi :: lo :: t, r, h => by
    simp only [words] at h
    split at h
    · rename_i r' hr
      have ih := words_range n t r' hr
      simp at h
      subst h
      intro x hx
      simp at hx
      rcases hx with rfl | hx
      · exact i16OfBytes_range hi lo
      · exact ih x hx
    · simp at h

/-- All twelve fields are sixteen-bit values. -/
def Sizes.InRange (s : Sizes) : Prop := ∀ x ∈ s.toList, InI16 x

theorem sizesOf_some (hdr : List Nat) (h : 24 ≤ hdr.length) : ∃ s, sizesOf hdr = some s := by
  obtain ⟨r, hr⟩ := words_some 12 hdr (by omega)
  have hl := words_length 12 hdr r hr
  match r, hl with
  | [lf, lh, bc, ec, nw, nh, nd, ni, nl, nk, ne, np], _ =>
    exact ⟨⟨lf, lh, bc, ec, nw, nh, nd, ni, nl, nk, ne, np⟩, by simp [sizesOf, hr]⟩

theorem sizesOf_range (hdr : List Nat) (s : Sizes) (h : sizesOf hdr = some s) : s.InRange := by
  unfold sizesOf at h
  split at h
  · rename_i lf lh bc ec nw nh nd ni nl nk ne np hr
    simp at h
    subst h
    exact words_range 12 hdr _ hr
  · simp at h

/-- The first field is the word made of the first two bytes. -/
theorem sizesOf_lf (b0 b1 : Nat) (t : List Nat) (s : Sizes) (h : sizesOf (b0 :: b1 :: t) = some s) :
    s.lf = i16OfBytes b0 b1 := by
  unfold sizesOf at h
  split at h
  · rename_i lf lh bc ec nw nh nd ni nl nk ne np hr
    simp at h
    subst h
    simp only [words] at hr
    split at hr
    · simp at hr; exact hr.1.symm
    · simp at hr
  · simp at h

/-! ## Checked sums -/

theorem addW_some (lim a b : Int) (h : -lim ≤ a + b ∧ a + b < lim) : addW lim a b = some (a + b) := by
  simp [addW, h]

theorem addW_eq (lim a b r : Int) (h : addW lim a b = some r) : r = a + b := by
  unfold addW at h
  simp only [] at h
  split at h <;> simp at h
  exact h.symm

/-! ## The slicing loop -/

def sumI : List Int → Int
  | [] => 0
  | x :: xs => x + sumI xs

theorem sumI_nonneg : ∀ (us : List Int), (∀ u ∈ us, 0 ≤ u) → 0 ≤ sumI us
  | [], _ => by simp [sumI]
  | u :: us, h => by
    have h1 : 0 ≤ u := h u (by simp)
    have h2 := sumI_nonneg us (fun x hx => h x (by simp [hx]))
    simp [sumI]; omega

/-- When every count is non-negative and the total fits, the loop succeeds and returns the
consecutive slices. -/
theorem getSlices_eq (len : Nat) : ∀ (us : List Int) (pos : Nat), (∀ u ∈ us, 0 ≤ u) →
    (pos : Int) + 4 * sumI us ≤ len → getSlices len pos us = some (slicesFrom pos us)
  | [], _, _, _ => by simp [getSlices, slicesFrom]
  | u :: us, pos, hn, hs => by
    have h1 : 0 ≤ u := hn u (by simp)
    have hn' : ∀ x ∈ us, 0 ≤ x := fun x hx => hn x (by simp [hx])
    have h2 := sumI_nonneg us hn'
    simp only [sumI] at hs
    have ih := getSlices_eq len us (pos + u.toNat * 4) hn' (by omega)
    have hlt : ¬ (len < pos + u.toNat * 4) := by omega
    simp [getSlices, slicesFrom, ih, hlt, Int.not_lt.mpr h1]

/-- Whatever the loop returns is a tiling that stays inside the file. -/
theorem getSlices_tiles (len : Nat) : ∀ (us : List Int) (pos : Nat) (sl : List Slice),
    getSlices len pos us = some sl → pos ≤ len →
      Tiles pos sl us ∧ lastStop pos sl ≤ len ∧ (lastStop pos sl : Int) = pos + 4 * sumI us
  | [], pos, sl, h, hp => by
    simp [getSlices] at h
    subst h
    simp [Tiles, lastStop, sumI, hp]
  | u :: us, pos, sl, h, hp => by
    simp only [getSlices] at h
    split at h
    · simp at h
    · rename_i hu
      split at h
      · simp at h
      · rename_i hlen
        split at h
        · simp at h
        · rename_i r hr
          simp at h
          subst h
          have ⟨t1, t2, t3⟩ := getSlices_tiles len us (pos + u.toNat * 4) r hr (by omega)
          simp only [Tiles, lastStop, sumI]
          refine ⟨⟨trivial, ?_, ?_, t1⟩, t2, ?_⟩ <;> omega

theorem slicesFrom_length : ∀ (us : List Int) (pos : Nat), (slicesFrom pos us).length = us.length
  | [], _ => rfl
  | _ :: us, pos => by simp [slicesFrom, slicesFrom_length us]

theorem tilesB_iff : ∀ (pos : Nat) (sl : List Slice) (ns : List Int), tilesB pos sl ns = true ↔ Tiles pos sl ns
  | _, [], [] => by simp [tilesB, Tiles]
  | _, [], _ :: _ => by simp [tilesB, Tiles]
  | _, _ :: _, [] => by simp [tilesB, Tiles]
  | pos, s :: sl, n :: ns => by
    simp [tilesB, Tiles, tilesB_iff s.stop sl ns, and_assoc]

end C10
