import TexcraftModel.Lemmas.C14Recon

/-! The reconstitution model never panics and never hangs: `rebuildWord … ≠ none` for every
engine that spells and ends every run at a separation point. -/
namespace C14

/-- The value `is_separation_point()` has once the iterator is exhausted. -/
def finalSep : Bool → List (Node × Bool) → Bool
  | s, [] => s
  | _, (_, f) :: t => finalSep f t

/-- An iterator that will be at a separation point when it is exhausted. -/
def IterOK (i : Iter) : Prop := finalSep i.sep i.rest = true

/-- Second law of the engine: every run ends at a separation point (nothing is pending when the
iterator is exhausted). -/
structure EngineSep (eng : Engine) : Prop where
  lastSep : ∀ dlb rbo w, finalSep true (eng.run dlb rbo w) = true

theorem finalSep_advance (s : Bool) (l : List (Node × Bool)) :
    finalSep (sepAfter s l) (advanceL l).2 = finalSep s l := by
  induction l generalizing s with
  | nil => rfl
  | cons x l ih =>
    obtain ⟨n, f⟩ := x
    cases f with
    | true => simp [sepAfter, advanceL, finalSep]
    | false => simp only [sepAfter, advanceL, Bool.false_eq_true, if_false, finalSep]; exact ih false

theorem sepAfter_true (s : Bool) (l : List (Node × Bool)) (hl : l ≠ []) (h : finalSep s l = true) :
    sepAfter s l = true := by
  induction l generalizing s with
  | nil => exact absurd rfl hl
  | cons x l ih =>
    obtain ⟨n, f⟩ := x
    cases f with
    | true => simp [sepAfter]
    | false =>
      simp only [sepAfter, Bool.false_eq_true, if_false]
      cases l with
      | nil => simp [finalSep] at h
      | cons y t => exact ih false (by simp) (by simpa [finalSep] using h)

theorem advanceL_length (l : List (Node × Bool)) (hl : l ≠ []) : (advanceL l).2.length < l.length := by
  induction l with
  | nil => exact absurd rfl hl
  | cons x l ih =>
    obtain ⟨n, f⟩ := x
    cases f with
    | true => simp [advanceL]
    | false =>
      simp only [advanceL, Bool.false_eq_true, if_false, List.length_cons]
      cases l with
      | nil => simp [advanceL]
      | cons y t => have := ih (by simp); omega

theorem advanceL_length_le (l : List (Node × Bool)) : (advanceL l).2.length ≤ l.length := by
  cases l with
  | nil => simp [advanceL]
  | cons x t => exact Nat.le_of_lt (advanceL_length _ (by simp))

theorem IterOK_advance (i : Iter) (h : IterOK i) : IterOK (advance i).2 := by
  simp only [IterOK, advance]; rw [finalSep_advance]; exact h

theorem advance_sep (i : Iter) (h : IterOK i) (hl : i.rest ≠ []) : (advance i).2.sep = true :=
  sepAfter_true _ _ hl h

theorem IterOK_nil (i : Iter) (h : IterOK i) (hl : i.rest = []) : i.sep = true := by
  simp only [IterOK, hl, finalSep] at h; exact h

/-- Characters still to come. -/
def restChars (i : Iter) : Nat := countChars (i.rest.map (·.1))

theorem restChars_advance (i : Iter) : countChars (advance i).1 + restChars (advance i).2 = restChars i := by
  simp only [restChars]
  rw [← countChars_append, advance_spec]

theorem restChars_pos (i : Iter) (h : 0 < restChars i) : i.rest ≠ [] := by
  intro hn; simp [restChars, hn, countChars] at h

/-! ## The synchronisation loop terminates -/

structure SyncOK (L : Nat) (st : Sync) : Prop where
  postOK : IterOK st.post
  postSep : st.post.sep = true
  mainOK : IterOK st.main
  postCount : st.postCP + restChars st.post = L
  mainCount : st.cp + restChars st.main = L
  pclb : st.pclb = true → st.post.rest ≠ []

theorem sync_total (L : Nat) : ∀ (fuel : Nat) (st : Sync), SyncOK L st →
    st.post.rest.length + st.main.rest.length + 2 ≤ fuel →
    ∃ r, sync fuel st = some r ∧ IterOK r.main ∧ r.main.rest.length ≤ st.main.rest.length := by
  intro fuel
  induction fuel with
  | zero => intro st _ h; omega
  | succ fuel ih =>
    intro st ok hf
    simp only [sync]
    split
    · exact ⟨st, rfl, ok.mainOK, Nat.le_refl _⟩
    · rename_i hexit
      split
      · rename_i hpost
        have hne : st.post.rest ≠ [] := by
          simp only [Bool.or_eq_true, decide_eq_true_eq] at hpost
          rcases hpost with h | h
          · exact ok.pclb h
          · apply restChars_pos
            have := ok.postCount; have := ok.mainCount; omega
        have hlen := advanceL_length st.post.rest hne
        obtain ⟨r, hr, h1, h2⟩ := ih ({ st with pclb := false, post := (advance st.post).2, postCP := st.postCP + countChars (advance st.post).1, postBreak := st.postBreak ++ (advance st.post).1 } : Sync)
          ⟨IterOK_advance _ ok.postOK, advance_sep _ ok.postOK hne, ok.mainOK,
            by have := restChars_advance st.post; have := ok.postCount; simp only; omega,
            ok.mainCount, by intro h; cases h⟩
          (by simp only [advance]; omega)
        exact ⟨r, hr, h1, h2⟩
      · rename_i hpost
        simp only [Bool.or_eq_true, decide_eq_true_eq, not_or, Bool.not_eq_true, Nat.not_lt] at hpost
        have hne : st.main.rest ≠ [] := by
          intro hn
          apply hexit
          have hms := IterOK_nil _ ok.mainOK hn
          have hrc : restChars st.main = 0 := by simp [restChars, hn, countChars]
          have := ok.postCount; have := ok.mainCount
          simp only [Bool.and_eq_true, Bool.not_eq_true', beq_iff_eq]
          exact ⟨⟨⟨hpost.1, by omega⟩, ok.postSep⟩, hms⟩
        have hlen := advanceL_length st.main.rest hne
        obtain ⟨r, hr, h1, h2⟩ := ih ({ st with main := (advance st.main).2, cp := st.cp + countChars (advance st.main).1, pushed := st.pushed ++ (advance st.main).1 } : Sync)
          ⟨ok.postOK, ok.postSep, IterOK_advance _ ok.mainOK, ok.postCount,
            by have := restChars_advance st.main; have := ok.mainCount; simp only; omega,
            ok.pclb⟩
          (by simp only [advance]; omega)
        refine ⟨r, hr, h1, ?_⟩
        simp only [advance] at h2
        omega

/-! ## The word loop never fails -/

theorem insertDisc_length (font : Nat) (out : List (Item × Bool)) (esp : Nat) (pre : List DElem) (r : Sync) :
    (insertDisc font out esp pre r).length = out.length + r.pushed.length + 1 := by
  simp only [insertDisc, List.length_append, List.length_cons, List.length_take, List.length_drop,
    List.length_map]
  omega

/-- The numeric facts that keep the loops out of every `none`. -/
structure Tot (s : List Nat) (w : W) : Prop where
  count : w.cp + restChars w.main = s.length
  iterOK : IterOK w.main
  esp : w.esp ≤ w.out.length
  ssp : w.ssp ≤ w.cp
  sorted : w.pos.Pairwise (· < ·)
  range : ∀ p ∈ w.pos, p < s.length

theorem hyphLoop_total {eng : Engine} {font : Nat} {s : List Nat} {rbo : Option Nat}
    (he : EngineOK eng) (hl : EngineSep eng) :
    ∀ (fuel : Nat) (w : W), Tot s w → w.pos.length + 1 ≤ fuel → (∀ h ∈ w.pos.head?, w.ssp ≤ h) → w.pos ≠ [] →
      ∃ w', hyphLoop eng font s rbo fuel w = some w' ∧ Tot s w' ∧ (∀ p ∈ w'.pos, w'.cp < p) ∧
        w'.main.rest.length ≤ w.main.rest.length := by
  intro fuel
  induction fuel with
  | zero => intro w _ h; omega
  | succ fuel ih =>
    intro w tot hf hssp hne
    simp only [hyphLoop]
    cases hpos : w.pos with
    | nil => exact absurd hpos hne
    | cons h pos' =>
      simp only
      have hsh : w.ssp ≤ h := hssp h (by rw [hpos]; simp)
      have hhs : h < s.length := tot.range h (by rw [hpos]; simp)
      rw [if_neg (by omega), if_neg (by have := tot.esp; omega)]
      -- the synchronisation
      have hpostne : eng.run false rbo (s.drop h) ≠ [] := by
        intro hn
        have := he.spell false rbo (s.drop h)
        rw [hn] at this
        have hlen := congrArg List.length this
        simp [C05.originals] at hlen
        omega
      have ok : SyncOK s.length
          { pclb := eng.hasRepl none (s.drop h).head?, post := ⟨eng.run false rbo (s.drop h), true⟩, postCP := h,
            postBreak := [], main := w.main, cp := w.cp, pushed := [] } := by
        refine ⟨hl.lastSep false rbo (s.drop h), rfl, tot.iterOK, ?_, tot.count, fun _ => hpostne⟩
        simp only [restChars]
        rw [countChars_eq, he.spell, List.length_drop]; omega
      obtain ⟨r, hr, hrOK, hrlen⟩ := sync_total s.length _ _ ok (Nat.le_refl _)
      simp only at hr
      rw [hr]
      simp only
      replace hrlen : r.main.rest.length ≤ w.main.rest.length := hrlen
      obtain ⟨postC, mainC, d⟩ := sync_spec _ _ _ hr
      have hcount : r.cp + restChars r.main = s.length := by
        have e1 := d.cp
        have e2 := congrArg countChars d.mainRest
        rw [countChars_append] at e2
        simp only at e1 e2
        have := tot.count
        simp only [restChars] at this ⊢
        omega
      have hcp : w.cp ≤ r.cp := by have := d.cp; simp only at this; omega
      have houtlen := insertDisc_length font w.out w.esp (preBreak eng font s w.ssp h) r
      have hsorted' : pos'.Pairwise (· < ·) := by
        have := tot.sorted; rw [hpos] at this; exact (List.pairwise_cons.mp this).2
      have hsuffix : ∀ p ∈ skipPast r.cp pos', p ∈ pos' := by
        intro p hp; rw [skipPast_eq] at hp
        exact (List.dropWhile_sublist _).subset hp
      have hsorted2 : (skipPast r.cp pos').Pairwise (· < ·) := by
        rw [skipPast_eq]; exact List.Pairwise.sublist (List.dropWhile_sublist _) hsorted'
      have hrange2 : ∀ p ∈ skipPast r.cp pos', p < s.length := by
        intro p hp; exact tot.range p (by rw [hpos]; simp [hsuffix p hp])
      cases hpos2 : skipPast r.cp pos' with
      | nil =>
        refine ⟨_, rfl, ⟨hcount, hrOK, ?_, ?_, by simp, by simp⟩, by simp, hrlen⟩
        · simp only; have := tot.esp; omega
        · simp only; have := tot.ssp; omega
      | cons h2 t =>
        simp only
        have hh2 : r.cp ≤ h2 := by
          have := dropWhile_head' (fun p => decide (p < r.cp)) pos' h2 t (by rw [← skipPast_eq]; exact hpos2)
          simpa using this
        have hlen2 : (h2 :: t).length ≤ pos'.length := by
          rw [← hpos2, skipPast_eq]; exact (List.dropWhile_sublist _).length_le
        rw [hpos2] at hsorted2 hrange2
        by_cases hgt : h2 > r.cp
        · rw [if_pos hgt]
          refine ⟨_, rfl, ⟨hcount, hrOK, ?_, ?_, hsorted2, hrange2⟩, ?_, hrlen⟩
          · simp only; have := tot.esp; omega
          · simp only; have := tot.ssp; omega
          · simp only
            intro p hp
            rcases List.mem_cons.mp hp with rfl | hpt
            · exact hgt
            · have := (List.pairwise_cons.mp hsorted2).1 p hpt; omega
        · rw [if_neg hgt]
          have heq : h2 = r.cp := by omega
          obtain ⟨w', hw', tot', hgt', hlen'⟩ := ih
            { out := insertDisc font w.out w.esp (preBreak eng font s w.ssp h) r, cp := r.cp, esp := 0,
              ssp := r.cp, pos := h2 :: t, main := r.main }
            ⟨hcount, hrOK, by simp, by simp, hsorted2, hrange2⟩
            (by simp only; rw [hpos] at hf; simp at hf hlen2 ⊢; omega)
            (by simp only; intro x hx; simp at hx; omega)
            (by simp)
          refine ⟨w', hw', tot', hgt', ?_⟩
          simp only at hlen'
          omega

theorem wordLoop_total {eng : Engine} {font : Nat} {s : List Nat} {rbo : Option Nat}
    (he : EngineOK eng) (hl : EngineSep eng) :
    ∀ (fuel : Nat) (w : W), Tot s w → (∀ p ∈ w.pos, w.cp < p) → w.main.rest.length + 1 ≤ fuel →
      ∃ w', wordLoop eng font s rbo fuel w = some w' := by
  intro fuel
  induction fuel with
  | zero => intro w _ _ h; omega
  | succ fuel ih =>
    intro w0 tot0 hgt0 hf0
    simp only [wordLoop]
    generalize hw : (if w0.main.sep = true then { w0 with esp := 0, ssp := w0.cp } else w0) = w
    have hmain : w.main = w0.main := by rw [← hw]; split <;> rfl
    have hout : w.out = w0.out := by rw [← hw]; split <;> rfl
    have hcp : w.cp = w0.cp := by rw [← hw]; split <;> rfl
    have hpos : w.pos = w0.pos := by rw [← hw]; split <;> rfl
    have hesp : w.esp ≤ w.out.length := by
      rw [← hw]; split
      · simp
      · exact tot0.esp
    have hssp : w.ssp ≤ w.cp := by
      rw [← hw]; split
      · simp
      · exact tot0.ssp
    have hgt : ∀ p ∈ w.pos, w.cp < p := by rw [hpos, hcp]; exact hgt0
    have hf : w.main.rest.length + 1 ≤ fuel + 1 := by rw [hmain]; exact hf0
    have hcount : w.cp + restChars w.main = s.length := by rw [hcp, hmain]; exact tot0.count
    have hiok : IterOK w.main := by rw [hmain]; exact tot0.iterOK
    have hsorted : w.pos.Pairwise (· < ·) := by rw [hpos]; exact tot0.sorted
    have hrange : ∀ p ∈ w.pos, p < s.length := by rw [hpos]; exact tot0.range
    cases hrest : w.main.rest with
    | nil => exact ⟨w, rfl⟩
    | cons x t =>
      obtain ⟨n, f⟩ := x
      simp only
      have hcount1 : (w.cp + numChars n) + restChars ⟨t, f⟩ = s.length := by
        simp only [restChars, hrest, List.map_cons, countChars, List.sum_cons] at hcount ⊢
        omega
      have hiok1 : IterOK ⟨t, f⟩ := by
        simp only [IterOK, hrest, finalSep] at hiok ⊢; exact hiok
      have hflen : t.length + 1 ≤ fuel := by rw [hrest] at hf; simp at hf; omega
      have tot1 : Tot s { w with main := ⟨t, f⟩, out := w.out ++ [(toItem font n, false)], cp := w.cp + numChars n, esp := w.esp + 1 } :=
        ⟨hcount1, hiok1, by simp; omega, by simp only; omega, hsorted, hrange⟩
      cases hlc : lastChar n with
      | none =>
        simp only
        have hk : numChars n = 0 := by cases n <;> simp_all [lastChar, numChars]
        exact ih _ tot1 (by intro p hp; have := hgt p hp; simp only; omega) hflen
      | some lc =>
        simp only
        split
        · rename_i hnil
          exact ih _ tot1 (by intro p hp'; rw [show w.pos = [] from hnil] at hp'; cases hp') hflen
        · rename_i h tl hp
          replace hp : w.pos = h :: tl := hp
          have hsuf : (h :: tl).Pairwise (· < ·) := by rw [← hp]; exact hsorted
          split
          · rename_i hbig
            replace hbig : h > w.cp + numChars n := hbig
            refine ih _ tot1 ?_ hflen
            simp only
            intro p hp'
            rw [hp] at hp'
            rcases List.mem_cons.mp hp' with rfl | hpt
            · exact hbig
            · have := (List.pairwise_cons.mp hsuf).1 p hpt; omega
          · rename_i hbig
            replace hbig : ¬ h > w.cp + numChars n := hbig
            have hcpold : w.cp < h := hgt h (by rw [hp]; simp)
            generalize hw2 : (if (h == (w.cp + numChars n) && f && !eng.hasRepl (some lc) (some hyphenChar)) = true then _ else _ : W) = w2
            have hb2 : Tot s w2 ∧ w2.pos = h :: tl ∧ w2.ssp ≤ h ∧ w2.main.rest = t := by
              rw [← hw2]
              split
              · rename_i hc
                simp only [Bool.and_eq_true, beq_iff_eq] at hc
                refine ⟨⟨hcount1, hiok1, by simp, by simp, hsorted, hrange⟩, hp, ?_, rfl⟩
                simp only; omega
              · refine ⟨tot1, hp, ?_, rfl⟩
                simp only; omega
            obtain ⟨w3, hw3, tot3, hgt3, hlen3⟩ := hyphLoop_total (font := font) (rbo := rbo) he hl (w2.pos.length + 1) w2 hb2.1 (Nat.le_refl _)
              (by rw [hb2.2.1]; intro x hx; simp at hx; subst hx; exact hb2.2.2.1) (by rw [hb2.2.1]; simp)
            rw [hw3]
            simp only
            exact ih _ tot3 hgt3 (by rw [hb2.2.2.2] at hlen3; omega)

/-- The model never panics and never hangs. -/
theorem rebuildWord_total {eng : Engine} (he : EngineOK eng) (hl : EngineSep eng) (font : Nat) (s : List Nat)
    (rbo : Option Nat) (dlb : Bool) (pos : List Nat)
    (hsorted : pos.Pairwise (· < ·)) (hrange : ∀ p ∈ pos, 1 ≤ p ∧ p < s.length) :
    ∃ out, rebuildWord eng font s rbo dlb pos = some out := by
  simp only [rebuildWord]
  obtain ⟨w', hw'⟩ := wordLoop_total (font := font) (rbo := rbo) he hl ((eng.run dlb rbo s).length + 1)
    { out := [], cp := 0, esp := 0, ssp := 0, pos := pos, main := ⟨eng.run dlb rbo s, true⟩ }
    ⟨by simp [restChars, countChars_eq, he.spell], hl.lastSep dlb rbo s, by simp, by simp, hsorted,
      fun p hp => (hrange p hp).2⟩
    (fun p hp => (hrange p hp).1) (Nat.le_refl _)
  exact ⟨w'.out, by rw [hw']; rfl⟩

/-! ## C05's compiled programs end every run at a separation point -/

theorem finalSep_append (s : Bool) (a b : List (Node × Bool)) :
    finalSep s (a ++ b) = finalSep (finalSep s a) b := by
  induction a generalizing s with
  | nil => rfl
  | cons x a ih => obtain ⟨n, f⟩ := x; simp only [List.cons_append, finalSep]; exact ih f

theorem finalSep_markSeps (s : Bool) (l : List Node) (last : Bool) (hl : l ≠ []) :
    finalSep s (markSeps l last) = last := by
  induction l generalizing s with
  | nil => exact absurd rfl hl
  | cons x l ih =>
    cases l with
    | nil => rfl
    | cons y t => simp only [markSeps, finalSep]; exact ih false (by simp)

theorem finalSep_markSeps_true (l : List Node) : finalSep true (markSeps l true) = true := by
  cases l with
  | nil => rfl
  | cons x t => exact finalSep_markSeps true _ true (by simp)

theorem drain_length (left : Option Nat) (nl : Bool) :
    ∀ (ops : List C05.IOp) (lg : Option C05.Pending) (cl : Bool),
      (C05.drain left nl ops lg cl).1.length = ops.length := by
  intro ops
  induction ops with
  | nil => intro lg cl; rfl
  | cons op t ih =>
    intro lg cl
    cases op with
    | kern k => simp [C05.drain, ih]
    | ch c =>
      obtain ⟨cc, l⟩ := c
      cases l <;> simp [C05.drain, ih]

/-- With a left character pending the run is non-empty and ends at a separation point; without
one (left boundary) it ends at a separation point or is empty. -/
theorem goLS_finalSep (tbl : Option Nat → Nat → Option C05.Repl) (rb : Option Nat) (ht : C05.GoodTable tbl) :
    ∀ (w : List Nat) (left : Option Nat) (lio : Bool) (lg : Option C05.Pending) (s : Bool),
      (left.isSome = true ∨ s = true) → finalSep s (goLS tbl rb w left lio lg) = true := by
  intro w
  induction w with
  | nil =>
    intro left lio lg s hs
    cases left with
    | none => simpa [goLS, finalSep] using hs
    | some l =>
      simp only [goLS]
      cases hrb : rb.bind (fun r => tbl (some l) r) with
      | none => simp [finalSep]
      | some rep =>
        simp only
        split
        · rw [finalSep_append]; simp [finalSep]
        · rename_i hlig
          obtain ⟨rbc, -, hrep⟩ := Option.bind_eq_some_iff.mp hrb
          have hg := ht _ _ _ hrep
          have hc := C05.hasCh_of_good hg (by simpa using hlig)
          have hne : rep.1 ≠ [] := by intro hn; rw [hn] at hc; simp [C05.hasCh] at hc
          have hdl := drain_length (some l) (!rep.2.lig) rep.1 lg lio
          apply finalSep_markSeps
          intro hn
          rw [hn] at hdl
          simp at hdl
          exact hne (List.eq_nil_of_length_eq_zero hdl.symm)
  | cons r rest ih =>
    intro left lio lg s hs
    simp only [goLS]
    cases tbl left r with
    | none =>
      cases left with
      | none => exact ih _ _ _ _ (Or.inl rfl)
      | some l => simp only [finalSep]; exact ih _ _ _ _ (Or.inl rfl)
    | some rep =>
      simp only
      split
      · rw [finalSep_append]; exact ih _ _ _ _ (Or.inl rfl)
      · rw [finalSep_append]; exact ih _ _ _ _ (Or.inl rfl)

theorem engineOf_sep (tbl : Option Nat → Nat → Option C05.Repl) (prb : Option Nat) (ht : C05.GoodTable tbl) :
    EngineSep (engineOf tbl prb) := by
  constructor
  intro dlb rbo w
  simp only [engineOf]
  cases dlb with
  | false => simp only [Bool.false_eq_true, if_false]; exact goLS_finalSep tbl _ ht w none true none true (Or.inr rfl)
  | true =>
    simp only [if_true]
    cases w with
    | nil => rfl
    | cons c w' => exact goLS_finalSep tbl _ ht w' (some c) true none true (Or.inr rfl)

theorem engineOfProgram_sep (p : C05.Program) : EngineSep (engineOfProgram p) :=
  engineOf_sep _ _ (C05.table_good p)

end C14

namespace C14

theorem advance_sep' (i : Iter) (h : IterOK i) (hs : i.sep = true) : (advance i).2.sep = true := by
  cases hr : i.rest with
  | nil => simp [advance, hr, sepAfter, hs]
  | cons x t => exact advance_sep i h (by rw [hr]; simp)

/-- Why mutant 25 is equivalent: the post-break iterator starts at a separation point and every
advance leaves it at one (its run ends at a separation point), so the conjunct
`post_break_iter.is_separation_point()` of the exit test is always true when the test runs. -/
theorem syncNoPostSep_eq : ∀ (fuel : Nat) (st : Sync), IterOK st.post → st.post.sep = true →
    syncNoPostSep fuel st = sync fuel st := by
  intro fuel
  induction fuel with
  | zero => intro st _ _; rfl
  | succ fuel ih =>
    intro st hok hsep
    simp only [syncNoPostSep, sync, hsep, Bool.and_true]
    split
    · rfl
    · split
      · exact ih _ (IterOK_advance _ hok) (advance_sep' _ hok hsep)
      · exact ih _ hok hsep

end C14
