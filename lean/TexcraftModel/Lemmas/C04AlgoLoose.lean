import TexcraftModel.Lemmas.C04AlgoDom
import TexcraftModel.Lemmas.C04AlgoLoosen

/-!
The end of `C04.algo` for looseness `q ≠ 0`: facts about the final active list (every node is a
complete feasible sequence with `line` lines; every feasible sequence is matched by a node with
the same number of lines; the list is sorted by line number) and the shape of `finish`.
Core Lean only.
-/
namespace C04

theorem nodeInv_line {x : Inst} {i : Nat} {ν : ANode} (h : NodeInv x i ν) :
    ν.path.reverse.length = ν.line := by
  have := run_L h.ok.run
  simp only at this
  omega

theorem ckey_ne {x : Inst} {q : Int} (hq : q ≠ 0) (L : Nat) : ckey x q L = L := by
  simp [ckey, hq]

/-- The final active list when `q ≠ 0`. -/
theorem final_facts (x : Inst) (q : Int) (hq : q ≠ 0) (hd : discOK x = true)
    (hm : monotone x = true) (hW : 0 < x.p.widths.length) (hB : PrefixBounded x) :
    (∀ ν, ν ∈ (mainLoop x q false).active →
        total x ν.path.reverse = some ν.total ∧ ν.path.reverse.length = ν.line) ∧
    (∀ s d, total x s = some d →
        ∃ ν, ν ∈ (mainLoop x q false).active ∧ ν.line = s.length ∧ ν.total ≤ d) ∧
    (mainLoop x q false).active.Pairwise (fun a b => a.line ≤ b.line) := by
  refine ⟨?_, ?_, ?_⟩
  · intro ν hν
    have h := (mainLoop_inv hd q).nodes ν hν
    exact ⟨final_total h, nodeInv_line h⟩
  · intro s d h
    obtain ⟨ν, hν, hk, hle⟩ := final_dominated q hd hm hW hB s d h
    rw [ckey_ne hq, ckey_ne hq] at hk
    exact ⟨ν, hν, hk, hle⟩
  · have h := (loop_oinv q hd hm hW hB (x.n + 1) (Nat.le_refl _)).sorted
    unfold SortedQ at h
    simp only [ckey_ne hq] at h
    exact h

/-- `finish` for `q ≠ 0`, `force_solution = false`. -/
theorem finish_loose (q : Int) (hq : q ≠ 0) (first : ANode) (t : List ANode) :
    finish q false (first :: t) =
      if (loosen q (firstBest first (first :: t)) (first :: t)).2 ≠ q then none
      else some (loosen q (firstBest first (first :: t)) (first :: t)).1.path.reverse := by
  unfold finish
  simp [hq]

end C04
