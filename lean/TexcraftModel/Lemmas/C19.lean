import TexcraftModel.Model.C19

/-! Helper lemmas for C19: the source-stack machine simulates the inlining. -/

namespace C19

/-- `a` reaches `b` in some number of machine steps. -/
def Reaches (fs : FS) (a b : St) : Prop := ∃ n, iter fs n a = b

theorem iter_add (fs : FS) (m n : Nat) (st : St) : iter fs (m + n) st = iter fs n (iter fs m st) := by
  induction m generalizing st with
  | zero => simp [iter]
  | succ m ih => rw [Nat.succ_add]; simp [iter, ih]

theorem Reaches.refl (fs : FS) (a : St) : Reaches fs a a := ⟨0, rfl⟩

theorem Reaches.trans {fs : FS} {a b c : St} (h1 : Reaches fs a b) (h2 : Reaches fs b c) :
    Reaches fs a c := by
  obtain ⟨m, hm⟩ := h1
  obtain ⟨n, hn⟩ := h2
  exact ⟨m + n, by rw [iter_add, hm, hn]⟩

theorem Reaches.step {fs : FS} {a c : St} (h : Reaches fs (step fs a) c) : Reaches fs a c := by
  obtain ⟨n, hn⟩ := h
  exact ⟨n + 1, by simpa [iter] using hn⟩

def wfSrc (wfF : Nat → Bool) (s : Source) : Bool :=
  wfAtoms wfF s.pending && wfItems wfF s.cur && wfLines wfF s.rest

/-- Tokens a source still delivers (with `Lexer::end` semantics). -/
def denSrc (denF : Nat → List Tok) (s : Source) : List Tok :=
  if (denAtoms denF s.pending).2 then (denAtoms denF s.pending).1
  else if (denItems false denF s.cur).2 then (denAtoms denF s.pending).1 ++ (denItems false denF s.cur).1
  else (denAtoms denF s.pending).1 ++ (denItems false denF s.cur).1 ++ denLines false denF s.rest

/-- What is assumed of the files a source at stack height `N` may input. -/
def FilesOK (fs : FS) (N : Nat) (wfF : Nat → Bool) (denF : Nat → List Tok) : Prop :=
  ∀ f, wfF f = true → N ≤ 99 ∧ ∃ file, lookup fs f = some file ∧
    ∀ below' out, below'.length = N + 1 →
      Reaches fs ⟨⟨[], [], file⟩ :: below', out, .running⟩ ⟨below', out ++ denF f, .running⟩

section generic
variable {fs : FS} {N : Nat} {wfF : Nat → Bool} {denF : Nat → List Tok}

theorem pending_run (H : FilesOK fs N wfF denF) :
    ∀ (pending : List Atom) (cur : List Item) (rest : List Line) (below : List Source) (out : List Tok),
      below.length = N → wfAtoms wfF pending = true →
      Reaches fs ⟨⟨pending, cur, rest⟩ :: below, out, .running⟩
        ⟨⟨[], bif (denAtoms denF pending).2 then [] else cur,
              bif (denAtoms denF pending).2 then [] else rest⟩ :: below,
          out ++ (denAtoms denF pending).1, .running⟩ := by
  intro pending
  induction pending with
  | nil => intro cur rest below out _ _; simp [denAtoms]; exact Reaches.refl _ _
  | cons a p ih =>
    intro cur rest below out hlen hwf
    cases a with
    | tok t =>
      apply Reaches.step
      have := ih cur rest below (out ++ [t]) hlen (by simpa [wfAtoms] using hwf)
      simpa [step, exec, denAtoms] using this
    | endinput =>
      apply Reaches.step
      have := ih [] [] below out hlen (by simpa [wfAtoms] using hwf)
      simpa [step, exec, denAtoms] using this
    | input f =>
      simp only [wfAtoms, Bool.and_eq_true] at hwf
      obtain ⟨hN, file, hfile, hreach⟩ := H f hwf.1
      apply Reaches.step
      have h1 := hreach (⟨p, cur, rest⟩ :: below) out (by simp [hlen])
      have h2 := ih cur rest below (out ++ denF f) hlen hwf.2
      have hd : ¬ (below.length + 1 > maxSources) := by simp [maxSources]; omega
      have := Reaches.trans h1 h2
      simpa [step, exec, denAtoms, hfile, hd] using this

theorem cur_run (H : FilesOK fs N wfF denF) :
    ∀ (cur : List Item) (rest : List Line) (below : List Source) (out : List Tok),
      below.length = N → wfItems wfF cur = true →
      Reaches fs ⟨⟨[], cur, rest⟩ :: below, out, .running⟩
        ⟨⟨[], [], bif (denItems false denF cur).2 then [] else rest⟩ :: below,
          out ++ (denItems false denF cur).1, .running⟩ := by
  intro cur
  induction cur with
  | nil => intro rest below out _ _; simp [denItems]; exact Reaches.refl _ _
  | cons it c ih =>
    intro rest below out hlen hwf
    cases it with
    | atom a =>
      cases a with
      | tok t =>
        apply Reaches.step
        have := ih rest below (out ++ [t]) hlen (by simpa [wfItems] using hwf)
        simpa [step, exec, denItems] using this
      | endinput =>
        apply Reaches.step
        simp [step, exec, denItems]
        exact Reaches.refl _ _
      | input f =>
        simp only [wfItems, Bool.and_eq_true] at hwf
        obtain ⟨hN, file, hfile, hreach⟩ := H f hwf.1
        apply Reaches.step
        have h1 := hreach (⟨[], c, rest⟩ :: below) out (by simp [hlen])
        have h2 := ih rest below (out ++ denF f) hlen hwf.2
        have hd : ¬ (below.length + 1 > maxSources) := by simp [maxSources]; omega
        have := Reaches.trans h1 h2
        simpa [step, exec, denItems, hfile, hd] using this
    | call body =>
      simp only [wfItems, Bool.and_eq_true] at hwf
      apply Reaches.step
      have h1 := pending_run H body c rest below out hlen hwf.1
      simp only [step]
      refine Reaches.trans h1 ?_
      by_cases hb : (denAtoms denF body).2 = true
      · simp [hb, denItems]; exact Reaches.refl _ _
      · have h2 := ih rest below (out ++ (denAtoms denF body).1) hlen hwf.2
        simpa [hb, denItems] using h2

theorem lines_run (H : FilesOK fs N wfF denF) :
    ∀ (rest : List Line) (below : List Source) (out : List Tok),
      below.length = N → 1 ≤ N → wfLines wfF rest = true →
      Reaches fs ⟨⟨[], [], rest⟩ :: below, out, .running⟩
        ⟨below, out ++ denLines false denF rest, .running⟩ := by
  intro rest
  induction rest with
  | nil =>
    intro below out hlen hN _
    apply Reaches.step
    cases below with
    | nil => simp at hlen; omega
    | cons b bs => simp [step, denLines]; exact Reaches.refl _ _
  | cons l ls ih =>
    intro below out hlen hN hwf
    simp only [wfLines, Bool.and_eq_true] at hwf
    apply Reaches.step
    have h1 := cur_run H l ls below out hlen hwf.1
    simp only [step]
    refine Reaches.trans h1 ?_
    by_cases hb : (denItems false denF l).2 = true
    · simp only [hb, if_true, denLines]
      apply Reaches.step
      cases below with
      | nil => simp at hlen; omega
      | cons b bs => simp [step]; exact Reaches.refl _ _
    · have h2 := ih below (out ++ (denItems false denF l).1) hlen hN hwf.2
      simpa [hb, denLines] using h2

theorem src_run (H : FilesOK fs N wfF denF) (s : Source) (below : List Source) (out : List Tok)
    (hlen : below.length = N) (hN : 1 ≤ N) (hwf : wfSrc wfF s = true) :
    Reaches fs ⟨s :: below, out, .running⟩ ⟨below, out ++ denSrc denF s, .running⟩ := by
  obtain ⟨pending, cur, rest⟩ := s
  simp only [wfSrc, Bool.and_eq_true] at hwf
  have h1 := pending_run H pending cur rest below out hlen hwf.1.1
  refine Reaches.trans h1 ?_
  by_cases hp : (denAtoms denF pending).2 = true
  · have h3 := lines_run H [] below (out ++ (denAtoms denF pending).1) hlen hN (by simp [wfLines])
    simpa [hp, denSrc, denLines] using h3
  · have h2 := cur_run H cur rest below (out ++ (denAtoms denF pending).1) hlen hwf.1.2
    simp only [hp] at h2 ⊢
    refine Reaches.trans h2 ?_
    by_cases hc : (denItems false denF cur).2 = true
    · have h3 := lines_run H [] below (out ++ (denAtoms denF pending).1 ++ (denItems false denF cur).1) hlen hN (by simp [wfLines])
      simpa [hp, hc, denSrc, denLines] using h3
    · have h3 := lines_run H rest below (out ++ (denAtoms denF pending).1 ++ (denItems false denF cur).1) hlen hN hwf.2
      simpa [hp, hc, denSrc] using h3

end generic

/-- Every budget: a well-formed source at height `N` with `N + d ≤ 100` runs to completion
and delivers its denotation. -/
theorem src_run_depth (fs : FS) : ∀ (d N : Nat), 1 ≤ N → N + d ≤ 100 →
    FilesOK fs N (wfFile fs d) (denFile false fs d) := by
  intro d
  induction d with
  | zero => intro N _ _ f hf; simp [wfFile] at hf
  | succ d ih =>
    intro N hN hle f hf
    refine ⟨by omega, ?_⟩
    simp only [wfFile] at hf
    cases hl : lookup fs f with
    | none => simp [hl] at hf
    | some file =>
      simp only [hl] at hf
      refine ⟨file, rfl, ?_⟩
      intro below' out hlen
      have H := ih (N + 1) (by omega) (by omega)
      have := src_run H ⟨[], [], file⟩ below' out hlen (by omega) (by simp [wfSrc, wfAtoms, wfItems, hf])
      simpa [denSrc, denAtoms, denItems, denFile, hl] using this

theorem step_halted (fs : FS) (srcs : List Source) (out : List Tok) :
    step fs ⟨srcs, out, .halted⟩ = ⟨srcs, out, .halted⟩ := by simp [step]

theorem iter_halted (fs : FS) (n : Nat) (srcs : List Source) (out : List Tok) :
    iter fs n ⟨srcs, out, .halted⟩ = ⟨srcs, out, .halted⟩ := by
  induction n with
  | zero => rfl
  | succ n ih => simp [iter, step_halted, ih]

theorem step_not_running (fs : FS) (st : St) (h : st.status ≠ .running) : step fs st = st := by
  obtain ⟨srcs, out, status⟩ := st
  cases status <;> simp_all [step]

theorem iter_not_running (fs : FS) (n : Nat) (st : St) (h : st.status ≠ .running) : iter fs n st = st := by
  induction n with
  | zero => rfl
  | succ n ih => simp [iter, step_not_running fs st h, ih]

theorem iterFast_eq_iter (fs : FS) : ∀ (n : Nat) (st : St), iterFast fs n st = iter fs n st := by
  intro n
  induction n with
  | zero => intro st; rfl
  | succ n ih =>
    intro st
    by_cases h : st.status = .running
    · simp [iterFast, iter, h, ih]
    · simp only [iterFast, h, if_false]
      exact (iter_not_running fs (n + 1) st h).symm

/-- The whole run of a well-formed program. -/
theorem run_wf (fs : FS) (d : Nat) (main : File) (hd : d ≤ 99) (hwf : WF fs d main = true) :
    ∃ N, ∀ fuel, N ≤ fuel → run fs fuel main = .ok (inlineToks false fs d main) := by
  have H := src_run_depth fs d 1 (by omega) (by omega)
  have h := src_run H ⟨[], [], main⟩ [⟨[], [], []⟩] [] rfl (by omega)
    (by simpa [wfSrc, wfAtoms, wfItems, WF] using hwf)
  obtain ⟨n, hn⟩ := h
  refine ⟨n + 1, ?_⟩
  intro fuel hfuel
  obtain ⟨k, rfl⟩ : ∃ k, fuel = n + (1 + k) := ⟨fuel - (n + 1), by omega⟩
  have h0 : initSt main = ⟨[⟨[], [], main⟩, ⟨[], [], []⟩], [], .running⟩ := rfl
  simp only [run, h0, iter_add, hn]
  simp [iter, step, iter_halted, outcomeOf, denSrc, denAtoms, denItems, inlineToks]

/-! ### plain programs -/

theorem denItems_plain (keep : Bool) (denF : Nat → List Tok) (l : List Tok) :
    denItems keep denF (l.map (fun t => Item.atom (.tok t))) = (l, false) := by
  induction l with
  | nil => simp [denItems]
  | cons t r ih => simp [denItems, ih]

theorem wfItems_plain (wfF : Nat → Bool) (l : List Tok) :
    wfItems wfF (l.map (fun t => Item.atom (.tok t))) = true := by
  induction l with
  | nil => simp [wfItems]
  | cons t r ih => simp [wfItems, ih]

/-! ### `\endinput` at the end of its line: the two inlinings agree -/

theorem denItems_endLast (denF : Nat → List Tok) : ∀ (l : List Item), endLastItems l = true →
    denItems false denF l = denItems true denF l := by
  intro l
  induction l with
  | nil => intro _; rfl
  | cons it r ih =>
    intro h
    cases it with
    | atom a =>
      cases a with
      | tok t => simp only [endLastItems] at h; simp [denItems, ih h]
      | input f => simp only [endLastItems] at h; simp [denItems, ih h]
      | endinput =>
        simp only [endLastItems, List.isEmpty_iff] at h
        subst h; simp [denItems]
    | call body =>
      simp only [endLastItems, Bool.and_eq_true, Bool.or_eq_true, List.isEmpty_iff] at h
      have ihr := ih h.2
      by_cases hb : (denAtoms denF body).2 = true
      · cases h.1 with
        | inl hno =>
          exfalso
          have : ∀ b : List Atom, noEndAtoms b = true → (denAtoms denF b).2 = false := by
            intro b
            induction b with
            | nil => intro _; rfl
            | cons a b ihb =>
              intro hb'
              cases a with
              | tok t => simp only [noEndAtoms] at hb'; simp [denAtoms, ihb hb']
              | input f => simp only [noEndAtoms] at hb'; simp [denAtoms, ihb hb']
              | endinput => simp [noEndAtoms] at hb'
          rw [this body hno] at hb; exact Bool.noConfusion hb
        | inr hr => subst hr; simp [denItems, hb]
      · simp [denItems, hb, ihr]

theorem denLines_endLast (denF : Nat → List Tok) : ∀ (ls : List Line), endLastLines ls = true →
    denLines false denF ls = denLines true denF ls := by
  intro ls
  induction ls with
  | nil => intro _; rfl
  | cons l r ih =>
    intro h
    simp only [endLastLines, Bool.and_eq_true] at h
    simp [denLines, denItems_endLast denF l h.1, ih h.2]

theorem endLast_lookup : ∀ (fs : FS) (f : Nat) (file : File), endLastFS fs = true →
    lookup fs f = some file → endLastLines file = true := by
  intro fs
  induction fs with
  | nil => intro f file _ h; simp [lookup] at h
  | cons p r ih =>
    intro f file h hl
    obtain ⟨g, x⟩ := p
    simp only [endLastFS, Bool.and_eq_true] at h
    simp only [lookup] at hl
    by_cases hg : g = f
    · simp [hg] at hl; subst hl; exact h.1
    · simp [hg] at hl; exact ih f file h.2 hl

theorem denFile_endLast (fs : FS) (h : endLastFS fs = true) : ∀ d, denFile false fs d = denFile true fs d := by
  intro d
  induction d with
  | zero => funext f; simp [denFile]
  | succ d ih =>
    funext f
    simp only [denFile]
    cases hl : lookup fs f with
    | none => rfl
    | some file => simp [ih, denLines_endLast _ file (endLast_lookup fs f file h hl)]

/-! ### `\read` -/

theorem depthAfter_append : ∀ (a b : List Tok) (d d' : Nat), depthAfter a d = some d' →
    depthAfter (a ++ b) d = depthAfter b d' := by
  intro a
  induction a with
  | nil => intro b d d' h; simp [depthAfter] at h; simp [h]
  | cons t r ih =>
    intro b d d' h
    cases t with
    | bg => simp only [List.cons_append, depthAfter] at h ⊢; exact ih b _ _ h
    | eg =>
      cases d with
      | zero => simp [depthAfter] at h
      | succ d => simp only [List.cons_append, depthAfter] at h ⊢; exact ih b _ _ h
    | chr c => simp only [List.cons_append, depthAfter] at h ⊢; exact ih b _ _ h
    | sp => simp only [List.cons_append, depthAfter] at h ⊢; exact ih b _ _ h
    | par => simp only [List.cons_append, depthAfter] at h ⊢; exact ih b _ _ h
    | cs n => simp only [List.cons_append, depthAfter] at h ⊢; exact ih b _ _ h

/-- `scanLine` keeps the invariant "the accumulated tokens have brace depth `d`" and appends a
prefix of the line. -/
theorem scanLine_spec : ∀ (l : List Tok) (d : Nat) (acc : List Tok), depthAfter acc 0 = some d →
    (∀ acc' d', scanLine l d acc = .eol acc' d' → acc' = acc ++ l ∧ depthAfter acc' 0 = some d') ∧
    (∀ acc', scanLine l d acc = .cut acc' → depthAfter acc' 0 = some 0 ∧
        ∃ p q, l = p ++ Tok.eg :: q ∧ acc' = acc ++ p) := by
  intro l
  induction l with
  | nil =>
    intro d acc h
    constructor
    · intro acc' d' he; simp [scanLine] at he; simp [← he.1, ← he.2, h]
    · intro acc' he; simp [scanLine] at he
  | cons t r ih =>
    intro d acc h
    have happ : ∀ (x : Tok) (dx : Nat), depthAfter [x] d = some dx → depthAfter (acc ++ [x]) 0 = some dx := by
      intro x dx hx; rw [depthAfter_append acc [x] 0 d h]; exact hx
    have gen : ∀ (x : Tok) (dx : Nat), depthAfter [x] d = some dx →
        (∀ acc' d', scanLine r dx (acc ++ [x]) = .eol acc' d' → acc' = acc ++ x :: r ∧ depthAfter acc' 0 = some d') ∧
        (∀ acc', scanLine r dx (acc ++ [x]) = .cut acc' → depthAfter acc' 0 = some 0 ∧
          ∃ p q, x :: r = p ++ Tok.eg :: q ∧ acc' = acc ++ p) := by
      intro x dx hx
      have := ih dx (acc ++ [x]) (happ x dx hx)
      constructor
      · intro acc' d' he
        have := this.1 acc' d' he
        simpa using this
      · intro acc' he
        obtain ⟨h0, p, q, hpq, hacc⟩ := this.2 acc' he
        exact ⟨h0, x :: p, q, by simp [hpq], by simp [hacc]⟩
    cases t with
    | bg => simpa [scanLine] using gen .bg (d + 1) (by simp [depthAfter])
    | chr c => simpa [scanLine] using gen (.chr c) d (by simp [depthAfter])
    | sp => simpa [scanLine] using gen .sp d (by simp [depthAfter])
    | par => simpa [scanLine] using gen .par d (by simp [depthAfter])
    | cs n => simpa [scanLine] using gen (.cs n) d (by simp [depthAfter])
    | eg =>
      cases d with
      | zero =>
        constructor
        · intro acc' d' he; simp [scanLine] at he
        · intro acc' he
          simp [scanLine] at he
          subst he
          exact ⟨h, [], r, by simp, by simp⟩
      | succ d => simpa [scanLine] using gen .eg d (by simp [depthAfter])

/-- What `\read` returns is balanced, and is made of whole lines except for a final line cut
at an unmatched `}`; `rem` are exactly the lines not touched. -/
theorem readFile_spec : ∀ (ls : List TLine) (d : Nat) (acc : List Tok), depthAfter acc 0 = some d →
    ∀ toks rem, readFile ls d acc = .ok toks rem →
      depthAfter toks 0 = some 0 ∧
      ∃ (taken : List TLine) (rest : List TLine), ls = taken ++ rest ∧
        (rem = if rest.isEmpty then none else some rest) ∧
        (toks = acc ++ taken.flatten ∨
          ∃ (full : List TLine) (p q : List Tok), taken = full ++ [p ++ Tok.eg :: q] ∧
            toks = acc ++ full.flatten ++ p) := by
  intro ls
  induction ls with
  | nil =>
    intro d acc h toks rem hr
    simp only [readFile] at hr
    split at hr
    · cases hr
    · injection hr with h1 h2
      subst h1 h2
      have : d = 0 := by omega
      subst this
      exact ⟨h, [], [], by simp, by simp, Or.inl (by simp)⟩
  | cons l ls ih =>
    intro d acc h toks rem hr
    simp only [readFile] at hr
    have hs := scanLine_spec l d acc h
    cases hsc : scanLine l d acc with
    | cut acc' =>
      simp only [hsc] at hr
      injection hr with h1 h2
      subst h1 h2
      obtain ⟨h0, p, q, hpq, hacc⟩ := hs.2 acc' hsc
      refine ⟨h0, [l], ls, by simp, rfl, Or.inr ⟨[], p, q, by simp [hpq], by simp [hacc]⟩⟩
    | eol acc' d' =>
      simp only [hsc] at hr
      obtain ⟨hacc, hd'⟩ := hs.1 acc' d' hsc
      cases ls with
      | nil =>
        simp only at hr
        split at hr
        · cases hr
        · injection hr with h1 h2
          subst h1 h2
          have : d' = 0 := by omega
          subst this
          exact ⟨hd', [l], [], by simp, by simp, Or.inl (by simp [hacc])⟩
      | cons l2 ls2 =>
        simp only at hr
        by_cases hz : d' = 0
        · simp only [hz, if_true] at hr
          injection hr with h1 h2
          subst h1 h2
          subst hz
          exact ⟨hd', [l], l2 :: ls2, by simp, by simp, Or.inl (by simp [hacc])⟩
        · simp only [hz, if_false] at hr
          obtain ⟨h0, taken, rest, hsplit, hrem, hshape⟩ := ih d' acc' hd' toks rem hr
          refine ⟨h0, l :: taken, rest, by simp [hsplit], hrem, ?_⟩
          cases hshape with
          | inl ht => exact Or.inl (by simp [ht, hacc])
          | inr ht =>
            obtain ⟨full, p, q, htk, htoks⟩ := ht
            exact Or.inr ⟨l :: full, p, q, by simp [htk], by simp [htoks, hacc]⟩

/-- Agreement with TeX while a further line remains. -/
theorem readFile_tex_open : ∀ (ls : List TLine) (d : Nat) (acc : List Tok) (toks : List Tok) (rem : List TLine),
    readFile ls d acc = .ok toks (some rem) → texReadFile ls d acc = .ok toks (some rem) := by
  intro ls
  induction ls with
  | nil => intro d acc toks rem h; simp only [readFile] at h; split at h <;> cases h
  | cons l ls ih =>
    intro d acc toks rem h
    simp only [readFile] at h
    simp only [texReadFile]
    cases hsc : scanLine l d acc with
    | cut acc' =>
      simp only [hsc] at h ⊢
      cases ls with
      | nil => simp at h
      | cons l2 ls2 => simpa using h
    | eol acc' d' =>
      simp only [hsc] at h ⊢
      cases ls with
      | nil => simp only at h; split at h <;> cases h
      | cons l2 ls2 =>
        simp only at h
        by_cases hz : d' = 0
        · simpa [hz] using h
        · simp only [hz, if_false] at h ⊢
          exact ih d' acc' toks rem h

end C19

namespace C19

def remLen : Option (List TLine) → Nat
  | none => 0
  | some r => r.length

/-- `\read` stops at the *first* line end at which the braces balance: after any smaller
positive number of the lines it consumed, a brace is still open. -/
theorem readFile_minimal : ∀ (ls : List TLine) (d : Nat) (acc : List Tok), depthAfter acc 0 = some d →
    ∀ toks rem, readFile ls d acc = .ok toks rem →
      ∀ k, 0 < k → k < ls.length - remLen rem →
        ∃ e, depthAfter (acc ++ (ls.take k).flatten) 0 = some (e + 1) := by
  intro ls
  induction ls with
  | nil => intro d acc _ toks rem _ k hk hlt; simp at hlt
  | cons l ls ih =>
    intro d acc h toks rem hr k hk hlt
    simp only [readFile] at hr
    have hs := scanLine_spec l d acc h
    cases hsc : scanLine l d acc with
    | cut acc' =>
      simp only [hsc] at hr
      injection hr with h1 h2
      subst h2
      cases ls with
      | nil => simp [remLen] at hlt; omega
      | cons l2 ls2 => simp [remLen] at hlt; omega
    | eol acc' d' =>
      simp only [hsc] at hr
      obtain ⟨hacc, hd'⟩ := hs.1 acc' d' hsc
      cases ls with
      | nil =>
        simp only at hr
        split at hr
        · cases hr
        · injection hr with h1 h2
          subst h2
          simp [remLen] at hlt; omega
      | cons l2 ls2 =>
        simp only at hr
        by_cases hz : d' = 0
        · simp only [hz, if_true] at hr
          injection hr with h1 h2
          subst h2
          simp [remLen] at hlt; omega
        · simp only [hz, if_false] at hr
          cases k with
          | zero => omega
          | succ k =>
            cases k with
            | zero =>
              refine ⟨d' - 1, ?_⟩
              have : d' - 1 + 1 = d' := by omega
              simp [← hacc, hd', this]
            | succ k =>
              have := ih d' acc' hd' toks rem hr (k + 1) (by omega) (by simp at hlt ⊢; omega)
              obtain ⟨e, he⟩ := this
              refine ⟨e, ?_⟩
              simpa [hacc, List.append_assoc] using he

end C19

namespace C19

/-- Every line that the unrepaired lexer had already started was started under the
`\endlinechar` now in force (then finding C19-d does not show). -/
def freshSlots (e : Elc) (slots : List Slot) : Bool :=
  slots.all (fun s => match s.loaded with | none => true | some l => l == attach e s.raw)

/-- An operation on which the model and TeX cannot differ: no `\openin` of an empty file, and
no `\read` that leaves its stream without a further real line or fails. -/
def safeOp (rfs : List (Nat × List RawLine)) (st : RSt) (op : Op) : Bool :=
  match op with
  | .openin _ f => !(lookup rfs f == some [])
  | .read _ n _ =>
    match takeFile st.streams n with
    | some slots =>
      (match readFile (slots.map (mat true st.elc)) 0 [] with
        | .ok _ (some _) => true
        | _ => false)
    | none => true
  | _ => true

def safeRun (rfs : List (Nat × List RawLine)) (st : RSt) : List Op → Bool
  | [] => true
  | op :: r => safeOp rfs st op && safeRun rfs (opStep false rfs st op) r

/-- No stream is open on zero lines. -/
def NoEmptyStream (st : RSt) : Prop := ∀ x ∈ st.streams, x ≠ some []

theorem readFile_some_suffix (ls : List TLine) (toks : List Tok) (rem : List TLine)
    (h : readFile ls 0 [] = .ok toks (some rem)) : rem ≠ [] ∧ rem.length ≤ ls.length := by
  obtain ⟨_, taken, rest, hsplit, hrem, _⟩ := readFile_spec ls 0 [] rfl toks (some rem) h
  cases rest with
  | nil => simp at hrem
  | cons a b =>
    simp at hrem
    subst hrem
    exact ⟨by simp, by simp [hsplit]⟩

theorem map_mat_fresh (e : Elc) : ∀ (slots : List Slot), freshSlots e slots = true →
    slots.map (mat false e) = slots.map (mat true e) := by
  intro slots
  induction slots with
  | nil => intro _; rfl
  | cons s r ih =>
    intro h
    simp only [freshSlots, List.all_cons, Bool.and_eq_true] at h
    have hr : freshSlots e r = true := h.2
    simp only [List.map_cons, ih hr]
    obtain ⟨loaded, raw⟩ := s
    cases loaded with
    | none => simp [mat]
    | some l =>
      have : l = attach e raw := by simpa using h.1
      simp [mat, this]

theorem afterRead_ne_nil (e : Elc) (slots : List Slot) (k : Nat) (hk : 1 ≤ k) (hle : k ≤ slots.length) :
    afterRead e slots k ≠ [] := by
  simp only [afterRead]
  cases hd : slots.drop (slots.length - k) with
  | nil =>
    have := congrArg List.length hd
    simp at this
    omega
  | cons h t => simp

theorem noEmpty_set (streams : List (Option (List Slot))) (n : Nat) (v : Option (List Slot))
    (h : ∀ x ∈ streams, x ≠ some []) (hv : v ≠ some []) : ∀ x ∈ streams.set n v, x ≠ some [] := by
  intro x hx
  cases List.mem_or_eq_of_mem_set hx with
  | inl h1 => exact h x h1
  | inr h1 => rw [h1]; exact hv

theorem defMacro_streams (g : Bool) (x : Nat) (toks : List Tok) (st : RSt) :
    (defMacro g x toks st).streams = st.streams := by
  cases g <;> simp [defMacro]

theorem opStep_agree (rfs : List (Nat × List RawLine)) (st : RSt) (op : Op)
    (hinv : NoEmptyStream st) (hsafe : safeOp rfs st op = true) :
    opStep false rfs st op = opStep true rfs st op ∧ NoEmptyStream (opStep false rfs st op) := by
  obtain ⟨streams, term, macros, saved, elc, out, status⟩ := st
  cases status with
  | running =>
    cases op with
    | openin n f =>
      simp only [safeOp] at hsafe
      by_cases hn : n ≥ numStreams
      · simp [opStep, hn]; exact hinv
      · cases hl : lookup rfs f with
        | none => simp [opStep, hn, hl]; exact noEmpty_set streams n none hinv (by simp)
        | some l =>
          have hne : l ≠ [] := by intro h; subst h; simp [hl] at hsafe
          have he : rawEnsureNewline l = l := by
            cases l with
            | nil => exact absurd rfl hne
            | cons a b => simp [rawEnsureNewline]
          simp [opStep, hn, hl, he]
          exact noEmpty_set streams n _ hinv (by simpa using hne)
    | closein n =>
      by_cases hn : n ≥ numStreams
      · simp [opStep, hn]; exact hinv
      · simp [opStep, hn]; exact noEmpty_set streams n none hinv (by simp)
    | ifeof n =>
      by_cases hn : n ≥ numStreams
      · simp [opStep, hn]; exact hinv
      · simp [opStep, hn]; exact hinv
    | use x => simp [opStep]; exact hinv
    | setElc e => simp [opStep]; exact hinv
    | bgroup => simp [opStep]; exact hinv
    | egroup =>
      cases saved with
      | nil => simp [opStep]; exact hinv
      | cons m r => simp [opStep]; exact hinv
    | read g n x =>
      simp only [safeOp] at hsafe
      cases ht : takeFile streams n with
      | none =>
        simp only [opStep, ht]
        cases readTerm (term.map (attach elc)) 0 [] with
        | exhausted => exact ⟨trivial, hinv⟩
        | ok toks term' =>
          refine ⟨trivial, ?_⟩
          intro y hy
          rw [defMacro_streams] at hy
          exact hinv y hy
      | some slots =>
        simp only [ht] at hsafe
        cases hr : readFile (slots.map (mat true elc)) 0 [] with
        | unmatched => simp [hr] at hsafe
        | ok toks rem =>
          cases rem with
          | none => simp [hr] at hsafe
          | some rem =>
            have htex := readFile_tex_open _ 0 [] toks rem hr
            obtain ⟨hne, hle⟩ := readFile_some_suffix _ toks rem hr
            simp only [opStep, ht, hr, htex, if_true, Bool.false_eq_true, if_false, Option.map_some]
            refine ⟨trivial, ?_⟩
            intro y hy
            rw [defMacro_streams] at hy
            refine noEmpty_set streams n.toNat _ hinv ?_ y hy
            have h1 : 1 ≤ rem.length := by
              cases rem with
              | nil => exact absurd rfl hne
              | cons a b => simp
            have := afterRead_ne_nil elc slots rem.length h1 (by simpa using hle)
            simpa using this
  | badStream => simp [opStep]; exact hinv
  | unmatched => simp [opStep]; exact hinv
  | termExhausted => simp [opStep]; exact hinv
  | badGroup => simp [opStep]; exact hinv

theorem foldl_agree (rfs : List (Nat × List RawLine)) : ∀ (ops : List Op) (st : RSt),
    NoEmptyStream st → safeRun rfs st ops = true →
    ops.foldl (opStep false rfs) st = ops.foldl (opStep true rfs) st := by
  intro ops
  induction ops with
  | nil => intro st _ _; rfl
  | cons op r ih =>
    intro st hinv hsafe
    simp only [safeRun, Bool.and_eq_true] at hsafe
    obtain ⟨he, hinv'⟩ := opStep_agree rfs st op hinv hsafe.1
    simp only [List.foldl_cons]
    rw [← he]
    exact ih _ hinv' hsafe.2

theorem initR_noEmpty (term : List RawLine) : NoEmptyStream (initR term) := by
  intro x hx
  simp [initR, List.mem_replicate] at hx
  simp [hx]

end C19
