import TexcraftModel.Lemmas.C13Main

/-! C13: why some one-site changes of the code cannot change any hyphenation
(mutants 03, 16, 33 of `mutants/C13/`). -/
namespace C13

/-- For a word of letters the scores depend on a hyphenator only through the digits stored at
its vertices, read with default 0: trailing zeros of a stream, and everything else about the
representation, are invisible. -/
theorem scores_depend_on_digits (h1 h2 : Hyph) (hB1 : Bounded h1) (hB2 : Bounded h2)
    (hv : ∀ π j, (val h1 π).getD j 0 = (val h2 π).getD j 0)
    (lc : Char → Option Char) (w ls : List Char) (hl : w.mapM lc = some ls) :
    aggregateScores h1 lc w = aggregateScores h2 lc w := by
  obtain ⟨s1, a1, l1, p1⟩ := aggregate_pointwise h1 hB1 lc w ls hl
  obtain ⟨s2, a2, l2, p2⟩ := aggregate_pointwise h2 hB2 lc w ls hl
  rw [a1, a2]
  have : s1 = s2 := by
    apply List.ext_getElem (by omega)
    intro i hi1 hi2
    have e1 : s1.getD i 0 = s2.getD i 0 := by
      rw [p1 i, p2 i]
      congr 1
      funext x
      simp only [digitAt, hv]
    rw [List.getD_eq_getElem?_getD, List.getD_eq_getElem?_getD,
      List.getElem?_eq_getElem hi1, List.getElem?_eq_getElem hi2] at e1
    simpa using e1
  rw [this]

/-- Mutant 03: whatever zero-run bytes (low nibble 0, any count in the high nibble — `15·16`,
`14·16`, …) precede a terminator, they decode to zeros only. -/
theorem terminal_run_is_zeros (k b z term : Nat) (hb : b % 16 = 0)
    (hterm : term = 10 ∨ term = 11) :
    ∀ d ∈ decodeOps (List.replicate k b ++ [term + z * 16]), d = 0 := by
  induction k with
  | zero =>
    have h1 : (term + z * 16) % 16 = term := by omega
    intro d hd
    simp [decodeOps, h1, hterm] at hd
  | succ k ih =>
    have hn : ¬ (b % 16 = 10 ∨ b % 16 = 11) := by omega
    intro d hd
    simp only [List.replicate_succ, List.cons_append, decodeOps, hn, if_false, List.mem_append,
      List.mem_replicate, List.mem_cons] at hd
    rcases hd with ⟨_, rfl⟩ | rfl | hd
    · rfl
    · exact hb
    · exact ih d hd

theorem getD_zeros (l : List Nat) (h : ∀ d ∈ l, d = 0) (j : Nat) : l.getD j 0 = 0 := by
  rw [List.getD_eq_getElem?_getD]
  cases hj : l[j]? with
  | none => rfl
  | some d => simp; exact h d (List.mem_of_getElem? hj)

/-- Mutant 03, stream level: a stream `ops ++ (zero-run bytes) ++ [terminator]` reads, position by
position, like `ops` alone. -/
theorem terminal_run_invisible (ops : List Nat) (hnt : NonTerm ops) (k b z term : Nat)
    (hb : b % 16 = 0) (hterm : term = 10 ∨ term = 11) (j : Nat) :
    (decodeOps (ops ++ (List.replicate k b ++ [term + z * 16]))).getD j 0
      = (decodeOps ops).getD j 0 := by
  rw [decodeOps_append _ _ hnt]
  have hz0 := terminal_run_is_zeros k b z term hb hterm
  simp only [List.getD_eq_getElem?_getD]
  by_cases hj : j < (decodeOps ops).length
  · rw [List.getElem?_append_left hj]
  · rw [List.getElem?_append_right (by omega)]
    have h1 : (decodeOps ops)[j]? = none := by simp; omega
    rw [h1]
    have := getD_zeros _ hz0 (j - (decodeOps ops).length)
    rw [List.getD_eq_getElem?_getD] at this
    simpa using this

/-! ### Mutant 16: an exception entry for another word (e.g. the empty entry) -/

theorem findException_insert (es1 es2 : List (List Char)) (e0 lw : List Char)
    (h : stripHyphens e0 ≠ lw) :
    findException (es1 ++ e0 :: es2) lw = findException (es1 ++ es2) lw := by
  induction es1 with
  | nil => simp only [List.nil_append, findException, h, if_false]; cases findException es2 lw <;> rfl
  | cons e es1 ih => simp only [List.cons_append, findException, ih]

/-! ### Mutant 33: exceptions inserted before the patterns -/

def buildItems (its : List Item) : Hyph := its.foldl addItem {}

theorem inv_buildItems (its : List Item) : Inv (buildItems its) its := by
  have := inv_foldl its {} [] inv_empty
  simpa [buildItems] using this

theorem getD_drop_zero (l : List Nat) (o : Nat) : l.getD o 0 = (l.drop o).getD 0 0 := by
  simp [List.getD_eq_getElem?_getD]

/-- With the trie invariant: a vertex holds an exception only if an exception item has its key. -/
theorem holdsExc_false_of_disjoint (h : Hyph) (its : List Item) (hI : Inv h its)
    (es : List (List Char))
    (hsub : ∀ it ∈ its, (∃ e ∈ es, it = excItem e) ∨ (∃ q, it = patItem q))
    (π : List Edge) (hd : ∀ e ∈ es, (excItem e).key ≠ π) : holdsExc h π = false := by
  unfold holdsExc
  cases hl : lookup h.trie π with
  | none => rfl
  | some o =>
    obtain ⟨_, _, it, rest, hn, hdrop⟩ := hI.1 π o hl
    obtain ⟨hmem, hkey⟩ := newest_mem _ _ _ hn
    show decide (12 ≤ h.data.getD o 0 % 16) = false
    rw [getD_drop_zero h.data o, hdrop]
    rcases hsub it hmem with ⟨e, he, rfl⟩ | ⟨q, rfl⟩
    · exact absurd hkey (hd e he)
    · obtain ⟨x, r, hx, hx12⟩ := patOps_head q
      have : (patItem q).ops = x :: r := hx
      simp [this]; omega

theorem buildRev_eq (ps es : List (List Char))
    (hdis : ∀ p ∈ ps, ∀ e ∈ es, (excItem e).key ≠ (patItem p).key) :
    loadPatterns (insertExceptions {} es) ps = buildItems (es.map excItem ++ ps.map patItem) := by
  have hE : insertExceptions {} es = buildItems (es.map excItem) := by
    unfold buildItems insertExceptions
    rw [List.foldl_map]
    have h2 : (fun h e => insertException h e) = (fun h e => addItem h (excItem e)) := by
      funext h e; exact insertException_eq h e
    show List.foldl (fun h e => insertException h e) {} es = _
    rw [h2]
  unfold loadPatterns
  rw [hE]
  -- load the patterns one by one: the `holds_exception` test never fires
  have key : ∀ (ps done : List (List Char)),
      (∀ p ∈ ps, ∀ e ∈ es, (excItem e).key ≠ (patItem p).key) →
      ps.foldl loadPattern (buildItems (es.map excItem ++ done.map patItem))
        = buildItems (es.map excItem ++ (done ++ ps).map patItem) := by
    intro ps
    induction ps with
    | nil => intro done _; simp
    | cons p ps ih =>
      intro done hd
      simp only [List.foldl_cons]
      have hI := inv_buildItems (es.map excItem ++ done.map patItem)
      have hf : holdsExc (buildItems (es.map excItem ++ done.map patItem)) (patItem p).key = false := by
        apply holdsExc_false_of_disjoint _ _ hI es
        · intro it hit
          simp only [List.mem_append, List.mem_map] at hit
          rcases hit with ⟨e, he, rfl⟩ | ⟨q, _, rfl⟩
          · exact Or.inl ⟨e, he, rfl⟩
          · exact Or.inr ⟨q, rfl⟩
        · exact fun e he => hd p (by simp) e he
      have hstep : loadPattern (buildItems (es.map excItem ++ done.map patItem)) p
          = buildItems (es.map excItem ++ (done ++ [p]).map patItem) := by
        have : loadPattern (buildItems (es.map excItem ++ done.map patItem)) p
            = addItem (buildItems (es.map excItem ++ done.map patItem)) (patItem p) := by
          have hf' : holdsExc (buildItems (es.map excItem ++ done.map patItem)) (patOps p).2 = false := hf
          by_cases hk : (patOps p).2 = [] <;>
            simp [loadPattern, addItem, patItem, hf', hk]
        rw [this]
        simp [buildItems, List.foldl_append]
      rw [hstep]
      have := ih (done ++ [p]) (fun q hq => hd q (by simp [hq]))
      simpa using this
  have := key ps [] hdis
  simpa using this

theorem val_eq_of_newest (h1 h2 : Hyph) (i1 i2 : List Item) (hI1 : Inv h1 i1) (hI2 : Inv h2 i2)
    (hT1 : ∀ it ∈ i1, Term it.ops) (hT2 : ∀ it ∈ i2, Term it.ops) (π : List Edge)
    (hn : newest i1 π = newest i2 π) : val h1 π = val h2 π := by
  rcases val_cases h1 i1 hI1 hT1 π with ⟨a, b⟩ | ⟨a, it, b, c⟩ <;>
    rcases val_cases h2 i2 hI2 hT2 π with ⟨a', b'⟩ | ⟨a', it', b', c'⟩
  · rw [a, a']
  · exfalso
    rcases b with b | b
    · exact a' b
    · rw [hn, b'] at b; cases b
  · exfalso
    rcases b' with b' | b'
    · exact a b'
    · rw [← hn, b] at b'; cases b'
  · rw [hn, b'] at b
    cases b
    rw [c, c']

theorem bounded_of_inv (h : Hyph) (its : List Item) (hI : Inv h its)
    (hT : ∀ it ∈ its, Term it.ops)
    (hb : ∀ it ∈ its, (decodeOps it.ops).length ≤ chCount it.key + 1) : Bounded h := by
  intro π
  rcases val_cases _ _ hI hT π with ⟨h0, _⟩ | ⟨_, it, h1, h2⟩
  · rw [h0]; simp
  · rw [h2]
    have := newest_mem _ _ _ h1
    rw [← this.2]
    exact hb it this.1

theorem newest_comm (a b : List Item) (π : List Edge)
    (hdis : ∀ x ∈ a, ∀ y ∈ b, x.key ≠ y.key) : newest (a ++ b) π = newest (b ++ a) π := by
  rw [newest_append, newest_append]
  cases ha : newest a π with
  | none => cases newest b π <;> rfl
  | some x =>
    cases hb : newest b π with
    | none => rfl
    | some y =>
      exfalso
      obtain ⟨hx, kx⟩ := newest_mem _ _ _ ha
      obtain ⟨hy, ky⟩ := newest_mem _ _ _ hb
      exact hdis x hx y hy (by rw [kx, ky])

/-- Mutant 33: when no pattern has the shape `.w.` of an exception's word, loading the
exceptions before the patterns gives the same scores for every word of letters. -/
theorem order_irrelevant (ps es : List (List Char))
    (hdis : ∀ p ∈ ps, ∀ e ∈ es, (parsePat p).key ≠ enc true (stripHyphens e) true)
    (lc : Char → Option Char) (w ls : List Char) (hl : w.mapM lc = some ls) :
    aggregateScores (loadPatterns (insertExceptions {} es) ps) lc w
      = aggregateScores (build ps es) lc w := by
  rw [buildRev_eq ps es (by
    intro p hp e he
    rw [excItem_key, patItem_key']
    exact fun h => hdis p hp e he h.symm)]
  have hI1 := inv_buildItems (es.map excItem ++ ps.map patItem)
  have hI2 := inv_build ps es
  have hmem : ∀ it, it ∈ es.map excItem ++ ps.map patItem ↔ it ∈ itemsOf ps es := by
    intro it; simp only [itemsOf, List.mem_append]; exact Or.comm
  have hT2 := items_term ps es
  have hT1 : ∀ it ∈ es.map excItem ++ ps.map patItem, Term it.ops :=
    fun it h => hT2 it ((hmem it).1 h)
  have hB1 : Bounded (buildItems (es.map excItem ++ ps.map patItem)) :=
    bounded_of_inv _ _ hI1 hT1 (fun it h => items_bound ps es it ((hmem it).1 h))
  apply scores_depend_on_digits _ _ hB1 (bounded_build ps es) _ lc w ls hl
  intro π j
  rw [val_eq_of_newest _ _ _ _ hI1 hI2 hT1 hT2 π]
  apply newest_comm
  intro x hx y hy
  simp only [List.mem_map] at hx hy
  obtain ⟨e, he, rfl⟩ := hx
  obtain ⟨p, hp, rfl⟩ := hy
  rw [excItem_key, patItem_key']
  exact fun h => hdis p hp e he h.symm

end C13
