import TexcraftModel.Model.C06Core
/-!
C06 — the finite part of the print/scan theorems: predicates on one fraction value
`0 ≤ fr < 2^16` (and on one short digit string), and the balanced range checker whose
instances are evaluated by the kernel in `Tables/C06Frac*.lean`.
-/
namespace C06

/-- Everything the round-trip and "is TeX's output" theorems need about one fraction value. -/
def fracOK (fr : Nat) : Bool :=
  match printFrac (fr : Int) with
  | none => false
  | some ds =>
    decide (ds.length ≤ 5) && decide (1 ≤ ds.length) && ds.all (· < 10)
      && decide (fromDecimalDigits (pad17 ds) = (fr : Int))
      && decide (Spec.printLoop 17 (10 * fr + 5) 10 = ds)

/-- `checkDepth p k lo`: `p` holds on `[lo, lo + 2^k)`; balanced (halving) recursion. -/
def checkDepth (p : Nat → Bool) : Nat → Nat → Bool
  | 0, lo => p lo
  | k + 1, lo => checkDepth p k lo && checkDepth p k (lo + 2 ^ k)

theorem checkDepth_spec (p : Nat → Bool) : ∀ (k lo : Nat), checkDepth p k lo = true →
    ∀ i, lo ≤ i → i < lo + 2 ^ k → p i = true := by
  intro k
  induction k with
  | zero =>
    intro lo h i h1 h2
    have : i = lo := by simp at h2; omega
    subst this; simpa [checkDepth] using h
  | succ k ih =>
    intro lo h i h1 h2
    simp only [checkDepth, Bool.and_eq_true] at h
    have hp : 2 ^ (k + 1) = 2 ^ k + 2 ^ k := by rw [Nat.pow_succ]; omega
    by_cases hi : i < lo + 2 ^ k
    · exact ih lo h.1 i h1 hi
    · exact ih (lo + 2 ^ k) h.2 i (by omega) (by omega)

/-- All digit strings of a given length. -/
def allLists : Nat → List (List Nat)
  | 0 => [[]]
  | k + 1 => (allLists k).flatMap fun l => (List.range 10).map fun d => d :: l

theorem mem_allLists : ∀ (l : List Nat), (∀ d ∈ l, d < 10) → l ∈ allLists l.length := by
  intro l
  induction l with
  | nil => intro _; simp [allLists]
  | cons d l ih =>
    intro h
    simp only [List.length_cons, allLists, List.mem_flatMap, List.mem_map, List.mem_range]
    exact ⟨l, ih (fun x hx => h x (by simp [hx])), d, h d (by simp), rfl⟩

/-- A digit string `l` that scans to the fraction `f < 2^16` is never shorter than what is
printed for `f` (when it scans to `2^16` the value is an integer plus one: printed `.0`). -/
def shortOK (l : List Nat) : Bool :=
  let f := fromDecimalDigits (pad17 l)
  decide (f = 65536) ||
    (match printFrac f with
     | some ds => decide (ds.length ≤ max 1 l.length)
     | none => false)

end C06
