import TexcraftModel.Model.C12

/-! Helper lemmas for C12 (conservation by induction over the break points). -/
namespace C12

/-! ## stripping -/

theorem stripPrefix_append (a r : List Item) : stripPrefix a (a ++ r) = some r := by
  induction a with
  | nil => simp [stripPrefix]
  | cons x xs ih => simp [stripPrefix, ih]

theorem stripSuffix_append (r s : List Item) : stripSuffix s (r ++ s) = some r := by
  simp [stripSuffix, List.reverse_append, stripPrefix_append]

theorem lineBody_flat (p : Params) (prev brk : Option Item) (body vis : List Item)
    (hv : vis = (match brk with | some it => visible it | none => [])) :
    lineBody p prev brk (leftPart p ++ (postOf prev ++ (body ++ (vis ++ [.glue 0 p.rightSkip])))) = some body := by
  subst hv
  unfold lineBody
  rw [stripPrefix_append]
  simp only [Option.bind_some]
  rw [stripPrefix_append]
  simp only [Option.bind_some]
  rw [← List.append_assoc, stripSuffix_append]
  simp only [Option.bind_some]
  exact stripSuffix_append _ _

/-! ## pruning -/

theorem pruneCount_spec : ∀ (xs : List Item) (n k : Nat), pruneCount xs n = .ok k →
    k ≤ n ∧ (xs.take n).takeWhile Item.discardable = xs.take k
  | _, 0, k, h => by
    simp [pruneCount] at h; subst h; simp
  | [], n + 1, k, h => by simp [pruneCount] at h
  | it :: t, n + 1, k, h => by
    simp only [pruneCount] at h
    by_cases hd : it.nonDiscardable = true
    · simp [hd] at h; subst h
      simp [Item.discardable, hd]
    · simp [hd] at h
      cases hr : pruneCount t n with
      | error e => simp [hr] at h
      | ok k' =>
        simp [hr] at h; subst h
        have ih := pruneCount_spec t n k' hr
        refine ⟨by omega, ?_⟩
        simp [Item.discardable, hd, ih.2]

/-! ## one iteration -/

/-- The pending post-break material a break item leaves. -/
def pendOf : Item → Option (List Elem)
  | .disc _ post _ => some post
  | _ => none

theorem breakPart_some (it : Item) (h : it.isBreak = true) :
    breakPart (some it) = .ok (visible it, pendOf it, it.replace) := by
  cases it <;> simp_all [breakPart, visible, pendOf, Item.replace, Item.isBreak]

theorem postOf_pendOf (it : Item) : postOf (some it) = pendingItems (pendOf it) := by
  cases it <;> rfl

theorem step_ok {p : Params} {l : List Item} {n idx start : Nat} {pending : Option (List Elem)}
    {bp : Nat} {rest : List Nat} {ln : Line} {start' : Nat} {pend' : Option (List Elem)}
    (h : step p l n idx start pending bp rest = .ok (ln, start', pend')) :
    start ≤ bp ∧ bp ≤ l.length ∧
    ∃ brk skip k w pen,
      breakPart l[bp]? = .ok (brk, pend', skip) ∧
      pruneAfter l pend' (bp + 1 + skip) rest = .ok k ∧
      start' = bp + 1 + skip + k ∧
      lineWidth p.widths idx = .ok w ∧
      linePenalty p n idx pend'.isSome = .ok pen ∧
      ln = { left := leftPart p, post := pendingItems pending,
             body := (l.drop start).take (bp - start), brk := brk,
             right := .glue 0 p.rightSkip, width := w,
             indent := lineIndent p.indents idx, pen := pen } ∧
      ln.flat.any Item.packTodo = false := by
  unfold step at h
  split at h
  · simp at h
  · rename_i hs
    have hs' : start ≤ bp ∧ bp ≤ l.length := by
      by_cases hh : start ≤ bp ∧ bp ≤ l.length
      · exact hh
      · exact absurd hh hs
    refine ⟨hs'.1, hs'.2, ?_⟩
    split at h
    · simp at h
    · rename_i brk pd skip hb
      split at h
      · simp at h
      · rename_i k hk
        split at h
        · simp at h
        · rename_i w hw
          simp only at h
          split at h
          · simp at h
          · rename_i hpack
            split at h
            · simp at h
            · rename_i pen hpen
              simp only [Except.ok.injEq, Prod.mk.injEq] at h
              obtain ⟨h1, h2, h3⟩ := h
              subst h3
              refine ⟨brk, skip, k, w, pen, hb, hk, h2.symm, hw, hpen, ?_, ?_⟩
              · rw [← h1]
              · rw [← h1]; simpa [Line.flat] using hpack

/-! ## list surgery -/

theorem list_split (l : List Item) (start b : Nat) (it : Item) (hs : start ≤ b)
    (hb : l[b]? = some it) :
    l.drop start = (l.drop start).take (b - start) ++ it :: l.drop (b + 1) := by
  have hlt : b < l.length := by
    rcases Nat.lt_or_ge b l.length with h | h
    · exact h
    · rw [List.getElem?_eq_none h] at hb; cases hb
  have h1 : (l.drop start).drop (b - start) = l.drop b := by
    rw [List.drop_drop]; congr 1; omega
  have h2 : l.drop b = it :: l.drop (b + 1) := by
    rw [List.drop_eq_getElem_cons hlt]
    have : l[b] = it := by
      have := List.getElem?_eq_getElem hlt
      rw [this] at hb; exact Option.some.inj hb
    rw [this]
  calc l.drop start = (l.drop start).take (b - start) ++ (l.drop start).drop (b - start) :=
        (List.take_append_drop _ _).symm
    _ = _ := by rw [h1, h2]

theorem take_take_drop (xs : List Item) (r k : Nat) :
    xs.take r ++ (xs.drop r).take k = xs.take (r + k) := by
  rw [List.take_add]

theorem shouldPrune_pendOf (it : Item) : shouldPrune (pendOf it) = (postOf (some it)).isEmpty := by
  cases it <;> simp [shouldPrune, pendOf, postOf]

theorem goneAfter_eq (l : List Item) (b nb k : Nat) (it : Item) (hb : l[b]? = some it)
    (hk : pruneAfter l (pendOf it) (b + 1 + it.replace) (nb :: rest) = .ok k) :
    goneAfter l b nb = (l.drop (b + 1)).take (it.replace + k) := by
  unfold goneAfter
  rw [hb]
  simp only
  unfold pruneAfter at hk
  rw [shouldPrune_pendOf] at hk
  by_cases hp : (postOf (some it)).isEmpty = true
  · simp only [hp, if_true] at hk ⊢
    have := (pruneCount_spec _ _ _ hk).2
    rw [this, ← take_take_drop, List.drop_drop]
  · simp only [hp] at hk ⊢
    simp at hk
    subst hk
    simp

/-! ## conservation -/

theorem go_conserve (p : Params) (l : List Item) (n : Nat) :
    ∀ (bs : List Nat) (idx start : Nat) (pending : Option (List Elem)) (prev : Option Item)
      (lo : Nat) (lines : List Line),
      validFrom l lo bs = true →
      postOf prev = pendingItems pending →
      go p l n idx start pending bs = .ok lines →
      reassembleFrom p prev (lines.map Line.flat) (droppedOf l bs) = some (l.drop start) := by
  intro bs
  induction bs with
  | nil => intro idx start pending prev lo lines hv; simp [validFrom] at hv
  | cons b rest ih =>
    intro idx start pending prev lo lines hv hprev h
    simp only [go] at h
    split at h
    · simp at h
    · rename_i ln start' pend' hstep
      split at h
      · simp at h
      · rename_i ls hgo
        simp only [Except.ok.injEq] at h
        subst h
        obtain ⟨hsb, hbl, brk, skip, k, w, pen, hbrk, hprune, hstart', _, _, hln, _⟩ := step_ok hstep
        have hflat : ln.flat = leftPart p ++ (postOf prev ++
            ((l.drop start).take (b - start) ++ (brk ++ [.glue 0 p.rightSkip]))) := by
          rw [hln, hprev]; rfl
        cases rest with
        | nil =>
          simp only [validFrom, Bool.and_eq_true, decide_eq_true_eq] at hv
          have hb : b = l.length := hv.2
          have hnone : l[b]? = none := by rw [hb]; simp
          rw [hnone] at hbrk
          simp only [breakPart, Except.ok.injEq, Prod.mk.injEq] at hbrk
          obtain ⟨hbrk1, _, _⟩ := hbrk
          simp only [go, Except.ok.injEq] at hgo
          subst hgo
          simp only [List.map_cons, List.map_nil, droppedOf, reassembleFrom]
          rw [hflat, lineBody_flat p prev none _ brk (by rw [← hbrk1])]
          congr 1
          apply List.take_of_length_le
          simp; omega
        | cons nb rest' =>
          simp only [validFrom, Bool.and_eq_true, decide_eq_true_eq] at hv
          obtain ⟨⟨_, hlt⟩, hv2⟩ := hv
          cases hit : l[b]? with
          | none => rw [hit] at hv2; simp at hv2
          | some it =>
            rw [hit] at hv2 hbrk
            simp only [Bool.and_eq_true] at hv2
            obtain ⟨hisb, hvrest⟩ := hv2
            rw [breakPart_some it hisb] at hbrk
            simp only [Except.ok.injEq, Prod.mk.injEq] at hbrk
            obtain ⟨hbrk1, hpend, hskip⟩ := hbrk
            subst hpend hskip
            have hgone := goneAfter_eq l b nb k it hit hprune
            have hih := ih (idx + 1) start' (pendOf it) (some it) _ ls hvrest (postOf_pendOf it) hgo
            simp only [List.map_cons, droppedOf, hit, reassembleFrom]
            rw [hflat, lineBody_flat p prev (some it) _ brk (by rw [← hbrk1])]
            simp only [Option.bind_some]
            rw [hih]
            simp only [Option.map_some, Option.some.injEq]
            have : l.drop (b + 1 + it.replace + k) = (l.drop (b + 1)).drop (it.replace + k) := by
              rw [List.drop_drop]; congr 1; omega
            rw [hgone, hstart', this, List.cons_append, List.take_append_drop]
            exact (list_split l start b it hsb hit).symm

/-! ## shape of the lines -/

def isDiscOpt : Option Item → Bool
  | some (.disc _ _ _) => true
  | _ => false

def isDiscAt (l : List Item) (b : Nat) : Bool := isDiscOpt l[b]?

theorem breakPart_isSome {o : Option Item} {brk : List Item} {pd : Option (List Elem)} {sk : Nat}
    (h : breakPart o = .ok (brk, pd, sk)) : pd.isSome = isDiscOpt o := by
  cases o with
  | none =>
    simp only [breakPart, Except.ok.injEq, Prod.mk.injEq] at h
    obtain ⟨_, rfl, _⟩ := h; rfl
  | some it =>
    cases it <;> simp only [breakPart, Except.ok.injEq, Prod.mk.injEq, reduceCtorEq] at h <;>
      first
      | (obtain ⟨_, rfl, _⟩ := h; rfl)

theorem go_length (p : Params) (l : List Item) (n : Nat) :
    ∀ (bs : List Nat) (idx start : Nat) (pending : Option (List Elem)) (lines : List Line),
      go p l n idx start pending bs = .ok lines → lines.length = bs.length := by
  intro bs
  induction bs with
  | nil => intro idx start pending lines h; simp [go] at h; subst h; rfl
  | cons b rest ih =>
    intro idx start pending lines h
    simp only [go] at h
    split at h
    · simp at h
    · split at h
      · simp at h
      · rename_i ls hgo
        simp only [Except.ok.injEq] at h
        subst h
        simp [ih _ _ _ _ hgo]

/-- Everything `go` fixes about line `i` of its output except the list content. -/
theorem go_shape (p : Params) (l : List Item) (n : Nat) :
    ∀ (bs : List Nat) (idx start : Nat) (pending : Option (List Elem)) (lines : List Line),
      go p l n idx start pending bs = .ok lines →
      ∀ (i : Nat) (ln : Line) (b : Nat), lines[i]? = some ln → bs[i]? = some b →
        ln.left = leftPart p ∧ ln.right = .glue 0 p.rightSkip ∧
        lineWidth p.widths (idx + i) = .ok ln.width ∧ ln.indent = lineIndent p.indents (idx + i) ∧
        linePenalty p n (idx + i) (isDiscAt l b) = .ok ln.pen ∧
        ln.brk = (match l[b]? with | some it => visible it | none => []) := by
  intro bs
  induction bs with
  | nil => intro idx start pending lines h i ln b hi hb; simp at hb
  | cons b0 rest ih =>
    intro idx start pending lines h i ln b hi hb
    simp only [go] at h
    split at h
    · simp at h
    · rename_i ln0 start' pend' hstep
      split at h
      · simp at h
      · rename_i ls hgo
        simp only [Except.ok.injEq] at h
        subst h
        cases i with
        | zero =>
          simp only [List.getElem?_cons_zero, Option.some.injEq] at hi hb
          subst hi hb
          obtain ⟨_, _, brk, skip, k, w, pen, hbrk, _, _, hw, hpen, hln, _⟩ := step_ok hstep
          have hsome := breakPart_isSome hbrk
          subst hln
          refine ⟨rfl, rfl, by simpa using hw, rfl, ?_, ?_⟩
          · simp only [Nat.add_zero, isDiscAt]; rw [← hsome]; exact hpen
          · cases hit : l[b0]? with
            | none =>
              rw [hit] at hbrk
              simp only [breakPart, Except.ok.injEq, Prod.mk.injEq] at hbrk
              simp only []
              exact hbrk.1.symm
            | some it =>
              rw [hit] at hbrk
              simp only []
              cases it <;> simp only [breakPart, Except.ok.injEq, Prod.mk.injEq, reduceCtorEq] at hbrk <;>
                first
                | exact hbrk.1.symm
        | succ j =>
          simp only [List.getElem?_cons_succ] at hi hb
          have := ih (idx + 1) start' pend' ls hgo j ln b hi hb
          have e : idx + 1 + j = idx + (j + 1) := by omega
          rw [e] at this
          exact this

theorem addI32_ok {a b c : Int} (h : addI32 a b = .ok c) : c = a + b := by
  unfold addI32 at h; split at h <;> simp_all

theorem condAdd_ok {cond : Prop} [Decidable cond] {a b c : Int}
    (h : (if cond then addI32 a b else .ok a) = .ok c) : c = a + (if cond then b else 0) := by
  by_cases hc : cond
  · simp only [hc, if_true] at h ⊢; exact addI32_ok h
  · simp only [hc, if_false] at h ⊢; simp at h; omega

theorem linePenalty_spec {p : Params} {n idx : Nat} {d : Bool} {r : Option Int}
    (h : linePenalty p n idx d = .ok r) :
    r = if idx + 1 = n then none
        else if penaltySpec p n idx d = 0 then none else some (penaltySpec p n idx d) := by
  unfold linePenalty at h
  unfold penaltySpec
  by_cases h1 : idx + 1 = n
  · simp only [h1, if_true] at h ⊢; simp at h; exact h.symm
  · simp only [h1, if_false] at h ⊢
    split at h
    · simp at h
    · rename_i p1 e1
      split at h
      · simp at h
      · rename_i p2 e2
        split at h
        · simp at h
        · rename_i p3 e3
          have a1 := condAdd_ok e1
          have a2 := condAdd_ok e2
          have a3 := condAdd_ok e3
          simp only [Except.ok.injEq] at h
          subst h
          have : p3 = p.interLine + (if idx = 0 then p.club else 0) + (if idx + 2 = n then p.widow else 0) +
              (if d = true then p.broken else 0) := by rw [a3, a2, a1]
          rw [← this]
          by_cases hz : p3 = 0 <;> simp [hz]

/-! ## no line starts with discardable material -/

theorem pruneCount_stop : ∀ (xs : List Item) (n k : Nat), pruneCount xs n = .ok k →
    k = n ∨ ∃ it, xs[k]? = some it ∧ it.nonDiscardable = true
  | _, 0, k, h => by simp [pruneCount] at h; exact Or.inl h.symm
  | [], n + 1, k, h => by simp [pruneCount] at h
  | it :: t, n + 1, k, h => by
    simp only [pruneCount] at h
    by_cases hd : it.nonDiscardable = true
    · simp [hd] at h; subst h
      exact Or.inr ⟨it, by simp, hd⟩
    · simp [hd] at h
      cases hr : pruneCount t n with
      | error e => simp [hr] at h
      | ok k' =>
        simp [hr] at h; subst h
        rcases pruneCount_stop t n k' hr with h1 | ⟨it', h1, h2⟩
        · exact Or.inl (by omega)
        · exact Or.inr ⟨it', by simpa using h1, h2⟩

theorem step_clean {p : Params} {l : List Item} {n idx start : Nat} {pending : Option (List Elem)}
    {bp nb : Nat} {rest' : List Nat} {ln : Line} {start' : Nat} {pend' : Option (List Elem)}
    (h : step p l n idx start pending bp (nb :: rest') = .ok (ln, start', pend')) :
    startsClean (pendingItems pend') ((l.drop start').take (nb - start')) = true := by
  obtain ⟨_, _, brk, skip, k, w, pen, _, hprune, hstart', _⟩ := step_ok h
  unfold pruneAfter at hprune
  by_cases hp : shouldPrune pend' = true
  · simp only [hp, if_true] at hprune
    rcases pruneCount_stop _ _ _ hprune with hk | ⟨it, hit, hnd⟩
    · have : nb - start' = 0 := by omega
      simp [this, startsClean]
    · cases hm : nb - start' with
      | zero => simp [startsClean]
      | succ m =>
        have hdrop : l.drop start' = it :: l.drop (start' + 1) := by
          have h1 : l[start']? = some it := by
            rw [List.getElem?_drop] at hit
            rw [hstart']; exact hit
          have hlt : start' < l.length := by
            rcases Nat.lt_or_ge start' l.length with h | h
            · exact h
            · rw [List.getElem?_eq_none h] at h1; cases h1
          rw [List.drop_eq_getElem_cons hlt]
          have h2 := List.getElem?_eq_getElem hlt
          rw [h2] at h1
          rw [Option.some.inj h1]
        rw [hdrop]
        simp [startsClean, hnd]
  · cases pend' with
    | none => simp [shouldPrune] at hp
    | some es =>
      simp only [shouldPrune] at hp
      cases es with
      | nil => simp at hp
      | cons e es => simp [startsClean, pendingItems]

theorem go_clean (p : Params) (l : List Item) (n : Nat) :
    ∀ (bs : List Nat) (idx start : Nat) (pending : Option (List Elem)) (lines : List Line),
      go p l n idx start pending bs = .ok lines →
      (∀ b, bs.head? = some b →
        startsClean (pendingItems pending) ((l.drop start).take (b - start)) = true) →
      ∀ ln ∈ lines, startsClean ln.post ln.body = true := by
  intro bs
  induction bs with
  | nil => intro idx start pending lines h _ ln hln; simp [go] at h; subst h; simp at hln
  | cons b rest ih =>
    intro idx start pending lines h hpre ln hmem
    simp only [go] at h
    split at h
    · simp at h
    · rename_i ln0 start' pend' hstep
      split at h
      · simp at h
      · rename_i ls hgo
        simp only [Except.ok.injEq] at h
        subst h
        rcases List.mem_cons.mp hmem with rfl | hmem
        · obtain ⟨_, _, brk, skip, k, w, pen, _, _, _, _, _, hln, _⟩ := step_ok hstep
          rw [hln]
          exact hpre b rfl
        · refine ih (idx + 1) start' pend' ls hgo ?_ ln hmem
          intro nb hnb
          cases rest with
          | nil => simp at hnb
          | cons nb' rest' =>
            simp only [List.head?_cons, Option.some.injEq] at hnb
            subst hnb
            exact step_clean hstep

/-! ## the last line -/

theorem go_last (p : Params) (l : List Item) (n : Nat) :
    ∀ (bs : List Nat) (idx start : Nat) (pending : Option (List Elem)) (lo : Nat) (lines : List Line),
      validFrom l lo bs = true → go p l n idx start pending bs = .ok lines →
      ∃ ln, lines.getLast? = some ln ∧ ln.brk = [] ∧ ∃ k, ln.body = l.drop k := by
  intro bs
  induction bs with
  | nil => intro idx start pending lo lines hv; simp [validFrom] at hv
  | cons b rest ih =>
    intro idx start pending lo lines hv h
    simp only [go] at h
    split at h
    · simp at h
    · rename_i ln0 start' pend' hstep
      split at h
      · simp at h
      · rename_i ls hgo
        simp only [Except.ok.injEq] at h
        subst h
        cases rest with
        | nil =>
          simp only [go, Except.ok.injEq] at hgo
          subst hgo
          obtain ⟨hsb, hbl, brk, skip, k, w, pen, hbrk, _, _, _, _, hln, _⟩ := step_ok hstep
          simp only [validFrom, Bool.and_eq_true, decide_eq_true_eq] at hv
          have hnone : l[b]? = none := by rw [hv.2]; simp
          rw [hnone] at hbrk
          simp only [breakPart, Except.ok.injEq, Prod.mk.injEq] at hbrk
          refine ⟨ln0, by simp, ?_, start, ?_⟩
          · rw [hln]; exact hbrk.1.symm
          · rw [hln]
            apply List.take_of_length_le
            simp; omega
        | cons nb r =>
          simp only [validFrom, Bool.and_eq_true, decide_eq_true_eq] at hv
          obtain ⟨_, hv2⟩ := hv
          cases hit : l[b]? with
          | none => rw [hit] at hv2; simp at hv2
          | some it =>
            rw [hit] at hv2
            simp only [Bool.and_eq_true] at hv2
            obtain ⟨ln, h1, h2⟩ := ih (idx + 1) start' pend' _ ls hv2.2 hgo
            have hne : ls ≠ [] := by
              intro e; rw [e] at h1; simp at h1
            exact ⟨ln, by rw [List.getLast?_cons_of_ne_nil hne]; exact h1, h2⟩

/-! ## no panic inside the domain -/

/-- The sum of the four inter-line penalties cannot leave `i32`. -/
def penFits (p : Params) : Prop :=
  p.interLine.natAbs + p.club.natAbs + p.widow.natAbs + p.broken.natAbs ≤ 2147483647

theorem addI32_total {a b : Int} (h : -2147483648 ≤ a + b ∧ a + b ≤ 2147483647) :
    addI32 a b = .ok (a + b) := by
  unfold addI32 inI32; simp [h]

theorem linePenalty_total {p : Params} (hf : penFits p) (n idx : Nat) (d : Bool) :
    ∃ r, linePenalty p n idx d = .ok r := by
  unfold penFits at hf
  unfold linePenalty
  by_cases h1 : idx + 1 = n
  · simp [h1]
  · simp only [h1, if_false]
    have e1 : (if idx = 0 then addI32 p.interLine p.club else .ok p.interLine) =
        .ok (p.interLine + (if idx = 0 then p.club else 0)) := by
      by_cases h0 : idx = 0
      · simp only [h0, if_true]; exact addI32_total (by omega)
      · simp [h0]
    rw [e1]
    simp only
    have e2 : (if idx + 2 = n then addI32 (p.interLine + (if idx = 0 then p.club else 0)) p.widow
          else .ok (p.interLine + (if idx = 0 then p.club else 0))) =
        .ok (p.interLine + (if idx = 0 then p.club else 0) + (if idx + 2 = n then p.widow else 0)) := by
      by_cases h2 : idx + 2 = n
      · simp only [h2, if_true]; exact addI32_total (by split <;> omega)
      · simp [h2]
    rw [e2]
    simp only
    have e3 : (if d = true then addI32 (p.interLine + (if idx = 0 then p.club else 0) +
            (if idx + 2 = n then p.widow else 0)) p.broken
          else .ok (p.interLine + (if idx = 0 then p.club else 0) + (if idx + 2 = n then p.widow else 0))) =
        .ok (p.interLine + (if idx = 0 then p.club else 0) + (if idx + 2 = n then p.widow else 0) +
          (if d = true then p.broken else 0)) := by
      by_cases h3 : d = true
      · simp only [h3, if_true]; exact addI32_total (by split <;> split <;> omega)
      · simp [h3]
    rw [e3]
    exact ⟨_, rfl⟩

theorem lineWidth_total {ws : List Int} (hw : ws ≠ []) (i : Nat) : ∃ w, lineWidth ws i = .ok w := by
  unfold lineWidth
  cases h : ws[i]? with
  | some w => exact ⟨w, rfl⟩
  | none =>
    cases h2 : ws.getLast? with
    | some w => exact ⟨w, rfl⟩
    | none => exact absurd (List.getLast?_eq_none_iff.mp h2) hw

theorem pruneCount_total : ∀ (xs : List Item) (n : Nat), n ≤ xs.length → ∃ k, pruneCount xs n = .ok k
  | _, 0, _ => ⟨0, by simp [pruneCount]⟩
  | [], n + 1, h => by simp at h
  | it :: t, n + 1, h => by
    simp only [pruneCount]
    by_cases hd : it.nonDiscardable = true
    · exact ⟨0, by simp [hd]⟩
    · obtain ⟨k, hk⟩ := pruneCount_total t n (by simpa using h)
      exact ⟨k + 1, by simp [hd, hk]⟩

theorem toItem_packTodo (e : Elem) : e.toItem.packTodo = false := by cases e <;> rfl

theorem visible_packTodo (it : Item) (h : it.packTodo = false) : ∀ x ∈ visible it, x.packTodo = false := by
  cases it with
  | disc pre post r =>
    intro x hx
    simp only [visible, List.mem_cons, List.mem_map] at hx
    rcases hx with rfl | ⟨e, _, rfl⟩
    · rfl
    · exact toItem_packTodo e
  | math a => simp [Item.packTodo] at h
  | box id => simp [visible]
  | inert id => simp [visible]
  | glue k g => simp [visible]
  | kern k w => simp [visible, Item.packTodo]
  | penalty q => simp [visible, Item.packTodo]

theorem flat_noTodo (p : Params) (pending : Option (List Elem)) (body brk : List Item)
    (w ind : Int) (pen : Option Int) (hbody : ∀ x ∈ body, x.packTodo = false)
    (hbrk : ∀ x ∈ brk, x.packTodo = false) :
    (Line.flat ⟨leftPart p, pendingItems pending, body, brk, .glue 0 p.rightSkip, w, ind, pen⟩).any
      Item.packTodo = false := by
  rw [List.any_eq_false]
  intro x hx
  simp only [Line.flat, List.mem_append, List.mem_singleton] at hx
  rcases hx with hx | hx | hx | hx | hx
  · unfold leftPart at hx
    split at hx
    · simp at hx
    · simp at hx; subst hx; simp [Item.packTodo]
  · cases pending with
    | none => simp [pendingItems] at hx
    | some es =>
      simp only [pendingItems, List.mem_map] at hx
      obtain ⟨e, _, rfl⟩ := hx
      simp [toItem_packTodo]
  · simp [hbody x hx]
  · simp [hbrk x hx]
  · subst hx; simp [Item.packTodo]

/-- The head of a valid break sequence is at most the length of the list. -/
theorem validFrom_head_le {l : List Item} {lo b : Nat} {rest : List Nat}
    (h : validFrom l lo (b :: rest) = true) : lo ≤ b ∧ b ≤ l.length := by
  cases rest with
  | nil => simp [validFrom] at h; omega
  | cons nb r => simp [validFrom] at h; omega

theorem go_total (p : Params) (l : List Item) (n : Nat) (hw : p.widths ≠ []) (hf : penFits p)
    (hl : ∀ it ∈ l, it.packTodo = false) :
    ∀ (bs : List Nat) (idx start : Nat) (pending : Option (List Elem)) (lo : Nat),
      validFrom l lo bs = true → (∀ b, bs.head? = some b → start ≤ b) →
      ∃ lines, go p l n idx start pending bs = .ok lines := by
  intro bs
  induction bs with
  | nil => intro idx start pending lo hv; simp [validFrom] at hv
  | cons b rest ih =>
    intro idx start pending lo hv hstart
    have hsb : start ≤ b := hstart b rfl
    have hbl : b ≤ l.length := (validFrom_head_le hv).2
    -- the break item
    have hbreak : ∃ brk pd sk, breakPart l[b]? = .ok (brk, pd, sk) ∧
        (∀ x ∈ brk, x.packTodo = false) ∧
        validFrom l (b + 1 + sk) rest = true ∨ (rest = [] ∧ breakPart l[b]? = .ok (brk, pd, sk) ∧ brk = []) := by
      cases rest with
      | nil =>
        simp only [validFrom, Bool.and_eq_true, decide_eq_true_eq] at hv
        have : l[b]? = none := by rw [hv.2]; simp
        exact ⟨[], none, 0, Or.inr ⟨rfl, by rw [this]; rfl, rfl⟩⟩
      | cons nb r =>
        simp only [validFrom, Bool.and_eq_true, decide_eq_true_eq] at hv
        obtain ⟨⟨_, hlt⟩, hv2⟩ := hv
        cases hit : l[b]? with
        | none => rw [hit] at hv2; simp at hv2
        | some it =>
          rw [hit] at hv2
          simp only [Bool.and_eq_true] at hv2
          have hmem : it ∈ l := List.mem_of_getElem? hit
          exact ⟨visible it, pendOf it, it.replace,
            Or.inl ⟨breakPart_some it hv2.1, visible_packTodo it (hl it hmem), hv2.2⟩⟩
    obtain ⟨brk, pd, sk, hb⟩ := hbreak
    have hbp : breakPart l[b]? = .ok (brk, pd, sk) := by
      rcases hb with h | h
      · exact h.1
      · exact h.2.1
    have hbrkTodo : ∀ x ∈ brk, x.packTodo = false := by
      rcases hb with h | h
      · exact h.2.1
      · rw [h.2.2]; simp
    -- pruning
    have hprune : ∃ k, pruneAfter l pd (b + 1 + sk) rest = .ok k ∧
        (∀ nb, rest.head? = some nb → b + 1 + sk + k ≤ nb) := by
      unfold pruneAfter
      by_cases hp : shouldPrune pd = true
      · simp only [hp, if_true]
        cases rest with
        | nil => exact ⟨0, rfl, by simp⟩
        | cons nb r =>
          rcases hb with h | h
          · have hh := validFrom_head_le h.2.2
            obtain ⟨k, hk⟩ := pruneCount_total (l.drop (b + 1 + sk)) (nb - (b + 1 + sk))
              (by simp; omega)
            refine ⟨k, hk, ?_⟩
            intro nb' hnb'
            simp only [List.head?_cons, Option.some.injEq] at hnb'
            subst hnb'
            have := (pruneCount_spec _ _ _ hk).1
            omega
          · cases h.1
      · simp only [hp]
        refine ⟨0, rfl, ?_⟩
        intro nb hnb
        rcases hb with h | h
        · cases rest with
          | nil => simp at hnb
          | cons nb' r =>
            simp only [List.head?_cons, Option.some.injEq] at hnb
            subst hnb
            have := (validFrom_head_le h.2.2).1
            omega
        · rw [h.1] at hnb; simp at hnb
    obtain ⟨k, hk, hknext⟩ := hprune
    obtain ⟨w, hwid⟩ := lineWidth_total hw idx
    obtain ⟨pen, hpen⟩ := linePenalty_total hf n idx pd.isSome
    -- the step
    have hstep : step p l n idx start pending b rest =
        .ok ({ left := leftPart p, post := pendingItems pending,
               body := (l.drop start).take (b - start), brk := brk,
               right := .glue 0 p.rightSkip, width := w,
               indent := lineIndent p.indents idx, pen := pen }, b + 1 + sk + k, pd) := by
      unfold step
      have hcond : ¬¬(start ≤ b ∧ b ≤ l.length) := by simp; omega
      simp only [hcond, if_false, hbp, hk, hwid, hpen]
      have hall := flat_noTodo p pending ((l.drop start).take (b - start)) brk w
        (lineIndent p.indents idx) none
        (fun x hx => hl x (List.mem_of_mem_drop (List.mem_of_mem_take hx))) hbrkTodo
      simp only [hall]
      simp
    -- the rest
    cases rest with
    | nil =>
      exact ⟨_, by simp only [go, hstep]; rfl⟩
    | cons nb r =>
      rcases hb with h | h
      · obtain ⟨ls, hls⟩ := ih (idx + 1) (b + 1 + sk + k) pd (b + 1 + sk) h.2.2
          (by intro b' hb'; exact hknext b' hb')
        exact ⟨_, by rw [go]; simp only [hstep, hls]; rfl⟩
      · cases h.1

/-! ## the executable verdict accepts the model's own lines -/

theorem validFrom_tail {l : List Item} {lo b nb : Nat} {r : List Nat}
    (h : validFrom l lo (b :: nb :: r) = true) :
    ∃ it, l[b]? = some it ∧ it.isBreak = true ∧ validFrom l (b + 1 + it.replace) (nb :: r) = true := by
  simp only [validFrom, Bool.and_eq_true, decide_eq_true_eq] at h
  obtain ⟨_, h2⟩ := h
  cases hit : l[b]? with
  | none => rw [hit] at h2; simp at h2
  | some it =>
    rw [hit] at h2
    simp only [Bool.and_eq_true] at h2
    exact ⟨it, rfl, h2.1, h2.2⟩

theorem droppedOf_length (l : List Item) : ∀ (bs : List Nat) (lo : Nat), validFrom l lo bs = true →
    (droppedOf l bs).length + 1 = bs.length := by
  intro bs
  induction bs with
  | nil => intro lo h; simp [validFrom] at h
  | cons b rest ih =>
    intro lo h
    cases rest with
    | nil => simp [droppedOf]
    | cons nb r =>
      obtain ⟨it, hit, _, hv⟩ := validFrom_tail h
      simp only [droppedOf, hit, List.length_cons]
      have := ih _ hv
      simp only [List.length_cons] at this
      omega

theorem droppedOf_get (l : List Item) : ∀ (bs : List Nat) (lo i b : Nat), validFrom l lo bs = true →
    bs[i]? = some b → i + 1 < bs.length →
    ∃ it gone, l[b]? = some it ∧ (droppedOf l bs)[i]? = some ⟨it, gone⟩ := by
  intro bs
  induction bs with
  | nil => intro lo i b h; simp [validFrom] at h
  | cons b0 rest ih =>
    intro lo i b h hb hi
    cases rest with
    | nil => simp at hi
    | cons nb r =>
      obtain ⟨it, hit, _, hv⟩ := validFrom_tail h
      cases i with
      | zero =>
        simp only [List.getElem?_cons_zero, Option.some.injEq] at hb
        subst hb
        exact ⟨it, goneAfter l b0 nb, hit, by simp [droppedOf, hit]⟩
      | succ j =>
        simp only [List.getElem?_cons_succ] at hb
        obtain ⟨it', gone, h1, h2⟩ := ih _ j b hv hb (by simpa using hi)
        exact ⟨it', gone, h1, by simp [droppedOf, hit, h2]⟩

/-- The last break position of a valid sequence is the length of the list. -/
theorem validFrom_last (l : List Item) : ∀ (bs : List Nat) (lo i b : Nat), validFrom l lo bs = true →
    bs[i]? = some b → i + 1 = bs.length → l[b]? = none := by
  intro bs
  induction bs with
  | nil => intro lo i b h; simp [validFrom] at h
  | cons b0 rest ih =>
    intro lo i b h hb hi
    cases rest with
    | nil =>
      simp only [List.length_cons, List.length_nil] at hi
      have : i = 0 := by omega
      subst this
      simp only [List.getElem?_cons_zero, Option.some.injEq] at hb
      subst hb
      simp only [validFrom, Bool.and_eq_true, decide_eq_true_eq] at h
      rw [h.2]; simp
    | cons nb r =>
      obtain ⟨it, hit, _, hv⟩ := validFrom_tail h
      cases i with
      | zero => simp at hi
      | succ j =>
        simp only [List.getElem?_cons_succ] at hb
        exact ih _ j b hv hb (by simpa using hi)

theorem breakPart_post {o : Option Item} {brk : List Item} {pd : Option (List Elem)} {sk : Nat}
    (h : breakPart o = .ok (brk, pd, sk)) : pendingItems pd = postOf o := by
  cases o with
  | none =>
    simp only [breakPart, Except.ok.injEq, Prod.mk.injEq] at h
    obtain ⟨_, rfl, _⟩ := h; rfl
  | some it =>
    cases it <;> simp only [breakPart, Except.ok.injEq, Prod.mk.injEq, reduceCtorEq] at h <;>
      first
      | (obtain ⟨_, rfl, _⟩ := h; rfl)

/-- The post-break material at the start of each line is that of the discretionary (if any)
at the previous break. -/
theorem go_post (p : Params) (l : List Item) (n : Nat) :
    ∀ (bs : List Nat) (idx start : Nat) (pending : Option (List Elem)) (lines : List Line),
      go p l n idx start pending bs = .ok lines →
      (∀ ln, lines[0]? = some ln → ln.post = pendingItems pending) ∧
      ∀ (i : Nat) (ln : Line) (b : Nat), lines[i + 1]? = some ln → bs[i]? = some b →
        ln.post = postOf l[b]? := by
  intro bs
  induction bs with
  | nil =>
    intro idx start pending lines h
    simp [go] at h; subst h; simp
  | cons b0 rest ih =>
    intro idx start pending lines h
    simp only [go] at h
    split at h
    · simp at h
    · rename_i ln0 start' pend' hstep
      split at h
      · simp at h
      · rename_i ls hgo
        simp only [Except.ok.injEq] at h
        subst h
        obtain ⟨_, _, brk, skip, k, w, pen, hbrk, _, _, _, _, hln, _⟩ := step_ok hstep
        obtain ⟨ih0, ihs⟩ := ih (idx + 1) start' pend' ls hgo
        refine ⟨?_, ?_⟩
        · intro ln hl
          simp only [List.getElem?_cons_zero, Option.some.injEq] at hl
          subst hl; rw [hln]
        · intro i ln b hl hb
          simp only [List.getElem?_cons_succ] at hl
          cases i with
          | zero =>
            simp only [List.getElem?_cons_zero, Option.some.injEq] at hb
            subst hb
            rw [ih0 ln hl, breakPart_post hbrk]
          | succ j =>
            simp only [List.getElem?_cons_succ] at hb
            exact ihs j ln b hl hb

theorem clean_top (p : Params) (l : List Item) (bs : List Nat)
    (first : Line) (others : List Line) (h : postLineBreak p l bs = .ok (first :: others)) :
    ∀ ln ∈ others, startsClean ln.post ln.body = true := by
  unfold postLineBreak at h
  cases bs with
  | nil => simp [go] at h
  | cons b rest =>
    simp only [go] at h
    split at h
    · simp at h
    · rename_i ln0 start' pend' hstep
      split at h
      · simp at h
      · rename_i ls hgo
        simp only [Except.ok.injEq, List.cons.injEq] at h
        obtain ⟨_, rfl⟩ := h
        refine go_clean p l _ rest 1 start' pend' ls hgo ?_
        intro nb hnb
        cases rest with
        | nil => simp at hnb
        | cons nb' r =>
          simp only [List.head?_cons, Option.some.injEq] at hnb
          subst hnb
          exact step_clean hstep

/-- A line of the model as the harness would report it. -/
def toR (ln : Line) : RLine := (ln.flat, ln.width, ln.indent, ln.pen)

theorem isDiscDropped_some (it : Item) (gone : List Item) :
    isDiscDropped (some ⟨it, gone⟩) = isDiscOpt (some it) := by
  cases it <;> rfl

theorem specVerdict_model (p : Params) (l : List Item) (bs : List Nat) (lines : List Line)
    (hv : ValidBreaks l bs) (h : postLineBreak p l bs = .ok lines) :
    specVerdict p l bs (lines.map toR) = [] := by
  have hlen : lines.length = bs.length := go_length p l _ bs 0 0 none lines h
  have hdlen := droppedOf_length l bs 0 hv
  have hget : ∀ i, (lines.map toR)[i]? = (lines[i]?).map toR := fun i => List.getElem?_map
  have hline : ∀ i, i < lines.length → ∃ ln b, lines[i]? = some ln ∧ bs[i]? = some b := by
    intro i hi
    exact ⟨lines[i], bs[i]'(by omega), List.getElem?_eq_getElem hi, List.getElem?_eq_getElem (by omega)⟩
  -- conservation
  have c1 : reassemble p ((lines.map toR).map (·.1)) (droppedOf l bs) = some l := by
    have e : (lines.map toR).map (·.1) = lines.map Line.flat := by
      simp [List.map_map, Function.comp_def, toR]
    rw [e]
    have := go_conserve p l bs.length bs 0 0 none none 0 lines hv rfl h
    simpa [reassemble] using this
  have c2 : (lines.map toR).length = bs.length := by simpa using hlen
  -- geometry
  have c3 : (List.range (lines.map toR).length).all (geoAt p (lines.map toR)) = true := by
    rw [List.all_eq_true]
    intro i hi
    have hi' : i < lines.length := by simpa using hi
    obtain ⟨ln, b, hl, hb⟩ := hline i hi'
    obtain ⟨_, _, h3, h4, _, _⟩ := go_shape p l _ bs 0 0 none lines h i ln b hl hb
    simp only [Nat.zero_add] at h3 h4
    unfold geoAt
    rw [hget, hl]
    simp [toR, h3, h4]
  -- penalties
  have c4 : (List.range (lines.map toR).length).all
      (penAt p (droppedOf l bs) bs.length (lines.map toR)) = true := by
    rw [List.all_eq_true]
    intro i hi
    have hi' : i < lines.length := by simpa using hi
    obtain ⟨ln, b, hl, hb⟩ := hline i hi'
    obtain ⟨_, _, _, _, h5, _⟩ := go_shape p l _ bs 0 0 none lines h i ln b hl hb
    simp only [Nat.zero_add] at h5
    have hpen := linePenalty_spec h5
    unfold penAt
    rw [hget, hl]
    simp only [Option.map_some, toR]
    by_cases hlast : i + 1 = bs.length
    · simp only [hlast, if_true] at hpen ⊢
      simp [hpen]
    · simp only [hlast, if_false] at hpen ⊢
      obtain ⟨it, gone, hit, hd⟩ := droppedOf_get l bs 0 i b hv hb (by omega)
      rw [hd, isDiscDropped_some]
      have e : isDiscAt l b = isDiscOpt (some it) := by unfold isDiscAt; rw [hit]
      rw [e] at hpen
      simp [hpen]
  -- no leading discardable
  have c5 : (List.range (lines.map toR).length).all (cleanAt p (droppedOf l bs) (lines.map toR)) = true := by
    rw [List.all_eq_true]
    intro i hi
    have hi' : i < lines.length := by simpa using hi
    unfold cleanAt
    cases i with
    | zero => simp
    | succ j =>
      obtain ⟨ln, b', hl, hb'⟩ := hline (j + 1) hi'
      have hjb : j < bs.length := by omega
      obtain ⟨itj, gonej, hitj, hdj⟩ := droppedOf_get l bs 0 j (bs[j]'hjb) hv
        (List.getElem?_eq_getElem hjb) (by omega)
      have hnext : ((droppedOf l bs)[j + 1]?).map (·.item) = l[b']? := by
        by_cases hlast : j + 2 = bs.length
        · have : (droppedOf l bs)[j + 1]? = none := by
            apply List.getElem?_eq_none; omega
          rw [this, validFrom_last l bs 0 (j + 1) b' hv hb' (by omega)]; rfl
        · obtain ⟨it', gone', hit', hd'⟩ := droppedOf_get l bs 0 (j + 1) b' hv hb' (by omega)
          rw [hd', hit']; rfl
      obtain ⟨_, h2, _, _, _, h6⟩ := go_shape p l _ bs 0 0 none lines h (j + 1) ln b' hl hb'
      obtain ⟨h1, _, _, _, _, _⟩ := go_shape p l _ bs 0 0 none lines h (j + 1) ln b' hl hb'
      have hpost : ln.post = postOf (some itj) := by
        have := (go_post p l _ bs 0 0 none lines h).2 j ln (bs[j]'hjb) hl (List.getElem?_eq_getElem hjb)
        rw [this, hitj]
      have hflat : ln.flat = leftPart p ++ (postOf (some itj) ++
          (ln.body ++ (ln.brk ++ [.glue 0 p.rightSkip]))) := by
        simp [Line.flat, h1, h2, hpost]
      have hbody : lineBody p (some itj) l[b']? ln.flat = some ln.body := by
        rw [hflat]
        exact lineBody_flat p (some itj) l[b']? ln.body ln.brk h6
      have hclean : startsClean ln.post ln.body = true := by
        cases lines with
        | nil => simp at hl
        | cons first others =>
          simp only [List.getElem?_cons_succ] at hl
          exact clean_top p l bs first others h ln (List.mem_of_getElem? hl)
      simp only [Nat.add_sub_cancel, Nat.succ_ne_zero, if_false, hget, hl, hdj, Option.map_some, toR,
        hnext, hbody]
      rw [← hpost]; exact hclean
  unfold specVerdict
  rw [c2] at c3 c4 c5
  simp only [c1, c2, c3, c4, c5, if_true, List.append_nil]

/-! ## interline glue -/

theorem firstBox_pushLine (v : List VNode) (h d : Int) (pen : Bool) :
    firstBox ((pushLine v h d pen).2).reverse = some d := by
  unfold pushLine
  cases pen <;> simp [List.reverse_append, firstBox]

theorem firstBox_nil_of_some {v : List VNode} {d : Int} (h : firstBox v.reverse = some d) : v ≠ [] := by
  intro e; subst e; simp [firstBox] at h

/-- The invariant of the vertical list while lines are appended: empty, or its last box has a
depth above `ignore_depth`. -/
def VOk (v : List VNode) : Prop := v = [] ∨ ∃ d0, firstBox v.reverse = some d0 ∧ d0 > ignoreDepth

theorem interline_tex (B lsl : Int) (hB : B = codeBaselineSkip) :
    ∀ (lines : List (Int × Int × Bool)) (v : List VNode), VOk v →
      (∀ x ∈ lines, x.2.1 > ignoreDepth) →
      (∀ g ∈ texInterlines B lsl (texPrevDepth v) lines, g ≠ TexGlue.lineskip) →
      interline v lines = (texInterlines B lsl (texPrevDepth v) lines).map TexGlue.toOpt := by
  intro lines
  induction lines with
  | nil => intro v _ _ _; simp [interline, texInterlines]
  | cons x t ih =>
    intro v hv hd hg
    obtain ⟨h, d, pen⟩ := x
    have hdd : d > ignoreDepth := hd (h, d, pen) (by simp)
    have hprev' : texPrevDepth (pushLine v h d pen).2 = d := by
      unfold texPrevDepth; rw [firstBox_pushLine]
    have hv' : VOk (pushLine v h d pen).2 := Or.inr ⟨d, firstBox_pushLine v h d pen, hdd⟩
    simp only [interline, texInterlines, List.map_cons]
    have htail := ih (pushLine v h d pen).2 hv' (fun x hx => hd x (by simp [hx]))
      (by
        rw [hprev']
        intro g hgm
        exact hg g (by simp [texInterlines, hgm]))
    rw [hprev'] at htail
    rw [htail]
    congr 1
    have hhead : texAppend B lsl (texPrevDepth v) h ≠ TexGlue.lineskip :=
      hg _ (by simp [texInterlines])
    rcases hv with rfl | ⟨d0, hf, hd0⟩
    · simp [pushLine, texPrevDepth, firstBox, texAppend, TexGlue.toOpt]
    · have hne := firstBox_nil_of_some hf
      have hemp : v.isEmpty = false := by cases v <;> simp_all
      have hpd : texPrevDepth v = d0 := by unfold texPrevDepth; rw [hf]
      have hld : lastDepth v = d0 := by unfold lastDepth; rw [hf]
      rw [hpd] at hhead ⊢
      unfold texAppend at hhead ⊢
      simp only [hd0, if_true] at hhead ⊢
      by_cases hl : B - d0 - h < lsl
      · simp [hl] at hhead
      · simp only [hl, if_false, TexGlue.toOpt, pushLine, hemp, hld]
        simp only [Bool.false_eq_true, if_false, Option.some.injEq]
        omega

/-! ## the text front end -/

/-- The characters a glue-free stretch of the list stands for. -/
def segChars : List TItem → List Nat
  | [] => []
  | x :: t => (match x.chars with | some cs => cs | none => []) ++ segChars t

theorem segChars_append (a b : List TItem) : segChars (a ++ b) = segChars a ++ segChars b := by
  induction a with
  | nil => rfl
  | cons x t ih => simp [segChars, ih, List.append_assoc]

theorem splitAtGlue_seg (L : List TItem) (hL : ∀ x ∈ L, x.isGlue = false)
    (rest : List (Option (List Nat))) (hd : List Nat) (tl : List (List Nat))
    (h : splitAtGlue rest = hd :: tl) :
    splitAtGlue (L.map TItem.chars ++ rest) = (segChars L ++ hd) :: tl := by
  induction L with
  | nil => simpa [segChars] using h
  | cons x L ih =>
    have hx : x.isGlue = false := hL x (by simp)
    have ih' := ih (fun y hy => hL y (by simp [hy]))
    cases x with
    | glue g => simp [TItem.isGlue] at hx
    | char c => simp [TItem.chars, splitAtGlue, ih', segChars]
    | lig c o lb rb => simp [TItem.chars, splitAtGlue, ih', segChars, List.append_assoc]
    | kern w => simp [TItem.chars, splitAtGlue, ih', segChars]
    | disc => simp [TItem.chars, splitAtGlue, ih', segChars]

theorem addItem_noGlue (r : RunItem) : ∀ x ∈ addItem r, x.isGlue = false := by
  cases r <;> simp [addItem] <;> (try split) <;> simp_all [TItem.isGlue]

theorem addWord_noGlue (run : List Nat → List RunItem) (w : List Nat) :
    ∀ x ∈ addWord run w, x.isGlue = false := by
  intro x hx
  simp only [addWord, List.mem_flatMap] at hx
  obtain ⟨r, _, hr⟩ := hx
  exact addItem_noGlue r x hr

theorem segChars_addItem (r : RunItem) : segChars (addItem r) = runSpell [r] := by
  cases r <;> simp [addItem, runSpell] <;> (try split) <;> simp [segChars, TItem.chars]

theorem segChars_flatMap (l : List RunItem) : segChars (l.flatMap addItem) = runSpell l := by
  induction l with
  | nil => rfl
  | cons r t ih =>
    simp only [List.flatMap_cons, segChars_append, ih, segChars_addItem]
    cases r <;> simp [runSpell]

theorem addWord_filter_glue (run : List Nat → List RunItem) (w : List Nat) :
    (addWord run w).filter TItem.isGlue = [] := by
  rw [List.filter_eq_nil_iff]
  intro x hx
  simp [addWord_noGlue run w x hx]

theorem addWords_split_true (run : List Nat → List RunItem) (codes : List Int) (tp : TextParams)
    (f : Font) (hrun : ∀ w, runSpell (run w) = w) :
    ∀ (ws : List (List Nat)) (sf : Int),
      splitAtGlue ((addWords run codes tp f sf true ws).map TItem.chars) = [] :: ws := by
  intro ws
  induction ws with
  | nil => intro sf; simp [addWords, splitAtGlue]
  | cons w ws ih =>
    intro sf
    simp only [addWords, if_true, List.cons_append, List.nil_append, List.map_cons, List.map_append,
      TItem.chars, splitAtGlue]
    rw [splitAtGlue_seg (addWord run w) (addWord_noGlue run w) _ [] ws (ih _)]
    simp [addWord, segChars_flatMap, hrun]

theorem addWords_split_false (run : List Nat → List RunItem) (codes : List Int) (tp : TextParams)
    (f : Font) (hrun : ∀ w, runSpell (run w) = w) (w : List Nat) (ws : List (List Nat)) (sf : Int) :
    splitAtGlue ((addWords run codes tp f sf false (w :: ws)).map TItem.chars) = w :: ws := by
  simp only [addWords, Bool.false_eq_true, if_false, List.nil_append, List.map_append]
  rw [splitAtGlue_seg (addWord run w) (addWord_noGlue run w) _ [] ws
    (addWords_split_true run codes tp f hrun ws _)]
  simp [addWord, segChars_flatMap, hrun]

theorem splitWs_nonempty : ∀ (t : List Nat), ∀ w ∈ splitWs t, w ≠ [] := by
  intro t
  induction t with
  | nil => simp [splitWs]
  | cons c t ih =>
    intro w hw
    simp only [splitWs] at hw
    split at hw
    · exact ih w hw
    · split at hw
      · simp at hw; subst hw; simp
      · split at hw
        · rcases List.mem_cons.mp hw with rfl | h
          · simp
          · exact ih w h
        · split at hw
          · rename_i w0 ws0 heq
            rcases List.mem_cons.mp hw with rfl | h
            · simp
            · exact ih w (by rw [heq]; simp [h])
          · simp at hw; subst hw; simp

theorem addWords_glue_count (run : List Nat → List RunItem) (codes : List Int) (tp : TextParams)
    (f : Font) : ∀ (ws : List (List Nat)) (sf : Int) (pending : Bool),
      ((addWords run codes tp f sf pending ws).filter TItem.isGlue).length =
        if pending then ws.length else ws.length - 1 := by
  intro ws
  induction ws with
  | nil => intro sf pending; cases pending <;> simp [addWords]
  | cons w ws ih =>
    intro sf pending
    simp only [addWords, List.filter_append, addWord_filter_glue, List.nil_append, List.length_append,
      ih _ true, if_true, List.length_cons]
    cases pending
    · simp
    · simp [List.filter, TItem.isGlue]; omega

theorem splitWs_flatten : ∀ (t : List Nat), (splitWs t).flatten = t.filter (fun c => !isWs c) := by
  intro t
  induction t with
  | nil => simp [splitWs]
  | cons c t ih =>
    simp only [splitWs]
    split
    · rename_i hc
      rw [List.filter_cons_of_neg (by simp [hc])]; exact ih
    · rename_i hc
      have hc' : isWs c = false := by simpa using hc
      rw [List.filter_cons_of_pos (by simp [hc'])]
      split
      · simp
      · rename_i d t'
        split
        · simp only [List.flatten_cons, ih]; simp
        · split
          · rename_i w0 ws0 heq
            rw [heq] at ih
            simp only [List.flatten_cons] at ih ⊢
            rw [← ih]; simp
          · rename_i heq
            rw [heq] at ih
            rw [← ih]; simp

theorem splitWs_noWs : ∀ (t : List Nat), ∀ w ∈ splitWs t, ∀ c ∈ w, isWs c = false := by
  intro t
  induction t with
  | nil => simp [splitWs]
  | cons c t ih =>
    intro w hw
    simp only [splitWs] at hw
    split at hw
    · exact ih w hw
    · rename_i hc
      have hc' : isWs c = false := by simpa using hc
      split at hw
      · simp at hw; subst hw; simpa using hc'
      · split at hw
        · rcases List.mem_cons.mp hw with rfl | h
          · simpa using hc'
          · exact ih w h
        · split at hw
          · rename_i w0 ws0 heq
            rcases List.mem_cons.mp hw with rfl | h
            · intro x hx
              rcases List.mem_cons.mp hx with rfl | hx'
              · exact hc'
              · exact ih w0 (by rw [heq]; simp) x hx'
            · exact ih w (by rw [heq]; simp [h])
          · simp at hw; subst hw; simpa using hc'

def glueItems : List TItem → List (Res Glue)
  | [] => []
  | .glue g :: t => g :: glueItems t
  | _ :: t => glueItems t

theorem glueItems_append (a b : List TItem) : glueItems (a ++ b) = glueItems a ++ glueItems b := by
  induction a with
  | nil => rfl
  | cons x t ih => cases x <;> simp [glueItems, ih]

theorem glueItems_noGlue (l : List TItem) (h : ∀ x ∈ l, x.isGlue = false) : glueItems l = [] := by
  induction l with
  | nil => rfl
  | cons x t ih =>
    have hx := h x (by simp)
    cases x <;> simp_all [glueItems, TItem.isGlue]

theorem addWords_glueItems (run : List Nat → List RunItem) (codes : List Int) (tp : TextParams)
    (f : Font) : ∀ (ws : List (List Nat)) (sf : Int) (pending : Bool),
      glueItems (addWords run codes tp f sf pending ws) =
        (addTextGlues codes tp f sf pending ws).filterMap id := by
  intro ws
  induction ws with
  | nil => intro sf pending; simp [addWords, addTextGlues, glueItems]
  | cons w ws ih =>
    intro sf pending
    simp only [addWords, addTextGlues, glueItems_append, glueItems_noGlue _ (addWord_noGlue run w),
      List.nil_append, ih _ true]
    cases pending <;> simp [glueItems]

/-! ## `--widths` -/

theorem splitOnChar_ne_nil (sep : Nat) : ∀ l, splitOnChar sep l ≠ [] := by
  intro l
  induction l with
  | nil => simp [splitOnChar]
  | cons c t ih =>
    simp only [splitOnChar]
    split
    · simp
    · split <;> simp

theorem splitOnChar_field (sep : Nat) (f rest : List Nat) (hf : ∀ c ∈ f, c ≠ sep) :
    splitOnChar sep (f ++ sep :: rest) = f :: splitOnChar sep rest := by
  induction f with
  | nil => simp [splitOnChar]
  | cons c t ih =>
    have hc : c ≠ sep := hf c (by simp)
    have := ih (fun x hx => hf x (by simp [hx]))
    simp [splitOnChar, hc, this]

theorem splitOnChar_last (sep : Nat) (f : List Nat) (hf : ∀ c ∈ f, c ≠ sep) :
    splitOnChar sep f = [f] := by
  induction f with
  | nil => simp [splitOnChar]
  | cons c t ih =>
    have hc : c ≠ sep := hf c (by simp)
    have := ih (fun x hx => hf x (by simp [hx]))
    simp [splitOnChar, hc, this]

theorem trimWs_space (g : List Nat) : trimWs (32 :: g) = trimWs g := by
  simp [trimWs, List.dropWhile, isTrimWs, isWs]

theorem widthFields_joinComma : ∀ (fs : List (List Nat)), fs ≠ [] →
    (∀ f ∈ fs, ∀ c ∈ f, c ≠ 44) → widthFields (joinComma fs) = fs.map trimWs := by
  intro fs
  induction fs with
  | nil => intro h; exact absurd rfl h
  | cons f r ih =>
    intro _ hc
    cases r with
    | nil =>
      simp [widthFields, joinComma, splitOnChar_last 44 f (hc f (by simp))]
    | cons g r' =>
      have ihr := ih (by simp) (fun f' hf' => hc f' (by simp [hf']))
      simp only [joinComma, widthFields] at ihr ⊢
      rw [splitOnChar_field 44 f _ (hc f (by simp))]
      -- the field after the comma starts with the blank written by `joinComma`
      have hnext : splitOnChar 44 (32 :: joinComma (g :: r')) =
          match splitOnChar 44 (joinComma (g :: r')) with
          | w :: ws => (32 :: w) :: ws
          | [] => [[32]] := by
        simp [splitOnChar]; rfl
      rw [hnext]
      cases hs : splitOnChar 44 (joinComma (g :: r')) with
      | nil => exact absurd hs (splitOnChar_ne_nil 44 _)
      | cons w ws =>
        rw [hs] at ihr
        simp only [List.map_cons] at ihr ⊢
        rw [trimWs_space, ihr]

/-! ## inter-word glue -/

theorem scaleBySf_spec (mp : Glue) (extra sf : Int)
    (b1 : 0 < sf) (b2 : sf ≤ 32767)
    (b3 : -maxDimen ≤ Int.tdiv (mp.st * sf) 1000) (b4 : Int.tdiv (mp.st * sf) 1000 ≤ maxDimen)
    (b5 : -maxDimen ≤ Int.tdiv (mp.sh * 1000) sf) (b6 : Int.tdiv (mp.sh * 1000) sf ≤ maxDimen) :
    scaleBySf mp extra sf =
      .ok { mp with w := if sf ≥ 2000 then mp.w + extra else mp.w,
                    st := Int.tdiv (mp.st * sf) 1000, sh := Int.tdiv (mp.sh * 1000) sf } := by
  unfold scaleBySf xnOverD
  have c1 : ¬ (sf > 65536 ∨ (1000 : Int) > 65536) := by omega
  have c2 : ¬ ((1000 : Int) > 65536 ∨ sf > 65536) := by omega
  have c3 : ¬ ((1000 : Int) = 0) := by omega
  have c4 : ¬ (sf = 0) := by omega
  have d1 : ¬ (Int.tdiv (mp.st * sf) 1000 < -maxDimen ∨ Int.tdiv (mp.st * sf) 1000 > maxDimen) := by omega
  have d2 : ¬ (Int.tdiv (mp.sh * 1000) sf < -maxDimen ∨ Int.tdiv (mp.sh * 1000) sf > maxDimen) := by omega
  simp only [c1, c2, c3, c4, d1, d2, if_false]

end C12
