import TexcraftModel.Model.C12

/-! Helper lemmas for C12 (conservation by induction over the break points). -/
namespace C12

/-! ## stripping -/

theorem stripPrefix_append (a r : List Item) : stripPrefix a (a ++ r) = some r := by
  induction a with
  | nil => simp [stripPrefix]
  | cons x xs ih => simp [stripPrefix, ih]

theorem stripSuffix_append (r s : List Item) : stripSuffix s (r ++ s) = some r := by
  simp [stripSuffix, List.reverse_append, stripPrefix_append]

theorem lineBody_flat (p : Params) (prev brk : Option Item) (body vis : List Item)
    (hv : vis = (match brk with | some it => visible it | none => [])) :
    lineBody p prev brk (leftPart p ++ (postOf prev ++ (body ++ (vis ++ [.glue 0 p.rightSkip])))) = some body := by
  subst hv
  unfold lineBody
  rw [stripPrefix_append]
  simp only [Option.bind_some]
  rw [stripPrefix_append]
  simp only [Option.bind_some]
  rw [← List.append_assoc, stripSuffix_append]
  simp only [Option.bind_some]
  exact stripSuffix_append _ _

/-! ## pruning -/

theorem pruneCount_spec : ∀ (xs : List Item) (n k : Nat), pruneCount xs n = .ok k →
    k ≤ n ∧ (xs.take n).takeWhile Item.discardable = xs.take k
  | _, 0, k, h => by
    simp [pruneCount] at h; subst h; simp
  | [], n + 1, k, h => by simp [pruneCount] at h
  | it :: t, n + 1, k, h => by
    simp only [pruneCount] at h
    by_cases hd : it.nonDiscardable = true
    · simp [hd] at h; subst h
      simp [Item.discardable, hd]
    · simp [hd] at h
      cases hr : pruneCount t n with
      | error e => simp [hr] at h
      | ok k' =>
        simp [hr] at h; subst h
        have ih := pruneCount_spec t n k' hr
        refine ⟨by omega, ?_⟩
        simp [Item.discardable, hd, ih.2]

/-! ## one iteration -/

/-- The pending post-break material a break item leaves. -/
def pendOf : Item → Option (List Elem)
  | .disc _ post _ => some post
  | _ => none

theorem breakPart_some (it : Item) (h : it.isBreak = true) :
    breakPart (some it) = .ok (visible it, pendOf it, it.replace) := by
  cases it <;> simp_all [breakPart, visible, pendOf, Item.replace, Item.isBreak]

theorem postOf_pendOf (it : Item) : postOf (some it) = pendingItems (pendOf it) := by
  cases it <;> rfl

theorem step_ok {p : Params} {l : List Item} {n idx start : Nat} {pending : Option (List Elem)}
    {bp : Nat} {rest : List Nat} {ln : Line} {start' : Nat} {pend' : Option (List Elem)}
    (h : step p l n idx start pending bp rest = .ok (ln, start', pend')) :
    start ≤ bp ∧ bp ≤ l.length ∧
    ∃ brk skip k w pen,
      breakPart l[bp]? = .ok (brk, pend', skip) ∧
      pruneAfter l pend' (bp + 1 + skip) rest = .ok k ∧
      start' = bp + 1 + skip + k ∧
      lineWidth p.widths idx = .ok w ∧
      linePenalty p n idx pend'.isSome = .ok pen ∧
      ln = { left := leftPart p, post := pendingItems pending,
             body := (l.drop start).take (bp - start), brk := brk,
             right := .glue 0 p.rightSkip, width := w,
             indent := lineIndent p.indents idx, pen := pen } ∧
      ln.flat.any Item.packTodo = false := by
  unfold step at h
  split at h
  · simp at h
  · rename_i hs
    have hs' : start ≤ bp ∧ bp ≤ l.length := by
      by_cases hh : start ≤ bp ∧ bp ≤ l.length
      · exact hh
      · exact absurd hh hs
    refine ⟨hs'.1, hs'.2, ?_⟩
    split at h
    · simp at h
    · rename_i brk pd skip hb
      split at h
      · simp at h
      · rename_i k hk
        split at h
        · simp at h
        · rename_i w hw
          simp only at h
          split at h
          · simp at h
          · rename_i hpack
            split at h
            · simp at h
            · rename_i pen hpen
              simp only [Except.ok.injEq, Prod.mk.injEq] at h
              obtain ⟨h1, h2, h3⟩ := h
              subst h3
              refine ⟨brk, skip, k, w, pen, hb, hk, h2.symm, hw, hpen, ?_, ?_⟩
              · rw [← h1]
              · rw [← h1]; simpa [Line.flat] using hpack

/-! ## list surgery -/

theorem list_split (l : List Item) (start b : Nat) (it : Item) (hs : start ≤ b)
    (hb : l[b]? = some it) :
    l.drop start = (l.drop start).take (b - start) ++ it :: l.drop (b + 1) := by
  have hlt : b < l.length := by
    rcases Nat.lt_or_ge b l.length with h | h
    · exact h
    · rw [List.getElem?_eq_none h] at hb; cases hb
  have h1 : (l.drop start).drop (b - start) = l.drop b := by
    rw [List.drop_drop]; congr 1; omega
  have h2 : l.drop b = it :: l.drop (b + 1) := by
    rw [List.drop_eq_getElem_cons hlt]
    have : l[b] = it := by
      have := List.getElem?_eq_getElem hlt
      rw [this] at hb; exact Option.some.inj hb
    rw [this]
  calc l.drop start = (l.drop start).take (b - start) ++ (l.drop start).drop (b - start) :=
        (List.take_append_drop _ _).symm
    _ = _ := by rw [h1, h2]

theorem take_take_drop (xs : List Item) (r k : Nat) :
    xs.take r ++ (xs.drop r).take k = xs.take (r + k) := by
  rw [List.take_add]

theorem shouldPrune_pendOf (it : Item) : shouldPrune (pendOf it) = (postOf (some it)).isEmpty := by
  cases it <;> simp [shouldPrune, pendOf, postOf]

theorem goneAfter_eq (l : List Item) (b nb k : Nat) (it : Item) (hb : l[b]? = some it)
    (hk : pruneAfter l (pendOf it) (b + 1 + it.replace) (nb :: rest) = .ok k) :
    goneAfter l b nb = (l.drop (b + 1)).take (it.replace + k) := by
  unfold goneAfter
  rw [hb]
  simp only
  unfold pruneAfter at hk
  rw [shouldPrune_pendOf] at hk
  by_cases hp : (postOf (some it)).isEmpty = true
  · simp only [hp, if_true] at hk ⊢
    have := (pruneCount_spec _ _ _ hk).2
    rw [this, ← take_take_drop, List.drop_drop]
  · simp only [hp] at hk ⊢
    simp at hk
    subst hk
    simp

/-! ## conservation -/

theorem go_conserve (p : Params) (l : List Item) (n : Nat) :
    ∀ (bs : List Nat) (idx start : Nat) (pending : Option (List Elem)) (prev : Option Item)
      (lo : Nat) (lines : List Line),
      validFrom l lo bs = true →
      postOf prev = pendingItems pending →
      go p l n idx start pending bs = .ok lines →
      reassembleFrom p prev (lines.map Line.flat) (droppedOf l bs) = some (l.drop start) := by
  intro bs
  induction bs with
  | nil => intro idx start pending prev lo lines hv; simp [validFrom] at hv
  | cons b rest ih =>
    intro idx start pending prev lo lines hv hprev h
    simp only [go] at h
    split at h
    · simp at h
    · rename_i ln start' pend' hstep
      split at h
      · simp at h
      · rename_i ls hgo
        simp only [Except.ok.injEq] at h
        subst h
        obtain ⟨hsb, hbl, brk, skip, k, w, pen, hbrk, hprune, hstart', _, _, hln, _⟩ := step_ok hstep
        have hflat : ln.flat = leftPart p ++ (postOf prev ++
            ((l.drop start).take (b - start) ++ (brk ++ [.glue 0 p.rightSkip]))) := by
          rw [hln, hprev]; rfl
        cases rest with
        | nil =>
          simp only [validFrom, Bool.and_eq_true, decide_eq_true_eq] at hv
          have hb : b = l.length := hv.2
          have hnone : l[b]? = none := by rw [hb]; simp
          rw [hnone] at hbrk
          simp only [breakPart, Except.ok.injEq, Prod.mk.injEq] at hbrk
          obtain ⟨hbrk1, _, _⟩ := hbrk
          simp only [go, Except.ok.injEq] at hgo
          subst hgo
          simp only [List.map_cons, List.map_nil, droppedOf, reassembleFrom]
          rw [hflat, lineBody_flat p prev none _ brk (by rw [← hbrk1])]
          congr 1
          apply List.take_of_length_le
          simp; omega
        | cons nb rest' =>
          simp only [validFrom, Bool.and_eq_true, decide_eq_true_eq] at hv
          obtain ⟨⟨_, hlt⟩, hv2⟩ := hv
          cases hit : l[b]? with
          | none => rw [hit] at hv2; simp at hv2
          | some it =>
            rw [hit] at hv2 hbrk
            simp only [Bool.and_eq_true] at hv2
            obtain ⟨hisb, hvrest⟩ := hv2
            rw [breakPart_some it hisb] at hbrk
            simp only [Except.ok.injEq, Prod.mk.injEq] at hbrk
            obtain ⟨hbrk1, hpend, hskip⟩ := hbrk
            subst hpend hskip
            have hgone := goneAfter_eq l b nb k it hit hprune
            have hih := ih (idx + 1) start' (pendOf it) (some it) _ ls hvrest (postOf_pendOf it) hgo
            simp only [List.map_cons, droppedOf, hit, reassembleFrom]
            rw [hflat, lineBody_flat p prev (some it) _ brk (by rw [← hbrk1])]
            simp only [Option.bind_some]
            rw [hih]
            simp only [Option.map_some, Option.some.injEq]
            have : l.drop (b + 1 + it.replace + k) = (l.drop (b + 1)).drop (it.replace + k) := by
              rw [List.drop_drop]; congr 1; omega
            rw [hgone, hstart', this, List.cons_append, List.take_append_drop]
            exact (list_split l start b it hsb hit).symm

end C12
