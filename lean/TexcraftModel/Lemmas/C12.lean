import TexcraftModel.Model.C12

/-! Helper lemmas for C12 (conservation by induction over the break points). -/
namespace C12

/-! ## stripping -/

theorem stripPrefix_append (a r : List Item) : stripPrefix a (a ++ r) = some r := by
  induction a with
  | nil => simp [stripPrefix]
  | cons x xs ih => simp [stripPrefix, ih]

theorem stripSuffix_append (r s : List Item) : stripSuffix s (r ++ s) = some r := by
  simp [stripSuffix, List.reverse_append, stripPrefix_append]

theorem lineBody_flat (p : Params) (prev brk : Option Item) (body vis : List Item)
    (hv : vis = (match brk with | some it => visible it | none => [])) :
    lineBody p prev brk (leftPart p ++ (postOf prev ++ (body ++ (vis ++ [.glue 0 p.rightSkip])))) = some body := by
  subst hv
  unfold lineBody
  rw [stripPrefix_append]
  simp only [Option.bind_some]
  rw [stripPrefix_append]
  simp only [Option.bind_some]
  rw [← List.append_assoc, stripSuffix_append]
  simp only [Option.bind_some]
  exact stripSuffix_append _ _

/-! ## pruning -/

theorem pruneCount_spec : ∀ (xs : List Item) (n k : Nat), pruneCount xs n = .ok k →
    k ≤ n ∧ (xs.take n).takeWhile Item.discardable = xs.take k
  | _, 0, k, h => by
    simp [pruneCount] at h; subst h; simp
  | [], n + 1, k, h => by simp [pruneCount] at h
  | it :: t, n + 1, k, h => by
    simp only [pruneCount] at h
    by_cases hd : it.nonDiscardable = true
    · simp [hd] at h; subst h
      simp [Item.discardable, hd]
    · simp [hd] at h
      cases hr : pruneCount t n with
      | error e => simp [hr] at h
      | ok k' =>
        simp [hr] at h; subst h
        have ih := pruneCount_spec t n k' hr
        refine ⟨by omega, ?_⟩
        simp [Item.discardable, hd, ih.2]

/-! ## one iteration -/

/-- The pending post-break material a break item leaves. -/
def pendOf : Item → Option (List Elem)
  | .disc _ post _ => some post
  | _ => none

theorem breakPart_some (it : Item) (h : it.isBreak = true) :
    breakPart (some it) = .ok (visible it, pendOf it, it.replace) := by
  cases it <;> simp_all [breakPart, visible, pendOf, Item.replace, Item.isBreak]

theorem postOf_pendOf (it : Item) : postOf (some it) = pendingItems (pendOf it) := by
  cases it <;> rfl

theorem step_ok {p : Params} {l : List Item} {n idx start : Nat} {pending : Option (List Elem)}
    {bp : Nat} {rest : List Nat} {ln : Line} {start' : Nat} {pend' : Option (List Elem)}
    (h : step p l n idx start pending bp rest = .ok (ln, start', pend')) :
    start ≤ bp ∧ bp ≤ l.length ∧
    ∃ brk skip k w pen,
      breakPart l[bp]? = .ok (brk, pend', skip) ∧
      pruneAfter l pend' (bp + 1 + skip) rest = .ok k ∧
      start' = bp + 1 + skip + k ∧
      lineWidth p.widths idx = .ok w ∧
      linePenalty p n idx pend'.isSome = .ok pen ∧
      ln = { left := leftPart p, post := pendingItems pending,
             body := (l.drop start).take (bp - start), brk := brk,
             right := .glue 0 p.rightSkip, width := w,
             indent := lineIndent p.indents idx, pen := pen } ∧
      ln.flat.any Item.packTodo = false := by
  unfold step at h
  split at h
  · simp at h
  · rename_i hs
    have hs' : start ≤ bp ∧ bp ≤ l.length := by
      by_cases hh : start ≤ bp ∧ bp ≤ l.length
      · exact hh
      · exact absurd hh hs
    refine ⟨hs'.1, hs'.2, ?_⟩
    split at h
    · simp at h
    · rename_i brk pd skip hb
      split at h
      · simp at h
      · rename_i k hk
        split at h
        · simp at h
        · rename_i w hw
          simp only at h
          split at h
          · simp at h
          · rename_i hpack
            split at h
            · simp at h
            · rename_i pen hpen
              simp only [Except.ok.injEq, Prod.mk.injEq] at h
              obtain ⟨h1, h2, h3⟩ := h
              subst h3
              refine ⟨brk, skip, k, w, pen, hb, hk, h2.symm, hw, hpen, ?_, ?_⟩
              · rw [← h1]; rfl
              · rw [← h1]; simpa [Line.flat] using hpack

end C12
