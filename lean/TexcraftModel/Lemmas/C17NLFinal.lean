import TexcraftModel.Lemmas.C17NLRun
/-! What the final state of the work-list loop of `NextLargerProgram::new` (C17) is: the map is
the cut graph, the warnings are the cuts in ascending order, `sorted_chars` is a topological
order of all nodes. -/
namespace C17

theorem isCut_all_le (g : List (Nat × Nat)) (c : Nat) (h : isCut g c = true) :
    ∀ m y, it (nxt g) m c = some y → y ≤ c := by
  obtain ⟨p, p1, p2, p3⟩ := isCut_meaning g c h
  intro m
  induction m using Nat.strongRecOn with
  | _ m ih =>
    intro y hy
    by_cases hm : m < p
    · exact p3 m y hm hy
    · have e : m = p + (m - p) := by omega
      rw [e, it_add, p2] at hy
      simp only [Option.bind_some] at hy
      exact ih (m - p) (by omega) y hy

/-- In the final state every node that `isCut` marks has been cut. -/
theorem cut_complete {G0 : List (Nat × Nat)} {σ : WL} (hI : Inv G0 σ) (hl : σ.leaves = [])
    (hn : σ.nonLeaves = []) (y : Nat) (hy : isCut G0 y = true) : y ∈ cutsOf σ := by
  obtain ⟨p, p1, p2, p3⟩ := isCut_meaning G0 y hy
  have hsorted : ∀ x, IsNode G0 x → x ∈ σ.sorted := by
    intro x hx
    rcases (hI.cover x).1 hx with h | h | h
    · exact h
    · rw [hl] at h; simp at h
    · rw [hn] at h; simp at h
  apply Classical.byContradiction
  intro hyc
  by_cases hall : ∀ m, m < p → ∀ z, it (nxt G0) m y = some z → z ∉ cutsOf σ
  · -- the whole cycle is still in the map: impossible in a topological order
    have hdesc : ∀ m, m ≤ p → ∃ z, it (nxt G0) m y = some z ∧ z ∈ σ.sorted ∧
        σ.sorted.idxOf z + m ≤ σ.sorted.idxOf y := by
      intro m
      induction m with
      | zero =>
        intro _
        have hnode : IsNode G0 y := by
          have e : p = 1 + (p - 1) := by omega
          rw [e, it_add] at p2
          cases h1 : it (nxt G0) 1 y with
          | none => simp [h1] at p2
          | some d =>
            simp only [it, Option.bind_some] at h1
            exact (isNode_of_nxt G0 y d h1).1
        exact ⟨y, rfl, hsorted y hnode, by omega⟩
      | succ m ih =>
        intro hm
        obtain ⟨z, hz, hzs, hzi⟩ := ih (by omega)
        have hzc := hall m (by omega) z hz
        have e : p = (m + 1) + (p - (m + 1)) := by omega
        rw [e] at p2
        obtain ⟨z', hz'⟩ := it_prefix _ _ _ _ _ p2
        have hstep : nxt G0 z = some z' := by
          rw [it, hz] at hz'; simpa using hz'
        have hg : nxt σ.g z = some z' := by rw [hI.graph z]; simp [hzc, hstep]
        have hz's := hsorted z' (isNode_of_nxt G0 z z' hstep).2
        have := (hI.topo z z' hg hz's).2
        exact ⟨z', hz', hz's, by omega⟩
    obtain ⟨z, hz, _, hzi⟩ := hdesc p (Nat.le_refl p)
    rw [p2] at hz
    simp only [Option.some.injEq] at hz
    subst hz
    omega
  · apply hall
    intro m hm z hz hzc
    obtain ⟨c, hc, hce⟩ := List.mem_map.1 hzc
    have hzcut : isCut G0 z = true := by rw [← hce]; exact (hI.cutOK c hc).1
    have h1 : z ≤ y := p3 m z hm hz
    have e : p = m + (p - m) := by omega
    rw [e, it_add, hz] at p2
    simp only [Option.bind_some] at p2
    have h2 : y ≤ z := isCut_all_le G0 z hzcut (p - m) y p2
    have : z = y := by omega
    exact hyc (this ▸ hzc)

/-- The final map is the cut graph. -/
theorem final_graph {G0 : List (Nat × Nat)} {σ : WL} (hI : Inv G0 σ) (hl : σ.leaves = [])
    (hn : σ.nonLeaves = []) (y : Nat) : nxt σ.g y = cutNxt G0 y := by
  rw [hI.graph y]
  simp only [cutNxt]
  by_cases hc : y ∈ cutsOf σ
  · obtain ⟨c, hcm, hce⟩ := List.mem_map.1 hc
    have := (hI.cutOK c hcm).1
    rw [hce] at this
    simp [hc, this]
  · by_cases hcut : isCut G0 y = true
    · exact absurd (cut_complete hI hl hn y hcut) hc
    · simp [hc, hcut]

/-- Two lists that are strictly increasing in the first component and have the same members
are equal. -/
theorem eq_of_sorted_same_mem : ∀ (l₁ l₂ : List (Nat × Nat)),
    l₁.Pairwise (fun a b => a.1 < b.1) → l₂.Pairwise (fun a b => a.1 < b.1) →
    (∀ e, e ∈ l₁ ↔ e ∈ l₂) → l₁ = l₂ := by
  intro l₁
  induction l₁ with
  | nil =>
    intro l₂ _ _ h
    cases l₂ with
    | nil => rfl
    | cons b t => exact absurd ((h b).2 (by simp)) (by simp)
  | cons a t ih =>
    intro l₂ h1 h2 h
    cases l₂ with
    | nil => exact absurd ((h a).1 (by simp)) (by simp)
    | cons b t' =>
      have p1 := List.pairwise_cons.1 h1
      have p2 := List.pairwise_cons.1 h2
      have hab : a = b := by
        rcases List.mem_cons.1 ((h a).1 (by simp)) with e | e
        · exact e
        · rcases List.mem_cons.1 ((h b).2 (by simp)) with e' | e'
          · exact e'.symm
          · have := p2.1 a e
            have := p1.1 b e'
            omega
      subst hab
      congr 1
      apply ih t' p1.2 p2.2
      intro e
      constructor
      · intro he
        rcases List.mem_cons.1 ((h e).1 (List.mem_cons_of_mem _ he)) with e' | e'
        · have := p1.1 e he; rw [e'] at this; omega
        · exact e'
      · intro he
        rcases List.mem_cons.1 ((h e).2 (List.mem_cons_of_mem _ he)) with e' | e'
        · have := p2.1 e he; rw [e'] at this; omega
        · exact e'

/-- The `InfiniteLoop` warnings in reporting order are the cuts in ascending order. -/
theorem final_loops {G0 : List (Nat × Nat)} {σ : WL} (hI : Inv G0 σ) (hl : σ.leaves = [])
    (hn : σ.nonLeaves = []) (hlab : ∀ x, IsNode G0 x → x < 256) : σ.loops = nlLoops G0 255 := by
  apply eq_of_sorted_same_mem _ _ hI.desc
  · unfold nlLoops
    refine List.Pairwise.filterMap _ ?_ (List.pairwise_lt_range (n := 255 + 1))
    intro a a' haa b hb b' hb'
    split at hb
    · split at hb'
      · cases h1 : nxt G0 a with
        | none => simp [h1] at hb
        | some d =>
          cases h2 : nxt G0 a' with
          | none => simp [h2] at hb'
          | some d' =>
            simp only [h1, Option.map_some, Option.some.injEq] at hb
            simp only [h2, Option.map_some, Option.some.injEq] at hb'
            subst hb; subst hb'
            exact haa
      · simp at hb'
    · simp at hb
  · intro e
    have hR : e ∈ nlLoops G0 255 ↔ e.1 < 256 ∧ isCut G0 e.1 = true ∧ nxt G0 e.1 = some e.2 := by
      unfold nlLoops
      simp only [List.mem_filterMap, List.mem_range]
      constructor
      · rintro ⟨c, hc, hce⟩
        split at hce
        · rename_i hcut
          cases h1 : nxt G0 c with
          | none => simp [h1] at hce
          | some d =>
            simp only [h1, Option.map_some, Option.some.injEq] at hce
            subst hce
            exact ⟨by omega, hcut, h1⟩
        · simp at hce
      · rintro ⟨h1, h2, h3⟩
        exact ⟨e.1, by omega, by simp [h2, h3]⟩
    rw [hR]
    constructor
    · intro he
      obtain ⟨h1, h2⟩ := hI.cutOK e he
      exact ⟨hlab _ (isNode_of_nxt G0 e.1 e.2 h2).1, h1, h2⟩
    · rintro ⟨_, h2, h3⟩
      obtain ⟨c, hc, hce⟩ := List.mem_map.1 (cut_complete hI hl hn e.1 h2)
      have := (hI.cutOK c hc).2
      rw [hce, h3] at this
      simp only [Option.some.injEq] at this
      have : c = e := by rw [← Prod.eta c, ← Prod.eta e]; simp only [hce, this]
      exact this ▸ hc

end C17
