import TexcraftModel.Lemmas.C18

/-! C18: CST ⇄ lists. `buildCalls (lower l) = l` for every expressible list, by mutual
structural recursion over nodes and lists. -/
set_option linter.unusedSimpArgs false
set_option linter.unusedVariables false
namespace C18

theorem fnOfName_name (f : Fn) : fnOfName f.name = some f := by cases f <;> rfl
theorem fieldOfName_name (f : Field) : fieldOfName f.name = some f := by cases f <;> rfl

/-! ### `Args::build` on the printer's argument lists, one lemma per function -/

theorem buildCall_chars (f : Nat) (m : Mode) (hm : allowed m .chars = true) (v0 v1 : Val) :
    buildCall (f + 1) m (mkCall .chars [v0, v1]) = buildFn f .chars [(.content, v0), (.font, v1)] := by
  simp only [buildCall, mkCall, fnOfName_name, hm, Fn.fields, Fn.npos, mkArgs, resolve,
    fieldOfName_name]
  simp [nodupFields]

theorem buildCall_glue (f : Nat) (m : Mode) (hm : allowed m .glue = true) (v0 v1 v2 : Val) :
    buildCall (f + 1) m (mkCall .glue [v0, v1, v2]) = buildFn f .glue [(.width, v0), (.stretch, v1), (.shrink, v2)] := by
  simp only [buildCall, mkCall, fnOfName_name, hm, Fn.fields, Fn.npos, mkArgs, resolve,
    fieldOfName_name]
  simp [nodupFields]

theorem buildCall_penalty (f : Nat) (m : Mode) (hm : allowed m .penalty = true) (v0 : Val) :
    buildCall (f + 1) m (mkCall .penalty [v0]) = buildFn f .penalty [(.value, v0)] := by
  simp only [buildCall, mkCall, fnOfName_name, hm, Fn.fields, Fn.npos, mkArgs, resolve,
    fieldOfName_name]
  simp [nodupFields]

theorem buildCall_kern (f : Nat) (m : Mode) (hm : allowed m .kern = true) (v0 : Val) :
    buildCall (f + 1) m (mkCall .kern [v0]) = buildFn f .kern [(.width, v0)] := by
  simp only [buildCall, mkCall, fnOfName_name, hm, Fn.fields, Fn.npos, mkArgs, resolve,
    fieldOfName_name]
  simp [nodupFields]

theorem buildCall_hbox (f : Nat) (m : Mode) (hm : allowed m .hbox = true) (v0 v1 v2 v3 v4 v5 v6 : Val) :
    buildCall (f + 1) m (mkCall .hbox [v0, v1, v2, v3, v4, v5, v6]) = buildFn f .hbox [(.height, v0), (.width, v1), (.depth, v2), (.shift_amount, v3), (.glue_ratio, v4), (.glue_order, v5), (.content, v6)] := by
  simp only [buildCall, mkCall, fnOfName_name, hm, Fn.fields, Fn.npos, mkArgs, resolve,
    fieldOfName_name]
  simp [nodupFields]

theorem buildCall_lig (f : Nat) (m : Mode) (hm : allowed m .lig = true) (v0 v1 v2 v3 v4 : Val) :
    buildCall (f + 1) m (mkCall .lig [v0, v1, v2, v3, v4]) = buildFn f .lig [(.char, v0), (.original_chars, v1), (.font, v2), (.includes_left_boundary, v3), (.includes_right_boundary, v4)] := by
  simp only [buildCall, mkCall, fnOfName_name, hm, Fn.fields, Fn.npos, mkArgs, resolve,
    fieldOfName_name]
  simp [nodupFields]

theorem buildCall_vbox (f : Nat) (m : Mode) (hm : allowed m .vbox = true) (v0 v1 v2 v3 v4 : Val) :
    buildCall (f + 1) m (mkCall .vbox [v0, v1, v2, v3, v4]) = buildFn f .vbox [(.height, v0), (.width, v1), (.depth, v2), (.shift_amount, v3), (.content, v4)] := by
  simp only [buildCall, mkCall, fnOfName_name, hm, Fn.fields, Fn.npos, mkArgs, resolve,
    fieldOfName_name]
  simp [nodupFields]

theorem buildCall_disc (f : Nat) (m : Mode) (hm : allowed m .disc = true) (v0 v1 v2 : Val) :
    buildCall (f + 1) m (mkCall .disc [v0, v1, v2]) = buildFn f .disc [(.pre_break, v0), (.post_break, v1), (.replace_count, v2)] := by
  simp only [buildCall, mkCall, fnOfName_name, hm, Fn.fields, Fn.npos, mkArgs, resolve,
    fieldOfName_name]
  simp [nodupFields]

theorem buildCall_rule (f : Nat) (m : Mode) (hm : allowed m .rule = true) (v0 v1 v2 : Val) :
    buildCall (f + 1) m (mkCall .rule [v0, v1, v2]) = buildFn f .rule [(.height, v0), (.width, v1), (.depth, v2)] := by
  simp only [buildCall, mkCall, fnOfName_name, hm, Fn.fields, Fn.npos, mkArgs, resolve,
    fieldOfName_name]
  simp [nodupFields]

theorem buildCall_mark (f : Nat) (m : Mode) (hm : allowed m .mark = true) (v0 : Val) :
    buildCall (f + 1) m (mkCall .mark [v0]) = buildFn f .mark [(.dummy, v0)] := by
  simp only [buildCall, mkCall, fnOfName_name, hm, Fn.fields, Fn.npos, mkArgs, resolve,
    fieldOfName_name]
  simp [nodupFields]

theorem buildCall_adjust (f : Nat) (m : Mode) (hm : allowed m .adjust = true) (v0 : Val) :
    buildCall (f + 1) m (mkCall .adjust [v0]) = buildFn f .adjust [(.content, v0)] := by
  simp only [buildCall, mkCall, fnOfName_name, hm, Fn.fields, Fn.npos, mkArgs, resolve,
    fieldOfName_name]
  simp [nodupFields]

theorem buildCall_insertion (f : Nat) (m : Mode) (hm : allowed m .insertion = true) (v0 v1 v2 v3 v4 v5 v6 v7 : Val) :
    buildCall (f + 1) m (mkCall .insertion [v0, v1, v2, v3, v4, v5, v6, v7]) = buildFn f .insertion [(.box_number, v0), (.height, v1), (.split_max_depth, v2), (.split_top_skip_width, v3), (.split_top_skip_stretch, v4), (.split_top_skip_shrink, v5), (.float_penalty, v6), (.vbox, v7)] := by
  simp only [buildCall, mkCall, fnOfName_name, hm, Fn.fields, Fn.npos, mkArgs, resolve,
    fieldOfName_name]
  simp [nodupFields]

theorem buildCall_math (f : Nat) (m : Mode) (hm : allowed m .math = true) (v0 : Val) :
    buildCall (f + 1) m (mkCall .math [v0]) = buildFn f .math [(.kind, v0)] := by
  simp only [buildCall, mkCall, fnOfName_name, hm, Fn.fields, Fn.npos, mkArgs, resolve,
    fieldOfName_name]
  simp [nodupFields]

/-! ### values -/

theorem toU32_toI32 (n : Nat) (h : n < 4294967296) : toU32 (toI32 n) = n := by
  unfold toU32 toI32; split <;> omega
theorem toU8_cast (n : Nat) (h : n < 256) : toU8 (n : Int) = n := by
  unfold toU8; omega

theorem getStretch_stretchVal (r : List (Field × Val)) (f : Field) (s : Int) (o : Order)
    (h : getField r f = some (stretchVal s o)) : getStretch r f = some (s, o) := by
  unfold getStretch; rw [h]; cases o <;> rfl

theorem getRunning_runningVal (r : List (Field × Val)) (f : Field) (s : Int)
    (h : getField r f = some (runningVal s)) : getRunning r f = some s := by
  unfold getRunning; rw [h]; unfold runningVal
  by_cases hs : s = running
  · simp [hs]
  · simp [hs]

theorem getBool_boolStr (r : List (Field × Val)) (f : Field) (b : Bool)
    (h : getField r f = some (.str (boolStr b))) : getBool r f = some b := by
  unfold getBool getStr; rw [h]; cases b <;> simp [boolStr]

theorem getOrder_keyword (r : List (Field × Val)) (f : Field) (o : Order)
    (h : getField r f = some (.str o.keyword)) : getOrder r f = some o := by
  unfold getOrder getStr; rw [h]; simp [Order.ofKeyword_keyword]

theorem digitChar_ne (d : Nat) (c : Char) (hc : digitVal c = none) : digitChar d ≠ c := by
  intro h
  have : digitVal (digitChar d) ≠ none := by
    unfold digitChar; split <;> decide
  rw [h] at this; exact this hc

theorem splitDot_digits : ∀ (ds : List Nat) (r : List Char),
    splitDot (ds.map digitChar ++ '.' :: r) = (ds.map digitChar, some r) := by
  intro ds
  induction ds with
  | nil => intro r; simp [splitDot]
  | cons d ds ih =>
    intro r
    simp only [List.map_cons, List.cons_append, splitDot, digitChar_ne d '.' (by decide), if_false]
    rw [ih]

theorem parseI32_natChars (n : Nat) (hn : n ≤ 2147483647) : parseI32 (natChars n) = some (n : Int) := by
  have h := scanDigits_natChars n [] trivial
  simp only [List.append_nil] at h
  unfold natChars at h ⊢
  have hne := natDigits_ne_nil n
  cases hd : natDigits n with
  | nil => exact absurd hd hne
  | cons d ds =>
    rw [hd] at h
    simp only [List.map_cons] at h ⊢
    simp only [parseI32, digitChar_ne d '-' (by decide), digitChar_ne d '+' (by decide), or_self,
      if_false, h]
    simp
    omega

/-- The glue ratio text: `display_no_units` of a non-negative value below 16384 is read back by
`GlueRatio::from_float_str` as the same value. -/
theorem parseRatio_print (H : ScaledRoundTrip) (g : Nat) (hg : g ≤ 2147483647) :
    parseRatio (printNoUnits (g : Int)) = some (g : Int) := by
  obtain ⟨h1, h2, h3⟩ := H (g % 65536) (Nat.mod_lt _ (by omega))
  unfold printNoUnits
  have hnn : ¬ ((g : Int) < 0) := by omega
  simp only [hnn, if_false, List.nil_append, Int.natAbs_natCast, List.append_assoc, List.cons_append]
  have hne : natChars (g / 65536) ≠ [] := by
    unfold natChars; simp [natDigits_ne_nil]
  have hne2 := natDigits_ne_nil (g / 65536)
  unfold parseRatio natChars
  cases hd : natDigits (g / 65536) with
  | nil => exact absurd hd hne2
  | cons d ds =>
    simp only [List.map_cons, List.cons_append, digitChar_ne d '-' (by decide), if_false]
    have e : digitChar d :: (List.map digitChar ds ++ '.' :: List.map digitChar (fracDigits (g % 65536)))
        = List.map digitChar (natDigits (g / 65536)) ++ '.' :: List.map digitChar (fracDigits (g % 65536)) := by
      rw [hd]; rfl
    rw [e]
    unfold parseRatioAbs
    rw [splitDot_digits]
    have := parseI32_natChars (g / 65536) (by omega)
    unfold natChars at this
    simp only [this, Option.getD_some]
    have hf := scanFrac_digits (fracDigits (g % 65536)) [] h2 trivial
    simp only [List.append_nil] at hf
    simp only [hf]
    have ht := fracDigits_take (g % 65536)
    unfold fromDecimalDigits at h1
    rw [ht] at h1
    rw [h1]
    have hv : ((g / 65536 : Nat) : Int) * 65536 + ((g % 65536 : Nat) : Int) = (g : Int) := by omega
    rw [hv]
    have : ¬ ((g : Int) < -2147483647 ∨ (g : Int) > 2147483647) := by omega
    simp [this]

theorem getRatio_print (H : ScaledRoundTrip) (r : List (Field × Val)) (f : Field) (g : Int)
    (h0 : 0 ≤ g) (h1 : g ≤ 2147483647)
    (h : getField r f = some (.str (printNoUnits g))) : getRatio r f = some g := by
  unfold getRatio getStr; rw [h]
  have := parseRatio_print H g.toNat (by omega)
  have e : ((g.toNat : Nat) : Int) = g := by omega
  rw [e] at this
  simpa using this

/-! ### typed fields, one lemma per function -/

theorem buildFn_chars (f : Nat) (s : Str) (font : Nat) (hf : font < 4294967296) :
    buildFn (f + 1) .chars [(.content, .str s), (.font, .int (toI32 font))] =
      some (s.map (Node.char · font)) := by
  simp [buildFn, getStr, getInt, getField, toU32_toI32 _ hf]

theorem buildFn_glue (f : Nat) (w st sh : Int) (sto sho : Order) :
    buildFn (f + 1) .glue [(.width, .dim w), (.stretch, stretchVal st sto), (.shrink, stretchVal sh sho)] =
      some [.glue 0 w st sto sh sho] := by
  simp only [buildFn]
  rw [getStretch_stretchVal _ _ st sto (by simp [getField]), getStretch_stretchVal _ _ sh sho (by simp [getField])]
  simp [getDim, getField]

theorem buildFn_penalty (f : Nat) (p : Int) :
    buildFn (f + 1) .penalty [(.value, .int p)] = some [.penalty p] := by
  simp [buildFn, getInt, getField]

theorem buildFn_kern (f : Nat) (w : Int) :
    buildFn (f + 1) .kern [(.width, .dim w)] = some [.kern 0 w] := by
  simp [buildFn, getDim, getField]

theorem buildFn_rule (f : Nat) (h w d : Int) :
    buildFn (f + 1) .rule [(.height, runningVal h), (.width, runningVal w), (.depth, runningVal d)] =
      some [.rule h w d] := by
  simp only [buildFn]
  rw [getRunning_runningVal _ _ h (by simp [getField]), getRunning_runningVal _ _ w (by simp [getField]),
    getRunning_runningVal _ _ d (by simp [getField])]

theorem buildFn_lig (f : Nat) (c : Char) (orig : Str) (font : Nat) (hf : font < 4294967296) (l r : Bool) :
    buildFn (f + 1) .lig [(.char, .str [c]), (.original_chars, .str orig), (.font, .int (toI32 font)),
        (.includes_left_boundary, .str (boolStr l)), (.includes_right_boundary, .str (boolStr r))] =
      some [.lig c orig font l r] := by
  simp only [buildFn]
  rw [getBool_boolStr _ _ l (by simp [getField]), getBool_boolStr _ _ r (by simp [getField])]
  simp [getChar, getStr, getInt, getField, toU32_toI32 _ hf]

theorem buildFn_mark (f : Nat) : buildFn (f + 1) .mark [(.dummy, .int 0)] = some [.mark 0] := by
  simp [buildFn, getInt, getField]

theorem buildFn_math (f : Nat) (a : Bool) :
    buildFn (f + 1) .math [(.kind, .str (if a then ['a','f','t','e','r'] else ['b','e','f','o','r','e']))] =
      some [.math a] := by
  cases a <;> simp [buildFn, getStr, getField]

theorem buildFn_hbox (H : ScaledRoundTrip) (f : Nat) (h w d s g : Int) (h0 : 0 ≤ g) (h1 : g ≤ 2147483647)
    (o : Order) (cs : List Call) (l : List Node) (hl : buildCalls f .H cs = some l) :
    buildFn (f + 1) .hbox [(.height, .dim h), (.width, .dim w), (.depth, .dim d), (.shift_amount, .dim s),
        (.glue_ratio, .str (printNoUnits g)), (.glue_order, .str o.keyword), (.content, .list cs)] =
      some [.hbox h w d s g o l] := by
  simp only [buildFn]
  rw [getRatio_print H _ _ g h0 h1 (by simp [getField]), getOrder_keyword _ _ o (by simp [getField])]
  simp [getDim, getList, getField, hl]

theorem buildFn_vbox (f : Nat) (h w d s : Int) (cs : List Call) (l : List Node)
    (hl : buildCalls f .V cs = some l) :
    buildFn (f + 1) .vbox [(.height, .dim h), (.width, .dim w), (.depth, .dim d), (.shift_amount, .dim s),
        (.content, .list cs)] =
      some [.vbox h w d s false l] := by
  simp [buildFn, getDim, getList, getField, hl]

theorem buildFn_adjust (f : Nat) (cs : List Call) (l : List Node) (hl : buildCalls f .V cs = some l) :
    buildFn (f + 1) .adjust [(.content, .list cs)] =
      some [.adjust l] := by
  simp [buildFn, getList, getField, hl]

theorem buildFn_disc (f : Nat) (pre post : List Call) (rc : Nat) (hrc : rc < 4294967296)
    (a b : List Node) (ha : buildCalls f .D pre = some a) (hb : buildCalls f .D post = some b) :
    buildFn (f + 1) .disc [(.pre_break, .list pre), (.post_break, .list post),
        (.replace_count, .int (toI32 rc))] =
      some [.disc a b rc] := by
  simp [buildFn, getInt, getList, getField, toU32_toI32 _ hrc, ha, hb]

theorem buildFn_insertion (f : Nat) (box : Nat) (hb : box < 256) (h md w st sh : Int) (sto sho : Order)
    (fp : Nat) (hfp : fp < 4294967296) (cs : List Call) (l : List Node)
    (hl : buildCalls f .V cs = some l) :
    buildFn (f + 1) .insertion [(.box_number, .int box), (.height, .dim h), (.split_max_depth, .dim md),
        (.split_top_skip_width, .dim w), (.split_top_skip_stretch, stretchVal st sto),
        (.split_top_skip_shrink, stretchVal sh sho),
        (.float_penalty, .int (toI32 fp)), (.vbox, .list cs)] =
      some [.ins box h md w st sto sh sho fp l] := by
  simp only [buildFn]
  rw [getStretch_stretchVal _ _ st sto (by simp [getField]), getStretch_stretchVal _ _ sh sho (by simp [getField])]
  simp [getInt, getDim, getList, getField, hl]
  rw [toU8_cast _ hb, toU32_toI32 _ hfp]
  simp
/-! ### the round trip CST ⇄ lists -/

def curNodes : Option (Nat × Str) → List Node
  | none => []
  | some (f, buf) => buf.map (Node.char · f)

def curOk : Option (Nat × Str) → Prop
  | none => True
  | some (f, _) => f < 4294967296

theorem buildCalls_cons (f : Nat) (m : Mode) (c : Call) (r : List Call) (a b : List Node)
    (ha : buildCall f m c = some a) (hb : buildCalls f m r = some b) :
    buildCalls (f + 1) m (c :: r) = some (a ++ b) := by
  simp [buildCalls, ha, hb]

theorem build_chars (f : Nat) (m : Mode) (hm : allowed m .chars = true) (buf : Str) (font : Nat)
    (hf : font < 4294967296) :
    buildCall (f + 2) m (charsCall buf font) = some (buf.map (Node.char · font)) := by
  unfold charsCall
  rw [buildCall_chars _ _ hm, buildFn_chars _ _ _ hf]

theorem goH_nonchar_none (n : Node) (r : List Node) (h : ∀ c f, n ≠ .char c f) :
    goH none (n :: r) = lowerNode n :: goH none r := by
  cases n <;> simp [goH] at h ⊢

theorem goH_nonchar_some (n : Node) (r : List Node) (ft : Nat) (buf : Str) (h : ∀ c f, n ≠ .char c f) :
    goH (some (ft, buf)) (n :: r) = charsCall buf ft :: lowerNode n :: goH none r := by
  cases n <;> simp [goH] at h ⊢

theorem dimOk_le {s : Int} (h : dimOk s = true) : s ≤ 1073741823 := by
  unfold dimOk maxDimen at h
  exact (of_decide_eq_true h).2

theorem u32Ok_lt {n : Nat} (h : u32Ok n = true) : n < 4294967296 := by
  simp [u32Ok] at h; omega

theorem callSize_mkCall (fn : Fn) (vals : List Val) :
    callSize (mkCall fn vals) = argsSize (mkArgs fn.npos fn.fields vals) + 1 := rfl

mutual
theorem build_node (H : ScaledRoundTrip) : ∀ (n : Node) (m : Mode) (f : Nat),
    2 * callSize (lowerNode n) < f → allowed m (kindFn n) = true → reprNode n = true →
    buildCall f m (lowerNode n) = some [normNode n]
  | .char c font, m, f, hf, hm, he => by
    obtain ⟨f', rfl⟩ : ∃ f', f = f' + 2 := ⟨f - 2, by simp [lowerNode, charsCall, callSize_mkCall, argsSize, mkArgs, Fn.npos, Fn.fields] at hf; omega⟩
    simp only [reprNode, decide_eq_true_eq] at he
    simpa [lowerNode, normNode] using build_chars f' m hm [c] font he
  | .glue kind w st sto sh sho, m, f, hf, hm, he => by
    obtain ⟨f', rfl⟩ : ∃ f', f = f' + 2 := ⟨f - 2, by simp [lowerNode, callSize_mkCall, argsSize, mkArgs, Fn.npos, Fn.fields] at hf; omega⟩
    simp only [lowerNode, normNode]
    rw [buildCall_glue _ _ hm, buildFn_glue]
  | .kern kind w, m, f, hf, hm, he => by
    obtain ⟨f', rfl⟩ : ∃ f', f = f' + 2 := ⟨f - 2, by simp [lowerNode, callSize_mkCall, argsSize, mkArgs, Fn.npos, Fn.fields] at hf; omega⟩
    simp only [lowerNode, normNode]
    rw [buildCall_kern _ _ hm, buildFn_kern]
  | .penalty p, m, f, hf, hm, he => by
    obtain ⟨f', rfl⟩ : ∃ f', f = f' + 2 := ⟨f - 2, by simp [lowerNode, callSize_mkCall, argsSize, mkArgs, Fn.npos, Fn.fields] at hf; omega⟩
    simp only [lowerNode, normNode]
    rw [buildCall_penalty _ _ hm, buildFn_penalty]
  | .rule h w d, m, f, hf, hm, he => by
    obtain ⟨f', rfl⟩ : ∃ f', f = f' + 2 := ⟨f - 2, by simp [lowerNode, callSize_mkCall, argsSize, mkArgs, Fn.npos, Fn.fields] at hf; omega⟩
    simp only [lowerNode, normNode]
    rw [buildCall_rule _ _ hm, buildFn_rule]
  | .lig c orig font l r, m, f, hf, hm, he => by
    obtain ⟨f', rfl⟩ : ∃ f', f = f' + 2 := ⟨f - 2, by simp [lowerNode, callSize_mkCall, argsSize, mkArgs, Fn.npos, Fn.fields] at hf; omega⟩
    simp only [reprNode, decide_eq_true_eq] at he
    simp only [lowerNode, normNode]
    rw [buildCall_lig _ _ hm, buildFn_lig _ _ _ _ he]
  | .mark n, m, f, hf, hm, he => by
    obtain ⟨f', rfl⟩ : ∃ f', f = f' + 2 := ⟨f - 2, by simp [lowerNode, callSize_mkCall, argsSize, mkArgs, Fn.npos, Fn.fields] at hf; omega⟩
    simp only [lowerNode, normNode]
    rw [buildCall_mark _ _ hm, buildFn_mark]
  | .math a, m, f, hf, hm, he => by
    obtain ⟨f', rfl⟩ : ∃ f', f = f' + 2 := ⟨f - 2, by simp [lowerNode, callSize_mkCall, argsSize, mkArgs, Fn.npos, Fn.fields] at hf; omega⟩
    simp only [lowerNode, normNode]
    rw [buildCall_math _ _ hm, buildFn_math]
  | .disc pre post rc, m, f, hf, hm, he => by
    have ih1 := build_D H pre
    have ih2 := build_D H post
    simp only [lowerNode, callSize_mkCall, argsSize, argSize, valSize, mkArgs, Fn.npos, Fn.fields] at hf
    obtain ⟨f', rfl⟩ : ∃ f', f = f' + 2 := ⟨f - 2, by omega⟩
    simp only [reprNode, Bool.and_eq_true, decide_eq_true_eq] at he
    obtain ⟨⟨h1, h2⟩, h3⟩ := he
    simp only [lowerNode, normNode]
    rw [buildCall_disc _ _ hm,
      buildFn_disc _ _ _ _ h3 _ _ (ih1 f' (by omega) h1) (ih2 f' (by omega) h2)]
  | .hbox h w d shift ratio order l, m, f, hf, hm, he => by
    have ih := build_goH H l none
    simp only [lowerNode, callSize_mkCall, argsSize, argSize, valSize, mkArgs, Fn.npos, Fn.fields] at hf
    obtain ⟨f', rfl⟩ : ∃ f', f = f' + 2 := ⟨f - 2, by omega⟩
    simp only [reprNode, Bool.and_eq_true, decide_eq_true_eq] at he
    obtain ⟨⟨h0, h1⟩, hl⟩ := he
    simp only [lowerNode, normNode]
    rw [buildCall_hbox _ _ hm,
      buildFn_hbox H _ _ _ _ _ _ h0 h1 _ _ _ (by simpa [curNodes] using ih f' (by omega) hl trivial)]
  | .vbox h w d shift gset l, m, f, hf, hm, he => by
    have ih := build_V H l
    simp only [lowerNode, callSize_mkCall, argsSize, argSize, valSize, mkArgs, Fn.npos, Fn.fields] at hf
    obtain ⟨f', rfl⟩ : ∃ f', f = f' + 2 := ⟨f - 2, by omega⟩
    simp only [reprNode] at he
    simp only [lowerNode, normNode]
    rw [buildCall_vbox _ _ hm, buildFn_vbox _ _ _ _ _ _ _ (ih f' (by omega) he)]
  | .adjust l, m, f, hf, hm, he => by
    have ih := build_V H l
    simp only [lowerNode, callSize_mkCall, argsSize, argSize, valSize, mkArgs, Fn.npos, Fn.fields] at hf
    obtain ⟨f', rfl⟩ : ∃ f', f = f' + 2 := ⟨f - 2, by omega⟩
    simp only [reprNode] at he
    simp only [lowerNode, normNode]
    rw [buildCall_adjust _ _ hm, buildFn_adjust _ _ _ (ih f' (by omega) he)]
  | .ins box h md w st sto sh sho fp l, m, f, hf, hm, he => by
    have ih := build_V H l
    simp only [lowerNode, callSize_mkCall, argsSize, argSize, valSize, mkArgs, Fn.npos, Fn.fields] at hf
    obtain ⟨f', rfl⟩ : ∃ f', f = f' + 2 := ⟨f - 2, by omega⟩
    simp only [reprNode, Bool.and_eq_true, decide_eq_true_eq] at he
    obtain ⟨⟨hb, hfp⟩, hl⟩ := he
    simp only [lowerNode, normNode]
    rw [buildCall_insertion _ _ hm,
      buildFn_insertion _ _ hb _ _ _ _ _ _ _ _ hfp _ _ (ih f' (by omega) hl)]

theorem build_goH (H : ScaledRoundTrip) : ∀ (l : List Node) (cur : Option (Nat × Str)) (f : Nat),
    2 * callsSize (goH cur l) < f → reprList .H l = true → curOk cur →
    buildCalls f .H (goH cur l) = some (curNodes cur ++ normList l)
  | [], cur, f, hf, he, hc => by
    cases cur with
    | none =>
      obtain ⟨f', rfl⟩ : ∃ f', f = f' + 1 := ⟨f - 1, by omega⟩
      simp [goH, buildCalls, curNodes, normList]
    | some p =>
      obtain ⟨ft, buf⟩ := p
      simp only [goH, callsSize, callSize_mkCall, charsCall] at hf
      obtain ⟨f', rfl⟩ : ∃ f', f = f' + 3 := ⟨f - 3, by omega⟩
      simp only [goH]
      rw [buildCalls_cons _ _ _ _ _ [] (build_chars f' .H rfl buf ft hc) (by simp [buildCalls])]
      simp [curNodes, normList]
  | n :: r, cur, f, hf, he, hc => by
    have ihn := build_node H n .H
    have ihr := build_goH H r
    simp only [reprList, Bool.and_eq_true] at he
    obtain ⟨⟨ha, hen⟩, her⟩ := he
    by_cases hch : ∃ c font, n = .char c font
    · obtain ⟨c, font, rfl⟩ := hch
      simp only [reprNode, decide_eq_true_eq] at hen
      have hfont := hen
      cases cur with
      | none =>
        simp only [goH] at hf ⊢
        rw [ihr (some (font, [c])) f hf her hfont]
        simp [curNodes, normList, normNode]
      | some p =>
        obtain ⟨ft, buf⟩ := p
        by_cases hft : font = ft
        · subst hft
          simp only [goH, if_true] at hf ⊢
          rw [ihr (some (font, buf ++ [c])) f hf her hfont]
          simp [curNodes, normList, normNode]
        · simp only [goH, hft, if_false] at hf ⊢
          simp only [callsSize, charsCall, callSize_mkCall] at hf
          obtain ⟨f', rfl⟩ : ∃ f', f = f' + 3 := ⟨f - 3, by omega⟩
          rw [buildCalls_cons _ _ _ _ _ _ (build_chars f' .H rfl buf ft hc)
            (ihr (some (font, [c])) (f' + 2) (by omega) her hfont)]
          simp [curNodes, normList, normNode]
    · have hnc : ∀ c f, n ≠ .char c f := fun c f h => hch ⟨c, f, h⟩
      cases cur with
      | none =>
        rw [goH_nonchar_none n r hnc] at hf ⊢
        simp only [callsSize] at hf
        obtain ⟨f', rfl⟩ : ∃ f', f = f' + 1 := ⟨f - 1, by omega⟩
        rw [buildCalls_cons _ _ _ _ _ _ (ihn f' (by omega) ha hen) (ihr none f' (by omega) her trivial)]
        simp [curNodes, normList, normNode]
      | some p =>
        obtain ⟨ft, buf⟩ := p
        rw [goH_nonchar_some n r ft buf hnc] at hf ⊢
        simp only [callsSize, charsCall, callSize_mkCall] at hf
        obtain ⟨f', rfl⟩ : ∃ f', f = f' + 3 := ⟨f - 3, by omega⟩
        rw [buildCalls_cons _ _ _ _ _ _ (build_chars f' .H rfl buf ft hc)
          (buildCalls_cons _ _ _ _ _ _ (ihn (f' + 1) (by omega) ha hen) (ihr none (f' + 1) (by omega) her trivial))]
        simp [curNodes, normList, normNode]

theorem build_V (H : ScaledRoundTrip) : ∀ (l : List Node) (f : Nat),
    2 * callsSize (lowerV l) < f → reprList .V l = true → buildCalls f .V (lowerV l) = some (normList l)
  | [], f, hf, he => by
    obtain ⟨f', rfl⟩ : ∃ f', f = f' + 1 := ⟨f - 1, by omega⟩
    simp [lowerV, buildCalls, normList]
  | n :: r, f, hf, he => by
    have ihn := build_node H n .V
    have ihr := build_V H r
    simp only [reprList, Bool.and_eq_true] at he
    obtain ⟨⟨ha, hen⟩, her⟩ := he
    simp only [lowerV, callsSize] at hf ⊢
    obtain ⟨f', rfl⟩ : ∃ f', f = f' + 1 := ⟨f - 1, by omega⟩
    rw [buildCalls_cons _ _ _ _ _ _ (ihn f' (by omega) ha hen) (ihr f' (by omega) her)]
    rfl

theorem build_D (H : ScaledRoundTrip) : ∀ (l : List Node) (f : Nat),
    2 * callsSize (lowerD l) < f → reprList .D l = true → buildCalls f .D (lowerD l) = some (normList l)
  | [], f, hf, he => by
    obtain ⟨f', rfl⟩ : ∃ f', f = f' + 1 := ⟨f - 1, by omega⟩
    simp [lowerD, buildCalls, normList]
  | n :: r, f, hf, he => by
    have ihn := build_node H n .D
    have ihr := build_D H r
    simp only [reprList, Bool.and_eq_true] at he
    obtain ⟨⟨ha, hen⟩, her⟩ := he
    simp only [lowerD, callsSize] at hf ⊢
    obtain ⟨f', rfl⟩ : ∃ f', f = f' + 1 := ⟨f - 1, by omega⟩
    rw [buildCalls_cons _ _ _ _ _ _ (ihn f' (by omega) ha hen) (ihr f' (by omega) her)]
    rfl
end

theorem build_lower (H : ScaledRoundTrip) (m : Mode) (l : List Node) (he : reprList m l = true) :
    build m (lower m l) = some (normList l) := by
  unfold build
  cases m with
  | H => simpa [lower, lowerH, curNodes] using build_goH H l none _ (by simp [lower, lowerH]) he trivial
  | V => exact build_V H l _ (by simp [lower]) he
  | D => exact build_D H l _ (by simp [lower]) he

/-- The per-element printer (`Display for ds::Horizontal`, as used by boxworks-testing). -/
theorem build_each (H : ScaledRoundTrip) : ∀ (l : List Node) (f : Nat),
    2 * callsSize (lowerEach l) < f → reprList .H l = true → buildCalls f .H (lowerEach l) = some (normList l)
  | [], f, hf, he => by
    obtain ⟨f', rfl⟩ : ∃ f', f = f' + 1 := ⟨f - 1, by omega⟩
    simp [lowerEach, buildCalls, normList]
  | n :: r, f, hf, he => by
    have ihr := build_each H r
    simp only [reprList, Bool.and_eq_true] at he
    obtain ⟨⟨ha, hen⟩, her⟩ := he
    simp only [lowerEach, callsSize] at hf ⊢
    obtain ⟨f', rfl⟩ : ∃ f', f = f' + 1 := ⟨f - 1, by omega⟩
    rw [buildCalls_cons _ _ _ _ _ _ (build_node H n .H f' (by omega) ha hen) (ihr f' (by omega) her)]
    rfl

/-! ### `exprList` is `reprList` on which `normList` is the identity -/

mutual
theorem repr_of_expr : ∀ (n : Node), exprNode n = true → reprNode n = true ∧ normNode n = n
  | .char c font, he => by
    simp only [exprNode] at he
    simp [reprNode, normNode, u32Ok_lt he]
  | .glue kind w st sto sh sho, he => by
    simp only [exprNode, Bool.and_eq_true, decide_eq_true_eq] at he
    simp [reprNode, normNode, he.1.1.1]
  | .kern kind w, he => by
    simp only [exprNode, Bool.and_eq_true, decide_eq_true_eq] at he
    simp [reprNode, normNode, he.1]
  | .penalty p, he => by simp [reprNode, normNode]
  | .rule h w d, he => by simp [reprNode, normNode]
  | .lig c o font l r, he => by
    simp only [exprNode] at he
    simp [reprNode, normNode, u32Ok_lt he]
  | .mark n, he => by
    simp only [exprNode, decide_eq_true_eq] at he
    simp [reprNode, normNode, he]
  | .math a, he => by simp [reprNode, normNode]
  | .disc pre post rc, he => by
    simp only [exprNode, Bool.and_eq_true] at he
    have h1 := repr_list_of_expr .D pre he.1.1
    have h2 := repr_list_of_expr .D post he.1.2
    simp [reprNode, normNode, h1.1, h1.2, h2.1, h2.2, u32Ok_lt he.2]
  | .hbox h w d s ratio o l, he => by
    simp only [exprNode, Bool.and_eq_true, decide_eq_true_eq] at he
    have h1 := repr_list_of_expr .H l he.2
    have : ratio ≤ 2147483647 := by
      have := he.1.2; unfold intOk at this; exact (of_decide_eq_true this).2
    simp [reprNode, normNode, h1.1, h1.2, he.1.1.2, this]
  | .vbox h w d s g l, he => by
    simp only [exprNode, Bool.and_eq_true, Bool.not_eq_true'] at he
    have h1 := repr_list_of_expr .V l he.2
    simp [reprNode, normNode, h1.1, h1.2, he.1.2]
  | .adjust l, he => by
    simp only [exprNode] at he
    have h1 := repr_list_of_expr .V l he
    simp [reprNode, normNode, h1.1, h1.2]
  | .ins box h md w st sto sh sho fp l, he => by
    simp only [exprNode, Bool.and_eq_true, decide_eq_true_eq] at he
    have h1 := repr_list_of_expr .V l he.2
    simp [reprNode, normNode, h1.1, h1.2, he.1.1.1.1.1.1.1, u32Ok_lt he.1.2]
theorem repr_list_of_expr : ∀ (m : Mode) (l : List Node), exprList m l = true →
    reprList m l = true ∧ normList l = l
  | m, [], _ => by simp [reprList, normList]
  | m, n :: r, he => by
    simp only [exprList, Bool.and_eq_true] at he
    have h1 := repr_of_expr n he.1.2
    have h2 := repr_list_of_expr m r he.2
    simp [reprList, normList, he.1.1, h1.1, h1.2, h2.1, h2.2]
end

end C18
