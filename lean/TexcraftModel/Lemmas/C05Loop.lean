import TexcraftModel.Model.C05

/-!
# C05 — fuel lemmas for the compiler's denotation

* `pairResult_mono`: more fuel never changes a result.
* `pairResult_bound`: a pair that resolves with any fuel resolves with `bound p`
  (pigeonhole on the chain of pairs whose minimal fuel decreases by one at each link).
-/
namespace C05

theorem pairResult_succ (p : Program) :
    ∀ n l r v, pairResult n p l r = some v → pairResult (n + 1) p l r = some v := by
  intro n
  induction n with
  | zero => intro l r v h; simp [pairResult] at h
  | succ n ih =>
    intro l r v h
    rw [pairResult] at h ⊢
    cases hr : rule p l r with
    | none => simpa [hr] using h
    | some op =>
      cases op with
      | kern k => simpa [hr] using h
      | lig z post =>
        simp only [hr] at h ⊢
        cases post with
        | bothNowhere =>
          simp only at h ⊢
          cases h1 : pairResult n p l z with
          | none => simp [h1] at h
          | some c1 =>
            rw [ih _ _ _ h1]
            simp only [h1] at h ⊢
            cases h2 : pairResult n p (some (applyChild (leftC l) ⟨z, true⟩ c1).2.c) r with
            | none => simp [h2] at h
            | some c2 =>
              rw [ih _ _ _ h2]
              simpa [h2] using h
        | bothInserted =>
          simp only at h ⊢
          cases h1 : pairResult n p (some z) r with
          | none => simp [h1] at h
          | some c1 => rw [ih _ _ _ h1]; simpa [h1] using h
        | rightInserted =>
          simp only at h ⊢
          cases h1 : pairResult n p (some z) r with
          | none => simp [h1] at h
          | some c1 => rw [ih _ _ _ h1]; simpa [h1] using h
        | leftNowhere =>
          simp only at h ⊢
          cases h1 : pairResult n p l z with
          | none => simp [h1] at h
          | some c1 => rw [ih _ _ _ h1]; simpa [h1] using h
        | bothRight => simpa using h
        | rightRight => simpa using h
        | leftInserted => simpa using h
        | neither => simpa using h

theorem pairResult_mono (p : Program) {n m : Nat} (hnm : n ≤ m) {l : Option Nat} {r : Nat}
    {v : Option Repl} (h : pairResult n p l r = some v) : pairResult m p l r = some v := by
  induction hnm with
  | refl => exact h
  | step _ ih => exact pairResult_succ p _ _ _ _ ih

/-! ## Ruled pairs are candidate pairs -/

theorem findInstr_mem (r : Nat) : ∀ (s : Nat) (is : List Instr) (i : Instr),
    findInstr r s is = some i → i ∈ is ∧ i.right = r := by
  intro s is
  induction is generalizing s with
  | nil => intro i h; simp [findInstr] at h
  | cons x t ih =>
    intro i h
    cases s with
    | zero =>
      simp only [findInstr] at h
      split at h
      · simp at h; subst h; simp [*]
      · cases hx : x.next with
        | none => simp [hx] at h
        | some inc =>
          simp only [hx] at h
          have := ih _ _ h
          exact ⟨List.mem_cons_of_mem _ this.1, this.2⟩
    | succ s =>
      simp only [findInstr] at h
      have := ih _ _ h
      exact ⟨List.mem_cons_of_mem _ this.1, this.2⟩

theorem rule_mem_cand (p : Program) (l : Option Nat) (r : Nat) (op : Op)
    (h : rule p l r = some op) : (l, r) ∈ candPairs p := by
  simp only [rule, rawRule] at h
  cases he : entryOf p l with
  | none => simp [he] at h
  | some e =>
    simp only [he] at h
    cases hf : findInstr r e p.instrs with
    | none => simp [hf] at h
    | some i =>
      obtain ⟨hi, hr⟩ := findInstr_mem r e p.instrs i hf
      simp only [candPairs, List.mem_flatMap, List.mem_map]
      refine ⟨l, ?_, i, hi, by simp [hr]⟩
      cases l with
      | none =>
        simp only [entryOf] at he
        simp [lefts, he]
      | some c =>
        simp only [entryOf] at he
        cases hfind : p.entries.find? (fun x => decide (x.1 = c)) with
        | none => simp [hfind] at he
        | some ent =>
          have hm := List.mem_of_find?_eq_some hfind
          have hc := List.find?_some hfind
          simp at hc
          simp only [lefts, List.mem_append, List.mem_map]
          exact Or.inr ⟨ent, hm, by simp [hc]⟩

/-! ## Pigeonhole -/

/-- The pair needs exactly `k + 1` units of fuel. -/
def Exact (p : Program) (k : Nat) (q : Option Nat × Nat) : Prop :=
  pairResult (k + 1) p q.1 q.2 ≠ none ∧ pairResult k p q.1 q.2 = none

theorem Exact.unique {p : Program} {k k' : Nat} {q : Option Nat × Nat}
    (h : Exact p k q) (h' : Exact p k' q) : k = k' := by
  rcases Nat.lt_trichotomy k k' with hlt | heq | hgt
  · exfalso
    cases hv : pairResult (k + 1) p q.1 q.2 with
    | none => exact h.1 hv
    | some v =>
      have := pairResult_mono p (Nat.succ_le_of_lt hlt) hv
      rw [h'.2] at this; cases this
  · exact heq
  · exfalso
    cases hv : pairResult (k' + 1) p q.1 q.2 with
    | none => exact h'.1 hv
    | some v =>
      have := pairResult_mono p (Nat.succ_le_of_lt hgt) hv
      rw [h.2] at this; cases this

/-- One link of the chain: a pair that needs `k + 2` units has a rule and a child that
needs exactly `k + 1`. -/
theorem Exact.child {p : Program} {k : Nat} {q : Option Nat × Nat} (h : Exact p (k + 1) q) :
    q ∈ candPairs p ∧ ∃ q', Exact p k q' := by
  obtain ⟨l, r⟩ := q
  obtain ⟨hs, hn⟩ := h
  simp only at hs hn
  rw [pairResult] at hs hn
  cases hr : rule p l r with
  | none => simp [hr] at hn
  | some op =>
    refine ⟨rule_mem_cand p l r op hr, ?_⟩
    cases op with
    | kern k => simp [hr] at hn
    | lig z post =>
      simp only [hr] at hs hn
      cases post with
      | bothNowhere =>
        simp only at hs hn
        cases h1 : pairResult (k + 1) p l z with
        | none => simp [h1] at hs
        | some c1 =>
          simp only [h1] at hs
          cases h1' : pairResult k p l z with
          | none => exact ⟨(l, z), by simp [h1], h1'⟩
          | some c1' =>
            have : c1' = c1 := by
              have := pairResult_succ p _ _ _ _ h1'
              rw [h1] at this; exact (Option.some.inj this).symm
            subst this
            simp only [h1'] at hn
            cases h2 : pairResult (k + 1) p (some (applyChild (leftC l) ⟨z, true⟩ c1').2.c) r with
            | none => simp [h2] at hs
            | some c2 =>
              cases h2' : pairResult k p (some (applyChild (leftC l) ⟨z, true⟩ c1').2.c) r with
              | none => exact ⟨(_, r), by simp [h2], h2'⟩
              | some c2' => simp [h2'] at hn
      | bothInserted =>
        simp only at hs hn
        cases h1 : pairResult (k + 1) p (some z) r with
        | none => simp [h1] at hs
        | some c1 =>
          cases h1' : pairResult k p (some z) r with
          | none => exact ⟨(some z, r), by simp [h1], h1'⟩
          | some c1' => simp [h1'] at hn
      | rightInserted =>
        simp only at hs hn
        cases h1 : pairResult (k + 1) p (some z) r with
        | none => simp [h1] at hs
        | some c1 =>
          cases h1' : pairResult k p (some z) r with
          | none => exact ⟨(some z, r), by simp [h1], h1'⟩
          | some c1' => simp [h1'] at hn
      | leftNowhere =>
        simp only at hs hn
        cases h1 : pairResult (k + 1) p l z with
        | none => simp [h1] at hs
        | some c1 =>
          cases h1' : pairResult k p l z with
          | none => exact ⟨(l, z), by simp [h1], h1'⟩
          | some c1' => simp [h1'] at hn
      | bothRight => simp at hn
      | rightRight => simp at hn
      | leftInserted => simp at hn
      | neither => simp at hn

theorem Exact.chain {p : Program} : ∀ (k : Nat) (q : Option Nat × Nat), Exact p k q →
    ∃ chain : List (Option Nat × Nat), chain.length = k ∧ chain.Nodup ∧
      ∀ x ∈ chain, x ∈ candPairs p ∧ ∃ j, 1 ≤ j ∧ j ≤ k ∧ Exact p j x := by
  intro k
  induction k with
  | zero => intro q _; exact ⟨[], rfl, List.nodup_nil, by simp⟩
  | succ k ih =>
    intro q h
    obtain ⟨hq, q', hq'⟩ := h.child
    obtain ⟨chain, hlen, hnd, hall⟩ := ih q' hq'
    refine ⟨q :: chain, by simp [hlen], ?_, ?_⟩
    · rw [List.nodup_cons]
      refine ⟨?_, hnd⟩
      intro hmem
      obtain ⟨_, j, _, hj, hex⟩ := hall q hmem
      have := Exact.unique h hex
      omega
    · intro x hx
      rcases List.mem_cons.mp hx with rfl | hx
      · exact ⟨hq, k + 1, by omega, Nat.le_refl _, h⟩
      · obtain ⟨hc, j, h1, hj, hex⟩ := hall x hx
        exact ⟨hc, j, h1, by omega, hex⟩

theorem Exact.le_bound {p : Program} {k : Nat} {q : Option Nat × Nat} (h : Exact p k q) :
    k + 1 ≤ bound p := by
  obtain ⟨chain, hlen, hnd, hall⟩ := Exact.chain k q h
  have := List.Nodup.length_le_of_subset hnd (fun x hx => (hall x hx).1)
  simp only [bound]
  omega

theorem exists_exact (p : Program) : ∀ n l r, pairResult n p l r ≠ none →
    ∃ k, k < n ∧ Exact p k (l, r) := by
  intro n
  induction n with
  | zero => intro l r h; simp [pairResult] at h
  | succ n ih =>
    intro l r h
    cases hn : pairResult n p l r with
    | none => exact ⟨n, Nat.lt_succ_self _, h, hn⟩
    | some v =>
      obtain ⟨k, hk, hex⟩ := ih l r (by simp [hn])
      exact ⟨k, Nat.lt_succ_of_lt hk, hex⟩

/-- If a pair resolves with any fuel, it resolves (to the same value) with `bound p`. -/
theorem pairResult_bound (p : Program) {n : Nat} {l : Option Nat} {r : Nat} {v : Option Repl}
    (h : pairResult n p l r = some v) : pairResult (bound p) p l r = some v := by
  obtain ⟨k, hk, hex⟩ := exists_exact p n l r (by simp [h])
  have hb := hex.le_bound
  cases hv : pairResult (k + 1) p l r with
  | none => exact absurd hv hex.1
  | some v' =>
    have h1 := pairResult_mono p (Nat.succ_le_of_lt hk) hv
    rw [h] at h1
    cases h1
    exact pairResult_mono p hb hv

end C05
