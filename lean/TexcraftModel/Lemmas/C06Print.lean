import TexcraftModel.Lemmas.C06
import TexcraftModel.Tables.C06All
/-!
C06 — printing and scanning back: `Scaled::new` for `pt`, the lift of the fraction tables to
all `|s| ≤ 2^30-1`, "is TeX's output", and Knuth's shortest-decimal guarantee.
-/
namespace C06


theorem scaledNew_pt (ip f : Int) (hip : 0 ≤ ip) (hf0 : 0 ≤ f) (hf : f ≤ 65536) :
    scaledNew ip f .pt = if ip + f / 65536 ≥ 16384 then .overflow else .ok (65536 * ip + f) := by
  have hM : maxDimen = 1073741823 := rfl
  have hx := xnOverD_nonneg ip 1 1 hip (by omega) (by omega) (by omega) (by omega)
  simp only [Int.mul_one, Int.ediv_one, Int.emod_one] at hx
  unfold scaledNew
  simp only [TUnit.frac, hx]
  rw [if_neg (by decide)]
  by_cases hbig : ip > maxDimen
  · rw [if_pos hbig, if_pos (by omega)]
  · rw [if_neg hbig]
    have h1 : fromInteger 0 = some 0 := by simp [fromInteger]
    have h2 : nxPlusY f 1 0 = .ok f := by
      unfold nxPlusY
      rw [if_neg (by omega)]
      simp only [Int.mul_one, Int.add_zero]
      rw [if_pos (by omega)]
    simp only [h1, h2, Int.tdiv_eq_ediv_of_nonneg hf0, Int.ediv_one, Int.tmod_eq_emod_of_nonneg hf0, unity]
    have h3 : chk32 (ip + f / 65536) = .ok (ip + f / 65536) := by
      unfold chk32; rw [if_pos (by simp [inI32]; omega)]
    simp only [h3]
    by_cases hov : ip + f / 65536 ≥ 16384
    · have : fromInteger (ip + f / 65536) = none := by
        unfold fromInteger; rw [if_pos (Or.inl hov)]
      simp only [this]; rw [if_pos hov]
    · have : fromInteger (ip + f / 65536) = some (65536 * (ip + f / 65536)) := by
        unfold fromInteger; rw [if_neg (by omega)]
      simp only [this]; rw [if_neg hov]
      unfold chk32; rw [if_pos (by simp [inI32]; omega)]
      congr 1; omega



theorem fracOK_unpack (fr : Nat) (h : fracOK fr = true) :
    ∃ ds, printFrac (fr : Int) = some ds ∧ ds.length ≤ 5 ∧ 1 ≤ ds.length ∧ (∀ d ∈ ds, d < 10) ∧
      fromDecimalDigits (pad17 ds) = (fr : Int) ∧ Spec.printLoop 17 (10 * fr + 5) 10 = ds := by
  unfold fracOK at h
  split at h
  · simp at h
  · rename_i ds hds
    simp only [Bool.and_eq_true, decide_eq_true_eq, List.all_eq_true] at h
    obtain ⟨⟨⟨⟨h1, h2⟩, h3⟩, h4⟩, h5⟩ := h
    exact ⟨ds, hds, h1, h2, h3, h4, h5⟩

/-- Magnitude `X`, either sign: what is printed for `±X` scans back to `±X`. -/
theorem rt_core (X : Int) (hX0 : 0 ≤ X) (hX : X ≤ maxDimen) (neg : Bool) :
    ∃ ds, printFrac ((X % 65536).natAbs : Int) = some ds ∧ ds.length ≤ 5 ∧ 1 ≤ ds.length ∧
      (∀ d ∈ ds, d < 10) ∧
      Spec.printLoop 17 (10 * (X % 65536).natAbs + 5) 10 = ds ∧
      scanNoUnits { neg := neg, ip := (X / 65536).natAbs, frac := ds } = .ok (if neg then -X else X) := by
  have hM : maxDimen = 1073741823 := rfl
  have hfr : (X % 65536).natAbs < 65536 := by omega
  obtain ⟨ds, h1, h2, h3, h4, h5, h6⟩ := fracOK_unpack _ (fracOK_all _ hfr)
  refine ⟨ds, h1, h2, h3, h4, h6, ?_⟩
  have e1 : (((X / 65536).natAbs : Nat) : Int) = X / 65536 := by omega
  have e2 : (((X % 65536).natAbs : Nat) : Int) = X % 65536 := by omega
  unfold scanNoUnits
  simp only [e1]
  rw [if_neg (by omega), if_neg (by omega), h5, e2,
    scaledNew_pt (X / 65536) (X % 65536) (by omega) (by omega) (by omega)]
  rw [if_neg (by omega)]
  have : 65536 * (X / 65536) + X % 65536 = X := by omega
  simp only [this]



theorem printScaled_nonneg (s : Int) (h : 0 ≤ s) :
    printScaled s = (printFrac ((s % 65536).natAbs : Int)).map fun ds =>
      { neg := false, ip := (s / 65536).natAbs, frac := ds } := by
  unfold printScaled
  rw [Int.tmod_eq_emod_of_nonneg h, Int.tdiv_eq_ediv_of_nonneg h]
  have : decide (s < 0) = false := by simp; omega
  rw [this]

theorem printScaled_neg (X : Int) (h : 0 < X) :
    printScaled (-X) = (printFrac ((X % 65536).natAbs : Int)).map fun ds =>
      { neg := true, ip := (X / 65536).natAbs, frac := ds } := by
  unfold printScaled
  rw [Int.neg_tmod, Int.neg_tdiv, Int.tmod_eq_emod_of_nonneg (by omega), Int.tdiv_eq_ediv_of_nonneg (by omega),
    Int.natAbs_neg, Int.natAbs_neg]
  have : decide (-X < 0) = true := by simp; omega
  rw [this]

/-- The centre piece: for every legal dimension, what `display_no_units` prints (i) exists (no
panic), (ii) is exactly what Knuth's `print_scaled` prints, (iii) has 1..5 fraction digits, all
decimal, and (iv) is read back by `parse_no_units` as the identical value. -/
theorem print_scan_core (s : Int) (h : -maxDimen ≤ s ∧ s ≤ maxDimen) :
    ∃ p, printScaled s = some p ∧ p = Spec.printScaled s ∧ 1 ≤ p.frac.length ∧ p.frac.length ≤ 5 ∧
      (∀ d ∈ p.frac, d < 10) ∧ scanNoUnits p = .ok s := by
  have hM : maxDimen = 1073741823 := rfl
  by_cases hs : 0 ≤ s
  · obtain ⟨ds, h1, h2, h3, h4, h5, h6⟩ := rt_core s hs h.2 false
    refine ⟨{ neg := false, ip := (s / 65536).natAbs, frac := ds }, ?_, ?_, h3, h2, h4, ?_⟩
    · rw [printScaled_nonneg s hs, h1]; rfl
    · unfold Spec.printScaled
      have e1 : decide (s < 0) = false := by simp; omega
      have e2 : s.natAbs / 65536 = (s / 65536).natAbs := by omega
      have e3 : s.natAbs % 65536 = (s % 65536).natAbs := by omega
      simp only [e1, e2, e3, h5]
    · simpa using h6
  · have hX : 0 < -s := by omega
    obtain ⟨ds, h1, h2, h3, h4, h5, h6⟩ := rt_core (-s) (by omega) (by omega) true
    refine ⟨{ neg := true, ip := (-s / 65536).natAbs, frac := ds }, ?_, ?_, h3, h2, h4, ?_⟩
    · have := printScaled_neg (-s) hX
      rw [Int.neg_neg] at this
      rw [this, h1]; rfl
    · unfold Spec.printScaled
      have e1 : decide (s < 0) = true := by simp; omega
      have e2 : s.natAbs / 65536 = (-s / 65536).natAbs := by omega
      have e3 : s.natAbs % 65536 = (-s % 65536).natAbs := by omega
      simp only [e1, e2, e3, h5]
    · simpa using h6



theorem rdAcc_bound (ds : List Nat) (h : ∀ d ∈ ds, d < 10) : 0 ≤ rdAcc ds ∧ rdAcc ds < 131072 := by
  induction ds with
  | nil => simp [rdAcc]
  | cons d ds ih =>
    have := ih (fun x hx => h x (by simp [hx]))
    have hd : d < 10 := h d (by simp)
    simp only [rdAcc]
    omega

theorem fromDecimalDigits_bound (ds : List Nat) (h : ∀ d ∈ ds, d < 10) :
    0 ≤ fromDecimalDigits ds ∧ fromDecimalDigits ds ≤ 65536 := by
  have := rdAcc_bound ds h
  unfold fromDecimalDigits
  omega

theorem pad17_digits (ds : List Nat) (h : ∀ d ∈ ds, d < 10) : ∀ d ∈ pad17 ds, d < 10 := by
  intro d hd
  simp only [pad17, List.mem_append, List.mem_replicate] at hd
  rcases hd with hd | ⟨_, rfl⟩
  · exact h d hd
  · omega

theorem printScaled_frac (s : Int) (p : Printed) (h : printScaled s = some p) :
    printFrac ((s.natAbs % 65536 : Nat) : Int) = some p.frac := by
  by_cases hs : 0 ≤ s
  · rw [printScaled_nonneg s hs] at h
    have e : s.natAbs % 65536 = (s % 65536).natAbs := by omega
    rw [e]
    cases hp : printFrac ((s % 65536).natAbs : Int) with
    | none => rw [hp] at h; simp at h
    | some ds => rw [hp] at h; simp at h; rw [← h]
  · have hX : 0 < -s := by omega
    have := printScaled_neg (-s) hX
    rw [Int.neg_neg] at this
    rw [this] at h
    have e : s.natAbs % 65536 = (-s % 65536).natAbs := by omega
    rw [e]
    cases hp : printFrac ((-s % 65536).natAbs : Int) with
    | none => rw [hp] at h; simp at h
    | some ds => rw [hp] at h; simp at h; rw [← h]

/-- Knuth's guarantee: no decimal with fewer fraction digits scans to the same value. -/
theorem print_shortest_core (s : Int) (h : -maxDimen ≤ s ∧ s ≤ maxDimen) (q : Printed)
    (hq : ∀ d ∈ q.frac, d < 10) (hs : scanNoUnits q = .ok s) :
    ∃ p, printScaled s = some p ∧ p.frac.length ≤ max 1 q.frac.length := by
  have hM : maxDimen = 1073741823 := rfl
  obtain ⟨p, hp, _, _, h5, _, _⟩ := print_scan_core s h
  refine ⟨p, hp, ?_⟩
  by_cases hlen : 5 ≤ q.frac.length
  · omega
  have hsh := shortOK_all q.frac hq (by omega)
  have hfb := fromDecimalDigits_bound (pad17 q.frac) (pad17_digits q.frac hq)
  have hpf := printScaled_frac s p hp
  -- what was scanned
  unfold scanNoUnits at hs
  by_cases c1 : (q.ip : Int) > 2147483647
  · rw [if_pos c1] at hs; simp at hs
  rw [if_neg c1] at hs
  by_cases c2 : q.frac.length > 17
  · rw [if_pos c2] at hs; simp at hs
  rw [if_neg c2, scaledNew_pt (q.ip : Int) _ (by omega) hfb.1 hfb.2] at hs
  generalize hf : fromDecimalDigits (pad17 q.frac) = f at *
  by_cases c3 : (q.ip : Int) + f / 65536 ≥ 16384
  · rw [if_pos c3] at hs; simp at hs
  rw [if_neg c3] at hs
  have hsv : s = if q.neg then -(65536 * (q.ip : Int) + f) else 65536 * (q.ip : Int) + f := by
    simp at hs; exact hs.symm
  unfold shortOK at hsh
  simp only [hf, Bool.or_eq_true, decide_eq_true_eq] at hsh
  by_cases h65 : f = 65536
  · -- the fraction rounded up to one: `s` is an integer multiple of 2^16, printed `.0`
    have : s.natAbs % 65536 = 0 := by
      cases hn : q.neg <;> simp [hn] at hsv <;> omega
    rw [this] at hpf
    have h0 : printFrac ((0 : Nat) : Int) = some [0] := by decide
    rw [h0] at hpf
    have : p.frac = [0] := by simpa using hpf.symm
    rw [this]; simp; omega
  · have hpr := hsh.resolve_left h65
    have hflt : f < 65536 := by omega
    have : ((s.natAbs % 65536 : Nat) : Int) = f := by
      cases hn : q.neg <;> simp [hn] at hsv <;> omega
    rw [this] at hpf
    rw [hpf] at hpr
    simpa using hpr


end C06
