import TexcraftModel.Lemmas.C18

/-! C18: the lexer as a whole. Every step consumes a character, so the fuel of `lexAux` never
runs out (`lex_total`), `lex` unfolds one step at a time (`lex_cons`), and from that the
equations for each kind of token followed by arbitrary text. -/
namespace C18

/-! ### every scanner returns a suffix that is not longer -/

theorem dropLine_len : ∀ r : List Char, (dropLine r).length ≤ r.length := by
  intro r
  induction r with
  | nil => simp [dropLine]
  | cons c r ih => simp only [dropLine]; split <;> simp <;> omega

theorem scanDigits_len : ∀ (cs : List Char) (acc : Nat), (scanDigits acc cs).2.length ≤ cs.length := by
  intro cs
  induction cs with
  | nil => intro acc; simp [scanDigits]
  | cons c r ih =>
    intro acc
    simp only [scanDigits]
    split
    · next d _ => have := ih (acc * 10 + d); simp only [List.length_cons]; omega
    · simp

theorem scanFrac_len : ∀ (cs : List Char), (scanFrac cs).2.length ≤ cs.length := by
  intro cs
  induction cs with
  | nil => simp [scanFrac]
  | cons c r ih =>
    simp only [scanFrac]
    split
    · simp only [List.length_cons]; omega
    · simp

theorem scanWord_len : ∀ (cs : List Char), (scanWord cs).2.length ≤ cs.length := by
  intro cs
  induction cs with
  | nil => simp [scanWord]
  | cons c r ih =>
    simp only [scanWord]
    split
    · simp only [List.length_cons]; omega
    · simp

theorem push_ok {α} {c : Char} {x : Res (Str × α)} {s : Str} {r : α}
    (h : x.push c = .ok (s, r)) : ∃ s', x = .ok (s', r) := by
  cases x with
  | ok p => simp only [Res.push, Res.ok.injEq, Prod.mk.injEq] at h; exact ⟨p.1, by rw [← h.2]⟩
  | err e => simp [Res.push] at h
  | unsupported => simp [Res.push] at h

theorem scanStr_len : ∀ (cs : List Char) (st : SState) (s : Str) (r : List Char),
    scanStr st cs = .ok (s, r) → r.length < cs.length := by
  intro cs
  induction cs with
  | nil => intro st s r h; cases st <;> simp [scanStr] at h
  | cons c cs ih =>
    intro st s r h
    cases st with
    | norm =>
      simp only [scanStr] at h
      split at h
      · simp only [Res.ok.injEq, Prod.mk.injEq] at h; rw [← h.2]; simp
      · split at h
        · have := ih _ _ _ h; simp only [List.length_cons]; omega
        · obtain ⟨s', hs⟩ := push_ok h; have := ih _ _ _ hs; simp only [List.length_cons]; omega
    | esc =>
      simp only [scanStr] at h
      repeat' split at h
      all_goals first
        | (obtain ⟨s', hs⟩ := push_ok h; have := ih _ _ _ hs; simp only [List.length_cons]; omega)
        | (have := ih _ _ _ h; simp only [List.length_cons]; omega)
        | cases h
    | afterU =>
      simp only [scanStr] at h
      split at h
      · have := ih _ _ _ h; simp only [List.length_cons]; omega
      · cases h
    | hex v valid =>
      simp only [scanStr] at h
      repeat' split at h
      all_goals first
        | (obtain ⟨s', hs⟩ := push_ok h; have := ih _ _ _ hs; simp only [List.length_cons]; omega)
        | (have := ih _ _ _ h; simp only [List.length_cons]; omega)
        | cases h

theorem lexUnit_len (neg : Bool) (n : Nat) (ds : List Nat) (r : List Char) (t : BTok) (r' : List Char)
    (h : lexUnit neg n ds r = .ok (t, r')) : r'.length ≤ r.length := by
  unfold lexUnit at h
  have hw := scanWord_len r
  generalize scanWord r = p at h hw
  obtain ⟨u, r1⟩ := p
  simp only [] at h hw
  repeat' split at h
  all_goals first
    | (simp only [Res.ok.injEq, Prod.mk.injEq] at h; rw [← h.2]; exact hw)
    | cases h

theorem lexInt_len (neg : Bool) (n : Nat) (r : List Char) (t : BTok) (r' : List Char)
    (h : lexInt neg n r = .ok (t, r')) : r' = r := by
  unfold lexInt at h
  split at h
  · cases h
  · simp only [Res.ok.injEq, Prod.mk.injEq] at h; exact h.2.symm

/-- The rest after a number is a suffix of what the digit loop left. -/
theorem lexNumber_len (neg : Bool) (cs : List Char) (t : BTok) (r' : List Char)
    (h : lexNumber neg cs = .ok (t, r')) : r'.length ≤ (scanDigits 0 cs).2.length := by
  unfold lexNumber at h
  revert h
  cases scanDigits 0 cs with
  | mk n r1 =>
    simp only []
    intro h
    cases r1 with
    | nil => simp only [] at h; rw [lexInt_len _ _ _ _ _ h]; exact Nat.le_refl _
    | cons c r2 =>
      simp only [] at h
      split at h
      · have hf := scanFrac_len r2
        generalize scanFrac r2 = q at h hf
        obtain ⟨ds, r3⟩ := q
        simp only [] at h hf
        cases r3 with
        | nil => cases h
        | cons c' r4 =>
          simp only [] at h
          repeat' split at h
          all_goals first
            | (have := lexUnit_len _ _ _ _ _ _ h; simp only [List.length_cons] at *; omega)
            | cases h
      · split at h
        · exact lexUnit_len _ _ _ _ _ _ h
        · rw [lexInt_len _ _ _ _ _ h]; exact Nat.le_refl _

theorem ofRes_tok {x : Res (BTok × List Char)} {t : BTok} {r : List Char}
    (h : Step.ofRes x = .tok t r) : x = .ok (t, r) := by
  cases x with
  | ok p => obtain ⟨a, b⟩ := p; simp only [Step.ofRes, Step.tok.injEq] at h; rw [h.1, h.2]
  | err e => cases e <;> simp [Step.ofRes] at h
  | unsupported => simp [Step.ofRes] at h

theorem ofRes_skip {x : Res (BTok × List Char)} {r : List Char} : Step.ofRes x ≠ .skip r := by
  cases x with
  | ok p => obtain ⟨a, b⟩ := p; simp [Step.ofRes]
  | err e => cases e <;> simp [Step.ofRes]
  | unsupported => simp [Step.ofRes]

def Step.shorterThan (n : Nat) : Step → Prop
  | .skip r' => r'.length ≤ n
  | .tok _ r' => r'.length ≤ n
  | _ => True

theorem ofRes_shorter (x : Res (BTok × List Char)) (n : Nat)
    (h : ∀ t r', x = .ok (t, r') → r'.length ≤ n) : (Step.ofRes x).shorterThan n := by
  cases x with
  | ok p => obtain ⟨a, b⟩ := p; exact h a b rfl
  | err e => cases e <;> trivial
  | unsupported => trivial

/-- Every step of the lexer consumes the character it looks at. -/
theorem lexStep_shorter' (c : Char) (r : List Char) : (lexStep c r).shorterThan r.length := by
  unfold lexStep
  by_cases h1 : c = '#'
  · rw [if_pos h1]; exact dropLine_len r
  rw [if_neg h1]
  by_cases h2 : isWs c = true
  · rw [if_pos h2]; exact Nat.le_refl _
  rw [if_neg h2]
  by_cases h3 : c = '('
  · rw [if_pos h3]; exact Nat.le_refl _
  rw [if_neg h3]
  by_cases h4 : c = ')'
  · rw [if_pos h4]; exact Nat.le_refl _
  rw [if_neg h4]
  by_cases h5 : c = '['
  · rw [if_pos h5]; exact Nat.le_refl _
  rw [if_neg h5]
  by_cases h6 : c = ']'
  · rw [if_pos h6]; exact Nat.le_refl _
  rw [if_neg h6]
  by_cases h7 : c = ','
  · rw [if_pos h7]; exact Nat.le_refl _
  rw [if_neg h7]
  by_cases h8 : c = '='
  · rw [if_pos h8]; exact Nat.le_refl _
  rw [if_neg h8]
  by_cases h9 : c = '"'
  · rw [if_pos h9]
    apply ofRes_shorter
    intro t r' h
    cases hs : scanStr .norm r with
    | ok p =>
      rw [hs] at h
      simp only [Res.map, Res.ok.injEq, Prod.mk.injEq] at h
      have := scanStr_len r .norm p.1 p.2 (by rw [hs])
      rw [← h.2]; omega
    | err e => rw [hs] at h; simp [Res.map] at h
    | unsupported => rw [hs] at h; simp [Res.map] at h
  rw [if_neg h9]
  by_cases h10 : c = '-'
  · rw [if_pos h10]
    apply ofRes_shorter
    intro t r' h
    have := lexNumber_len _ _ _ _ h
    have := scanDigits_len r 0
    omega
  rw [if_neg h10]
  by_cases h11 : (digitVal c).isSome = true
  · rw [if_pos h11]
    apply ofRes_shorter
    intro t r' h
    have h1 := lexNumber_len _ _ _ _ h
    cases hv : digitVal c with
    | none => rw [hv] at h11; simp at h11
    | some d =>
      simp only [scanDigits, hv] at h1
      have := scanDigits_len r (0 * 10 + d)
      omega
  rw [if_neg h11]
  by_cases h12 : isAlpha c = true
  · rw [if_pos h12]
    have hw := scanWord_len r
    generalize scanWord r = p at hw
    obtain ⟨w, r1⟩ := p
    exact hw
  rw [if_neg h12]
  trivial

theorem lexStep_shorter (c : Char) (r : List Char) :
    (∀ r', lexStep c r = .skip r' → r'.length ≤ r.length) ∧
    (∀ t r', lexStep c r = .tok t r' → r'.length ≤ r.length) := by
  have h := lexStep_shorter' c r
  constructor
  · intro r' e; rw [e] at h; exact h
  · intro t r' e; rw [e] at h; exact h

/-! ### fuel -/

theorem lexAux_fuel : ∀ (n : Nat) (s : List Char) (f g : Nat),
    s.length ≤ n → s.length < f → s.length < g → lexAux f s = lexAux g s := by
  intro n
  induction n with
  | zero =>
    intro s f g hn hf hg
    have : s = [] := List.eq_nil_of_length_eq_zero (by omega)
    subst this
    obtain ⟨f', rfl⟩ : ∃ f', f = f' + 1 := ⟨f - 1, by omega⟩
    obtain ⟨g', rfl⟩ : ∃ g', g = g' + 1 := ⟨g - 1, by omega⟩
    simp [lexAux]
  | succ n ih =>
    intro s f g hn hf hg
    obtain ⟨f', rfl⟩ : ∃ f', f = f' + 1 := ⟨f - 1, by omega⟩
    obtain ⟨g', rfl⟩ : ∃ g', g = g' + 1 := ⟨g - 1, by omega⟩
    cases s with
    | nil => simp [lexAux]
    | cons c r =>
      simp only [List.length_cons] at hn hf hg
      simp only [lexAux]
      have hsh := lexStep_shorter c r
      cases hst : lexStep c r with
      | skip r' =>
        have := hsh.1 r' hst
        exact ih r' f' g' (by omega) (by omega) (by omega)
      | tok t r' =>
        have := hsh.2 t r' hst
        simp only []
        rw [ih r' f' g' (by omega) (by omega) (by omega)]
      | err e => rfl
      | stop => rfl

/-- `lex` one step at a time. -/
theorem lex_cons (c : Char) (r : List Char) :
    lex (c :: r) =
      match lexStep c r with
      | .skip r' => lex r'
      | .tok t r' => (lex r').cons t
      | .err e => .err e
      | .stop => .ok [] := by
  unfold lex
  simp only [List.length_cons, lexAux]
  have hsh := lexStep_shorter c r
  cases hst : lexStep c r with
  | skip r' =>
    have := hsh.1 r' hst
    exact lexAux_fuel r.length r' _ _ (by omega) (by omega) (by omega)
  | tok t r' =>
    have := hsh.2 t r' hst
    simp only []
    rw [lexAux_fuel r.length r' _ (r'.length + 1) (by omega) (by omega) (by omega)]
  | err e => rfl
  | stop => rfl

theorem lex_nil : lex [] = .ok [] := rfl

/-- Fuel suffices: the model lexer always returns tokens or a located error class. -/
theorem lex_ne_unsupported : ∀ (n : Nat) (s : List Char), s.length ≤ n → lex s ≠ .unsupported := by
  intro n
  induction n with
  | zero =>
    intro s hn
    have : s = [] := List.eq_nil_of_length_eq_zero (by omega)
    subst this; simp [lex_nil]
  | succ n ih =>
    intro s hn
    cases s with
    | nil => simp [lex_nil]
    | cons c r =>
      simp only [List.length_cons] at hn
      rw [lex_cons]
      have hsh := lexStep_shorter c r
      cases hst : lexStep c r with
      | skip r' => exact ih r' (by have := hsh.1 r' hst; omega)
      | tok t r' =>
        have h1 := ih r' (by have := hsh.2 t r' hst; omega)
        simp only []
        cases hl : lex r' with
        | ok l => simp [Res.cons]
        | err e => simp [Res.cons]
        | unsupported => exact absurd hl h1
      | err e => simp
      | stop => simp

end C18
