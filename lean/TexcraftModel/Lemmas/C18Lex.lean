import TexcraftModel.Lemmas.C18

/-! C18: the lexer as a whole. Every step consumes a character, so the fuel of `lexAux` never
runs out (`lex_total`), `lex` unfolds one step at a time (`lex_cons`), and from that the
equations for each kind of token followed by arbitrary text. -/
namespace C18

/-! ### every scanner returns a suffix that is not longer -/

theorem dropLine_len : ∀ r : List Char, (dropLine r).length ≤ r.length := by
  intro r
  induction r with
  | nil => simp [dropLine]
  | cons c r ih => simp only [dropLine]; split <;> simp <;> omega

theorem scanDigits_len : ∀ (cs : List Char) (acc : Nat), (scanDigits acc cs).2.length ≤ cs.length := by
  intro cs
  induction cs with
  | nil => intro acc; simp [scanDigits]
  | cons c r ih =>
    intro acc
    simp only [scanDigits]
    split
    · next d _ => have := ih (acc * 10 + d); simp only [List.length_cons]; omega
    · simp

theorem scanFrac_len : ∀ (cs : List Char), (scanFrac cs).2.length ≤ cs.length := by
  intro cs
  induction cs with
  | nil => simp [scanFrac]
  | cons c r ih =>
    simp only [scanFrac]
    split
    · simp only [List.length_cons]; omega
    · simp

theorem scanWord_len : ∀ (cs : List Char), (scanWord cs).2.length ≤ cs.length := by
  intro cs
  induction cs with
  | nil => simp [scanWord]
  | cons c r ih =>
    simp only [scanWord]
    split
    · simp only [List.length_cons]; omega
    · simp

theorem push_ok {α} {c : Char} {x : Res (Str × α)} {s : Str} {r : α}
    (h : x.push c = .ok (s, r)) : ∃ s', x = .ok (s', r) := by
  cases x with
  | ok p => simp only [Res.push, Res.ok.injEq, Prod.mk.injEq] at h; exact ⟨p.1, by rw [← h.2]⟩
  | err e => simp [Res.push] at h
  | unsupported => simp [Res.push] at h

theorem scanStr_len : ∀ (cs : List Char) (st : SState) (s : Str) (r : List Char),
    scanStr st cs = .ok (s, r) → r.length < cs.length := by
  intro cs
  induction cs with
  | nil => intro st s r h; cases st <;> simp [scanStr] at h
  | cons c cs ih =>
    intro st s r h
    cases st with
    | norm =>
      simp only [scanStr] at h
      split at h
      · simp only [Res.ok.injEq, Prod.mk.injEq] at h; rw [← h.2]; simp
      · split at h
        · have := ih _ _ _ h; simp only [List.length_cons]; omega
        · obtain ⟨s', hs⟩ := push_ok h; have := ih _ _ _ hs; simp only [List.length_cons]; omega
    | esc =>
      simp only [scanStr] at h
      repeat' split at h
      all_goals first
        | (obtain ⟨s', hs⟩ := push_ok h; have := ih _ _ _ hs; simp only [List.length_cons]; omega)
        | (have := ih _ _ _ h; simp only [List.length_cons]; omega)
        | cases h
    | afterU =>
      simp only [scanStr] at h
      split at h
      · have := ih _ _ _ h; simp only [List.length_cons]; omega
      · cases h
    | hex v valid =>
      simp only [scanStr] at h
      repeat' split at h
      all_goals first
        | (obtain ⟨s', hs⟩ := push_ok h; have := ih _ _ _ hs; simp only [List.length_cons]; omega)
        | (have := ih _ _ _ h; simp only [List.length_cons]; omega)
        | cases h

theorem lexUnit_len (st : List Char) (neg : Bool) (n : Nat) (ds : List Nat) (r : List Char) (t : BTok) (r' : List Char)
    (h : lexUnit st neg n ds r = .ok (t, r')) : r'.length ≤ r.length := by
  unfold lexUnit at h
  have hw := scanWord_len r
  generalize scanWord r = p at h hw
  obtain ⟨u, r1⟩ := p
  simp only [] at h hw
  repeat' split at h
  all_goals first
    | (simp only [Res.ok.injEq, Prod.mk.injEq] at h; rw [← h.2]; exact hw)
    | cases h

theorem lexInt_len (st : List Char) (neg : Bool) (n : Nat) (r : List Char) (t : BTok) (r' : List Char)
    (h : lexInt st neg n r = .ok (t, r')) : r' = r := by
  unfold lexInt at h
  split at h
  · cases h
  · simp only [Res.ok.injEq, Prod.mk.injEq] at h; exact h.2.symm

/-- The rest after a number is a suffix of what the digit loop left. -/
theorem lexNumber_len (st : List Char) (neg : Bool) (cs : List Char) (t : BTok) (r' : List Char)
    (h : lexNumber st neg cs = .ok (t, r')) : r'.length ≤ (scanDigits 0 cs).2.length := by
  unfold lexNumber at h
  revert h
  cases scanDigits 0 cs with
  | mk n r1 =>
    simp only []
    intro h
    cases r1 with
    | nil => simp only [] at h; rw [lexInt_len _ _ _ _ _ _ h]; exact Nat.le_refl _
    | cons c r2 =>
      simp only [] at h
      split at h
      · have hf := scanFrac_len r2
        generalize scanFrac r2 = q at h hf
        obtain ⟨ds, r3⟩ := q
        simp only [] at h hf
        cases r3 with
        | nil => cases h
        | cons c' r4 =>
          simp only [] at h
          repeat' split at h
          all_goals first
            | (have := lexUnit_len _ _ _ _ _ _ _ h; simp only [List.length_cons] at *; omega)
            | cases h
      · split at h
        · exact lexUnit_len _ _ _ _ _ _ _ h
        · rw [lexInt_len _ _ _ _ _ _ h]; exact Nat.le_refl _

theorem ofRes_tok {x : Res (BTok × List Char)} {t : BTok} {r : List Char}
    (h : Step.ofRes x = .tok t r) : x = .ok (t, r) := by
  cases x with
  | ok p => obtain ⟨a, b⟩ := p; simp only [Step.ofRes, Step.tok.injEq] at h; rw [h.1, h.2]
  | err e => cases e <;> simp [Step.ofRes] at h
  | unsupported => simp [Step.ofRes] at h

theorem ofRes_skip {x : Res (BTok × List Char)} {r : List Char} : Step.ofRes x ≠ .skip r := by
  cases x with
  | ok p => obtain ⟨a, b⟩ := p; simp [Step.ofRes]
  | err e => cases e <;> simp [Step.ofRes]
  | unsupported => simp [Step.ofRes]

def Step.shorterThan (n : Nat) : Step → Prop
  | .skip r' => r'.length ≤ n
  | .tok _ r' => r'.length ≤ n
  | _ => True

theorem ofRes_shorter (x : Res (BTok × List Char)) (n : Nat)
    (h : ∀ t r', x = .ok (t, r') → r'.length ≤ n) : (Step.ofRes x).shorterThan n := by
  cases x with
  | ok p => obtain ⟨a, b⟩ := p; exact h a b rfl
  | err e => cases e <;> trivial
  | unsupported => trivial

/-- Every step of the lexer consumes the character it looks at. -/
theorem lexStep_shorter' (c : Char) (r : List Char) : (lexStep c r).shorterThan r.length := by
  unfold lexStep
  by_cases h1 : c = '#'
  · rw [if_pos h1]; exact dropLine_len r
  rw [if_neg h1]
  by_cases h2 : isWs c = true
  · rw [if_pos h2]; exact Nat.le_refl _
  rw [if_neg h2]
  by_cases h3 : c = '('
  · rw [if_pos h3]; exact Nat.le_refl _
  rw [if_neg h3]
  by_cases h4 : c = ')'
  · rw [if_pos h4]; exact Nat.le_refl _
  rw [if_neg h4]
  by_cases h5 : c = '['
  · rw [if_pos h5]; exact Nat.le_refl _
  rw [if_neg h5]
  by_cases h6 : c = ']'
  · rw [if_pos h6]; exact Nat.le_refl _
  rw [if_neg h6]
  by_cases h7 : c = ','
  · rw [if_pos h7]; exact Nat.le_refl _
  rw [if_neg h7]
  by_cases h8 : c = '='
  · rw [if_pos h8]; exact Nat.le_refl _
  rw [if_neg h8]
  by_cases h9 : c = '"'
  · rw [if_pos h9]
    apply ofRes_shorter
    intro t r' h
    cases hs : scanStr .norm r with
    | ok p =>
      rw [hs] at h
      simp only [Res.map, Res.ok.injEq, Prod.mk.injEq] at h
      have := scanStr_len r .norm p.1 p.2 (by rw [hs])
      rw [← h.2]; omega
    | err e => rw [hs] at h; simp [Res.map] at h
    | unsupported => rw [hs] at h; simp [Res.map] at h
  rw [if_neg h9]
  by_cases h10 : c = '-'
  · rw [if_pos h10]
    apply ofRes_shorter
    intro t r' h
    have := lexNumber_len _ _ _ _ _ h
    have := scanDigits_len r 0
    omega
  rw [if_neg h10]
  by_cases h11 : (digitVal c).isSome = true
  · rw [if_pos h11]
    apply ofRes_shorter
    intro t r' h
    have h1 := lexNumber_len _ _ _ _ _ h
    cases hv : digitVal c with
    | none => rw [hv] at h11; simp at h11
    | some d =>
      simp only [scanDigits, hv] at h1
      have := scanDigits_len r (0 * 10 + d)
      omega
  rw [if_neg h11]
  by_cases h12 : isAlpha c = true
  · rw [if_pos h12]
    have hw := scanWord_len r
    generalize scanWord r = p at hw
    obtain ⟨w, r1⟩ := p
    exact hw
  rw [if_neg h12]
  trivial

theorem lexStep_shorter (c : Char) (r : List Char) :
    (∀ r', lexStep c r = .skip r' → r'.length ≤ r.length) ∧
    (∀ t r', lexStep c r = .tok t r' → r'.length ≤ r.length) := by
  have h := lexStep_shorter' c r
  constructor
  · intro r' e; rw [e] at h; exact h
  · intro t r' e; rw [e] at h; exact h

/-! ### fuel -/

theorem lexAux_fuel : ∀ (n : Nat) (s : List Char) (f g : Nat),
    s.length ≤ n → s.length < f → s.length < g → lexAux f s = lexAux g s := by
  intro n
  induction n with
  | zero =>
    intro s f g hn hf hg
    have : s = [] := List.eq_nil_of_length_eq_zero (by omega)
    subst this
    obtain ⟨f', rfl⟩ : ∃ f', f = f' + 1 := ⟨f - 1, by omega⟩
    obtain ⟨g', rfl⟩ : ∃ g', g = g' + 1 := ⟨g - 1, by omega⟩
    simp [lexAux]
  | succ n ih =>
    intro s f g hn hf hg
    obtain ⟨f', rfl⟩ : ∃ f', f = f' + 1 := ⟨f - 1, by omega⟩
    obtain ⟨g', rfl⟩ : ∃ g', g = g' + 1 := ⟨g - 1, by omega⟩
    cases s with
    | nil => simp [lexAux]
    | cons c r =>
      simp only [List.length_cons] at hn hf hg
      simp only [lexAux]
      have hsh := lexStep_shorter c r
      cases hst : lexStep c r with
      | skip r' =>
        have := hsh.1 r' hst
        exact ih r' f' g' (by omega) (by omega) (by omega)
      | tok t r' =>
        have := hsh.2 t r' hst
        simp only []
        rw [ih r' f' g' (by omega) (by omega) (by omega)]
      | err e => rfl
      | stop => rfl

/-- `lex` one step at a time. -/
theorem lex_cons (c : Char) (r : List Char) :
    lex (c :: r) =
      match lexStep c r with
      | .skip r' => lex r'
      | .tok t r' => (lex r').cons t
      | .err e => .err e
      | .stop => .ok [] := by
  unfold lex
  simp only [List.length_cons, lexAux]
  have hsh := lexStep_shorter c r
  cases hst : lexStep c r with
  | skip r' =>
    have := hsh.1 r' hst
    exact lexAux_fuel r.length r' _ _ (by omega) (by omega) (by omega)
  | tok t r' =>
    have := hsh.2 t r' hst
    simp only []
    rw [lexAux_fuel r.length r' _ (r'.length + 1) (by omega) (by omega) (by omega)]
  | err e => rfl
  | stop => rfl

theorem lex_nil : lex [] = .ok [] := rfl

/-- Fuel suffices: the model lexer always returns tokens or a located error class. -/
theorem lex_ne_unsupported : ∀ (n : Nat) (s : List Char), s.length ≤ n → lex s ≠ .unsupported := by
  intro n
  induction n with
  | zero =>
    intro s hn
    have : s = [] := List.eq_nil_of_length_eq_zero (by omega)
    subst this; simp [lex_nil]
  | succ n ih =>
    intro s hn
    cases s with
    | nil => simp [lex_nil]
    | cons c r =>
      simp only [List.length_cons] at hn
      rw [lex_cons]
      have hsh := lexStep_shorter c r
      cases hst : lexStep c r with
      | skip r' => exact ih r' (by have := hsh.1 r' hst; omega)
      | tok t r' =>
        have h1 := ih r' (by have := hsh.2 t r' hst; omega)
        simp only []
        cases hl : lex r' with
        | ok l => simp [Res.cons]
        | err e => simp [Res.cons]
        | unsupported => exact absurd hl h1
      | err e => simp
      | stop => simp

/-! ### one step at each kind of character -/

theorem ne_of_isAlpha {c d : Char} (hc : isAlpha c = true) (hd : isAlpha d = false) : c ≠ d := by
  intro h; rw [h] at hc; rw [hc] at hd; cases hd

theorem isAlpha_range {c : Char} (h : isAlpha c = true) :
    (97 ≤ c.toNat ∧ c.toNat ≤ 122) ∨ (65 ≤ c.toNat ∧ c.toNat ≤ 90) := by
  unfold isAlpha at h
  have e1 : 'a'.toNat = 97 := rfl
  have e2 : 'z'.toNat = 122 := rfl
  have e3 : 'A'.toNat = 65 := rfl
  have e4 : 'Z'.toNat = 90 := rfl
  simp only [Bool.or_eq_true, Bool.and_eq_true, decide_eq_true_eq, e1, e2, e3, e4] at h
  exact h

theorem isWs_of_isAlpha {c : Char} (h : isAlpha c = true) : isWs c = false := by
  have := isAlpha_range h
  unfold isWs
  simp only [Bool.or_eq_false_iff, Bool.and_eq_false_iff, decide_eq_false_iff_not]
  omega

theorem digitVal_of_isAlpha {c : Char} (h : isAlpha c = true) : digitVal c = none := by
  unfold digitVal
  simp [ne_of_isAlpha h (show isAlpha '0' = false by decide),
    ne_of_isAlpha h (show isAlpha '1' = false by decide),
    ne_of_isAlpha h (show isAlpha '2' = false by decide),
    ne_of_isAlpha h (show isAlpha '3' = false by decide),
    ne_of_isAlpha h (show isAlpha '4' = false by decide),
    ne_of_isAlpha h (show isAlpha '5' = false by decide),
    ne_of_isAlpha h (show isAlpha '6' = false by decide),
    ne_of_isAlpha h (show isAlpha '7' = false by decide),
    ne_of_isAlpha h (show isAlpha '8' = false by decide),
    ne_of_isAlpha h (show isAlpha '9' = false by decide)]

theorem lexStep_alpha {c : Char} (h : isAlpha c = true) (r : List Char) :
    lexStep c r = .tok (.kw (c :: (scanWord r).1)) (scanWord r).2 := by
  unfold lexStep
  rw [if_neg (ne_of_isAlpha h (by decide)), if_neg (by rw [isWs_of_isAlpha h]; simp),
    if_neg (ne_of_isAlpha h (by decide)), if_neg (ne_of_isAlpha h (by decide)),
    if_neg (ne_of_isAlpha h (by decide)), if_neg (ne_of_isAlpha h (by decide)),
    if_neg (ne_of_isAlpha h (by decide)), if_neg (ne_of_isAlpha h (by decide)),
    if_neg (ne_of_isAlpha h (by decide)), if_neg (ne_of_isAlpha h (by decide)),
    if_neg (by rw [digitVal_of_isAlpha h]; simp), if_pos h]

theorem digitChar_ne' (d : Nat) (c : Char) (hc : digitVal c = none) : digitChar d ≠ c := by
  intro h
  have : digitVal (digitChar d) ≠ none := by
    unfold digitChar; split <;> decide
  rw [h] at this; exact this hc

theorem digitChar_isSome (d : Nat) : (digitVal (digitChar d)).isSome = true := by
  unfold digitChar; split <;> decide

theorem isWs_digitChar (d : Nat) : isWs (digitChar d) = false := by
  unfold digitChar; split <;> decide

theorem lexStep_digit (d : Nat) (r : List Char) :
    lexStep (digitChar d) r = Step.ofRes (lexNumber (digitChar d :: r) false (digitChar d :: r)) := by
  unfold lexStep
  rw [if_neg (digitChar_ne' d _ (by decide)), if_neg (by rw [isWs_digitChar]; simp),
    if_neg (digitChar_ne' d _ (by decide)), if_neg (digitChar_ne' d _ (by decide)),
    if_neg (digitChar_ne' d _ (by decide)), if_neg (digitChar_ne' d _ (by decide)),
    if_neg (digitChar_ne' d _ (by decide)), if_neg (digitChar_ne' d _ (by decide)),
    if_neg (digitChar_ne' d _ (by decide)), if_neg (digitChar_ne' d _ (by decide)),
    if_pos (digitChar_isSome d)]

/-! ### `lex` on each kind of token followed by arbitrary text -/

theorem lex_space (s : List Char) : lex (' ' :: s) = lex s := by
  rw [lex_cons]; rfl
theorem lex_newline (s : List Char) : lex ('\n' :: s) = lex s := by
  rw [lex_cons]; rfl
theorem lex_indent : ∀ (d : Nat) (s : List Char), lex (List.replicate d ' ' ++ s) = lex s := by
  intro d
  induction d with
  | zero => intro s; rfl
  | succ d ih => intro s; simp only [List.replicate_succ, List.cons_append]; rw [lex_space, ih]

theorem lex_lparen (s : List Char) : lex ('(' :: s) = (lex s).cons .lparen := by rw [lex_cons]; rfl
theorem lex_rparen (s : List Char) : lex (')' :: s) = (lex s).cons .rparen := by rw [lex_cons]; rfl
theorem lex_lbrack (s : List Char) : lex ('[' :: s) = (lex s).cons .lbrack := by rw [lex_cons]; rfl
theorem lex_rbrack (s : List Char) : lex (']' :: s) = (lex s).cons .rbrack := by rw [lex_cons]; rfl
theorem lex_comma (s : List Char) : lex (',' :: s) = (lex s).cons .comma := by rw [lex_cons]; rfl
theorem lex_eq (s : List Char) : lex ('=' :: s) = (lex s).cons .eq := by rw [lex_cons]; rfl

theorem scanWord_tail : ∀ (t rest : List Char),
    t.all (fun x => isAlpha x || decide (x = '_')) = true → WordEnd rest → scanWord (t ++ rest) = (t, rest) := by
  intro t
  induction t with
  | nil => intro rest _ h; simpa using scanWord_end rest h
  | cons c t ih =>
    intro rest ht h
    simp only [List.all_cons, Bool.and_eq_true] at ht
    have hc : (isAlpha c || decide (c = '_')) = true := ht.1
    simp only [List.cons_append, scanWord]
    have : (isAlpha c = true ∨ c = '_') := by simpa using hc
    have hc' : (isAlpha c || c = '_') = true := by simpa using this
    rw [if_pos (by simpa using this), ih rest ht.2 h]

theorem lex_kw (w s : List Char) (hw : isWord w = true) (hs : WordEnd s) :
    lex (w ++ s) = (lex s).cons (.kw w) := by
  cases w with
  | nil => simp [isWord] at hw
  | cons c t =>
    simp only [isWord, Bool.and_eq_true] at hw
    simp only [List.cons_append]
    rw [lex_cons, lexStep_alpha hw.1, scanWord_tail t s hw.2 hs]

theorem lex_str (raw : Char → Bool) (str : Str) (s : List Char) :
    lex (printStr raw str ++ s) = (lex s).cons (.str str) := by
  unfold printStr
  simp only [List.cons_append, List.append_assoc]
  rw [lex_cons]
  have : lexStep '"' (escapeStr raw str ++ ('"' :: ([] ++ s))) = .tok (.str str) s := by
    unfold lexStep
    rw [if_neg (by decide), if_neg (by decide), if_neg (by decide), if_neg (by decide),
      if_neg (by decide), if_neg (by decide), if_neg (by decide), if_neg (by decide),
      if_pos rfl]
    simp only [List.nil_append]
    rw [scanStr_escapeStr]
    rfl
  simp only [List.nil_append] at this ⊢
  rw [this]

theorem natChars_cons (n : Nat) : ∃ d t, natChars n = digitChar d :: t := by
  unfold natChars
  have hne := natDigits_ne_nil n
  cases hd : natDigits n with
  | nil => exact absurd hd hne
  | cons d ds => exact ⟨d, ds.map digitChar, rfl⟩

theorem lexStep_minus (r : List Char) : lexStep '-' r = Step.ofRes (lexNumber ('-' :: r) true r) := by
  unfold lexStep
  rw [if_neg (by decide), if_neg (by decide), if_neg (by decide), if_neg (by decide),
    if_neg (by decide), if_neg (by decide), if_neg (by decide), if_neg (by decide),
    if_neg (by decide), if_pos rfl]

/-- A non-negative number text (starting with a digit): the step is `lexNumber false`. -/
theorem lex_number_nonneg (n : Nat) (tail : List Char) (t : BTok) (rest : List Char)
    (h : ∀ st, lexNumber st false (natChars n ++ tail) = .ok (t, rest)) :
    lex (natChars n ++ tail) = (lex rest).cons t := by
  obtain ⟨d, ds, hd⟩ := natChars_cons n
  rw [hd] at h ⊢
  simp only [List.cons_append] at h ⊢
  rw [lex_cons, lexStep_digit, h]
  rfl

theorem lex_number_neg (txt : List Char) (t : BTok) (rest : List Char)
    (h : ∀ st, lexNumber st true txt = .ok (t, rest)) :
    lex ('-' :: txt) = (lex rest).cons t := by
  rw [lex_cons, lexStep_minus, h]
  rfl

theorem lex_int (n : Int) (s : List Char) (hn : -2147483647 ≤ n ∧ n ≤ 2147483647) (hs : Terminated s) :
    lex (printInt n ++ s) = (lex s).cons (.int n) := by
  unfold printInt
  by_cases hneg : n < 0
  · simp only [hneg, if_true, List.cons_append]
    have h := fun st => lexNumber_int st true n.natAbs s (by omega) hs
    rw [lex_number_neg _ _ _ h]
    congr 2
    simp; omega
  · simp only [hneg, if_false]
    have h := fun st => lexNumber_int st false n.natAbs s (by omega) hs
    rw [lex_number_nonneg _ _ _ _ h]
    congr 2
    simp; omega

theorem printNoUnits_nonneg (a : Nat) :
    printNoUnits (a : Int) = natChars (a / 65536) ++ '.' :: (fracDigits (a % 65536)).map digitChar := by
  unfold printNoUnits
  have hnn : ¬ ((a : Int) < 0) := by omega
  simp [hnn]

theorem printNoUnits_neg (s : Int) (h : s < 0) :
    printNoUnits s = '-' :: printNoUnits (s.natAbs : Int) := by
  unfold printNoUnits
  have hnn : ¬ ((s.natAbs : Int) < 0) := by omega
  simp [h, hnn]

theorem lex_dim (H : ScaledRoundTrip) (s : Int) (rest : List Char)
    (hs : -1073741823 ≤ s ∧ s ≤ 1073741823) (hr : WordEnd rest) :
    lex (printScaled s ++ rest) = (lex rest).cons (.dim s) := by
  unfold printScaled
  by_cases hneg : s < 0
  · rw [printNoUnits_neg s hneg]
    simp only [List.cons_append, List.append_assoc]
    have h1 : ∀ st, lexNumber st true (printNoUnits (s.natAbs : Int) ++ (['p', 't'] ++ rest)) =
        .ok (.dim ((if true = true then -1 else 1) * (s.natAbs : Int)), rest) := fun st => by
      rw [lexNumber_scaled H st true s.natAbs ['p', 't'] rest (by decide) (by simp)]
      exact lexUnit_pt H st true s.natAbs (by omega) rest hr
    simp only [List.cons_append, List.nil_append] at h1 ⊢
    rw [lex_number_neg _ _ _ h1]
    congr 2
    simp; omega
  · have e : s = (s.natAbs : Int) := by omega
    rw [e, printNoUnits_nonneg]
    have h1 : ∀ st, lexNumber st false (printNoUnits (s.natAbs : Int) ++ (['p', 't'] ++ rest)) =
        .ok (.dim ((if false = true then -1 else 1) * (s.natAbs : Int)), rest) := fun st => by
      rw [lexNumber_scaled H st false s.natAbs ['p', 't'] rest (by decide) (by simp)]
      exact lexUnit_pt H st false s.natAbs (by omega) rest hr
    rw [printNoUnits_nonneg] at h1
    simp only [List.append_assoc, List.cons_append, List.nil_append] at h1 ⊢
    rw [lex_number_nonneg _ _ _ _ h1]
    congr 2
    simp

theorem lex_inf (H : ScaledRoundTrip) (s : Int) (o : InfOrder) (rest : List Char)
    (hs : -2147483647 ≤ s ∧ s ≤ 2147483647) (hr : WordEnd rest) :
    lex (printNoUnits s ++ (o.unit ++ rest)) = (lex rest).cons (.inf s o) := by
  have hu : ∀ c ∈ o.unit, isAlpha c = true := by cases o <;> decide
  have hne : o.unit ≠ [] := by cases o <;> simp [InfOrder.unit]
  by_cases hneg : s < 0
  · rw [printNoUnits_neg s hneg]
    simp only [List.cons_append]
    have h1 : ∀ st, lexNumber st true (printNoUnits (s.natAbs : Int) ++ (o.unit ++ rest)) =
        .ok (.inf ((if true = true then -1 else 1) * (s.natAbs : Int)) o, rest) := fun st => by
      rw [lexNumber_scaled H st true s.natAbs o.unit rest hu hne]
      exact lexUnit_inf H st true s.natAbs (by omega) o rest hr
    rw [lex_number_neg _ _ _ h1]
    congr 2
    simp; omega
  · have e : s = (s.natAbs : Int) := by omega
    rw [e, printNoUnits_nonneg]
    have h1 : ∀ st, lexNumber st false (printNoUnits (s.natAbs : Int) ++ (o.unit ++ rest)) =
        .ok (.inf ((if false = true then -1 else 1) * (s.natAbs : Int)) o, rest) := fun st => by
      rw [lexNumber_scaled H st false s.natAbs o.unit rest hu hne]
      exact lexUnit_inf H st false s.natAbs (by omega) o rest hr
    rw [printNoUnits_nonneg] at h1
    simp only [List.append_assoc, List.cons_append] at h1 ⊢
    rw [lex_number_nonneg _ _ _ _ h1]
    congr 2
    simp

end C18
