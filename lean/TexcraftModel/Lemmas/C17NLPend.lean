import TexcraftModel.Lemmas.C17NLBasic
/-! Lemmas for `next_larger_algo` (C17): the pending in-edges `pend` that the counters of the
work-list loop count, counters, `maxOf`, small list facts. -/
namespace C17

/-- The in-edges of `x` that `node_to_num_smaller[x]` still counts: the source has not been
popped yet, or its link was cut (a cut link is never released). -/
def pend (G0 : List (Nat × Nat)) (sorted cuts : List Nat) (x : Nat) : List (Nat × Nat) :=
  G0.filter (fun e => decide (e.2 = x ∧ (e.1 ∉ sorted ∨ e.1 ∈ cuts)))

theorem mem_pend {G0 : List (Nat × Nat)} {sorted cuts : List Nat} {x : Nat} {e : Nat × Nat} :
    e ∈ pend G0 sorted cuts x ↔ e ∈ G0 ∧ e.2 = x ∧ (e.1 ∉ sorted ∨ e.1 ∈ cuts) := by
  simp [pend, List.mem_filter]

theorem pairs_nodup (g : List (Nat × Nat)) (hf : Functional g) : g.Nodup := by
  induction g with
  | nil => simp
  | cons e t ih =>
    simp only [Functional, List.map_cons, List.nodup_cons] at hf
    refine List.nodup_cons.2 ⟨fun hm => hf.1 (List.mem_map.2 ⟨e, hm, rfl⟩), ih hf.2⟩

theorem filter_remove_one {α : Type} [DecidableEq α] (l : List α) (hn : l.Nodup) (p : α → Bool)
    (e0 : α) (h0 : e0 ∈ l) (hp : p e0 = true) :
    (l.filter (fun e => p e && (e != e0))).length + 1 = (l.filter p).length := by
  induction l with
  | nil => simp at h0
  | cons a t ih =>
    have hn' := List.nodup_cons.1 hn
    by_cases ha : a = e0
    · subst ha
      have hrest : t.filter (fun e => p e && (e != a)) = t.filter p := by
        apply List.filter_congr
        intro x hx
        have : (x != a) = true := by
          simp only [bne_iff_ne, ne_eq]
          intro e; subst e; exact hn'.1 hx
        rw [this, Bool.and_true]
      have e1 : (p a && (a != a)) = false := by simp
      rw [List.filter_cons, List.filter_cons, e1, hp, hrest]
      simp
    · have h0' : e0 ∈ t := by
        rcases List.mem_cons.1 h0 with h | h
        · exact absurd h.symm ha
        · exact h
      have := ih hn'.2 h0'
      have hne : (a != e0) = true := by simpa using ha
      rw [List.filter_cons, List.filter_cons, hne, Bool.and_true]
      by_cases hpa : p a = true
      · simp only [hpa, if_true, List.length_cons]; omega
      · simp only [hpa, Bool.false_eq_true, if_false]; exact this

/-- Popping `s` whose link `s ↦ l` is still there releases exactly one pending edge of `l`. -/
theorem pend_pop_target (G0 : List (Nat × Nat)) (hf : Functional G0) (sorted cuts : List Nat)
    (s l : Nat) (he : nxt G0 s = some l) (hs : s ∉ sorted) (hc : s ∉ cuts) :
    (pend G0 (s :: sorted) cuts l).length + 1 = (pend G0 sorted cuts l).length := by
  have hmem : (s, l) ∈ G0 := mem_of_nxt G0 s l he
  have := filter_remove_one G0 (pairs_nodup G0 hf)
    (fun e => decide (e.2 = l ∧ (e.1 ∉ sorted ∨ e.1 ∈ cuts))) (s, l) hmem (by simp [hs])
  unfold pend
  rw [← this]
  congr 2
  apply List.filter_congr
  intro e hm
  by_cases hes : e.1 = s
  · have h1 : nxt G0 e.1 = some e.2 := nxt_of_mem G0 hf e.1 e.2 hm
    rw [hes, he] at h1
    have e2 : e.2 = l := by simpa using h1.symm
    have h3 : e = (s, l) := by rw [← hes, ← e2]
    subst h3
    simp [hc]
  · have h3 : e ≠ (s, l) := by
      intro h; rw [h] at hes; exact hes rfl
    simp [hes, h3]

/-- Popping `s` leaves the pending edges of every other node alone. -/
theorem pend_pop_other (G0 : List (Nat × Nat)) (sorted cuts : List Nat) (s x : Nat)
    (h : ∀ e ∈ G0, e.1 = s → e.2 = x → s ∈ cuts) :
    pend G0 (s :: sorted) cuts x = pend G0 sorted cuts x := by
  apply List.filter_congr
  intro e hm
  by_cases hes : e.1 = s
  · by_cases hx : e.2 = x
    · have := h e hm hes hx
      simp [hes, hx, this]
    · simp [hx]
  · simp [hes]

theorem pend_pop_sub (G0 : List (Nat × Nat)) (sorted cuts : List Nat) (s x : Nat) (e : Nat × Nat)
    (h : e ∈ pend G0 (s :: sorted) cuts x) : e ∈ pend G0 sorted cuts x := by
  rw [mem_pend] at h ⊢
  refine ⟨h.1, h.2.1, ?_⟩
  rcases h.2.2 with h | h
  · exact Or.inl (fun hm => h (List.mem_cons_of_mem _ hm))
  · exact Or.inr h

/-- Cutting the link of a node that has not been popped changes no pending list. -/
theorem pend_cut (G0 : List (Nat × Nat)) (sorted cuts : List Nat) (s x : Nat) (hs : s ∉ sorted) :
    pend G0 sorted (s :: cuts) x = pend G0 sorted cuts x := by
  apply List.filter_congr
  intro e _
  by_cases hes : e.1 = s
  · simp [hes, hs]
  · simp [hes]

/-! ### counters -/

theorem cntGet_set (cnt : List (Nat × Nat)) (l v x : Nat) :
    cntGet (cntSet cnt l v) x = if x = l then (cntGet cnt l).map (fun _ => v) else cntGet cnt x := by
  induction cnt with
  | nil => simp [cntGet, cntSet, nxt]
  | cons e t ih =>
    obtain ⟨a, b⟩ := e
    simp only [cntGet, cntSet, List.map_cons, nxt] at ih ⊢
    by_cases hal : a = l
    · subst hal
      by_cases hx : x = a
      · subst hx; simp
      · have : ¬ a = x := fun e => hx e.symm
        simp only [if_true, this, if_false, hx]
        simpa [hx] using ih
    · by_cases hx : x = l
      · subst hx
        simp only [hal, if_false, if_true]
        simpa using ih
      · simp only [hal, if_false, hx]
        by_cases hax : a = x
        · simp [hax]
        · simp only [hax, if_false]
          simpa [hx] using ih

/-! ### `maxOf`, filters -/

theorem maxOf_none (l : List Nat) (h : maxOf l = none) : l = [] := by
  cases l with
  | nil => rfl
  | cons a t =>
    simp only [maxOf] at h
    cases ht : maxOf t <;> simp [ht] at h

theorem maxOf_some (l : List Nat) (s : Nat) (h : maxOf l = some s) : s ∈ l ∧ ∀ x ∈ l, x ≤ s := by
  induction l generalizing s with
  | nil => simp [maxOf] at h
  | cons a t ih =>
    simp only [maxOf] at h
    cases ht : maxOf t with
    | none =>
      have := maxOf_none t ht
      subst this
      simp only [ht, Option.some.injEq] at h
      subst h
      simp
    | some y =>
      simp only [ht, Option.some.injEq] at h
      obtain ⟨h1, h2⟩ := ih y ht
      subst h
      refine ⟨?_, ?_⟩
      · split
        · exact List.mem_cons_of_mem _ h1
        · simp
      · intro x hx
        rcases List.mem_cons.1 hx with rfl | hx
        · split <;> omega
        · have := h2 x hx
          split <;> omega

theorem length_filter_ne (l : List Nat) (hn : l.Nodup) (a : Nat) (ha : a ∈ l) :
    (l.filter (· != a)).length + 1 = l.length := by
  have := filter_remove_one l hn (fun _ => true) a ha rfl
  have e : l.filter (fun _ => true) = l := List.filter_eq_self.2 (fun _ _ => rfl)
  simp only [Bool.true_and, e] at this
  exact this

theorem mem_filter_ne (l : List Nat) (a x : Nat) : x ∈ l.filter (· != a) ↔ x ∈ l ∧ x ≠ a := by
  simp [List.mem_filter]

end C17
