import TexcraftModel.Lemmas.C10Cst

/-! Lemmas for the round-trip law of the CST model: reading the canonical rendering of a
well-formed node pushes a node of the same shape. -/
namespace C10.Cst

/-! ### scanners on concatenations -/

theorem spanP_append (p : Char → Bool) : ∀ (a b : List Char), (∀ c ∈ a, p c = true) → headOK p b = true →
    spanP p (a ++ b) = (a, b)
  | [], [], _, _ => by simp [spanP]
  | [], c :: t, _, hb => by
    simp only [headOK, Bool.not_eq_true'] at hb
    simp [spanP, hb]
  | x :: a, b, ha, hb => by
    have hx : p x = true := ha x (by simp)
    have ih := spanP_append p a b (fun c hc => ha c (by simp [hc])) hb
    simp [spanP, hx, ih]

theorem norm_id : ∀ (l : List Char), (∀ c ∈ l, c ≠ '\r') → norm 0 l = l
  | [], _ => by simp [norm]
  | c :: t, h => by
    have hc : c ≠ '\r' := h c (by simp)
    have ih := norm_id t (fun x hx => h x (by simp [hx]))
    simp only [norm, hc, if_false]
    split <;> simp_all

/-- The comment scanner on a balanced text followed by the closing parenthesis. -/
theorem scanComment_balanced : ∀ (t : List Char) (d : Nat) (cs : List Nat) (pos : Nat) (acc rest : List Char),
    cs.length = d + 1 → balancedFrom d t = true →
    scanComment cs pos (t ++ ')' :: rest) acc = (t.reverse ++ acc, [], pos + t.length + 1, rest)
  | [], d, cs, pos, acc, rest, hl, hb => by
    simp only [balancedFrom, beq_iff_eq] at hb
    subst hb
    match cs, hl with
    | [u], _ => simp [scanComment]
  | c :: t, d, cs, pos, acc, rest, hl, hb => by
    simp only [balancedFrom] at hb
    simp only [List.cons_append, scanComment]
    by_cases h1 : c = '('
    · simp only [h1, if_true] at hb ⊢
      have := scanComment_balanced t (d + 1) (pos :: cs) (pos + 1) ('(' :: acc) rest (by simp [hl]) hb
      rw [this]
      simp only [List.reverse_cons, List.append_assoc, List.singleton_append, List.length_cons, Prod.mk.injEq, true_and, and_true]
      omega
    · simp only [h1, if_false] at hb ⊢
      by_cases h2 : c = ')'
      · simp only [h2, if_true] at hb ⊢
        match d, hb, cs, hl with
        | d' + 1, hb, u :: v :: cs', hl =>
          simp only [List.tail_cons]
          have := scanComment_balanced t d' (v :: cs') (pos + 1) (')' :: acc) rest (by simp at hl ⊢; omega) hb
          rw [this]
          simp only [List.reverse_cons, List.append_assoc, List.singleton_append, List.length_cons, Prod.mk.injEq, true_and, and_true]
          omega
      · simp only [h2, if_false] at hb ⊢
        have := scanComment_balanced t d cs (pos + 1) (c :: acc) rest hl hb
        rw [this]
        simp only [List.reverse_cons, List.append_assoc, List.singleton_append, List.length_cons, Prod.mk.injEq, true_and, and_true]
        omega

/-! ### single steps on canonical text -/

/-- A text that begins with a parenthesis. -/
def ParenHead (X : List Char) : Prop := ∃ c X', X = c :: X' ∧ (c = '(' ∨ c = ')')

theorem ParenHead.blank {X : List Char} (h : ParenHead X) : headOK isBlank X = true := by
  obtain ⟨c, X', rfl, hc | hc⟩ := h <;> subst hc <;> simp [headOK, isBlank]

theorem ParenHead.notParen {X : List Char} (h : ParenHead X) : headOK notParen X = true := by
  obtain ⟨c, X', rfl, hc | hc⟩ := h <;> subst hc <;> simp [headOK, Cst.notParen]

theorem headOK_append (p : Char → Bool) (a b : List Char) (ha : headOK p a = true) (hb : headOK p b = true) :
    headOK p (a ++ b) = true := by
  cases a with
  | nil => simpa using hb
  | cons c t => simpa [headOK] using ha

theorem isKeyChar_space (alnum : Char → Bool) (ha : AlnumOK alnum) : isKeyChar alnum ' ' = false := by
  simp [isKeyChar, ha.space]

theorem isKeyChar_rparen (alnum : Char → Bool) (ha : AlnumOK alnum) : isKeyChar alnum ')' = false := by
  simp [isKeyChar, ha.rparen]

/-- Opening a regular node: key, one blank, data, up to the next parenthesis. -/
theorem step_open (alnum : Char → Bool) (ha : AlnumOK alnum) (st : State) (key data X : List Char)
    (hk : ∀ c ∈ key, isKeyChar alnum c = true) (hkc : key ≠ commentKey)
    (hd : ∀ c ∈ data, notParen c = true) (hdh : headOK isBlank data = true) (hX : ParenHead X)
    (hr : st.rest = '(' :: (key ++ (' ' :: (data ++ X)))) :
    step alnum st =
      { st with
        stack := ⟨st.pos, key, ⟨st.pos + 1, st.pos + 1 + key.length⟩, data,
          ⟨st.pos + 1 + key.length + 1, st.pos + 1 + key.length + 1 + data.length⟩, []⟩ :: st.stack,
        pos := st.pos + 1 + key.length + 1 + data.length, rest := X } := by
  have h1 : spanP (isKeyChar alnum) (key ++ (' ' :: (data ++ X))) = (key, ' ' :: (data ++ X)) :=
    spanP_append _ key _ hk (by simp [headOK, isKeyChar_space alnum ha])
  have h2 : spanP isBlank (' ' :: (data ++ X)) = ([' '], data ++ X) := by
    have := spanP_append isBlank [' '] (data ++ X) (by simp [isBlank]) (headOK_append _ _ _ hdh hX.blank)
    simpa using this
  have h3 : spanP notParen (data ++ X) = (data, X) := spanP_append _ data X hd hX.notParen
  unfold step
  rw [hr]
  simp only [if_true, h1, h2, h3, if_neg hkc, List.length_cons, List.length_nil]

/-- Closing the innermost open node. -/
theorem step_close (alnum : Char → Bool) (st : State) (f : Frame) (fs : List Frame) (rest : List Char)
    (hs : st.stack = f :: fs) (hr : st.rest = ')' :: rest) :
    step alnum st =
      { st with roots := (pushNode st.roots fs (closeFrame f ⟨st.pos, st.pos + 1⟩)).1,
                stack := (pushNode st.roots fs (closeFrame f ⟨st.pos, st.pos + 1⟩)).2,
                pos := st.pos + 1, rest := rest } := by
  unfold step
  rw [hr]
  have : (')' : Char) ≠ '(' := by decide
  simp only [if_neg this, if_true, hs]

/-- A whole comment in one step. -/
theorem step_comment (alnum : Char → Bool) (ha : AlnumOK alnum) (st : State) (t rest : List Char)
    (hb : balancedFrom 0 t = true) (hh : headOK (isKeyChar alnum) t = true)
    (hr : st.rest = '(' :: (commentKey ++ (t ++ (')' :: rest)))) :
    step alnum st =
      { roots := (pushNode st.roots st.stack (.comment t)).1,
        stack := (pushNode st.roots st.stack (.comment t)).2,
        warnings := st.warnings, pos := st.pos + 1 + 7 + t.length + 1, rest := rest } := by
  have hkey : ∀ c ∈ commentKey, isKeyChar alnum c = true := by
    intro c hc
    simp [isKeyChar, ha.comment c hc]
  have hhead : headOK (isKeyChar alnum) (t ++ (')' :: rest)) = true :=
    headOK_append _ _ _ hh (by simp [headOK, isKeyChar_rparen alnum ha])
  have h1 : spanP (isKeyChar alnum) (commentKey ++ (t ++ (')' :: rest))) = (commentKey, t ++ (')' :: rest)) :=
    spanP_append _ commentKey _ hkey hhead
  have h2 := scanComment_balanced t 0 [st.pos] (st.pos + 1 + commentKey.length) [] rest (by simp) hb
  unfold step
  rw [hr]
  simp only [if_true, h1, h2, closersToAdd, leftToReport, List.length_nil]
  simp [commentKey]

/-! ### the simulation: reading the rendering of a node pushes a node of the same shape -/

theorem loop_succ (alnum : Char → Bool) (n : Nat) (st : State) (h : st.rest ≠ []) :
    loop alnum (n + 1) st = loop alnum n (step alnum st) := by
  simp only [loop]
  split
  · rename_i hr; exact absurd hr h
  · rfl

/-- The state after a finished node has been attached. -/
def pushed (st : State) (n : Node) (len : Nat) (rest : List Char) : State :=
  { roots := (pushNode st.roots st.stack n).1, stack := (pushNode st.roots st.stack n).2,
    warnings := st.warnings, pos := st.pos + len, rest := rest }

def pushAll : List Node → List Frame → List Node → List Node × List Frame
  | roots, stack, [] => (roots, stack)
  | roots, stack, n :: ns => pushAll (pushNode roots stack n).1 (pushNode roots stack n).2 ns

def pushedAll (st : State) (ns : List Node) (len : Nat) (rest : List Char) : State :=
  { roots := (pushAll st.roots st.stack ns).1, stack := (pushAll st.roots st.stack ns).2,
    warnings := st.warnings, pos := st.pos + len, rest := rest }

theorem pushAll_frame : ∀ (ns : List Node) (roots : List Node) (f : Frame) (fs : List Frame),
    pushAll roots (f :: fs) ns = (roots, { f with children := ns.reverse ++ f.children } :: fs)
  | [], roots, f, fs => by simp [pushAll]
  | n :: ns, roots, f, fs => by
    simp only [pushAll, pushNode]
    rw [pushAll_frame ns roots _ fs]
    simp

theorem render_head (n : Node) : ∃ r, render n = '(' :: r := by
  cases n with
  | comment t => exact ⟨commentKey ++ t ++ [')'], by simp [render]⟩
  | regular o key ks data ds children cl =>
    exact ⟨key ++ ' ' :: data ++ renderAll children ++ [')'], by simp [render]⟩

theorem parenHead_children (ns : List Node) (rest : List Char) : ParenHead (renderAll ns ++ (')' :: rest)) := by
  cases ns with
  | nil => exact ⟨')', rest, by simp [renderAll], Or.inr rfl⟩
  | cons n ns =>
    obtain ⟨r, hr⟩ := render_head n
    exact ⟨'(', r ++ renderAll ns ++ (')' :: rest), by simp [renderAll, hr], Or.inl rfl⟩

mutual
  theorem read_node (alnum : Char → Bool) (ha : AlnumOK alnum) : ∀ (n : Node), WF alnum n →
      ∀ (st : State) (rest : List Char), st.rest = render n ++ rest →
      ∃ n' k, strip n' = strip n ∧
        ∀ fuel, loop alnum (fuel + k) st = loop alnum fuel (pushed st n' (render n).length rest)
    | .comment t, hwf, st, rest, hr => by
      simp only [WF] at hwf
      obtain ⟨hb, hh, _⟩ := hwf
      have hr' : st.rest = '(' :: (commentKey ++ (t ++ (')' :: rest))) := by
        rw [hr]; simp [render, List.append_assoc]
      refine ⟨.comment t, 1, rfl, ?_⟩
      intro fuel
      rw [loop_succ alnum fuel st (by rw [hr']; simp), step_comment alnum ha st t rest hb hh hr']
      congr 1
      simp only [pushed, render, List.length_cons, List.length_append, List.length_nil, commentKey]
      congr 1
      omega
    | .regular o key ks data ds children cl, hwf, st, rest, hr => by
      simp only [WF] at hwf
      obtain ⟨hk, hkc, _, hd, hdh, _, hch⟩ := hwf
      have hr' : st.rest = '(' :: (key ++ (' ' :: (data ++ (renderAll children ++ (')' :: rest))))) := by
        rw [hr]; simp [render, List.append_assoc]
      have hopen := step_open alnum ha st key data _ hk hkc hd hdh (parenHead_children children rest) hr'
      obtain ⟨cs', kc, hcs, hloop⟩ := read_nodes alnum ha children hch (step alnum st) (')' :: rest)
        (by rw [hopen])
      -- the frame after the children
      have hst2 : (pushedAll (step alnum st) cs' (renderAll children).length (')' :: rest)).stack =
          { openPos := st.pos, key := key, keySpan := ⟨st.pos + 1, st.pos + 1 + key.length⟩, data := data,
            dataSpan := ⟨st.pos + 1 + key.length + 1, st.pos + 1 + key.length + 1 + data.length⟩,
            children := cs'.reverse ++ [] } :: st.stack := by
        simp only [pushedAll, hopen, pushAll_frame]
      refine ⟨closeFrame ⟨st.pos, key, ⟨st.pos + 1, st.pos + 1 + key.length⟩, data,
          ⟨st.pos + 1 + key.length + 1, st.pos + 1 + key.length + 1 + data.length⟩, cs'.reverse ++ []⟩
          ⟨st.pos + 1 + key.length + 1 + data.length + (renderAll children).length,
           st.pos + 1 + key.length + 1 + data.length + (renderAll children).length + 1⟩, kc + 2, ?_, ?_⟩
      · simp [closeFrame, strip, hcs]
      · intro fuel
        have e1 : fuel + (kc + 2) = (fuel + 1 + kc) + 1 := by omega
        rw [e1, loop_succ alnum _ st (by rw [hr']; simp), hloop (fuel + 1)]
        rw [loop_succ alnum fuel _ (by simp [pushedAll])]
        rw [step_close alnum _ _ _ rest hst2 (by simp [pushedAll])]
        congr 1
        simp only [pushed, pushedAll, hopen, pushAll_frame, render, List.length_cons, List.length_append,
          List.length_nil]
        congr 1 <;> first | rfl | omega | (congr 1; omega) | skip
  theorem read_nodes (alnum : Char → Bool) (ha : AlnumOK alnum) : ∀ (ns : List Node), WFAll alnum ns →
      ∀ (st : State) (rest : List Char), st.rest = renderAll ns ++ rest →
      ∃ ns' k, stripAll ns' = stripAll ns ∧
        ∀ fuel, loop alnum (fuel + k) st = loop alnum fuel (pushedAll st ns' (renderAll ns).length rest)
    | [], _, st, rest, hr => by
      refine ⟨[], 0, rfl, ?_⟩
      intro fuel
      simp only [renderAll, List.nil_append] at hr
      simp only [pushedAll, pushAll, renderAll, List.length_nil, Nat.add_zero]
      congr 1
      cases st
      simp_all
    | n :: ns, hwf, st, rest, hr => by
      simp only [WFAll] at hwf
      obtain ⟨hn, hns⟩ := hwf
      obtain ⟨n', k1, h1, l1⟩ := read_node alnum ha n hn st (renderAll ns ++ rest)
        (by rw [hr]; simp [renderAll, List.append_assoc])
      obtain ⟨ns', k2, h2, l2⟩ := read_nodes alnum ha ns hns (pushed st n' (render n).length (renderAll ns ++ rest)) rest
        (by simp [pushed])
      refine ⟨n' :: ns', k2 + k1, by simp [stripAll, h1, h2], ?_⟩
      intro fuel
      have e : fuel + (k2 + k1) = (fuel + k2) + k1 := by omega
      rw [e, l1, l2]
      congr 1
      simp only [pushedAll, pushed, pushAll, renderAll, List.length_append]
      congr 1
      omega
end

/-! ### from the simulation to `cstModel` -/

theorem loop_mono (alnum : Char → Bool) : ∀ (n m : Nat) (st r : State), loop alnum n st = some r →
    loop alnum (n + m) st = some r
  | 0, m, st, r, h => by simp [loop] at h
  | n + 1, m, st, r, h => by
    have e : n + 1 + m = (n + m) + 1 := by omega
    rw [e]
    simp only [loop] at h ⊢
    split
    · rename_i hr; simp only [hr] at h; exact h
    · rename_i c t hr
      simp only [hr] at h
      exact loop_mono alnum n m _ r h

theorem pushAll_roots : ∀ (ns roots : List Node), pushAll roots [] ns = (ns.reverse ++ roots, [])
  | [], roots => by simp [pushAll]
  | n :: ns, roots => by
    simp only [pushAll, pushNode]
    rw [pushAll_roots ns (n :: roots)]
    simp

mutual
  theorem render_no_cr (alnum : Char → Bool) : ∀ (n : Node), WF alnum n → ∀ c ∈ render n, c ≠ '\r'
    | .comment t, hwf, c, hc => by
      simp only [WF] at hwf
      obtain ⟨_, _, ht⟩ := hwf
      simp only [render, commentKey, List.mem_cons, List.mem_append, List.not_mem_nil, or_false] at hc
      rcases hc with (h | h) | rfl
      · rcases h with rfl | rfl | rfl | rfl | rfl | rfl | rfl | rfl <;> decide
      · exact ht c h
      · decide
    | .regular o key ks data ds children cl, hwf, c, hc => by
      simp only [WF] at hwf
      obtain ⟨_, _, hk, _, _, hd, hch⟩ := hwf
      simp only [render, List.mem_cons, List.mem_append, List.not_mem_nil, or_false] at hc
      rcases hc with (((rfl | h) | (rfl | h)) | h) | rfl
      · decide
      · exact hk c h
      · decide
      · exact hd c h
      · exact renderAll_no_cr alnum children hch c h
      · decide
  theorem renderAll_no_cr (alnum : Char → Bool) : ∀ (ns : List Node), WFAll alnum ns → ∀ c ∈ renderAll ns, c ≠ '\r'
    | [], _, c, hc => by simp [renderAll] at hc
    | n :: ns, hwf, c, hc => by
      simp only [WFAll] at hwf
      simp only [renderAll, List.mem_append] at hc
      rcases hc with h | h
      · exact render_no_cr alnum n hwf.1 c h
      · exact renderAll_no_cr alnum ns hwf.2 c h
end

/-- The round trip: the canonical rendering of well-formed trees reads back, without any
warning, as trees of the same shape (same keys, data, comments and nesting; spans differ). -/
theorem roundtrip (alnum : Char → Bool) (ha : AlnumOK alnum) (ns : List Node) (hwf : WFAll alnum ns) :
    ∃ ns', cstModel alnum (renderAll ns) = .ok ns' [] ∧ stripAll ns' = stripAll ns := by
  have hnorm : normalize (renderAll ns) = renderAll ns := norm_id _ (renderAll_no_cr alnum ns hwf)
  obtain ⟨ns', k, hs, hl⟩ := read_nodes alnum ha ns hwf ⟨[], [], [], 0, renderAll ns⟩ [] (by simp)
  obtain ⟨x, hx, _⟩ := loop_some alnum ((renderAll ns).length + 1) ⟨[], [], [], 0, renderAll ns⟩ (by simp)
  -- the run reaches the state with every node attached
  have hE : loop alnum (1 + k) ⟨[], [], [], 0, renderAll ns⟩ =
      some (pushedAll ⟨[], [], [], 0, renderAll ns⟩ ns' (renderAll ns).length []) := by
    rw [hl 1]
    simp [loop, pushedAll]
  have h1 := loop_mono alnum _ (1 + k) _ _ hx
  have h2 := loop_mono alnum _ ((renderAll ns).length + 1) _ _ hE
  have e : (renderAll ns).length + 1 + (1 + k) = 1 + k + ((renderAll ns).length + 1) := by omega
  rw [e, h2] at h1
  simp only [Option.some.injEq] at h1
  refine ⟨ns', ?_, hs⟩
  simp only [cstModel, hnorm, hx]
  rw [← h1]
  simp [pushedAll, pushAll_roots, finish, finishAux]

end C10.Cst
