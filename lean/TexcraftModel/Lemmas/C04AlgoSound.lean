import TexcraftModel.Lemmas.C04AlgoSpec
import TexcraftModel.Lemmas.C04AlgoGroups

/-!
Stage B: every active node of `C04.algo` records a feasible sequence of breaks with its
exact total demerits (`NodeInv`), for every instance with well-formed discretionaries,
every looseness, `force_solution = false`. Core Lean only.
-/
namespace C04

/-- What `try_break` is called with at a legal breakpoint `i`. -/
structure CtxOK (x : Inst) (i : Nat) (c : BCtx) : Prop where
  i_eq : c.i = i
  le : i ≤ x.n
  diffs : c.diffs = cum x.items i
  dw : c.discWidth = preWidth x i
  bi : breakInfo x i = some (c.penalty, c.hyph)
  isEnd : c.isEnd = decide (i = x.n)

/-- The full invariant of the main loop at the start of iteration `i`. -/
structure LInv (x : Inst) (i : Nat) (st : LState) : Prop where
  basic : LBasic x i st
  nodes : ∀ ν, ν ∈ st.active → NodeInv x i ν

theorem nodeRate_spec (x : Inst) (c : BCtx) (ν : ANode) (i : Nat)
    (hd : c.diffs = cum x.items i) (hw : c.discWidth = preWidth x i)
    (hr : ν.ref = afterRef x ν.pos) :
    nodeRate x c ν = rate (lineTotals x ν.pos i) (lineWidth x.p.widths ν.line) := by
  unfold nodeRate
  rw [rateFn_eq, hd, hw, hr]
  rfl

theorem forced_of_bi {x : Inst} {i : Nat} {p : Int} {h : Bool} (hb : breakInfo x i = some (p, h)) :
    forced x i = (p == -10000) := by
  unfold forced; rw [hb]

theorem forced_of_none {x : Inst} {i : Nat} (hb : breakInfo x i = none) : forced x i = false := by
  unfold forced; rw [hb]

theorem forcedBetween_succ (x : Inst) (a : Option Nat) (i : Nat) :
    forcedBetween x a (i + 1) = (forcedBetween x a i || (lt? a i && forced x i)) := by
  unfold forcedBetween
  rw [List.range_succ, List.any_append]
  simp

theorem lt?_succ {a : Option Nat} {i : Nat} (h : lt? a i = true) : lt? a (i + 1) = true := by
  cases a with
  | none => rfl
  | some a => simp [lt?] at h ⊢; omega

/-- A node stays valid over an index at which it is not deactivated by a forced break. -/
theorem nodeInv_keep {x : Inst} {i : Nat} {ν : ANode} (h : NodeInv x i ν) (hf : forced x i = false) :
    NodeInv x (i + 1) ν :=
  ⟨h.ok, lt?_succ h.lt, by rw [forcedBetween_succ, h.nf, hf]; simp⟩

theorem candidate_lineEval {x : Inst} {i : Nat} {c : BCtx} {ν : ANode} (hc : CtxOK x i c)
    (h : NodeInv x i ν) (ha : allowOf x c ν = true) :
    lineEval x ν.pos ν.line i = some (nodeRate x c ν) := by
  have hr := nodeRate_spec x c ν i hc.diffs hc.dw h.ok.ref
  unfold lineEval
  rw [hc.bi]
  simp only
  have hcond : lt? ν.pos i = true ∧ i ≤ x.n ∧ ¬ forcedBetween x ν.pos i = true := by
    refine ⟨h.lt, hc.le, ?_⟩
    rw [h.nf]; simp
  rw [if_pos hcond, ← hr]
  have : (nodeRate x c ν).1 ≤ threshold x.p := by
    simpa [allowOf] using ha
  rw [if_pos this]

theorem totOf_spec {x : Inst} {i : Nat} {c : BCtx} {ν : ANode} (hc : CtxOK x i c)
    (h : NodeInv x i ν) :
    totOf x c ν = ν.total + demerits x ν.pos ν.fit i (nodeRate x c ν).1 (nodeRate x c ν).2 := by
  unfold totOf
  rw [h.ok.hyph, hc.isEnd, demeritsFn_eq x ν.pos i c.penalty c.hyph hc.bi]
  omega

theorem forcedBetween_self (x : Inst) (i : Nat) : forcedBetween x (some i) (i + 1) = false := by
  unfold forcedBetween
  rw [List.any_eq_false]
  intro c hcm
  have : c < i + 1 := List.mem_range.mp hcm
  have hlt : lt? (some i) c = false := by simp [lt?]; omega
  simp [hlt]

/-- The node made from the candidate offered by `μ` is valid at `i + 1`. -/
theorem newNode_inv {x : Inst} (hd : discOK x = true) {i : Nat} {c : BCtx} {μ : ANode}
    (hc : CtxOK x i c) (h : NodeInv x i μ) (ha : allowOf x c μ = true) (nn : ANode)
    (hn : nn = { ref := breakWidth x c.i c.diffs, fit := (nodeRate x c μ).2, hyph := c.hyph,
                 line := μ.line + 1, total := totOf x c μ, path := c.i :: μ.path }) :
    NodeInv x (i + 1) nn := by
  have hpos : nn.pos = some i := by rw [hn]; simp [ANode.pos, hc.i_eq]
  have hle := candidate_lineEval hc h ha
  have htot := totOf_spec hc h
  refine ⟨⟨?_, ?_, ?_⟩, ?_, ?_⟩
  · rw [hpos]
    have : nn.path.reverse = μ.path.reverse ++ [i] := by rw [hn]; simp [hc.i_eq]
    rw [this, run_append_one, h.ok.run]
    simp only [hle]
    rw [hn]; simp only [htot]
  · rw [hpos, hn]; simp only [hc.i_eq, hc.diffs]; exact breakWidth_eq x hd i
  · rw [hpos, hn]; simp only [hyphAt, hc.bi]
  · rw [hpos]; simp [lt?]
  · rw [hpos]; exact forcedBetween_self x i

theorem pruneThreshold_lt (adj md : Int) (_h : md < awfulBad) : pruneThreshold adj md < awfulBad := by
  unfold pruneThreshold
  split
  · unfold awfulBad; omega
  · omega

theorem groupOut_inv {x : Inst} (hd : discOK x = true) {i : Nat} {c : BCtx} (hc : CtxOK x i c)
    (G : List ANode) (hG : ∀ ν, ν ∈ G → NodeInv x i ν) (μ : ANode) (hμ : μ ∈ groupOut x c G) :
    NodeInv x (i + 1) μ := by
  unfold groupOut at hμ
  simp only [List.mem_append] at hμ
  rcases hμ with hs | hn
  · -- survivor
    unfold survivors at hs
    rw [List.mem_filter] at hs
    have hde : deactOf x c μ = false := by simpa using hs.2
    have hp : c.penalty ≠ -10000 := by
      intro hp
      simp [deactOf, hp] at hde
    refine nodeInv_keep (hG μ hs.1) ?_
    rw [forced_of_bi hc.bi]
    simpa using hp
  · split at hn
    · rename_i hmd
      unfold newNodes at hn
      rw [List.mem_filterMap] at hn
      obtain ⟨f, _, hf⟩ := hn
      simp only at hf
      split at hf
      · cases hf
      · rename_i hthr
        have hlt := pruneThreshold_lt x.p.adjDemerits _ hmd
        rcases scanC_init_from x c G f with h0 | ⟨ν, hνG, hal, hfit, hcd⟩
        · exfalso
          rw [h0] at hthr
          simp only at hthr
          omega
        · simp only [Option.some.injEq] at hf
          refine newNode_inv hd hc (hG ν hνG) hal μ ?_
          rw [← hf, hcd, hfit]
    · cases hn

theorem groupsRun_inv {x : Inst} (hd : discOK x = true) {i : Nat} {c : BCtx} (hc : CtxOK x i c)
    (q : Int) (fuel : Nat) (todo : List ANode) (hT : ∀ ν, ν ∈ todo → NodeInv x i ν)
    (μ : ANode) (hμ : μ ∈ groupsRun x q c fuel todo) : NodeInv x (i + 1) μ := by
  obtain ⟨G, hsub, hm⟩ := groupsRun_sub x q c fuel todo μ hμ
  exact groupOut_inv hd hc G (fun ν hν => hT ν (hsub ν hν)) μ hm

theorem outer_eq_groupsRun (x : Inst) (q : Int) (c : BCtx) (A : List ANode) :
    outer x q false c A.length A.length A = groupsRun x q c A.length A := by
  have := outer_eq x q c A.length A [] (Nat.le_refl _)
  simpa using this

theorem isNone_getElem?_iff (x : Inst) (i : Nat) (hi : i ≤ x.n) :
    (x.items[i]?).isNone = decide (i = x.n) := by
  unfold Inst.n at *
  by_cases h : i = x.items.length
  · subst h; simp
  · have : i < x.items.length := by omega
    simp [h, this]

/-- The shape of `step` at a legal breakpoint. -/
theorem step_break (x : Inst) (q : Int) (st : LState) (i : Nat) (pen : Int) (hy : Bool) (dw : Int)
    (h : (classify x i st).2 = some (pen, hy, dw)) (hp : ¬ 10000 ≤ pen) :
    step x q false st i =
      { (classify x i st).1 with
        active := groupsRun x q
          ⟨i, (classify x i st).1.diffs, dw, if pen ≤ -10000 then -10000 else pen, hy, (x.items[i]?).isNone⟩
          (classify x i st).1.active.length (classify x i st).1.active,
        diffs := endUpdate x i (classify x i st).1.diffs } := by
  unfold step
  simp only [h, if_neg hp]
  rw [outer_eq_groupsRun]

theorem step_skip (x : Inst) (q : Int) (st : LState) (i : Nat)
    (h : (classify x i st).2 = none ∨ ∃ pen hy dw, (classify x i st).2 = some (pen, hy, dw) ∧ 10000 ≤ pen) :
    step x q false st i = (classify x i st).1 := by
  unfold step
  rcases h with h | ⟨pen, hy, dw, h, hp⟩
  · simp only [h]
  · simp only [h, if_pos hp]

theorem step_inv {x : Inst} (hd : discOK x = true) (q : Int) (i : Nat) (hi : i ≤ x.n) (st : LState)
    (h : LInv x i st) : LInv x (i + 1) (step x q false st i) := by
  cases hcl : (classify x i st).2 with
  | none =>
    rw [step_skip x q st i (Or.inl hcl)]
    obtain ⟨hbi, hb, hact⟩ := classify_none x hd i st hi h.basic hcl
    refine ⟨hb, ?_⟩
    intro ν hν
    rw [hact] at hν
    exact nodeInv_keep (h.nodes ν hν) (forced_of_none hbi)
  | some r =>
    obtain ⟨pen, hy, dw⟩ := r
    obtain ⟨hraw, hdw, hdiffs, hact, hauto, heor, hend, hskip⟩ :=
      classify_some x hd i st hi h.basic pen hy dw hcl
    by_cases hp : 10000 ≤ pen
    · rw [step_skip x q st i (Or.inr ⟨pen, hy, dw, hcl, hp⟩)]
      have hbi : breakInfo x i = none := by
        unfold breakInfo; rw [hraw]; simp only [if_pos hp]
      refine ⟨⟨?_, hauto, heor⟩, ?_⟩
      · rw [hdiffs, hskip hp]
      · intro ν hν
        rw [hact] at hν
        exact nodeInv_keep (h.nodes ν hν) (forced_of_none hbi)
    · rw [step_break x q st i pen hy dw hcl hp]
      have hc : CtxOK x i ⟨i, (classify x i st).1.diffs, dw, if pen ≤ -10000 then -10000 else pen, hy,
          (x.items[i]?).isNone⟩ := by
        refine ⟨rfl, hi, hdiffs, hdw, ?_, isNone_getElem?_iff x i hi⟩
        unfold breakInfo; rw [hraw]; simp only [if_neg hp]
        split <;> rfl
      refine ⟨⟨?_, hauto, heor⟩, ?_⟩
      · simp only; rw [hdiffs, hend]
      · intro ν hν
        simp only at hν
        refine groupsRun_inv hd hc q _ _ ?_ ν hν
        intro μ hμ
        rw [hact] at hμ
        exact h.nodes μ hμ

theorem linv_init (x : Inst) : LInv x 0 {} := by
  refine ⟨⟨?_, ?_, ?_⟩, ?_⟩
  · simp [cum]
  · simp [autoBefore]
  · simp [eorAt]
  · intro ν hν
    have : ν = {} := by simpa using hν
    subst this
    refine ⟨⟨?_, ?_, ?_⟩, ?_, ?_⟩
    · simp [run, ANode.pos]
    · simp [ANode.pos, afterRef]
    · simp [ANode.pos, hyphAt]
    · simp [ANode.pos, lt?]
    · simp [forcedBetween]

theorem loop_inv {x : Inst} (hd : discOK x = true) (q : Int) (k : Nat) (hk : k ≤ x.n + 1) :
    LInv x k ((List.range k).foldl (step x q false) {}) := by
  induction k with
  | zero => simpa using linv_init x
  | succ k ih =>
    rw [List.range_succ, List.foldl_append]
    simp only [List.foldl_cons, List.foldl_nil]
    exact step_inv hd q k (by omega) _ (ih (by omega))

theorem mainLoop_inv {x : Inst} (hd : discOK x = true) (q : Int) :
    LInv x (x.n + 1) (mainLoop x q false) :=
  loop_inv hd q (x.n + 1) (Nat.le_refl _)

theorem breakInfo_end (x : Inst) : breakInfo x x.n = some (-10000, true) := by
  unfold breakInfo rawBreak
  simp

/-- After the final break every active node sits at the end of the paragraph. -/
theorem final_pos {x : Inst} {ν : ANode} (h : NodeInv x (x.n + 1) ν) : ν.pos = some x.n := by
  have hnf := h.nf
  rw [forcedBetween_succ] at hnf
  have hf : forced x x.n = true := by rw [forced_of_bi (breakInfo_end x)]; rfl
  rw [hf] at hnf
  have hlt := h.lt
  cases hp : ν.pos with
  | none => rw [hp] at hnf; simp [lt?] at hnf
  | some a =>
    rw [hp] at hnf hlt
    simp [lt?] at hnf hlt
    have : a = x.n := by omega
    rw [this]

theorem final_total {x : Inst} {ν : ANode} (h : NodeInv x (x.n + 1) ν) :
    total x ν.path.reverse = some ν.total := by
  unfold total
  rw [h.ok.run]
  simp only [final_pos h, if_true]

/-! ### The final choice (lib.rs:937-988) returns an active node -/

theorem firstBest_mem (b : ANode) (l : List ANode) : firstBest b l = b ∨ firstBest b l ∈ l := by
  unfold firstBest
  induction l generalizing b with
  | nil => exact Or.inl rfl
  | cons a t ih =>
    simp only [List.foldl_cons]
    rcases ih (if a.total < b.total then a else b) with h | h
    · rw [h]
      split
      · exact Or.inr (by simp)
      · exact Or.inl rfl
    · exact Or.inr (List.mem_cons_of_mem _ h)

theorem firstBest_le (b : ANode) (l : List ANode) :
    (firstBest b l).total ≤ b.total ∧ ∀ ν, ν ∈ l → (firstBest b l).total ≤ ν.total := by
  unfold firstBest
  induction l generalizing b with
  | nil => exact ⟨Int.le_refl _, by simp⟩
  | cons a t ih =>
    simp only [List.foldl_cons]
    obtain ⟨h1, h2⟩ := ih (if a.total < b.total then a else b)
    have hb : (if a.total < b.total then a else b).total ≤ b.total ∧
        (if a.total < b.total then a else b).total ≤ a.total := by
      split <;> omega
    refine ⟨by omega, ?_⟩
    intro ν hν
    rcases List.mem_cons.mp hν with rfl | hν
    · omega
    · exact h2 ν hν

theorem loosen_mem (q : Int) (b : ANode) (l : List ANode) :
    (loosen q b l).1 = b ∨ (loosen q b l).1 ∈ l := by
  unfold loosen
  generalize (0 : Int) = al
  generalize hb0 : b.line = bl
  have key : ∀ (l : List ANode) (s : ANode × Int),
      (l.foldl (fun (s : ANode × Int) ν =>
        let lineDiff : Int := (ν.line : Int) - (bl : Int)
        if (lineDiff < s.2 ∧ q ≤ lineDiff) ∨ (s.2 < lineDiff ∧ lineDiff ≤ q) then (ν, lineDiff)
        else if lineDiff = s.2 ∧ ν.total < s.1.total then (ν, s.2)
        else s) s).1 = s.1 ∨
      (l.foldl (fun (s : ANode × Int) ν =>
        let lineDiff : Int := (ν.line : Int) - (bl : Int)
        if (lineDiff < s.2 ∧ q ≤ lineDiff) ∨ (s.2 < lineDiff ∧ lineDiff ≤ q) then (ν, lineDiff)
        else if lineDiff = s.2 ∧ ν.total < s.1.total then (ν, s.2)
        else s) s).1 ∈ l := by
    intro l
    induction l with
    | nil => intro s; exact Or.inl rfl
    | cons a t ih =>
      intro s
      simp only [List.foldl_cons]
      rcases ih (if ((a.line : Int) - (bl : Int) < s.2 ∧ q ≤ (a.line : Int) - (bl : Int)) ∨
          (s.2 < (a.line : Int) - (bl : Int) ∧ (a.line : Int) - (bl : Int) ≤ q) then (a, (a.line : Int) - (bl : Int))
        else if (a.line : Int) - (bl : Int) = s.2 ∧ a.total < s.1.total then (a, s.2) else s) with h | h
      · rw [h]
        split
        · exact Or.inr (by simp)
        · split
          · exact Or.inr (by simp)
          · exact Or.inl rfl
      · exact Or.inr (List.mem_cons_of_mem _ h)
  exact key l (b, al)

/-- Whatever `finish` returns is the path of a node of the final active list. -/
theorem finish_mem (q : Int) (act : List ANode) (bs : List Nat) (h : finish q false act = some bs) :
    ∃ ν, ν ∈ act ∧ bs = ν.path.reverse := by
  unfold finish at h
  cases act with
  | nil => cases h
  | cons first t =>
    simp only at h
    have hfb : firstBest first (first :: t) ∈ first :: t := by
      rcases firstBest_mem first (first :: t) with h | h
      · rw [h]; simp
      · exact h
    split at h
    · split at h
      · cases h
      · simp only [Option.some.injEq] at h
        refine ⟨_, ?_, h.symm⟩
        rcases loosen_mem q (firstBest first (first :: t)) (first :: t) with h | h
        · rw [h]; exact hfb
        · exact h
    · simp only [Option.some.injEq] at h
      exact ⟨_, hfb, h.symm⟩

/-- With looseness 0 the returned node has the least total among the final active nodes. -/
theorem finish_zero (act : List ANode) (bs : List Nat) (h : finish 0 false act = some bs) :
    ∃ ν, ν ∈ act ∧ bs = ν.path.reverse ∧ ∀ μ, μ ∈ act → ν.total ≤ μ.total := by
  unfold finish at h
  cases act with
  | nil => cases h
  | cons first t =>
    simp only [ne_eq, not_true_eq_false, if_false, Option.some.injEq] at h
    have hfb : firstBest first (first :: t) ∈ first :: t := by
      rcases firstBest_mem first (first :: t) with h | h
      · rw [h]; simp
      · exact h
    exact ⟨_, hfb, h.symm, (firstBest_le first (first :: t)).2⟩

theorem finish_none_zero (act : List ANode) (h : finish 0 false act = none) : act = [] := by
  unfold finish at h
  cases act with
  | nil => rfl
  | cons first t => simp at h

end C04
