import TexcraftModel.Model.C17NL
import TexcraftModel.Lemmas.C17Graph
/-! Lemmas for `next_larger_algo` (C17): association lists, and the "stuck" lemma — when every
remaining node has a remaining predecessor, the remaining nodes form cycles and the largest of
them is a node `isCut` marks. -/
namespace C17

/-- One link per character. -/
def Functional (g : List (Nat × Nat)) : Prop := (g.map Prod.fst).Nodup

/-- `x` is an endpoint of a kept edge (a key of `node_to_num_smaller`). -/
def IsNode (g : List (Nat × Nat)) (x : Nat) : Prop := ∃ e ∈ g, e.1 = x ∨ e.2 = x

theorem mem_of_nxt (g : List (Nat × Nat)) (a b : Nat) (h : nxt g a = some b) : (a, b) ∈ g := by
  induction g with
  | nil => simp [nxt] at h
  | cons e t ih =>
    obtain ⟨x, y⟩ := e
    simp only [nxt] at h
    split at h
    · rename_i hx
      simp only [Option.some.injEq] at h
      subst hx; subst h; simp
    · exact List.mem_cons_of_mem _ (ih h)

theorem nxt_of_mem (g : List (Nat × Nat)) (hf : Functional g) (a b : Nat) (h : (a, b) ∈ g) :
    nxt g a = some b := by
  induction g with
  | nil => simp at h
  | cons e t ih =>
    obtain ⟨x, y⟩ := e
    simp only [Functional, List.map_cons, List.nodup_cons] at hf
    simp only [nxt]
    rcases List.mem_cons.1 h with h | h
    · simp only [Prod.mk.injEq] at h
      simp [h.1, h.2]
    · have hne : ¬ x = a := by
        intro e
        subst e
        exact hf.1 (List.mem_map.2 ⟨(x, b), h, rfl⟩)
      simp only [hne, if_false]
      exact ih hf.2 h

theorem nxt_filter_ne (g : List (Nat × Nat)) (s y : Nat) :
    nxt (g.filter (fun e => e.1 != s)) y = if y = s then none else nxt g y := by
  induction g with
  | nil => simp [nxt]
  | cons e t ih =>
    obtain ⟨a, b⟩ := e
    by_cases ha : a = s
    · subst ha
      simp only [List.filter_cons, bne_self_eq_false, Bool.false_eq_true, if_false, ih, nxt]
      by_cases hy : y = a
      · simp [hy]
      · have : ¬ a = y := fun e => hy e.symm
        simp [hy, this]
    · have hb : ((a, b).1 != s) = true := by simpa using ha
      simp only [List.filter_cons, hb, if_true, nxt, ih]
      by_cases hy : a = y
      · subst hy; simp [ha]
      · simp [hy]

theorem isNode_of_nxt (g : List (Nat × Nat)) (a b : Nat) (h : nxt g a = some b) :
    IsNode g a ∧ IsNode g b :=
  ⟨⟨(a, b), mem_of_nxt g a b h, Or.inl rfl⟩, ⟨(a, b), mem_of_nxt g a b h, Or.inr rfl⟩⟩

theorem nodup_map_of_inj_on {α β : Type} (f : α → β) : ∀ (l : List α), l.Nodup →
    (∀ a ∈ l, ∀ b ∈ l, f a = f b → a = b) → (l.map f).Nodup := by
  intro l
  induction l with
  | nil => intro _ _; simp
  | cons a t ih =>
    intro hn hinj
    have hn' := List.nodup_cons.1 hn
    simp only [List.map_cons, List.nodup_cons]
    refine ⟨?_, ih hn'.2 (fun x hx y hy => hinj x (List.mem_cons_of_mem _ hx) y (List.mem_cons_of_mem _ hy))⟩
    intro hm
    obtain ⟨b, hb, e⟩ := List.mem_map.1 hm
    have := hinj b (List.mem_cons_of_mem _ hb) a (by simp) e
    subst this
    exact hn'.1 hb

/-- A duplicate-free list that is contained in an equally long duplicate-free… (only the
direction needed): if `l₁ ⊆ l₂`, `l₁` has no duplicates and is at least as long as `l₂`
(which has none either), then `l₂ ⊆ l₁`. -/
theorem subset_of_nodup_length_ge (l₁ l₂ : List Nat) (h1 : l₁.Nodup) (h2 : l₂.Nodup)
    (hs : l₁ ⊆ l₂) (hl : l₂.length ≤ l₁.length) : l₂ ⊆ l₁ := by
  intro u hu
  apply Classical.byContradiction
  intro hnot
  have hsub : l₁ ⊆ l₂.erase u := by
    intro x hx
    have hne : x ≠ u := by intro e; subst e; exact hnot hx
    exact (List.mem_erase_of_ne hne).2 (hs hx)
  have := h1.length_le_of_subset hsub
  rw [List.length_erase_of_mem hu] at this
  have : 0 < l₂.length := List.length_pos_of_mem hu
  omega

/-- **Stuck lemma.** `U` has no duplicates and every node of `U` has a predecessor in `U`.
Then `U` is closed under `nxt`, `nxt` is injective on `U`, and a node of `U` that is at least
as large as every node of `U` lies on a cycle all of whose nodes are in `U`: `isCut` marks it. -/
theorem stuck (g : List (Nat × Nat)) (U : List Nat) (hU : U.Nodup)
    (hpred : ∀ x ∈ U, ∃ y ∈ U, nxt g y = some x) :
    (∀ y ∈ U, ∃ x ∈ U, nxt g y = some x) ∧
    (∀ y1 ∈ U, ∀ y2 ∈ U, nxt g y1 = nxt g y2 → y1 = y2) ∧
    (∀ s ∈ U, (∀ x ∈ U, x ≤ s) → isCut g s = true) := by
  -- choose predecessors
  let π : Nat → Nat := fun x => if h : x ∈ U then Classical.choose (hpred x h) else 0
  have hπ : ∀ x, x ∈ U → π x ∈ U ∧ nxt g (π x) = some x := by
    intro x hx
    have := Classical.choose_spec (hpred x hx)
    simp only [π, hx, dif_pos]
    exact this
  have hinj : ∀ a ∈ U, ∀ b ∈ U, π a = π b → a = b := by
    intro a ha b hb e
    have h1 := (hπ a ha).2
    have h2 := (hπ b hb).2
    rw [e, h2] at h1
    simpa using h1.symm
  have himgN : (U.map π).Nodup := nodup_map_of_inj_on π U hU hinj
  have himgS : U.map π ⊆ U := by
    intro y hy
    obtain ⟨x, hx, rfl⟩ := List.mem_map.1 hy
    exact (hπ x hx).1
  have hsurj : U ⊆ U.map π :=
    subset_of_nodup_length_ge (U.map π) U himgN hU himgS (by simp)
  have hclosed : ∀ y ∈ U, ∃ x ∈ U, nxt g y = some x := by
    intro y hy
    obtain ⟨x, hx, rfl⟩ := List.mem_map.1 (hsurj hy)
    exact ⟨x, hx, (hπ x hx).2⟩
  have hinjN : ∀ y1 ∈ U, ∀ y2 ∈ U, nxt g y1 = nxt g y2 → y1 = y2 := by
    intro y1 h1 y2 h2 e
    obtain ⟨x1, hx1, rfl⟩ := List.mem_map.1 (hsurj h1)
    obtain ⟨x2, hx2, rfl⟩ := List.mem_map.1 (hsurj h2)
    rw [(hπ x1 hx1).2, (hπ x2 hx2).2] at e
    simp only [Option.some.injEq] at e
    rw [e]
  refine ⟨hclosed, hinjN, ?_⟩
  intro s hs hmax
  -- the forward walk from `s`
  let succ : Nat → Nat := fun y => (nxt g y).getD 0
  let f : Nat → Nat := fun k => Nat.rec s (fun _ acc => succ acc) k
  have hf0 : f 0 = s := rfl
  have hfs : ∀ k, f (k + 1) = succ (f k) := fun k => rfl
  have hfU : ∀ k, f k ∈ U := by
    intro k
    induction k with
    | zero => exact hs
    | succ k ih =>
      obtain ⟨x, hx, e⟩ := hclosed (f k) ih
      rw [hfs]
      simp only [succ, e, Option.getD_some]
      exact hx
  have hstep : ∀ k, nxt g (f k) = some (f (k + 1)) := by
    intro k
    obtain ⟨x, hx, e⟩ := hclosed (f k) (hfU k)
    rw [hfs]
    simp only [succ, e, Option.getD_some]
  obtain ⟨i, j, hij, hj, he⟩ := pigeon U f (U.length + 1) (by omega) (fun m _ => hfU m)
  -- move the repetition back to the start
  have hback : ∀ d, d ≤ i → f (i - d) = f (j - d) := by
    intro d
    induction d with
    | zero => intro _; simpa using he
    | succ d ih =>
      intro hd
      have h1 := ih (by omega)
      have e1 : nxt g (f (i - (d + 1))) = some (f (i - d)) := by
        have := hstep (i - (d + 1))
        have e : i - (d + 1) + 1 = i - d := by omega
        rw [e] at this; exact this
      have e2 : nxt g (f (j - (d + 1))) = some (f (j - d)) := by
        have := hstep (j - (d + 1))
        have e : j - (d + 1) + 1 = j - d := by omega
        rw [e] at this; exact this
      exact hinjN _ (hfU _) _ (hfU _) (by rw [e1, e2, h1])
  have hret : f 0 = f (j - i) := by
    have := hback i (Nat.le_refl i)
    simpa using this
  have hkeys : U.length ≤ g.length := by
    have hsub : U ⊆ g.map Prod.fst := by
      intro y hy
      obtain ⟨x, _, e⟩ := hclosed y hy
      exact nxt_mem_keys g y x e
    have := hU.length_le_of_subset hsub
    simpa using this
  have := cycle_cut_at g f 0 (j - i) (by omega) (by omega) (fun k _ _ => hstep k) hret 0
    (Nat.le_refl 0) (by omega) (fun k _ _ => by rw [hf0]; exact hmax _ (hfU k))
  rw [hf0] at this
  exact this

end C17
