import TexcraftModel.Model.C15
import TexcraftModel.Lemmas.C15

/-! C15: under TeX's size discipline (`Small`) no intermediate value of `pack` leaves `i32`. -/
namespace C15

theorem iabs_bounds (x : Int) : -iabs x ≤ x ∧ x ≤ iabs x ∧ 0 ≤ iabs x := by
  unfold iabs; split <;> omega

/-- Sum of absolute natural widths. -/
def SW (l : List Item) : Int := sum (l.map fun i => iabs i.natWidth)
def SS (l : List Item) : Int := sum (l.map Item.absStretch)
def SK (l : List Item) : Int := sum (l.map Item.absShrink)

theorem absStretch_nonneg (i : Item) : 0 ≤ i.absStretch := by
  cases i with
  | glue g => exact (iabs_bounds g.stretch).2.2
  | _ => simp [Item.absStretch]

theorem absShrink_nonneg (i : Item) : 0 ≤ i.absShrink := by
  cases i with
  | glue g => exact (iabs_bounds g.shrink).2.2
  | _ => simp [Item.absShrink]

theorem stretchAt_bounds (i : Item) (o : Order) :
    -i.absStretch ≤ i.stretchAt o ∧ i.stretchAt o ≤ i.absStretch := by
  cases i with
  | glue g =>
    simp only [Item.stretchAt, Item.absStretch]
    have := iabs_bounds g.stretch
    split <;> omega
  | _ => simp [Item.stretchAt, Item.absStretch]

theorem shrinkAt_bounds (i : Item) (o : Order) :
    -i.absShrink ≤ i.shrinkAt o ∧ i.shrinkAt o ≤ i.absShrink := by
  cases i with
  | glue g =>
    simp only [Item.shrinkAt, Item.absShrink]
    have := iabs_bounds g.shrink
    split <;> omega
  | _ => simp [Item.shrinkAt, Item.absShrink]

theorem SW_nonneg (l : List Item) : 0 ≤ SW l := by
  induction l with
  | nil => simp [SW, sum]
  | cons i l ih =>
    have := (iabs_bounds i.natWidth).2.2
    simp only [SW, List.map, sum] at *; omega

theorem SS_nonneg (l : List Item) : 0 ≤ SS l := by
  induction l with
  | nil => simp [SS, sum]
  | cons i l ih =>
    have := absStretch_nonneg i
    simp only [SS, List.map, sum] at *; omega

theorem SK_nonneg (l : List Item) : 0 ≤ SK l := by
  induction l with
  | nil => simp [SK, sum]
  | cons i l ih =>
    have := absShrink_nonneg i
    simp only [SK, List.map, sum] at *; omega

theorem i32_of_abs_le {x : Int} (h1 : -2147483646 ≤ x) (h2 : x ≤ 2147483646) : i32 x = true := by
  simp only [i32, decide_eq_true_eq]; omega

theorem Totals.ok_of_get (t : Totals) (h : ∀ o, -maxDimen ≤ t.get o ∧ t.get o ≤ maxDimen) :
    t.ok = true := by
  have h0 := h .normal; have h1 := h .fil; have h2 := h .fill; have h3 := h .filll
  simp only [Totals.get, maxDimen] at h0 h1 h2 h3
  simp only [Totals.ok, Bool.and_eq_true]
  exact ⟨⟨⟨i32_of_abs_le (by omega) (by omega), i32_of_abs_le (by omega) (by omega)⟩,
    i32_of_abs_le (by omega) (by omega)⟩, i32_of_abs_le (by omega) (by omega)⟩

/-- The loop stays inside `i32` when the accumulators leave room for what is still to come. -/
theorem loopRange_of_bounds (l : List Item) : ∀ a : Acc,
    l.all Item.whdOk = true →
    (-(maxDimen - SW l) ≤ a.natW ∧ a.natW ≤ maxDimen - SW l) →
    (∀ o, -(maxDimen - SS l) ≤ a.st.get o ∧ a.st.get o ≤ maxDimen - SS l) →
    (∀ o, -(maxDimen - SK l) ≤ a.sh.get o ∧ a.sh.get o ≤ maxDimen - SK l) →
    loopRange a l = true := by
  induction l with
  | nil => intros; rfl
  | cons i l ih =>
    intro a hall hw hs hk
    have hall' : i.whdOk = true ∧ l.all Item.whdOk = true := by
      simpa [List.all_cons, Bool.and_eq_true] using hall
    have hW : SW (i :: l) = iabs i.natWidth + SW l := by simp [SW, sum]
    have hS : SS (i :: l) = i.absStretch + SS l := by simp [SS, sum]
    have hK : SK (i :: l) = i.absShrink + SK l := by simp [SK, sum]
    rw [hW] at hw; rw [hS] at hs; rw [hK] at hk
    have bw := iabs_bounds i.natWidth
    have nW := SW_nonneg l; have nS := SS_nonneg l; have nK := SK_nonneg l
    have e1 := step_natW a i
    have w' : -(maxDimen - SW l) ≤ (step a i).natW ∧ (step a i).natW ≤ maxDimen - SW l := by
      rw [e1]; omega
    have s' : ∀ o, -(maxDimen - SS l) ≤ (step a i).st.get o ∧ (step a i).st.get o ≤ maxDimen - SS l := by
      intro o; rw [step_st]; have := stretchAt_bounds i o; have := hs o; omega
    have k' : ∀ o, -(maxDimen - SK l) ≤ (step a i).sh.get o ∧ (step a i).sh.get o ≤ maxDimen - SK l := by
      intro o; rw [step_sh]; have := shrinkAt_bounds i o; have := hk o; omega
    simp only [loopRange, Bool.and_eq_true]
    refine ⟨⟨⟨⟨hall'.1, ?_⟩, ?_⟩, ?_⟩, ih _ hall'.2 w' s' k'⟩
    · apply i32_of_abs_le <;> simp only [maxDimen] at w' nW <;> omega
    · apply Totals.ok_of_get; intro o; have := s' o; omega
    · apply Totals.ok_of_get; intro o; have := k' o; omega

theorem natWidth_bounds (l : List Item) : -SW l ≤ natWidth l ∧ natWidth l ≤ SW l := by
  induction l with
  | nil => simp [SW, natWidth, sum]
  | cons i l ih =>
    have := iabs_bounds i.natWidth
    simp only [SW, natWidth, List.map, sum] at *; omega

end C15
