import TexcraftModel.Lemmas.C02
import TexcraftModel.Lemmas.C02Kmp

/-! C02: the whole call (`Macro::call`) against `specExpand`. -/
namespace C02

def delimOf : Param → List Tok
  | .undelim => []
  | .delim m => m.sub

/-- A parameter as `\def` builds it. -/
def ParamOK : Param → Prop
  | .undelim => True
  | .delim m => MatcherOK m ∧ DelimWF m.sub

theorem parseArgs_spec : ∀ (ps : List Param) (i : Nat) (inp : List Tok) (args : List (List Tok))
    (rest : List Tok), (∀ p ∈ ps, ParamOK p) →
    specBind (ps.map delimOf) inp = some (args, rest) →
    parseArgs shouldTrim i ps inp = .ok (args, rest) := by
  intro ps
  induction ps with
  | nil => intro i inp args rest _ h; simp [specBind] at h; simp [parseArgs, h]
  | cons p ps ih =>
    intro i inp args rest hok h
    have hp := hok p (by simp)
    have hps : ∀ q ∈ ps, ParamOK q := fun q hq => hok q (by simp [hq])
    simp only [List.map_cons, specBind] at h
    cases p with
    | undelim =>
      simp only [delimOf, if_true] at h
      cases hr : specUndelim inp with
      | none => simp [hr] at h
      | some r =>
        obtain ⟨a, rest1⟩ := r
        simp only [hr] at h
        cases hb : specBind (ps.map delimOf) rest1 with
        | none => simp [hb] at h
        | some r2 =>
          obtain ⟨as, rest'⟩ := r2
          simp only [hb] at h
          simp at h; obtain ⟨rfl, rfl⟩ := h
          simp only [parseArgs, specUndelim_parse (i + 1) hr, ih (i + 1) rest1 as rest' hps hb]
    | delim m =>
      have hne : m.sub ≠ [] := hp.2.ne
      simp only [delimOf, hne, if_false] at h
      cases hr : specDelim m.sub inp with
      | none => simp [hr] at h
      | some r =>
        obtain ⟨a, rest1⟩ := r
        simp only [hr, Option.map_some] at h
        cases hb : specBind (ps.map delimOf) rest1 with
        | none => simp [hb] at h
        | some r2 =>
          obtain ⟨as, rest'⟩ := r2
          simp only [hb] at h
          simp at h; obtain ⟨rfl, rfl⟩ := h
          simp only [parseArgs, specDelim_parse m hp.1 hp.2 (i + 1) hr, ih (i + 1) rest1 as rest' hps hb]

/-! ## Replacement -/

/-- The expansion of a piece list whose literal pieces are in reading order. -/
def flat (args : List (List Tok)) : List Repl → Option (List Tok)
  | [] => some []
  | .toks ts :: rs => (flat args rs).map (ts ++ ·)
  | .par i :: rs =>
    match args[i]?, flat args rs with
    | some a, some r => some (a ++ r)
    | _, _ => none

theorem performReplacement_flat (args : List (List Tok)) (rs : List Repl) :
    performReplacement args (rs.map reverseToks) = (flat args rs).map List.reverse := by
  induction rs with
  | nil => simp [performReplacement, flat]
  | cons r rs ih =>
    cases r with
    | toks ts =>
      simp only [List.map_cons, reverseToks, performReplacement, ih, flat]
      cases flat args rs <;> simp
    | par i =>
      simp only [List.map_cons, reverseToks, performReplacement, ih, flat]
      cases flat args rs <;> cases args[i]? <;> simp

theorem flat_append (args : List (List Tok)) (r1 r2 : List Repl) :
    flat args (r1 ++ r2) = (flat args r1).bind fun a => (flat args r2).map (a ++ ·) := by
  induction r1 with
  | nil => simp [flat]
  | cons r rs ih =>
    cases r with
    | toks ts =>
      simp only [List.cons_append, flat, ih]
      cases flat args rs <;> cases flat args r2 <;> simp
    | par i =>
      simp only [List.cons_append, flat, ih]
      cases flat args rs <;> cases flat args r2 <;> cases args[i]? <;> simp

theorem flat_pushRepl (args : List (List Tok)) (rs : List Repl) (t : Tok) :
    flat args (pushRepl rs t) = (flat args rs).map (· ++ [t]) := by
  rcases List.eq_nil_or_concat rs with rfl | ⟨init, last, rfl⟩
  · simp [pushRepl, flat]
  · simp only [List.concat_eq_append]
    cases last with
    | toks ts =>
      have : pushRepl (init ++ [.toks ts]) t = init ++ [.toks (ts ++ [t])] := by simp [pushRepl]
      rw [this, flat_append, flat_append]
      cases flat args init <;> simp [flat]
    | par i =>
      have : pushRepl (init ++ [.par i]) t = (init ++ [.par i]) ++ [.toks [t]] := by simp [pushRepl]
      rw [this, flat_append]
      cases flat args (init ++ [.par i]) <;> simp [flat]

/-- `parse_replacement_text` on a replacement text, as a function of its items. -/
def compileBody : List Repl → List Item → List Repl
  | rs, [] => rs
  | rs, .lit t :: is => compileBody (pushRepl rs t) is
  | rs, .hash :: is => compileBody (pushRepl rs .param) is
  | rs, .arg i :: is => compileBody (rs ++ [.par i]) is

theorem flat_compileBody (args : List (List Tok)) (body : List Item) : ∀ rs : List Repl,
    flat args (compileBody rs body) =
      (flat args rs).bind fun a => (specSubst args body).map (a ++ ·) := by
  induction body with
  | nil => intro rs; simp [compileBody, specSubst]
  | cons it is ih =>
    intro rs
    cases it with
    | lit t =>
      simp only [compileBody, ih, flat_pushRepl, specSubst]
      cases flat args rs <;> cases specSubst args is <;> simp
    | hash =>
      simp only [compileBody, ih, flat_pushRepl, specSubst]
      cases flat args rs <;> cases specSubst args is <;> simp
    | arg i =>
      simp only [compileBody, ih, flat_append, flat, specSubst]
      cases flat args rs <;> cases specSubst args is <;> cases args[i]? <;> simp

/-! ## The macro `\def` builds from a user-level description -/

theorem mkParams_ok : ∀ (ds : List (List Tok)), (∀ d ∈ ds, d = [] ∨ DelimWF d) →
    ∃ ps, mkParams ds = some ps ∧ ps.map delimOf = ds ∧ ∀ p ∈ ps, ParamOK p := by
  intro ds
  induction ds with
  | nil => intro _; exact ⟨[], rfl, rfl, by simp⟩
  | cons d ds ih =>
    intro h
    obtain ⟨ps, hps, hmap, hok⟩ := ih (fun x hx => h x (by simp [hx]))
    rcases h d (by simp) with rfl | hwf
    · exact ⟨.undelim :: ps, by simp [mkParams, mkParam, hps], by simp [delimOf, hmap],
        by intro p hp; simp at hp; rcases hp with rfl | hp; trivial; exact hok p hp⟩
    · obtain ⟨pf, hpf, hmok⟩ := kmp_correct d hwf.ne
      have hmk : mkParam d = some (.delim ⟨d, pf⟩) := by
        cases d with
        | nil => exact absurd rfl hwf.ne
        | cons x xs => simp [mkParam, hpf]
      exact ⟨.delim ⟨d, pf⟩ :: ps, by simp [mkParams, hmk, hps], by simp [delimOf, hmap],
        by intro p hp; simp at hp; rcases hp with rfl | hp; exact ⟨hmok, hwf⟩; exact hok p hp⟩

/-- Tokens that may appear in a prefix or delimiter. -/
def Plain (t : Tok) : Prop := t ≠ .bg ∧ t ≠ .eg ∧ t ≠ .param

/-- The literal tokens of a replacement text. -/
def bodyToks : List Item → List Tok
  | [] => []
  | .lit t :: is => t :: bodyToks is
  | _ :: is => bodyToks is

/-- A parameter text and replacement text that `\def` accepts (the quantifier of C02). -/
structure SMValid (s : SpecMacro) : Prop where
  pre : ∀ t ∈ s.pre, Plain t
  delims : ∀ d ∈ s.delims, ∀ t ∈ d, Plain t
  nparams : s.delims.length ≤ 9
  args : ∀ i, Item.arg i ∈ s.body → i < s.delims.length
  lits : ∀ t, Item.lit t ∈ s.body → t ≠ .param
  body : runDepth 0 (bodyToks s.body) = some 0

def compileRepl (s : SpecMacro) : List Repl :=
  if s.hashBrace then pushRepl (compileBody [] s.body) .bg else compileBody [] s.body

/-- The macro `parse_and_set_macro` stores for `s` (`none` = `Matcher::new` panicked). -/
def compile (s : SpecMacro) : Option Macro :=
  match mkParams s.effDelims with
  | none => none
  | some ps => some ⟨s.effPre, ps, (compileRepl s).map reverseToks⟩

theorem effDelims_wf {s : SpecMacro} (h : SMValid s) : ∀ d ∈ s.effDelims, d = [] ∨ DelimWF d := by
  have plainWF : ∀ d : List Tok, (∀ t ∈ d, Plain t) → d = [] ∨ DelimWF d := by
    intro d hd
    by_cases hne : d = []
    · exact Or.inl hne
    · exact Or.inr ⟨hne, d, fun t ht => ⟨(hd t ht).1, (hd t ht).2.1⟩, Or.inl rfl⟩
  intro d hd
  unfold SpecMacro.effDelims at hd
  by_cases hb : s.hashBrace = true
  · simp only [hb, if_true] at hd
    rcases List.eq_nil_or_concat s.delims with hnil | ⟨init, last, hcat⟩
    · simp [hnil] at hd
    · simp only [List.concat_eq_append] at hcat
      simp only [hcat, List.getLast?_append, List.getLast?_singleton, Option.some_or,
        List.dropLast_concat, List.mem_append, List.mem_singleton] at hd
      rcases hd with hd | rfl
      · exact plainWF d (h.delims d (by simp [hcat, hd]))
      · have hl := h.delims last (by simp [hcat])
        exact Or.inr ⟨by simp, last, fun t ht => ⟨(hl t ht).1, (hl t ht).2.1⟩, Or.inr rfl⟩
  · simp only [hb] at hd
    exact plainWF d (h.delims d (by simpa using hd))

theorem compile_some {s : SpecMacro} (h : SMValid s) : ∃ m, compile s = some m := by
  obtain ⟨ps, hps, _, _⟩ := mkParams_ok s.effDelims (effDelims_wf h)
  exact ⟨⟨s.effPre, ps, (compileRepl s).map reverseToks⟩, by simp [compile, hps]⟩

theorem removePrefix_append (p x : List Tok) : removePrefix p (p ++ x) = .ok x := by
  induction p with
  | nil => cases x <;> simp [removePrefix]
  | cons t ts ih => simp [removePrefix, ih]

theorem flat_compileRepl (s : SpecMacro) (args : List (List Tok)) :
    flat args (compileRepl s) =
      (specSubst args s.body).map (· ++ (if s.hashBrace then [.bg] else [])) := by
  unfold compileRepl
  by_cases hb : s.hashBrace = true
  · simp only [hb, if_true, flat_pushRepl, flat_compileBody, flat]
    cases specSubst args s.body <;> simp
  · have hb' : s.hashBrace = false := by simpa using hb
    simp only [hb', Bool.false_eq_true, if_false, flat_compileBody, flat]
    cases specSubst args s.body <;> simp

/-- The call of the compiled macro delivers what TeX delivers, whenever the call matches. -/
theorem call_compile {s : SpecMacro} (h : SMValid s) {m : Macro} (hm : compile s = some m)
    {inp out : List Tok} (hs : specExpand s inp = some out) : call m inp = .ok out := by
  obtain ⟨ps, hps, hmap, hok⟩ := mkParams_ok s.effDelims (effDelims_wf h)
  simp only [compile, hps] at hm
  cases hm
  unfold specExpand at hs
  cases hpre : s.effPre.isPrefixOf inp with
  | false => simp [hpre] at hs
  | true =>
    simp only [hpre] at hs
    obtain ⟨x, rfl⟩ := List.isPrefixOf_iff_prefix.mp hpre
    simp only [List.drop_left] at hs
    cases hb : specBind s.effDelims x with
    | none => simp [hb] at hs
    | some r =>
      obtain ⟨args, rest⟩ := r
      simp only [hb] at hs
      cases hsub : specSubst args s.body with
      | none => simp [hsub] at hs
      | some e =>
        simp only [hsub] at hs
        cases hs
        have hpa := parseArgs_spec ps 0 x args rest hok (by rw [hmap]; exact hb)
        simp only [call, callWith, removePrefix_append, hpa, performReplacement_flat,
          flat_compileRepl, hsub]
        simp

end C02
