import TexcraftModel.Lemmas.C04AlgoDefs

/-!
C04 — `demBound_sound`: if the conservative bound `demBound x` (end of `Model/C04Algo.lean`)
is below `AWFUL_BAD`, every feasible sequence of lines from the start of the paragraph has
total demerits below `AWFUL_BAD` (`PrefixBounded x`).

Shape of the proof: (1) badness is never negative, so a feasible line has `0 ≤ bad ≤ threshold`;
(2) one line costs at most `bnd_perLine x` (TeX.2021.859 term by term); (3) a run of `k` lines
passes `k` distinct legal breakpoints, so `k ≤ (legalBreaks x).length`. Helper names carry the
prefix `bnd_`. Core Lean only.
-/
namespace C04

/-! ### `demBound` in named pieces -/

def bnd_capTol (x : Inst) : Int := if x.p.tolerance < 10001 then x.p.tolerance else 10001
def bnd_d0 (x : Inst) : Int := iabs x.p.linePenalty + (if bnd_capTol x < 0 then 0 else bnd_capTol x)
def bnd_dcap (x : Inst) : Int := if 10000 ≤ bnd_d0 x then 10000 else bnd_d0 x
def bnd_maxPenF (x : Inst) (m : Int) (b : Nat) : Int :=
  match breakInfo x b with
  | some (p, _) => if -10000 < p ∧ m < iabs p then iabs p else m
  | none => m
def bnd_maxPen (x : Inst) : Int := (legalBreaks x).foldl (bnd_maxPenF x) 0
def bnd_perLine (x : Inst) : Int :=
  bnd_dcap x * bnd_dcap x + bnd_maxPen x * bnd_maxPen x + iabs x.p.finalHyphenDemerits
    + iabs x.p.doubleHyphenDemerits + iabs x.p.adjDemerits

theorem bnd_demBound_eq (x : Inst) :
    demBound x = ((legalBreaks x).length : Int) * bnd_perLine x + iabs x.p.adjDemerits := rfl

theorem bnd_iabs_nonneg (a : Int) : 0 ≤ iabs a := by unfold iabs; split <;> omega

theorem bnd_cube_nonneg (r : Int) (hr : 0 ≤ r) :
    0 ≤ (if 1290 < r then 10000 else (r * r * r + 131072) / 262144) := by
  split
  · omega
  · apply Int.ediv_nonneg
    · have := Int.mul_nonneg (Int.mul_nonneg hr hr) hr
      omega
    · omega

theorem bnd_badness_nonneg (t s : Int) (ht : 0 ≤ t) : 0 ≤ badness t s := by
  unfold badness
  split
  · omega
  · split
    · omega
    · rename_i h1 h2
      apply bnd_cube_nonneg
      split
      · exact Int.ediv_nonneg (Int.mul_nonneg ht (by omega)) (by omega)
      · split
        · exact Int.ediv_nonneg ht (Int.ediv_nonneg (by omega) (by omega))
        · exact ht

theorem bnd_rate_nonneg (t : Totals) (w : Int) : 0 ≤ (rate t w).1 := by
  unfold rate
  simp only
  split
  · split
    · simp
    · exact bnd_badness_nonneg _ _ (by omega)
  · split
    · simp
    · exact bnd_badness_nonneg _ _ (by omega)

theorem bnd_lineEval_bad {x : Inst} {a : Option Nat} {L b : Nat} {bad : Int} {fit : Fit}
    (h : lineEval x a L b = some (bad, fit)) : 0 ≤ bad ∧ bad ≤ threshold x.p := by
  unfold lineEval at h
  split at h
  · cases h
  · split at h
    · have hnn := bnd_rate_nonneg (lineTotals x a b) (lineWidth x.p.widths L)
      simp only at h
      generalize rate (lineTotals x a b) (lineWidth x.p.widths L) = r at h hnn
      split at h
      · rename_i hle
        cases h
        exact ⟨hnn, hle⟩
      · cases h
    · cases h

theorem bnd_mem_legal {x : Inst} {b : Nat} (hb : b ≤ x.n) (hl : (breakInfo x b).isSome) :
    b ∈ legalBreaks x := by
  unfold legalBreaks
  simp only [List.mem_filter, List.mem_range]
  exact ⟨by omega, hl⟩

/-! ### the fold for `maxPen` -/

theorem bnd_maxPenF_ge (x : Inst) (m : Int) (b : Nat) : m ≤ bnd_maxPenF x m b := by
  unfold bnd_maxPenF
  split
  · split
    · omega
    · omega
  · omega

theorem bnd_fold_ge (x : Inst) (l : List Nat) (m : Int) : m ≤ l.foldl (bnd_maxPenF x) m := by
  induction l generalizing m with
  | nil => simp
  | cons a t ih =>
    simp only [List.foldl_cons]
    exact Int.le_trans (bnd_maxPenF_ge x m a) (ih _)

theorem bnd_fold_mem (x : Inst) (l : List Nat) (m : Int) (b : Nat) (p : Int) (hy : Bool)
    (hb : b ∈ l) (hbi : breakInfo x b = some (p, hy)) (hp : -10000 < p) :
    iabs p ≤ l.foldl (bnd_maxPenF x) m := by
  induction l generalizing m with
  | nil => simp at hb
  | cons a t ih =>
    simp only [List.foldl_cons]
    rcases List.mem_cons.mp hb with rfl | hb
    · refine Int.le_trans ?_ (bnd_fold_ge x t _)
      unfold bnd_maxPenF
      rw [hbi]
      simp only
      split
      · omega
      · omega
    · exact ih _ hb

theorem bnd_maxPen_ge (x : Inst) (b : Nat) (p : Int) (hy : Bool)
    (hb : b ∈ legalBreaks x) (hbi : breakInfo x b = some (p, hy)) (hp : -10000 < p) :
    iabs p ≤ bnd_maxPen x :=
  bnd_fold_mem x _ 0 b p hy hb hbi hp

theorem bnd_maxPen_nonneg (x : Inst) : 0 ≤ bnd_maxPen x := bnd_fold_ge x _ 0

/-! ### one line -/

theorem bnd_sq_le (a c : Int) (h1 : -c ≤ a) (h2 : a ≤ c) : a * a ≤ c * c := by
  by_cases ha : 0 ≤ a
  · exact Int.mul_le_mul h2 h2 ha (by omega)
  · have h3 : -a ≤ c := by omega
    have := Int.mul_le_mul h3 h3 (by omega) (by omega)
    rwa [Int.neg_mul_neg] at this

theorem bnd_sq_nonneg (a : Int) : 0 ≤ a * a := by
  by_cases ha : 0 ≤ a
  · exact Int.mul_nonneg ha ha
  · have := Int.mul_nonneg (a := -a) (b := -a) (by omega) (by omega)
    rwa [Int.neg_mul_neg] at this

theorem bnd_iabs_le (a : Int) : a ≤ iabs a ∧ -a ≤ iabs a := by unfold iabs; split <;> omega

theorem bnd_threshold_le (x : Inst) : threshold x.p ≤ 10000 ∧ threshold x.p ≤ bnd_capTol x := by
  unfold threshold bnd_capTol
  split <;> split <;> omega

theorem bnd_d1 (x : Inst) (bad : Int) (h0 : 0 ≤ bad) (h1 : bad ≤ threshold x.p) :
    -bnd_dcap x ≤ (if 10000 ≤ x.p.linePenalty + bad ∨ x.p.linePenalty + bad ≤ -10000 then 10000
        else x.p.linePenalty + bad) ∧
    (if 10000 ≤ x.p.linePenalty + bad ∨ x.p.linePenalty + bad ≤ -10000 then 10000
        else x.p.linePenalty + bad) ≤ bnd_dcap x := by
  have ht := bnd_threshold_le x
  have hl := bnd_iabs_le x.p.linePenalty
  have hd0 : iabs x.p.linePenalty + bad ≤ bnd_d0 x := by
    unfold bnd_d0; split <;> omega
  unfold bnd_dcap
  split <;> split <;> omega

theorem bnd_pen_term (d2 pen M : Int) (hM : 0 < pen → pen * pen ≤ M) (hM0 : 0 ≤ M) :
    (if 0 < pen then d2 + pen * pen else if -10000 < pen then d2 - pen * pen else d2) ≤ d2 + M := by
  have hp := bnd_sq_nonneg pen
  split
  · rename_i h; have := hM h; omega
  · split <;> omega

theorem bnd_tail (d3 fin dbl adj : Int) (c1 c2 c3 : Prop) [Decidable c1] [Decidable c2] [Decidable c3] :
    (if c3 then (if c1 then d3 + fin else if c2 then d3 + dbl else d3) + adj
      else (if c1 then d3 + fin else if c2 then d3 + dbl else d3))
      ≤ d3 + iabs fin + iabs dbl + iabs adj := by
  have h1 := bnd_iabs_le fin
  have h2 := bnd_iabs_le dbl
  have h3 := bnd_iabs_le adj
  have h4 := bnd_iabs_nonneg fin
  have h5 := bnd_iabs_nonneg dbl
  have h6 := bnd_iabs_nonneg adj
  split <;> split <;> (try split) <;> omega

/-- `demerits` as a function of the numbers it reads (TeX.2021.859). -/
def bnd_demF (lp bad pen fin dbl adj : Int) (c1 c2 c3 : Prop)
    [Decidable c1] [Decidable c2] [Decidable c3] : Int :=
  let d0 := lp + bad
  let d1 := if 10000 ≤ d0 ∨ d0 ≤ -10000 then 10000 else d0
  let d2 := d1 * d1
  let d3 := if 0 < pen then d2 + pen * pen else if -10000 < pen then d2 - pen * pen else d2
  let d4 := if c1 then d3 + fin else if c2 then d3 + dbl else d3
  if c3 then d4 + adj else d4

theorem bnd_demerits_eq (x : Inst) (a : Option Nat) (pf : Fit) (b : Nat) (bad : Int) (fit : Fit) :
    demerits x a pf b bad fit =
      bnd_demF x.p.linePenalty bad (match breakInfo x b with | some (p, _) => p | none => 0)
        x.p.finalHyphenDemerits x.p.doubleHyphenDemerits x.p.adjDemerits
        (hyphAt x a ∧ b = x.n)
        (hyphAt x a ∧ (match breakInfo x b with | some (_, h) => h | none => false) = true)
        (pf.farFrom fit) := rfl

theorem bnd_demF_le (lp bad pen fin dbl adj dcap M : Int) (c1 c2 c3 : Prop)
    [Decidable c1] [Decidable c2] [Decidable c3]
    (hd1 : -dcap ≤ (if 10000 ≤ lp + bad ∨ lp + bad ≤ -10000 then 10000 else lp + bad) ∧
      (if 10000 ≤ lp + bad ∨ lp + bad ≤ -10000 then 10000 else lp + bad) ≤ dcap)
    (hM : 0 < pen → pen * pen ≤ M) (hM0 : 0 ≤ M) :
    bnd_demF lp bad pen fin dbl adj c1 c2 c3
      ≤ dcap * dcap + M + iabs fin + iabs dbl + iabs adj := by
  unfold bnd_demF
  simp only []
  generalize (if 10000 ≤ lp + bad ∨ lp + bad ≤ -10000 then 10000 else lp + bad) = d1 at hd1 ⊢
  have hd2 : d1 * d1 ≤ dcap * dcap := bnd_sq_le _ _ hd1.1 hd1.2
  have hd3 := bnd_pen_term (d1 * d1) pen M hM hM0
  refine Int.le_trans (bnd_tail _ fin dbl adj c1 c2 c3) ?_
  omega

theorem bnd_demerits_le (x : Inst) (a : Option Nat) (pf : Fit) (b : Nat) (bad : Int) (fit : Fit)
    (h0 : 0 ≤ bad) (h1 : bad ≤ threshold x.p) (hb : b ∈ legalBreaks x) :
    demerits x a pf b bad fit ≤ bnd_perLine x := by
  rw [bnd_demerits_eq]
  unfold bnd_perLine
  apply bnd_demF_le
  · exact bnd_d1 x bad h0 h1
  · cases hbi : breakInfo x b with
    | none => simp
    | some q =>
      obtain ⟨p, hy⟩ := q
      simp only
      intro hp
      have h := bnd_maxPen_ge x b p hy hb hbi (by omega)
      have h2 := bnd_iabs_le p
      exact bnd_sq_le _ _ (by omega) (by omega)
  · exact bnd_sq_nonneg _

theorem bnd_perLine_nonneg (x : Inst) : 0 ≤ bnd_perLine x := by
  unfold bnd_perLine
  have h1 := bnd_sq_nonneg (bnd_dcap x)
  have h2 := bnd_sq_nonneg (bnd_maxPen x)
  have h4 := bnd_iabs_nonneg x.p.finalHyphenDemerits
  have h5 := bnd_iabs_nonneg x.p.doubleHyphenDemerits
  have h6 := bnd_iabs_nonneg x.p.adjDemerits
  omega

/-! ### counting the lines -/

/-- Number of legal breakpoints below `k`. -/
def bnd_cnt (x : Inst) (k : Nat) : Nat :=
  ((List.range k).filter fun b => (breakInfo x b).isSome).length

theorem bnd_cnt_legal (x : Inst) : bnd_cnt x (x.n + 1) = (legalBreaks x).length := rfl

theorem bnd_cnt_succ (x : Inst) (k : Nat) :
    bnd_cnt x (k + 1) = bnd_cnt x k + (if (breakInfo x k).isSome then 1 else 0) := by
  unfold bnd_cnt
  rw [List.range_succ, List.filter_append, List.length_append]
  congr 1
  simp only [List.filter_cons, List.filter_nil]
  split <;> rfl

theorem bnd_cnt_mono (x : Inst) {j k : Nat} (h : j ≤ k) : bnd_cnt x j ≤ bnd_cnt x k := by
  induction k with
  | zero => have : j = 0 := by omega
            subst this; exact Nat.le_refl _
  | succ k ih =>
    rcases Nat.lt_or_ge j (k + 1) with hlt | hge
    · have := ih (by omega)
      rw [bnd_cnt_succ]; omega
    · have : j = k + 1 := by omega
      subst this; exact Nat.le_refl _

theorem bnd_lt_posIdx {a : Option Nat} {b : Nat} (h : lt? a b = true) : posIdx a ≤ b := by
  cases a with
  | none => simp [posIdx]
  | some a0 =>
    have : a0 < b := by simpa [lt?] using h
    simp [posIdx]; omega

theorem bnd_run_cnt {x : Inst} {st st' : St} {s : List Nat} {c : Int}
    (h : run x st s = some (c, st')) :
    bnd_cnt x (posIdx st.pos) + s.length ≤ bnd_cnt x (posIdx st'.pos) := by
  induction s generalizing st c with
  | nil => simp [run] at h; rw [← h.2]; simp
  | cons a t ih =>
    simp only [run] at h
    split at h
    · cases h
    · rename_i bad fit hl
      split at h
      · cases h
      · rename_i c2 st2 hr
        cases h
        have h1 := bnd_lt_posIdx (lineEval_some hl).1
        have h2 := lineEval_break hl
        have h3 : bnd_cnt x (a + 1) + t.length ≤ bnd_cnt x (posIdx st'.pos) := ih hr
        have h4 := bnd_cnt_mono x h1
        have h5 := bnd_cnt_succ x a
        rw [if_pos h2] at h5
        simp only [List.length_cons]
        omega

theorem bnd_run_cost {x : Inst} {st st' : St} {s : List Nat} {c : Int}
    (h : run x st s = some (c, st')) : c ≤ (s.length : Int) * bnd_perLine x := by
  induction s generalizing st c with
  | nil =>
    simp [run] at h; rw [← h.1]; simp
  | cons a t ih =>
    simp only [run] at h
    split at h
    · cases h
    · rename_i bad fit hl
      split at h
      · cases h
      · rename_i c2 st2 hr
        cases h
        have hb := bnd_lineEval_bad hl
        have hm := bnd_mem_legal (lineEval_some hl).2 (lineEval_break hl)
        have hd := bnd_demerits_le x st.pos st.fit a bad fit hb.1 hb.2 hm
        have hc := ih hr
        have he : ((a :: t).length : Int) * bnd_perLine x
            = (t.length : Int) * bnd_perLine x + bnd_perLine x := by
          rw [List.length_cons, Int.natCast_add, Int.add_mul]
          simp
        rw [he]
        omega

theorem demBound_sound (x : Inst) (h : demBound x < awfulBad) : PrefixBounded x := by
  intro s c st hr
  have h1 := bnd_run_cnt hr
  have h2 := bnd_run_cost hr
  have h3 := run_pos hr (by simp [posIdx])
  have h4 := bnd_cnt_mono x h3
  rw [bnd_cnt_legal] at h4
  have h5 : (s.length : Int) ≤ ((legalBreaks x).length : Int) := by
    have : s.length ≤ (legalBreaks x).length := by omega
    exact Int.ofNat_le.mpr this
  have h6 := Int.mul_le_mul_of_nonneg_right h5 (bnd_perLine_nonneg x)
  have h7 := bnd_iabs_nonneg x.p.adjDemerits
  rw [bnd_demBound_eq] at h
  omega

end C04
