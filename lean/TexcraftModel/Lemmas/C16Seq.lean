import TexcraftModel.Lemmas.C16De

/-!
# C16 — sequences read from bytes, and what `VarRemover` preserves about them
-/
namespace C16

def StackValues.Fits (s : StackValues) : Prop :=
  fitsI32 s.w ∧ fitsI32 s.x ∧ fitsI32 s.y ∧ fitsI32 s.z

/-- Every w/x/y/z value held (current level and stack) is an `i32`: they only ever come from
`SetVar` payloads or are zero. (`h` and `v` are sums and are *not* bounded: see the trusted-base
note on `i32` overflow of positions.) -/
def Values.Fits (s : Values) : Prop := s.top.Fits ∧ ∀ t ∈ s.tail, t.Fits

theorem fits_zero : fitsI32 0 := by unfold fitsI32; omega

theorem Values.fits_init : ({} : Values).Fits := by
  refine ⟨⟨fits_zero, fits_zero, fits_zero, fits_zero⟩, ?_⟩
  intro t ht
  cases ht

theorem moveBy_fits (s : StackValues) (v : Var) (d : Int) (h : s.Fits) : (s.moveBy v d).Fits := by
  cases v <;> exact h

theorem setVar_fits (s : StackValues) (v : Var) (i : Int) (h : s.Fits) (hi : fitsI32 i) :
    (s.setVar v i).Fits := by
  obtain ⟨h1, h2, h3, h4⟩ := h
  cases v
  · exact ⟨hi, h2, h3, h4⟩
  · exact ⟨h1, hi, h3, h4⟩
  · exact ⟨h1, h2, hi, h4⟩
  · exact ⟨h1, h2, h3, hi⟩

theorem var_fits (s : StackValues) (v : Var) (h : s.Fits) : fitsI32 (s.var v) := by
  obtain ⟨h1, h2, h3, h4⟩ := h
  cases v <;> assumption

theorem update_fits (s : Values) (op : Op) (hs : s.Fits) (hwf : op.WF) : (s.update op).Fits := by
  obtain ⟨ht, hl⟩ := hs
  cases op with
  | typesetChar c m => cases m <;> exact ⟨ht, hl⟩
  | typesetRule hh w m => cases m <;> exact ⟨ht, hl⟩
  | beginPage ps p =>
    exact ⟨⟨fits_zero, fits_zero, fits_zero, fits_zero⟩, fun t ht => by cases ht⟩
  | push =>
    refine ⟨ht, ?_⟩
    intro t hmem
    change t ∈ s.top :: s.tail at hmem
    simp only [List.mem_cons] at hmem
    rcases hmem with rfl | hmem
    · exact ht
    · exact hl t hmem
  | pop =>
    cases htl : s.tail with
    | nil =>
      have : s.update .pop = s := by simp only [Values.update, htl]
      rw [this]; exact ⟨ht, hl⟩
    | cons t rest =>
      have : s.update .pop = { s with top := t, tail := rest } := by simp only [Values.update, htl]
      rw [this]
      rw [htl] at hl
      exact ⟨hl t (List.mem_cons_self), fun u hu => hl u (List.mem_cons_of_mem _ hu)⟩
  | right d => exact ⟨ht, hl⟩
  | move v => exact ⟨moveBy_fits _ _ _ ht, hl⟩
  | setVar v i => exact ⟨moveBy_fits _ _ _ (setVar_fits _ _ _ ht hwf), hl⟩
  | down d => exact ⟨ht, hl⟩
  | enableFont f => exact ⟨ht, hl⟩
  | noOp => exact ⟨ht, hl⟩
  | endPage => exact ⟨ht, hl⟩
  | extension d => exact ⟨ht, hl⟩
  | defineFont n c a d area name => exact ⟨ht, hl⟩
  | preamble f n d m c => exact ⟨ht, hl⟩
  | beginPostamble fbp n d m lh lw ms np => exact ⟨ht, hl⟩
  | endPostamble f p k => exact ⟨ht, hl⟩

theorem removeStep_fst (s : Values) (op : Op) : (removeStep s op).1 = s.update op := by
  cases op <;> rfl

theorem removeStep_wf (s : Values) (op : Op) (hs : s.Fits) (hwf : op.WF) :
    (removeStep s op).2.WF := by
  have hf := update_fits s op hs hwf
  cases op with
  | move v => cases v <;> exact var_fits _ _ hf.1
  | setVar v i => cases v <;> exact var_fits _ _ hf.1
  | _ => exact hwf

theorem varRemoveFrom_allWF (ops : List Op) (s : Values) (hs : s.Fits) (hwf : AllWF ops) :
    AllWF (varRemoveFrom s ops) := by
  induction ops generalizing s with
  | nil => intro o ho; cases ho
  | cons op ops ih =>
    have h1 := hwf op (List.mem_cons_self)
    have h2 : AllWF ops := fun o ho => hwf o (List.mem_cons_of_mem _ ho)
    intro o ho
    simp only [varRemoveFrom, List.mem_cons] at ho
    rcases ho with rfl | ho
    · exact removeStep_wf s op hs h1
    · refine ih _ ?_ h2 o ho
      rw [removeStep_fst]
      exact update_fits s op hs h1

theorem removeStep_endPostamble (s : Values) (op : Op) (f : Nat) (p : Int) (k : Nat)
    (h : (removeStep s op).2 = .endPostamble f p k) : op = .endPostamble f p k := by
  cases op with
  | move v => cases v <;> simp [removeStep] at h
  | setVar v i => cases v <;> simp [removeStep] at h
  | _ => first | (simp [removeStep] at h; done) | simpa [removeStep] using h

theorem removeStep_enableFont (s : Values) (op : Op) (u : Nat)
    (h : (removeStep s op).2 = .enableFont u) : op = .enableFont u := by
  cases op with
  | move v => cases v <;> simp [removeStep] at h
  | setVar v i => cases v <;> simp [removeStep] at h
  | _ => first | (simp [removeStep] at h; done) | simpa [removeStep] using h

theorem varRemoveFrom_post52Free (ops : List Op) (s : Values) (h : Post52Free ops) :
    Post52Free (varRemoveFrom s ops) := by
  induction ops generalizing s with
  | nil => trivial
  | cons op ops ih =>
    cases ops with
    | nil => trivial
    | cons op2 rest =>
      have ih' := ih (removeStep s op).1 h.2
      simp only [varRemoveFrom] at ih' ⊢
      refine ⟨?_, ih'⟩
      rintro ⟨h1, h2⟩
      refine h.1 ⟨?_, removeStep_enableFont _ _ _ h2⟩
      cases hr : (removeStep s op).2 with
      | endPostamble f p k => rw [removeStep_endPostamble _ _ _ _ _ hr]; rfl
      | _ => rw [hr] at h1; cases h1

/-- Operations read from a byte string are values of the Rust types. -/
theorem deAll_allWF : ∀ (fuel : Nat) (b : List Nat) (ops : List Op) (e : Option Err),
    bytesOK b → deAll fuel b = (ops, e) → AllWF ops
  | 0, b, ops, e, _, h => by
    simp only [deAll, Prod.mk.injEq] at h
    obtain ⟨rfl, _⟩ := h
    intro o ho; cases ho
  | fuel + 1, b, ops, e, hb, h => by
    simp only [deAll] at h
    split at h
    · simp only [Prod.mk.injEq] at h
      obtain ⟨rfl, _⟩ := h
      intro o ho; cases ho
    · rename_i op rest hde
      simp only [Prod.mk.injEq] at h
      obtain ⟨rfl, _⟩ := h
      obtain ⟨g1, g2, _, _⟩ := de_good hb hde
      intro o ho
      simp only [List.mem_cons] at ho
      rcases ho with rfl | ho
      · exact g1
      · exact deAll_allWF fuel rest _ _ g2 rfl o ho
    · simp only [Prod.mk.injEq] at h
      obtain ⟨rfl, _⟩ := h
      intro o ho; cases ho

/-- Without w/x/y/z operations the transform is the identity. -/
theorem varRemoveFrom_noVars (ops : List Op) (s : Values) (h : ∀ op ∈ ops, op.isVar = false) :
    varRemoveFrom s ops = ops := by
  induction ops generalizing s with
  | nil => rfl
  | cons op ops ih =>
    have h1 := h op (List.mem_cons_self)
    simp only [varRemoveFrom]
    rw [ih _ (fun o ho => h o (List.mem_cons_of_mem _ ho))]
    congr 1
    cases op <;> first | rfl | (simp [Op.isVar] at h1)

end C16
