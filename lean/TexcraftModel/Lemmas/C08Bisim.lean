import TexcraftModel.Model.C01
import TexcraftModel.Lemmas.C20GMap

/-!
# C08 — VM states whose command maps are abstractly equal behave identically

Two `C01.VMState`s that agree on every plain field and whose two command maps (`cmds`, `active`)
have the same abstraction `GMap.abs` (and satisfy `C20.Inv`) produce the same outputs under
`C01.run`, for every `Variant`. Core Lean only.
-/
namespace C08
open C20 C01

/-! ## Generic facts about two abstractly equal `GMap`s -/

section GMapFacts
variable {K V : Type} [DecidableEq K]

theorem gstep_congr (m m' : GMap K V) (habs : m.abs = m'.abs) (hi : Inv m) (hi' : Inv m')
    (op : C20.Op K V) :
    (m.step op).1.abs = (m'.step op).1.abs ∧ (m.step op).2 = (m'.step op).2 ∧
      Inv (m.step op).1 ∧ Inv (m'.step op).1 := by
  have h1 := gmap_refines m op hi
  have h2 := gmap_refines m' op hi'
  rw [habs] at h1
  exact ⟨h1.1.trans h2.1.symm, h1.2.trans h2.2.symm, gmap_inv m op hi, gmap_inv m' op hi'⟩

theorem get_congr (m m' : GMap K V) (habs : m.abs = m'.abs) (k : K) : m.get k = m'.get k :=
  congrFun (congrArg Snap.cur habs) k

theorem insert_congr (m m' : GMap K V) (habs : m.abs = m'.abs) (hi : Inv m) (hi' : Inv m')
    (k : K) (v : V) (s : Scope) :
    (m.insert k v s).1.abs = (m'.insert k v s).1.abs ∧
      Inv (m.insert k v s).1 ∧ Inv (m'.insert k v s).1 := by
  have h := gstep_congr m m' habs hi hi' (.insert k v s)
  exact ⟨h.1, h.2.2⟩

theorem beginGroup_congr (m m' : GMap K V) (habs : m.abs = m'.abs) (hi : Inv m) (hi' : Inv m') :
    m.beginGroup.abs = m'.beginGroup.abs ∧ Inv m.beginGroup ∧ Inv m'.beginGroup := by
  have h := gstep_congr m m' habs hi hi' .beginGroup
  exact ⟨h.1, h.2.2⟩

theorem endGroup_congr (m m' : GMap K V) (habs : m.abs = m'.abs) (hi : Inv m) (hi' : Inv m') :
    (m.endGroup = none ∧ m'.endGroup = none) ∨
      ∃ x x', m.endGroup = some x ∧ m'.endGroup = some x' ∧ x.abs = x'.abs ∧ Inv x ∧ Inv x' := by
  have h := gstep_congr m m' habs hi hi' .endGroup
  simp only [GMap.step] at h
  cases h1 : m.endGroup with
  | none =>
    cases h2 : m'.endGroup with
    | none => exact Or.inl ⟨rfl, rfl⟩
    | some x' =>
      rw [h1, h2] at h
      have h' : (C20.Out.errNoGroup : C20.Out V) = C20.Out.unit := h.2.1
      cases h'
  | some x =>
    cases h2 : m'.endGroup with
    | none =>
      rw [h1, h2] at h
      have h' : (C20.Out.unit : C20.Out V) = C20.Out.errNoGroup := h.2.1
      cases h'
    | some x' =>
      rw [h1, h2] at h
      exact Or.inr ⟨x, x', rfl, rfl, h.1, h.2.2.1, h.2.2.2⟩

end GMapFacts

/-! ## The equivalence on VM states -/

structure VEquiv (a b : VMState) : Prop where
  vars : a.vars = b.vars
  save : a.save = b.save
  font : a.font = b.font
  fontSave : a.fontSave = b.fontSave
  scopeBit : a.scopeBit = b.scopeBit
  cmdsAbs : a.cmds.abs = b.cmds.abs
  activeAbs : a.active.abs = b.active.abs
  invCa : Inv a.cmds
  invCb : Inv b.cmds
  invAa : Inv a.active
  invAb : Inv b.active

/-! ## Congruence of every function `C01.step` calls -/

theorem globalDefs_congr {a b : VMState} (h : VEquiv a b) : globalDefs a = globalDefs b := by
  simp only [globalDefs, h.vars]

theorem setScope_congr {a b : VMState} (h : VEquiv a b) (s : Scope) :
    VEquiv (setScope a s) (setScope b s) := by
  have hg := globalDefs_congr h
  exact ⟨h.vars, h.save, h.font, h.fontSave, by simp only [setScope, hg], h.cmdsAbs, h.activeAbs,
    h.invCa, h.invCb, h.invAa, h.invAb⟩

theorem applyPrefix_congr {a b : VMState} (h : VEquiv a b) (pre : Nat) :
    VEquiv (applyPrefix pre a) (applyPrefix pre b) := by
  unfold applyPrefix prefixGlobal
  by_cases hp : pre = 0
  · rw [if_pos hp, if_pos hp]; exact h
  · rw [if_neg hp, if_neg hp]; exact setScope_congr h _

theorem rarg_congr {a b : VMState} (h : VEquiv a b) :
    (readAndResetGlobal a).1 = (readAndResetGlobal b).1 ∧
      VEquiv (readAndResetGlobal a).2 (readAndResetGlobal b).2 := by
  have hg := globalDefs_congr h
  unfold readAndResetGlobal
  rw [hg]
  by_cases h1 : globalDefs b < 0
  · rw [if_pos h1, if_pos h1]; exact ⟨rfl, h⟩
  · rw [if_neg h1, if_neg h1]
    by_cases h2 : globalDefs b = 0
    · rw [if_pos h2, if_pos h2]
      exact ⟨h.scopeBit, ⟨h.vars, h.save, h.font, h.fontSave, rfl, h.cmdsAbs, h.activeAbs,
        h.invCa, h.invCb, h.invAa, h.invAb⟩⟩
    · rw [if_neg h2, if_neg h2]; exact ⟨rfl, h⟩

theorem setVar_congr (cfg : Variant) {a b : VMState} (h : VEquiv a b) (v : Var) (x : Val)
    (sc : Scope) : VEquiv (setVar cfg a v x sc) (setVar cfg b v x sc) := by
  obtain ⟨vars, save, cmds, active, font, fontSave, bit⟩ := a
  obtain ⟨vars', save', cmds', active', font', fontSave', bit'⟩ := b
  obtain ⟨h1, h2, h3, h4, h5, h6, h7, h8, h9, h10, h11⟩ := h
  simp only at h1 h2 h3 h4 h5 h6 h7 h8 h9 h10 h11
  subst h1 h2 h3 h4 h5
  simp only [setVar]
  cases hs : save.isEmpty with
  | true => exact ⟨rfl, rfl, rfl, rfl, rfl, h6, h7, h8, h9, h10, h11⟩
  | false =>
    simp only [Bool.false_eq_true, if_false]
    cases sc with
    | glob => exact ⟨rfl, rfl, rfl, rfl, rfl, h6, h7, h8, h9, h10, h11⟩
    | loc =>
      cases save with
      | nil => exact ⟨rfl, rfl, rfl, rfl, rfl, h6, h7, h8, h9, h10, h11⟩
      | cons g gs => exact ⟨rfl, rfl, rfl, rfl, rfl, h6, h7, h8, h9, h10, h11⟩

theorem assign_congr (cfg : Variant) {a b : VMState} (h : VEquiv a b) (pre : Nat) (v : Var)
    (x : Val) : VEquiv (assign cfg a pre v x) (assign cfg b pre v x) := by
  have hr := rarg_congr (applyPrefix_congr h pre)
  simp only [assign]
  rw [hr.1]
  exact setVar_congr cfg hr.2 v x _

theorem selectFont_congr {a b : VMState} (h : VEquiv a b) (pre f : Nat) :
    VEquiv (selectFont a pre f) (selectFont b pre f) := by
  have hr := rarg_congr (applyPrefix_congr h pre)
  simp only [selectFont]
  rw [hr.1]
  have hm := hr.2
  exact ⟨hm.vars, hm.save, rfl, by simp only [hm.fontSave, hm.font], hm.scopeBit, hm.cmdsAbs,
    hm.activeAbs, hm.invCa, hm.invCb, hm.invAa, hm.invAb⟩

theorem getCmd_congr {a b : VMState} (h : VEquiv a b) (t : CTarget) : getCmd a t = getCmd b t := by
  cases t with
  | cs n => exact get_congr _ _ h.cmdsAbs n
  | act c => exact get_congr _ _ h.activeAbs c

theorem resolveDef_congr {a b : VMState} (h : VEquiv a b) (d : Def) :
    resolveDef a d = resolveDef b d := by
  cases d <;> first | rfl | exact getCmd_congr h _

theorem insertCmd_congr {a b : VMState} (h : VEquiv a b) (t : CTarget) (c : Cmd) (s : Scope) :
    VEquiv (insertCmd a t c s) (insertCmd b t c s) := by
  cases t with
  | cs n =>
    have hi := insert_congr _ _ h.cmdsAbs h.invCa h.invCb n c s
    exact ⟨h.vars, h.save, h.font, h.fontSave, h.scopeBit, hi.1, h.activeAbs, hi.2.1, hi.2.2,
      h.invAa, h.invAb⟩
  | act ch =>
    have hi := insert_congr _ _ h.activeAbs h.invAa h.invAb ch c s
    exact ⟨h.vars, h.save, h.font, h.fontSave, h.scopeBit, h.cmdsAbs, hi.1, h.invCa, h.invCb,
      hi.2.1, hi.2.2⟩

theorem define_congr (cfg : Variant) {a b : VMState} (h : VEquiv a b) (pre : Nat) (t : CTarget)
    (d : Def) :
    (define cfg a pre t d = none ∧ define cfg b pre t d = none) ∨
      ∃ x y, define cfg a pre t d = some x ∧ define cfg b pre t d = some y ∧ VEquiv x y := by
  have hr := rarg_congr (applyPrefix_congr h pre)
  have hd := resolveDef_congr hr.2 d
  unfold define
  by_cases hc : pre ≠ 0 ∧ needsFixC d = true ∧ cfg.fixC = false
  · rw [if_pos hc, if_pos hc]; exact Or.inl ⟨rfl, rfl⟩
  · rw [if_neg hc, if_neg hc]
    simp only []
    rw [hd, hr.1]
    cases hres : resolveDef (readAndResetGlobal (applyPrefix pre b)).2 d with
    | none => exact Or.inr ⟨_, _, rfl, rfl, hr.2⟩
    | some c => exact Or.inr ⟨_, _, rfl, rfl, insertCmd_congr hr.2 t c _⟩

theorem mapBeginGroup_congr (cfg : Variant) {a b : VMState} (h : VEquiv a b) :
    VEquiv (mapBeginGroup cfg a) (mapBeginGroup cfg b) := by
  have hc := beginGroup_congr _ _ h.cmdsAbs h.invCa h.invCb
  have ha := beginGroup_congr _ _ h.activeAbs h.invAa h.invAb
  unfold mapBeginGroup
  cases hB : cfg.fixB with
  | true =>
    exact ⟨h.vars, h.save, h.font, h.fontSave, h.scopeBit, hc.1, ha.1, hc.2.1, hc.2.2,
      ha.2.1, ha.2.2⟩
  | false =>
    exact ⟨h.vars, h.save, h.font, h.fontSave, h.scopeBit, hc.1, h.activeAbs, hc.2.1, hc.2.2,
      h.invAa, h.invAb⟩

theorem vmBeginGroup_congr (cfg : Variant) {a b : VMState} (h : VEquiv a b) :
    VEquiv (C01.beginGroup cfg a) (C01.beginGroup cfg b) := by
  have hm := mapBeginGroup_congr cfg h
  unfold C01.beginGroup
  exact ⟨hm.vars, by simp only [hm.save], hm.font, by simp only [hm.fontSave], hm.scopeBit,
    hm.cmdsAbs, hm.activeAbs, hm.invCa, hm.invCb, hm.invAa, hm.invAb⟩

theorem mapEndGroup_congr (cfg : Variant) {a b : VMState} (h : VEquiv a b) :
    (mapEndGroup cfg a = none ∧ mapEndGroup cfg b = none) ∨
      ∃ x y, mapEndGroup cfg a = some x ∧ mapEndGroup cfg b = some y ∧ VEquiv x y := by
  unfold mapEndGroup
  rcases endGroup_congr _ _ h.cmdsAbs h.invCa h.invCb with ⟨hc1, hc2⟩ | ⟨c, c', hc1, hc2, hcabs, hci, hci'⟩
  · rw [hc1, hc2]; exact Or.inl ⟨rfl, rfl⟩
  · rw [hc1, hc2]
    cases hB : cfg.fixB with
    | false =>
      simp only [Bool.false_eq_true, if_false]
      exact Or.inr ⟨_, _, rfl, rfl, ⟨h.vars, h.save, h.font, h.fontSave, h.scopeBit, hcabs,
        h.activeAbs, hci, hci', h.invAa, h.invAb⟩⟩
    | true =>
      simp only [if_true]
      rcases endGroup_congr _ _ h.activeAbs h.invAa h.invAb with
        ⟨ha1, ha2⟩ | ⟨x, x', ha1, ha2, haabs, hai, hai'⟩
      · rw [ha1, ha2]; exact Or.inl ⟨rfl, rfl⟩
      · rw [ha1, ha2]
        exact Or.inr ⟨_, _, rfl, rfl, ⟨h.vars, h.save, h.font, h.fontSave, h.scopeBit, hcabs,
          haabs, hci, hci', hai, hai'⟩⟩

theorem vmEndGroup_congr (cfg : Variant) {a b : VMState} (h : VEquiv a b) :
    (C01.endGroup cfg a = .errNoGroup ∧ C01.endGroup cfg b = .errNoGroup) ∨
    (C01.endGroup cfg a = .panic ∧ C01.endGroup cfg b = .panic) ∨
      ∃ x y, C01.endGroup cfg a = .ok x ∧ C01.endGroup cfg b = .ok y ∧ VEquiv x y := by
  unfold C01.endGroup
  rcases mapEndGroup_congr cfg h with ⟨h1, h2⟩ | ⟨m, m', h1, h2, hm⟩
  · rw [h1, h2]; exact Or.inl ⟨rfl, rfl⟩
  · rw [h1, h2]
    obtain ⟨vars, save, cmds, active, font, fontSave, bit⟩ := m
    obtain ⟨vars', save', cmds', active', font', fontSave', bit'⟩ := m'
    obtain ⟨e1, e2, e3, e4, e5, e6, e7, e8, e9, e10, e11⟩ := hm
    simp only at e1 e2 e3 e4 e5 e6 e7 e8 e9 e10 e11
    subst e1 e2 e3 e4 e5
    simp only []
    cases save with
    | nil => exact Or.inr (Or.inl ⟨rfl, rfl⟩)
    | cons g gs =>
      simp only []
      cases fontSave with
      | nil => exact Or.inr (Or.inl ⟨rfl, rfl⟩)
      | cons o fs =>
        cases o with
        | none =>
          exact Or.inr (Or.inr ⟨_, _, rfl, rfl, ⟨rfl, rfl, rfl, rfl, rfl, e6, e7, e8, e9, e10, e11⟩⟩)
        | some f =>
          exact Or.inr (Or.inr ⟨_, _, rfl, rfl, ⟨rfl, rfl, rfl, rfl, rfl, e6, e7, e8, e9, e10, e11⟩⟩)

theorem readTarget_congr {a b : VMState} (h : VEquiv a b) (t : Target) :
    readTarget a t = readTarget b t := by
  cases t with
  | var v => simp only [readTarget, h.vars]
  | cmd t => simp only [readTarget, getCmd_congr h t, h.vars]
  | font => simp only [readTarget, h.font]

/-! ## The two theorems -/

theorem step_congr (cfg : Variant) (a b : VMState) (h : VEquiv a b) (op : C01.Op) :
    (C01.step cfg a op).2 = (C01.step cfg b op).2 ∧
      VEquiv (C01.step cfg a op).1 (C01.step cfg b op).1 := by
  cases op with
  | beginGroup => exact ⟨rfl, vmBeginGroup_congr cfg h⟩
  | endGroup =>
    simp only [C01.step]
    rcases vmEndGroup_congr cfg h with ⟨h1, h2⟩ | ⟨h1, h2⟩ | ⟨x, y, h1, h2, hxy⟩
    · rw [h1, h2]; exact ⟨rfl, h⟩
    · rw [h1, h2]; exact ⟨rfl, h⟩
    · rw [h1, h2]; exact ⟨rfl, hxy⟩
  | assign pre v x => exact ⟨rfl, assign_congr cfg h pre v x⟩
  | define pre t d =>
    simp only [C01.step]
    rcases define_congr cfg h pre t d with ⟨h1, h2⟩ | ⟨x, y, h1, h2, hxy⟩
    · rw [h1, h2]; exact ⟨rfl, h⟩
    · rw [h1, h2]; exact ⟨rfl, hxy⟩
  | selectFont pre f => exact ⟨rfl, selectFont_congr h pre f⟩
  | read t => exact ⟨readTarget_congr h t, h⟩

theorem run_congr (cfg : Variant) (a b : VMState) (h : VEquiv a b) (ops : List C01.Op) :
    (C01.run cfg a ops).2 = (C01.run cfg b ops).2 := by
  induction ops generalizing a b with
  | nil => rfl
  | cons op ops ih =>
    have hs := step_congr cfg a b h op
    simp only [C01.run]
    rw [hs.1]
    cases hf : (C01.step cfg b op).2.fatal with
    | true => simp only [if_true]
    | false =>
      simp only [Bool.false_eq_true, if_false]
      rw [ih _ _ hs.2]

end C08
