import TexcraftModel.Model.C04Algo

/-!
# C04: the final choice (TeX.2021.874-875)

`firstBest` returns the first node of least total demerits; `loosen` implements the looseness rule.
Core Lean only.
-/
namespace C04

/-! ## `firstBest` -/

private theorem loos_fb_cons (acc x : ANode) (l : List ANode) :
    firstBest acc (x :: l) = firstBest (if x.total < acc.total then x else acc) l := by
  simp [firstBest, List.foldl_cons]

private theorem loos_fb_aux (l : List ANode) :
    ∀ (p1 p2 : List ANode) (acc : ANode),
      (∀ ν, ν ∈ p1 → acc.total < ν.total) → (∀ ν, ν ∈ p2 → acc.total ≤ ν.total) →
      ∃ l1 l2, p1 ++ acc :: (p2 ++ l) = l1 ++ firstBest acc l :: l2 ∧
        (∀ ν, ν ∈ l1 → (firstBest acc l).total < ν.total) ∧
        (∀ ν, ν ∈ p1 ++ acc :: (p2 ++ l) → (firstBest acc l).total ≤ ν.total) := by
  induction l with
  | nil =>
    intro p1 p2 acc h1 h2
    refine ⟨p1, p2, by simp [firstBest], by simpa [firstBest] using h1, ?_⟩
    intro ν hν
    simp only [firstBest, List.foldl_nil, List.append_nil, List.mem_append, List.mem_cons] at hν ⊢
    rcases hν with h | h | h
    · exact Int.le_of_lt (h1 ν h)
    · subst h; exact Int.le_refl _
    · exact h2 ν h
  | cons x l ih =>
    intro p1 p2 acc h1 h2
    rw [loos_fb_cons]
    by_cases hx : x.total < acc.total
    · rw [if_pos hx]
      have h1' : ∀ ν, ν ∈ p1 ++ acc :: p2 → x.total < ν.total := by
        intro ν hν
        simp only [List.mem_append, List.mem_cons] at hν
        rcases hν with h | h | h
        · have := h1 ν h; omega
        · subst h; exact hx
        · have := h2 ν h; omega
      have h2' : ∀ ν, ν ∈ ([] : List ANode) → x.total ≤ ν.total := by
        intro ν hν; cases hν
      have := ih (p1 ++ acc :: p2) [] x h1' h2'
      simpa [List.append_assoc] using this
    · rw [if_neg hx]
      have h2' : ∀ ν, ν ∈ p2 ++ [x] → acc.total ≤ ν.total := by
        intro ν hν
        simp only [List.mem_append, List.mem_cons, List.mem_nil_iff, or_false] at hν
        rcases hν with h | h
        · exact h2 ν h
        · subst h; omega
      have := ih p1 (p2 ++ [x]) acc h1 h2'
      simpa [List.append_assoc] using this

/-- `firstBest` returns the FIRST element of least total. -/
theorem firstBest_split (first : ANode) (t : List ANode) :
    ∃ l1 l2, first :: t = l1 ++ firstBest first (first :: t) :: l2 ∧
      (∀ ν, ν ∈ l1 → (firstBest first (first :: t)).total < ν.total) ∧
      (∀ ν, ν ∈ first :: t → (firstBest first (first :: t)).total ≤ ν.total) := by
  have h0 : firstBest first (first :: t) = firstBest first t := by
    rw [loos_fb_cons, if_neg (Int.lt_irrefl _)]
  rw [h0]
  have := loos_fb_aux t [] [] first (by intro ν hν; cases hν) (by intro ν hν; cases hν)
  simpa using this

/-! ## `loosen` -/

/-- One step of the looseness loop; `bl` is the line number of the best node. -/
def loos_step (q : Int) (bl : Nat) (s : ANode × Int) (ν : ANode) : ANode × Int :=
  if (((ν.line : Int) - (bl : Int)) < s.2 ∧ q ≤ ((ν.line : Int) - (bl : Int))) ∨
      (s.2 < ((ν.line : Int) - (bl : Int)) ∧ ((ν.line : Int) - (bl : Int)) ≤ q) then
    (ν, ((ν.line : Int) - (bl : Int)))
  else if ((ν.line : Int) - (bl : Int)) = s.2 ∧ ν.total < s.1.total then (ν, s.2)
  else s

theorem loos_loosen_eq (q : Int) (b : ANode) (act : List ANode) :
    loosen q b act = act.foldl (loos_step q b.line) (b, 0) := rfl

/-- The loop invariant over the processed prefix `P`. -/
def loos_Inv (q : Int) (b : ANode) (P : List ANode) (s : ANode × Int) : Prop :=
  ((0 ≤ s.2 ∧ s.2 ≤ q) ∨ (q ≤ s.2 ∧ s.2 ≤ 0)) ∧
  (((s.1.line : Int) - (b.line : Int)) = s.2) ∧
  (s.1 = b ∨ s.1 ∈ P) ∧
  (∀ ν, ν ∈ P →
    ((0 ≤ ((ν.line : Int) - (b.line : Int)) ∧ ((ν.line : Int) - (b.line : Int)) ≤ q →
        ((ν.line : Int) - (b.line : Int)) ≤ s.2) ∧
     (q ≤ ((ν.line : Int) - (b.line : Int)) ∧ ((ν.line : Int) - (b.line : Int)) ≤ 0 →
        s.2 ≤ ((ν.line : Int) - (b.line : Int))))) ∧
  (s.2 ≠ 0 → ∀ ν, ν ∈ P → ((ν.line : Int) - (b.line : Int)) = s.2 → s.1.total ≤ ν.total)

theorem loos_Inv_init (q : Int) (b : ANode) : loos_Inv q b [] (b, 0) := by
  refine ⟨by simp only; omega, by simp only; omega, Or.inl rfl, ?_, ?_⟩
  · intro ν hν; cases hν
  · intro _ ν hν; cases hν

theorem loos_Inv_step (q : Int) (b : ANode) (P : List ANode) (s : ANode × Int) (ν : ANode)
    (h : loos_Inv q b P s) : loos_Inv q b (P ++ [ν]) (loos_step q b.line s ν) := by
  obtain ⟨s1, s2⟩ := s
  obtain ⟨hi, hii, hiii, hiv, hv⟩ := h
  simp only at hi hii hiii hiv hv
  unfold loos_step
  simp only
  generalize hd : ((ν.line : Int) - (b.line : Int)) = d
  by_cases c1 : (d < s2 ∧ q ≤ d) ∨ (s2 < d ∧ d ≤ q)
  · rw [if_pos c1]
    refine ⟨by simp only; omega, by simp only; omega, Or.inr (by simp), ?_, ?_⟩
    · intro μ hμ
      simp only [List.mem_append, List.mem_cons, List.mem_nil_iff, or_false] at hμ
      rcases hμ with hμ | hμ
      · have := hiv μ hμ
        simp only; omega
      · subst hμ; simp only; omega
    · intro hne μ hμ hdμ
      simp only [List.mem_append, List.mem_cons, List.mem_nil_iff, or_false] at hμ
      simp only at hne hdμ ⊢
      rcases hμ with hμ | hμ
      · have := hiv μ hμ
        omega
      · subst hμ; exact Int.le_refl _
  · rw [if_neg c1]
    by_cases c2 : d = s2 ∧ ν.total < s1.total
    · rw [if_pos c2]
      refine ⟨by simp only; omega, by simp only; omega, Or.inr (by simp), ?_, ?_⟩
      · intro μ hμ
        simp only [List.mem_append, List.mem_cons, List.mem_nil_iff, or_false] at hμ
        rcases hμ with hμ | hμ
        · have := hiv μ hμ
          simp only; omega
        · subst hμ; simp only; omega
      · intro hne μ hμ hdμ
        simp only [List.mem_append, List.mem_cons, List.mem_nil_iff, or_false] at hμ
        simp only at hne hdμ ⊢
        rcases hμ with hμ | hμ
        · have := hv hne μ hμ hdμ
          omega
        · subst hμ; exact Int.le_refl _
    · rw [if_neg c2]
      refine ⟨hi, hii, ?_, ?_, ?_⟩
      · rcases hiii with h | h
        · exact Or.inl h
        · exact Or.inr (by simp [h])
      · intro μ hμ
        simp only [List.mem_append, List.mem_cons, List.mem_nil_iff, or_false] at hμ
        rcases hμ with hμ | hμ
        · exact hiv μ hμ
        · subst hμ; simp only; omega
      · intro hne μ hμ hdμ
        simp only [List.mem_append, List.mem_cons, List.mem_nil_iff, or_false] at hμ
        simp only at hne hdμ ⊢
        rcases hμ with hμ | hμ
        · exact hv hne μ hμ hdμ
        · subst hμ; omega

theorem loos_Inv_foldl (q : Int) (b : ANode) (l : List ANode) :
    ∀ (P : List ANode) (s : ANode × Int), loos_Inv q b P s →
      loos_Inv q b (P ++ l) (l.foldl (loos_step q b.line) s) := by
  induction l with
  | nil => intro P s h; simpa using h
  | cons ν l ih =>
    intro P s h
    have := ih (P ++ [ν]) _ (loos_Inv_step q b P s ν h)
    simpa [List.append_assoc] using this

/-- The looseness loop (`q ≠ 0`): the chosen node's line difference is `actual_looseness`; the
request is met exactly iff some node has exactly that line difference; and then the chosen node
has the least total among those. -/
theorem loosen_spec (q : Int) (hq : q ≠ 0) (b : ANode) (act : List ANode) (hb : b ∈ act) :
    ((loosen q b act).1 ∈ act) ∧
    (((loosen q b act).1.line : Int) - (b.line : Int) = (loosen q b act).2) ∧
    ((loosen q b act).2 = q ↔ ∃ ν, ν ∈ act ∧ ((ν.line : Int) - (b.line : Int)) = q) ∧
    ((loosen q b act).2 = q → ∀ ν, ν ∈ act → ((ν.line : Int) - (b.line : Int)) = q →
        (loosen q b act).1.total ≤ ν.total) := by
  have h := loos_Inv_foldl q b act [] (b, 0) (loos_Inv_init q b)
  rw [← loos_loosen_eq, List.nil_append] at h
  obtain ⟨hi, hii, hiii, hiv, hv⟩ := h
  have hmem : (loosen q b act).1 ∈ act := by
    rcases hiii with h | h
    · rw [h]; exact hb
    · exact h
  refine ⟨hmem, hii, ⟨fun h => ⟨_, hmem, by omega⟩, ?_⟩, ?_⟩
  · rintro ⟨ν, hν, hd⟩
    have := hiv ν hν
    omega
  · intro h ν hν hd
    exact hv (by omega) ν hν (by omega)

end C04
