import TexcraftModel.Model.C10Cst

/-! Helper lemmas for the CST model: every scanner returns a suffix, every iteration of the
main loop consumes at least one character. -/
namespace C10.Cst

theorem spanP_length (p : Char → Bool) : ∀ l : List Char,
    (spanP p l).1.length + (spanP p l).2.length = l.length
  | [] => by simp [spanP]
  | c :: t => by
    have ih := spanP_length p t
    simp only [spanP]
    split
    · simp only [List.length_cons]; omega
    · simp

theorem spanP_rest_le (p : Char → Bool) (l : List Char) : (spanP p l).2.length ≤ l.length := by
  have := spanP_length p l; omega

theorem scanComment_rest_le : ∀ (l : List Char) (cs : List Nat) (pos : Nat) (acc : List Char),
    (scanComment cs pos l acc).2.2.2.length ≤ l.length
  | [], cs, pos, acc => by simp [scanComment]
  | c :: t, cs, pos, acc => by
    simp only [scanComment]
    split
    · have := scanComment_rest_le t (pos :: cs) (pos + 1) (c :: acc)
      simp only [List.length_cons]; omega
    · split
      · split
        · simp
        · have := scanComment_rest_le t cs.tail (pos + 1) (c :: acc)
          simp only [List.length_cons]
          omega
      · have := scanComment_rest_le t cs (pos + 1) (c :: acc)
        simp only [List.length_cons]; omega

/-- Every iteration consumes at least one character. -/
theorem step_decreases (alnum : Char → Bool) (st : State) (h : st.rest ≠ []) :
    (step alnum st).rest.length < st.rest.length := by
  unfold step
  match hr : st.rest with
  | [] => exact absurd hr h
  | c :: t =>
    simp only []
    split
    · -- '('
      split
      · have h1 := scanComment_rest_le (spanP (isKeyChar alnum) t).2 [st.pos]
          (st.pos + 1 + (spanP (isKeyChar alnum) t).1.length) []
        have h2 := spanP_rest_le (isKeyChar alnum) t
        simp only [List.length_cons]
        omega
      · have h2 := spanP_rest_le (isKeyChar alnum) t
        have h3 := spanP_rest_le isBlank (spanP (isKeyChar alnum) t).2
        have h4 := spanP_rest_le notParen (spanP isBlank (spanP (isKeyChar alnum) t).2).2
        simp only [List.length_cons]
        omega
    · split
      · -- ')'
        split <;> simp
      · split
        · simp
        · -- junk
          rename_i h1 h2 _
          have hp : notParen c = true := by simp [notParen, h1, h2]
          have := spanP_rest_le notParen t
          simp only [spanP, hp, if_true, List.length_cons]
          omega

theorem loop_some (alnum : Char → Bool) : ∀ (n : Nat) (st : State), st.rest.length < n →
    ∃ st', loop alnum n st = some st' ∧ st'.rest = []
  | 0, st, h => by omega
  | n + 1, st, h => by
    simp only [loop]
    match hr : st.rest with
    | [] => exact ⟨st, rfl, hr⟩
    | c :: t =>
      simp only []
      have hd := step_decreases alnum st (by rw [hr]; simp)
      exact loop_some alnum n (step alnum st) (by omega)

end C10.Cst
