/-
C11 — the header layer: `headerTrip` keeps checksum, design size, face and the additional
words, changes the strings only by upper-casing, and is idempotent.
-/
import TexcraftModel.Model.C11Header

namespace C11

theorem upperByte_idem (c : Nat) : upperByte (upperByte c) = upperByte c := by
  simp only [upperByte]
  by_cases h : 97 ≤ c ∧ c ≤ 122
  · have h2 : ¬ (97 ≤ c - 32 ∧ c - 32 ≤ 122) := by omega
    simp only [h, and_self, if_true, h2, if_false]
  · simp [h]

theorem map_upper_idem (l : List Nat) : (l.map upperByte).map upperByte = l.map upperByte := by
  rw [List.map_map]
  apply List.map_congr_left
  intro c _
  exact upperByte_idem c

theorem upperByte_eq_32 (c : Nat) : (upperByte c == 32) = (c == 32) := by
  by_cases h : 97 ≤ c ∧ c ≤ 122
  · have e : upperByte c = c - 32 := by simp [upperByte, h]
    have h1 : ¬ c - 32 = 32 := by omega
    have h2 : ¬ c = 32 := by omega
    rw [e]
    have b1 : (c - 32 == 32) = false := by simpa using h1
    have b2 : (c == 32) = false := by simpa using h2
    rw [b1, b2]
  · have e : upperByte c = c := by simp [upperByte, h]
    rw [e]

theorem dropLead_length_le (l : List Nat) : (dropLead l).length ≤ l.length := by
  simp only [dropLead]
  induction l with
  | nil => simp
  | cons a t ih =>
    simp only [List.dropWhile_cons]
    split
    · simp only [List.length_cons]; omega
    · simp

/-- Dropping the leading blanks of an already trimmed, upper-cased string changes nothing. -/
theorem dropLead_upper_idem (l : List Nat) :
    (dropLead ((dropLead l).map upperByte)).map upperByte = (dropLead l).map upperByte := by
  have h : dropLead ((dropLead l).map upperByte) = (dropLead l).map upperByte := by
    simp only [dropLead]
    induction l with
    | nil => simp
    | cons a t ih =>
      simp only [List.dropWhile_cons]
      by_cases ha : (a == 32) = true
      · simp only [ha, if_true]; exact ih
      · simp only [ha, Bool.false_eq_true, if_false, List.map_cons, List.dropWhile_cons, upperByte_eq_32]
  rw [h]
  exact map_upper_idem _

theorem unspecified_drop : dropLead unspecified = unspecified := by decide

theorem unspecified_upper : unspecified.map upperByte = unspecified := by decide

theorem encStr_length (size : Nat) (cs : List Nat) (h : cs.length ≤ size) : (encStr size cs).length = size + 1 := by
  simp [encStr]; omega

theorem strAt_length_le (hb : List Nat) (off : Nat) : (strAt hb off).length ≤ (hb[off]?).getD 0 := by
  simp only [strAt, List.length_take]
  omega

/-- Reading back a string that was just written. -/
theorem strAt_encStr (A : List Nat) (size : Nat) (cs rest : List Nat) :
    strAt (A ++ encStr size cs ++ rest) A.length = cs := by
  have hidx : (A ++ encStr size cs ++ rest)[A.length]? = some cs.length := by
    rw [List.append_assoc, List.getElem?_append_right (Nat.le_refl _)]
    simp [encStr]
  have hdrop : (A ++ encStr size cs ++ rest).drop (A.length + 1) = cs ++ (List.replicate (size - cs.length) 0 ++ rest) := by
    rw [List.append_assoc, ← List.drop_drop, List.drop_left]
    simp [encStr]
  simp only [strAt, hidx, Option.getD_some, hdrop]
  rw [List.take_append_of_le_length (Nat.le_refl _), List.take_length]

def schemeOf (hb : List Nat) : List Nat := if 48 ≤ hb.length then (dropLead (strAt hb 8)).map upperByte else unspecified
def familyOf (hb : List Nat) : List Nat := if 68 ≤ hb.length then (dropLead (strAt hb 48)).map upperByte else unspecified
def faceOf (hb : List Nat) : Nat := if 72 ≤ hb.length then (hb[71]?).getD 0 else 0

theorem headerTrip_eq (safe : Bool) (hb : List Nat) :
    headerTrip safe hb = hb.take 8 ++ encStr 39 (schemeOf hb) ++ encStr 19 (familyOf hb) ++
      [if safe then 128 else 0, 0, 0, faceOf hb] ++ hb.drop 72 := rfl

theorem schemeOf_le (hb : List Nat) (h : headerOk hb = true) : (schemeOf hb).length ≤ 39 := by
  simp only [headerOk, Bool.and_eq_true, decide_eq_true_eq] at h
  simp only [schemeOf]
  split
  · simp only [List.length_map]
    have := strAt_length_le hb 8
    have := dropLead_length_le (strAt hb 8)
    omega
  · decide

theorem familyOf_le (hb : List Nat) (h : headerOk hb = true) : (familyOf hb).length ≤ 19 := by
  simp only [headerOk, Bool.and_eq_true, decide_eq_true_eq] at h
  simp only [familyOf]
  split
  · simp only [List.length_map]
    have := strAt_length_le hb 48
    have := dropLead_length_le (strAt hb 48)
    omega
  · decide

theorem schemeOf_upper (hb : List Nat) : (dropLead (schemeOf hb)).map upperByte = schemeOf hb := by
  simp only [schemeOf]
  split
  · exact dropLead_upper_idem _
  · rw [unspecified_drop]; exact unspecified_upper

theorem familyOf_upper (hb : List Nat) : (dropLead (familyOf hb)).map upperByte = familyOf hb := by
  simp only [familyOf]
  split
  · exact dropLead_upper_idem _
  · rw [unspecified_drop]; exact unspecified_upper

/-- The parts of the written header, by position. -/
theorem headerTrip_parts (safe : Bool) (hb : List Nat) (h : headerOk hb = true) :
    (headerTrip safe hb).length = 72 + (hb.length - 72) ∧
    (headerTrip safe hb).take 8 = hb.take 8 ∧
    strAt (headerTrip safe hb) 8 = schemeOf hb ∧
    strAt (headerTrip safe hb) 48 = familyOf hb ∧
    (headerTrip safe hb)[68]? = some (if safe then 128 else 0) ∧
    (headerTrip safe hb)[71]? = some (faceOf hb) ∧
    (headerTrip safe hb).drop 72 = hb.drop 72 := by
  have h8 : 8 ≤ hb.length := by
    simp only [headerOk, Bool.and_eq_true, decide_eq_true_eq] at h; exact h.1.1
  have hA : (hb.take 8).length = 8 := by simp; omega
  have hS := encStr_length 39 (schemeOf hb) (schemeOf_le hb h)
  have hF := encStr_length 19 (familyOf hb) (familyOf_le hb h)
  rw [headerTrip_eq]
  refine ⟨?_, ?_, ?_, ?_, ?_, ?_, ?_⟩
  · simp only [List.length_append, hA, hS, hF, List.length_cons, List.length_nil, List.length_drop]
  · rw [List.append_assoc, List.append_assoc, List.append_assoc, List.take_append_of_le_length (by omega)]
    rw [List.take_of_length_le (by omega)]
  · have := strAt_encStr (hb.take 8) 39 (schemeOf hb)
      (encStr 19 (familyOf hb) ++ [if safe then 128 else 0, 0, 0, faceOf hb] ++ hb.drop 72)
    rw [hA] at this
    simpa [List.append_assoc] using this
  · have := strAt_encStr (hb.take 8 ++ encStr 39 (schemeOf hb)) 19 (familyOf hb)
      ([if safe then 128 else 0, 0, 0, faceOf hb] ++ hb.drop 72)
    rw [List.length_append, hA, hS] at this
    simpa [List.append_assoc] using this
  · have hl : (hb.take 8 ++ encStr 39 (schemeOf hb) ++ encStr 19 (familyOf hb)).length = 68 := by
      simp only [List.length_append, hA, hS, hF]
    rw [List.append_assoc _ [_, _, _, _] _, List.getElem?_append_right (by omega), hl]
    simp
  · have hl : (hb.take 8 ++ encStr 39 (schemeOf hb) ++ encStr 19 (familyOf hb)).length = 68 := by
      simp only [List.length_append, hA, hS, hF]
    rw [List.append_assoc _ [_, _, _, _] _, List.getElem?_append_right (by omega), hl]
    simp
  · have hl : (hb.take 8 ++ encStr 39 (schemeOf hb) ++ encStr 19 (familyOf hb) ++
        [if safe then 128 else 0, 0, 0, faceOf hb]).length = 72 := by
      simp only [List.length_append, hA, hS, hF, List.length_cons, List.length_nil]
    rw [List.drop_append_of_le_length (by omega), ← hl, List.drop_length]
    simp

/-- **The second trip is the identity on the header.** -/
theorem headerTrip_idem_aux (safe : Bool) (hb : List Nat) (h : headerOk hb = true) :
    headerTrip safe (headerTrip safe hb) = headerTrip safe hb := by
  obtain ⟨hlen, htake, hsch, hfam, _, hface, hdrop⟩ := headerTrip_parts safe hb h
  have h72 : 72 ≤ (headerTrip safe hb).length := by omega
  have e1 : schemeOf (headerTrip safe hb) = schemeOf hb := by
    simp only [schemeOf, show 48 ≤ (headerTrip safe hb).length by omega, if_true, hsch]
    exact schemeOf_upper hb
  have e2 : familyOf (headerTrip safe hb) = familyOf hb := by
    simp only [familyOf, show 68 ≤ (headerTrip safe hb).length by omega, if_true, hfam]
    exact familyOf_upper hb
  have e3 : faceOf (headerTrip safe hb) = faceOf hb := by
    simp only [faceOf, h72, if_true, hface, Option.getD_some]
  conv => lhs; rw [headerTrip_eq]
  rw [e1, e2, e3, htake, hdrop]
  rfl

end C11
